import Hive.Proofs.SerixJson
import Hive.Spec.SerixJsonCanon
/-!
# `MapDecode (MapEncode v) = canon v` for every well-typed value

The round trip of `Hive/Proofs/SerixJson.lean` once more, this time without excluding the values the
form hands back changed: nil slices / maps, `omitempty` on anything `IsZero` accepts, `-0`, times before
the epoch, NaN payloads (`Hive/Spec/SerixJsonCanon.lean`).  Same mutual structural induction; the
`omitempty` / `optional` branches need no lemma about `IsZero` any more, because `canon` says for a
skipped field exactly what the decoder leaves there.
-/
namespace Hive.SerixJson

variable (fc : FloatCodec) (o : Opts)

/-- typed byte arrays / typed `[]byte` for every well-typed value (a nil typed `[]byte` held by value
comes back empty). -/
theorem rtc_typedBytes (viaPtr : Bool) (n : Option Nat) (code : Nat) (key key0 : String) (v : Val) (j : Json)
    (hp : viaPtr = false ∨ n.isSome = true) (hkey : ¬ key = "type")
    (hv : wt fc (.typedBytes viaPtr n code key0) v = true)
    (h : encTypedBytes viaPtr n code key v = .ok j) :
    decTypedBytes n key j = .ok (canon fc (.typedBytes viaPtr n code key0) v) ∧ TypeMemberOf code j := by
  cases v with
  | bytes bs =>
    have hv' : valOk fc (.typedBytes viaPtr n code key0) (.bytes bs) = true := by
      cases viaPtr <;> cases n <;> simp_all [wt, valOk]
    have := rt_typedBytes fc viaPtr n code key key0 (.bytes bs) j hp hkey hv' h
    cases viaPtr <;> cases n <;> simpa [canon] using this
  | nil =>
    cases viaPtr with
    | true => simp [encTypedBytes] at h
    | false =>
      cases n with
      | some n => simp [wt] at hv
      | none =>
        have hk : key ∉ keys [("type", Json.num (code : Int))] := by
          simp only [keys, List.map_cons, List.map_nil, List.mem_singleton]
          exact hkey
        have hl : ∀ x, jlookup key [("type", Json.num (code : Int)), (key, x)] = some x := by
          intro x
          simp only [jlookup]
          rw [if_neg (fun e => hkey e.symm)]
          simp
        simp only [encTypedBytes, Bool.false_eq_true, if_false, if_true, objSet_of_not_mem _ hk,
          Except.ok.injEq] at h
        subst h
        have := decodeHex_encodeHex []
        exact ⟨by simp [decTypedBytes, asObj, hl, ofOpt, asStr, this, canon], _, rfl, by simp [jlookup]⟩
  | _ => exact absurd hv (by cases viaPtr <;> cases n <;> simp [wt])

mutual
theorem rtc_ty (htot : fc.Total) : ∀ (t : JTy) (v : Val) (j : Json), expressible t = true → wt fc t v = true →
    mapEncode fc o t v = .ok j →
    mapDecode fc o t j = .ok (canon fc t v) ∧ (∀ c, altShape c t = true → TypeMemberOf c j)
  | .bool, v, j, _, hv, h => by
    cases v <;> simp [wt] at hv
    simp only [mapEncode, Except.ok.injEq] at h
    subst h
    exact ⟨by simp [mapDecode, canon], by simp [altShape]⟩
  | .uint w, v, j, hx, hv, h => by
    cases v <;> simp only [wt, Bool.false_eq_true] at hv
    rename_i n
    refine ⟨?_, by simp [altShape]⟩
    simp only [mapEncode, hv, if_true] at h
    have hv' := hv
    simp only [inU, Bool.and_eq_true, decide_eq_true_eq] at hv'
    by_cases hw : w = 64
    · subst hw
      simp only [if_true, Except.ok.injEq] at h
      subst h
      have hlt : n.toNat < 2 ^ 64 := by
        have := hv'.2; simp only [pow2] at this; omega
      have hn : ((n.toNat : Nat) : Int) = n := by omega
      simp [mapDecode, asStr, parseDec_decStr, ofOpt, hlt, hn, canon]
    · simp only [hw, if_false, Except.ok.injEq] at h
      subst h
      have hw' : w = 8 ∨ w = 16 ∨ w = 32 := by
        simp only [expressible, Bool.or_eq_true, decide_eq_true_eq] at hx
        omega
      simp [mapDecode, hw, wrapU_of_inU hw' hv, canon]
  | .int w, v, j, hx, hv, h => by
    cases v <;> simp only [wt, Bool.false_eq_true] at hv
    rename_i n
    refine ⟨?_, by simp [altShape]⟩
    simp only [mapEncode, hv, if_true] at h
    by_cases hw : w = 64
    · subst hw
      simp only [if_true, Except.ok.injEq] at h
      subst h
      simp [mapDecode, asStr, parseInt_intStr, ofOpt, hv, canon]
    · simp only [hw, if_false, Except.ok.injEq] at h
      subst h
      have hw' : w = 8 ∨ w = 16 ∨ w = 32 := by
        simp only [expressible, Bool.or_eq_true, decide_eq_true_eq] at hx
        omega
      simp [mapDecode, hw, wrapS_of_inS hw' hv, canon]
  | .float w, v, j, _, hv, h => by
    cases v <;> simp only [wt, Bool.false_eq_true] at hv
    rename_i b
    refine ⟨?_, by simp [altShape]⟩
    simp only [mapEncode, Except.ok.injEq] at h
    subst h
    obtain ⟨b', hb'⟩ := htot w b
    simp [mapDecode, asStr, hb', ofOpt, canon]
  | .str b, v, j, _, hv, h => by
    cases v <;> simp only [wt, Bool.false_eq_true] at hv
    rename_i s
    refine ⟨?_, by simp [altShape]⟩
    simp only [mapEncode] at h
    obtain ⟨u, hu, h⟩ := bind_eq_ok.mp h
    simp only [pure_eq_ok, Except.ok.injEq] at h
    subst h
    simp [mapDecode, asStr, checkLen_ok_unit hu, canon]
  | .bytes b, v, j, _, hv, h => by
    refine ⟨?_, by simp [altShape]⟩
    cases v <;> simp only [wt, Bool.false_eq_true] at hv
    · simp only [mapEncode] at h
      obtain ⟨u, hu, h⟩ := bind_eq_ok.mp h
      simp only [pure_eq_ok, Except.ok.injEq] at h
      subst h
      have := decodeHex_encodeHex []
      simp [mapDecode, asStr, this, ofOpt, checkLen_ok_unit hu, canon]
    · rename_i bs
      simp only [mapEncode] at h
      obtain ⟨u, hu, h⟩ := bind_eq_ok.mp h
      simp only [pure_eq_ok, Except.ok.injEq] at h
      subst h
      simp [mapDecode, asStr, decodeHex_encodeHex, ofOpt, checkLen_ok_unit hu, canon]
  | .byteArr viaPtr n, v, j, _, hv, h => by
    cases v with
    | bytes bs =>
      simp only [wt, decide_eq_true_eq] at hv
      refine ⟨?_, by simp [altShape]⟩
      simp only [mapEncode, hv, if_true, Except.ok.injEq] at h
      subst h
      simp [mapDecode, asStr, decodeHex_encodeHex, ofOpt, fit_eq hv, canon]
    | nil => cases viaPtr <;> simp [mapEncode] at h
    | _ => exact absurd hv (by cases viaPtr <;> simp [wt])
  | .typedBytes viaPtr n code key, v, j, hx, hv, h => by
    simp only [expressible, Bool.and_eq_true, bne_iff_ne, ne_eq, Bool.or_eq_true,
      Bool.not_eq_eq_eq_not, Bool.not_true] at hx
    obtain ⟨hp, hkey⟩ := hx
    simp only [mapEncode] at h
    obtain ⟨hd, hs⟩ := rtc_typedBytes fc viaPtr n code key key v j hp hkey hv h
    refine ⟨?_, ?_⟩
    · cases viaPtr <;> cases n <;> first | exact (by simpa [mapDecode] using hd) | simp at hp
    · intro c hc
      simp only [altShape, decide_eq_true_eq] at hc
      subst hc
      exact hs
  | .u256, v, j, _, hv, h => by
    cases v <;> simp only [wt, Bool.false_eq_true] at hv
    · simp [mapEncode] at h
    · rename_i n
      refine ⟨?_, by simp [altShape]⟩
      simp only [Bool.and_eq_true, decide_eq_true_eq] at hv
      simp only [pow2] at hv
      simp only [mapEncode, Except.ok.injEq] at h
      subst h
      have hn : ((n.toNat : Nat) : Int) = n := by omega
      simp [mapDecode, asStr, decodeBig_encodeBig n hv.1 hv.2, ofOpt, hn, canon]
  | .time, v, j, _, hv, h => by
    refine ⟨?_, by simp [altShape]⟩
    have hz : mapDecode fc o .time (.str (decStr 0)) = .ok (.num 0) := by
      simp [mapDecode, asStr, decTime, parseDec_decStr, ofOpt]
    cases v <;> simp only [wt, Bool.false_eq_true] at hv
    · simp only [mapEncode, Except.ok.injEq] at h
      subst h
      simpa [canon] using hz
    · rename_i n
      clear hv
      by_cases h0 : n < 0
      · simp only [mapEncode, encTime, h0, if_true, Except.ok.injEq] at h
        subst h
        simpa [canon, h0] using hz
      · by_cases hv : n < pow2 63
        · simp only [mapEncode, encTime, h0, if_false, hv, if_true, Except.ok.injEq] at h
          subst h
          have h63 : n.toNat < 2 ^ 63 := by
            have := hv; simp only [pow2] at this; omega
          have h64 : n.toNat < 2 ^ 64 := by omega
          have hn : ((n.toNat : Nat) : Int) = n := by omega
          simp [mapDecode, asStr, decTime, parseDec_decStr, ofOpt, h63, h64, hn, canon, h0, hv]
        · simp only [mapEncode, encTime, h0, if_false, hv, Except.ok.injEq] at h
          subst h
          simp [mapDecode, asStr, decTime, parseDec_decStr, ofOpt, canon, h0, hv, maxNano]
  | .slice b e, v, j, hx, hv, h => by
    refine ⟨?_, by simp [altShape]⟩
    simp only [expressible] at hx
    cases v <;> simp only [wt, Bool.false_eq_true] at hv
    · simp only [mapEncode] at h
      obtain ⟨u, hu, h⟩ := bind_eq_ok.mp h
      simp only [pure_eq_ok, Except.ok.injEq] at h
      subst h
      simp [mapDecode, asArr, checkLen_ok_unit hu, canon]
    · rename_i xs
      simp only [mapEncode] at h
      obtain ⟨u, hu, h⟩ := bind_eq_ok.mp h
      obtain ⟨js, hjs, rfl⟩ := map_eq_ok.mp h
      have hall := List.all_eq_true.mp hv
      have hdec := mapM_roundtrip_map (mapEncode fc o e) (mapDecode fc o e) (canon fc e) xs js
        (fun x hx' y hy => (rtc_ty htot e x y hx (hall x hx') hy).1) hjs
      simp [mapDecode, asArr, hdec, checkLen_ok_unit hu, canon]
  | .array n e, v, j, hx, hv, h => by
    cases v <;> simp only [wt, Bool.false_eq_true] at hv
    rename_i xs
    refine ⟨?_, by simp [altShape]⟩
    simp only [expressible] at hx
    simp only [Bool.and_eq_true, decide_eq_true_eq] at hv
    simp only [mapEncode, hv.1, if_true] at h
    obtain ⟨js, hjs, rfl⟩ := map_eq_ok.mp h
    have hall := List.all_eq_true.mp hv.2
    have hdec := mapM_roundtrip_map (mapEncode fc o e) (mapDecode fc o e) (canon fc e) xs js
      (fun x hx' y hy => (rtc_ty htot e x y hx (hall x hx') hy).1) hjs
    simp [mapDecode, asArr, hdec, hv.1, canon]
  | .map b k e, v, j, hx, hv, h => by
    refine ⟨?_, by simp [altShape]⟩
    simp only [expressible, Bool.and_eq_true] at hx
    obtain ⟨⟨hko, hkx⟩, hex⟩ := hx
    cases v <;> simp only [wt, Bool.false_eq_true] at hv
    · simp only [mapEncode] at h
      obtain ⟨u, hu, h⟩ := bind_eq_ok.mp h
      simp only [pure_eq_ok, Except.ok.injEq] at h
      subst h
      simp [mapDecode, asObj, decEntries, checkLen_ok_unit hu, canon]
    · rename_i es
      simp only [Bool.and_eq_true] at hv
      obtain ⟨hd, hall⟩ := hv
      have hall := List.all_eq_true.mp hall
      simp only [mapEncode] at h
      obtain ⟨u, hu, h⟩ := bind_eq_ok.mp h
      obtain ⟨ps, rfl, hps⟩ := entries_roundtrip_map (mapEncode fc o k) (mapEncode fc o e)
        (mapDecode fc o k) (mapDecode fc o e) (canon fc e) es j
        (fun p hp y hy => (rt_ty fc o k p.1 y hkx (by have := hall p hp; simp only [Bool.and_eq_true] at this; exact this.1) hy).1)
        (fun p hp y hy => (rtc_ty htot e p.2 y hex (by have := hall p hp; simp only [Bool.and_eq_true] at this; exact this.2) hy).1)
        (fun p hp => keyEq_refl_of_keyOk fc k hko p.1
          (by have := hall p hp; simp only [Bool.and_eq_true] at this; exact this.1))
        hd h
      simp [mapDecode, asObj, hps, checkLen_ok_unit hu, canon]
  | .struct code fs, v, j, hx, hv, h => by
    cases v <;> simp only [wt, Bool.false_eq_true] at hv
    rename_i vs
    simp only [expressible, Bool.and_eq_true] at hx
    obtain ⟨⟨hc, hnd⟩, hfx⟩ := hx
    have hnd := (nodupB_iff _).mp hnd
    have hnd2 : (allKeys fs).Nodup := (List.nodup_append.mp hnd).2.1
    simp only [mapEncode] at h
    obtain ⟨ms, hms, rfl⟩ := map_eq_ok.mp h
    obtain ⟨new, rfl, hsub, _, hdec⟩ := rtc_fields htot fs vs (typeMember code) ms hfx hv hnd2
      (not_mem_typeKeys_of_nodup hnd) hms
    constructor
    · have := hdec (typeMember code ++ new) (fun k hk =>
        jlookup_append_right (not_mem_typeKeys_of_nodup hnd k hk))
      simp [mapDecode, asObj, checkType_typeMember code hc new, this, canon]
    · intro c hcs
      cases code with
      | none => simp [altShape] at hcs
      | some c' =>
        simp only [altShape, decide_eq_true_eq] at hcs
        subst hcs
        exact ⟨_, rfl, by simp [typeMember, jlookup]⟩
  | .ptr t, v, j, hx, hv, h => by
    simp only [expressible, Bool.and_eq_true] at hx
    cases v <;> simp only [wt, Bool.false_eq_true] at hv
    · simp [mapEncode] at h
    · rename_i x
      simp only [mapEncode, hx.1, if_true] at h
      obtain ⟨hd, hs⟩ := rtc_ty htot t x j hx.2 hv h
      have hpd : t.ptrDecodable = true := by
        cases t <;> simp [JTy.ptrEncodable] at hx <;> rfl
      constructor
      · simp [mapDecode, hpd, hd, Except.map, canon]
      · intro c hc
        apply hs c
        cases t <;> simp [altShape] at hc ⊢
        rename_i code fs
        cases code <;> simp at hc ⊢
        exact hc
  | .iface alts, v, j, hx, hv, h => by
    simp only [expressible] at hx
    cases v <;> simp only [wt, Bool.false_eq_true] at hv
    · simp [mapEncode] at h
    · rename_i c x
      refine ⟨?_, by simp [altShape]⟩
      simp only [mapEncode] at h
      obtain ⟨⟨m, rfl, hm⟩, hc, hd⟩ := rtc_alts htot alts [] c x j hx hv h
      simp [mapDecode, asObj, hm, toNat_wrapU32 c hc, hd, canon]
theorem rtc_fields (htot : fc.Total) : ∀ (fs : Fields) (vs : List Val) (acc ms : List (String × Json)),
    fieldsExpressible fs = true → wtFields fc fs vs = true → (allKeys fs).Nodup →
    (∀ k ∈ allKeys fs, k ∉ keys acc) → encFields fc o fs vs acc = .ok ms →
    ∃ new, ms = acc ++ new ∧ (∀ k ∈ keys new, k ∈ allKeys fs) ∧ (keys new).Nodup ∧
      ∀ m, (∀ k ∈ allKeys fs, jlookup k m = jlookup k new) → decFields fc o fs m = .ok (canonFields fc fs vs)
  | .nil, vs, acc, ms, _, hv, _, _, h => by
    cases vs <;> simp only [wtFields, Bool.false_eq_true] at hv
    simp only [encFields, Except.ok.injEq] at h
    subst h
    exact ⟨[], by simp, by simp [keys], by simp [keys], fun m _ => by simp [decFields, canonFields]⟩
  | .named key opt omt t rest, vs, acc, ms, hx, hv, hnd, hacc, h => by
    cases vs with
    | nil => simp [wtFields] at hv
    | cons v vs =>
      simp only [fieldsExpressible, Bool.and_eq_true, Bool.or_eq_true, Bool.not_eq_eq_eq_not,
        Bool.not_true] at hx
      obtain ⟨⟨⟨hopt, hfk⟩, htx⟩, hrx⟩ := hx
      simp only [wtFields, Bool.and_eq_true] at hv
      simp only [allKeys, List.nodup_cons] at hnd
      have hacc' : ∀ k ∈ allKeys rest, k ∉ keys acc := fun k hk => hacc k (List.mem_cons_of_mem _ hk)
      simp only [encFields] at h
      -- a skipped field: nothing is written, the decoder finds nothing and leaves `missingVal`
      have skipped : encFields fc o rest vs acc = .ok ms →
          ((omt && isEmpty t v) || (opt && v.isNil)) = true → (opt || omt) = true →
          ∃ new, ms = acc ++ new ∧ (∀ k ∈ keys new, k ∈ allKeys (.named key opt omt t rest)) ∧
            (keys new).Nodup ∧ ∀ m, (∀ k ∈ allKeys (.named key opt omt t rest), jlookup k m = jlookup k new) →
              decFields fc o (.named key opt omt t rest) m = .ok (canonFields fc (.named key opt omt t rest) (v :: vs)) := by
        intro h hcond hoo
        obtain ⟨new, rfl, hsub, hnn, hdec⟩ := rtc_fields htot rest vs acc ms hrx hv.2 hnd.2 hacc' h
        refine ⟨new, rfl, fun k hk => List.mem_cons_of_mem _ (hsub k hk), hnn, ?_⟩
        intro m hm
        have hkn : key ∉ keys new := fun hk => hnd.1 (hsub key hk)
        have hl : jlookup key m = none := by
          rw [hm key List.mem_cons_self]; exact jlookup_none_of_not_mem hkn
        have hr := hdec m (fun k hk => hm k (List.mem_cons_of_mem _ hk))
        simp [decFields, hl, hoo, hr, Except.map, canonFields, hcond]
      by_cases h1 : (omt && isEmpty t v) = true
      · simp only [h1, if_true] at h
        have h1' := h1
        simp only [Bool.and_eq_true] at h1'
        exact skipped h (by simp [h1]) (by simp [h1'.1])
      · simp only [h1, Bool.false_eq_true, if_false] at h
        by_cases h2 : (opt && v.isNil) = true
        · simp only [h2, if_true] at h
          have h2' := h2
          simp only [Bool.and_eq_true] at h2'
          exact skipped h (by simp [h2]) (by simp [h2'.1])
        · simp only [h2, Bool.false_eq_true, if_false] at h
          -- the field's own encoder / decoder pair (a typed byte array by value uses the field's key)
          obtain ⟨j, hj, h⟩ := bind_eq_ok.mp h
          have hk : key ∉ keys acc := hacc key List.mem_cons_self
          rw [objSet_of_not_mem j hk] at h
          obtain ⟨new, rfl, hsub, hnn, hdec⟩ := rtc_fields htot rest vs (acc ++ [(key, j)]) ms hrx hv.2 hnd.2
            (by
              intro k hk'
              rw [keys_append]
              simp only [keys, List.map_cons, List.map_nil, List.mem_append, List.mem_singleton, not_or]
              refine ⟨hacc' k hk', ?_⟩
              rintro rfl
              exact hnd.1 hk') h
          have hkn : key ∉ keys new := fun hk => hnd.1 (hsub key hk)
          refine ⟨(key, j) :: new, by simp, ?_, ?_, ?_⟩
          · intro k hk'
            simp only [keys, List.map_cons, List.mem_cons] at hk'
            rcases hk' with rfl | hk'
            · exact List.mem_cons_self
            · exact List.mem_cons_of_mem _ (hsub k hk')
          · simp only [keys, List.map_cons, List.nodup_cons]
            exact ⟨hkn, hnn⟩
          · intro m hm
            have hl : jlookup key m = some j := by
              rw [hm key List.mem_cons_self]; simp [jlookup]
            have hr := hdec m (fun k hk' => by
              rw [hm k (List.mem_cons_of_mem _ hk')]
              simp only [jlookup]
              rw [if_neg]
              rintro rfl
              exact hnd.1 hk')
            have hcond : ((omt && isEmpty t v) || (opt && v.isNil)) = false := by
              cases hb1 : (omt && isEmpty t v) <;> cases hb2 : (opt && v.isNil) <;> simp_all
            simp only [decFields, hl, canonFields, hcond, Bool.false_eq_true, if_false]
            cases hbt : t.byValueTyped with
            | none =>
              rw [hbt] at hj
              have hd := (rtc_ty htot t v j htx hv.1 hj).1
              simp [hd, hr]
            | some nc =>
              obtain ⟨n, code⟩ := nc
              obtain ⟨key0, rfl⟩ := byValueTyped_some hbt
              rw [hbt] at hj
              simp only [fieldKeyOk, hbt, bne_iff_ne, ne_eq] at hfk
              have hd := (rtc_typedBytes fc false n code key key0 v j (Or.inl rfl) hfk hv.1 hj).1
              simp [hd, hr]
  | .embedded viaPtr fs rest, vs, acc, ms, hx, hv, hnd, hacc, h => by
    simp only [fieldsExpressible, Bool.and_eq_true] at hx
    simp only [allKeys] at hnd hacc
    obtain ⟨hn1, hn2, hdis⟩ := List.nodup_append.mp hnd
    -- common part once the embedded struct's field values `xs` are known
    have core : ∀ (xs : List Val) (vs' : List Val), wtFields fc fs xs = true → wtFields fc rest vs' = true →
        (do let acc' ← encFields fc o fs xs acc; encFields fc o rest vs' acc') = .ok ms →
        ∃ new, ms = acc ++ new ∧ (∀ k ∈ keys new, k ∈ allKeys (.embedded viaPtr fs rest)) ∧
          (keys new).Nodup ∧ ∀ m, (∀ k ∈ allKeys (.embedded viaPtr fs rest), jlookup k m = jlookup k new) →
            decFields fc o fs m = .ok (canonFields fc fs xs) ∧ decFields fc o rest m = .ok (canonFields fc rest vs') := by
      intro xs vs' hvx hvr h
      obtain ⟨acc', h1, h2⟩ := bind_eq_ok.mp h
      obtain ⟨new1, rfl, hs1, hnn1, hd1⟩ := rtc_fields htot fs xs acc acc' hx.1 hvx hn1
        (fun k hk => hacc k (List.mem_append_left _ hk)) h1
      obtain ⟨new2, rfl, hs2, hnn2, hd2⟩ := rtc_fields htot rest vs' (acc ++ new1) ms hx.2 hvr hn2
        (by
          intro k hk
          rw [keys_append, List.mem_append, not_or]
          exact ⟨hacc k (List.mem_append_right _ hk), fun hk1 => hdis _ (hs1 k hk1) _ hk rfl⟩) h2
      refine ⟨new1 ++ new2, by simp, ?_, ?_, ?_⟩
      · intro k hk
        rw [keys_append, List.mem_append] at hk
        simp only [allKeys, List.mem_append]
        rcases hk with hk | hk
        · exact Or.inl (hs1 k hk)
        · exact Or.inr (hs2 k hk)
      · rw [keys_append]
        exact List.nodup_append.mpr ⟨hnn1, hnn2, fun a ha b hb hab => hdis a (hs1 a ha) b (hs2 b hb) hab⟩
      · intro m hm
        simp only [allKeys, List.mem_append] at hm
        constructor
        · apply hd1
          intro k hk
          rw [hm k (Or.inl hk)]
          exact jlookup_append_left (fun hk2 => hdis k hk k (hs2 k hk2) rfl)
        · apply hd2
          intro k hk
          rw [hm k (Or.inr hk)]
          exact jlookup_append_right (fun hk1 => hdis k (hs1 k hk1) k hk rfl)
    cases vs with
    | nil => cases viaPtr <;> simp [wtFields] at hv
    | cons v vs =>
      cases viaPtr
      · cases v <;> simp only [wtFields, Bool.false_eq_true] at hv
        rename_i xs
        simp only [Bool.and_eq_true] at hv
        simp only [encFields] at h
        obtain ⟨new, rfl, hs, hnn, hd⟩ := core xs vs hv.1 hv.2 h
        refine ⟨new, rfl, hs, hnn, fun m hm => ?_⟩
        obtain ⟨d1, d2⟩ := hd m hm
        simp [decFields, d1, d2, canonFields]
      · cases v with
        | nil => simp [encFields] at h
        | some x =>
          cases x <;> simp only [wtFields, Bool.false_eq_true] at hv
          rename_i xs
          simp only [Bool.and_eq_true] at hv
          simp only [encFields] at h
          obtain ⟨new, rfl, hs, hnn, hd⟩ := core xs vs hv.1 hv.2 h
          refine ⟨new, rfl, hs, hnn, fun m hm => ?_⟩
          obtain ⟨d1, d2⟩ := hd m hm
          simp [decFields, d1, d2, canonFields]
        | _ => simp [wtFields] at hv
  | .inlined code fs rest, vs, acc, ms, hx, hv, hnd, hacc, h => by
    simp only [fieldsExpressible, Bool.and_eq_true] at hx
    obtain ⟨⟨hc, hfx⟩, hrx⟩ := hx
    simp only [allKeys] at hnd hacc
    obtain ⟨_, hn23, hdis1⟩ := List.nodup_append.mp hnd
    obtain ⟨hn2, hn3, hdis2⟩ := List.nodup_append.mp hn23
    have hnd12 : (typeKeys code ++ allKeys fs).Nodup := by
      rw [← List.append_assoc] at hnd
      exact (List.nodup_append.mp hnd).1
    cases vs with
    | nil => simp [wtFields] at hv
    | cons v vs =>
      cases v <;> simp only [wtFields, Bool.false_eq_true] at hv
      rename_i xs
      simp only [Bool.and_eq_true] at hv
      simp only [encFields] at h
      obtain ⟨inner, h1, h2⟩ := bind_eq_ok.mp h
      obtain ⟨new1, rfl, hs1, hnn1, hd1⟩ := rtc_fields htot fs xs (typeMember code) inner hfx hv.1 hn2
        (not_mem_typeKeys_of_nodup hnd12) h1
      -- the inner object's members are copied one by one: none of them is present yet
      have hki : ∀ k ∈ keys (typeMember code ++ new1), k ∈ typeKeys code ++ allKeys fs := by
        intro k hk
        rw [keys_append, keys_typeMember, List.mem_append] at hk
        rw [List.mem_append]
        exact hk.imp id (hs1 k)
      have hinner_nd : (keys (typeMember code ++ new1)).Nodup := by
        rw [keys_append, keys_typeMember]
        refine List.nodup_append.mpr ⟨(List.nodup_append.mp hnd12).1, hnn1, ?_⟩
        intro a ha b hb hab
        exact (List.nodup_append.mp hnd12).2.2 a ha b (hs1 b hb) hab
      have hcopy : objSetAll acc (typeMember code ++ new1) = acc ++ (typeMember code ++ new1) := by
        apply objSetAll_of_disjoint _ _ hinner_nd
        intro k hk
        have := hki k hk
        rw [List.mem_append] at this
        apply hacc
        rw [List.mem_append, List.mem_append]
        rcases this with h | h
        · exact Or.inl h
        · exact Or.inr (Or.inl h)
      rw [hcopy] at h2
      obtain ⟨new2, rfl, hs2, hnn2, hd2⟩ := rtc_fields htot rest vs (acc ++ (typeMember code ++ new1)) ms hrx hv.2 hn3
        (by
          intro k hk
          rw [keys_append, List.mem_append, not_or]
          refine ⟨hacc k (by simp [hk]), fun hk1 => ?_⟩
          have := hki k hk1
          rw [List.mem_append] at this
          rcases this with h | h
          · exact hdis1 k h k (by simp [hk]) rfl
          · exact hdis2 k h k hk rfl) h2
      refine ⟨(typeMember code ++ new1) ++ new2, by simp, ?_, ?_, ?_⟩
      · intro k hk
        rw [keys_append, List.mem_append] at hk
        rcases hk with hk | hk
        · have := hki k hk
          simp only [allKeys, List.mem_append] at this ⊢
          rcases this with h | h
          · exact Or.inl h
          · exact Or.inr (Or.inl h)
        · simp only [allKeys, List.mem_append]
          exact Or.inr (Or.inr (hs2 k hk))
      · rw [keys_append]
        refine List.nodup_append.mpr ⟨hinner_nd, hnn2, ?_⟩
        intro a ha b hb hab
        have := hki a ha
        rw [List.mem_append] at this
        rcases this with h | h
        · exact hdis1 a h b (by simp [hs2 b hb]) hab
        · exact hdis2 a h b (hs2 b hb) hab
      · intro m hm
        simp only [allKeys, List.mem_append] at hm
        have hnot2 : ∀ k, k ∈ typeKeys code ++ allKeys fs → k ∉ keys new2 := by
          intro k hk hk2
          rw [List.mem_append] at hk
          rcases hk with h | h
          · exact hdis1 k h k (by simp [hs2 k hk2]) rfl
          · exact hdis2 k h k (hs2 k hk2) rfl
        have hct : checkType code m = .ok () := by
          cases code with
          | none => rfl
          | some c =>
            simp only [codeOk, decide_eq_true_eq] at hc
            apply checkType_of_lookup c hc
            rw [hm "type" (Or.inl (by simp [typeKeys]))]
            simp [typeMember, jlookup]
        have hf := hd1 m (fun k hk => by
          rw [hm k (Or.inr (Or.inl hk))]
          rw [jlookup_append_left (hnot2 k (List.mem_append_right _ hk))]
          exact jlookup_append_right (not_mem_typeKeys_of_nodup hnd12 k hk))
        have hr := hd2 m (fun k hk => by
          rw [hm k (Or.inr (Or.inr hk))]
          apply jlookup_append_right
          intro hk1
          have := hki k hk1
          rw [List.mem_append] at this
          rcases this with h | h
          · exact hdis1 k h k (by simp [hk]) rfl
          · exact hdis2 k h k hk rfl)
        simp [decFields, hct, hf, hr, canonFields]
theorem rtc_alts (htot : fc.Total) : ∀ (alts : Alts) (seen : List Nat) (c : Nat) (v : Val) (j : Json),
    altsExpressible alts seen = true → wtAlt fc alts c v = true → encAlt fc o alts c v = .ok j →
    TypeMemberOf c j ∧ c < 2 ^ 32 ∧ decAlt fc o alts c j = .ok (.iface c (canonAlt fc alts c v))
  | .nil, _, c, v, j, _, hv, _ => by
    simp [wtAlt] at hv
  | .cons c0 t rest, seen, c, v, j, hx, hv, h => by
    simp only [altsExpressible, Bool.and_eq_true, decide_eq_true_eq] at hx
    obtain ⟨⟨⟨⟨_, hlt⟩, hshape⟩, htx⟩, hrx⟩ := hx
    simp only [wtAlt] at hv
    simp only [encAlt] at h
    by_cases hc : c0 = c
    · subst hc
      simp only [if_true] at hv h
      obtain ⟨hd, hs⟩ := rtc_ty htot t v j htx hv h
      exact ⟨hs c0 hshape, hlt, by simp [decAlt, hd, Except.map, canonAlt]⟩
    · simp only [hc, if_false] at hv h
      obtain ⟨h1, h2, h3⟩ := rtc_alts htot rest (c0 :: seen) c v j hrx hv h
      exact ⟨h1, h2, by simp [decAlt, hc, h3, canonAlt]⟩
end

end Hive.SerixJson
