import Hive.Proofs.C12aHeap
/-!
The abstract model of the three priority queues: a multiset of elements (a list up to
permutation) from which `Pop` takes a best element; every step of the array heap is a step of it.
-/
namespace Hive.C12a.Heap

/-- `e` is a best element of `m`: nothing in `m` sorts strictly before it. -/
def Best (cmp : Cmp) (e : Elem) (m : List Elem) : Prop :=
  e ∈ m ∧ ∀ x ∈ m, lessK cmp x.key e.key = false

/-- A list in priority order. -/
def Sorted (cmp : Cmp) (l : List Elem) : Prop :=
  l.Pairwise (fun a b => lessK cmp b.key a.key = false)

/-- One step of the abstract priority multiset `m` (next handle `next`): the allowed answer `o`
and successor multiset `m'`.  Everything is stated through membership, `Perm` and `length`, so it
does not depend on the order in which `m` is listed. -/
def specOk (cmp : Cmp) (m : List Elem) (next : Nat) : Op → Out → List Elem → Prop
  | .push v p, o, m' => o = .handle next ∧ m'.Perm (⟨next, p, v⟩ :: m)
  | .remove h, o, m' =>
    o = .ok ∧ ((∃ e, e ∈ m ∧ e.id = h ∧ m.Perm (e :: m')) ∨ ((∀ e ∈ m, e.id ≠ h) ∧ m' = m))
  | .peek, o, m' =>
    m' = m ∧ ((m = [] ∧ o = .elem none) ∨ ∃ e, o = .elem (some e) ∧ Best cmp e m)
  | .pop, o, m' =>
    (m = [] ∧ o = .elem none ∧ m' = []) ∨ ∃ e, o = .elem (some e) ∧ Best cmp e m ∧ m.Perm (e :: m')
  | .popUntil p, o, m' =>
    ∃ l, o = .elems l ∧ (l ++ m').Perm m ∧ Sorted cmp l ∧ (∀ e ∈ l, leK cmp e.key p = true) ∧
      (∀ x ∈ m', leK cmp x.key p = false)
  | .popAll, o, m' => ∃ l, o = .elems l ∧ l.Perm m ∧ Sorted cmp l ∧ m' = []
  | .size, o, m' => o = .nat m.length ∧ m' = m
  | .isEmpty, o, m' => o = .bool (m.length == 0) ∧ m' = m

theorem step_allowed (s : St) (hs : Inv s) (op : Op) :
    specOk s.cmp s.arr s.idx.length op (step s op).2 (step s op).1.arr := by
  cases op with
  | push v p => exact ⟨by simp [step, push_handle], push_perm s v p⟩
  | remove h =>
    refine ⟨rfl, ?_⟩
    rcases removeHandle_spec s h hs.1 with h1 | ⟨h1, h2⟩
    · exact Or.inl h1
    · exact Or.inr ⟨h1, by show (removeHandle s h).arr = s.arr; rw [h2]⟩
  | peek =>
    refine ⟨rfl, ?_⟩
    by_cases hne : s.arr = []
    · exact Or.inl ⟨hne, by simp [step, (peek_none_iff s).2 hne]⟩
    · obtain ⟨e, h1, h2, h3⟩ := peek_spec s hs.2 hne
      exact Or.inr ⟨e, by simp [step, h1], h2, h3⟩
  | pop =>
    by_cases hne : s.arr = []
    · exact Or.inl ⟨hne, by simp [step, pop_empty s hne], by simp [step, pop_empty s hne, hne]⟩
    · obtain ⟨e, h1, h2, h3, h4⟩ := pop_spec s hs.2 hne
      exact Or.inr ⟨e, by simp [step, h1], ⟨h2, h3⟩, h4⟩
  | popUntil p =>
    obtain ⟨h1, h2, h3, h4⟩ := popUntil_spec s p hs.2
    exact ⟨_, rfl, h1, h2, h3, h4⟩
  | popAll =>
    obtain ⟨h1, h2, h3⟩ := popAll_spec s hs.2
    exact ⟨_, rfl, h1, h3, h2⟩
  | size => exact ⟨rfl, rfl⟩
  | isEmpty => exact ⟨rfl, rfl⟩

/-- Every step of a history is allowed by the abstract multiset (abstraction: the array as a
multiset, the allocation counter as the next handle). -/
def AllowedRun (s : St) : List Op → Prop
  | [] => True
  | op :: ops =>
    specOk s.cmp s.arr s.idx.length op (step s op).2 (step s op).1.arr ∧ AllowedRun (step s op).1 ops

theorem run_allowed (s : St) (hs : Inv s) (ops : List Op) : AllowedRun s ops := by
  induction ops generalizing s with
  | nil => trivial
  | cons op ops ih => exact ⟨step_allowed s hs op, ih _ (inv_step s op hs)⟩

/-- Handles are fresh: every element in the heap has an id below the allocation counter. -/
theorem ids_lt (s : St) (hs : Inv s) : ∀ e ∈ s.arr, e.id < s.idx.length := by
  intro e he
  obtain ⟨i, hi, rfl⟩ := (mem_iff_at s e).1 he
  exact (hs.1.1 i hi).1

end Hive.C12a.Heap
