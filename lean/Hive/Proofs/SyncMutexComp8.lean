import Hive.Proofs.SyncMutexComp7
/-!
The composed DAGMutex after the repair "unregister only after the unlock has succeeded": what a misused
`Unlock`/`RUnlock` can touch before it panics.  Everything here is about single steps from *arbitrary* states
(no well-bracketedness, no invariant): misuse is exactly the situation in which the invariants of the other
files do not hold.
-/
namespace Hive.SyncMutex.Comp
open Hive.Conc
open Hive.SyncMutex.Dag (Mode DOp upd eraseAll)

/-- the critical sections of `d.Mutex` that write the registry: the bodies of `registerMutex(es)` and of
`unregisterMutexes` -/
def regSection (t : CTh) : Bool :=
  match t.ctl with
  | .lockC _ | .rlockC _ | .unregC _ | .runregC _ => true
  | _ => false

/-- inside `Unlock`/`RUnlock`, before the second critical section (lookup, and the StarvingMutex unlocks) -/
def inRelease (t : CTh) : Bool :=
  match t.ctl with
  | .unlockA _ | .unlockC _ | .runlockA _ | .runlockC _ => true
  | .inner (.ul _) | .inner (.ru _ _) => true
  | _ => false

theorem inRelease_not_regSection {t : CTh} (h : inRelease t = true) : regSection t = false := by
  unfold inRelease at h
  unfold regSection
  cases hc : t.ctl <;> simp [hc] at h ⊢

/-- **Frame of the registry**: only the bodies of `registerMutex(es)` and of `unregisterMutexes` change
`mutexes`, `consumerCounter` or the allocation of mutex objects. -/
theorem step_registry_frame {s s' : CSh} {t t' : CTh} (hm : (s', t') ∈ step s t) (hr : regSection t = false) :
    s'.ent = s.ent ∧ s'.cnt = s.cnt ∧ s'.next = s.next := by
  unfold step at hm
  unfold regSection at hr
  cases hc : t.ctl with
  | dead => simp [hc] at hm
  | idle =>
    simp only [hc] at hm
    cases hs : t.script with
    | nil => simp [hs] at hm
    | cons op r => cases op <;> simp [hs] at hm <;> (obtain ⟨rfl, _⟩ := hm; exact ⟨rfl, rfl, rfl⟩)
  | lockA x => simp only [hc] at hm; cases hd : s.dm <;> simp [hd] at hm; obtain ⟨rfl, _⟩ := hm; exact ⟨rfl, rfl, rfl⟩
  | rlockA x => simp only [hc] at hm; cases hd : s.dm <;> simp [hd] at hm; obtain ⟨rfl, _⟩ := hm; exact ⟨rfl, rfl, rfl⟩
  | unlockA x => simp only [hc] at hm; cases hd : s.dm <;> simp [hd] at hm; obtain ⟨rfl, _⟩ := hm; exact ⟨rfl, rfl, rfl⟩
  | runlockA x => simp only [hc] at hm; cases hd : s.dm <;> simp [hd] at hm; obtain ⟨rfl, _⟩ := hm; exact ⟨rfl, rfl, rfl⟩
  | unregA x => simp only [hc] at hm; cases hd : s.dm <;> simp [hd] at hm; obtain ⟨rfl, _⟩ := hm; exact ⟨rfl, rfl, rfl⟩
  | runregA x => simp only [hc] at hm; cases hd : s.dm <;> simp [hd] at hm; obtain ⟨rfl, _⟩ := hm; exact ⟨rfl, rfl, rfl⟩
  | lockC x => simp [hc] at hr
  | rlockC x => simp [hc] at hr
  | unregC x => simp [hc] at hr
  | runregC x => simp [hc] at hr
  | unlockC x =>
    simp only [hc] at hm
    split at hm <;> (simp at hm; obtain ⟨rfl, _⟩ := hm; exact ⟨rfl, rfl, rfl⟩)
  | runlockC xs =>
    simp only [hc] at hm
    split at hm <;> (simp at hm; obtain ⟨rfl, _⟩ := hm; exact ⟨rfl, rfl, rfl⟩)
  | inner k =>
    simp only [hc] at hm
    by_cases hi : t.ipc = .idle
    · simp [hi] at hm; obtain ⟨rfl, _⟩ := hm; exact ⟨rfl, rfl, rfl⟩
    · simp only [hi, if_false, List.mem_map] at hm
      obtain ⟨p, _, heq⟩ := hm
      simp only [Prod.mk.injEq] at heq
      obtain ⟨rfl, _⟩ := heq
      exact ⟨rfl, rfl, rfl⟩

/-- A step inside a StarvingMutex method touches only the object the method runs on. -/
theorem step_inner_frame {s s' : CSh} {t t' : CTh} {k : Kont} (hc : t.ctl = .inner k)
    (hm : (s', t') ∈ step s t) : ∀ o, o ≠ t.cur → s'.heap o = s.heap o := by
  unfold step at hm
  simp only [hc] at hm
  intro o ho
  by_cases hi : t.ipc = .idle
  · simp [hi] at hm; obtain ⟨rfl, _⟩ := hm; rfl
  · simp only [hi, if_false, List.mem_map] at hm
    obtain ⟨p, _, heq⟩ := hm
    simp only [Prod.mk.injEq] at heq
    obtain ⟨rfl, _⟩ := heq
    simp [upd, ho]

/-- A monitor step that panics is the guard of `Unlock`/`RUnlock` failing; it releases the internal mutex and changes
nothing else. -/
theorem mxStep_panic {s s' : Mx} {v v' : V} (h : (s', v') ∈ mxStep s v) (h1 : v'.pc = .dead) :
    s' = { s with m := false } ∧ (v.pc = .ulC ∨ v.pc = .ruC) := by
  obtain ⟨pc, rd, wr⟩ := v
  cases pc <;> simp only [mxStepG, ulCStep] at h <;> (repeat' split at h) <;>
    simp only [List.mem_singleton, List.not_mem_nil, Prod.mk.injEq] at h <;>
    (try (obtain ⟨rfl, rfl⟩ := h)) <;> simp at h1 ⊢

/-- The panic inside `StarvingMutex.Unlock`/`RUnlock` (the wrong-mode case): the internal mutex of that one object is
released again, nothing else in the whole state changes. -/
theorem step_inner_panic {s s' : CSh} {t t' : CTh} {k : Kont} (hc : t.ctl = .inner k)
    (hm : (s', t') ∈ step s t) (h1 : t'.ipc = .dead) :
    s' = { s with heap := upd s.heap t.cur { s.heap t.cur with m := false } } ∧ (t.ipc = .ulC ∨ t.ipc = .ruC) := by
  unfold step at hm
  simp only [hc] at hm
  by_cases hi : t.ipc = .idle
  · simp only [hi, if_true, List.mem_singleton, Prod.mk.injEq] at hm
    obtain ⟨rfl, rfl⟩ := hm
    exfalso
    revert h1
    unfold ret
    split <;> simp [startInner, grant, start, hi]
  · simp only [hi, if_false, List.mem_map] at hm
    obtain ⟨p, hp, heq⟩ := hm
    simp only [Prod.mk.injEq] at heq
    obtain ⟨rfl, rfl⟩ := heq
    simp only at h1
    obtain ⟨e, hw⟩ := mxStep_panic (s' := p.1) (v' := p.2) hp h1
    refine ⟨?_, by simpa [proj] using hw⟩
    rw [e]

/-- When `lookupMutexes(xs...)` panics: exactly when some id has no mutex or occurs in `xs` more often than it is
registered. -/
theorem lookAll_none_iff (s : CSh) : ∀ (xs seen : List Nat),
    lookAll s seen xs = none ↔ ∃ x ∈ xs, s.ent x = none ∨ s.cnt x < seen.count x + xs.count x := by
  intro xs
  induction xs with
  | nil => intro seen; simp [lookAll]
  | cons x xs ih =>
    intro seen
    have hcount : ∀ y, (x :: seen).count y + xs.count y = seen.count y + (x :: xs).count y := by
      intro y; simp only [List.count_cons]; omega
    cases he : s.ent x with
    | none =>
      simp only [lookAll, he, true_iff]
      exact ⟨x, by simp, Or.inl he⟩
    | some o =>
      by_cases hle : seen.count x + 1 ≤ s.cnt x
      · have hl : lookAll s seen (x :: xs) = none ↔ lookAll s (x :: seen) xs = none := by
          simp only [lookAll, he, hle, if_true]
          cases lookAll s (x :: seen) xs <;> simp
        rw [hl, ih (x :: seen)]
        constructor
        · rintro ⟨y, hy, h⟩
          refine ⟨y, by simp [hy], ?_⟩
          rw [← hcount]; exact h
        · rintro ⟨y, hy, h⟩
          rw [← hcount] at h
          rcases List.mem_cons.mp hy with rfl | hy'
          · by_cases hin : y ∈ xs
            · exact ⟨y, hin, h⟩
            · exfalso
              rcases h with h | h
              · rw [he] at h; cases h
              · have : xs.count y = 0 := List.count_eq_zero.mpr hin
                simp only [List.count_cons_self] at h
                omega
          · exact ⟨y, hy', h⟩
      · simp only [lookAll, he, hle, if_false, true_iff]
        refine ⟨x, by simp, Or.inr ?_⟩
        simp only [List.count_cons_self]
        omega

/-- The second critical section is entered only by a normal return of the last StarvingMutex unlock of the call
(or directly, by an `RUnlock()` without ids). -/
theorem step_enters_unreg {s s' : CSh} {t t' : CTh} (hm : (s', t') ∈ step s t) (hne : t.ctl ≠ t'.ctl) :
    (∀ x, t'.ctl = .unregA x → t.ctl = .inner (.ul x) ∧ t.ipc = .idle) ∧
    (∀ xs, t'.ctl = .runregA xs → (t.ctl = .inner (.ru [] xs) ∧ t.ipc = .idle) ∨ (t.ctl = .runlockC xs ∧ xs = [])) := by
  unfold step at hm
  cases hc : t.ctl with
  | dead => simp [hc] at hm
  | idle =>
    simp only [hc] at hm
    cases hs : t.script with
    | nil => simp [hs] at hm
    | cons op r => cases op <;> simp [hs] at hm <;> (obtain ⟨_, rfl⟩ := hm; simp)
  | lockA x => simp only [hc] at hm; cases hd : s.dm <;> simp [hd] at hm; obtain ⟨_, rfl⟩ := hm; simp
  | rlockA x => simp only [hc] at hm; cases hd : s.dm <;> simp [hd] at hm; obtain ⟨_, rfl⟩ := hm; simp
  | unlockA x => simp only [hc] at hm; cases hd : s.dm <;> simp [hd] at hm; obtain ⟨_, rfl⟩ := hm; simp
  | runlockA x => simp only [hc] at hm; cases hd : s.dm <;> simp [hd] at hm; obtain ⟨_, rfl⟩ := hm; simp
  | unregA x => simp only [hc] at hm; cases hd : s.dm <;> simp [hd] at hm; obtain ⟨_, rfl⟩ := hm; simp
  | runregA x => simp only [hc] at hm; cases hd : s.dm <;> simp [hd] at hm; obtain ⟨_, rfl⟩ := hm; simp
  | lockC x => simp [hc] at hm; obtain ⟨_, rfl⟩ := hm; simp [startInner]
  | rlockC x => simp only [hc] at hm; split at hm <;> (simp at hm; obtain ⟨_, rfl⟩ := hm; simp [startInner])
  | unregC x => simp only [hc] at hm; split at hm <;> (simp at hm; obtain ⟨_, rfl⟩ := hm; simp)
  | runregC x => simp only [hc] at hm; split at hm <;> (simp at hm; obtain ⟨_, rfl⟩ := hm; simp)
  | unlockC x => simp only [hc] at hm; split at hm <;> (simp at hm; obtain ⟨_, rfl⟩ := hm; simp [startInner])
  | runlockC xs =>
    simp only [hc] at hm
    split at hm
    · simp at hm; obtain ⟨_, rfl⟩ := hm; simp
    · rename_i hla
      simp at hm; obtain ⟨_, rfl⟩ := hm
      have : xs = [] := by
        cases xs with
        | nil => rfl
        | cons x xs' =>
          exfalso
          simp only [lookAll] at hla
          split at hla
          · cases hla
          · split at hla
            · split at hla <;> simp at hla
            · cases hla
      simp [this]
    · simp at hm; obtain ⟨_, rfl⟩ := hm; simp [startInner]
  | inner k =>
    simp only [hc] at hm
    by_cases hi : t.ipc = .idle
    · simp only [hi, if_true, List.mem_singleton, Prod.mk.injEq] at hm
      obtain ⟨_, rfl⟩ := hm
      unfold ret
      split <;> simp_all [startInner, grant]
    · simp only [hi, if_false, List.mem_map] at hm
      obtain ⟨p, _, heq⟩ := hm
      simp only [Prod.mk.injEq] at heq
      obtain ⟨_, rfl⟩ := heq
      exfalso
      exact hne (by simp [hc])

/-! ### whole calls, executed alone (sequential misuse) -/

/-- The whole call, executed alone: `Unlock(x)` of an entity without a mutex. -/
theorem call_unlock_unregistered (s : CSh) (t : CTh) (x : Nat) (r : List DOp) (others : List CTh)
    (hc : t.ctl = .idle) (hs : t.script = .unlock x :: r) (hd : s.dm = false) (he : s.ent x = none) :
    runSched sys (s, t :: others) [(0, 0), (0, 0), (0, 0)] = (s, { t with ctl := .dead, script := r } :: others) := by
  obtain ⟨heap, ent, cnt, next, dm⟩ := s
  obtain ⟨ctl, iop, curEnt, cur, ipc, rd, wr, held, hobj, script⟩ := t
  simp only at hc hs hd he
  subst hc hs hd
  simp [runSched, sys, step, he]

theorem lookAll_congr {s1 s2 : CSh} (h1 : s1.ent = s2.ent) (h2 : s1.cnt = s2.cnt) :
    ∀ (xs seen : List Nat), lookAll s1 seen xs = lookAll s2 seen xs := by
  intro xs
  induction xs with
  | nil => intro _; rfl
  | cons x xs ih => intro seen; simp only [lookAll, h1, h2, ih]

/-- `RUnlock(xs…)` whose lookup fails. -/
theorem call_runlock_lookup (s : CSh) (t : CTh) (xs : List Nat) (r : List DOp) (others : List CTh)
    (hc : t.ctl = .idle) (hs : t.script = .runlock xs :: r) (hd : s.dm = false)
    (he : ∃ x ∈ xs, s.ent x = none ∨ s.cnt x < xs.count x) :
    runSched sys (s, t :: others) [(0, 0), (0, 0), (0, 0)] = (s, { t with ctl := .dead, script := r } :: others) := by
  have hl := (lookAll_none_iff s xs []).mpr (by simpa using he)
  obtain ⟨heap, ent, cnt, next, dm⟩ := s
  obtain ⟨ctl, iop, curEnt, cur, ipc, rd, wr, held, hobj, script⟩ := t
  simp only at hc hs hd
  subst hc hs hd
  have hl' : lookAll { heap := heap, ent := ent, cnt := cnt, next := next, dm := true } [] xs = none := by
    rw [lookAll_congr (s1 := { heap := heap, ent := ent, cnt := cnt, next := next, dm := true })
      (s2 := { heap := heap, ent := ent, cnt := cnt, next := next, dm := false }) rfl rfl]; exact hl
  simp [runSched, sys, step, hl']

/-- `Unlock(x)` of an entity that is registered but not write-locked (or has readers): the call panics inside
`StarvingMutex.Unlock`, which releases its internal mutex again: the whole shared state is as before the call. -/
theorem call_unlock_wrong_mode (s : CSh) (t : CTh) (x o : Nat) (r : List DOp) (others : List CTh)
    (hc : t.ctl = .idle) (hs : t.script = .unlock x :: r) (hd : s.dm = false) (he : s.ent x = some o)
    (hm : (s.heap o).m = false) (hw : 0 < (s.heap o).readers ∨ (s.heap o).writer = false) :
    ∃ t', runSched sys (s, t :: others) (List.replicate 5 (0, 0)) =
        (s, t' :: others) ∧
      t'.ipc = .dead ∧ t'.script = r := by
  obtain ⟨heap, ent, cnt, next, dm⟩ := s
  obtain ⟨ctl, iop, curEnt, cur, ipc, rd, wr, held, hobj, script⟩ := t
  simp only at hc hs hd he hm hw
  subst hc hs hd
  simp [runSched, sys, step, he, startInner, start, proj, mxStepG, ulCStep, hm, upd, hw, List.replicate]
  refine ⟨_, ⟨?_, rfl⟩, rfl, rfl⟩
  funext y
  by_cases hy : y = o
  · subst hy
    cases hh : heap y
    simp_all [upd]
  · simp [upd, hy]

/-- `RUnlock(xs…)` that passes the lookup but whose first mutex is not read-locked (or is write-locked): the call
panics inside `StarvingMutex.RUnlock`, which releases its internal mutex again: the whole shared state is as before. -/
theorem call_runlock_wrong_mode (s : CSh) (t : CTh) (xs : List Nat) (o : Nat) (os : List Nat) (r : List DOp)
    (others : List CTh) (hc : t.ctl = .idle) (hs : t.script = .runlock xs :: r) (hd : s.dm = false)
    (hl : lookAll s [] xs = some (o :: os)) (hm : (s.heap o).m = false)
    (hw : (s.heap o).readers = 0 ∨ (s.heap o).writer = true) :
    ∃ t', runSched sys (s, t :: others) (List.replicate 5 (0, 0)) =
        (s, t' :: others) ∧
      t'.ipc = .dead ∧ t'.script = r := by
  obtain ⟨heap, ent, cnt, next, dm⟩ := s
  obtain ⟨ctl, iop, curEnt, cur, ipc, rd, wr, held, hobj, script⟩ := t
  simp only at hc hs hd hm hw
  subst hc hs hd
  have hl' : lookAll { heap := heap, ent := ent, cnt := cnt, next := next, dm := true } [] xs = some (o :: os) := by
    rw [lookAll_congr (s1 := { heap := heap, ent := ent, cnt := cnt, next := next, dm := true })
      (s2 := { heap := heap, ent := ent, cnt := cnt, next := next, dm := false }) rfl rfl]; exact hl
  simp [runSched, sys, step, hl', startInner, start, proj, mxStepG, hm, upd, hw, List.replicate]
  refine ⟨_, ⟨?_, rfl⟩, rfl, rfl⟩
  funext y
  by_cases hy : y = o
  · subst hy
    cases hh : heap y
    simp_all [upd]
  · simp [upd, hy]

end Hive.SyncMutex.Comp
