import Hive.Proofs.AdsTrie
/-!
# Extension nodes do not change the trie

`T` is smt's trie with extension nodes, `T.expand` replaces every extension by the chain of inner
nodes it stands for.  smt's `update` (with `ext.split`) and `delete` (with join and absorb) on `T`
commute with `insert` / `delete` on the expanded trie `E`, so every result about `E` — plain-map
behaviour, canonical shape, history independence of the digest — holds for the trie with extension
nodes.
-/
namespace Hive.Ads.SMT

/-! ## chains -/

theorem chain_append (a b : List Bool) (x : E) : chain (a ++ b) x = chain a (chain b x) := by
  induction a with
  | nil => rfl
  | cons c a ih => simp [chain, ih]

theorem expand_mkExt (bs : List Bool) (c : T) : (mkExt bs c).expand = chain bs c.expand := by
  cases bs <;> rfl

theorem expand_innerOn (m : Bool) (x y : T) :
    (innerOn m x y).expand = if m then .inner y.expand x.expand else .inner x.expand y.expand := by
  cases m <;> rfl

theorem bit_eq_head (p : Path) (d : Nat) : bit p d = (p.drop d).headD false := by
  induction p generalizing d with
  | nil => simp [bit]
  | cons a p ih =>
    cases d with
    | zero => simp [bit]
    | succ d => have := ih d; simp [bit] at this ⊢

theorem drop_succ_of_drop {p : Path} {d : Nat} {b : Bool} {rest : List Bool} (h : p.drop d = b :: rest) :
    p.drop (d + 1) = rest := by
  have : p.drop (d + 1) = (p.drop d).drop 1 := by rw [List.drop_drop]
  rw [this, h]; rfl

theorem bit_of_drop {p : Path} {d : Nat} {b : Bool} {rest : List Bool} (h : p.drop d = b :: rest) :
    bit p d = b := by
  rw [bit_eq_head, h]; rfl

/-- `update` walks down a chain whose bits the path matches. -/
theorem insert_chain_match (bits rest : List Bool) (x : E) (d : Nat) (p : Path) (v : Val)
    (h : p.drop d = bits ++ rest) :
    (chain bits x).insert d p v = chain bits (x.insert (d + bits.length) p v) := by
  induction bits generalizing d with
  | nil => simp [chain]
  | cons b bs ih =>
    have hb := bit_of_drop h
    have hd := drop_succ_of_drop h
    have := ih (d + 1) hd
    have e : d + (b :: bs).length = d + 1 + bs.length := by simp; omega
    rw [e]
    cases b <;> simp [chain, link, E.insert, hb, this]

/-- `delete` below a chain whose bits the path matches: a leaf that remains alone moves up through
the whole chain, anything else stays below it. -/
def cchain : List Bool → E → E
  | [], x => x
  | b :: bs, x => if b then collapse .nil (cchain bs x) else collapse (cchain bs x) .nil

theorem delete_chain_match (bits rest : List Bool) (x : E) (d : Nat) (p : Path)
    (h : p.drop d = bits ++ rest) :
    (chain bits x).delete d p = cchain bits (x.delete (d + bits.length) p) := by
  induction bits generalizing d with
  | nil => simp [chain, cchain]
  | cons b bs ih =>
    have hb := bit_of_drop h
    have hd := drop_succ_of_drop h
    have := ih (d + 1) hd
    have e : d + (b :: bs).length = d + 1 + bs.length := by simp; omega
    rw [e]
    cases b <;> simp [chain, link, cchain, E.delete, hb, this]

def E.isLeaf : E → Bool
  | .leaf _ _ => true
  | _ => false

theorem collapse_nil_left (y : E) : collapse .nil y = if y.isLeaf then y else .inner .nil y := by
  cases y <;> rfl

theorem collapse_nil_right (y : E) : collapse y .nil = if y.isLeaf then y else .inner y .nil := by
  cases y <;> rfl

theorem chain_isLeaf_false (bs : List Bool) (y : E) (hy : y.isLeaf = false) : (chain bs y).isLeaf = false := by
  cases bs with
  | nil => exact hy
  | cons b bs => cases b <;> rfl

theorem cchain_leaf (bits : List Bool) (q : Path) (w : Val) : cchain bits (.leaf q w) = .leaf q w := by
  induction bits with
  | nil => rfl
  | cons b bs ih => cases b <;> simp [cchain, ih, collapse]

theorem cchain_not_leaf (bits : List Bool) (y : E) (hy : y.isLeaf = false) : cchain bits y = chain bits y := by
  induction bits with
  | nil => rfl
  | cons b bs ih =>
    have := chain_isLeaf_false bs y hy
    cases b <;> simp [cchain, ih, chain, link, collapse_nil_left, collapse_nil_right, this]

/-! ## common prefixes -/

theorem lcp_spec (a b : List Bool) : ∃ ra rb, a = lcp a b ++ ra ∧ b = lcp a b ++ rb ∧
    (ra = [] ∨ rb = [] ∨ ∃ x ra' rb', ra = x :: ra' ∧ rb = (!x) :: rb') := by
  induction a generalizing b with
  | nil => exact ⟨[], b, by simp [lcp]⟩
  | cons x a ih =>
    cases b with
    | nil => exact ⟨x :: a, [], by simp [lcp]⟩
    | cons y b =>
      by_cases e : x = y
      · subst e
        obtain ⟨ra, rb, h1, h2, h3⟩ := ih b
        refine ⟨ra, rb, ?_, ?_, h3⟩
        · simp only [lcp, if_true, List.cons_append]; rw [← h1]
        · simp only [lcp, if_true, List.cons_append]; rw [← h2]
      · refine ⟨x :: a, y :: b, by simp [lcp, e], by simp [lcp, e], Or.inr (Or.inr ⟨x, a, b, rfl, ?_⟩)⟩
        cases x <;> cases y <;> simp_all

theorem lcp_self (a : List Bool) : lcp a a = a := by
  induction a with
  | nil => rfl
  | cons x a ih => simp [lcp, ih]

theorem fork_lcp (lp lq : E) (c : List Bool) (x : Bool) (ra rb : List Bool) :
    fork lp lq (c ++ x :: ra) (c ++ (!x) :: rb) = chain c (if x then .inner lq lp else .inner lp lq) := by
  induction c with
  | nil => cases x <;> simp [fork, chain]
  | cons y c ih => cases y <;> simp [fork, chain, link, ih]

theorem drop_add_of_drop {p : Path} {d : Nat} {a b : List Bool} (h : p.drop d = a ++ b) :
    p.drop (d + a.length) = b := by
  have : p.drop (d + a.length) = (p.drop d).drop a.length := by rw [List.drop_drop]
  rw [this, h]; simp

/-! ## well-formed tries with extension nodes -/

def T.isInner : T → Bool
  | .inner _ _ => true
  | _ => false

/-- An extension node covers at least one bit and its child is an inner node. -/
def T.WT : T → Prop
  | .nil => True
  | .leaf _ _ => True
  | .inner l r => l.WT ∧ r.WT
  | .ext bits c => bits ≠ [] ∧ c.isInner = true ∧ c.WT

theorem wt_mkExt (bs : List Bool) (c : T) (hi : c.isInner = true) (hc : c.WT) : (mkExt bs c).WT := by
  cases bs with
  | nil => exact hc
  | cons b bs => exact ⟨by simp, hi, hc⟩

theorem isInner_innerOn (m : Bool) (x y : T) : (innerOn m x y).isInner = true := by
  cases m <;> rfl

theorem wt_innerOn (m : Bool) (x y : T) (hx : x.WT) (hy : y.WT) : (innerOn m x y).WT := by
  cases m
  · exact ⟨hx, hy⟩
  · exact ⟨hy, hx⟩

theorem isInner_update_of_isInner (t : T) (d : Nat) (p : Path) (v : Val) (h : t.isInner = true) :
    (t.update d p v).isInner = true := by
  cases t with
  | inner l r => simp only [T.update]; split <;> rfl
  | nil => simp [T.isInner] at h
  | leaf => simp [T.isInner] at h
  | ext => simp [T.isInner] at h

theorem expand_isLeaf_of_isInner (t : T) (h : t.isInner = true) : t.expand.isLeaf = false := by
  cases t with
  | inner l r => rfl
  | nil => simp [T.isInner] at h
  | leaf => simp [T.isInner] at h
  | ext => simp [T.isInner] at h

/-- The chain below a well-formed position: what hangs below it is well-formed at the longer
prefix, and the chain fits into the path length. -/
theorem nf_chain {n : Nat} (bits pre : List Bool) (x : E) (h : NF n pre (chain bits x)) :
    NF n (pre ++ bits) x ∧ (bits ≠ [] → pre.length + bits.length ≤ n) := by
  induction bits generalizing pre with
  | nil => exact ⟨by simpa [chain] using h, fun e => absurd rfl e⟩
  | cons b bs ih =>
    have hsub : NF n (pre ++ [b]) (chain bs x) ∧ pre.length < n := by
      cases b with
      | true =>
        simp only [chain, link, if_true] at h
        cases h with
        | inner _ _ _ hlt _ hr _ => exact ⟨hr, hlt⟩
      | false =>
        simp only [chain, link, Bool.false_eq_true, if_false] at h
        cases h with
        | inner _ _ _ hlt hl _ _ => exact ⟨hl, hlt⟩
    obtain ⟨h1, h2⟩ := ih (pre ++ [b]) hsub.1
    refine ⟨by simpa using h1, fun _ => ?_⟩
    cases bs with
    | nil => simp; omega
    | cons b' bs' =>
      have := h2 (by simp)
      simp at this ⊢; omega

/-! ## update -/

theorem update_expand {n : Nat} (t : T) (pre : List Bool) (p : Path) (v : Val)
    (hw : t.WT) (hnf : NF n pre t.expand) (hp : Agree pre p) (hl : p.length = n) :
    (t.update pre.length p v).expand = t.expand.insert pre.length p v ∧ (t.update pre.length p v).WT := by
  induction t generalizing pre with
  | nil => exact ⟨rfl, trivial⟩
  | leaf q w =>
    simp only [T.expand] at hnf
    cases hnf with
    | leaf _ _ _ hq ha =>
      obtain ⟨as, hpa⟩ := hp
      obtain ⟨bs, hqb⟩ := ha
      have hd1 : p.drop pre.length = as := by rw [hpa]; simp
      have hd2 : q.drop pre.length = bs := by rw [hqb]; simp
      have hlen : as.length = bs.length := by
        have e1 : p.length = pre.length + as.length := by rw [hpa]; simp
        have e2 : q.length = pre.length + bs.length := by rw [hqb]; simp
        omega
      obtain ⟨ra, rb, h1, h2, h3⟩ := lcp_spec as bs
      simp only [T.update, T.expand, E.insert, hd1, hd2]
      generalize lcp as bs = c at h1 h2 ⊢
      by_cases e : q = p
      · have hab : as = bs := by
          have : pre ++ bs = pre ++ as := by rw [← hpa, ← hqb, e]
          exact (List.append_cancel_left this).symm
        -- equal paths: the common prefix is everything
        have hra : ra = [] := by
          rcases h3 with h | h | ⟨x, ra', rb', hx, hy⟩
          · exact h
          · subst h
            have : as.length = c.length + ra.length := by rw [h1]; simp
            have : bs.length = c.length := by rw [h2]; simp
            cases ra with
            | nil => rfl
            | cons _ _ => simp at *; omega
          · subst hx hy
            rw [h1, h2] at hab
            have := List.append_cancel_left hab
            cases x <;> simp at this
        subst hra
        have : c.length = as.length := by rw [h1]; simp
        simp only [e, this, if_true, T.expand]
        exact ⟨trivial, trivial⟩
      · have hne : as ≠ bs := fun e' => e (by rw [hpa, hqb, e'])
        have hx : ∃ x ra' rb', ra = x :: ra' ∧ rb = (!x) :: rb' := by
          rcases h3 with h | h | h
          · subst h
            have e1 : as.length = c.length := by rw [h1]; simp
            have e2 : bs.length = c.length + rb.length := by rw [h2]; simp
            cases rb with
            | nil => exact absurd (by rw [h1, h2]) hne
            | cons _ _ => simp at e2; omega
          · subst h
            have e1 : as.length = c.length + ra.length := by rw [h1]; simp
            have e2 : bs.length = c.length := by rw [h2]; simp
            cases ra with
            | nil => exact absurd (by rw [h1, h2]) hne
            | cons _ _ => simp at e1; omega
          · exact h
        obtain ⟨x, ra', rb', hx, hy⟩ := hx
        subst hx hy
        have hcl : ¬ c.length = as.length := by rw [h1]; simp
        have hbit : bit p (pre.length + c.length) = x := by
          have : p.drop pre.length = c ++ x :: ra' := by rw [hd1, h1]
          exact bit_of_drop (drop_add_of_drop this)
        simp only [e, hcl, if_false, hbit, expand_mkExt, expand_innerOn, T.expand]
        refine ⟨?_, wt_mkExt _ _ (isInner_innerOn _ _ _) (wt_innerOn _ _ _ trivial trivial)⟩
        rw [h1, h2, fork_lcp]
  | inner l r ihl ihr =>
    simp only [T.expand] at hnf
    cases hnf with
    | inner _ _ _ hlt hnl hnr h2 =>
      have hap := agree_snoc_of hp (by omega)
      simp only [T.update, T.expand, E.insert]
      cases hb : bit p pre.length
      · rw [hb] at hap
        have := ihl (pre ++ [false]) hw.1 hnl hap
        simp only [List.length_append, List.length_singleton] at this
        simp only [Bool.false_eq_true, if_false, T.expand, this.1]
        exact ⟨trivial, this.2, hw.2⟩
      · rw [hb] at hap
        have := ihr (pre ++ [true]) hw.2 hnr hap
        simp only [List.length_append, List.length_singleton] at this
        simp only [if_true, T.expand, this.1]
        exact ⟨trivial, hw.1, this.2⟩
  | ext bits c ih =>
    obtain ⟨hb0, hi, hcw⟩ := hw
    simp only [T.expand] at hnf
    obtain ⟨hnfc, hfit⟩ := nf_chain bits pre c.expand hnf
    have hfit := hfit hb0
    obtain ⟨as, hpa⟩ := hp
    have hd1 : p.drop pre.length = as := by rw [hpa]; simp
    have hasl : pre.length + as.length = n := by rw [← hl, hpa]; simp
    obtain ⟨ra, rb, h1, h2, h3⟩ := lcp_spec bits as
    simp only [T.update, T.expand, hd1]
    generalize lcp bits as = m at h1 h2 ⊢
    by_cases hm : m.length = bits.length
    · have hra : ra = [] := by
        have : bits.length = m.length + ra.length := by rw [h1]; simp
        cases ra with
        | nil => rfl
        | cons _ _ => simp at this; omega
      subst hra
      simp only [List.append_nil] at h1
      subst h1
      have hdrop : p.drop pre.length = bits ++ rb := by rw [hd1, h2]
      have hag : Agree (pre ++ bits) p := ⟨rb, by rw [hpa, h2]; simp⟩
      have := ih (pre ++ bits) hcw hnfc hag
      simp only [List.length_append] at this
      simp only [if_true, T.expand, this.1, insert_chain_match bits rb c.expand pre.length p v hdrop]
      exact ⟨trivial, hb0, isInner_update_of_isInner c _ p v hi, this.2⟩
    · have hx : ∃ x ra' rb', ra = x :: ra' ∧ rb = (!x) :: rb' := by
        rcases h3 with h | h | h
        · subst h
          exact absurd (by rw [h1]; simp) hm
        · subst h
          have e1 : bits.length = m.length + ra.length := by rw [h1]; simp
          have e2 : as.length = m.length := by rw [h2]; simp
          cases ra with
          | nil => exact absurd (by rw [h1]; simp) hm
          | cons _ _ => simp at e1; omega
        · exact h
      obtain ⟨x, ra', rb', hx, hy⟩ := hx
      subst hx hy
      have hmy : (bits.drop m.length).headD false = x := by rw [h1]; simp
      have hpost : (bits.drop m.length).tail = ra' := by rw [h1]; simp
      have hdrop : p.drop pre.length = m ++ (!x) :: rb' := by rw [hd1, h2]
      have hbit : bit p (pre.length + m.length) = !x := bit_of_drop (drop_add_of_drop hdrop)
      simp only [hm, if_false, hmy, hpost, expand_mkExt, expand_innerOn, T.expand]
      refine ⟨?_, wt_mkExt _ _ (isInner_innerOn _ _ _) (wt_innerOn _ _ _ (wt_mkExt _ _ hi hcw) trivial)⟩
      have hch : chain bits c.expand = chain m (chain (x :: ra') c.expand) := by
        rw [← chain_append, ← h1]
      rw [hch, insert_chain_match m ((!x) :: rb') _ pre.length p v hdrop]
      cases x <;> simp [chain, link, E.insert, hbit]

/-! ## delete -/

/-- A path that leaves the chain: `delete` finds an empty subtrie and changes nothing. -/
theorem delete_chain_mismatch (bits : List Bool) (x : E) (hx : x.isLeaf = false) (d : Nat) (p : Path)
    (hnp : bits.isPrefixOf (p.drop d) = false) (hlen : bits.length ≤ (p.drop d).length) :
    (chain bits x).delete d p = chain bits x := by
  induction bits generalizing d with
  | nil => simp at hnp
  | cons b bs ih =>
    cases hdp : p.drop d with
    | nil => rw [hdp] at hlen; simp at hlen
    | cons a rest =>
      have hbit := bit_of_drop hdp
      have hd := drop_succ_of_drop hdp
      have hY := chain_isLeaf_false bs x hx
      rw [hdp] at hnp hlen
      by_cases e : a = b
      · subst e
        have hnp' : bs.isPrefixOf (p.drop (d + 1)) = false := by
          rw [hd]; simpa [List.isPrefixOf] using hnp
        have := ih (d + 1) hnp' (by rw [hd]; simpa using hlen)
        cases a <;> simp [chain, link, E.delete, hbit, this, collapse_nil_left, collapse_nil_right, hY]
      · cases a <;> cases b <;> simp_all [chain, link, E.delete, collapse_nil_left, collapse_nil_right]

theorem expand_afterDelete (s : Bool) (c' o : T) (hc : c'.WT) (ho : o.WT) :
    (afterDelete s c' o).expand = (if s then collapse o.expand c'.expand else collapse c'.expand o.expand) ∧
    (afterDelete s c' o).WT := by
  cases c' with
  | nil =>
    cases o with
    | nil => cases s <;> exact ⟨rfl, trivial, trivial⟩
    | leaf q w => cases s <;> exact ⟨rfl, trivial⟩
    | inner l r => cases s <;> exact ⟨rfl, by first | exact ⟨trivial, ho⟩ | exact ⟨ho, trivial⟩⟩
    | ext nb nc =>
      obtain ⟨h0, hi, hw⟩ := ho
      cases nb with
      | nil => exact absurd rfl h0
      | cons b nb =>
        refine ⟨?_, by simp, hi, hw⟩
        cases s <;> cases b <;> simp [afterDelete, T.expand, chain, link, collapse]
  | leaf q w =>
    cases o with
    | nil => cases s <;> exact ⟨rfl, trivial⟩
    | leaf q' w' => cases s <;> exact ⟨rfl, trivial, trivial⟩
    | inner l r => cases s <;> exact ⟨rfl, by first | exact ⟨trivial, ho⟩ | exact ⟨ho, trivial⟩⟩
    | ext nb nc =>
      have hw := ho
      obtain ⟨h0, _, _⟩ := ho
      cases nb with
      | nil => exact absurd rfl h0
      | cons b nb =>
        cases s
        · refine ⟨?_, trivial, hw⟩
          cases b <;> simp [afterDelete, T.expand, chain, link, collapse]
        · refine ⟨?_, hw, trivial⟩
          cases b <;> simp [afterDelete, T.expand, chain, link, collapse]
  | inner l r =>
    cases o with
    | nil => cases s <;> exact ⟨rfl, by first | exact ⟨trivial, hc⟩ | exact ⟨hc, trivial⟩⟩
    | leaf q' w' => cases s <;> exact ⟨rfl, by first | exact ⟨trivial, hc⟩ | exact ⟨hc, trivial⟩⟩
    | inner l' r' => cases s <;> exact ⟨rfl, by first | exact ⟨ho, hc⟩ | exact ⟨hc, ho⟩⟩
    | ext nb nc =>
      have hw := ho
      obtain ⟨h0, _, _⟩ := ho
      cases nb with
      | nil => exact absurd rfl h0
      | cons b nb =>
        cases s
        · refine ⟨?_, hc, hw⟩
          cases b <;> simp [afterDelete, T.expand, chain, link, collapse]
        · refine ⟨?_, hw, hc⟩
          cases b <;> simp [afterDelete, T.expand, chain, link, collapse]
  | ext mb mc =>
    have hcw := hc
    obtain ⟨hm0, hmi, hmw⟩ := hc
    cases mb with
    | nil => exact absurd rfl hm0
    | cons a mb =>
      cases o with
      | nil =>
        refine ⟨?_, by simp, hmi, hmw⟩
        cases s <;> cases a <;> simp [afterDelete, T.expand, chain, link, collapse]
      | leaf q' w' =>
        cases s
        · refine ⟨?_, hcw, trivial⟩
          cases a <;> simp [afterDelete, T.expand, chain, link, collapse]
        · refine ⟨?_, trivial, hcw⟩
          cases a <;> simp [afterDelete, T.expand, chain, link, collapse]
      | inner l' r' =>
        cases s
        · refine ⟨?_, hcw, ho⟩
          cases a <;> simp [afterDelete, T.expand, chain, link, collapse]
        · refine ⟨?_, ho, hcw⟩
          cases a <;> simp [afterDelete, T.expand, chain, link, collapse]
      | ext nb nc =>
        have hw := ho
        obtain ⟨h0, _, _⟩ := ho
        cases nb with
        | nil => exact absurd rfl h0
        | cons b nb =>
          cases s
          · refine ⟨?_, hcw, hw⟩
            cases a <;> cases b <;> simp [afterDelete, T.expand, chain, link, collapse]
          · refine ⟨?_, hw, hcw⟩
            cases a <;> cases b <;> simp [afterDelete, T.expand, chain, link, collapse]

theorem delete_expand {n : Nat} (t : T) (pre : List Bool) (p : Path)
    (hw : t.WT) (hnf : NF n pre t.expand) (hl : p.length = n) :
    (t.delete pre.length p).expand = t.expand.delete pre.length p ∧ (t.delete pre.length p).WT := by
  induction t generalizing pre with
  | nil => exact ⟨rfl, trivial⟩
  | leaf q w =>
    simp only [T.delete, T.expand, E.delete]
    by_cases e : q = p <;> simp [e, T.expand, T.WT]
  | inner l r ihl ihr =>
    simp only [T.expand] at hnf
    cases hnf with
    | inner _ _ _ hlt hnl hnr h2 =>
      simp only [T.delete, T.expand, E.delete]
      cases hb : bit p pre.length
      · have := ihl (pre ++ [false]) hw.1 hnl
        simp only [List.length_append, List.length_singleton] at this
        obtain ⟨h1, h2⟩ := expand_afterDelete false (l.delete (pre.length + 1) p) r this.2 hw.2
        simp only [Bool.false_eq_true, if_false] at h1 ⊢
        exact ⟨by rw [h1, this.1], h2⟩
      · have := ihr (pre ++ [true]) hw.2 hnr
        simp only [List.length_append, List.length_singleton] at this
        obtain ⟨h1, h2⟩ := expand_afterDelete true (r.delete (pre.length + 1) p) l this.2 hw.1
        simp only [if_true] at h1 ⊢
        exact ⟨by rw [h1, this.1], h2⟩
  | ext bits c ih =>
    obtain ⟨hb0, hi, hcw⟩ := hw
    simp only [T.expand] at hnf
    obtain ⟨hnfc, hfit⟩ := nf_chain bits pre c.expand hnf
    have hfit := hfit hb0
    have hxl := expand_isLeaf_of_isInner c hi
    simp only [T.delete, T.expand]
    cases hpf : bits.isPrefixOf (p.drop pre.length)
    · simp only [Bool.false_eq_true, if_false, T.expand]
      refine ⟨?_, hb0, hi, hcw⟩
      rw [delete_chain_mismatch bits c.expand hxl pre.length p hpf (by simp; omega)]
    · obtain ⟨rest, hrest⟩ := List.isPrefixOf_iff_prefix.mp hpf
      have hdrop : p.drop pre.length = bits ++ rest := hrest.symm
      have hih := ih (pre ++ bits) hcw hnfc
      simp only [List.length_append] at hih
      rw [delete_chain_match bits rest c.expand pre.length p hdrop, ← hih.1]
      simp only [if_true]
      -- the child still has a leaf: an inner node has at least two
      have hcnt : 1 ≤ (c.delete (pre.length + bits.length) p).expand.count := by
        have h2 : 2 ≤ c.expand.count := by
          cases c with
          | inner l r =>
            simp only [T.expand] at hnfc ⊢
            cases hnfc with
            | inner _ _ _ _ _ _ h2 => simpa [E.count] using h2
          | nil => simp [T.isInner] at hi
          | leaf => simp [T.isInner] at hi
          | ext => simp [T.isInner] at hi
        have := count_delete c.expand (pre.length + bits.length) p
        rw [hih.1]; omega
      cases hc' : c.delete (pre.length + bits.length) p with
      | nil => rw [hc'] at hcnt; simp [T.expand, E.count] at hcnt
      | leaf q w => exact ⟨by simp [T.expand, cchain_leaf], trivial⟩
      | inner l' r' =>
        have hw' := hih.2
        rw [hc'] at hw'
        exact ⟨by simp only [T.expand]; rw [cchain_not_leaf _ _ rfl], hb0, rfl, hw'⟩
      | ext nb nc =>
        have hw' := hih.2
        rw [hc'] at hw'
        obtain ⟨hn0, hni, hnw⟩ := hw'
        refine ⟨?_, by simp [hb0], hni, hnw⟩
        simp only [T.expand, chain_append]
        rw [cchain_not_leaf]
        cases nb with
        | nil => exact absurd rfl hn0
        | cons b nb => cases b <;> rfl

/-! ## Get -/

theorem get_chain (bits : List Bool) (x : E) (d : Nat) (p : Path) (hlen : bits.length ≤ (p.drop d).length) :
    (chain bits x).get d p = if bits.isPrefixOf (p.drop d) then x.get (d + bits.length) p else none := by
  induction bits generalizing d with
  | nil => simp [chain]
  | cons b bs ih =>
    cases hdp : p.drop d with
    | nil => rw [hdp] at hlen; simp at hlen
    | cons a rest =>
      have hbit := bit_of_drop hdp
      have hd := drop_succ_of_drop hdp
      rw [hdp] at hlen
      have := ih (d + 1) (by rw [hd]; simpa using hlen)
      rw [hd] at this
      have e : d + (b :: bs).length = d + 1 + bs.length := by simp; omega
      rw [e]
      cases a <;> cases b <;> simp [chain, link, E.get, hbit, this, List.isPrefixOf]

theorem get_expand {n : Nat} (t : T) (pre : List Bool) (p : Path) (hw : t.WT) (hnf : NF n pre t.expand)
    (hl : p.length = n) : t.get pre.length p = t.expand.get pre.length p := by
  induction t generalizing pre with
  | nil => rfl
  | leaf q w => rfl
  | inner l r ihl ihr =>
    simp only [T.expand] at hnf
    cases hnf with
    | inner _ _ _ hlt hnl hnr h2 =>
      have h1 := ihl (pre ++ [false]) hw.1 hnl
      have h2 := ihr (pre ++ [true]) hw.2 hnr
      simp only [List.length_append, List.length_singleton] at h1 h2
      simp only [T.get, T.expand, E.get, h1, h2]
  | ext bits c ih =>
    obtain ⟨hb0, hi, hcw⟩ := hw
    simp only [T.expand] at hnf
    obtain ⟨hnfc, hfit⟩ := nf_chain bits pre c.expand hnf
    have hfit := hfit hb0
    have := ih (pre ++ bits) hcw hnfc
    simp only [List.length_append] at this
    simp only [T.get, T.expand, this]
    rw [get_chain bits c.expand pre.length p (by simp; omega)]

/-! ## histories -/

theorem applyOpT_spec {n : Nat} {t : T} (hw : t.WT) (hnf : NF n [] t.expand) (op : TOp)
    (hl : op.path.length = n) :
    (applyOpT t op).expand = applyOp t.expand op ∧ (applyOpT t op).WT := by
  cases op with
  | put p v => exact update_expand t [] p v hw hnf ⟨p, rfl⟩ hl
  | del p => exact delete_expand t [] p hw hnf hl

/-- Along every history the trie with extension nodes expands to the trie without them. -/
theorem runOpsT_expand {n : Nat} (ops : List TOp) (hw : ∀ op ∈ ops, op.path.length = n) :
    (runOpsT ops).expand = runOps ops ∧ (runOpsT ops).WT := by
  have key : ∀ (ops : List TOp) (t : T), (∀ op ∈ ops, op.path.length = n) → t.WT → NF n [] t.expand →
      (ops.foldl applyOpT t).expand = ops.foldl applyOp t.expand ∧ (ops.foldl applyOpT t).WT := by
    intro ops
    induction ops with
    | nil => intro t _ hw _; exact ⟨rfl, hw⟩
    | cons op ops ih =>
      intro t hws hw hnf
      obtain ⟨h1, h2⟩ := applyOpT_spec hw hnf op (hws op (by simp))
      have hnf' : NF n [] (applyOpT t op).expand := by
        rw [h1]; exact (applyOp_spec hnf op (hws op (by simp))).1
      have := ih (applyOpT t op) (fun o ho => hws o (List.mem_cons_of_mem _ ho)) h2 hnf'
      simp only [List.foldl_cons]
      rw [← h1]; exact this
  exact key ops .nil hw trivial (NF.nil [])

end Hive.Ads.SMT
