import Hive.Proofs.KVConcPos
/-!
# C05 protocol model: the positional invariant holds in every reachable configuration
-/
namespace Hive.KV.Conc
open Hive.Conc

theorem compile_head_not_eff (op : COp) (a : DOp) (rest : List Instr) : compile op ≠ .eff a :: rest := by
  cases op <;> simp [compile, readCode, writeCode, fwriteCode, iterCode, flagCode, batchCode]

theorem pendingEff_at_eff {t : Thread} (ht : TInv t) {a : DOp} {rest : List Instr} (hcode : t.code = .eff a :: rest) :
    pendingEff t := by
  refine ⟨fun hm => ?_, by rw [hcode]; simp [effsOf]⟩
  obtain ⟨op, _, hcomp, _⟩ := ht.fresh (Or.inl hm)
  rw [hcode] at hcomp
  exact compile_head_not_eff op a rest hcomp.symm

theorem pendingEff_tail {t t' : Thread} {i : Instr} {rest : List Instr} (hcode : t.code = i :: rest)
    (hcode' : t'.code = rest) (hi : i ≠ .check) (hi' : ∀ a, i ≠ .eff a) (h : pendingEff t') : pendingEff t := by
  unfold pendingEff at h ⊢
  rw [hcode'] at h
  rw [hcode, effsOf_cons_ne i rest hi']
  refine ⟨fun hm => ?_, h.2⟩
  rcases List.mem_cons.mp hm with hm | hm
  · exact hi hm.symm
  · exact h.1 hm

theorem hinv_step {s s' : Shared} {pre post : List Thread} {t t' : Thread} (hs : TStep s t s' t')
    (htinv : ∀ u ∈ pre ++ t :: post, TInv u) (hnd : ((pre ++ t :: post).map (·.tid)).Nodup)
    (h : HInv (s, pre ++ t :: post)) : HInv (s', pre ++ t' :: post) := by
  have hmem : t ∈ pre ++ t :: post := List.mem_append_right _ (List.mem_cons_self ..)
  have ht := htinv t hmem
  have hu1 := h.u1 t hmem
  have hu2 := h.u2 t hmem
  simp only at hu1 hu2
  cases hs with
  | invoke op rest hc hs =>
    refine hinv_log (.inv t.tid t.idx op) h htinv hnd rfl rfl rfl (fun hcl => ⟨hcl, rfl⟩)
      (fun _ _ _ _ he => by cases he) (fun _ _ _ _ he => by cases he) ?_ ?_ ?_
    · intro x hx hxt
      rcases List.mem_append.mp hx with hx | hx
      · rcases hu1 x hx hxt with hlt | ⟨_, hcur, _⟩
        · exact Or.inl hlt
        · exact absurd hc hcur
      · simp only [List.mem_singleton] at hx; subst hx
        exact Or.inr ⟨rfl, by simp, rfl⟩
    · intro _
      have : invPos (s.tr ++ [Ev.inv t.tid t.idx op]) t.tid t.idx < (s.tr ++ [Ev.inv t.tid t.idx op]).length :=
        List.findIdx_lt_length_of_exists ⟨_, List.mem_append_right _ (List.mem_singleton.mpr rfl), by simp [isInvOf]⟩
      simpa using this
    · intro hp; exact absurd hp (not_pendingEff_compile op)
  | ret op hc hcode =>
    refine hinv_log (.ret t.tid t.idx t.answer) h htinv hnd rfl rfl rfl (fun hcl => ⟨hcl, rfl⟩)
      (fun _ _ _ _ he => by cases he) (fun _ _ _ _ he => by cases he) ?_ ?_ ?_
    · intro x hx hxt
      left
      show x.idx < t.idx + 1
      rcases List.mem_append.mp hx with hx | hx
      · rcases hu1 x hx hxt with hlt | ⟨heq, _, _⟩ <;> omega
      · simp only [List.mem_singleton] at hx; subst hx; simp [Ev.idx]
    · intro hcur; exact absurd rfl hcur
    · intro hp
      have : effsOf t.code ≠ [] := hp.2
      rw [hcode] at this; exact absurd rfl this
  | checkFail op rest hc hcode hcl =>
    have hcur : t.cur ≠ none := by rw [hc]; simp
    refine hinv_log (.lin t.tid t.idx .failClosed .closed) h htinv hnd rfl rfl rfl (fun hcl' => ⟨hcl', rfl⟩)
      (fun _ _ _ _ he => by cases he; exact ⟨rfl, rfl, hcur⟩) (fun _ _ _ _ he => by cases he) ?_ ?_ ?_
    · intro x hx hxt
      rcases List.mem_append.mp hx with hx | hx
      · exact hu1 x hx hxt
      · simp only [List.mem_singleton] at hx; subst hx; exact Or.inr ⟨rfl, hcur, rfl⟩
    · intro _
      have hf := hu2 hcur
      show invPos (s.tr ++ [_]) t.tid t.idx < s.tr.length + 1
      unfold invPos at hf ⊢
      rw [findIdx_snoc_found _ _ _ hf]; omega
    · intro hp; exact absurd rfl hp.2
  | eff op a rest hc hcode =>
    have hcur : t.cur ≠ none := by rw [hc]; simp
    have hpe := pendingEff_at_eff ht hcode
    refine hinv_log (.lin t.tid t.idx (.eff a) (a.apply s.m).2) h htinv hnd rfl rfl rfl (fun hcl' => ⟨hcl', rfl⟩)
      (fun _ _ _ _ he => by cases he; exact ⟨rfl, rfl, hcur⟩) (fun _ _ _ _ _ => hpe) ?_ ?_ ?_
    · intro x hx hxt
      rcases List.mem_append.mp hx with hx | hx
      · exact hu1 x hx hxt
      · simp only [List.mem_singleton] at hx; subst hx; exact Or.inr ⟨rfl, hcur, rfl⟩
    · intro _
      have hf := hu2 hcur
      show invPos (s.tr ++ [_]) t.tid t.idx < s.tr.length + 1
      unfold invPos at hf ⊢
      rw [findIdx_snoc_found _ _ _ hf]; omega
    · intro _; exact ⟨rfl, hpe, rfl⟩
  | swap op rest hc hcode =>
    have hcur : t.cur ≠ none := by rw [hc]; simp
    refine hinv_log (.lin t.tid t.idx .close .ok) h htinv hnd rfl rfl rfl (fun hcl' => by cases hcl')
      (fun _ _ _ _ he => by cases he; exact ⟨rfl, rfl, hcur⟩) (fun _ _ _ _ he => by cases he) ?_ ?_ ?_
    · intro x hx hxt
      rcases List.mem_append.mp hx with hx | hx
      · exact hu1 x hx hxt
      · simp only [List.mem_singleton] at hx; subst hx; exact Or.inr ⟨rfl, hcur, rfl⟩
    · intro _
      have hf := hu2 hcur
      show invPos (s.tr ++ [_]) t.tid t.idx < s.tr.length + 1
      unfold invPos at hf ⊢
      rw [findIdx_snoc_found _ _ _ hf]; omega
    · intro hp
      exfalso
      obtain ⟨op', _, hcomp, _⟩ := ht.fresh (Or.inr (by rw [hcode]; exact List.mem_cons_self ..))
      have hop : op' = .close := swap_only_close op' (by rw [← hcomp, hcode]; exact List.mem_cons_self ..)
      subst hop
      rw [hcode] at hcomp
      simp only [compile, List.cons.injEq, true_and] at hcomp
      have : effsOf rest ≠ [] := hp.2
      rw [hcomp] at this; exact this rfl
  | checkOk op rest hc hcode hcl =>
    exact hinv_keep h rfl rfl rfl rfl rfl (fun _ => Or.inr hcl)
  | announce op l rest hc hcode hwt =>
    exact hinv_keep h rfl rfl rfl rfl rfl (fun hp => Or.inl hp)
  | acquire op l rest hc hcode hwt hfree =>
    exact hinv_keep h rfl rfl rfl rfl rfl
      (fun hp => Or.inl (pendingEff_tail hcode rfl (by simp) (by simp) hp))
  | rlock op l rest hc hcode hfree =>
    exact hinv_keep h rfl rfl rfl rfl rfl
      (fun hp => Or.inl (pendingEff_tail hcode rfl (by simp) (by simp) hp))
  | unlock op l rest hc hcode =>
    exact hinv_keep h rfl rfl rfl rfl rfl
      (fun hp => Or.inl (pendingEff_tail hcode rfl (by simp) (by simp) hp))
  | runlock op l rest hc hcode =>
    exact hinv_keep h rfl rfl rfl rfl rfl
      (fun hp => Or.inl (pendingEff_tail hcode rfl (by simp) (by simp) hp))
  | load op rest hc hcode =>
    exact hinv_keep h rfl rfl rfl rfl rfl
      (fun hp => Or.inl (pendingEff_tail hcode rfl (by simp) (by simp) hp))

theorem hinv_init (scripts : List (List COp)) : HInv (initCfg scripts) := by
  refine ⟨?_, ?_, ?_, ?_, ?_, ?_, ?_⟩ <;> simp [initCfg, initShared]
  · intro u hu
    obtain ⟨k, sc, rfl, _⟩ := initThreads_mem hu
    rfl

theorem hinv_reach {scripts : List (List COp)} {c : Cfg Shared Thread} (hr : Reach sys (initCfg scripts) c) :
    LInv c ∧ SInv c.1 ∧ NInv c ∧ HInv c := by
  refine inv_induction (S := sys) (fun c => LInv c ∧ SInv c.1 ∧ NInv c ∧ HInv c)
    ⟨linv_init scripts, sinv_init, ninv_init scripts, hinv_init scripts⟩ ?_ hr
  intro a b ⟨hl, hsq, hn, hh⟩ hstep
  cases hstep with
  | mk s pre t post s' t' hmem =>
    have hts := step_tstep hmem
    exact ⟨linv_step hts hl, sinv_step hts hsq,
      ninv_step hts (hl.tinv t (List.mem_append_right _ (List.mem_cons_self ..))) hn,
      hinv_step hts hl.tinv hn.nodup hh⟩

end Hive.KV.Conc
