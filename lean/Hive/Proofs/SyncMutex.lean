import Hive.Model.SyncMutex
/-!
Invariants of the StarvingMutex monitor and their preservation.

`GInv` needs nothing from the scripts: it holds for any number of goroutines calling the four methods in
any order (including unlocks of locks that are not held).  `WInv` adds what well-bracketed scripts give:
the counters equal the holds of the goroutines and nobody panics.
-/
namespace Hive.SyncMutex
open Hive.Conc

theorem sumV_mid (f : V → Nat) (pre post : List V) (v : V) :
    sumV f (pre ++ v :: post) = sumV f pre + f v + sumV f post := by
  simp [sumV, List.map_append, List.sum_append]; omega

theorem sumV_nil (f : V → Nat) : sumV f [] = 0 := rfl

theorem sumV_pos {f : V → Nat} {vs : List V} (h : 0 < sumV f vs) : ∃ v ∈ vs, 0 < f v := by
  induction vs with
  | nil => simp [sumV] at h
  | cons a l ih =>
    simp only [sumV, List.map_cons, List.sum_cons] at h
    by_cases ha : 0 < f a
    · exact ⟨a, by simp, ha⟩
    · have : 0 < sumV f l := by simp only [sumV]; omega
      obtain ⟨v, hv, hp⟩ := ih this
      exact ⟨v, by simp [hv], hp⟩

theorem sumV_zero {f : V → Nat} {vs : List V} (h : ∀ v ∈ vs, f v = 0) : sumV f vs = 0 := by
  induction vs with
  | nil => rfl
  | cons a l ih =>
    simp only [sumV, List.map_cons, List.sum_cons]
    have h1 := h a (by simp)
    have h2 : sumV f l = 0 := ih (fun v hv => h v (by simp [hv]))
    simp only [sumV] at h2
    omega

theorem sumV_ge {f : V → Nat} {vs : List V} {v : V} (h : v ∈ vs) : f v ≤ sumV f vs := by
  induction vs with
  | nil => simp at h
  | cons a l ih =>
    simp only [sumV, List.map_cons, List.sum_cons]
    rcases List.mem_cons.mp h with rfl | h'
    · omega
    · have := ih h'; simp only [sumV] at this; omega

/-- holds the internal mutex -/
def fM (v : V) : Nat := match v.pc with | .rlC | .lkI | .lkC | .ruC | .ulC => 1 | _ => 0
/-- counted in `pendingWriters` -/
def fPend (v : V) : Nat := match v.pc with | .lkC | .lkP | .lkR => 1 | _ => 0
def fPW (v : V) : Nat := match v.pc with | .lkP => 1 | _ => 0
def fPR (v : V) : Nat := match v.pc with | .rlP => 1 | _ => 0
/-- owes the writer condition a notification, or is a notified writer about to re-test -/
def fHW (v : V) : Nat := match v.pc with | .ruS | .ulS | .lkR | .lkC => 1 | _ => 0
/-- owes the reader condition its broadcast -/
def fBR (v : V) : Nat := match v.pc with | .ulB => 1 | _ => 0

/-- Script-independent invariant of the monitor. -/
structure GInv (s : Mx) (vs : List V) : Prop where
  excl : s.writer = true → s.readers = 0
  hm : (if s.m then 1 else 0) = sumV fM vs
  hpend : s.pending = sumV fPend vs
  hW : s.waitW + s.wakeW = sumV fPW vs
  hR : s.waitR + s.wakeR = sumV fPR vs
  phiW : s.writer = false → s.readers = 0 → 0 < s.waitW → 0 < sumV fHW vs + s.wakeW
  phiR : s.writer = false → 0 < s.waitR → 0 < sumV fBR vs ∨ 0 < s.pending

theorem ginv_init (vs : List V) (h : ∀ v ∈ vs, v.pc = .idle) : GInv Mx.init vs := by
  have z : ∀ f : V → Nat, (∀ v, v.pc = .idle → f v = 0) → sumV f vs = 0 :=
    fun f hf => sumV_zero (fun v hv => hf v (h v hv))
  constructor <;> simp [Mx.init]
  · rw [z]; intro v hv; simp [fM, hv]
  · rw [z]; intro v hv; simp [fPend, hv]
  · rw [z]; intro v hv; simp [fPW, hv]
  · rw [z]; intro v hv; simp [fPR, hv]

theorem sumV_le {f g : V → Nat} (h : ∀ v, f v ≤ g v) (vs : List V) : sumV f vs ≤ sumV g vs := by
  induction vs with
  | nil => simp [sumV]
  | cons a l ih =>
    simp only [sumV, List.map_cons, List.sum_cons] at *
    have := h a
    omega

theorem fPW_le_fPend (v : V) : fPW v ≤ fPend v := by
  obtain ⟨pc, rd, wr⟩ := v; cases pc <;> simp [fPW, fPend]

theorem ginv_step {s : Mx} {pre post : List V} {v : V} {s' : Mx} {v' : V}
    (h : GInv s (pre ++ v :: post)) (hmem : (s', v') ∈ mxStep s v) : GInv s' (pre ++ v' :: post) := by
  obtain ⟨pc, rd, wr⟩ := v
  obtain ⟨m, readers, writer, pending, waitR, wakeR, waitW, wakeW⟩ := s
  obtain ⟨h1, h2, h3, h4, h5, h6, h7⟩ := h
  simp only [sumV_mid] at h2 h3 h4 h5 h6 h7
  have l1 := sumV_le fPW_le_fPend pre
  have l2 := sumV_le fPW_le_fPend post
  cases pc <;> cases m <;> cases writer <;>
    simp [mxStepG, ulCStep, signalW, broadcastR] at hmem <;>
    (repeat' split at hmem) <;>
    (try simp at hmem) <;>
    (try (first | (obtain ⟨rfl, rfl⟩ := hmem) | (obtain ⟨hg, rfl, rfl⟩ := hmem)
          constructor <;> simp [sumV_mid, fM, fPend, fPW, fPR, fHW, fBR] at * <;> omega))

theorem ginv_start {s : Mx} {pre post : List V} {v : V} (op : Op)
    (h : GInv s (pre ++ v :: post)) (hv : v.pc = .idle) :
    GInv s (pre ++ { v with pc := start op } :: post) := by
  obtain ⟨pc, rd, wr⟩ := v
  simp only at hv; subst hv
  obtain ⟨h1, h2, h3, h4, h5, h6, h7⟩ := h
  cases op <;> constructor <;>
    simp only [sumV_mid, start, fM, fPend, fPW, fPR, fHW, fBR] at * <;> assumption

/-! ## Configurations of the single-mutex system -/

def GInvC (c : Cfg Mx Th) : Prop := GInv c.1 (views c.2)

theorem views_mid (pre post : List Th) (t : Th) :
    views (pre ++ t :: post) = views pre ++ t.v :: views post := by
  simp [views]

theorem smStep_cases {fixed : Bool} {s : Mx} {t : Th} {s' : Mx} {t' : Th} (h : (s', t') ∈ smStepG fixed s t) :
    (∃ op rest, t.v.pc = .idle ∧ t.script = op :: rest ∧ s' = s ∧
        t' = { v := { t.v with pc := start op }, script := rest }) ∨
    (t.v.pc ≠ .idle ∧ (s', t'.v) ∈ mxStepG fixed s t.v ∧ t'.script = t.script) := by
  obtain ⟨⟨pc, rd, wr⟩, script⟩ := t
  unfold smStepG at h
  by_cases hp : pc = .idle
  · subst hp
    cases script with
    | nil => simp at h
    | cons op rest =>
      left
      simp only [List.mem_singleton, Prod.mk.injEq] at h
      exact ⟨op, rest, rfl, rfl, h.1, h.2⟩
  · right
    have : (s', t') ∈ (mxStepG fixed s ⟨pc, rd, wr⟩).map
        (fun p => (p.1, ({ v := p.2, script := script } : Th))) := by
      cases pc <;> first | exact absurd rfl hp | exact h
    simp only [List.mem_map, Prod.mk.injEq] at this
    obtain ⟨⟨s1, v1⟩, hm, rfl, rfl⟩ := this
    exact ⟨hp, hm, rfl⟩

theorem ginvC_step {a b : Cfg Mx Th} (h : GInvC a) (hs : Step sys a b) : GInvC b := by
  cases hs with
  | mk s pre t post s' t' hmem =>
    simp only [GInvC, views_mid] at *
    rcases smStep_cases hmem with ⟨op, rest, hpc, _, rfl, rfl⟩ | ⟨_, hm, _⟩
    · exact ginv_start op h hpc
    · exact ginv_step h hm

theorem ginvC_init (scripts : List (List Op)) : GInvC (initCfg scripts) := by
  apply ginv_init
  intro v hv
  simp only [initCfg, views, List.map_map, List.mem_map] at hv
  obtain ⟨sc, _, rfl⟩ := hv
  rfl

theorem ginvC_reach {scripts : List (List Op)} {c : Cfg Mx Th} (hr : Reach sys (initCfg scripts) c) : GInvC c :=
  inv_induction GInvC (ginvC_init scripts) (fun _ _ h hs => ginvC_step h hs) hr

end Hive.SyncMutex
