import Hive.Spec.Serix
/-!
# Basic lemmas for the serix proofs: the `Res` monad, little-endian bytes, the lexical order on byte
strings, insertion sort, the adjacent-pair validators.
-/
namespace Hive.Serix
open Res

/-! ## `Res` -/

theorem Res.bind_eq_ok {α β : Type} {x : Res α} {f : α → Res β} {b : β} :
    (x >>= f) = .ok b ↔ ∃ a, x = .ok a ∧ f a = .ok b := by
  cases x <;> simp

theorem Res.require_eq_ok {c : Bool} : Res.require c = .ok () ↔ c = true := by
  cases c <;> simp [Res.require]

theorem Res.require_bind_eq_ok {β : Type} {c : Bool} {f : Unit → Res β} {b : β} :
    (Res.require c >>= f) = .ok b ↔ c = true ∧ f () = .ok b := by
  cases c <;> simp [Res.require]

@[simp] theorem Res.require_true : Res.require true = .ok () := rfl

/-! ## little endian -/

@[simp] theorem leBytes_length (w n : Nat) : (leBytes w n).length = w := by
  induction w generalizing n with
  | zero => rfl
  | succ w ih => simp [leBytes, ih]

theorem leNat_lt (bs : Bytes) : leNat bs < 256 ^ bs.length := by
  induction bs with
  | nil => simp [leNat]
  | cons b bs ih =>
    have hb : b.toNat < 256 := UInt8.toNat_lt b
    simp only [leNat, List.length_cons, Nat.pow_succ]
    omega

theorem leNat_leBytes (w n : Nat) : leNat (leBytes w n) = n % 256 ^ w := by
  induction w generalizing n with
  | zero => simp [leBytes, leNat, Nat.mod_one]
  | succ w ih =>
    simp only [leBytes, leNat, ih]
    have h1 : (UInt8.ofNat (n % 256)).toNat = n % 256 := by
      simp [UInt8.toNat_ofNat']
    rw [h1, Nat.pow_succ, Nat.mul_comm (256 ^ w) 256, Nat.mod_mul]

theorem leNat_leBytes_of_lt {w n : Nat} (h : n < 256 ^ w) : leNat (leBytes w n) = n := by
  rw [leNat_leBytes, Nat.mod_eq_of_lt h]

theorem leBytes_leNat (bs : Bytes) : leBytes bs.length (leNat bs) = bs := by
  induction bs with
  | nil => rfl
  | cons b bs ih =>
    have hb : b.toNat < 256 := UInt8.toNat_lt b
    simp only [List.length_cons, leBytes, leNat]
    have h1 : (b.toNat + 256 * leNat bs) % 256 = b.toNat := by omega
    have h2 : (b.toNat + 256 * leNat bs) / 256 = leNat bs := by omega
    rw [h1, h2, ih]
    simp

/-! ## list plumbing -/

theorem take_append_length {α : Type} (a b : List α) : (a ++ b).take a.length = a := by
  simp

theorem drop_append_length {α : Type} (a b : List α) : (a ++ b).drop a.length = b := by
  simp

theorem length_le_flatten {α : Type} {x : List α} {l : List (List α)} (h : x ∈ l) :
    x.length ≤ l.flatten.length := by
  induction l with
  | nil => cases h
  | cons y ys ih =>
    simp only [List.flatten_cons, List.length_append]
    rcases List.mem_cons.1 h with rfl | h'
    · omega
    · have := ih h'; omega

/-! ## lexical order on byte strings -/

theorem lexLe_refl (a : Bytes) : lexLe a a = true := by
  induction a with
  | nil => rfl
  | cons x xs ih => simp [lexLe, ih]

theorem lexLe_total (a b : Bytes) : lexLe a b = true ∨ lexLe b a = true := by
  induction a generalizing b with
  | nil => left; rfl
  | cons x xs ih =>
    cases b with
    | nil => right; rfl
    | cons y ys =>
      simp only [lexLe, Bool.or_eq_true, decide_eq_true_eq, Bool.and_eq_true, beq_iff_eq]
      rcases Nat.lt_trichotomy x.toNat y.toNat with h | h | h
      · left; left; exact UInt8.lt_iff_toNat_lt.2 h
      · have hxy : x = y := UInt8.toNat_inj.1 h
        subst hxy
        rcases ih ys with h' | h'
        · left; right; exact ⟨rfl, h'⟩
        · right; right; exact ⟨rfl, h'⟩
      · right; left; exact UInt8.lt_iff_toNat_lt.2 h

theorem lexLe_antisymm {a b : Bytes} (h1 : lexLe a b = true) (h2 : lexLe b a = true) : a = b := by
  induction a generalizing b with
  | nil =>
    cases b with
    | nil => rfl
    | cons y ys => simp [lexLe] at h2
  | cons x xs ih =>
    cases b with
    | nil => simp [lexLe] at h1
    | cons y ys =>
      simp only [lexLe, Bool.or_eq_true, decide_eq_true_eq, Bool.and_eq_true, beq_iff_eq] at h1 h2
      rcases h1 with h1 | ⟨rfl, h1⟩
      · rcases h2 with h2 | ⟨rfl, _⟩
        · have := UInt8.lt_iff_toNat_lt.1 h1; have := UInt8.lt_iff_toNat_lt.1 h2; omega
        · have := UInt8.lt_iff_toNat_lt.1 h1; omega
      · rcases h2 with h2 | ⟨_, h2⟩
        · have := UInt8.lt_iff_toNat_lt.1 h2; omega
        · rw [ih h1 h2]

theorem lexLe_trans {a b c : Bytes} (h1 : lexLe a b = true) (h2 : lexLe b c = true) : lexLe a c = true := by
  induction a generalizing b c with
  | nil => rfl
  | cons x xs ih =>
    cases b with
    | nil => simp [lexLe] at h1
    | cons y ys =>
      cases c with
      | nil => simp [lexLe] at h2
      | cons z zs =>
        simp only [lexLe, Bool.or_eq_true, decide_eq_true_eq, Bool.and_eq_true, beq_iff_eq] at h1 h2 ⊢
        rcases h1 with h1 | ⟨rfl, h1⟩
        · rcases h2 with h2 | ⟨rfl, _⟩
          · left
            have := UInt8.lt_iff_toNat_lt.1 h1; have := UInt8.lt_iff_toNat_lt.1 h2
            exact UInt8.lt_iff_toNat_lt.2 (by omega)
          · left; exact h1
        · rcases h2 with h2 | ⟨rfl, h2⟩
          · left; exact h2
          · right; exact ⟨rfl, ih h1 h2⟩

theorem lexLt_iff {a b : Bytes} : lexLt a b = true ↔ lexLe a b = true ∧ a ≠ b := by
  simp [lexLt]

theorem lexLe_of_lexLt {a b : Bytes} (h : lexLt a b = true) : lexLe a b = true := (lexLt_iff.1 h).1

/-! ## insertion sort -/

theorem insertBy_perm {α : Type} (key : α → Bytes) (a : α) (l : List α) :
    (insertBy key a l).Perm (a :: l) := by
  induction l with
  | nil => exact List.Perm.refl _
  | cons b bs ih =>
    simp only [insertBy]
    split
    · exact List.Perm.refl _
    · exact (List.Perm.cons b ih).trans (List.Perm.swap a b bs)

theorem isortBy_perm {α : Type} (key : α → Bytes) (l : List α) : (isortBy key l).Perm l := by
  induction l with
  | nil => exact List.Perm.refl _
  | cons a as ih => exact (insertBy_perm key a _).trans (List.Perm.cons a ih)

theorem insertBy_sorted {α : Type} (key : α → Bytes) (a : α) {l : List α}
    (h : l.Pairwise (fun x y => lexLe (key x) (key y) = true)) :
    (insertBy key a l).Pairwise (fun x y => lexLe (key x) (key y) = true) := by
  induction l with
  | nil => simp [insertBy]
  | cons b bs ih =>
    simp only [insertBy]
    have hb := List.pairwise_cons.1 h
    split
    · rename_i hab
      refine List.pairwise_cons.2 ⟨?_, h⟩
      intro c hc
      rcases List.mem_cons.1 hc with rfl | hc'
      · exact hab
      · exact lexLe_trans hab (hb.1 c hc')
    · rename_i hab
      have hba : lexLe (key b) (key a) = true := by
        rcases lexLe_total (key a) (key b) with h' | h'
        · exact absurd h' hab
        · exact h'
      refine List.pairwise_cons.2 ⟨?_, ih hb.2⟩
      intro c hc
      have := (insertBy_perm key a bs).mem_iff.1 hc
      rcases List.mem_cons.1 this with rfl | hc'
      · exact hba
      · exact hb.1 c hc'

theorem isortBy_sorted {α : Type} (key : α → Bytes) (l : List α) :
    (isortBy key l).Pairwise (fun x y => lexLe (key x) (key y) = true) := by
  induction l with
  | nil => exact List.Pairwise.nil
  | cons a as ih => exact insertBy_sorted key a ih

theorem insertBy_map {α : Type} (key : α → Bytes) (a : α) (l : List α) :
    (insertBy key a l).map key = insertBy id (key a) (l.map key) := by
  induction l with
  | nil => rfl
  | cons b bs ih =>
    simp only [insertBy, List.map_cons, id]
    split <;> simp [ih]

/-- Sorting pairs by their key and projecting the keys is sorting the keys. -/
theorem isortBy_map {α : Type} (key : α → Bytes) (l : List α) :
    (isortBy key l).map key = sortBytes (l.map key) := by
  induction l with
  | nil => rfl
  | cons a as ih =>
    simp only [isortBy, List.map_cons, sortBytes] at ih ⊢
    rw [insertBy_map, ih]

theorem insertBy_of_le_all {α : Type} (key : α → Bytes) (a : α) {l : List α}
    (h : ∀ b ∈ l, lexLe (key a) (key b) = true) : insertBy key a l = a :: l := by
  cases l with
  | nil => rfl
  | cons b bs => simp [insertBy, h b (List.mem_cons_self)]

/-- A sorted list is a fixed point of the sort. -/
theorem isortBy_of_sorted {α : Type} (key : α → Bytes) {l : List α}
    (h : l.Pairwise (fun x y => lexLe (key x) (key y) = true)) : isortBy key l = l := by
  induction l with
  | nil => rfl
  | cons a as ih =>
    have ha := List.pairwise_cons.1 h
    simp only [isortBy, ih ha.2]
    exact insertBy_of_le_all key a ha.1

/-- Permutations sort to the same list of byte strings. -/
theorem sortBytes_perm_eq {l l' : List Bytes} (h : l.Perm l') : sortBytes l = sortBytes l' := by
  have p : (sortBytes l).Perm (sortBytes l') :=
    (isortBy_perm id l).trans (h.trans (isortBy_perm id l').symm)
  exact List.Perm.eq_of_pairwise (le := fun x y => lexLe x y = true)
    (fun a b _ _ h1 h2 => lexLe_antisymm h1 h2) (isortBy_sorted id l) (isortBy_sorted id l') p

/-! ## adjacent-pair checks -/

theorem adjOk_of_pairwise {R : Bytes → Bytes → Bool} {l : List Bytes}
    (h : l.Pairwise (fun a b => R a b = true)) : adjOk R l = true := by
  induction l with
  | nil => rfl
  | cons a as ih =>
    cases as with
    | nil => rfl
    | cons b bs =>
      have ha := List.pairwise_cons.1 h
      simp [adjOk, ha.1 b (List.mem_cons_self), ih ha.2]

theorem pairwise_of_adjOk {R : Bytes → Bytes → Bool} (tr : ∀ a b c, R a b = true → R b c = true → R a c = true)
    {l : List Bytes} (h : adjOk R l = true) : l.Pairwise (fun a b => R a b = true) := by
  induction l with
  | nil => exact List.Pairwise.nil
  | cons a as ih =>
    cases as with
    | nil => simp
    | cons b bs =>
      simp only [adjOk, Bool.and_eq_true] at h
      have hb := ih h.2
      refine List.pairwise_cons.2 ⟨?_, hb⟩
      intro c hc
      rcases List.mem_cons.1 hc with rfl | hc'
      · exact h.1
      · exact tr a b c h.1 ((List.pairwise_cons.1 hb).1 c hc')

theorem adjOk_congr {R S : Bytes → Bytes → Bool} {l : List Bytes}
    (h : ∀ a ∈ l, ∀ b, R a b = S a b) : adjOk R l = adjOk S l := by
  induction l with
  | nil => rfl
  | cons a as ih =>
    cases as with
    | nil => rfl
    | cons b bs =>
      simp only [adjOk]
      rw [h a (List.mem_cons_self) b, ih (fun x hx => h x (List.mem_cons_of_mem a hx))]

end Hive.Serix
