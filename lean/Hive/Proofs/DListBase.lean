import Hive.Spec.DList
/-!
# Pure list lemmas for the C10 proofs

`pairs l` is the list of adjacent pairs of `l`.  A ring `r :: xs ++ [r]` (sentinel written at both
ends) is linked iff every adjacent pair is; when `r :: xs` has no duplicates both the *sources*
(`dropLast`) and the *targets* (`tail`) of the pairs are duplicate-free, which is what makes every
splice a local change.
-/
namespace Hive.DList

def pairs : List Nat → List (Nat × Nat)
  | a :: b :: r => (a, b) :: pairs (b :: r)
  | _ => []

@[simp] theorem pairs_nil : pairs [] = [] := rfl
@[simp] theorem pairs_single (a : Nat) : pairs [a] = [] := rfl
@[simp] theorem pairs_cons_cons (a b : Nat) (r : List Nat) : pairs (a :: b :: r) = (a, b) :: pairs (b :: r) := rfl

theorem pairs_append_cons (xs : List Nat) (a b : Nat) (ys : List Nat) :
    pairs (xs ++ a :: b :: ys) = pairs (xs ++ [a]) ++ (a, b) :: pairs (b :: ys) := by
  induction xs with
  | nil => simp
  | cons x xs ih =>
    cases xs with
    | nil => simp
    | cons y ys' =>
      simp only [List.cons_append, pairs_cons_cons, List.cons.injEq, true_and]
      simpa using ih

theorem pairs_map_fst (l : List Nat) : (pairs l).map Prod.fst = l.dropLast := by
  induction l with
  | nil => rfl
  | cons a l ih =>
    cases l with
    | nil => rfl
    | cons b r => simp only [pairs_cons_cons, List.map_cons, List.dropLast_cons_cons, ih]

theorem pairs_map_snd (l : List Nat) : (pairs l).map Prod.snd = l.tail := by
  induction l with
  | nil => rfl
  | cons a l ih =>
    cases l with
    | nil => rfl
    | cons b r =>
      simp only [pairs_cons_cons, List.map_cons, List.tail_cons, ih]

theorem mem_pairs {l : List Nat} {p : Nat × Nat} (h : p ∈ pairs l) : p.1 ∈ l.dropLast ∧ p.2 ∈ l.tail := by
  constructor
  · rw [← pairs_map_fst]; exact List.mem_map_of_mem h
  · rw [← pairs_map_snd]; exact List.mem_map_of_mem h

theorem mem_pairs_mid (P : List Nat) (x y : Nat) (T : List Nat) : (x, y) ∈ pairs (P ++ x :: y :: T) := by
  rw [pairs_append_cons]; simp

/-- In a list of pairs whose first and second components are duplicate-free, the components of one
entry do not recur in any other entry. -/
theorem pairs_sep {A B : List (Nat × Nat)} {a b : Nat}
    (h1 : ((A ++ (a, b) :: B).map Prod.fst).Nodup) (h2 : ((A ++ (a, b) :: B).map Prod.snd).Nodup) :
    ∀ p ∈ A ++ B, p.1 ≠ a ∧ p.2 ≠ b := by
  intro p hp
  simp only [List.map_append, List.map_cons] at h1 h2
  rw [List.nodup_append] at h1 h2
  obtain ⟨_, h1b, h1c⟩ := h1
  obtain ⟨_, h2b, h2c⟩ := h2
  rw [List.nodup_cons] at h1b h2b
  rcases List.mem_append.1 hp with hA | hB
  · exact ⟨fun e => h1c p.1 (List.mem_map_of_mem hA) a (List.mem_cons_self) e,
           fun e => h2c p.2 (List.mem_map_of_mem hA) b (List.mem_cons_self) e⟩
  · exact ⟨fun e => h1b.1 (e ▸ List.mem_map_of_mem hB), fun e => h2b.1 (e ▸ List.mem_map_of_mem hB)⟩

/-! ### insertion / erasure on decomposed lists -/

theorem insAfter_decomp {a : Nat} (e : Nat) {P : List Nat} (S : List Nat) (h : a ∉ P) :
    insAfter a e (P ++ a :: S) = P ++ a :: e :: S := by
  induction P with
  | nil => simp [insAfter]
  | cons x P ih =>
    have hx : x ≠ a := fun e => h (e ▸ List.mem_cons_self)
    have hP : a ∉ P := fun m => h (List.mem_cons_of_mem _ m)
    simp [insAfter, hx, ih hP]

theorem insBefore_decomp {m : Nat} (e : Nat) {P : List Nat} (S : List Nat) (h : m ∉ P) :
    insBefore m e (P ++ m :: S) = P ++ e :: m :: S := by
  induction P with
  | nil => simp [insBefore]
  | cons x P ih =>
    have hx : x ≠ m := fun e => h (e ▸ List.mem_cons_self)
    have hP : m ∉ P := fun k => h (List.mem_cons_of_mem _ k)
    simp [insBefore, hx, ih hP]

theorem erase_decomp {e : Nat} {P : List Nat} (S : List Nat) (h : e ∉ P) :
    (P ++ e :: S).erase e = P ++ S := by
  induction P with
  | nil => simp
  | cons x P ih =>
    have hx : x ≠ e := fun k => h (k ▸ List.mem_cons_self)
    have hP : e ∉ P := fun k => h (List.mem_cons_of_mem _ k)
    simp [hx, ih hP]

theorem insAfter_notMem {a e : Nat} {l : List Nat} (h : a ∉ l) : insAfter a e l = l := by
  induction l with
  | nil => rfl
  | cons x l ih =>
    have hx : x ≠ a := fun k => h (k ▸ List.mem_cons_self)
    simp [insAfter, hx, ih (fun k => h (List.mem_cons_of_mem _ k))]

/-- The head is kept by `insAfter`. -/
theorem insAfter_cons_tail (a e r : Nat) (xs : List Nat) :
    r :: (insAfter a e (r :: xs)).tail = insAfter a e (r :: xs) := by
  by_cases h : r = a <;> simp [insAfter, h]

/-- Decomposition of a list at a member, with the member not in the prefix. -/
theorem decomp_of_mem {a : Nat} {l : List Nat} (h : a ∈ l) : ∃ P S, l = P ++ a :: S ∧ a ∉ P := by
  induction l with
  | nil => cases h
  | cons x l ih =>
    by_cases hx : x = a
    · exact ⟨[], l, by simp [hx], by simp⟩
    · have : a ∈ l := by
        rcases List.mem_cons.1 h with e | m
        · exact absurd e.symm hx
        · exact m
      obtain ⟨P, S, rfl, hP⟩ := ih this
      refine ⟨x :: P, S, by simp, ?_⟩
      intro k
      rcases List.mem_cons.1 k with e | m
      · exact hx e.symm
      · exact hP m

/-- A non-empty list ends in its last element. -/
theorem snoc_of_ne_nil {l : List Nat} (h : l ≠ []) : ∃ Q a, l = Q ++ [a] :=
  ⟨l.dropLast, l.getLast h, (List.dropLast_concat_getLast h).symm⟩

theorem perm_insAfter {a : Nat} (e : Nat) {l : List Nat} (h : a ∈ l) : (insAfter a e l).Perm (e :: l) := by
  induction l with
  | nil => cases h
  | cons x l ih =>
    by_cases hx : x = a
    · simp only [insAfter, hx, if_true]
      exact List.Perm.swap e a l
    · have : a ∈ l := by
        rcases List.mem_cons.1 h with k | m
        · exact absurd k.symm hx
        · exact m
      simp only [insAfter, hx, if_false]
      exact ((ih this).cons x).trans (List.Perm.swap e x l)

/-- The ghost update of `insert`/`move`, for a ring `r :: xs` and a position `a` in it: the new element
sequence is a permutation of `e :: xs`. -/
theorem perm_insAfter_tail {a r : Nat} (e : Nat) {xs : List Nat} (h : a ∈ r :: xs) :
    ((insAfter a e (r :: xs)).tail).Perm (e :: xs) := by
  have h1 := perm_insAfter e h
  rw [← insAfter_cons_tail] at h1
  exact (h1.trans (List.Perm.swap r e xs)).cons_inv

end Hive.DList
