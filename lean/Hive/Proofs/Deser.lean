import Hive.Spec.Deser
/-!
Totality, consumption and cost lemmas for the Deserializer read programs.
-/
namespace Hive.Deser
open Hive.Dec

@[simp] theorem dfail_res (c : Cost) : (dfail c).res = .err := rfl
@[simp] theorem dfail_n (c : Cost) : (dfail c).n = 0 := rfl
@[simp] theorem dfail_cost (c : Cost) : (dfail c).cost = c := rfl
@[simp] theorem derr_res (n : Nat) (c : Cost) : (derr n c).res = .err := rfl
@[simp] theorem derr_n (n : Nat) (c : Cost) : (derr n c).n = n := rfl
@[simp] theorem derr_cost (n : Nat) (c : Cost) : (derr n c).cost = c := rfl
@[simp] theorem dpanic_res : dpanic.res = .panic := rfl
@[simp] theorem dpanic_cost : dpanic.cost = {} := rfl
@[simp] theorem dpanic_n : dpanic.n = 0 := rfl
@[simp] theorem dok_res (n : Nat) (v : List Val) (c : Cost) : (dok n v c).res = .ok := rfl
@[simp] theorem dok_n (n : Nat) (v : List Val) (c : Cost) : (dok n v c).n = n := rfl
@[simp] theorem dok_cost (n : Nat) (v : List Val) (c : Cost) : (dok n v c).cost = c := rfl
@[simp] theorem cost_empty_alloc : ({} : Cost).alloc = 0 := rfl
@[simp] theorem cost_empty_iters : ({} : Cost).iters = 0 := rfl

/-! ### readSliceLength -/

theorem rsl_cases (lp : LP) (b : Bytes) :
    (lp = .u64 ∧ readSliceLength lp b = (.panic, 0, 0)) ∨
    (lp ≠ .u64 ∧ b.length < lp.width ∧ readSliceLength lp b = (.err, 0, 0)) ∨
    (lp ≠ .u64 ∧ lp.width ≤ b.length ∧ readSliceLength lp b = (.ok, leNat (b.take lp.width), lp.width)) := by
  cases lp <;> simp [readSliceLength] <;> omega

theorem width_pos (lp : LP) : 1 ≤ lp.width := by cases lp <;> simp [LP.width]

/-! ### no panic -/

theorem seqLoop_np (item : Bytes → DOut) (tyOf : Bytes → Nat) (tick : Nat) (val : Bool) (mode : Nat)
    (h : ∀ b, (item b).res ≠ .panic) (k : Nat) (rest : Bytes) (vs : VS) :
    (seqLoop item tyOf tick val mode k rest vs).1.res ≠ .panic := by
  induction k generalizing rest vs with
  | zero => simp [seqLoop]
  | succ k ih =>
    simp only [seqLoop]
    have hi := h rest
    cases hr : (item rest).res with
    | panic => exact absurd hr hi
    | err => simp
    | ok =>
      simp only
      split
      · simp
      · exact ih _ _

theorem objItem_np (runAlt : Nat → Bytes → Option DOut) (den : Den) (tick : Nat) (b : Bytes)
    (h : ∀ ty b o, runAlt ty b = some o → o.res ≠ .panic) : (objItem runAlt den tick b).res ≠ .panic := by
  simp only [objItem]
  split
  · simp
  · split
    · simp
    · rename_i o ho; exact h _ _ o ho

mutual
theorem prim_np : (p : Prim) → p.static = true → ∀ b, (runPrim p b).res ≠ .panic
  | .num w, _, b => by simp only [runPrim]; split <;> simp
  | .bool, _, b => by
    cases b with
    | nil => simp [runPrim]
    | cons x xs => simp only [runPrim]; split <;> simp
  | .byte, _, b => by cases b <;> simp [runPrim]
  | .u256, _, b => by simp only [runPrim]; split <;> simp
  | .time, _, b => by simp only [runPrim]; split <;> simp
  | .fixed n, _, b => by simp only [runPrim]; split <;> simp
  | .inplace n, _, b => by simp only [runPrim]; split <;> simp
  | .vbs lp mn mx, hs, b => by
    have hlp : lp ≠ .u64 := by simpa [Prim.static] using hs
    rcases rsl_cases lp b with ⟨h, _⟩ | ⟨_, _, h⟩ | ⟨_, _, h⟩
    · exact absurd h hlp
    · simp [runPrim, h]
    · simp only [runPrim, h]; repeat' (first | split | simp)
  | .str lp mn mx, hs, b => by
    have hlp : lp ≠ .u64 := by simpa [Prim.static] using hs
    rcases rsl_cases lp b with ⟨h, _⟩ | ⟨_, _, h⟩ | ⟨_, _, h⟩
    · exact absurd h hlp
    · simp [runPrim, h]
    · simp only [runPrim, h]; repeat' (first | split | simp)
  | .skip n, _, b => by simp only [runPrim]; split <;> simp
  | .tprefix den code, hs, b => by
    cases den with
    | none => simp [Prim.static] at hs
    | byte =>
      cases b with
      | nil => simp [runPrim]
      | cons x xs => simp only [runPrim]; split <;> simp
    | u32 => simp only [runPrim]; repeat' (first | split | simp)
  | .plen, _, b => by simp only [runPrim]; split <;> simp
  | .all, _, b => by simp only [runPrim]; split <;> simp
  | .seq lp val mn mx mode item, hs, b => by
    have hs' : lp ≠ .u64 ∧ item.static = true := by simpa [Prim.static] using hs
    rcases rsl_cases lp b with ⟨h, _⟩ | ⟨_, _, h⟩ | ⟨_, _, h⟩
    · exact absurd h hs'.1
    · simp [runPrim, h]
    · simp only [runPrim, h]
      split
      · simp
      · exact seqLoop_np _ _ _ _ _ (fun b' => prog_np item hs'.2 b') _ _ _
  | .obj den alts, hs, b => by
    simp only [runPrim]
    exact objItem_np _ _ _ _ (fun ty b' o ho => alts_np alts (by simpa [Prim.static] using hs) ty b' o ho)
  | .sobj lp den val mn mx mode must alts, hs, b => by
    have hs' : lp ≠ .u64 ∧ alts.static = true := by simpa [Prim.static] using hs
    rcases rsl_cases lp b with ⟨h, _⟩ | ⟨_, _, h⟩ | ⟨_, _, h⟩
    · exact absurd h hs'.1
    · simp [runPrim, h]
    · simp only [runPrim, h]
      split
      · simp
      · have hl := seqLoop_np (objItem (runAlts alts) den 1) (fun e => (getType den e).getD 0) 0 val mode
          (fun b' => objItem_np _ _ _ _ (fun ty b'' o ho => alts_np alts hs'.2 ty b'' o ho))
          (leNat (b.take lp.width)) (b.drop lp.width) {}
        split
        · split <;> simp
        · rename_i hne
          simp only
          exact hl
  | .payload alts, hs, b => by
    simp only [runPrim]
    split
    · simp
    · split
      · simp
      · split
        · simp
        · split
          · simp
          · split
            · simp
            · rename_i o ho
              have := alts_np alts (by simpa [Prim.static] using hs) _ _ o ho
              split
              · split <;> simp
              · simp only; exact this
  | .rem, _, b => by simp [runPrim]
  | .gtype den, _, b => by simp only [runPrim]; split <;> simp
  | .doF, _, b => by simp [runPrim]
  | .abort flag, _, b => by simp only [runPrim]; split <;> simp
  | .wval val flag, _, b => by simp only [runPrim]; repeat' (first | split | simp)
theorem prog_np : (p : Prog) → p.static = true → ∀ b, (runProg p b).res ≠ .panic
  | .nil, _, b => by simp [runProg]
  | .cons p rest, hs, b => by
    have hs' : p.static = true ∧ rest.static = true := by simpa [Prog.static] using hs
    have h1 := prim_np p hs'.1 b
    simp only [runProg]
    split
    · exact prog_np rest hs'.2 _
    · simp only; exact h1
theorem alts_np : (a : Alts) → a.static = true → ∀ ty b o, runAlts a ty b = some o → o.res ≠ .panic
  | .nil, _, ty, b, o, h => by simp [runAlts] at h
  | .cons code p rest, hs, ty, b, o, h => by
    have hs' : p.static = true ∧ rest.static = true := by simpa [Alts.static] using hs
    simp only [runAlts] at h
    split at h
    · simp only [Option.some.injEq] at h; subst h; exact prog_np p hs'.1 b
    · exact alts_np rest hs'.2 ty b o h
end

/-! ### consumed bytes and allocation -/

/-- a successful call consumed no more than it was given and allocated at most `K` times what it
consumed; whatever the outcome it allocated at most `K` times what it was given -/
structure GoodA (K : Nat) (o : DOut) (b : Bytes) : Prop where
  ok : o.res = .ok → o.n ≤ b.length ∧ o.cost.alloc ≤ K * o.n
  all : o.cost.alloc ≤ K * b.length

theorem GoodA.mono {K K' : Nat} {o : DOut} {b : Bytes} (h : GoodA K o b) (hk : K ≤ K') : GoodA K' o b := by
  constructor
  · intro hr
    obtain ⟨h1, h2⟩ := h.ok hr
    exact ⟨h1, Nat.le_trans h2 (Nat.mul_le_mul_right _ hk)⟩
  · exact Nat.le_trans h.all (Nat.mul_le_mul_right _ hk)

theorem goodA_of_not_ok {K : Nat} {o : DOut} {b : Bytes} (hr : o.res ≠ .ok) (ha : o.cost.alloc ≤ K * b.length) :
    GoodA K o b := ⟨fun h => absurd h hr, ha⟩

theorem goodA_fail (K : Nat) (b : Bytes) {n : Nat} : GoodA K (derr n {}) b :=
  goodA_of_not_ok (by simp) (by simp)

theorem goodA_panic (K : Nat) (b : Bytes) : GoodA K dpanic b :=
  goodA_of_not_ok (by simp) (by simp)

theorem goodA_derr (K n : Nat) (b : Bytes) : GoodA K (derr n {}) b :=
  goodA_of_not_ok (by simp) (by simp)

/-- a leaf call that consumed `n ≤ |b|` bytes and allocated at most `n` -/
theorem goodA_leaf {n a : Nat} {vs : List Val} {b : Bytes} (hn : n ≤ b.length) (ha : a ≤ n) :
    GoodA 1 (dok n vs ⟨a, 0⟩) b := by
  constructor
  · intro _; simp; exact ⟨hn, ha⟩
  · simp; omega

/-- sequential composition: `o2` ran on what `o1` left -/
theorem GoodA.seq {K : Nat} {o1 o2 : DOut} {b : Bytes} {vs : List Val} (h1 : GoodA K o1 b) (hr : o1.res = .ok)
    (h2 : GoodA K o2 (b.drop o1.n)) : GoodA K ⟨o2.res, o1.n + o2.n, vs, o1.cost + o2.cost⟩ b := by
  obtain ⟨hn1, ha1⟩ := h1.ok hr
  have hl : (b.drop o1.n).length = b.length - o1.n := by simp
  have hsplit : b.length = o1.n + (b.length - o1.n) := by omega
  constructor
  · intro hr2
    obtain ⟨hn2, ha2⟩ := h2.ok hr2
    rw [hl] at hn2
    simp only [Cost.add_alloc]
    refine ⟨by omega, ?_⟩
    rw [Nat.mul_add]; omega
  · have ha2 := h2.all
    rw [hl] at ha2
    simp only [Cost.add_alloc]
    rw [hsplit, Nat.mul_add]; omega

theorem validate_alloc_le (mode : Nat) (vs : VS) (e : Bytes) : (validate mode vs e).2 ≤ e.length := by
  simp only [validate]; split <;> simp

theorem seqLoop_A (item : Bytes → DOut) (tyOf : Bytes → Nat) (tick : Nat) (val : Bool) (mode K : Nat)
    (hitem : ∀ b, GoodA K (item b) b) (k : Nat) (rest : Bytes) (vs : VS) :
    GoodA (K + 1) (seqLoop item tyOf tick val mode k rest vs).1 rest := by
  induction k generalizing rest vs with
  | zero => exact ⟨fun _ => by simp [seqLoop], by simp [seqLoop]⟩
  | succ k ih =>
    have hi := hitem rest
    simp only [seqLoop]
    cases hr : (item rest).res with
    | panic =>
      refine goodA_of_not_ok (by simp) ?_
      have := hi.all
      simp only [Cost.add_alloc, Nat.succ_mul]; omega
    | err =>
      refine goodA_of_not_ok (by simp) ?_
      have := hi.all
      simp only [Cost.add_alloc, Nat.succ_mul]; omega
    | ok =>
      obtain ⟨hn, ha⟩ := hi.ok hr
      have hv : (if val then validate mode vs (rest.take (item rest).n) else (some vs, 0)).2 ≤ (item rest).n := by
        split
        · have := validate_alloc_le mode vs (rest.take (item rest).n)
          simp only [List.length_take] at this; omega
        · simp
      simp only
      split
      · refine goodA_of_not_ok (by simp) ?_
        have hmul : (K + 1) * (item rest).n ≤ (K + 1) * rest.length := Nat.mul_le_mul_left _ hn
        simp only [Cost.add_alloc]
        rw [Nat.succ_mul] at hmul
        omega
      · rename_i vs' _
        have hrec := ih (rest.drop (item rest).n) vs'
        have hl : (rest.drop (item rest).n).length = rest.length - (item rest).n := by simp
        have hsplit : rest.length = (item rest).n + (rest.length - (item rest).n) := by omega
        constructor
        · intro hr2
          obtain ⟨hn2, ha2⟩ := hrec.ok hr2
          rw [hl] at hn2
          simp only [Cost.add_alloc]
          refine ⟨by omega, ?_⟩
          rw [Nat.succ_mul] at ha2 ⊢
          rw [Nat.mul_add]; omega
        · have ha2 := hrec.all
          rw [hl] at ha2
          simp only [Cost.add_alloc]
          have e := Nat.mul_add (K + 1) (item rest).n (rest.length - (item rest).n)
          rw [← hsplit] at e
          rw [e, Nat.succ_mul K (item rest).n]
          omega

theorem objItem_A (runAlt : Nat → Bytes → Option DOut) (den : Den) (tick K : Nat) (b : Bytes)
    (h : ∀ ty b o, runAlt ty b = some o → GoodA K o b) : GoodA K (objItem runAlt den tick b) b := by
  simp only [objItem]
  split
  · exact goodA_fail K b
  · split
    · exact goodA_of_not_ok (by simp) (by simp)
    · rename_i o ho
      have hg := h _ _ o ho
      exact ⟨fun hr => by
        have hr' : o.res = .ok := hr
        simpa [hr'] using hg.ok hr', by simpa using hg.all⟩

/-- the prefix of a sequence is consumed in front of what the loop consumed -/
theorem goodA_prefixed {K w : Nat} {r : DOut} {b : Bytes} {vs : List Val} (hw : w ≤ b.length)
    (h : GoodA K r (b.drop w)) : GoodA K ⟨r.res, w + r.n, vs, r.cost⟩ b := by
  have hl : (b.drop w).length = b.length - w := by simp
  constructor
  · intro hr
    obtain ⟨hn, ha⟩ := h.ok hr
    rw [hl] at hn
    refine ⟨by simp only; omega, ?_⟩
    have : K * r.n ≤ K * (w + r.n) := Nat.mul_le_mul_left _ (by omega)
    simp only; omega
  · have ha := h.all
    rw [hl] at ha
    have : K * (b.length - w) ≤ K * b.length := Nat.mul_le_mul_left _ (by omega)
    simp only; omega

mutual
theorem prim_A : (p : Prim) → ∀ b, GoodA p.K (runPrim p b) b
  | .num w, b => by
    simp only [runPrim, Prim.K]; split
    · exact goodA_fail 1 b
    · exact goodA_leaf (by omega) (by omega)
  | .bool, b => by
    cases b with
    | nil => exact goodA_fail 1 []
    | cons x xs =>
      simp only [runPrim, Prim.K]; split
      · exact goodA_leaf (by simp) (by omega)
      · exact goodA_fail 1 _
  | .byte, b => by
    cases b with
    | nil => exact goodA_fail 1 []
    | cons x xs => simp only [runPrim, Prim.K]; exact goodA_leaf (by simp) (by omega)
  | .u256, b => by
    simp only [runPrim, Prim.K]; split
    · exact goodA_fail 1 b
    · exact goodA_leaf (by omega) (by omega)
  | .time, b => by
    simp only [runPrim, Prim.K]; split
    · exact goodA_fail 1 b
    · exact goodA_leaf (by omega) (by omega)
  | .fixed n, b => by
    simp only [runPrim, Prim.K]; split
    · exact goodA_fail 1 b
    · exact goodA_leaf (by omega) (by omega)
  | .inplace n, b => by
    simp only [runPrim, Prim.K]; split
    · exact goodA_fail 1 b
    · exact goodA_leaf (by omega) (by omega)
  | .vbs lp mn mx, b => by
    rcases rsl_cases lp b with ⟨_, h⟩ | ⟨_, _, h⟩ | ⟨_, hw, h⟩
    · simp only [runPrim, h]; exact goodA_panic _ b
    · simp only [runPrim, h]; exact goodA_fail _ b
    · simp only [runPrim, h, Prim.K]
      split
      · exact goodA_fail 1 b
      · split
        · exact goodA_fail 1 b
        · split
          · exact goodA_fail 1 b
          · rename_i hlen
            simp only [List.length_drop] at hlen
            exact goodA_leaf (by omega) (by omega)
  | .str lp mn mx, b => by
    rcases rsl_cases lp b with ⟨_, h⟩ | ⟨_, _, h⟩ | ⟨_, hw, h⟩
    · simp only [runPrim, h]; exact goodA_panic _ b
    · simp only [runPrim, h]; exact goodA_fail _ b
    · simp only [runPrim, h, Prim.K]
      split
      · exact goodA_fail 1 b
      · rename_i hlen
        simp only [List.length_drop] at hlen
        split
        · exact goodA_of_not_ok (by simp) (by simp; omega)
        · exact goodA_leaf (by omega) (by omega)
  | .skip n, b => by
    simp only [runPrim, Prim.K]; split
    · exact goodA_fail 1 b
    · exact goodA_leaf (by omega) (by omega)
  | .tprefix den code, b => by
    cases den with
    | none => simp only [runPrim]; exact goodA_panic _ b
    | byte =>
      cases b with
      | nil => exact goodA_fail _ []
      | cons x xs =>
        simp only [runPrim, Prim.K]; split
        · exact goodA_leaf (by simp) (by omega)
        · exact goodA_fail 1 _
    | u32 =>
      simp only [runPrim, Prim.K]; split
      · exact goodA_fail 1 b
      · split
        · exact goodA_leaf (by omega) (by omega)
        · exact goodA_fail 1 b
  | .plen, b => by
    simp only [runPrim, Prim.K]; split
    · exact goodA_fail 1 b
    · exact goodA_leaf (by omega) (by omega)
  | .all, b => by
    simp only [runPrim, Prim.K]; split
    · exact goodA_leaf (by omega) (by omega)
    · exact goodA_fail 1 b
  | .seq lp val mn mx mode item, b => by
    rcases rsl_cases lp b with ⟨_, h⟩ | ⟨_, _, h⟩ | ⟨_, hw, h⟩
    · simp only [runPrim, h]; exact goodA_panic _ b
    · simp only [runPrim, h]; exact goodA_fail _ b
    · simp only [runPrim, h, Prim.K]
      split
      · exact goodA_fail _ b
      · exact goodA_prefixed hw (seqLoop_A _ _ _ _ _ _ (fun b' => prog_A item b') _ _ _)
  | .obj den alts, b => by
    simp only [runPrim, Prim.K]
    exact objItem_A _ _ _ _ _ (fun ty b' o ho => alts_A alts ty b' o ho)
  | .sobj lp den val mn mx mode must alts, b => by
    rcases rsl_cases lp b with ⟨_, h⟩ | ⟨_, _, h⟩ | ⟨_, hw, h⟩
    · simp only [runPrim, h]; exact goodA_panic _ b
    · simp only [runPrim, h]; exact goodA_fail _ b
    · simp only [runPrim, h, Prim.K]
      split
      · exact goodA_fail _ b
      · have hl := seqLoop_A (objItem (runAlts alts) den 1) (fun e => (getType den e).getD 0) 0 val mode alts.K
          (fun b' => objItem_A _ _ _ _ _ (fun ty b'' o ho => alts_A alts ty b'' o ho))
          (leNat (b.take lp.width)) (b.drop lp.width) {}
        have hl := hl.mono (show alts.K + 1 ≤ alts.K + 2 by omega)
        have hp := goodA_prefixed (vs := (seqLoop (objItem (runAlts alts) den 1) (fun e => (getType den e).getD 0) 0 val mode
          (leNat (b.take lp.width)) (b.drop lp.width) {}).1.vals ++
            (if leNat (b.take lp.width) = 0 then [] else [.size (leNat (b.take lp.width))])) hw hl
        split
        · rename_i hok
          split
          · exact goodA_of_not_ok (by simp) (by simpa using hp.all)
          · exact ⟨fun _ => hp.ok hok, hp.all⟩
        · rename_i hne
          exact goodA_of_not_ok (by simpa using hne) (by simpa using hp.all)
  | .payload alts, b => by
    simp only [runPrim, Prim.K]
    split
    · exact goodA_fail _ b
    · rename_i h4
      split
      · exact ⟨fun _ => by simp; omega, by simp⟩
      · split
        · exact goodA_fail _ b
        · split
          · exact goodA_fail _ b
          · split
            · exact goodA_fail _ b
            · rename_i o ho
              have hg := alts_A alts _ _ o ho
              have hp := goodA_prefixed (vs := o.vals) (w := 4) (by omega) hg
              split
              · rename_i hok
                split
                · exact ⟨fun _ => hp.ok hok, hp.all⟩
                · exact goodA_of_not_ok (by simp) (by simpa using hp.all)
              · rename_i hne
                exact goodA_of_not_ok (by simpa using hne) (by simpa using hp.all)
  | .rem, b => by simp only [runPrim, Prim.K]; exact goodA_leaf (by omega) (by omega)
  | .gtype den, b => by
    simp only [runPrim, Prim.K]; split
    · exact goodA_fail 1 b
    · exact goodA_leaf (by omega) (by omega)
  | .doF, b => by simp only [runPrim, Prim.K]; exact goodA_leaf (by omega) (by omega)
  | .abort flag, b => by
    simp only [runPrim, Prim.K]; split
    · exact goodA_fail 1 b
    · exact goodA_leaf (by omega) (by omega)
  | .wval val flag, b => by
    simp only [runPrim, Prim.K]; split
    · split
      · exact goodA_fail 1 b
      · exact goodA_leaf (by omega) (by omega)
    · exact goodA_leaf (by omega) (by omega)
theorem prog_A : (p : Prog) → ∀ b, GoodA p.K (runProg p b) b
  | .nil, b => ⟨fun _ => by simp [runProg], by simp [runProg]⟩
  | .cons p rest, b => by
    have h1 := (prim_A p b).mono (Nat.le_max_left p.K rest.K)
    simp only [runProg, Prog.K]
    split
    · rename_i hok
      have h2 := (prog_A rest (b.drop (runPrim p b).n)).mono (Nat.le_max_right p.K rest.K)
      exact GoodA.seq h1 hok h2
    · rename_i hne
      exact goodA_of_not_ok (by simpa using hne) (by simpa using h1.all)
theorem alts_A : (a : Alts) → ∀ ty b o, runAlts a ty b = some o → GoodA a.K o b
  | .nil, ty, b, o, h => by simp [runAlts] at h
  | .cons code p rest, ty, b, o, h => by
    simp only [runAlts] at h
    simp only [Alts.K]
    split at h
    · simp only [Option.some.injEq] at h; subst h
      exact (prog_A p b).mono (Nat.le_max_left _ _)
    · exact (alts_A rest ty b o h).mono (Nat.le_max_right _ _)
end

/-! ### the offset `Done()` reports — also next to an error — never exceeds the input -/

theorem seqLoop_le (item : Bytes → DOut) (tyOf : Bytes → Nat) (tick : Nat) (val : Bool) (mode : Nat)
    (h : ∀ b, (item b).n ≤ b.length) (k : Nat) (rest : Bytes) (vs : VS) :
    (seqLoop item tyOf tick val mode k rest vs).1.n ≤ rest.length := by
  induction k generalizing rest vs with
  | zero => simp [seqLoop]
  | succ k ih =>
    simp only [seqLoop]
    have hi := h rest
    cases hr : (item rest).res with
    | panic => simp
    | err => simp
    | ok =>
      simp only
      split
      · simpa using hi
      · rename_i vs' _
        have := ih (rest.drop (item rest).n) vs'
        simp only [List.length_drop] at this
        simp only; omega

theorem objItem_le (runAlt : Nat → Bytes → Option DOut) (den : Den) (tick : Nat) (b : Bytes)
    (h : ∀ ty b o, runAlt ty b = some o → o.n ≤ b.length) : (objItem runAlt den tick b).n ≤ b.length := by
  simp only [objItem]
  split
  · simp
  · split
    · simp
    · rename_i o ho
      have := h _ _ o ho
      simp only; split <;> omega

mutual
theorem prim_le : (p : Prim) → ∀ b, (runPrim p b).n ≤ b.length
  | .num w, b => by simp only [runPrim]; split <;> simp; omega
  | .bool, b => by
    cases b with
    | nil => simp [runPrim]
    | cons x xs => simp only [runPrim]; split <;> simp
  | .byte, b => by cases b <;> simp [runPrim]
  | .u256, b => by simp only [runPrim]; split <;> simp; omega
  | .time, b => by simp only [runPrim]; split <;> simp; omega
  | .fixed n, b => by simp only [runPrim]; split <;> simp; omega
  | .inplace n, b => by simp only [runPrim]; split <;> simp; omega
  | .vbs lp mn mx, b => by
    rcases rsl_cases lp b with ⟨_, h⟩ | ⟨_, _, h⟩ | ⟨_, hw, h⟩
    · simp [runPrim, h]
    · simp [runPrim, h]
    · simp only [runPrim, h]
      split
      · simpa using hw
      · split
        · simpa using hw
        · split
          · simpa using hw
          · rename_i hlen
            simp only [List.length_drop] at hlen
            simp; omega
  | .str lp mn mx, b => by
    rcases rsl_cases lp b with ⟨_, h⟩ | ⟨_, _, h⟩ | ⟨_, hw, h⟩
    · simp [runPrim, h]
    · simp [runPrim, h]
    · simp only [runPrim, h]
      split
      · simpa using hw
      · rename_i hlen
        simp only [List.length_drop] at hlen
        split <;> simp <;> omega
  | .skip n, b => by simp only [runPrim]; split <;> simp; omega
  | .tprefix den code, b => by
    cases den with
    | none => simp [runPrim]
    | byte =>
      cases b with
      | nil => simp [runPrim]
      | cons x xs => simp only [runPrim]; split <;> simp
    | u32 =>
      simp only [runPrim]
      split
      · simp
      · split <;> simp; omega
  | .plen, b => by simp only [runPrim]; split <;> simp; omega
  | .all, b => by simp only [runPrim]; split <;> simp
  | .seq lp val mn mx mode item, b => by
    rcases rsl_cases lp b with ⟨_, h⟩ | ⟨_, _, h⟩ | ⟨_, hw, h⟩
    · simp [runPrim, h]
    · simp [runPrim, h]
    · simp only [runPrim, h]
      split
      · simpa using hw
      · have := seqLoop_le (runProg item) (fun _ => 0) 1 val mode (fun b' => prog_le item b')
          (leNat (b.take lp.width)) (b.drop lp.width) {}
        simp only [List.length_drop] at this
        simp only; omega
  | .obj den alts, b => by
    simp only [runPrim]
    exact objItem_le _ _ _ _ (fun ty b' o ho => alts_le alts ty b' o ho)
  | .sobj lp den val mn mx mode must alts, b => by
    rcases rsl_cases lp b with ⟨_, h⟩ | ⟨_, _, h⟩ | ⟨_, hw, h⟩
    · simp [runPrim, h]
    · simp [runPrim, h]
    · simp only [runPrim, h]
      split
      · simpa using hw
      · have := seqLoop_le (objItem (runAlts alts) den 1) (fun e => (getType den e).getD 0) 0 val mode
          (fun b' => objItem_le _ _ _ _ (fun ty b'' o ho => alts_le alts ty b'' o ho))
          (leNat (b.take lp.width)) (b.drop lp.width) {}
        simp only [List.length_drop] at this
        split
        · split <;> simp <;> omega
        · simp only; omega
  | .payload alts, b => by
    simp only [runPrim]
    split
    · simp
    · rename_i h4
      split
      · simp; omega
      · split
        · simp; omega
        · split
          · simp; omega
          · split
            · simp; omega
            · rename_i o ho
              have := alts_le alts _ _ o ho
              simp only [List.length_drop] at this
              split
              · split <;> simp <;> omega
              · simp only; omega
  | .rem, b => by simp [runPrim]
  | .gtype den, b => by simp only [runPrim]; split <;> simp
  | .doF, b => by simp [runPrim]
  | .abort flag, b => by simp only [runPrim]; split <;> simp
  | .wval val flag, b => by simp only [runPrim]; repeat' (first | split | simp)
theorem prog_le : (p : Prog) → ∀ b, (runProg p b).n ≤ b.length
  | .nil, b => by simp [runProg]
  | .cons p rest, b => by
    have h1 := prim_le p b
    simp only [runProg]
    split
    · have h2 := prog_le rest (b.drop (runPrim p b).n)
      simp only [List.length_drop] at h2
      simp only; omega
    · simp only; exact h1
theorem alts_le : (a : Alts) → ∀ ty b o, runAlts a ty b = some o → o.n ≤ b.length
  | .nil, ty, b, o, h => by simp [runAlts] at h
  | .cons code p rest, ty, b, o, h => by
    simp only [runAlts] at h
    split at h
    · simp only [Option.some.injEq] at h; subst h; exact prog_le p b
    · exact alts_le rest ty b o h
end

/-! ### minimum sizes -/

/-- a successful outcome consumed at least `m` bytes -/
def MinOK (m : Nat) (o : DOut) : Prop := o.res = .ok → m ≤ o.n

theorem minOK_fail (m : Nat) (c : Cost) {n : Nat} : MinOK m (derr n c) := by intro h; simp at h
theorem minOK_panic (m : Nat) : MinOK m dpanic := by intro h; simp at h
theorem minOK_ok {m n : Nat} {vs : List Val} {c : Cost} (h : m ≤ n) : MinOK m (dok n vs c) := fun _ => h
theorem minOK_zero (o : DOut) : MinOK 0 o := fun _ => Nat.zero_le _
theorem minOK_not_ok {m : Nat} {o : DOut} (h : o.res ≠ .ok) : MinOK m o := fun h' => absurd h' h

theorem prim_minOK (p : Prim) (b : Bytes) : MinOK p.minSize (runPrim p b) := by
  cases p with
  | num w => simp only [runPrim, Prim.minSize]; split <;> first | exact minOK_fail _ _ | exact minOK_ok (Nat.le_refl _)
  | bool =>
    cases b with
    | nil => exact minOK_fail _ _
    | cons x xs => simp only [runPrim, Prim.minSize]; split <;> first | exact minOK_fail _ _ | exact minOK_ok (Nat.le_refl _)
  | byte =>
    cases b with
    | nil => exact minOK_fail _ _
    | cons x xs => exact minOK_ok (Nat.le_refl _)
  | u256 => simp only [runPrim, Prim.minSize]; split <;> first | exact minOK_fail _ _ | exact minOK_ok (Nat.le_refl _)
  | time => simp only [runPrim, Prim.minSize]; split <;> first | exact minOK_fail _ _ | exact minOK_ok (Nat.le_refl _)
  | fixed n => simp only [runPrim, Prim.minSize]; split <;> first | exact minOK_fail _ _ | exact minOK_ok (Nat.le_refl _)
  | inplace n => simp only [runPrim, Prim.minSize]; split <;> first | exact minOK_fail _ _ | exact minOK_ok (Nat.le_refl _)
  | skip n => simp only [runPrim, Prim.minSize]; split <;> first | exact minOK_fail _ _ | exact minOK_ok (Nat.le_refl _)
  | plen => simp only [runPrim, Prim.minSize]; split <;> first | exact minOK_fail _ _ | exact minOK_ok (Nat.le_refl _)
  | all => exact minOK_zero _
  | obj den alts => exact minOK_zero _
  | vbs lp mn mx =>
    rcases rsl_cases lp b with ⟨_, hr⟩ | ⟨_, _, hr⟩ | ⟨_, hw, hr⟩
    · simp only [runPrim, hr]; exact minOK_panic _
    · simp only [runPrim, hr]; exact minOK_fail _ _
    · simp only [runPrim, hr, Prim.minSize]
      split
      · exact minOK_fail _ _
      · split
        · exact minOK_fail _ _
        · split
          · exact minOK_fail _ _
          · exact minOK_ok (by omega)
  | str lp mn mx =>
    rcases rsl_cases lp b with ⟨_, hr⟩ | ⟨_, _, hr⟩ | ⟨_, hw, hr⟩
    · simp only [runPrim, hr]; exact minOK_panic _
    · simp only [runPrim, hr]; exact minOK_fail _ _
    · simp only [runPrim, hr, Prim.minSize]
      split
      · exact minOK_fail _ _
      · split
        · exact minOK_fail _ _
        · exact minOK_ok (by omega)
  | tprefix den code =>
    cases den with
    | none => exact minOK_panic _
    | byte =>
      cases b with
      | nil => exact minOK_fail _ _
      | cons x xs => simp only [runPrim, Prim.minSize]; split <;> first | exact minOK_fail _ _ | exact minOK_ok (Nat.le_refl _)
    | u32 =>
      simp only [runPrim, Prim.minSize]
      split
      · exact minOK_fail _ _
      · split <;> first | exact minOK_fail _ _ | exact minOK_ok (Nat.le_refl _)
  | seq lp val mn mx mode item =>
    rcases rsl_cases lp b with ⟨_, hr⟩ | ⟨_, _, hr⟩ | ⟨_, hw, hr⟩
    · simp only [runPrim, hr]; exact minOK_panic _
    · simp only [runPrim, hr]; exact minOK_fail _ _
    · simp only [runPrim, hr, Prim.minSize]
      split
      · exact minOK_fail _ _
      · intro _; simp
  | sobj lp den val mn mx mode must alts =>
    rcases rsl_cases lp b with ⟨_, hr⟩ | ⟨_, _, hr⟩ | ⟨_, hw, hr⟩
    · simp only [runPrim, hr]; exact minOK_panic _
    · simp only [runPrim, hr]; exact minOK_fail _ _
    · simp only [runPrim, hr, Prim.minSize]
      split
      · exact minOK_fail _ _
      · split
        · split
          · exact minOK_fail _ _
          · intro _; simp
        · rename_i hne
          exact minOK_not_ok (by simpa using hne)
  | payload alts =>
    simp only [runPrim, Prim.minSize]
    split
    · exact minOK_fail _ _
    · split
      · exact minOK_ok (Nat.le_refl _)
      · split
        · exact minOK_fail _ _
        · split
          · exact minOK_fail _ _
          · split
            · exact minOK_fail _ _
            · split
              · split
                · intro _; simp
                · exact minOK_fail _ _
              · rename_i hne
                exact minOK_not_ok (by simpa using hne)
  | rem => exact minOK_zero _
  | gtype den => exact minOK_zero _
  | doF => exact minOK_zero _
  | abort flag => exact minOK_zero _
  | wval val flag => exact minOK_zero _

theorem prim_min (p : Prim) (b : Bytes) (h : (runPrim p b).res = .ok) : p.minSize ≤ (runPrim p b).n :=
  prim_minOK p b h

theorem prog_min : (p : Prog) → ∀ b, (runProg p b).res = .ok → p.minSize ≤ (runProg p b).n
  | .nil, b, _ => by simp [Prog.minSize]
  | .cons p rest, b, h => by
    simp only [runProg] at h ⊢
    split at h
    · rename_i hok
      have h1 := prim_min p b hok
      have h2 := prog_min rest _ h
      simp only [Prog.minSize]; omega
    · rename_i hne
      exact absurd h (by simpa using hne)

/-! ### iterations -/

/-- a successful call iterated at most `K` times per byte it consumed; whatever the outcome it
iterated at most `K` times per byte it was given (plus one failing round) -/
structure GoodI (K : Nat) (o : DOut) (b : Bytes) : Prop where
  ok : o.res = .ok → o.cost.iters ≤ K * o.n
  all : o.cost.iters ≤ K * (b.length + 1)

theorem GoodI.mono {K K' : Nat} {o : DOut} {b : Bytes} (h : GoodI K o b) (hk : K ≤ K') : GoodI K' o b :=
  ⟨fun hr => Nat.le_trans (h.ok hr) (Nat.mul_le_mul_right _ hk), Nat.le_trans h.all (Nat.mul_le_mul_right _ hk)⟩

theorem goodI_zero {K : Nat} {o : DOut} {b : Bytes} (h : o.cost.iters = 0) : GoodI K o b :=
  ⟨fun _ => by omega, by omega⟩

theorem goodI_of_not_ok {K : Nat} {o : DOut} {b : Bytes} (hr : o.res ≠ .ok) (ha : o.cost.iters ≤ K * (b.length + 1)) :
    GoodI K o b := ⟨fun h => absurd h hr, ha⟩

theorem GoodI.seq {K : Nat} {o1 o2 : DOut} {b : Bytes} {vs : List Val} (h1 : GoodI K o1 b) (hr : o1.res = .ok)
    (hn : o1.n ≤ b.length) (h2 : GoodI K o2 (b.drop o1.n)) :
    GoodI K ⟨o2.res, o1.n + o2.n, vs, o1.cost + o2.cost⟩ b := by
  have hi1 := h1.ok hr
  have hl : (b.drop o1.n).length = b.length - o1.n := by simp
  constructor
  · intro hr2
    have hi2 := h2.ok hr2
    simp only [Cost.add_iters]
    rw [Nat.mul_add]; omega
  · have hi2 := h2.all
    rw [hl] at hi2
    simp only [Cost.add_iters]
    have e := Nat.mul_add K o1.n (b.length - o1.n + 1)
    have e2 : o1.n + (b.length - o1.n + 1) = b.length + 1 := by omega
    rw [e2] at e
    rw [e]; omega

theorem goodI_prefixed {K w : Nat} {r : DOut} {b : Bytes} {vs : List Val} (hw : w ≤ b.length)
    (h : GoodI K r (b.drop w)) : GoodI K ⟨r.res, w + r.n, vs, r.cost⟩ b := by
  have hl : (b.drop w).length = b.length - w := by simp
  constructor
  · intro hr
    have hi := h.ok hr
    have : K * r.n ≤ K * (w + r.n) := Nat.mul_le_mul_left _ (by omega)
    simp only; omega
  · have hi := h.all
    rw [hl] at hi
    have : K * (b.length - w + 1) ≤ K * (b.length + 1) := Nat.mul_le_mul_left _ (by omega)
    simp only; omega

theorem seqLoop_I (item : Bytes → DOut) (tyOf : Bytes → Nat) (tick : Nat) (val : Bool) (mode K : Nat)
    (hitem : ∀ b, GoodI K (item b) b)
    (hsz : ∀ b, (item b).res = .ok → tick ≤ (item b).n ∧ (item b).n ≤ b.length) (htick : tick ≤ 1)
    (k : Nat) (rest : Bytes) (vs : VS) :
    GoodI (K + 1) (seqLoop item tyOf tick val mode k rest vs).1 rest := by
  induction k generalizing rest vs with
  | zero => exact goodI_zero (by simp [seqLoop])
  | succ k ih =>
    have hi := hitem rest
    simp only [seqLoop]
    cases hr : (item rest).res with
    | panic =>
      refine goodI_of_not_ok (by simp) ?_
      have := hi.all
      simp only [Cost.add_iters, Nat.succ_mul]; omega
    | err =>
      refine goodI_of_not_ok (by simp) ?_
      have := hi.all
      simp only [Cost.add_iters, Nat.succ_mul]; omega
    | ok =>
      have hio := hi.ok hr
      obtain ⟨ht, hn⟩ := hsz rest hr
      simp only
      split
      · refine goodI_of_not_ok (by simp) ?_
        have hmul : K * (item rest).n ≤ K * (rest.length + 1) := Nat.mul_le_mul_left _ (by omega)
        simp only [Cost.add_iters, Nat.succ_mul]
        omega
      · rename_i vs' _
        have hrec := ih (rest.drop (item rest).n) vs'
        have hl : (rest.drop (item rest).n).length = rest.length - (item rest).n := by simp
        constructor
        · intro hr2
          have hi2 := hrec.ok hr2
          simp only [Cost.add_iters]
          rw [Nat.succ_mul] at hi2 ⊢
          rw [Nat.mul_add]; omega
        · have hi2 := hrec.all
          rw [hl] at hi2
          simp only [Cost.add_iters]
          have e := Nat.mul_add (K + 1) (item rest).n (rest.length - (item rest).n + 1)
          have e2 : (item rest).n + (rest.length - (item rest).n + 1) = rest.length + 1 := by omega
          rw [e2] at e
          rw [e, Nat.succ_mul K (item rest).n]
          omega

/-- `readObject` as the per-item callback of `ReadSliceOfObjects` (one tick at the guard) -/
theorem objItem_I1 (runAlt : Nat → Bytes → Option DOut) (den : Den) (K : Nat) (b : Bytes)
    (h : ∀ ty b o, runAlt ty b = some o → GoodI K o b ∧ (o.res = .ok → 1 ≤ o.n)) :
    GoodI (K + 1) (objItem runAlt den 1 b) b := by
  simp only [objItem]
  split
  · exact goodI_zero (by simp)
  · split
    · refine goodI_of_not_ok (by simp) ?_
      simp only [dfail_cost, Nat.succ_mul]; omega
    · rename_i o ho
      obtain ⟨hg, hpos⟩ := h _ _ o ho
      constructor
      · intro hr
        have hr' : o.res = .ok := hr
        have := hg.ok hr'
        have := hpos hr'
        simp only [Cost.add_iters, Nat.succ_mul, hr', if_true]; omega
      · have := hg.all
        simp only [Cost.add_iters, Nat.succ_mul]; omega

/-- `ReadObject` / the payload selector: no tick -/
theorem objItem_I0 (runAlt : Nat → Bytes → Option DOut) (den : Den) (K : Nat) (b : Bytes)
    (h : ∀ ty b o, runAlt ty b = some o → GoodI K o b) : GoodI K (objItem runAlt den 0 b) b := by
  simp only [objItem]
  split
  · exact goodI_zero (by simp)
  · split
    · exact goodI_zero (by simp)
    · rename_i o ho
      have hg := h _ _ o ho
      exact ⟨fun hr => by
        have hr' : o.res = .ok := hr
        simpa [hr'] using hg.ok hr', by simpa using hg.all⟩

theorem objItem_size (runAlt : Nat → Bytes → Option DOut) (den : Den) (tick : Nat) (b : Bytes)
    (h : ∀ ty b o, runAlt ty b = some o → o.res = .ok → 1 ≤ o.n ∧ o.n ≤ b.length) :
    (objItem runAlt den tick b).res = .ok →
      1 ≤ (objItem runAlt den tick b).n ∧ (objItem runAlt den tick b).n ≤ b.length := by
  simp only [objItem]
  split
  · intro hr; simp at hr
  · split
    · intro hr; simp at hr
    · rename_i o ho
      intro hr
      have hr' : o.res = .ok := hr
      simpa [hr'] using h _ _ o ho hr'

mutual
theorem prim_I : (p : Prim) → p.pos = true → ∀ b, GoodI p.K (runPrim p b) b
  | .num w, _, b => goodI_zero (by simp only [runPrim]; split <;> simp)
  | .bool, _, b => goodI_zero (by
      cases b with
      | nil => simp [runPrim]
      | cons x xs => simp only [runPrim]; split <;> simp)
  | .byte, _, b => goodI_zero (by cases b <;> simp [runPrim])
  | .u256, _, b => goodI_zero (by simp only [runPrim]; split <;> simp)
  | .time, _, b => goodI_zero (by simp only [runPrim]; split <;> simp)
  | .fixed n, _, b => goodI_zero (by simp only [runPrim]; split <;> simp)
  | .inplace n, _, b => goodI_zero (by simp only [runPrim]; split <;> simp)
  | .vbs lp mn mx, _, b => goodI_zero (by
      rcases rsl_cases lp b with ⟨_, h⟩ | ⟨_, _, h⟩ | ⟨_, _, h⟩
      · simp [runPrim, h]
      · simp [runPrim, h]
      · simp only [runPrim, h]; repeat' (first | split | simp))
  | .str lp mn mx, _, b => goodI_zero (by
      rcases rsl_cases lp b with ⟨_, h⟩ | ⟨_, _, h⟩ | ⟨_, _, h⟩
      · simp [runPrim, h]
      · simp [runPrim, h]
      · simp only [runPrim, h]; repeat' (first | split | simp))
  | .skip n, _, b => goodI_zero (by simp only [runPrim]; split <;> simp)
  | .tprefix den code, _, b => goodI_zero (by
      cases den with
      | none => simp [runPrim]
      | byte =>
        cases b with
        | nil => simp [runPrim]
        | cons x xs => simp only [runPrim]; split <;> simp
      | u32 => simp only [runPrim]; repeat' (first | split | simp))
  | .plen, _, b => goodI_zero (by simp only [runPrim]; split <;> simp)
  | .all, _, b => goodI_zero (by simp only [runPrim]; split <;> simp)
  | .seq lp val mn mx mode item, hp, b => by
    have hp' : 1 ≤ item.minSize ∧ item.pos = true := by simpa [Prim.pos] using hp
    rcases rsl_cases lp b with ⟨_, h⟩ | ⟨_, _, h⟩ | ⟨_, hw, h⟩
    · exact goodI_zero (by simp [runPrim, h])
    · exact goodI_zero (by simp [runPrim, h])
    · simp only [runPrim, h, Prim.K]
      split
      · exact goodI_zero (by simp)
      · refine goodI_prefixed hw (seqLoop_I _ _ _ _ _ _ (fun b' => prog_I item hp'.2 b') ?_ (Nat.le_refl 1) _ _ _)
        intro b' hok
        exact ⟨Nat.le_trans hp'.1 (prog_min item b' hok), ((prog_A item b').ok hok).1⟩
  | .obj den alts, hp, b => by
    simp only [runPrim, Prim.K]
    exact objItem_I0 _ _ _ _ (fun ty b' o ho => (alts_I alts false (by simpa [Prim.pos] using hp) ty b' o ho).1)
  | .sobj lp den val mn mx mode must alts, hp, b => by
    have hp' : alts.pos true = true := by simpa [Prim.pos] using hp
    rcases rsl_cases lp b with ⟨_, h⟩ | ⟨_, _, h⟩ | ⟨_, hw, h⟩
    · exact goodI_zero (by simp [runPrim, h])
    · exact goodI_zero (by simp [runPrim, h])
    · simp only [runPrim, h, Prim.K]
      split
      · exact goodI_zero (by simp)
      · have halt : ∀ ty b' o, runAlts alts ty b' = some o → GoodI alts.K o b' ∧ (o.res = .ok → 1 ≤ o.n) :=
          fun ty b' o ho => ⟨(alts_I alts true hp' ty b' o ho).1, fun hr => ((alts_I alts true hp' ty b' o ho).2 rfl hr)⟩
        have hl := seqLoop_I (objItem (runAlts alts) den 1) (fun e => (getType den e).getD 0) 0 val mode (alts.K + 1)
          (fun b' => objItem_I1 _ _ _ _ halt)
          (fun b' hok => ⟨Nat.zero_le _, (objItem_size _ _ _ _
            (fun ty b'' o ho hr => ⟨(halt ty b'' o ho).2 hr, ((alts_A alts ty b'' o ho).ok hr).1⟩) hok).2⟩)
          (by omega) (leNat (b.take lp.width)) (b.drop lp.width) {}
        have hp2 := goodI_prefixed (vs := (seqLoop (objItem (runAlts alts) den 1) (fun e => (getType den e).getD 0) 0 val mode
          (leNat (b.take lp.width)) (b.drop lp.width) {}).1.vals ++
            (if leNat (b.take lp.width) = 0 then [] else [.size (leNat (b.take lp.width))])) hw hl
        split
        · rename_i hok
          split
          · exact goodI_of_not_ok (by simp) (by simpa using hp2.all)
          · exact ⟨fun _ => hp2.ok hok, hp2.all⟩
        · rename_i hne
          exact goodI_of_not_ok (by simpa using hne) (by simpa using hp2.all)
  | .payload alts, hp, b => by
    simp only [runPrim, Prim.K]
    split
    · exact goodI_zero (by simp)
    · rename_i h4
      split
      · exact goodI_zero (by simp)
      · split
        · exact goodI_zero (by simp)
        · split
          · exact goodI_zero (by simp)
          · split
            · exact goodI_zero (by simp)
            · rename_i o ho
              have hg := (alts_I alts false (by simpa [Prim.pos] using hp) _ _ o ho).1
              have hp2 := goodI_prefixed (vs := o.vals) (w := 4) (by omega) hg
              split
              · rename_i hok
                split
                · exact ⟨fun _ => hp2.ok hok, hp2.all⟩
                · exact goodI_of_not_ok (by simp) (by simpa using hp2.all)
              · rename_i hne
                exact goodI_of_not_ok (by simpa using hne) (by simpa using hp2.all)
  | .rem, _, b => goodI_zero (by simp [runPrim])
  | .gtype den, _, b => goodI_zero (by simp only [runPrim]; split <;> simp)
  | .doF, _, b => goodI_zero (by simp [runPrim])
  | .abort flag, _, b => goodI_zero (by simp only [runPrim]; split <;> simp)
  | .wval val flag, _, b => goodI_zero (by simp only [runPrim]; repeat' (first | split | simp))
theorem prog_I : (p : Prog) → p.pos = true → ∀ b, GoodI p.K (runProg p b) b
  | .nil, _, b => goodI_zero (by simp [runProg])
  | .cons p rest, hp, b => by
    have hp' : p.pos = true ∧ rest.pos = true := by simpa [Prog.pos] using hp
    have h1 := (prim_I p hp'.1 b).mono (Nat.le_max_left p.K rest.K)
    simp only [runProg, Prog.K]
    split
    · rename_i hok
      have h2 := (prog_I rest hp'.2 (b.drop (runPrim p b).n)).mono (Nat.le_max_right p.K rest.K)
      exact GoodI.seq h1 hok ((prim_A p b).ok hok).1 h2
    · rename_i hne
      exact goodI_of_not_ok (by simpa using hne) (by simpa using h1.all)
theorem alts_I : (a : Alts) → (elem : Bool) → a.pos elem = true → ∀ ty b o, runAlts a ty b = some o →
    GoodI a.K o b ∧ (elem = true → o.res = .ok → 1 ≤ o.n)
  | .nil, _, _, ty, b, o, h => by simp [runAlts] at h
  | .cons code p rest, elem, hp, ty, b, o, h => by
    have hp' : (elem = false ∨ 1 ≤ p.minSize) ∧ p.pos = true ∧ rest.pos elem = true := by
      simpa [Alts.pos, and_assoc] using hp
    simp only [runAlts] at h
    simp only [Alts.K]
    split at h
    · simp only [Option.some.injEq] at h; subst h
      refine ⟨(prog_I p hp'.2.1 b).mono (Nat.le_max_left _ _), fun he hr => ?_⟩
      rcases hp'.1 with hf | hm
      · simp [he] at hf
      · exact Nat.le_trans hm (prog_min p b hr)
    · obtain ⟨h1, h2⟩ := alts_I rest elem hp'.2.2 ty b o h
      exact ⟨h1.mono (Nat.le_max_right _ _), h2⟩
end

end Hive.Deser
