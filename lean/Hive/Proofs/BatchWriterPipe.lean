import Hive.Proofs.BatchWriter
/-!
# C08 proofs, part 2: the writer's pipeline (shared state only)

`WO s o`: per object, done ≤ committed ≤ written ≤ reset ≤ received ≤ sent, with the exact differences
(objects in the commit's Done loop, in the open batch, held by the writer, in the queue).  `WS s`: batch /
mutations / store bookkeeping.  Both are preserved by every step of every thread.
-/
namespace Hive.BatchWriter
open Hive.Conc Hive.Spec.BatchWriter

def holdR (s : St) (o : Nat) : Nat := if s.wpc = .addReset ∧ s.wcur = o then 1 else 0
def holdW (s : St) (o : Nat) : Nat := if (s.wpc = .addDec ∨ s.wpc = .addWrite) ∧ s.wcur = o then 1 else 0
def atTop (w : WPc) : Prop := w = .notStarted ∨ w = .loopRun ∨ w = .loopCnt ∨ w = .wgDone ∨ w = .exited

/-- The writer's pipeline for one object: done ≤ committed ≤ written ≤ reset ≤ received ≤ sent. -/
structure WO (s : St) (o : Nat) : Prop where
  dn_com : s.mon.dn o + s.todo.count o = s.mon.com o
  com_wr : s.mon.com o + s.batch.count o = s.mon.wr o
  wr_rst : s.mon.wr o + holdW s o = s.rst o
  rst_rcv : s.rst o + holdR s o = s.rcv o
  rcv_snt : s.rcv o + s.queue.count o = s.snt o

structure WS (s : St) : Prop where
  top : atTop s.wpc ∨ s.wpc = .doneLoop → s.batch = [] ∧ s.muts = []
  bm : s.batch = [] → s.muts = []
  todo_nil : s.wpc ≠ .doneLoop → s.todo = []
  store_eq : ∀ o, s.store o = s.mon.lastCom o
  lastW_eq : ∀ o, s.mon.lastW o = applyMuts s.muts s.mon.lastCom o

theorem applyMuts_snoc (ms : List (Nat × Nat)) (f : Nat → Option Nat) (o v : Nat) :
    applyMuts (ms ++ [(o, v)]) f = upd (applyMuts ms f) o (some v) := by
  simp [applyMuts, List.foldl_append]

theorem ws_congr {s s' : St} (h : WS s) (e4 : s'.mon.lastW = s.mon.lastW) (e5 : s'.mon.lastCom = s.mon.lastCom)
    (e6 : s'.todo = s.todo) (e7 : s'.batch = s.batch) (e8 : s'.muts = s.muts) (e13 : s'.wpc = s.wpc)
    (e15 : s'.store = s.store) : WS s' := by
  obtain ⟨h1, h0, h2, h3, h4⟩ := h
  refine ⟨?_, ?_, ?_, ?_, ?_⟩ <;> simp only [e4, e5, e6, e7, e8, e13, e15] <;> assumption

theorem wo_congr {s s' : St} {o : Nat} (h : WO s o) (e1 : s'.mon.dn = s.mon.dn) (e2 : s'.mon.com = s.mon.com)
    (e3 : s'.mon.wr = s.mon.wr) (e6 : s'.todo = s.todo) (e7 : s'.batch = s.batch) (e9 : s'.rst = s.rst)
    (e10 : s'.rcv = s.rcv) (e11 : s'.snt = s.snt) (e12 : s'.queue = s.queue) (e13 : s'.wpc = s.wpc)
    (e14 : s'.wcur = s.wcur) : WO s' o := by
  obtain ⟨h1, h2, h3, h4, h5⟩ := h
  refine ⟨?_, ?_, ?_, ?_, ?_⟩ <;>
    simp only [holdW, holdR, e1, e2, e3, e6, e7, e9, e10, e11, e12, e13, e14] <;> assumption

set_option hygiene false in
theorem ws_step {s s' : St} {t t' : Thread} (h : WS s) (hm : (s', t') ∈ step s t) : WS s' := by
  step_cases
  all_goals first
    | exact ws_congr h rfl rfl rfl rfl rfl rfl rfl
    | skip
  all_goals (
    obtain ⟨h1, h0, h2, h3, h4⟩ := h
    refine ⟨?_, ?_, ?_, ?_, ?_⟩
    all_goals (
      (try simp [emit, Mon.step, atTop, upd_apply, Tab.get_set, applyMuts_snoc, *] at *) <;> (try simp_all)))
  all_goals (
    have e : s.store = s.mon.lastCom.get := funext h3
    simp [e])

set_option hygiene false in
theorem wo_step {s s' : St} {t t' : Thread} {o : Nat} (h : WO s o) (hs : WS s) (hm : (s', t') ∈ step s t) : WO s' o := by
  step_cases
  all_goals first
    | exact wo_congr h rfl rfl rfl rfl rfl rfl rfl rfl rfl rfl rfl
    | skip
  all_goals (
    obtain ⟨h1, h2, h3, h4, h5⟩ := h
    obtain ⟨g1, g0, g2, g3, g4⟩ := hs
    refine ⟨?_, ?_, ?_, ?_, ?_⟩
    all_goals (
      (try simp [emit, Mon.step, holdW, holdR, atTop, upd_apply, Tab.get_set, List.count_cons, List.count_append, *] at *) <;>
      (try split) <;> (try simp_all) <;> (try omega)))
end Hive.BatchWriter
