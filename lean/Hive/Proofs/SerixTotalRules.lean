import Hive.Proofs.SerixTotal
/-!
# What the validating decoder accepts obeys the array rules

The decode-side twin of `C03_rules_exact`: a slice the validating `Decode` accepts has its element count inside the bounds,
its element encodings — the consumed bytes cut into the pieces the element decoder consumed — satisfy the declarative
`validSeq` (no duplicates / lexical order / at most one of each type), and every must-occur type is present.
-/
namespace Hive.Serix

theorem decode_slice_rules (lp : LP) (r : Rules) (e : Ty) (b : Bytes) (st : Bool) (vs : List Val) (n : Nat)
    (h : decode (.slice lp r e) b ⟨true, st⟩ = .ok (.l vs, n)) :
    ∃ (w : Nat) (encs : List Bytes), lp.width = some w ∧ w ≤ n ∧ n ≤ b.length ∧
      vs.length = leNat (b.take w) ∧ r.boundsOk vs.length = true ∧
      encs.length = vs.length ∧ encs.flatten = (b.drop w).take (n - w) ∧ validSeq r encs = true ∧
      mustOccurOk r e vs = .ok () := by
  simp only [decode, dec, Res.bind_eq_ok, Res.pure_eq] at h
  obtain ⟨⟨count, w⟩, hr, ⟨items, n'⟩, hbody, u, hmust, hc⟩ := h
  simp only [Res.ok.injEq, Prod.mk.injEq, Val.l.injEq] at hc
  obtain ⟨hvs, hn⟩ := hc
  subst hn
  obtain ⟨hw, hwl, hcount⟩ := readLen_ok hr
  obtain ⟨m, rfl, hloop, hval⟩ := decSeqBody_ok hbody
  obtain ⟨hb, hv⟩ := hval rfl
  obtain ⟨hm, hlen, hfl, _⟩ := decLoop_spec (fun b v n h => cl_ty e b ⟨true, st⟩ v n h) _ _ _ _ hloop
  simp only [List.length_drop] at hm
  have hl : vs.length = count := by rw [← hvs, List.length_map, hlen]
  refine ⟨w, items.map (·.2), hw, by omega, by omega, by rw [hl, hcount], by rw [hl]; exact hb, ?_, ?_, hv, ?_⟩
  · rw [List.length_map, hl, hlen]
  · rw [hfl]; congr 1; omega
  · simp only [mustOccurIf, if_true] at hmust
    rw [← hvs]
    cases u
    exact hmust

end Hive.Serix
