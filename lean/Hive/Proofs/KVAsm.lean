import Hive.Model.KVAsm
/-!
# Lemmas about the assembler's second stage (C05)
-/
namespace Hive.KV.Conc.Asm
open Hive.KV.Conc

theorem commitWrites_append (r : Bytes) (a b : List Write) :
    commitWrites r (a ++ b) = commitWrites r a ++ commitWrites r b := by
  induction a with
  | nil => rfl
  | cons w ws ih => simp [commitWrites, ih]

/-- One critical section per write: what a loop over `[prim true]` instantiates to. -/
theorem loop_writes (r : Bytes) (ws : List Write) :
    (ws.map (writeOp r)).flatMap (fun a => instS a [.prim true]) = commitWrites r ws := by
  induction ws with
  | nil => rfl
  | cons w ws ih =>
    simp only [List.map_cons, List.flatMap_cons, ih]
    simp [instS, cs, commitWrites]

end Hive.KV.Conc.Asm
