import Hive.Proofs.WorkerPool
/-!
# C16 — the ghost monitor state is the monitor run on the ghost log

Every step changes `log` and `mon` only through `emit`, hence `mon = monRun (some Mon.init) log` in
every reachable configuration: the invariant about `mon` is a statement about the event trace.
-/
set_option linter.unusedSimpArgs false
set_option linter.unusedVariables false
namespace Hive.WP
open Hive.Conc

theorem monRun_none (c : Bool) (l : List Ev) : monRun c none l = none := by
  cases l <;> rfl

theorem monRun_append (c : Bool) (m : Option Mon) (l : List Ev) (e : Ev) :
    monRun c m (l ++ [e]) = (monRun c m l).bind (fun x => monStep c x e) := by
  induction l generalizing m with
  | nil => cases m <;> simp [monRun]
  | cons a as ih =>
    cases m with
    | none => simp [monRun, monRun_none]
    | some x => simp [monRun, ih]

def LogInv (p : Params) (s : St) : Prop := s.mon = monRun p.cancel (some Mon.init) s.log

/-- `s'` extends `s` by emitted events only. -/
inductive Ext (p : Params) : St → St → Prop
  | same {s s' : St} : s'.log = s.log → s'.mon = s.mon → Ext p s s'
  | emit {s x : St} (e : Ev) : Ext p s x → Ext p s (Hive.WP.emit p e x)

theorem Ext.logInv {p : Params} {s s' : St} (h : Ext p s s') (hi : LogInv p s) : LogInv p s' := by
  induction h with
  | same h1 h2 => unfold LogInv; rw [h1, h2]; exact hi
  | emit e _ ih =>
    unfold LogInv at ih ⊢
    show (Option.bind _ _) = monRun p.cancel (some Mon.init) (_ ++ [e])
    rw [monRun_append, ← ih]

theorem Ext.upd {p : Params} {s x x' : St} (h : Ext p s x) (h1 : x'.log = x.log) (h2 : x'.mon = x.mon) : Ext p s x' := by
  induction h generalizing x' with
  | same a b => exact .same (h1.trans a) (h2.trans b)
  | @emit y e hy ih =>
    have : x' = Hive.WP.emit p e { x' with log := y.log, mon := y.mon } := by
      cases x'; simp only [Hive.WP.emit] at h1 h2 ⊢; simp_all
    rw [this]
    exact .emit e (ih rfl rfl)

@[simp] theorem setPhase_log (s : St) (t : Nat) (ph : Phase) : (setPhase s t ph).log = s.log := by
  unfold setPhase; split <;> rfl
@[simp] theorem setPhase_mon (s : St) (t : Nat) (ph : Phase) : (setPhase s t ph).mon = s.mon := by
  unfold setPhase; split <;> rfl
@[simp] theorem setReturned_log (s : St) (t : Nat) : (setReturned s t).log = s.log := by
  unfold setReturned; split <;> rfl
@[simp] theorem setReturned_mon (s : St) (t : Nat) : (setReturned s t).mon = s.mon := by
  unfold setReturned; split <;> rfl

@[simp] theorem bcast_log (s : St) : (bcast s).log = s.log := rfl
@[simp] theorem bcast_mon (s : St) : (bcast s).mon = s.mon := rfl

theorem ext_refl (p : Params) (s : St) : Ext p s s := .same rfl rfl

theorem ext_newTask (p : Params) (s : St) (k : List Body) : Ext p s (newTask p s k).1 :=
  .emit _ (.same rfl rfl)

theorem ext_submitStep {p : Params} {s : St} {t : Nat} {r : St × Bool} (hr : r ∈ submitStep p s t) : Ext p s r.1 := by
  unfold submitStep at hr
  split at hr
  · simp at hr
  · split at hr
    · simp at hr
    · split at hr
      · split at hr
        · simp at hr
        · split at hr
          · simp at hr; subst hr; exact .emit _ (.same (by simp) (by simp))
          · simp at hr; subst hr; exact .same (by simp) (by simp)
      · simp at hr; subst hr; exact .emit _ (.same (by simp) (by simp))
      · split at hr
        · simp at hr
        · simp at hr; subst hr; exact .same (by simp) (by simp)
      · simp at hr; subst hr; exact .emit _ (.same (by simp) (by simp))

theorem ext_popOrCond {p : Params} {s s' : St} (hs : s' ∈ popOrCond s) : Ext p s s' := by
  unfold popOrCond at hs
  split at hs
  · simp at hs; subst hs; exact .same rfl rfl
  · simp at hs; obtain ⟨t, _, rfl⟩ := hs; exact .same (by simp) (by simp)

theorem ext_dispStep {p : Params} {s s' : St} (hs : s' ∈ dispStep p s) : Ext p s s' := by
  unfold dispStep at hs
  split at hs
  · simp at hs
  · split at hs
    · simp at hs
    · simp at hs; subst hs; exact .same rfl rfl
  · simp at hs; subst hs; exact .same rfl rfl
  · split at hs
    · simp at hs
    · exact ext_popOrCond hs
  · split at hs
    · simp at hs
    · simp at hs; subst hs; exact .same rfl rfl
  · split at hs <;> (simp at hs; subst hs; exact .same rfl rfl)
  · simp at hs; subst hs; exact .same rfl rfl
  · split at hs
    · simp at hs
    · exact ext_popOrCond hs
  · split at hs
    · simp at hs; subst hs; exact .same (by simp) (by simp)
    · simp at hs
  · simp at hs; subst hs; exact .same rfl rfl

theorem ext_takeRun (p : Params) (s : St) (dr : Bool) (t : Nat) : Ext p s (takeRun p s dr t).1 :=
  .emit _ (.same (by simp) (by simp))

theorem ext_wStep {p : Params} {s : St} {w : WPc} {r : St × WPc} (hr : r ∈ wStep p s w) : Ext p s r.1 := by
  cases w with
  | exited => simp [wStep] at hr
  | sel =>
    simp only [wStep] at hr
    split at hr <;> (simp at hr; subst hr; exact .same rfl rfl)
  | sel2 =>
    simp only [wStep, List.mem_append] at hr
    rcases hr with (hr | hr) | hr
    · split at hr
      · simp at hr; subst hr; exact .same rfl rfl
      · simp at hr
    · simp only [List.mem_map] at hr; obtain ⟨t, _, rfl⟩ := hr; exact ext_takeRun p s false t
    · split at hr
      · simp at hr; subst hr; exact .same rfl rfl
      · simp at hr
  | drain =>
    simp only [wStep, List.mem_append] at hr
    rcases hr with hr | hr
    · simp only [List.mem_map] at hr; obtain ⟨t, _, rfl⟩ := hr
      split
      · exact .same (by simp) (by simp)
      · exact ext_takeRun p s true t
    · split at hr
      · simp at hr; subst hr; exact .same rfl rfl
      · simp at hr
  | run t todo sub dr =>
    simp only [wStep] at hr
    cases sub with
    | some c =>
      simp only [List.mem_map] at hr
      obtain ⟨q, hq, rfl⟩ := hr
      exact ext_submitStep hq
    | none =>
      cases todo with
      | cons b rest => simp at hr; subst hr; exact ext_newTask p s _
      | nil =>
        simp only at hr
        split at hr
        · simp at hr; subst hr; exact .emit _ (.same (by simp) (by simp))
        · simp at hr
  | mark t dr =>
    simp only [wStep] at hr
    split at hr
    · simp at hr; subst hr; unfold markDone; split <;> exact .emit _ (.same (by simp) (by simp))
    · simp at hr; subst hr; unfold markDone; split <;> exact .emit _ (.same (by simp) (by simp))
    · simp at hr
  | signal dr =>
    simp only [wStep] at hr
    split at hr
    · simp at hr
    · simp at hr; subst hr; exact .same rfl rfl

theorem ext_runnerStep {p : Params} {s s' : St} (hs : s' ∈ runnerStep p s) : Ext p s s' := by
  unfold runnerStep at hs
  rcases List.mem_append.mp hs with hs | hs
  · exact ext_dispStep hs
  · obtain ⟨i, _, hi⟩ := List.mem_flatMap.mp hs
    cases hw : s.workers[i]? with
    | none => simp [hw] at hi
    | some w =>
      simp only [hw, List.mem_map] at hi
      obtain ⟨r, hr, rfl⟩ := hi
      exact (ext_wStep hr).upd rfl rfl

theorem ext_clientStep {p : Params} {s : St} {c : Client} {r : St × Client} (hr : r ∈ clientStep p s c) :
    Ext p s r.1 := by
  obtain ⟨pc, script⟩ := c
  cases pc
  case idle =>
    simp only [clientStep] at hr
    cases script with
    | nil => simp at hr
    | cons op rest =>
      cases op <;> (simp at hr; subst hr)
      · exact ext_newTask p s _
      · exact .emit _ (.same rfl rfl)
      · exact .emit _ (.same rfl rfl)
      · exact .same rfl rfl
      · exact .same rfl rfl
      · exact .same rfl rfl
  case sub t =>
    simp only [clientStep, List.mem_map] at hr
    obtain ⟨q, hq, rfl⟩ := hr
    exact ext_submitStep hq
  case sd1 =>
    simp only [clientStep] at hr
    split at hr
    · simp at hr
    · split at hr <;> (simp at hr; subst hr; exact .same rfl rfl)
  case sdSend j =>
    simp only [clientStep] at hr
    split at hr
    · split at hr
      · simp at hr; subst hr; exact .same rfl rfl
      · simp at hr
    · simp at hr; subst hr; exact .same rfl rfl
  case sdUnlockS => simp [clientStep] at hr; subst hr; exact .same rfl rfl
  case sdUnlockN => simp [clientStep] at hr; subst hr; exact .emit _ (.same rfl rfl)
  case sdBcast =>
    simp only [clientStep] at hr
    split at hr
    · simp at hr
    · simp at hr; subst hr; exact .emit _ (.same rfl rfl)
  case stTry =>
    simp only [clientStep] at hr
    split at hr
    · simp at hr
    · split at hr
      · simp at hr; subst hr; exact .emit _ (.same rfl rfl)
      · split at hr
        · simp at hr; subst hr; exact .emit _ (.same rfl rfl)
        · simp at hr; subst hr; exact .same rfl rfl
  case stWait =>
    simp only [clientStep] at hr
    split at hr
    · simp at hr; subst hr; exact .same rfl rfl
    · simp at hr
  case wc =>
    simp only [clientStep] at hr
    split at hr
    · simp at hr; subst hr; exact .emit _ (.same rfl rfl)
    · simp at hr
  case wz =>
    simp only [clientStep] at hr
    split at hr
    · simp at hr; subst hr; exact .same rfl rfl
    · simp at hr
  case wa n =>
    simp only [clientStep] at hr
    split at hr
    · simp at hr
    · split at hr <;> (simp at hr; subst hr; exact .same rfl rfl)
  case waSleep n =>
    simp only [clientStep] at hr
    split at hr
    · simp at hr; subst hr; exact .same rfl rfl
    · simp at hr

theorem logInv_step (p : Params) (a b : Cfg St Thr) (h : LogInv p a.1) (hs : Step (sys p) a b) : LogInv p b.1 := by
  cases hs with
  | mk s pre t post s' t' hmem =>
    cases t with
    | runner =>
      simp only [sys, List.mem_map] at hmem
      obtain ⟨s'', hs'', heq⟩ := hmem
      cases heq
      exact (ext_runnerStep hs'').logInv h
    | client c =>
      simp only [sys, List.mem_map] at hmem
      obtain ⟨r, hr, heq⟩ := hmem
      cases heq
      exact (ext_clientStep hr).logInv h

theorem logInv_reach (p : Params) (ts : List Thr) (c : Cfg St Thr) (hr : Reach (sys p) (St.init, ts) c) :
    LogInv p c.1 :=
  inv_induction (fun c => LogInv p c.1) (show LogInv p St.init from rfl) (logInv_step p) hr


end Hive.WP
