import Hive.Spec.ReactiveElements
import Hive.Proofs.ReactiveInst
/-! Lemmas about the `WithElements` machine. -/
namespace Hive.Reactive

variable (cond hasTd : Nat → Bool)

theorem mem_weAdd (l : List Nat) : ∀ (act : List Nat) (x : Nat),
    x ∈ (weAdd cond hasTd act l).1 ↔ x ∈ act ∨ (x ∈ l ∧ cond x = true ∧ hasTd x = true) := by
  induction l with
  | nil => intro act x; simp [weAdd]
  | cons y r ih =>
    intro act x
    simp only [weAdd]
    split
    · next hc =>
      simp only [ih, List.mem_cons]
      by_cases hh : (hasTd y && !act.contains y) = true
      · simp only [hh, if_true, List.mem_cons]
        simp only [Bool.and_eq_true] at hh
        constructor
        · rintro (h | h)
          · rcases h with h | h
            · subst h; exact Or.inr ⟨Or.inl rfl, hc, hh.1⟩
            · exact Or.inl h
          · exact Or.inr ⟨Or.inr h.1, h.2⟩
        · rintro (h | ⟨h | h, h2⟩)
          · exact Or.inl (Or.inr h)
          · exact Or.inl (Or.inl h)
          · exact Or.inr ⟨h, h2⟩
      · simp only [hh, Bool.false_eq_true, if_false]
        constructor
        · rintro (h | h)
          · exact Or.inl h
          · exact Or.inr ⟨Or.inr h.1, h.2⟩
        · rintro (h | ⟨h | h, h2⟩)
          · exact Or.inl h
          · subst h
            have : x ∈ act := by
              apply Classical.byContradiction
              intro hn
              apply hh
              simp [h2.2, hn]
            exact Or.inl this
          · exact Or.inr ⟨h, h2⟩
    · next hc =>
      simp only [ih, List.mem_cons]
      constructor
      · rintro (h | h)
        · exact Or.inl h
        · exact Or.inr ⟨Or.inr h.1, h.2⟩
      · rintro (h | ⟨h | h, h2⟩)
        · exact Or.inl h
        · subst h; exact absurd h2.1 hc
        · exact Or.inr ⟨h, h2⟩

theorem mem_weDel (l : List Nat) : ∀ (act : List Nat) (x : Nat), x ∈ (weDel act l).1 ↔ x ∈ act ∧ x ∉ l := by
  induction l with
  | nil => intro act x; simp [weDel]
  | cons y r ih =>
    intro act x
    simp only [weDel]
    split
    · next hc =>
      simp only [ih, List.mem_filter, bne_iff_ne, ne_eq, List.mem_cons, not_or]
      constructor
      · rintro ⟨⟨h1, h2⟩, h3⟩; exact ⟨h1, h2, h3⟩
      · rintro ⟨h1, h2, h3⟩; exact ⟨⟨h1, h2⟩, h3⟩
    · next hc =>
      simp only [ih, List.mem_cons, not_or]
      have hy : y ∉ act := by simpa using hc
      constructor
      · rintro ⟨h1, h3⟩; exact ⟨h1, fun h => hy (h ▸ h1), h3⟩
      · rintro ⟨h1, _, h3⟩; exact ⟨h1, h3⟩

/-- **What is set up is what is there**: after any stream of notes, a teardown function is pending for
exactly the elements of the folded contents that satisfy the condition and whose setup returned one. -/
theorem weRun_active (ms : List Mut) : ∀ (act T : List Nat),
    (∀ x, x ∈ act ↔ x ∈ T ∧ cond x = true ∧ hasTd x = true) →
    ∀ x, x ∈ (weRun cond hasTd act ms).1 ↔ x ∈ ms.foldl foldStep T ∧ cond x = true ∧ hasTd x = true := by
  induction ms with
  | nil => intro act T h x; simpa [weRun] using h x
  | cons m r ih =>
    intro act T h
    simp only [weRun, List.foldl_cons]
    apply ih
    intro x
    simp only [weStep, mem_weDel, mem_weAdd, mem_foldStep, h x]
    constructor
    · rintro ⟨h1 | h1, h2⟩
      · exact ⟨⟨Or.inl h1.1, h2⟩, h1.2⟩
      · exact ⟨⟨Or.inr h1.1, h2⟩, h1.2⟩
    · rintro ⟨⟨h1 | h1, h2⟩, h3⟩
      · exact ⟨Or.inl ⟨h1, h3⟩, h2⟩
      · exact ⟨Or.inr ⟨h1, h3⟩, h2⟩

/-! ### the event trace -/

theorem weDel_scan (l : List Nat) : ∀ (act : List Nat),
    (weDel act l).2.foldl (weScan hasTd) (some act) = some (weDel act l).1 := by
  induction l with
  | nil => intro act; simp [weDel]
  | cons y r ih =>
    intro act
    simp only [weDel]
    split
    · next hc => simp only [List.foldl_cons, weScan, hc, if_true]; exact ih _
    · exact ih _

theorem weAdd_scan (l : List Nat) : ∀ (act : List Nat), (∀ x ∈ l, x ∉ act) → l.Nodup →
    (weAdd cond hasTd act l).2.foldl (weScan hasTd) (some act) = some (weAdd cond hasTd act l).1 := by
  induction l with
  | nil => intro act _ _; simp [weAdd]
  | cons y r ih =>
    intro act hna hnd
    have hy : y ∉ act := hna y (by simp)
    have hyc : act.contains y = false := by simpa using hy
    have hnd' := List.nodup_cons.mp hnd
    simp only [weAdd]
    split
    · simp only [List.foldl_cons, weScan, hyc, Bool.false_eq_true, if_false, Bool.not_false, Bool.and_true]
      apply ih _ _ hnd'.2
      intro x hx
      split
      · simp only [List.mem_cons, not_or]
        exact ⟨fun h => hnd'.1 (h ▸ hx), hna x (List.mem_cons_of_mem _ hx)⟩
      · exact hna x (List.mem_cons_of_mem _ hx)
    · exact ih _ (fun x hx => hna x (List.mem_cons_of_mem _ hx)) hnd'.2

theorem foldl_weScan_append (a b : List WeEv) (s : Option (List Nat)) :
    (a ++ b).foldl (weScan hasTd) s = b.foldl (weScan hasTd) (a.foldl (weScan hasTd) s) := List.foldl_append

/-- On a stream of true differences the trace of the machine is accepted by the scanner, which ends in
the machine's state: no element is set up twice without its teardown in between, every teardown
belongs to a pending setup. -/
theorem weRun_scan (ms : List Mut) : ∀ (act T : List Nat), (∀ x ∈ act, x ∈ T) → diffFrom T ms = true → addsNodup ms →
    (weRun cond hasTd act ms).2.foldl (weScan hasTd) (some act) = some (weRun cond hasTd act ms).1 := by
  induction ms with
  | nil => intro act T _ _ _; simp [weRun]
  | cons m r ih =>
    intro act T hsub hd hnd
    simp only [diffFrom, Bool.and_eq_true, List.all_eq_true, Bool.not_eq_true', List.contains_eq_mem,
      decide_eq_false_iff_not] at hd
    simp only [weRun, weStep, List.foldl_append]
    rw [weAdd_scan cond hasTd m.1 act (fun x hx h => hd.1.1 x hx (hsub x h)) (hnd m (by simp)), weDel_scan]
    apply ih _ (foldStep T m) _ hd.2 (fun m' hm' => hnd m' (List.mem_cons_of_mem _ hm'))
    intro x hx
    rw [mem_weDel, mem_weAdd] at hx
    rw [mem_foldStep]
    rcases hx with ⟨h1 | h1, h2⟩
    · exact ⟨Or.inl (hsub x h1), h2⟩
    · exact ⟨Or.inr h1.1, h2⟩

/-! ### the final teardown -/

theorem weAdd_nodup (l : List Nat) : ∀ (act : List Nat), act.Nodup → (weAdd cond hasTd act l).1.Nodup := by
  induction l with
  | nil => intro act h; simpa [weAdd] using h
  | cons y r ih =>
    intro act h
    simp only [weAdd]
    split
    · apply ih
      split
      · next hh =>
        simp only [Bool.and_eq_true, Bool.not_eq_true', List.contains_eq_mem, decide_eq_false_iff_not] at hh
        exact List.nodup_cons.mpr ⟨hh.2, h⟩
      · exact h
    · exact ih _ h

theorem weDel_nodup (l : List Nat) : ∀ (act : List Nat), act.Nodup → (weDel act l).1.Nodup := by
  induction l with
  | nil => intro act h; simpa [weDel] using h
  | cons y r ih =>
    intro act h
    simp only [weDel]
    split
    · exact ih _ (h.filter _)
    · exact ih _ h

theorem weRun_nodup (ms : List Mut) : ∀ (act : List Nat), act.Nodup → (weRun cond hasTd act ms).1.Nodup := by
  induction ms with
  | nil => intro act h; simpa [weRun] using h
  | cons m r ih => intro act h; exact ih _ (weDel_nodup _ _ (weAdd_nodup cond hasTd _ _ h))

theorem weUnsub_scan (act : List Nat) (h : act.Nodup) :
    (weUnsub act).foldl (weScan hasTd) (some act) = some [] := by
  induction act with
  | nil => rfl
  | cons y r ih =>
    have hn := List.nodup_cons.mp h
    have hf : (y :: r).filter (· != y) = r := by
      simp only [List.filter_cons, bne_self_eq_false, Bool.false_eq_true, if_false]
      rw [List.filter_eq_self]
      intro a ha; simp only [bne_iff_ne, ne_eq]; exact fun hay => hn.1 (hay ▸ ha)
    simp only [weUnsub, List.map_cons, List.foldl_cons, weScan, List.contains_cons, BEq.rfl, Bool.true_or, if_true, hf]
    exact ih hn.2

end Hive.Reactive
