import Hive.Model.SerixJson
import Hive.Proofs.SerixJsonText
/-!
# Helper lemmas for the round trip of the serix JSON/map form

`Except` plumbing, objects (`jlookup`, `objSet`), `fit`, element lists and Go-map entries.
-/
namespace Hive.SerixJson

/-! ## Except -/

theorem bind_eq_ok {ε α β : Type} {x : Except ε α} {f : α → Except ε β} {b : β} :
    (x >>= f) = .ok b ↔ ∃ a, x = .ok a ∧ f a = .ok b := by
  cases x with
  | error e => simp [bind, Except.bind]
  | ok a => simp [bind, Except.bind]

theorem map_eq_ok {ε α β : Type} {x : Except ε α} {f : α → β} {b : β} :
    (x.map f) = .ok b ↔ ∃ a, x = .ok a ∧ f a = b := by
  cases x with
  | error e => simp [Except.map]
  | ok a => simp [Except.map]

theorem fmap_eq_ok {ε α β : Type} {x : Except ε α} {f : α → β} {b : β} :
    (f <$> x) = .ok b ↔ ∃ a, x = .ok a ∧ f a = b := by
  cases x with
  | error e => simp [Functor.map, Except.map]
  | ok a => simp [Functor.map, Except.map]

@[simp] theorem ok_bind {ε α β : Type} (a : α) (f : α → Except ε β) :
    ((Except.ok a : Except ε α) >>= f) = f a := rfl

@[simp] theorem pure_eq_ok {ε α : Type} (a : α) : (pure a : Except ε α) = .ok a := rfl

theorem mapM_cons_ok {α β : Type} (f : α → Except Err β) (x : α) (xs : List α) (ys : List β) :
    (x :: xs).mapM f = .ok ys ↔ ∃ y ys', f x = .ok y ∧ xs.mapM f = .ok ys' ∧ ys = y :: ys' := by
  rw [List.mapM_cons]
  constructor
  · intro h
    obtain ⟨y, hy, h⟩ := bind_eq_ok.mp h
    obtain ⟨ys', hys, h⟩ := bind_eq_ok.mp h
    exact ⟨y, ys', hy, hys, by simpa using h.symm⟩
  · rintro ⟨y, ys', hy, hys, rfl⟩
    simp [hy, hys]

/-- element lists: if every element round-trips, the list does. -/
theorem mapM_roundtrip {α β : Type} (f : α → Except Err β) (g : β → Except Err α) :
    ∀ (xs : List α) (ys : List β), (∀ x ∈ xs, ∀ y, f x = .ok y → g y = .ok x) →
      xs.mapM f = .ok ys → ys.mapM g = .ok xs
  | [], ys, _, h => by
    simp at h; subst h; rfl
  | x :: xs, ys, hx, h => by
    obtain ⟨y, ys', hy, hys, rfl⟩ := (mapM_cons_ok f x xs ys).mp h
    rw [mapM_cons_ok]
    exact ⟨x, xs, hx x (List.mem_cons_self) y hy,
      mapM_roundtrip f g xs ys' (fun x' hx' => hx x' (List.mem_cons_of_mem _ hx')) hys, rfl⟩

/-! ## objects -/

theorem jlookup_append_left {k : String} {a b : List (String × Json)} (h : k ∉ keys b) :
    jlookup k (a ++ b) = jlookup k a := by
  induction a with
  | nil =>
    induction b with
    | nil => rfl
    | cons p b ih =>
      obtain ⟨k', j⟩ := p
      simp only [keys, List.map_cons, List.mem_cons, not_or] at h
      simp only [List.nil_append, jlookup] at ih ⊢
      rw [if_neg (fun e => h.1 e.symm)]
      exact ih h.2
  | cons p a ih =>
    obtain ⟨k', j⟩ := p
    simp only [List.cons_append, jlookup]
    split
    · rfl
    · exact ih

theorem jlookup_append_right {k : String} {a b : List (String × Json)} (h : k ∉ keys a) :
    jlookup k (a ++ b) = jlookup k b := by
  induction a with
  | nil => rfl
  | cons p a ih =>
    obtain ⟨k', j⟩ := p
    simp only [keys, List.map_cons, List.mem_cons, not_or] at h
    simp only [List.cons_append, jlookup]
    rw [if_neg (fun e => h.1 e.symm)]
    exact ih h.2

theorem jlookup_none_of_not_mem {k : String} {a : List (String × Json)} (h : k ∉ keys a) :
    jlookup k a = none := by
  have := jlookup_append_right (b := []) h
  simpa [jlookup] using this

theorem keys_append (a b : List (String × Json)) : keys (a ++ b) = keys a ++ keys b := by
  simp [keys]

theorem objSet_of_not_mem {ms : List (String × Json)} {k : String} (j : Json) (h : k ∉ keys ms) :
    objSet ms k j = ms ++ [(k, j)] := by
  induction ms with
  | nil => rfl
  | cons p ms ih =>
    obtain ⟨k', j'⟩ := p
    simp only [keys, List.map_cons, List.mem_cons, not_or] at h
    simp only [objSet, List.cons_append]
    rw [if_neg (fun e => h.1 e.symm)]
    rw [ih h.2]

theorem objSetAll_of_disjoint (acc ms : List (String × Json)) (hnd : (keys ms).Nodup)
    (hdis : ∀ k ∈ keys ms, k ∉ keys acc) : objSetAll acc ms = acc ++ ms := by
  induction ms generalizing acc with
  | nil => simp [objSetAll]
  | cons p ms ih =>
    obtain ⟨k, j⟩ := p
    simp only [keys, List.map_cons, List.nodup_cons] at hnd
    have hk : k ∉ keys acc := hdis k (by simp [keys])
    simp only [objSetAll, List.foldl_cons] at ih ⊢
    rw [objSet_of_not_mem j hk]
    rw [ih (acc ++ [(k, j)]) hnd.2]
    · simp
    · intro k' hk'
      rw [keys_append]
      simp only [keys, List.map_cons, List.map_nil, List.mem_append, List.mem_cons, List.not_mem_nil,
        or_false, not_or]
      refine ⟨hdis k' (by simp only [keys, List.map_cons, List.mem_cons]; exact Or.inr hk'), ?_⟩
      rintro rfl
      exact hnd.1 hk'

theorem nodupB_iff (l : List String) : nodupB l = true ↔ l.Nodup := by
  induction l with
  | nil => simp [nodupB]
  | cons k ks ih =>
    simp only [nodupB, Bool.and_eq_true, Bool.not_eq_eq_eq_not, Bool.not_true, List.contains_eq_mem,
      decide_eq_false_iff_not, List.nodup_cons, ih]

/-! ## byte arrays -/

theorem fit_eq {n : Nat} {bs : List UInt8} (h : bs.length = n) : fit n bs = bs := by
  unfold fit
  rw [List.take_append_of_le_length (by omega)]
  rw [List.take_of_length_le (by omega)]

theorem all_zero_eq_replicate (bs : List UInt8) (h : bs.all (· == 0) = true) :
    bs = zeroBytes bs.length := by
  induction bs with
  | nil => rfl
  | cons b bs ih =>
    simp only [List.all_cons, Bool.and_eq_true, beq_iff_eq] at h
    simp only [zeroBytes, List.length_cons, List.replicate_succ] at ih ⊢
    rw [h.1, ← ih h.2]

/-! ## numbers -/

theorem pow2_pos (w : Nat) : 0 < pow2 w := by
  unfold pow2
  exact Int.natCast_pos.mpr (Nat.pow_pos (by decide))

theorem wrapU_of_inU {w : Nat} (hw : w = 8 ∨ w = 16 ∨ w = 32) {n : Int} (h : inU w n = true) :
    wrapU w n = n := by
  simp only [inU, Bool.and_eq_true, decide_eq_true_eq] at h
  rcases hw with rfl | rfl | rfl <;> simp only [wrapU, cvt, pow2] at h ⊢ <;>
    (simp only [Nat.reduceEqDiff, if_false, if_true, Nat.reduceSub, Nat.reducePow]
     rw [if_pos (by omega)]
     omega)

end Hive.SerixJson
