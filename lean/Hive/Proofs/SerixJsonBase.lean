import Hive.Model.SerixJson
import Hive.Proofs.SerixJsonText
/-!
# Helper lemmas for the round trip of the serix JSON/map form

`Except` plumbing, objects (`jlookup`, `objSet`), `fit`, element lists and Go-map entries.
-/
namespace Hive.SerixJson

/-! ## Except -/

theorem bind_eq_ok {ε α β : Type} {x : Except ε α} {f : α → Except ε β} {b : β} :
    (x >>= f) = .ok b ↔ ∃ a, x = .ok a ∧ f a = .ok b := by
  cases x with
  | error e => simp [bind, Except.bind]
  | ok a => simp [bind, Except.bind]

theorem map_eq_ok {ε α β : Type} {x : Except ε α} {f : α → β} {b : β} :
    (x.map f) = .ok b ↔ ∃ a, x = .ok a ∧ f a = b := by
  cases x with
  | error e => simp [Except.map]
  | ok a => simp [Except.map]

theorem fmap_eq_ok {ε α β : Type} {x : Except ε α} {f : α → β} {b : β} :
    (f <$> x) = .ok b ↔ ∃ a, x = .ok a ∧ f a = b := by
  cases x with
  | error e => simp [Functor.map, Except.map]
  | ok a => simp [Functor.map, Except.map]

@[simp] theorem ok_bind {ε α β : Type} (a : α) (f : α → Except ε β) :
    ((Except.ok a : Except ε α) >>= f) = f a := rfl

@[simp] theorem error_bind {ε α β : Type} (e : ε) (f : α → Except ε β) :
    ((Except.error e : Except ε α) >>= f) = .error e := rfl

@[simp] theorem pure_eq_ok {ε α : Type} (a : α) : (pure a : Except ε α) = .ok a := rfl

theorem mapM_cons_ok {α β : Type} (f : α → Except Err β) (x : α) (xs : List α) (ys : List β) :
    (x :: xs).mapM f = .ok ys ↔ ∃ y ys', f x = .ok y ∧ xs.mapM f = .ok ys' ∧ ys = y :: ys' := by
  rw [List.mapM_cons]
  constructor
  · intro h
    obtain ⟨y, hy, h⟩ := bind_eq_ok.mp h
    obtain ⟨ys', hys, h⟩ := bind_eq_ok.mp h
    exact ⟨y, ys', hy, hys, by simpa using h.symm⟩
  · rintro ⟨y, ys', hy, hys, rfl⟩
    simp [hy, hys]

/-- element lists: if every element round-trips, the list does. -/
theorem mapM_roundtrip {α β : Type} (f : α → Except Err β) (g : β → Except Err α) :
    ∀ (xs : List α) (ys : List β), (∀ x ∈ xs, ∀ y, f x = .ok y → g y = .ok x) →
      xs.mapM f = .ok ys → ys.mapM g = .ok xs
  | [], ys, _, h => by
    simp at h; subst h; rfl
  | x :: xs, ys, hx, h => by
    obtain ⟨y, ys', hy, hys, rfl⟩ := (mapM_cons_ok f x xs ys).mp h
    rw [mapM_cons_ok]
    exact ⟨x, xs, hx x (List.mem_cons_self) y hy,
      mapM_roundtrip f g xs ys' (fun x' hx' => hx x' (List.mem_cons_of_mem _ hx')) hys, rfl⟩

/-- element lists, elements decoded up to `c`. -/
theorem mapM_roundtrip_map {α β : Type} (f : α → Except Err β) (g : β → Except Err α) (c : α → α) :
    ∀ (xs : List α) (ys : List β), (∀ x ∈ xs, ∀ y, f x = .ok y → g y = .ok (c x)) →
      xs.mapM f = .ok ys → ys.mapM g = .ok (xs.map c)
  | [], ys, _, h => by
    simp at h; subst h; rfl
  | x :: xs, ys, hx, h => by
    obtain ⟨y, ys', hy, hys, rfl⟩ := (mapM_cons_ok f x xs ys).mp h
    rw [List.map_cons, mapM_cons_ok]
    exact ⟨c x, xs.map c, hx x (List.mem_cons_self) y hy,
      mapM_roundtrip_map f g c xs ys' (fun x' hx' => hx x' (List.mem_cons_of_mem _ hx')) hys, rfl⟩

/-! ## objects -/

theorem jlookup_append_left {k : String} {a b : List (String × Json)} (h : k ∉ keys b) :
    jlookup k (a ++ b) = jlookup k a := by
  induction a with
  | nil =>
    induction b with
    | nil => rfl
    | cons p b ih =>
      obtain ⟨k', j⟩ := p
      simp only [keys, List.map_cons, List.mem_cons, not_or] at h
      simp only [List.nil_append, jlookup] at ih ⊢
      rw [if_neg (fun e => h.1 e.symm)]
      exact ih h.2
  | cons p a ih =>
    obtain ⟨k', j⟩ := p
    simp only [List.cons_append, jlookup]
    split
    · rfl
    · exact ih

theorem jlookup_append_right {k : String} {a b : List (String × Json)} (h : k ∉ keys a) :
    jlookup k (a ++ b) = jlookup k b := by
  induction a with
  | nil => rfl
  | cons p a ih =>
    obtain ⟨k', j⟩ := p
    simp only [keys, List.map_cons, List.mem_cons, not_or] at h
    simp only [List.cons_append, jlookup]
    rw [if_neg (fun e => h.1 e.symm)]
    exact ih h.2

theorem jlookup_none_of_not_mem {k : String} {a : List (String × Json)} (h : k ∉ keys a) :
    jlookup k a = none := by
  have := jlookup_append_right (b := []) h
  simpa [jlookup] using this

theorem keys_append (a b : List (String × Json)) : keys (a ++ b) = keys a ++ keys b := by
  simp [keys]

theorem objSet_of_not_mem {ms : List (String × Json)} {k : String} (j : Json) (h : k ∉ keys ms) :
    objSet ms k j = ms ++ [(k, j)] := by
  induction ms with
  | nil => rfl
  | cons p ms ih =>
    obtain ⟨k', j'⟩ := p
    simp only [keys, List.map_cons, List.mem_cons, not_or] at h
    simp only [objSet, List.cons_append]
    rw [if_neg (fun e => h.1 e.symm)]
    rw [ih h.2]

theorem objSetAll_of_disjoint (acc ms : List (String × Json)) (hnd : (keys ms).Nodup)
    (hdis : ∀ k ∈ keys ms, k ∉ keys acc) : objSetAll acc ms = acc ++ ms := by
  induction ms generalizing acc with
  | nil => simp [objSetAll]
  | cons p ms ih =>
    obtain ⟨k, j⟩ := p
    simp only [keys, List.map_cons, List.nodup_cons] at hnd
    have hk : k ∉ keys acc := hdis k (by simp [keys])
    simp only [objSetAll, List.foldl_cons] at ih ⊢
    rw [objSet_of_not_mem j hk]
    rw [ih (acc ++ [(k, j)]) hnd.2]
    · simp
    · intro k' hk'
      rw [keys_append]
      simp only [keys, List.map_cons, List.map_nil, List.mem_append, List.mem_cons, List.not_mem_nil,
        or_false, not_or]
      refine ⟨hdis k' (by simp only [keys, List.map_cons, List.mem_cons]; exact Or.inr hk'), ?_⟩
      rintro rfl
      exact hnd.1 hk'

theorem nodupB_iff (l : List String) : nodupB l = true ↔ l.Nodup := by
  induction l with
  | nil => simp [nodupB]
  | cons k ks ih =>
    simp only [nodupB, Bool.and_eq_true, Bool.not_eq_eq_eq_not, Bool.not_true, List.contains_eq_mem,
      decide_eq_false_iff_not, List.nodup_cons, ih]

/-! ## byte arrays -/

theorem fit_eq {n : Nat} {bs : List UInt8} (h : bs.length = n) : fit n bs = bs := by
  unfold fit
  rw [List.take_append_of_le_length (by omega)]
  rw [List.take_of_length_le (by omega)]

theorem all_zero_eq_replicate (bs : List UInt8) (h : bs.all (· == 0) = true) :
    bs = zeroBytes bs.length := by
  induction bs with
  | nil => rfl
  | cons b bs ih =>
    simp only [List.all_cons, Bool.and_eq_true, beq_iff_eq] at h
    simp only [zeroBytes, List.length_cons, List.replicate_succ] at ih ⊢
    rw [h.1, ← ih h.2]

/-! ## numbers -/

theorem pow2_pos (w : Nat) : 0 < pow2 w := by
  unfold pow2
  exact Int.natCast_pos.mpr (Nat.pow_pos (by decide))

theorem cvt_eq {bits : Nat} {c : Int} (h1 : - pow2 (bits - 1) ≤ c) (h2 : c < pow2 (bits - 1)) :
    cvt bits c = c := by
  unfold cvt
  rw [if_pos ⟨h1, h2⟩]

theorem pow2_7 : pow2 7 = 128 := by decide
theorem pow2_8 : pow2 8 = 256 := by decide
theorem pow2_15 : pow2 15 = 32768 := by decide
theorem pow2_16 : pow2 16 = 65536 := by decide
theorem pow2_31 : pow2 31 = 2147483648 := by decide
theorem pow2_32 : pow2 32 = 4294967296 := by decide
theorem pow2_63 : pow2 63 = 9223372036854775808 := by decide

theorem wrapU_of_inU {w : Nat} (hw : w = 8 ∨ w = 16 ∨ w = 32) {n : Int} (h : inU w n = true) :
    wrapU w n = n := by
  simp only [inU, Bool.and_eq_true, decide_eq_true_eq] at h
  rcases hw with rfl | rfl | rfl
  · rw [pow2_8] at h
    have : cvt 32 n = n := cvt_eq (by rw [pow2_31]; omega) (by rw [pow2_31]; omega)
    simp only [wrapU, Nat.reduceEqDiff, if_false, this, pow2_8]
    omega
  · rw [pow2_16] at h
    have : cvt 32 n = n := cvt_eq (by rw [pow2_31]; omega) (by rw [pow2_31]; omega)
    simp only [wrapU, Nat.reduceEqDiff, if_false, this, pow2_16]
    omega
  · rw [pow2_32] at h
    have : cvt 64 n = n := cvt_eq (by rw [pow2_63]; omega) (by rw [pow2_63]; omega)
    simp only [wrapU, if_true, this, pow2_32]
    omega

theorem wrapS_of_inS {w : Nat} (hw : w = 8 ∨ w = 16 ∨ w = 32) {n : Int} (h : inS w n = true) :
    wrapS w n = n := by
  simp only [inS, Bool.and_eq_true, decide_eq_true_eq] at h
  rcases hw with rfl | rfl | rfl
  · rw [show 8 - 1 = 7 from rfl, pow2_7] at h
    have : cvt 32 n = n := cvt_eq (by rw [pow2_31]; omega) (by rw [pow2_31]; omega)
    simp only [wrapS, this, show 8 - 1 = 7 from rfl, pow2_7, pow2_8]
    omega
  · rw [show 16 - 1 = 15 from rfl, pow2_15] at h
    have : cvt 32 n = n := cvt_eq (by rw [pow2_31]; omega) (by rw [pow2_31]; omega)
    simp only [wrapS, this, show 16 - 1 = 15 from rfl, pow2_15, pow2_16]
    omega
  · rw [show 32 - 1 = 31 from rfl, pow2_31] at h
    have : cvt 32 n = n := cvt_eq (by rw [pow2_31]; omega) (by rw [pow2_31]; omega)
    simp only [wrapS, this, show 32 - 1 = 31 from rfl, pow2_31, pow2_32]
    omega

end Hive.SerixJson
