import Hive.Proofs.ReactiveInv1
import Hive.Proofs.ReactiveSpec
/-!
# Layer 2 of the C13 invariant: update ids, the initial phase, unsubscription, bracketing

* `lastUpdate ≤ uid`; a writer's id is `≤ uid` and larger than the `lastUpdate` of every callback it
  still has to notify — so the `updateID == lastUpdate` test of `LockExecution` never fires;
* while a subscriber is between registration and its initial delivery the callback's log is empty
  and it holds the execution lock; a callback that runs has finished its initial phase;
* `unsubscribed` implies "removed from the list"; `unsubRet` in the log implies `unsubscribed`;
  no `enter` follows an `unsubRet`;
* the log is well bracketed, and an invocation is open only while the execution lock is held.
-/
namespace Hive.Reactive
open Hive.Conc

variable {S N : Type}

structure SameObs (a b : Cb S N) : Prop where
  evs : a.evs = b.evs
  d : a.d = b.d
  iniDone : a.iniDone = b.iniDone
  unsub : a.unsub = b.unsub

/-- The subscriber has registered callback `c` and not yet started its initial delivery. -/
def isFresh {W : Type} (c : Nat) (t : Th W N) : Bool :=
  match t.pc with
  | .sReg c' | .sInit c' => c' == c
  | _ => false

theorem holdsE_of_isFresh {W : Type} (c : Nat) (t : Th W N) (h : isFresh c t = true) : holdsE c t = true := by
  unfold isFresh at h; unfold holdsE
  split at h <;> simp_all

structure Th2 (sh : Sh S N) {W : Type} (t : Th W N) : Prop where
  tidLe : tid t ≤ sh.uid
  lastLt : ∀ c ∈ todo t, (sh.cbs c).last < tid t
  fresh : ∀ c, isFresh c t = true →
    (sh.cbs c).evs = [] ∧ (sh.cbs c).d = 0 ∧ (sh.cbs c).iniDone = false ∧ (sh.cbs c).unsub = false
  runDone : ∀ c, runs c t = true → (sh.cbs c).iniDone = true
  runOpen : ∀ c, runs c t = true → scan (sh.cbs c).evs = some true
  markNL : ∀ c, marking c t = true → c ∉ sh.listed

structure Cb2 (sh : Sh S N) (c : Nat) : Prop where
  lastLe : (sh.cbs c).last ≤ sh.uid
  notDone : c < sh.ncb → (sh.cbs c).iniDone = false → (sh.cbs c).elock = true
  unsubNL : (sh.cbs c).unsub = true → c ∉ sh.listed
  retUnsub : hasUnsubRet (sh.cbs c).evs = true → (sh.cbs c).unsub = true
  nau : noneAfterUnsub (sh.cbs c).evs = true
  scanOk : ∃ b, scan (sh.cbs c).evs = some b ∧ (b = true → (sh.cbs c).elock = true)

structure Inv2 (o : Obj S N) (cfg : Cfg (Sh S N) (Th o.WOp N)) : Prop where
  cb : ∀ c, Cb2 cfg.1 c
  thr : ∀ t ∈ cfg.2, Th2 cfg.1 t

theorem th2_idle (sh : Sh S N) {W : Type} (sc : List (Op W)) : Th2 sh ({ pc := .idle, script := sc } : Th W N) := by
  constructor <;> simp [tid, todo, isFresh, runs, marking]

theorem inv2_init (o : Obj S N) (cfg : Cfg (Sh S N) (Th o.WOp N)) (h : Init o cfg) : Inv2 o cfg := by
  obtain ⟨sh, ts⟩ := cfg
  obtain ⟨rfl, hidle⟩ := h
  constructor
  · intro c
    constructor <;> simp [sh0, hasUnsubRet, noneAfterUnsub, scan]
  · intro t ht
    have := hidle t ht
    obtain ⟨pc, sc⟩ := t
    simp only at this; subst this
    exact th2_idle _ sc

/-- Frame: a thread's layer-2 facts survive a step of another thread that does not touch what they
speak about. -/
theorem th2_frame {sh sh' : Sh S N} {W : Type} {u : Th W N} (h : Th2 sh u) (huid : sh.uid ≤ sh'.uid)
    (hl : ∀ c, marking c u = true → c ∈ sh'.listed → c ∈ sh.listed)
    (hlast : ∀ c ∈ todo u, (sh'.cbs c).last = (sh.cbs c).last)
    (hobs : ∀ c, holdsE c u = true → SameObs (sh'.cbs c) (sh.cbs c)) : Th2 sh' u := by
  constructor
  · exact Nat.le_trans h.tidLe huid
  · intro c hc; rw [hlast c hc]; exact h.lastLt c hc
  · intro c hc
    have ho := hobs c (holdsE_of_isFresh c u hc)
    rw [ho.evs, ho.d, ho.iniDone, ho.unsub]; exact h.fresh c hc
  · intro c hc
    have ho := hobs c (holdsE_of_runs c u hc)
    rw [ho.iniDone]; exact h.runDone c hc
  · intro c hc
    have ho := hobs c (holdsE_of_runs c u hc)
    rw [ho.evs]; exact h.runOpen c hc
  · intro c hc hin; exact h.markNL c hc (hl c hc hin)

/-- Frame for steps that touch neither the callbacks' observable fields, nor the list. -/
theorem th2_same {sh sh' : Sh S N} {W : Type} {u : Th W N} (h : Th2 sh u) (huid : sh.uid ≤ sh'.uid)
    (hlisted : sh'.listed = sh.listed) (hlast : ∀ c, (sh'.cbs c).last = (sh.cbs c).last)
    (hobs : ∀ c, SameObs (sh'.cbs c) (sh.cbs c)) : Th2 sh' u :=
  th2_frame h huid (fun _ _ hin => hlisted ▸ hin) (fun c _ => hlast c) (fun c _ => hobs c)

/-- Frame for steps that rewrite one callback which the other thread neither holds nor waits for. -/
theorem th2_setCb {sh : Sh S N} {c0 : Nat} {x : Cb S N} {W : Type} {u : Th W N} (h : Th2 sh u)
    (hne : holdsE c0 u = false) (hlast : c0 ∈ todo u → x.last = (sh.cbs c0).last) : Th2 (setCb sh c0 x) u := by
  apply th2_frame (sh' := setCb sh c0 x) h (Nat.le_refl _) (fun _ _ hin => hin)
  · intro c hc
    simp only [setCb_cbs]
    split
    · next heq => subst heq; exact hlast hc
    · rfl
  · intro c hc
    simp only [setCb_cbs]
    split
    · next heq => subst heq; rw [hne] at hc; cases hc
    · exact ⟨rfl, rfl, rfl, rfl⟩

theorem cb2_setCb_ne {sh : Sh S N} {c c0 : Nat} {x : Cb S N} (h : Cb2 sh c) (hne : c ≠ c0) :
    Cb2 (setCb sh c0 x) c := by
  have : (setCb sh c0 x).cbs c = sh.cbs c := by simp [setCb_cbs, hne]
  constructor <;> simp only [this, setCb_uid, setCb_ncb, setCb_listed]
  · exact h.lastLe
  · exact h.notDone
  · exact h.unsubNL
  · exact h.retUnsub
  · exact h.nau
  · exact h.scanOk

/-- `LockExecution` skips only unsubscribed callbacks: the update-id test never fires. -/
theorem takes_false_unsub {cb : Cb S N} {id : Nat} (hlt : cb.last < id) (h : cb.takes id = false) :
    cb.unsub = true := by
  unfold Cb.takes at h
  cases hu : cb.unsub with
  | true => rfl
  | false =>
    simp [hu] at h
    omega

theorem takes_true_unsub {cb : Cb S N} {id : Nat} (h : cb.takes id = true) : cb.unsub = false := by
  unfold Cb.takes at h
  cases hu : cb.unsub with
  | false => rfl
  | true => simp [hu] at h

end Hive.Reactive

namespace Hive.Reactive
open Hive.Conc
variable {S N : Type}

theorem cb2_mono {sh sh' : Sh S N} {c : Nat} (h : Cb2 sh c) (huid : sh.uid ≤ sh'.uid) (hncb : sh'.ncb = sh.ncb)
    (hl : ∀ x, x ∈ sh'.listed → x ∈ sh.listed) (hlast : (sh'.cbs c).last = (sh.cbs c).last)
    (hel : (sh'.cbs c).elock = (sh.cbs c).elock) (hobs : SameObs (sh'.cbs c) (sh.cbs c)) : Cb2 sh' c := by
  constructor
  · rw [hlast]; exact Nat.le_trans h.lastLe huid
  · rw [hncb, hobs.iniDone, hel]; exact h.notDone
  · rw [hobs.unsub]; intro hu hin; exact h.unsubNL hu (hl c hin)
  · rw [hobs.evs, hobs.unsub]; exact h.retUnsub
  · rw [hobs.evs]; exact h.nau
  · rw [hobs.evs, hel]; exact h.scanOk

theorem elock_of_holds (o : Obj S N) {cfg : Cfg (Sh S N) (Th o.WOp N)} (h : Inv1 o cfg) {t : Th o.WOp N}
    (ht : t ∈ cfg.2) {c : Nat} (hh : holdsE c t = true) : (cfg.1.cbs c).elock = true := by
  have := h.hE c
  have hpos : 0 < cfg.2.countP (holdsE c) := List.countP_pos_iff.mpr ⟨t, ht, hh⟩
  cases he : (cfg.1.cbs c).elock with
  | true => rfl
  | false =>
    rw [he] at this
    have h0 : List.countP (holdsE c) cfg.2 = 0 := by simpa using this
    omega

end Hive.Reactive
