import Hive.Proofs.TimedTr
/-!
# What the API calls of the C18 model do to each field of the shared state
-/
namespace Hive.Timed

/-! ## identifier map -/

@[simp] theorem regGet_regDel_self (r : List (Nat × Nat)) (i : Nat) : regGet (regDel r i) i = none := by
  induction r with
  | nil => simp [regDel, regGet]
  | cons p r ih =>
    obtain ⟨j, x⟩ := p
    unfold regDel at *
    by_cases hj : j = i
    · simp [List.filter_cons, hj, ih]
    · simp [List.filter_cons, hj, regGet, ih]

theorem regGet_regDel_ne (r : List (Nat × Nat)) {i j : Nat} (h : j ≠ i) : regGet (regDel r i) j = regGet r j := by
  induction r with
  | nil => simp [regDel, regGet]
  | cons p r ih =>
    obtain ⟨k, x⟩ := p
    unfold regDel at *
    by_cases hk : k = i
    · subst hk
      have : ¬ k = j := fun hkj => h hkj.symm
      simp [List.filter_cons, regGet, this, ih]
    · by_cases hkj : k = j
      · subst hkj
        simp [List.filter_cons, hk, regGet]
      · simp [List.filter_cons, hk, regGet, hkj, ih]

theorem regGet_regDel_some {r : List (Nat × Nat)} {i j x : Nat} (h : regGet (regDel r i) j = some x) :
    j ≠ i ∧ regGet r j = some x := by
  by_cases hj : j = i
  · subst hj; simp at h
  · exact ⟨hj, by rw [regGet_regDel_ne r hj] at h; exact h⟩

@[simp] theorem regGet_regSet_self (r : List (Nat × Nat)) (i x : Nat) : regGet (regSet r i x) i = some x := by
  simp [regSet, regGet]

theorem regGet_regSet_ne (r : List (Nat × Nat)) {i j : Nat} (x : Nat) (h : j ≠ i) :
    regGet (regSet r i x) j = regGet r j := by
  have : ¬ i = j := fun hij => h hij.symm
  simp [regSet, regGet, this, regGet_regDel_ne r h]

/-! ## `signal`, `broadcast` touch only `wake` -/

section
variable (s : Sh)
@[simp] theorem signal_clock : (signal s).clock = s.clock := by unfold signal; split <;> rfl
@[simp] theorem signal_heap : (signal s).heap = s.heap := by unfold signal; split <;> rfl
@[simp] theorem signal_maxSize : (signal s).maxSize = s.maxSize := by unfold signal; split <;> rfl
@[simp] theorem signal_isShutdown : (signal s).isShutdown = s.isShutdown := by unfold signal; split <;> rfl
@[simp] theorem signal_flags : (signal s).flags = s.flags := by unfold signal; split <;> rfl
@[simp] theorem signal_ctxDone : (signal s).ctxDone = s.ctxDone := by unfold signal; split <;> rfl
@[simp] theorem signal_closed : (signal s).closed = s.closed := by unfold signal; split <;> rfl
@[simp] theorem signal_parked : (signal s).parked = s.parked := by unfold signal; split <;> rfl
@[simp] theorem signal_wg : (signal s).wg = s.wg := by unfold signal; split <;> rfl
@[simp] theorem signal_reg : (signal s).reg = s.reg := by unfold signal; split <;> rfl
@[simp] theorem signal_regLocked : (signal s).regLocked = s.regLocked := by unfold signal; split <;> rfl
@[simp] theorem signal_next : (signal s).next = s.next := by unfold signal; split <;> rfl
@[simp] theorem signal_released : (signal s).released = s.released := by unfold signal; split <;> rfl
@[simp] theorem signal_armed : (signal s).armed = s.armed := by unfold signal; split <;> rfl
@[simp] theorem signal_log : (signal s).log = s.log := by unfold signal; split <;> rfl
theorem signal_wake : (signal s).wake = if s.wake < s.parked then s.wake + 1 else s.wake := by
  unfold signal; split <;> rfl
end

/-! ## `cancelElem` -/

/-- What `cancelElem` does to the heap: nothing if no element with this serial is in it, else exactly
one element with this serial is taken out. -/
theorem cancelElem_heap (s : Sh) (x : Nat) :
    ((cancelElem s x).heap = s.heap ∧ ∀ e ∈ s.heap, e.serial ≠ x) ∨
    ∃ e, e.serial = x ∧ s.heap.Perm (e :: (cancelElem s x).heap) := by
  unfold cancelElem
  cases hi : Heap.indexOf s.heap x with
  | none => left; exact ⟨by simp, Heap.indexOf_none hi⟩
  | some i =>
    obtain ⟨e, he, hx⟩ := Heap.indexOf_some hi
    have hlt : i < s.heap.length := by
      rcases Nat.lt_or_ge i s.heap.length with h | h
      · exact h
      · simp [List.getElem?_eq_none h] at he
    have hsome := Heap.removeAt_isSome hlt
    cases hr : Heap.removeAt s.heap i with
    | none => simp [hr] at hsome
    | some r =>
      obtain ⟨e', h'⟩ := r
      obtain ⟨hget, hperm⟩ := Heap.removeAt_perm hr
      right
      rw [he] at hget
      cases hget
      exact ⟨e, hx, by simp only [hr]; exact hperm⟩

section
variable (s : Sh) (x : Nat)
@[simp] theorem cancelElem_clock : (cancelElem s x).clock = s.clock := rfl
@[simp] theorem cancelElem_maxSize : (cancelElem s x).maxSize = s.maxSize := rfl
@[simp] theorem cancelElem_isShutdown : (cancelElem s x).isShutdown = s.isShutdown := rfl
@[simp] theorem cancelElem_flags : (cancelElem s x).flags = s.flags := rfl
@[simp] theorem cancelElem_ctxDone : (cancelElem s x).ctxDone = s.ctxDone := rfl
@[simp] theorem cancelElem_parked : (cancelElem s x).parked = s.parked := rfl
@[simp] theorem cancelElem_wake : (cancelElem s x).wake = s.wake := rfl
@[simp] theorem cancelElem_wg : (cancelElem s x).wg = s.wg := rfl
@[simp] theorem cancelElem_reg : (cancelElem s x).reg = s.reg := rfl
@[simp] theorem cancelElem_regLocked : (cancelElem s x).regLocked = s.regLocked := rfl
@[simp] theorem cancelElem_next : (cancelElem s x).next = s.next := rfl
@[simp] theorem cancelElem_released : (cancelElem s x).released = s.released := rfl
@[simp] theorem cancelElem_armed : (cancelElem s x).armed = s.armed := rfl
@[simp] theorem cancelElem_log : (cancelElem s x).log = .cancelled x :: s.log := rfl
theorem cancelElem_closed_mem (y : Nat) : y ∈ (cancelElem s x).closed ↔ y = x ∨ y ∈ s.closed := by
  unfold cancelElem
  simp only
  split
  · constructor
    · intro h; exact Or.inr h
    · rintro (rfl | h)
      · assumption
      · exact h
  · simp
end

/-! ## `add` -/

/-- The element `Queue.Add` creates. -/
def newElem (s : Sh) (due : Nat) (id : Option Nat) (kind : Kind) (tag : Nat) : Elem :=
  { serial := s.next, due := due, id := id, kind := kind, tag := tag }

/-- `Queue.Add`: refused after shutdown; otherwise the new element goes in and, if the bound is
exceeded, one element (`d`) goes out and its cancel channel is closed. -/
theorem add_cases (s : Sh) (due : Nat) (id : Option Nat) (kind : Kind) (tag : Nat) :
    (s.isShutdown = true ∧ (add s due id kind tag).1 = s ∧ ∀ x, (add s due id kind tag).2 ≠ .ok x) ∨
    (s.isShutdown = false ∧ (add s due id kind tag).2 = .ok s.next ∧
      ∃ h2 new cl, (add s due id kind tag).1 =
          signal { s with next := s.next + 1, heap := h2, closed := cl,
                          log := new ++ Ev.sched s.next id due :: s.log } ∧
        ((new = [] ∧ cl = s.closed ∧ h2.Perm (newElem s due id kind tag :: s.heap)) ∨
         (∃ d, new = [.dropSize d.serial] ∧ cl = d.serial :: s.closed ∧
            (newElem s due id kind tag :: s.heap).Perm (d :: h2) ∧ 0 < s.maxSize))) := by
  unfold add
  cases hs : s.isShutdown with
  | true =>
    left
    refine ⟨rfl, by simp, ?_⟩
    intro x
    simp only [if_true]
    split <;> simp
  | false =>
    right
    refine ⟨rfl, ?_⟩
    simp only [Bool.false_eq_true, if_false]
    have hpush := Heap.push_perm s.heap (newElem s due id kind tag)
    split
    · rename_i hbound
      have hlt : (Heap.push s.heap (newElem s due id kind tag)).length - 1 <
          (Heap.push s.heap (newElem s due id kind tag)).length := by
        rw [Heap.length_push]; omega
      have hsome := Heap.removeAt_isSome hlt
      cases hr : Heap.removeAt (Heap.push s.heap (newElem s due id kind tag))
          ((Heap.push s.heap (newElem s due id kind tag)).length - 1) with
      | none => simp [hr] at hsome
      | some r =>
        obtain ⟨d, h2⟩ := r
        obtain ⟨_, hperm⟩ := Heap.removeAt_perm hr
        simp only [newElem] at hr
        simp only [hr]
        refine ⟨trivial, h2, [.dropSize d.serial], d.serial :: s.closed, rfl,
          Or.inr ⟨d, rfl, rfl, hpush.symm.trans hperm, hbound.1⟩⟩
    · exact ⟨rfl, _, [], s.closed, rfl, Or.inl ⟨rfl, rfl, hpush⟩⟩

/-! ## `sd1`, `sd3` -/

theorem sd1_some {s s' : Sh} {f : Flags} (h : sd1 s f = some s') :
    s.isShutdown = false ∧
    s' = { s with isShutdown := true, flags := s.flags.or f, log := .shutdown f.cancel f.ignore :: s.log } := by
  unfold sd1 at h
  split at h
  · simp at h
  · rename_i hs
    simp only [Option.some.injEq] at h
    exact ⟨by simpa using hs, h.symm⟩

theorem sd1_none {s : Sh} {f : Flags} (h : sd1 s f = none) : s.isShutdown = true := by
  unfold sd1 at h
  split at h
  · assumption
  · simp at h

end Hive.Timed
