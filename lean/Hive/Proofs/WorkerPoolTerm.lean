import Hive.Proofs.WorkerPoolLive2
/-!
# C16 — termination: in a reachable configuration where nobody can move, everything is done

(for the repaired code: no hypothesis about the schedule).
-/
set_option linter.unusedSimpArgs false
set_option linter.unusedVariables false
namespace Hive.WP
open Hive.Conc

/-- All invariants together. -/
structure FInv (p : Params) (c : Cfg St Thr) : Prop where
  g : GInv p c
  l : LInv p c.1
  t : TI p c
  o : OS c
  r : Thr.runner ∈ c.2

theorem finv_init (p : Params) (ts : List Thr) (h : ∀ t ∈ ts, t.fresh = true) (hr : Thr.runner ∈ ts) :
    FInv p (St.init, ts) :=
  ⟨ginv_init p ts h, linv_init p, ti_init p ts h, os_init ts h, hr⟩

theorem finv_step (p : Params) (hW : 0 < p.W) (a b : Cfg St Thr) (h : FInv p a) (hs : Step (sys p) a b) : FInv p b := by
  refine ⟨ginv_step p a b h.g hs, ?_, ti_step p a b h.g.st h.l h.t hs, os_step p a b h.g.st h.o hs, ?_⟩
  · cases hs with
    | mk s pre t post s' t' hmem =>
      cases t with
      | runner =>
        simp only [sys, List.mem_map] at hmem
        obtain ⟨s'', hs'', heq⟩ := hmem
        cases heq
        exact linv_runnerStep h.l h.g.st.cons hs''
      | client c =>
        simp only [sys, List.mem_map] at hmem
        obtain ⟨r, hr, heq⟩ := hmem
        cases heq
        exact linv_clientStep h.l hW (fun j hp => (h.t.hl _ (by simp) c j rfl hp).2) hr
  · cases hs with
    | mk s pre t post s' t' hmem =>
      have hr := h.r
      simp only [List.mem_append, List.mem_cons] at hr ⊢
      rcases hr with hr | hr | hr
      · exact Or.inl hr
      · subst hr
        simp only [sys, List.mem_map] at hmem
        obtain ⟨_, _, heq⟩ := hmem
        cases heq; exact Or.inr (Or.inl rfl)
      · exact Or.inr (Or.inr hr)

theorem finv_reach (p : Params) (hW : 0 < p.W) (ts : List Thr) (h : ∀ t ∈ ts, t.fresh = true) (hr : Thr.runner ∈ ts)
    (c : Cfg St Thr) (hreach : Reach (sys p) (St.init, ts) c) : FInv p c :=
  inv_induction (FInv p) (finv_init p ts h hr) (finv_step p hW) hreach

/-- A `Submit` whose task has not returned can move unless it waits for the pool lock or the stack mutex. -/
theorem submit_enabled {p : Params} {s : St} {t : Nat} (hu : unret s t = true) (hw : s.writer = false)
    (hsh : s.stackHeld = false) : submitStep p s t ≠ [] := by
  unfold unret unretL rets at hu
  unfold submitStep
  cases ht : s.tasks[t]? with
  | none => simp [ht] at hu
  | some x =>
    obtain ⟨ph, ret, kids⟩ := x
    simp [ht] at hu
    subst hu
    simp only [Bool.false_eq_true, if_false, hw, hsh]
    cases ph <;> simp
    split <;> simp



/-- What a worker that cannot move looks like. -/
theorem worker_stuck {p : Params} {s : St} {w : WPc} (hL : LInv p s) (hw : w ∈ s.workers)
    (hsub : ∀ c, w.subs c = true → submitStep p s c ≠ []) (hsh : s.stackHeld = false) (h : wStep p s w = []) :
    w = .exited ∨ ((w = .sel2 ∧ s.sig = 0 ∨ w = .drain) ∧ chanIds s = [] ∧ s.closed = false) := by
  cases w with
  | exited => exact Or.inl rfl
  | sel => simp only [wStep] at h; split at h <;> simp at h
  | sel2 =>
    right
    simp only [wStep, List.append_eq_nil_iff, List.map_eq_nil_iff] at h
    obtain ⟨⟨h1, h2⟩, h3⟩ := h
    have hs : s.sig = 0 := by
      rcases Nat.eq_zero_or_pos s.sig with z | z
      · exact z
      · rw [if_pos z] at h1; simp at h1
    refine ⟨Or.inl ⟨rfl, hs⟩, h2, ?_⟩
    cases hc : s.closed with
    | false => rfl
    | true => rw [if_pos ⟨hc, h2⟩] at h3; simp at h3
  | drain =>
    right
    simp only [wStep, List.append_eq_nil_iff, List.map_eq_nil_iff] at h
    obtain ⟨h2, h3⟩ := h
    refine ⟨Or.inr rfl, h2, ?_⟩
    cases hc : s.closed with
    | false => rfl
    | true => rw [if_pos ⟨hc, h2⟩] at h3; simp at h3
  | run t todo sub dr =>
    exfalso
    simp only [wStep] at h
    cases sub with
    | some c =>
      simp only [List.map_eq_nil_iff] at h
      exact hsub c (by simp [WPc.subs]) h
    | none =>
      cases todo with
      | cons b rest => simp at h
      | nil =>
        simp only at h
        have hcnt : 0 < s.workers.countP (WPc.runs t) := List.countP_pos_iff.mpr ⟨_, hw, by simp [WPc.runs]⟩
        have := hL.oe1 t
        have hph : phL s.tasks t Phase.isRunning = true := by
          cases hh : phL s.tasks t Phase.isRunning with
          | true => rfl
          | false => rw [hh] at this; simp only [b2n_false] at this; omega
        have : phaseOf s t = some .running := by
          unfold phL at hph; unfold phaseOf
          cases ht : s.tasks[t]? with
          | none => simp [ht] at hph
          | some x => obtain ⟨ph, r, k⟩ := x; simp [ht] at hph ⊢; cases ph <;> simp [Phase.isRunning] at hph ⊢
        rw [if_pos this] at h; simp at h
  | mark t dr =>
    exfalso
    simp only [wStep] at h
    have hcnt : 0 < s.workers.countP (WPc.marks t) := List.countP_pos_iff.mpr ⟨_, hw, by simp [WPc.marks]⟩
    have := hL.oe2 t
    have hph : phL s.tasks t Phase.isMarking = true := by
      cases hh : phL s.tasks t Phase.isMarking with
      | true => rfl
      | false => rw [hh] at this; simp only [b2n_false] at this; omega
    unfold phL at hph; unfold phaseOf at h
    cases ht : s.tasks[t]? with
    | none => simp [ht] at hph
    | some x =>
      obtain ⟨ph, r, k⟩ := x
      simp [ht] at hph h
      cases ph <;> simp [Phase.isMarking] at hph <;> simp at h
  | signal dr => simp [wStep, hsh] at h

/-- What a client that cannot move looks like, when neither the pool lock nor the stack mutex is held. -/
theorem client_stuck {p : Params} {s : St} {c : Client} (hw : s.writer = false) (hsh : s.stackHeld = false)
    (hloc : c.pc.locked = false) (hsub : ∀ t, c.pc = .sub t → unret s t = true) (h : clientStep p s c = []) :
    (c.pc = .idle ∧ c.script = []) ∨ ((c.pc = .wc ∨ c.pc = .stWait) ∧ wg s ≠ 0) ∨ (c.pc = .wz ∧ s.pending ≠ 0) ∨
      (∃ n, c.pc = .waSleep n) := by
  obtain ⟨pc, script⟩ := c
  cases pc <;> simp [CPc.locked] at hloc
  case idle =>
    simp only [clientStep] at h
    cases script with
    | nil => exact Or.inl ⟨rfl, rfl⟩
    | cons op rest => cases op <;> simp at h
  case sub t =>
    simp only [clientStep, List.map_eq_nil_iff] at h
    exact absurd h (submit_enabled (hsub t rfl) hw hsh)
  case sd1 => simp [clientStep, hw] at h; split at h <;> simp at h
  case sdBcast => simp [clientStep, hsh] at h
  case stTry =>
    simp [clientStep, hw] at h
    split at h
    · simp at h
    · split at h <;> simp at h
  case stWait =>
    simp only [clientStep] at h
    by_cases hz : wg s = 0
    · rw [if_pos hz] at h; simp at h
    · exact Or.inr (Or.inl ⟨Or.inr rfl, hz⟩)
  case wc =>
    simp only [clientStep] at h
    by_cases hz : wg s = 0
    · rw [if_pos hz] at h; simp at h
    · exact Or.inr (Or.inl ⟨Or.inl rfl, hz⟩)
  case wz =>
    simp only [clientStep] at h
    by_cases hz : s.pending = 0
    · rw [if_pos hz] at h; simp at h
    · exact Or.inr (Or.inr (Or.inl ⟨rfl, hz⟩))
  case wa n =>
    simp only [clientStep] at h
    rw [if_neg (by simp [hsh])] at h
    split at h <;> simp at h
  case waSleep n => exact Or.inr (Or.inr (Or.inr ⟨n, rfl⟩))

/-- Facts extracted from "nobody can move". -/
structure StuckFacts (p : Params) (s : St) (ts : List Thr) : Prop where
  disp : dispStep p s = []
  wk : ∀ w ∈ s.workers, wStep p s w = []
  cl : ∀ cl, Thr.client cl ∈ ts → clientStep p s cl = []

theorem stuck_facts {p : Params} {s : St} {ts : List Thr} (hr : Thr.runner ∈ ts) (h : Stuck (sys p) (s, ts)) :
    StuckFacts p s ts := by
  have hR : runnerStep p s = [] := by
    have := h .runner hr
    simpa [sys] using this
  unfold runnerStep at hR
  rw [List.append_eq_nil_iff] at hR
  refine ⟨hR.1, ?_, ?_⟩
  · intro w hw
    obtain ⟨i, hi, rfl⟩ := List.mem_iff_getElem.mp hw
    have := List.flatMap_eq_nil_iff.mp hR.2 i (by simp [hi])
    simpa [List.getElem?_eq_getElem hi] using this
  · intro cl hcl
    have := h _ hcl
    simpa [sys] using this

theorem no_sel_of_stuck {p : Params} {s : St} (h : ∀ w ∈ s.workers, wStep p s w = []) :
    s.workers.countP WPc.isSel = 0 := by
  rw [List.countP_eq_zero]
  intro w hw
  have := h w hw
  cases w <;> simp [WPc.isSel]
  simp only [wStep] at this; split at this <;> simp at this

/-- Step A: the pool lock is free. -/
theorem stuck_writer {p : Params} {s : St} {ts : List Thr} (F : FInv p (s, ts)) (S : StuckFacts p s ts) :
    s.writer = false := by
  cases hw : s.writer with
  | false => rfl
  | true =>
    exfalso
    have h1 : 0 < ts.countP Thr.locked := by have := F.t.w1; simp only [hw, b2n_true] at this; omega
    obtain ⟨t, ht, hl⟩ := List.countP_pos_iff.mp h1
    cases t with
    | runner => simp [Thr.locked] at hl
    | client cl =>
      have hs := S.cl cl ht
      obtain ⟨pc, sc⟩ := cl
      cases pc <;> simp [Thr.locked, CPc.locked] at hl
      case sdSend j =>
        obtain ⟨hsent, _⟩ := F.t.hl _ ht _ j rfl rfl
        simp only at hsent
        simp only [clientStep] at hs
        by_cases hj : j < p.W
        · rw [if_pos hj] at hs
          by_cases hsg : s.sig < p.W
          · rw [if_pos hsg] at hs; simp at hs
          · have n1 : s.sig ≤ s.sent + s.workers.countP WPc.isSel := F.l.n1
            rw [no_sel_of_stuck S.wk, hsent] at n1
            omega
        · rw [if_neg hj] at hs; simp at hs
      case sdUnlockS => simp [clientStep] at hs
      case sdUnlockN => simp [clientStep] at hs

/-- Step B: the stack mutex is free. -/
theorem stuck_stack {p : Params} {s : St} {ts : List Thr} (F : FInv p (s, ts)) (S : StuckFacts p s ts)
    (hw : s.writer = false) : s.stackHeld = false := by
  cases hh : s.stackHeld with
  | false => rfl
  | true =>
    exfalso
    have hd := S.disp
    have h1 : s.stackHeld = true ↔ (s.disp = .cond ∨ s.disp = .cond2 ∨ s.disp = .gap) := F.l.h1
    rcases h1.mp hh with a | a | a
    · simp only [dispStep, a, hw] at hd; simp at hd
    · simp only [dispStep, a] at hd; split at hd <;> simp at hd
    · simp only [dispStep, a] at hd; simp at hd

/-- Steps C/D: every worker is parked or gone, every client is done or waits for a counter. -/
theorem stuck_threads {p : Params} {s : St} {ts : List Thr} (F : FInv p (s, ts)) (S : StuckFacts p s ts)
    (hw : s.writer = false) (hsh : s.stackHeld = false) :
    (∀ w ∈ s.workers, w = .exited ∨ ((w = .sel2 ∧ s.sig = 0 ∨ w = .drain) ∧ chanIds s = [] ∧ s.closed = false)) ∧
    (∀ cl, Thr.client cl ∈ ts →
      (cl.pc = .idle ∧ cl.script = []) ∨ ((cl.pc = .wc ∨ cl.pc = .stWait) ∧ wg s ≠ 0) ∨ (cl.pc = .wz ∧ s.pending ≠ 0) ∨
      (∃ n, cl.pc = .waSleep n)) ∧
    (∀ tid, unret s tid = false) := by
  have hO : ∀ tid, ts.countP (Thr.subs tid) + s.workers.countP (WPc.subs tid) = b2n (unret s tid) := F.o
  have unret_of_pos : ∀ tid, 0 < ts.countP (Thr.subs tid) + s.workers.countP (WPc.subs tid) → unret s tid = true := by
    intro tid h
    cases hu : unret s tid with
    | true => rfl
    | false => have := hO tid; rw [hu] at this; simp only [b2n_false] at this; omega
  have hWk : ∀ w ∈ s.workers, w = .exited ∨ ((w = .sel2 ∧ s.sig = 0 ∨ w = .drain) ∧ chanIds s = [] ∧ s.closed = false) := by
    intro w hwm
    refine worker_stuck F.l hwm ?_ hsh (S.wk w hwm)
    intro c hc
    have : 0 < s.workers.countP (WPc.subs c) := List.countP_pos_iff.mpr ⟨w, hwm, hc⟩
    exact submit_enabled (unret_of_pos c (by omega)) hw hsh
  have hloc : ∀ cl, Thr.client cl ∈ ts → cl.pc.locked = false := by
    intro cl hcl
    cases hl : cl.pc.locked with
    | false => rfl
    | true =>
      have : 0 < ts.countP Thr.locked := List.countP_pos_iff.mpr ⟨_, hcl, by simp [Thr.locked, hl]⟩
      have w1 : b2n s.writer = ts.countP Thr.locked := F.t.w1
      rw [hw] at w1; simp only [b2n_false] at w1; omega
  have hCl : ∀ cl, Thr.client cl ∈ ts →
      (cl.pc = .idle ∧ cl.script = []) ∨ ((cl.pc = .wc ∨ cl.pc = .stWait) ∧ wg s ≠ 0) ∨ (cl.pc = .wz ∧ s.pending ≠ 0) ∨
      (∃ n, cl.pc = .waSleep n) := by
    intro cl hcl
    refine client_stuck hw hsh (hloc cl hcl) ?_ (S.cl cl hcl)
    intro t hp
    have : 0 < ts.countP (Thr.subs t) :=
      List.countP_pos_iff.mpr ⟨_, hcl, by obtain ⟨pc, sc⟩ := cl; simp at hp; subst hp; simp [Thr.subs]⟩
    exact unret_of_pos t (by omega)
  refine ⟨hWk, hCl, ?_⟩
  intro tid
  cases hu : unret s tid with
  | false => rfl
  | true =>
    exfalso
    have h1 := hO tid
    rw [hu] at h1; simp only [b2n_true] at h1
    have : 0 < ts.countP (Thr.subs tid) ∨ 0 < s.workers.countP (WPc.subs tid) := by omega
    rcases this with h2 | h2
    · obtain ⟨t, ht, hs⟩ := List.countP_pos_iff.mp h2
      cases t with
      | runner => simp [Thr.subs] at hs
      | client cl =>
        obtain ⟨pc, sc⟩ := cl
        rcases hCl _ ht with a | a | a | a
        · simp at a; rw [a.1] at hs; simp [Thr.subs] at hs
        · rcases a.1 with b | b <;> (simp at b; rw [b] at hs; simp [Thr.subs] at hs)
        · simp at a; rw [a.1] at hs; simp [Thr.subs] at hs
        · obtain ⟨n, a⟩ := a; simp at a; rw [a] at hs; simp [Thr.subs] at hs
    · obtain ⟨w, hwm, hs⟩ := List.countP_pos_iff.mp h2
      rcases hWk w hwm with a | a
      · subst a; simp [WPc.subs] at hs
      · rcases a.1 with b | b
        · rw [b.1] at hs; simp [WPc.subs] at hs
        · rw [b] at hs; simp [WPc.subs] at hs



/-- With all workers parked, every `Submit` returned, nothing in the dispatcher's hand and an empty
channel, the only pending tasks are the queued ones. -/
theorem pend_eq_queued {p : Params} {s : St} (L : LInv p s)
    (hWk : ∀ w ∈ s.workers, w = .exited ∨ ((w = .sel2 ∧ s.sig = 0 ∨ w = .drain) ∧ chanIds s = [] ∧ s.closed = false))
    (hret : ∀ tid, unret s tid = false) (hns : s.disp.isSend = false) (hch : s.tasks.countP fCh = 0) :
    cnt fPend s = s.tasks.countP fQ := by
  unfold cnt
  apply List.countP_congr
  intro x hx
  obtain ⟨i, hi, rfl⟩ := List.mem_iff_getElem.mp hx
  have hget : s.tasks[i]? = some s.tasks[i] := List.getElem?_eq_getElem hi
  generalize s.tasks[i] = x at hget
  obtain ⟨ph, r, k⟩ := x
  -- returned
  have hr : r = true := by
    have := hret i
    simp [unret, unretL, rets, hget] at this; exact this
  subst hr
  have hnr : ∀ t, s.workers.countP (WPc.runs t) = 0 := by
    intro t; rw [List.countP_eq_zero]; intro w hw
    rcases hWk w hw with a | a
    · subst a; simp [WPc.runs]
    · rcases a.1 with b | b
      · rw [b.1]; simp [WPc.runs]
      · rw [b]; simp [WPc.runs]
  have hnm : ∀ t, s.workers.countP (WPc.marks t) = 0 := by
    intro t; rw [List.countP_eq_zero]; intro w hw
    rcases hWk w hw with a | a
    · subst a; simp [WPc.marks]
    · rcases a.1 with b | b
      · rw [b.1]; simp [WPc.marks]
      · rw [b]; simp [WPc.marks]
  have e1 := L.oe1 i; rw [hnr i, phL_get _ _ _ hget] at e1
  have e2 := L.oe2 i; rw [hnm i, phL_get _ _ _ hget] at e2
  have e3 : fER ⟨ph, true, k⟩ = false := by
    have := L.p1; rw [List.countP_eq_zero] at this
    have := this _ (List.mem_of_getElem? hget); simpa using this
  have e4 : fPop ⟨ph, true, k⟩ = false := by
    have := L.od2; rw [hns] at this; simp only [b2n_false] at this
    rw [List.countP_eq_zero] at this
    have := this _ (List.mem_of_getElem? hget); simpa using this
  have e5 : fCh ⟨ph, true, k⟩ = false := by
    rw [List.countP_eq_zero] at hch
    have := hch _ (List.mem_of_getElem? hget); simpa using this
  cases ph <;> simp [fPend, fQ, Phase.pending, Phase.isQ, fER, fPop, fCh, Phase.isEarly, Phase.isPop, Phase.isCh,
    Phase.isRunning, Phase.isMarking, b2n] at e1 e2 e3 e4 e5 ⊢

theorem popOrCond_ne (s : St) : popOrCond s ≠ [] := by
  unfold popOrCond
  split
  · simp
  · rename_i h; intro e; simp at e; exact h e

/-- **Core of the termination theorem.**  In a configuration satisfying all invariants: if nobody can
move, then the counter is zero, every client call has returned except waits for the completion of a
shutdown of a pool that is running (again), and a stopped pool has no live goroutine. -/
theorem stuck_good {p : Params} {s : St} {ts : List Thr} (hW : 0 < p.W) (F : FInv p (s, ts))
    (hst : Stuck (sys p) (s, ts)) :
    s.pending = 0 ∧
    (∀ t ∈ ts, t.finished = true ∨ (t.atWaitComplete = true ∧ s.running = true) ∨ t.atQueueWait = true) ∧
    (s.running = false → wg s = 0) := by
  have S := stuck_facts F.r hst
  have hw := stuck_writer F S
  have hsh := stuck_stack F S hw
  obtain ⟨hWk, hCl, hret⟩ := stuck_threads F S hw hsh
  have L : LInv p s := F.l
  have hcons : s.pending = cnt fPend s := F.g.st.cons
  -- nobody owes a signal to the queue: such a thread could move
  have hdue : s.due = 0 := by
    have du : s.due = ts.countP Thr.bc + s.workers.countP WPc.isSignal := F.t.du
    have a : ts.countP Thr.bc = 0 := by
      rw [List.countP_eq_zero]; intro t ht
      cases t with
      | runner => simp [Thr.bc]
      | client cl =>
        obtain ⟨pc, sc⟩ := cl
        have hloc : CPc.locked pc = false := by
          cases hl : CPc.locked pc with
          | false => rfl
          | true =>
            have : 0 < ts.countP Thr.locked := List.countP_pos_iff.mpr ⟨_, ht, by simp [Thr.locked, hl]⟩
            have w1 : b2n s.writer = ts.countP Thr.locked := F.t.w1
            rw [hw] at w1; simp only [b2n_false] at w1; omega
        rcases hCl _ ht with x | x | x | x
        · simp at x; rw [x.1]; simp [Thr.bc, CPc.bc]
        · rcases x.1 with y | y <;> (simp at y; rw [y]; simp [Thr.bc, CPc.bc])
        · simp at x; rw [x.1]; simp [Thr.bc, CPc.bc]
        · obtain ⟨n, x⟩ := x; simp at x; rw [x]; simp [Thr.bc, CPc.bc]
    have b : s.workers.countP WPc.isSignal = 0 := by
      rw [List.countP_eq_zero]; intro w hwm
      rcases hWk w hwm with x | x
      · subst x; simp [WPc.isSignal]
      · rcases x.1 with y | y
        · rw [y.1]; simp [WPc.isSignal]
        · rw [y]; simp [WPc.isSignal]
    omega
  have parked : ∀ w ∈ s.workers, w.isExited = false → chanIds s = [] ∧ s.closed = false := by
    intro w hwm he
    rcases hWk w hwm with a | a
    · subst a; simp [WPc.isExited] at he
    · exact a.2
  -- the dispatcher
  have hd := S.disp
  have hdisp : s.disp = .none ∨ (s.disp = .waiting ∧ s.dwait = true) := by
    cases hdd : s.disp with
    | none => exact Or.inl rfl
    | loop => simp [dispStep, hdd, hw] at hd
    | chk => simp [dispStep, hdd] at hd
    | pop => simp [dispStep, hdd, hsh] at hd; exact absurd hd (popOrCond_ne s)
    | cond => simp [dispStep, hdd, hw] at hd
    | cond2 => simp only [dispStep, hdd] at hd; split at hd <;> simp at hd
    | gap => simp [dispStep, hdd] at hd
    | waiting =>
      right
      refine ⟨rfl, ?_⟩
      cases hdw : s.dwait with
      | true => rfl
      | false => simp [dispStep, hdd, hsh, hdw] at hd; exact absurd hd (popOrCond_ne s)
    | send t =>
      exfalso
      have hpop : phaseOf s t = some .popped := by
        have := L.od1 t hdd
        unfold phL at this; unfold phaseOf
        cases ht : s.tasks[t]? with
        | none => simp [ht] at this
        | some x => obtain ⟨ph, r, k⟩ := x; simp [ht] at this ⊢; cases ph <;> simp [Phase.isPop] at this ⊢
      have hnc : s.closed = false := L.d1 (by simp [hdd])
      have hlen : s.workers.length = p.W := by
        rcases L.wl with a | a
        · exact a
        · rw [hdd] at a; simp at a
      have hne : s.workers ≠ [] := by intro e; rw [e] at hlen; simp at hlen; omega
      obtain ⟨w, hwm⟩ := List.exists_mem_of_ne_nil _ hne
      have hch := (parked w hwm (L.d3 hnc w hwm)).1
      simp [dispStep, hdd, hch, hW, hnc, hpop] at hd
    | close => simp [dispStep, hdd] at hd
  have hns : s.disp.isSend = false := by
    rcases hdisp with a | a
    · rw [a]; rfl
    · rw [a.1]; rfl
  have hch : s.tasks.countP fCh = 0 := by
    by_cases hex : ∃ w ∈ s.workers, w.isExited = false
    · obtain ⟨w, hwm, he⟩ := hex
      exact (chan_nil s).mp (parked w hwm he).1
    · have hall : ∀ w ∈ s.workers, w.isExited = true := by
        intro w hwm
        cases he : w.isExited with
        | true => rfl
        | false => exact absurd ⟨w, hwm, he⟩ hex
      have hdn : s.disp = .none := by
        rcases L.wl with a | a
        · by_cases hne : s.workers = []
          · rw [hne] at a; simp at a; omega
          · obtain ⟨w, hwm⟩ := List.exists_mem_of_ne_nil _ hne
            have hcl : s.closed = true := by
              cases hc : s.closed with
              | true => rfl
              | false => have := L.d3 hc w hwm; rw [hall w hwm] at this; cases this
            cases hdd : s.disp with
            | none => rfl
            | _ => have := L.d1 (by simp [hdd]); rw [hcl] at this; cases this
        · exact a.2.1
      exact L.d5 (Or.inr hdn)
  have hpq : s.pending = s.tasks.countP fQ := by rw [hcons]; exact pend_eq_queued L hWk hret hns hch
  have fin : (wg s = 0 ∨ s.running = true) → s.pending = 0 → ∀ t ∈ ts,
      t.finished = true ∨ (t.atWaitComplete = true ∧ s.running = true) ∨ t.atQueueWait = true := by
    intro hwg hp0 t ht
    cases t with
    | runner => exact Or.inl rfl
    | client cl =>
      obtain ⟨pc, sc⟩ := cl
      rcases hCl _ ht with a | a | a | a
      · simp at a; obtain ⟨a1, a2⟩ := a; subst a1; subst a2; exact Or.inl rfl
      · rcases hwg with z | z
        · exact absurd z a.2
        · right; left; rcases a.1 with b | b <;> (simp at b; subst b; exact ⟨rfl, z⟩)
      · exact absurd hp0 a.2
      · obtain ⟨n, a⟩ := a; simp at a; subst a; exact Or.inr (Or.inr rfl)
  rcases hdisp with hdn | hdw
  · -- no dispatcher: the pool is stopped and everybody has left
    have hnr : s.running = false := by
      cases hr : s.running with
      | false => rfl
      | true => exact absurd hdn (L.d8 hr)
    have hp0 : s.pending = 0 := L.pz (Or.inr hdn) hnr
    have hwg : wg s = 0 := by
      unfold wg
      rw [List.countP_eq_zero]
      intro w hwm
      rcases L.d9 hdn with a | a
      · rw [a] at hwm; simp at hwm
      · rcases hWk w hwm with b | b
        · subst b; simp [WPc.isExited]
        · rw [a] at b; simp at b
    exact ⟨hp0, fin (Or.inl hwg) hp0, fun _ => hwg⟩
  · -- the dispatcher sleeps on an empty queue: the pool is running and idle
    have hq : s.tasks.countP fQ = 0 := L.q1 (Or.inr (Or.inr (Or.inr hdw)))
    have hp0 : s.pending = 0 := by omega
    have hrun : s.running = true := by
      rcases L.lw (Or.inr hdw) with a | a | a
      · exact a
      · omega
      · omega
    exact ⟨hp0, fin (Or.inr hrun) hp0, fun h => by rw [hrun] at h; cases h⟩

/-- When `ShutdownComplete` is at zero there is no dispatcher and the dispatch channel is empty: `Start`'s
spawn never overwrites a live dispatcher or inherits channel content. -/
theorem spawn_clean {p : Params} {s : St} (L : LInv p s) (hW : 0 < p.W) (hz : wg s = 0) :
    s.disp = .none ∧ chanIds s = [] := by
  have hall := all_exited_of_wg hz
  have hdn : s.disp = .none := by
    rcases L.wl with wl | wl
    · have hne : s.workers ≠ [] := by intro e; rw [e] at wl; simp at wl; omega
      obtain ⟨w, hw⟩ := List.exists_mem_of_ne_nil _ hne
      have he := hall w hw
      have hcl : s.closed = true := by
        cases hc : s.closed with
        | true => rfl
        | false => have := L.d3 hc w hw; rw [he] at this; cases this
      cases hd : s.disp with
      | none => rfl
      | _ => have := L.d1 (by simp [hd]); rw [hcl] at this; cases this
    · exact wl.2.1
  exact ⟨hdn, (chan_nil s).mpr (L.d5 (Or.inr hdn))⟩

end Hive.WP
