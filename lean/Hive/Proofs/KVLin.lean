import Hive.Model.KVLin
/-!
# Soundness of the history checker: an accepted history is linearizable
-/
namespace Hive.KV.Lin
open Hive.KV.Conc

/-- A recorded history (operation `i` = `ops[i]`) is linearizable w.r.t. the ordered-map contract:
there is an enumeration `w` of all its operations, each exactly once, such that an operation placed
before another was invoked before the other returned (real-time order is respected), and the
sequential specification executed in this order gives exactly the recorded answers. -/
def Linearizable (ops : Array HOp) : Prop :=
  ∃ w : List Nat, w.length = ops.size ∧ (∀ i ∈ w, i < ops.size) ∧ w.Nodup ∧
    (w.map (pick ops)).Pairwise (fun a b => a.inv < b.ret) ∧ runSeq seqInit (w.map (pick ops)) = true

theorem nodupB_sound : ∀ (w : List Nat), nodupB w = true → w.Nodup
  | [], _ => List.nodup_nil
  | x :: xs, h => by
    simp only [nodupB, Bool.and_eq_true, Bool.not_eq_true', List.contains_eq_mem, decide_eq_false_iff_not] at h
    exact List.nodup_cons.mpr ⟨h.1, nodupB_sound xs h.2⟩

theorem realTimeFrom_sound : ∀ (l : List HOp) (b : Nat), realTimeFrom b l = true →
    (∀ o ∈ l, b ≤ o.ret) ∧ l.Pairwise (fun a c => a.inv < c.ret)
  | [], _, _ => ⟨by simp, List.Pairwise.nil⟩
  | o :: rest, b, h => by
    simp only [realTimeFrom, Bool.and_eq_true, decide_eq_true_eq] at h
    obtain ⟨h1, h2⟩ := realTimeFrom_sound rest (max b (o.inv + 1)) h.2
    refine ⟨?_, List.pairwise_cons.mpr ⟨?_, h2⟩⟩
    · intro x hx
      rcases List.mem_cons.mp hx with rfl | hx
      · exact h.1
      · have := h1 x hx; omega
    · intro x hx
      have := h1 x hx; omega

theorem validate_sound (ops : Array HOp) (w : List Nat) (h : validate ops w = true) : Linearizable ops := by
  simp only [validate, Bool.and_eq_true, beq_iff_eq, List.all_eq_true, decide_eq_true_eq] at h
  obtain ⟨⟨⟨⟨h1, h2⟩, h3⟩, h4⟩, h5⟩ := h
  exact ⟨w, h1, h2, nodupB_sound w h3, (realTimeFrom_sound _ 0 h4).2, h5⟩

/-- **Soundness of the checker**: whatever the (unverified) search proposes, a history is accepted
only if it is linearizable. -/
theorem decideHist_sound (h : List HOp) (budget : Nat) (hacc : decideHist h budget = .accept) :
    Linearizable h.toArray := by
  unfold decideHist at hacc
  split at hacc
  · cases hacc
  · simp only at hacc
    split at hacc
    · split at hacc
      · rename_i hv; exact validate_sound _ _ hv
      · cases hacc
    · split at hacc <;> cases hacc

end Hive.KV.Lin
