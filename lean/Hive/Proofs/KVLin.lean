import Hive.Model.KVLin
/-!
# Soundness of the history checker: an accepted history is linearizable
-/
namespace Hive.KV.Lin
open Hive.KV.Conc

/-- A recorded history (operation `i` = `ops[i]`) is linearizable w.r.t. the ordered-map contract:
there is an enumeration `w` of all its operations, each exactly once, such that an operation placed
before another was invoked before the other returned (real-time order is respected), and the
sequential specification executed in this order gives exactly the recorded answers. -/
def Linearizable (ops : Array HOp) : Prop :=
  ∃ w : List Nat, w.Perm (List.range ops.size) ∧
    (w.map (pick ops)).Pairwise (fun a b => a.inv < b.ret) ∧ runSeq seqInit (w.map (pick ops)) = true

theorem realTimeFrom_sound : ∀ (l : List HOp) (b : Nat), realTimeFrom b l = true →
    (∀ o ∈ l, b ≤ o.ret) ∧ l.Pairwise (fun a c => a.inv < c.ret)
  | [], _, _ => ⟨by simp, List.Pairwise.nil⟩
  | o :: rest, b, h => by
    simp only [realTimeFrom, Bool.and_eq_true, decide_eq_true_eq] at h
    obtain ⟨h1, h2⟩ := realTimeFrom_sound rest (max b (o.inv + 1)) h.2
    refine ⟨?_, List.pairwise_cons.mpr ⟨?_, h2⟩⟩
    · intro x hx
      rcases List.mem_cons.mp hx with rfl | hx
      · exact h.1
      · have := h1 x hx; omega
    · intro x hx
      have := h1 x hx; omega

theorem realTimeFrom_complete : ∀ (l : List HOp) (b : Nat), (∀ o ∈ l, b ≤ o.ret) →
    l.Pairwise (fun a c => a.inv < c.ret) → realTimeFrom b l = true
  | [], _, _, _ => rfl
  | o :: rest, b, hb, hp => by
    rw [List.pairwise_cons] at hp
    simp only [realTimeFrom, Bool.and_eq_true, decide_eq_true_eq]
    refine ⟨hb o (List.mem_cons_self ..), realTimeFrom_complete rest _ ?_ hp.2⟩
    intro x hx
    have h1 := hb x (List.mem_cons_of_mem _ hx)
    have h2 := hp.1 x hx
    omega

/-- The validator decides exactly "`w` is a linearisation". -/
theorem validate_iff (ops : Array HOp) (w : List Nat) :
    validate ops w = true ↔ w.Perm (List.range ops.size) ∧
      (w.map (pick ops)).Pairwise (fun a b => a.inv < b.ret) ∧ runSeq seqInit (w.map (pick ops)) = true := by
  simp only [validate, Bool.and_eq_true, List.isPerm_iff]
  constructor
  · rintro ⟨⟨h1, h2⟩, h3⟩
    exact ⟨h1, (realTimeFrom_sound _ 0 h2).2, h3⟩
  · rintro ⟨h1, h2, h3⟩
    exact ⟨⟨h1, realTimeFrom_complete _ 0 (fun _ _ => Nat.zero_le _) h2⟩, h3⟩

theorem validate_sound (ops : Array HOp) (w : List Nat) (h : validate ops w = true) : Linearizable ops :=
  ⟨w, (validate_iff ops w).mp h⟩

/-- **Soundness of the checker**: a history is accepted only if it is linearizable. -/
theorem decideHist_sound (h : List HOp) (budget : Option Nat) (hacc : decideHist h budget = .accept) :
    Linearizable h.toArray := by
  unfold decideHist at hacc
  simp only at hacc
  split at hacc
  · cases hacc
  · split at hacc
    · split at hacc
      · rename_i hv; exact validate_sound _ _ hv
      · cases hacc
    · cases hacc
    · cases hacc

end Hive.KV.Lin
