import Hive.Model.AdsTrie
/-!
# The sparse Merkle trie has a canonical shape

`NF n pre t`: `t` is a well-formed subtrie below the path prefix `pre` of a trie with paths of `n`
bits — every leaf carries a full path that starts with `pre`, every inner node has at least two
leaves below it (so a lone leaf always sits as high as possible).  `insert` and `delete` preserve
`NF`, implement a plain map on paths, and two `NF` tries with the same contents are *equal*.
-/
namespace Hive.Ads.SMT

/-- `q` starts with `pre`. -/
def Agree (pre : List Bool) (q : Path) : Prop := ∃ s, q = pre ++ s

inductive NF (n : Nat) : List Bool → E → Prop
  | nil (pre : List Bool) : NF n pre .nil
  | leaf (pre : List Bool) (q : Path) (w : Val) : q.length = n → Agree pre q → NF n pre (.leaf q w)
  | inner (pre : List Bool) (l r : E) : pre.length < n → NF n (pre ++ [false]) l → NF n (pre ++ [true]) r →
      2 ≤ l.count + r.count → NF n pre (.inner l r)

/-! ## bits and prefixes -/

theorem bit_append (pre : List Bool) (a : Bool) (s : List Bool) : bit (pre ++ a :: s) pre.length = a := by
  simp [bit, List.getD]

theorem agree_of_snoc {pre : List Bool} {b : Bool} {q : Path} (h : Agree (pre ++ [b]) q) :
    Agree pre q ∧ bit q pre.length = b := by
  obtain ⟨s, rfl⟩ := h
  refine ⟨⟨b :: s, by simp⟩, ?_⟩
  rw [List.append_assoc]; exact bit_append pre b s

theorem agree_snoc_of {pre : List Bool} {q : Path} (h : Agree pre q) (hl : pre.length < q.length) :
    Agree (pre ++ [bit q pre.length]) q := by
  obtain ⟨s, rfl⟩ := h
  cases s with
  | nil => simp at hl
  | cons a s => exact ⟨s, by rw [bit_append]; simp⟩

/-! ## counting leaves -/

theorem nf_count_zero {n : Nat} {pre : List Bool} {t : E} (h : NF n pre t) (hc : t.count = 0) : t = .nil := by
  cases h with
  | nil => rfl
  | leaf => simp [E.count] at hc
  | inner _ _ _ _ _ _ h2 => simp only [E.count] at hc; omega

theorem nf_count_one {n : Nat} {pre : List Bool} {t : E} (h : NF n pre t) (hc : t.count = 1) :
    ∃ q w, t = .leaf q w := by
  cases h with
  | nil => simp [E.count] at hc
  | leaf _ q w => exact ⟨q, w, rfl⟩
  | inner _ _ _ _ _ _ h2 => simp only [E.count] at hc; omega

theorem count_collapse (l r : E) : (collapse l r).count = l.count + r.count := by
  unfold collapse
  split <;> simp [E.count]

theorem count_fork_ge (lp lq : E) (as bs : List Bool) : lp.count ≤ (fork lp lq as bs).count := by
  induction as generalizing bs with
  | nil => simp [fork]
  | cons a as ih =>
    cases bs with
    | nil => simp [fork]
    | cons b bs =>
      simp only [fork]
      by_cases hab : a = b
      · subst hab
        cases a <;> simp [E.count] <;> exact ih bs
      · cases a <;> simp [hab, E.count] <;> omega

theorem count_insert_ge (t : E) (d : Nat) (p : Path) (v : Val) : t.count ≤ (t.insert d p v).count := by
  induction t generalizing d with
  | nil => simp [E.insert, E.count]
  | leaf q w =>
    simp only [E.insert]
    by_cases h : q = p
    · simp [h, E.count]
    · simp only [h, if_false]
      exact count_fork_ge (.leaf p v) (.leaf q w) _ _
  | inner l r ihl ihr =>
    simp only [E.insert]
    cases bit p d
    · simp only [Bool.false_eq_true, if_false, E.count]; have := ihl (d + 1); omega
    · simp only [if_true, E.count]; have := ihr (d + 1); omega

theorem count_delete (t : E) (d : Nat) (p : Path) :
    (t.delete d p).count ≤ t.count ∧ t.count ≤ (t.delete d p).count + 1 := by
  induction t generalizing d with
  | nil => simp [E.delete, E.count]
  | leaf q w =>
    simp only [E.delete]
    by_cases h : q = p <;> simp [h, E.count]
  | inner l r ihl ihr =>
    simp only [E.delete]
    cases bit p d
    · simp only [Bool.false_eq_true, if_false, count_collapse, E.count]; have := ihl (d + 1); omega
    · simp only [if_true, count_collapse, E.count]; have := ihr (d + 1); omega

/-! ## Get below a prefix -/

theorem get_none_of_not_agree {n : Nat} {pre : List Bool} {t : E} (h : NF n pre t) (p : Path)
    (hp : ¬ Agree pre p) : t.get pre.length p = none := by
  induction h with
  | nil => rfl
  | leaf pre q w _ ha =>
    simp only [E.get]
    by_cases e : q = p
    · exact absurd (e ▸ ha) hp
    · simp [e]
  | inner pre l r _ _ _ _ ihl ihr =>
    simp only [E.get]
    cases hb : bit p pre.length
    · have := ihl (fun ha => hp (agree_of_snoc ha).1)
      simpa using this
    · have := ihr (fun ha => hp (agree_of_snoc ha).1)
      simpa using this

theorem exists_get_of_count_pos {n : Nat} {pre : List Bool} {t : E} (h : NF n pre t) (hc : 0 < t.count) :
    ∃ p, Agree pre p ∧ (t.get pre.length p).isSome = true := by
  induction h with
  | nil => simp [E.count] at hc
  | leaf pre q w _ ha => exact ⟨q, ha, by simp [E.get]⟩
  | inner pre l r _ _ _ h2 ihl ihr =>
    by_cases hl : 0 < l.count
    · obtain ⟨p, ha, hg⟩ := ihl hl
      obtain ⟨ha', hb⟩ := agree_of_snoc ha
      refine ⟨p, ha', ?_⟩
      simp only [E.get, hb, Bool.false_eq_true, if_false]
      simpa using hg
    · have hr : 0 < r.count := by omega
      obtain ⟨p, ha, hg⟩ := ihr hr
      obtain ⟨ha', hb⟩ := agree_of_snoc ha
      refine ⟨p, ha', ?_⟩
      simp only [E.get, hb, if_true]
      simpa using hg

theorem exists_two_of_count_ge {n : Nat} {pre : List Bool} {t : E} (h : NF n pre t) (hc : 2 ≤ t.count) :
    ∃ p₁ p₂, p₁ ≠ p₂ ∧ (t.get pre.length p₁).isSome = true ∧ (t.get pre.length p₂).isSome = true := by
  induction h with
  | nil => simp [E.count] at hc
  | leaf => simp [E.count] at hc
  | inner pre l r _ hnl hnr h2 ihl ihr =>
    by_cases hl : l.count = 0
    · have hr : 2 ≤ r.count := by omega
      obtain ⟨p₁, p₂, hne, h₁, h₂⟩ := ihr hr
      have key : ∀ p, (r.get (pre ++ [true]).length p).isSome = true →
          ((E.inner l r).get pre.length p).isSome = true := by
        intro p hp
        have ha : Agree (pre ++ [true]) p := by
          apply Classical.byContradiction
          intro hna
          rw [get_none_of_not_agree hnr p hna] at hp
          simp at hp
        simp only [E.get, (agree_of_snoc ha).2, if_true]
        simpa using hp
      exact ⟨p₁, p₂, hne, key p₁ h₁, key p₂ h₂⟩
    · by_cases hr : r.count = 0
      · have hl2 : 2 ≤ l.count := by omega
        obtain ⟨p₁, p₂, hne, h₁, h₂⟩ := ihl hl2
        have key : ∀ p, (l.get (pre ++ [false]).length p).isSome = true →
            ((E.inner l r).get pre.length p).isSome = true := by
          intro p hp
          have ha : Agree (pre ++ [false]) p := by
            apply Classical.byContradiction
            intro hna
            rw [get_none_of_not_agree hnl p hna] at hp
            simp at hp
          simp only [E.get, (agree_of_snoc ha).2, Bool.false_eq_true, if_false]
          simpa using hp
        exact ⟨p₁, p₂, hne, key p₁ h₁, key p₂ h₂⟩
      · obtain ⟨p₁, ha₁, hg₁⟩ := exists_get_of_count_pos hnl (by omega)
        obtain ⟨p₂, ha₂, hg₂⟩ := exists_get_of_count_pos hnr (by omega)
        have hb₁ := (agree_of_snoc ha₁).2
        have hb₂ := (agree_of_snoc ha₂).2
        refine ⟨p₁, p₂, ?_, ?_, ?_⟩
        · intro e; rw [e, hb₂] at hb₁; cases hb₁
        · simp only [E.get, hb₁, Bool.false_eq_true, if_false]; simpa using hg₁
        · simp only [E.get, hb₂, if_true]; simpa using hg₂

/-! ## canonical shape -/

/-- Two well-formed subtries below the same prefix with the same contents are equal. -/
theorem nf_ext {n : Nat} {pre : List Bool} {t₁ t₂ : E} (h₁ : NF n pre t₁) (h₂ : NF n pre t₂)
    (hget : ∀ p, t₁.get pre.length p = t₂.get pre.length p) : t₁ = t₂ := by
  induction h₁ generalizing t₂ with
  | nil pre =>
    cases h₂ with
    | nil => rfl
    | leaf _ q w _ _ => have := hget q; simp [E.get] at this
    | inner _ l r hlt hl hr h2 =>
      obtain ⟨p, _, hp⟩ := exists_get_of_count_pos (NF.inner pre l r hlt hl hr h2) (by simp only [E.count]; omega)
      rw [← hget p] at hp; simp [E.get] at hp
  | leaf pre q w hq ha =>
    cases h₂ with
    | nil => have := hget q; simp [E.get] at this
    | leaf _ q' w' _ _ =>
      have := hget q
      simp only [E.get, if_true] at this
      by_cases e : q' = q
      · subst e; simp at this; rw [this]
      · simp [e] at this
    | inner _ l r hlt hl hr h2 =>
      obtain ⟨p₁, p₂, hne, hp₁, hp₂⟩ :=
        exists_two_of_count_ge (NF.inner pre l r hlt hl hr h2) (by simp only [E.count]; omega)
      rw [← hget p₁] at hp₁
      rw [← hget p₂] at hp₂
      simp only [E.get] at hp₁ hp₂
      by_cases e₁ : q = p₁
      · by_cases e₂ : q = p₂
        · exact absurd (e₁.symm.trans e₂) hne
        · simp [e₂] at hp₂
      · simp [e₁] at hp₁
  | inner pre l r hlt hl hr h2 ihl ihr =>
    cases h₂ with
    | nil =>
      obtain ⟨p, _, hp⟩ := exists_get_of_count_pos (NF.inner pre l r hlt hl hr h2) (by simp only [E.count]; omega)
      rw [hget p] at hp; simp [E.get] at hp
    | leaf _ q w _ _ =>
      obtain ⟨p₁, p₂, hne, hp₁, hp₂⟩ :=
        exists_two_of_count_ge (NF.inner pre l r hlt hl hr h2) (by simp only [E.count]; omega)
      rw [hget p₁] at hp₁
      rw [hget p₂] at hp₂
      simp only [E.get] at hp₁ hp₂
      by_cases e₁ : q = p₁
      · by_cases e₂ : q = p₂
        · exact absurd (e₁.symm.trans e₂) hne
        · simp [e₂] at hp₂
      · simp [e₁] at hp₁
    | inner _ l' r' _ hl' hr' _ =>
      have hL : l = l' := by
        apply ihl hl'
        intro p
        by_cases ha : Agree (pre ++ [false]) p
        · have := hget p
          simp only [E.get, (agree_of_snoc ha).2, Bool.false_eq_true, if_false] at this
          simpa using this
        · rw [get_none_of_not_agree hl p ha, get_none_of_not_agree hl' p ha]
      have hR : r = r' := by
        apply ihr hr'
        intro p
        by_cases ha : Agree (pre ++ [true]) p
        · have := hget p
          simp only [E.get, (agree_of_snoc ha).2, if_true] at this
          simpa using this
        · rw [get_none_of_not_agree hr p ha, get_none_of_not_agree hr' p ha]
      rw [hL, hR]

/-! ## fork -/

theorem fork_spec (n : Nat) (p q : Path) (v w : Val) (hpl : p.length = n) (hql : q.length = n)
    (pre as bs : List Bool) (hp : p = pre ++ as) (hq : q = pre ++ bs) (hne : as ≠ bs) :
    NF n pre (fork (.leaf p v) (.leaf q w) as bs) ∧ (fork (.leaf p v) (.leaf q w) as bs).count = 2 ∧
    ∀ p', (fork (.leaf p v) (.leaf q w) as bs).get pre.length p' =
      if p = p' then some v else if q = p' then some w else none := by
  induction as generalizing pre bs with
  | nil =>
    have e1 : p.length = pre.length + 0 := by rw [hp]; simp
    have e2 : q.length = pre.length + bs.length := by rw [hq]; simp
    cases bs with
    | nil => exact absurd rfl hne
    | cons _ _ => simp at e2; omega
  | cons a as ih =>
    cases bs with
    | nil =>
      have e1 : p.length = pre.length + (as.length + 1) := by rw [hp]; simp
      have e2 : q.length = pre.length + 0 := by rw [hq]; simp
      omega
    | cons b bs =>
      have hbp : bit p pre.length = a := by rw [hp]; exact bit_append pre a as
      have hbq : bit q pre.length = b := by rw [hq]; exact bit_append pre b bs
      have hlt : pre.length < n := by rw [← hpl, hp]; simp
      by_cases hab : a = b
      · subst hab
        have hne' : as ≠ bs := fun e => hne (by rw [e])
        obtain ⟨hnf, hcnt, hget⟩ := ih (pre ++ [a]) bs (by rw [hp]; simp) (by rw [hq]; simp) hne'
        have hlen : (pre ++ [a]).length = pre.length + 1 := by simp
        cases a with
        | true =>
          simp only [fork, if_true]
          refine ⟨NF.inner pre _ _ hlt (NF.nil _) hnf (by simp only [E.count]; omega), by simp [E.count, hcnt], ?_⟩
          intro p'
          simp only [E.get]
          cases hb' : bit p' pre.length
          · have h1 : p ≠ p' := fun e => by rw [e, hb'] at hbp; cases hbp
            have h2 : q ≠ p' := fun e => by rw [e, hb'] at hbq; cases hbq
            simp [h1, h2]
          · have := hget p'
            rw [hlen] at this
            simpa using this
        | false =>
          simp only [fork, if_true, Bool.false_eq_true, if_false]
          refine ⟨NF.inner pre _ _ hlt hnf (NF.nil _) (by simp only [E.count]; omega), by simp [E.count, hcnt], ?_⟩
          intro p'
          simp only [E.get]
          cases hb' : bit p' pre.length
          · have := hget p'
            rw [hlen] at this
            simpa using this
          · have h1 : p ≠ p' := fun e => by rw [e, hb'] at hbp; cases hbp
            have h2 : q ≠ p' := fun e => by rw [e, hb'] at hbq; cases hbq
            simp [h1, h2]
      · have hap : Agree (pre ++ [a]) p := ⟨as, by rw [hp]; simp⟩
        have haq : Agree (pre ++ [b]) q := ⟨bs, by rw [hq]; simp⟩
        cases a with
        | true =>
          have hb : b = false := by cases b <;> simp_all
          subst hb
          simp only [fork, Bool.true_eq_false, if_false, if_true]
          refine ⟨NF.inner pre _ _ hlt (NF.leaf _ q w hql haq) (NF.leaf _ p v hpl hap) (Nat.le_refl 2), rfl, ?_⟩
          intro p'
          simp only [E.get]
          cases hb' : bit p' pre.length
          · have h1 : p ≠ p' := fun e => by rw [e, hb'] at hbp; cases hbp
            simp [h1]
          · have h2 : q ≠ p' := fun e => by rw [e, hb'] at hbq; cases hbq
            simp [h2]
        | false =>
          have hb : b = true := by cases b <;> simp_all
          subst hb
          simp only [fork, Bool.false_eq_true, if_false]
          refine ⟨NF.inner pre _ _ hlt (NF.leaf _ p v hpl hap) (NF.leaf _ q w hql haq) (Nat.le_refl 2), rfl, ?_⟩
          intro p'
          simp only [E.get]
          cases hb' : bit p' pre.length
          · have h2 : q ≠ p' := fun e => by rw [e, hb'] at hbq; cases hbq
            simp [h2]
          · have h1 : p ≠ p' := fun e => by rw [e, hb'] at hbp; cases hbp
            simp [h1]

/-! ## update -/

theorem insert_spec {n : Nat} {pre : List Bool} {t : E} (h : NF n pre t) (p : Path) (v : Val)
    (hp : Agree pre p) (hl : p.length = n) :
    NF n pre (t.insert pre.length p v) ∧
    ∀ p', (t.insert pre.length p v).get pre.length p' = if p = p' then some v else t.get pre.length p' := by
  induction h with
  | nil pre => exact ⟨NF.leaf pre p v hl hp, fun p' => by simp [E.insert, E.get]⟩
  | leaf pre q w hq ha =>
    simp only [E.insert]
    by_cases e : q = p
    · subst e
      refine ⟨by simpa using NF.leaf pre q v hl hp, fun p' => ?_⟩
      by_cases e' : q = p' <;> simp [E.get, e']
    · obtain ⟨as, hpa⟩ := hp
      obtain ⟨bs, hqb⟩ := ha
      have hne : as ≠ bs := fun e' => e (by rw [hpa, hqb, e'])
      have hd1 : p.drop pre.length = as := by rw [hpa]; simp
      have hd2 : q.drop pre.length = bs := by rw [hqb]; simp
      obtain ⟨hnf, _, hget⟩ := fork_spec n p q v w hl hq pre as bs hpa hqb hne
      simp only [e, if_false, hd1, hd2]
      refine ⟨hnf, fun p' => ?_⟩
      rw [hget p']; simp [E.get]
  | inner pre l r hlt hnl hnr h2 ihl ihr =>
    have hap := agree_snoc_of hp (by omega)
    simp only [E.insert]
    cases hb : bit p pre.length
    · rw [hb] at hap
      obtain ⟨hnf, hget⟩ := ihl hap
      have hlen : (pre ++ [false]).length = pre.length + 1 := by simp
      rw [hlen] at hnf hget
      simp only [Bool.false_eq_true, if_false]
      refine ⟨NF.inner pre _ r hlt hnf hnr ?_, fun p' => ?_⟩
      · have := count_insert_ge l (pre.length + 1) p v; omega
      · simp only [E.get]
        cases hb' : bit p' pre.length
        · simpa using hget p'
        · have : p ≠ p' := fun e => by rw [e, hb'] at hb; cases hb
          simp [this]
    · rw [hb] at hap
      obtain ⟨hnf, hget⟩ := ihr hap
      have hlen : (pre ++ [true]).length = pre.length + 1 := by simp
      rw [hlen] at hnf hget
      simp only [if_true]
      refine ⟨NF.inner pre l _ hlt hnl hnf ?_, fun p' => ?_⟩
      · have := count_insert_ge r (pre.length + 1) p v; omega
      · simp only [E.get]
        cases hb' : bit p' pre.length
        · have : p ≠ p' := fun e => by rw [e, hb'] at hb; cases hb
          simp [this]
        · simpa using hget p'

/-! ## delete -/

theorem collapse_of_count_ge (l r : E) (h : 2 ≤ l.count + r.count) : collapse l r = .inner l r := by
  unfold collapse
  split
  · simp [E.count] at h
  · simp [E.count] at h
  · rfl

theorem get_collapse {n : Nat} {pre : List Bool} {l r : E} (hl : NF n (pre ++ [false]) l)
    (hr : NF n (pre ++ [true]) r) (p' : Path) :
    (collapse l r).get pre.length p' = (E.inner l r).get pre.length p' := by
  unfold collapse
  split
  · rename_i q w
    cases hr with
    | leaf _ _ _ _ ha =>
      have hb := (agree_of_snoc ha).2
      simp only [E.get]
      cases hb' : bit p' pre.length
      · have : q ≠ p' := fun e => by rw [e, hb'] at hb; cases hb
        simp [this]
      · simp
  · rename_i q w
    cases hl with
    | leaf _ _ _ _ ha =>
      have hb := (agree_of_snoc ha).2
      simp only [E.get]
      cases hb' : bit p' pre.length
      · simp
      · have : q ≠ p' := fun e => by rw [e, hb'] at hb; cases hb
        simp [this]
  · rfl

theorem nf_collapse {n : Nat} {pre : List Bool} {l r : E} (hlt : pre.length < n)
    (hl : NF n (pre ++ [false]) l) (hr : NF n (pre ++ [true]) r) (hc : 1 ≤ l.count + r.count) :
    NF n pre (collapse l r) := by
  by_cases h2 : 2 ≤ l.count + r.count
  · rw [collapse_of_count_ge l r h2]; exact NF.inner pre l r hlt hl hr h2
  · by_cases hl0 : l.count = 0
    · have hl' := nf_count_zero hl hl0
      obtain ⟨q, w, hr'⟩ := nf_count_one hr (by omega)
      subst hl' hr'
      cases hr with
      | leaf _ _ _ hq ha => exact NF.leaf pre q w hq (agree_of_snoc ha).1
    · have hr' := nf_count_zero hr (by omega)
      obtain ⟨q, w, hl'⟩ := nf_count_one hl (by omega)
      subst hl' hr'
      cases hl with
      | leaf _ _ _ hq ha => exact NF.leaf pre q w hq (agree_of_snoc ha).1

theorem delete_spec {n : Nat} {pre : List Bool} {t : E} (h : NF n pre t) (p : Path) :
    NF n pre (t.delete pre.length p) ∧
    ∀ p', (t.delete pre.length p).get pre.length p' = if p = p' then none else t.get pre.length p' := by
  induction h with
  | nil pre => exact ⟨NF.nil pre, fun p' => by simp [E.delete, E.get]⟩
  | leaf pre q w hq ha =>
    simp only [E.delete]
    by_cases e : q = p
    · subst e
      refine ⟨by simpa using NF.nil pre, fun p' => ?_⟩
      by_cases e' : q = p' <;> simp [E.get, e']
    · simp only [e, if_false]
      refine ⟨NF.leaf pre q w hq ha, fun p' => ?_⟩
      by_cases e' : p = p'
      · subst e'; simp [E.get, e]
      · simp [e']
  | inner pre l r hlt hnl hnr h2 ihl ihr =>
    simp only [E.delete]
    have hlenF : (pre ++ [false]).length = pre.length + 1 := by simp
    have hlenT : (pre ++ [true]).length = pre.length + 1 := by simp
    cases hb : bit p pre.length
    · obtain ⟨hnf, hget⟩ := ihl
      rw [hlenF] at hnf hget
      simp only [Bool.false_eq_true, if_false]
      have hcnt := count_delete l (pre.length + 1) p
      refine ⟨nf_collapse hlt hnf hnr (by omega), fun p' => ?_⟩
      rw [get_collapse hnf hnr]
      simp only [E.get]
      cases hb' : bit p' pre.length
      · simpa using hget p'
      · have : p ≠ p' := fun e => by rw [e, hb'] at hb; cases hb
        simp [this]
    · obtain ⟨hnf, hget⟩ := ihr
      rw [hlenT] at hnf hget
      simp only [if_true]
      have hcnt := count_delete r (pre.length + 1) p
      refine ⟨nf_collapse hlt hnl hnf (by omega), fun p' => ?_⟩
      rw [get_collapse hnl hnf]
      simp only [E.get]
      cases hb' : bit p' pre.length
      · have : p ≠ p' := fun e => by rw [e, hb'] at hb; cases hb
        simp [this]
      · simpa using hget p'

/-! ## histories -/

/-- The plain map on paths. -/
def specApply (m : Path → Option Val) : TOp → (Path → Option Val)
  | .put p v => fun p' => if p = p' then some v else m p'
  | .del p => fun p' => if p = p' then none else m p'

def specRun (ops : List TOp) : Path → Option Val := ops.foldl specApply (fun _ => none)

theorem applyOp_spec {n : Nat} {t : E} (h : NF n [] t) (op : TOp) (hw : op.path.length = n) :
    NF n [] (applyOp t op) ∧ (applyOp t op).fn = specApply t.fn op := by
  cases op with
  | put p v =>
    obtain ⟨h1, h2⟩ := insert_spec h p v ⟨p, rfl⟩ hw
    exact ⟨h1, funext h2⟩
  | del p =>
    obtain ⟨h1, h2⟩ := delete_spec h p
    exact ⟨h1, funext h2⟩

theorem foldl_applyOp_spec {n : Nat} (ops : List TOp) (hw : ∀ op ∈ ops, op.path.length = n) {t : E}
    (h : NF n [] t) :
    NF n [] (ops.foldl applyOp t) ∧ (ops.foldl applyOp t).fn = ops.foldl specApply t.fn := by
  induction ops generalizing t with
  | nil => exact ⟨h, rfl⟩
  | cons op ops ih =>
    obtain ⟨h1, h2⟩ := applyOp_spec h op (hw op (by simp))
    have := ih (fun o ho => hw o (List.mem_cons_of_mem _ ho)) h1
    simp only [List.foldl_cons]
    rw [← h2]; exact this

theorem runOps_spec {n : Nat} (ops : List TOp) (hw : ∀ op ∈ ops, op.path.length = n) :
    NF n [] (runOps ops) ∧ (runOps ops).fn = specRun ops :=
  foldl_applyOp_spec ops hw (NF.nil [])

/-! ## collision-free hashing -/

/-- The idealisation of SHA-256 over the node encodings: distinct nodes have distinct digests. -/
structure CollisionFree {H : Type} (h : Hash H) : Prop where
  leaf_inj : ∀ p v p' v', h.leaf p v = h.leaf p' v' → p = p' ∧ v = v'
  node_inj : ∀ a b a' b', h.node a b = h.node a' b' → a = a' ∧ b = b'
  leaf_ne_node : ∀ p v a b, h.leaf p v ≠ h.node a b
  zero_ne_leaf : ∀ p v, h.zero ≠ h.leaf p v
  zero_ne_node : ∀ a b, h.zero ≠ h.node a b

theorem digest_inj {H : Type} {h : Hash H} (cf : CollisionFree h) (t₁ t₂ : E)
    (e : t₁.digest h = t₂.digest h) : t₁ = t₂ := by
  induction t₁ generalizing t₂ with
  | nil =>
    cases t₂ with
    | nil => rfl
    | leaf q w => exact absurd e (cf.zero_ne_leaf q w)
    | inner l r => exact absurd e (cf.zero_ne_node _ _)
  | leaf p v =>
    cases t₂ with
    | nil => exact absurd e.symm (cf.zero_ne_leaf p v)
    | leaf q w => obtain ⟨h1, h2⟩ := cf.leaf_inj p v q w e; rw [h1, h2]
    | inner l r => exact absurd e (cf.leaf_ne_node _ _ _ _)
  | inner l r ihl ihr =>
    cases t₂ with
    | nil => exact absurd e.symm (cf.zero_ne_node _ _)
    | leaf q w => exact absurd e.symm (cf.leaf_ne_node _ _ _ _)
    | inner l' r' =>
      obtain ⟨h1, h2⟩ := cf.node_inj _ _ _ _ e
      rw [ihl l' h1, ihr r' h2]

/-- The free hash: digests are the tries themselves. -/
def freeHash : Hash E := { zero := .nil, leaf := .leaf, node := .inner }

theorem freeHash_collisionFree : CollisionFree freeHash := by
  constructor <;> simp [freeHash]

end Hive.Ads.SMT
