import Hive.Proofs.DaemonMain
/-! `Run` (repaired): it waits, under the lock, until the counter of running workers is zero.  The counter
equals the number of objects that were started and have not been cleaned up; hence at every `runret` no
worker is live. -/
namespace Hive.Daemon
open Hive.Conc

/-! ## steps other than `Run`'s return append no `runret` -/

def Quiet (s s' : St) : Prop := ∃ es, s'.tr = s.tr ++ es ∧ ∀ e, e ∈ es → ∀ c, e ≠ Ev.runret c

theorem quiet_same {s s' : St} (h : s'.tr = s.tr) : Quiet s s' := ⟨[], by simp [h], by simp⟩

theorem quiet_one {s s' : St} (e : Ev) (h : s'.tr = s.tr ++ [e]) (hne : ∀ c, e ≠ Ev.runret c) : Quiet s s' :=
  ⟨[e], h, by intro e' he'; simp at he'; subst he'; exact hne⟩

theorem quiet_trans {a b c : St} (h1 : Quiet a b) (h2 : Quiet b c) : Quiet a c := by
  obtain ⟨e1, he1, hn1⟩ := h1
  obtain ⟨e2, he2, hn2⟩ := h2
  refine ⟨e1 ++ e2, by rw [he2, he1, List.append_assoc], ?_⟩
  intro e he
  rcases List.mem_append.mp he with h | h
  · exact hn1 e h
  · exact hn2 e h

theorem scan_append_list (chk : Obs → Ev → Bool) : ∀ (tr : List Ev) (o : Obs) (es : List Ev),
    scan chk o (tr ++ es) = (scan chk o tr && scan chk (tr.foldl upd o) es)
  | [], o, es => by simp [scan]
  | x :: xs, o, es => by
    simp [scan, scan_append_list chk xs (upd o x) es, Bool.and_assoc]

theorem scan_runwait_neutral : ∀ (es : List Ev) (o : Obs), (∀ e, e ∈ es → ∀ c, e ≠ Ev.runret c) →
    scan chkRunWait o es = true
  | [], _, _ => rfl
  | e :: es, o, h => by
    have h1 : chkRunWait o e = true := by
      cases e <;> first | rfl | exact absurd rfl (h _ (List.mem_cons_self ..) _)
    simp only [scan, h1, Bool.true_and]
    exact scan_runwait_neutral es _ (fun e' he' => h e' (List.mem_cons_of_mem _ he'))

theorem runWait_quiet {s s' : St} (hf : Quiet s s') (h : runWaitOk s.tr = true) : runWaitOk s'.tr = true := by
  obtain ⟨es, he, hn⟩ := hf
  unfold runWaitOk holds at h ⊢
  rw [he, scan_append_list, h, scan_runwait_neutral es _ hn]; rfl

/-! ## the counter of running workers -/

/-- Started and not yet cleaned up. -/
def busy (s : St) (i : Nat) : Bool :=
  (s.objs i).pc == .run || (s.objs i).pc == .ret || (s.objs i).pc == .dn

structure InvC (s : St) : Prop where
  rwc : s.rw = cnt (busy s) s.n

theorem invC_init : InvC init := ⟨rfl⟩

theorem invC_congr {s s' : St} (h : InvC s) (hn : s'.n = s.n) (ho : s'.objs = s.objs) (hr : s'.rw = s.rw) : InvC s' := by
  constructor
  rw [hr, hn, h.rwc]
  apply cnt_congr
  intro i _; unfold busy; rw [ho]

/-- An object changes but stays on the same side of "started and not cleaned up". -/
theorem invC_setObj {s : St} {i : Nat} {w' : Wk} (h : InvC s)
    (hb : (w'.pc == .run || w'.pc == .ret || w'.pc == .dn) = busy s i) : InvC (setObj s i w') := by
  constructor
  rw [setObj_rw, setObj_n, h.rwc]
  apply cnt_congr
  intro j _
  unfold busy
  by_cases hji : j = i
  · subst hji; rw [setObj_objs_same]; exact hb.symm
  · rw [setObj_objs_ne _ _ _ _ hji]

theorem c_wkStep {s s' : St} {i : Nat} (h : InvC s) (hs : s' ∈ wkStep s i) : InvC s' ∧ Quiet s s' := by
  unfold wkStep at hs
  by_cases hi : i < s.n
  · simp only [hi, if_true] at hs
    cases hpc : (s.objs i).pc with
    | reg => simp [hpc] at hs
    | fin => simp [hpc] at hs
    | run =>
      simp only [hpc, List.mem_append, List.mem_singleton] at hs
      rcases hs with hs | hs
      · subst hs
        refine ⟨invC_congr (invC_setObj (i := i) (w' := { s.objs i with pc := .ret }) h (by simp [busy, hpc])) rfl rfl rfl,
          quiet_one (.ret i) rfl (by intro c h'; cases h')⟩
      · split at hs
        · simp only [List.mem_singleton] at hs
          subst hs
          refine ⟨invC_congr (invC_setObj (i := i)
              (w' := ⟨(s.objs i).name, (s.objs i).order, .run, (s.objs i).cancelled, true⟩) h (by simp [busy, hpc])) rfl rfl rfl,
            quiet_one (.seen i) rfl (by intro c h'; cases h')⟩
        · simp at hs
    | ret =>
      simp only [hpc, List.mem_singleton] at hs
      subst hs
      exact ⟨invC_congr (invC_setObj (i := i) (w' := { s.objs i with pc := .dn }) h (by simp [busy, hpc])) rfl rfl rfl,
        quiet_same rfl⟩
    | dn =>
      simp only [hpc] at hs
      -- `runningWorkers--`
      have key : ∀ s1 : St, s1.n = s.n → s1.objs = (setObj s i { s.objs i with pc := .cl }).objs → s1.rw = s.rw - 1 →
          InvC s1 := by
        intro s1 h1 h2 h3
        constructor
        rw [h3, h1, h.rwc]
        have hch := cnt_change (p := busy s) (q := fun j => busy s1 j) i hi
          (by intro j _ hji; unfold busy; rw [h2, setObj_objs_ne _ _ _ _ hji])
        have hp : busy s i = true := by simp [busy, hpc]
        have hq : busy s1 i = false := by unfold busy; rw [h2, setObj_objs_same]; simp
        rw [hp, hq] at hch
        simp at hch
        have : cnt (busy s1) s.n = cnt (fun j => busy s1 j) s.n := rfl
        omega
      split at hs <;> (simp only [List.mem_singleton] at hs; subst hs)
      · exact ⟨key _ rfl rfl rfl, quiet_same rfl⟩
      · exact ⟨key _ rfl rfl rfl, quiet_same rfl⟩
    | cl =>
      simp only [hpc, List.mem_singleton] at hs
      subst hs
      exact ⟨invC_setObj (i := i) (w' := { s.objs i with pc := .fin }) h (by simp [busy, hpc]), quiet_same rfl⟩
  · simp [hi] at hs

theorem c_spawn1 {s : St} {i : Nat} (h : InvC s) (hi : i < s.n) : InvC (spawn1 s i) ∧ Quiet s (spawn1 s i) := by
  by_cases hpc : (s.objs i).pc = .reg
  · rw [spawn1_reg hpc]
    refine ⟨?_, quiet_one _ rfl (by intro c h'; cases h')⟩
    constructor
    show s.rw + 1 = cnt (busy (spawnSt s i)) s.n
    have hch := cnt_change (p := busy s) (q := busy (spawnSt s i)) i hi
      (by intro j _ hji; unfold busy; rw [spawnSt_objs_ne _ _ _ hji])
    have hp : busy s i = false := by simp [busy, hpc]
    have hq : busy (spawnSt s i) i = true := by unfold busy; rw [spawnSt_objs_same]; simp
    rw [hp, hq, ← h.rwc] at hch
    simp at hch
    omega
  · rw [spawn1_not_reg hpc]; exact ⟨h, quiet_same rfl⟩

theorem c_spawnAll {l : List Nat} : ∀ {s : St}, InvC s → (∀ i, i ∈ l → i < s.n) →
    InvC (l.foldl spawn1 s) ∧ Quiet s (l.foldl spawn1 s) := by
  induction l with
  | nil => intro s h _; exact ⟨h, quiet_same rfl⟩
  | cons i l ih =>
    intro s h hl
    simp only [List.foldl_cons]
    obtain ⟨h1, q1⟩ := c_spawn1 h (hl i (List.mem_cons_self ..))
    obtain ⟨h2, q2⟩ := ih h1 (by intro j hj; rw [spawn1_n]; exact hl j (List.mem_cons_of_mem _ hj))
    exact ⟨h2, quiet_trans q1 q2⟩

theorem c_startCrit {s : St} (hA : InvA s) (h : InvC s) : InvC (startCrit true s) ∧ Quiet s (startCrit true s) := by
  by_cases hst : s.stopped = true
  · rw [startCrit_stopped hst]; exact ⟨h, quiet_same rfl⟩
  · by_cases hr : s.running = true
    · rw [startCrit_running hr]; exact ⟨h, quiet_same rfl⟩
    · have hst' : s.stopped = false := by simpa using hst
      have hr' : s.running = false := by simpa using hr
      rw [startCrit_go hst' hr']
      have h0 : InvC { s with running := true } := invC_congr h rfl rfl rfl
      obtain ⟨h1, q1⟩ := c_spawnAll (l := s.regl) h0 (fun i hi => hA.regv i hi)
      exact ⟨h1, quiet_trans (quiet_same rfl) q1⟩

theorem c_regState {s : St} (c name : Nat) (order : Int) (l : List Nat) (h : InvC s) :
    InvC (regState s c name order l) ∧ Quiet s (regState s c name order l) := by
  refine ⟨?_, quiet_one _ (regState_tr s c name order l) (by intro c' h'; cases h')⟩
  constructor
  show s.rw = cnt (busy (regState s c name order l)) (s.n + 1)
  rw [h.rwc]; symm
  apply cnt_succ_new
  · intro j hj; unfold busy; rw [regState_objs_lt _ _ _ _ _ _ hj]
  · unfold busy; rw [regState_objs_n]; simp

theorem c_bwCrit {s s' : St} {c name : Nat} {order : Int} (h : InvC s) (hs : s' ∈ bwCrit true s c name order) :
    InvC s' ∧ Quiet s s' := by
  have hreg : ∀ base, s' ∈ register s c name order base → InvC s' ∧ Quiet s s' := by
    intro base hb
    obtain ⟨l, _, rfl⟩ := mem_register hb
    obtain ⟨h1, q1⟩ := c_regState c name order l h
    split
    · obtain ⟨h2, q2⟩ := c_spawn1 (s := regState s c name order l) (i := s.n) h1 (Nat.lt_succ_self _)
      exact ⟨h2, quiet_trans q1 q2⟩
    · exact ⟨h1, q1⟩
  have hem : ∀ e : Ev, (∀ c, e ≠ Ev.runret c) → InvC (emit e s) ∧ Quiet s (emit e s) :=
    fun e he => ⟨invC_congr h rfl rfl rfl, quiet_one e rfl he⟩
  unfold bwCrit at hs
  split at hs
  · simp at hs; subst hs; exact hem _ (by intro c h'; cases h')
  · split at hs
    · simp at hs; subst hs; exact hem _ (by intro c h'; cases h')
    · split at hs
      · split at hs
        · simp at hs; subst hs; exact hem _ (by intro c h'; cases h')
        · split at hs
          · simp at hs; subst hs; exact hem _ (by intro c h'; cases h')
          · exact hreg _ hs
      · exact hreg _ hs

theorem c_sdBody {s s' : St} (h : InvC s) (hs : s' ∈ sdBody s) : InvC s' ∧ Quiet s s' := by
  unfold sdBody at hs
  have plain : ∀ (s1 : St), s1.n = s.n → s1.objs = s.objs → s1.rw = s.rw →
      (s1.tr = s.tr ∨ ∃ e, s1.tr = s.tr ++ [e] ∧ ∀ c, e ≠ Ev.runret c) → InvC s1 ∧ Quiet s s1 := by
    intro s1 h1 h2 h3 h4
    refine ⟨invC_congr h h1 h2 h3, ?_⟩
    rcases h4 with h4 | ⟨e, h4, hne⟩
    · exact quiet_same h4
    · exact quiet_one e h4 hne
  have canc : ∀ (hd : Nat) (sd' : SdPc), InvC { cancelW s hd with sd := sd' } ∧ Quiet s { cancelW s hd with sd := sd' } := by
    intro hd sd'
    refine ⟨?_, quiet_one (.cancel hd) rfl (by intro c h'; cases h')⟩
    have := invC_setObj (i := hd) (w' := { s.objs hd with cancelled := true }) h rfl
    exact invC_congr this rfl rfl rfl
  cases hsd : s.sd with
  | idle => simp [hsd] at hs
  | done => simp [hsd] at hs
  | taken =>
    simp only [hsd, List.mem_singleton] at hs; subst hs
    exact plain _ rfl rfl rfl (Or.inl rfl)
  | stoppedSet =>
    simp only [hsd] at hs
    split at hs <;> (simp only [List.mem_singleton] at hs; subst hs) <;> exact plain _ rfl rfl rfl (Or.inl rfl)
  | snap =>
    simp only [hsd] at hs
    split at hs <;> (simp only [List.mem_singleton] at hs; subst hs) <;> exact plain _ rfl rfl rfl (Or.inl rfl)
  | loop prev todo =>
    cases todo with
    | nil =>
      simp only [hsd, List.mem_singleton] at hs; subst hs
      exact plain _ rfl rfl rfl (Or.inr ⟨.waitfor prev, rfl, by intro c h'; cases h'⟩)
    | cons hd rest =>
      simp only [hsd] at hs
      split at hs
      · simp only [List.mem_singleton] at hs; subst hs; exact canc _ _
      · split at hs
        · simp only [List.mem_singleton] at hs; subst hs
          exact plain _ rfl rfl rfl (Or.inr ⟨.waitfor prev, rfl, by intro c h'; cases h'⟩)
        · simp only [List.mem_singleton] at hs; subst hs; exact canc _ _
  | waitMid prev todo =>
    simp only [hsd] at hs
    split at hs
    · cases todo with
      | nil =>
        simp only [List.mem_singleton] at hs; subst hs
        exact plain _ rfl rfl rfl (Or.inl rfl)
      | cons hd rest =>
        simp only [List.mem_singleton] at hs; subst hs
        exact plain _ rfl rfl rfl (Or.inl rfl)
    · simp at hs
  | waitLast prev =>
    simp only [hsd] at hs
    split at hs
    · simp only [List.mem_singleton] at hs; subst hs
      exact plain _ rfl rfl rfl (Or.inl rfl)
    · simp at hs
  | unrun =>
    simp only [hsd, List.mem_singleton] at hs; subst hs
    exact plain _ rfl rfl rfl (Or.inl rfl)
  | clr =>
    simp only [hsd, List.mem_singleton] at hs; subst hs
    exact plain _ rfl rfl rfl (Or.inl rfl)

/-! ## the combined invariant with the `Run` clause -/

def Inv2 (s : St) : Prop := Inv s ∧ InvC s ∧ runWaitOk s.tr = true

theorem inv2_init : Inv2 init := ⟨inv_init, invC_init, rfl⟩

/-- When the counter is zero no worker is live. -/
theorem live_nil_of_rw_zero {s : St} (hT : InvT s) (hC : InvC s) (h0 : s.rw = 0) : (obsOf s.tr).live = [] := by
  apply List.eq_nil_iff_forall_not_mem.mpr
  intro w hw
  obtain ⟨w1, w2, _, _⟩ := hT.liveSound w hw
  have hz := hC.rwc
  rw [h0] at hz
  have := cnt_zero_iff.mp hz.symm w.id w1
  simp [busy, w2] at this

theorem inv2_step {s s' : St} {t t' : Th} (h : Inv2 s) (hs : (s', t') ∈ step true true s t) : Inv2 s' := by
  obtain ⟨hI, hC, hR⟩ := h
  have hI' : Inv s' := inv_step hI hs
  -- every step but `Run`'s return keeps the counter invariant and appends no `runret`
  have fin : InvC s' ∧ Quiet s s' → Inv2 s' := fun hq => ⟨hI', hq.1, runWait_quiet hq.2 hR⟩
  have emitq : ∀ e : Ev, (∀ c, e ≠ Ev.runret c) → InvC (emit e s) ∧ Quiet s (emit e s) :=
    fun e he => ⟨invC_congr hC rfl rfl rfl, quiet_one e rfl he⟩
  cases t with
  | bw c name order pc =>
    cases pc with
    | call =>
      simp only [step] at hs
      split at hs <;> (simp only [List.mem_singleton, Prod.mk.injEq] at hs; obtain ⟨rfl, _⟩ := hs)
      · exact fin ⟨invC_congr hC rfl rfl rfl,
          quiet_trans (quiet_one (.bwcall c name order) (s' := emit (.bwcall c name order) s) rfl (by intro c h'; cases h'))
            (quiet_one (.refuse c name .stopped) rfl (by intro c h'; cases h'))⟩
      · exact fin (emitq _ (by intro c h'; cases h'))
    | passed =>
      simp only [step, List.mem_map] at hs
      obtain ⟨s1, hs1, heq⟩ := hs
      injection heq with h1 _
      subst h1
      exact fin (c_bwCrit hC hs1)
    | fin => simp [step] at hs
  | starter pc =>
    cases pc with
    | call =>
      simp only [step] at hs
      split at hs <;> (simp only [List.mem_singleton, Prod.mk.injEq] at hs; obtain ⟨rfl, _⟩ := hs) <;>
        exact fin ⟨hC, quiet_same rfl⟩
    | passed =>
      simp only [step, List.mem_singleton, Prod.mk.injEq] at hs
      obtain ⟨rfl, _⟩ := hs
      exact fin (c_startCrit hI.1 hC)
    | fin => simp [step] at hs
  | wk i =>
    simp only [step, List.mem_map] at hs
    obtain ⟨s1, hs1, heq⟩ := hs
    injection heq with h1 _
    subst h1
    exact fin (c_wkStep hC hs1)
  | sd c pc =>
    cases pc with
    | call =>
      simp only [step, List.mem_singleton, Prod.mk.injEq] at hs
      obtain ⟨rfl, _⟩ := hs
      exact fin (emitq _ (by intro c h'; cases h'))
    | enter =>
      simp only [step] at hs
      cases hsd : s.sd with
      | idle =>
        simp only [hsd, List.mem_singleton, Prod.mk.injEq] at hs
        obtain ⟨rfl, _⟩ := hs
        exact fin ⟨invC_congr hC rfl rfl rfl, quiet_same rfl⟩
      | _ =>
        simp only [hsd, List.mem_singleton, Prod.mk.injEq] at hs
        obtain ⟨rfl, _⟩ := hs
        exact fin ⟨hC, quiet_same rfl⟩
    | body =>
      simp only [step] at hs
      cases hsd : s.sd with
      | done =>
        simp only [hsd, List.mem_singleton, Prod.mk.injEq] at hs
        obtain ⟨rfl, _⟩ := hs
        exact fin (emitq _ (by intro c h'; cases h'))
      | _ =>
        simp only [hsd, List.mem_map] at hs
        obtain ⟨s1, hs1, heq⟩ := hs
        injection heq with h1 _
        subst h1
        exact fin (c_sdBody hC hs1)
    | blocked =>
      simp only [step] at hs
      cases hsd : s.sd with
      | done =>
        simp only [hsd, List.mem_singleton, Prod.mk.injEq] at hs
        obtain ⟨rfl, _⟩ := hs
        exact fin (emitq _ (by intro c h'; cases h'))
      | _ => simp [hsd] at hs
    | fin => simp [step] at hs
  | watcher =>
    simp only [step] at hs
    split at hs
    · simp only [List.mem_singleton, Prod.mk.injEq] at hs
      obtain ⟨rfl, _⟩ := hs
      exact fin (emitq _ (by intro c h'; cases h'))
    · simp at hs
  | runner c pc =>
    cases pc with
    | call =>
      simp only [step] at hs
      split at hs <;> (simp only [List.mem_singleton, Prod.mk.injEq] at hs; obtain ⟨rfl, _⟩ := hs) <;>
        exact fin (emitq _ (by intro c h'; cases h'))
    | passed =>
      simp only [step, List.mem_singleton, Prod.mk.injEq] at hs
      obtain ⟨rfl, _⟩ := hs
      exact fin (c_startCrit hI.1 hC)
    | started =>
      -- `Run` returns: the counter is zero under the lock
      simp only [step, if_true] at hs
      split at hs
      · rename_i h0
        simp only [List.mem_singleton, Prod.mk.injEq] at hs
        obtain ⟨rfl, _⟩ := hs
        refine ⟨hI', invC_congr hC rfl rfl rfl, ?_⟩
        show holds chkRunWait (s.tr ++ [Ev.runret c]) = true
        unfold holds
        rw [scan_append]
        have h1 : holds chkRunWait s.tr = true := hR
        unfold holds at h1
        rw [h1]
        show (true && chkRunWait (obsOf s.tr) (.runret c)) = true
        simp only [chkRunWait, live_nil_of_rw_zero hI.2.2 hC h0, Bool.true_and, List.all_eq_true]
        intro p _ i _
        rfl
      · simp at hs
    | waiting keys => cases keys <;> simp [step] at hs
    | fin => simp [step] at hs

theorem inv2_reach {ts ts' : List Th} {s : St} (hr : Reach (sys true true) (init, ts) (s, ts')) : Inv2 s := by
  have := inv_induction (S := sys true true) (fun c => Inv2 c.1) (c0 := (init, ts)) (c := (s, ts')) inv2_init
    (by
      intro a b ha hstep
      cases hstep with
      | mk s0 pre t post s1 t1 hmem => exact inv2_step ha hmem)
    hr
  exact this

end Hive.Daemon
