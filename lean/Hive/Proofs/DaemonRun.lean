import Hive.Proofs.DaemonMain
/-! `Run`: what the code does guarantee.  `Run` copies the WaitGroups once, after its `Start`; it waits for
every worker that was started before that.  If no worker is accepted after a `Run` copied the WaitGroups
(`noLateAdd`), every `Run` returns only after every started worker has returned. -/
namespace Hive.Daemon
open Hive.Conc

/-! ## what one step does to the fields `Run` depends on -/

structure Frame (s s' : St) : Prop where
  ext : ∃ es, s'.tr = s.tr ++ es ∧ ∀ e, e ∈ es → ∀ c, e ≠ Ev.runret c
  stop : s.stopped = true → s'.stopped = true
  run : s.running = true → s'.running = true ∨ s'.stopped = true
  cnt : (∀ i, i < s'.n → (s'.objs i).counted = true →
          i < s.n ∧ (s.objs i).counted = true ∧ (s'.objs i).order = (s.objs i).order)
        ∨ (s.stopped = false ∧ s.running = false)
        ∨ ((obsOf s.tr).runSnap = true → (obsOf s'.tr).lateAdd = true)

/-- The same without the clause that no `runret` was appended. -/
structure WFrame (s s' : St) : Prop where
  ext : ∃ es, s'.tr = s.tr ++ es
  stop : s.stopped = true → s'.stopped = true
  run : s.running = true → s'.running = true ∨ s'.stopped = true
  cnt : (∀ i, i < s'.n → (s'.objs i).counted = true →
          i < s.n ∧ (s.objs i).counted = true ∧ (s'.objs i).order = (s.objs i).order)
        ∨ (s.stopped = false ∧ s.running = false)
        ∨ ((obsOf s.tr).runSnap = true → (obsOf s'.tr).lateAdd = true)

theorem Frame.weak {s s' : St} (h : Frame s s') : WFrame s s' := by
  obtain ⟨es, he, _⟩ := h.ext
  exact ⟨⟨es, he⟩, h.stop, h.run, h.cnt⟩

theorem frame_refl (s : St) : Frame s s :=
  ⟨⟨[], by simp, by simp⟩, fun h => h, fun h => Or.inl h, Or.inl (fun i hi hc => ⟨hi, hc, rfl⟩)⟩

theorem frame_trans {a b c : St} (h1 : Frame a b) (h2 : Frame b c)
    (hcnt : (∀ i, i < c.n → (c.objs i).counted = true →
          i < a.n ∧ (a.objs i).counted = true ∧ (c.objs i).order = (a.objs i).order)
        ∨ (a.stopped = false ∧ a.running = false)
        ∨ ((obsOf a.tr).runSnap = true → (obsOf c.tr).lateAdd = true)) : Frame a c := by
  obtain ⟨e1, he1, hn1⟩ := h1.ext
  obtain ⟨e2, he2, hn2⟩ := h2.ext
  refine ⟨⟨e1 ++ e2, by rw [he2, he1, List.append_assoc], ?_⟩, fun h => h2.stop (h1.stop h), ?_, hcnt⟩
  · intro e he
    rcases List.mem_append.mp he with h | h
    · exact hn1 e h
    · exact hn2 e h
  · intro h
    rcases h1.run h with h' | h'
    · exact h2.run h'
    · exact Or.inr (h2.stop h')

/-- A step that appends at most one event and lets no object become counted. -/
theorem frame_simple {s s' : St}
    (htr : s'.tr = s.tr ∨ ∃ e, s'.tr = s.tr ++ [e] ∧ ∀ c, e ≠ Ev.runret c)
    (hst : s.stopped = true → s'.stopped = true)
    (hrun : s.running = true → s'.running = true ∨ s'.stopped = true)
    (hn : s'.n = s.n)
    (hc : ∀ i, (s'.objs i).counted = true → (s.objs i).counted = true ∧ (s'.objs i).order = (s.objs i).order) :
    Frame s s' := by
  refine ⟨?_, hst, hrun, Or.inl ?_⟩
  · rcases htr with h | ⟨e, h, hne⟩
    · exact ⟨[], by simp [h], by simp⟩
    · exact ⟨[e], h, by intro e' he'; simp at he'; subst he'; exact hne⟩
  · intro i hi hci
    rw [hn] at hi
    exact ⟨hi, (hc i hci).1, (hc i hci).2⟩

theorem frame_emit {s : St} (e : Ev) (hne : ∀ c, e ≠ Ev.runret c) : Frame s (emit e s) :=
  frame_simple (Or.inr ⟨e, rfl, hne⟩) (fun h => h) (fun h => Or.inl h) rfl (fun _ h => ⟨h, rfl⟩)

theorem frame_wkStep {s s' : St} {i : Nat} (hs : s' ∈ wkStep s i) : Frame s s' := by
  unfold wkStep at hs
  by_cases hi : i < s.n
  · simp only [hi, if_true] at hs
    -- every successor is `setObj s i w'` (plus fields `Run` does not read) where `w'` is not newly counted
    have key : ∀ (w' : Wk) (s1 : St), s1.n = s.n → s1.objs = (setObj s i w').objs →
        s1.stopped = s.stopped → s1.running = s.running →
        (s1.tr = s.tr ∨ ∃ e, s1.tr = s.tr ++ [e] ∧ ∀ c, e ≠ Ev.runret c) →
        (w'.counted = true → (s.objs i).counted = true) → w'.order = (s.objs i).order → Frame s s1 := by
      intro w' s1 h1 h2 h3 h4 h5 h6 h7
      refine frame_simple h5 (by rw [h3]; exact fun h => h) (by rw [h4]; exact fun h => Or.inl h) h1 ?_
      intro j hj
      rw [h2] at hj ⊢
      by_cases hji : j = i
      · subst hji; rw [setObj_objs_same] at hj ⊢; exact ⟨h6 hj, h7⟩
      · rw [setObj_objs_ne _ _ _ _ hji] at hj ⊢; exact ⟨hj, rfl⟩
    cases hpc : (s.objs i).pc with
    | reg => simp [hpc] at hs
    | fin => simp [hpc] at hs
    | run =>
      simp only [hpc, List.mem_append, List.mem_singleton] at hs
      rcases hs with hs | hs
      · subst hs
        exact key { s.objs i with pc := .ret } _ rfl rfl rfl rfl (Or.inr ⟨.ret i, rfl, by intro c h; cases h⟩)
          (by intro _; simp [Wk.counted, hpc]) rfl
      · split at hs
        · simp only [List.mem_singleton] at hs
          subst hs
          exact key ⟨(s.objs i).name, (s.objs i).order, .run, (s.objs i).cancelled, true⟩ _ rfl rfl rfl rfl
            (Or.inr ⟨.seen i, rfl, by intro c h; cases h⟩) (by intro _; simp [Wk.counted, hpc]) rfl
        · simp at hs
    | ret =>
      simp only [hpc, List.mem_singleton] at hs
      subst hs
      exact key { s.objs i with pc := .dn } _ rfl rfl rfl rfl (Or.inl rfl) (by intro h; simp [Wk.counted] at h) rfl
    | dn =>
      simp only [hpc] at hs
      split at hs <;> (simp only [List.mem_singleton] at hs; subst hs)
      · exact key { s.objs i with pc := .cl } _ rfl rfl rfl rfl (Or.inl rfl) (by intro h; simp [Wk.counted] at h) rfl
      · exact key { s.objs i with pc := .cl } _ rfl rfl rfl rfl (Or.inl rfl) (by intro h; simp [Wk.counted] at h) rfl
    | cl =>
      simp only [hpc, List.mem_singleton] at hs
      subst hs
      exact key { s.objs i with pc := .fin } _ rfl rfl rfl rfl (Or.inl rfl) (by intro h; simp [Wk.counted] at h) rfl
  · simp [hi] at hs

theorem frame_take (s : St) : Frame s { s with sd := .taken } :=
  frame_simple (Or.inl rfl) (fun h => h) (fun h => Or.inl h) rfl (fun _ h => ⟨h, rfl⟩)

theorem frame_sdBody {s s' : St} (hA : InvA s) (hs : s' ∈ sdBody s) : Frame s s' := by
  unfold sdBody at hs
  -- successors either leave the objects alone or cancel one
  have plain : ∀ (s1 : St), s1.n = s.n → s1.objs = s.objs → (s.stopped = true → s1.stopped = true) →
      (s.running = true → s1.running = true ∨ s1.stopped = true) →
      (s1.tr = s.tr ∨ ∃ e, s1.tr = s.tr ++ [e] ∧ ∀ c, e ≠ Ev.runret c) → Frame s s1 := by
    intro s1 h1 h2 h3 h4 h5
    exact frame_simple h5 h3 h4 h1 (by intro j hj; rw [h2] at hj ⊢; exact ⟨hj, rfl⟩)
  have canc : ∀ (hd : Nat) (sd' : SdPc), Frame s { cancelW s hd with sd := sd' } := by
    intro hd sd'
    refine frame_simple (Or.inr ⟨.cancel hd, rfl, by intro c h; cases h⟩) (fun h => h) (fun h => Or.inl h) rfl ?_
    intro j hj
    have hj' : ((cancelW s hd).objs j).counted = true := hj
    rw [cancelW_counted] at hj'
    exact ⟨hj', cancelW_ord s hd j⟩
  cases hsd : s.sd with
  | idle => simp [hsd] at hs
  | done => simp [hsd] at hs
  | taken =>
    simp only [hsd, List.mem_singleton] at hs; subst hs
    exact plain _ rfl rfl (fun _ => rfl) (fun h => Or.inl h) (Or.inl rfl)
  | stoppedSet =>
    simp only [hsd] at hs
    split at hs <;> (simp only [List.mem_singleton] at hs; subst hs) <;>
      exact plain _ rfl rfl (fun h => h) (fun h => Or.inl h) (Or.inl rfl)
  | snap =>
    simp only [hsd] at hs
    split at hs <;> (simp only [List.mem_singleton] at hs; subst hs) <;>
      exact plain _ rfl rfl (fun h => h) (fun h => Or.inl h) (Or.inl rfl)
  | loop prev todo =>
    cases todo with
    | nil =>
      simp only [hsd, List.mem_singleton] at hs; subst hs
      exact plain _ rfl rfl (fun h => h) (fun h => Or.inl h) (Or.inr ⟨.waitfor prev, rfl, by intro c h; cases h⟩)
    | cons hd rest =>
      simp only [hsd] at hs
      split at hs
      · simp only [List.mem_singleton] at hs; subst hs; exact canc _ _
      · split at hs
        · simp only [List.mem_singleton] at hs; subst hs
          exact plain _ rfl rfl (fun h => h) (fun h => Or.inl h) (Or.inr ⟨.waitfor prev, rfl, by intro c h; cases h⟩)
        · simp only [List.mem_singleton] at hs; subst hs; exact canc _ _
  | waitMid prev todo =>
    simp only [hsd] at hs
    split at hs
    · cases todo with
      | nil =>
        simp only [List.mem_singleton] at hs; subst hs
        exact plain _ rfl rfl (fun h => h) (fun h => Or.inl h) (Or.inl rfl)
      | cons hd rest =>
        simp only [List.mem_singleton] at hs; subst hs
        exact plain _ rfl rfl (fun h => h) (fun h => Or.inl h) (Or.inl rfl)
    · simp at hs
  | waitLast prev =>
    simp only [hsd] at hs
    split at hs
    · simp only [List.mem_singleton] at hs; subst hs
      exact plain _ rfl rfl (fun h => h) (fun h => Or.inl h) (Or.inl rfl)
    · simp at hs
  | unrun =>
    simp only [hsd, List.mem_singleton] at hs; subst hs
    have hst : s.stopped = true := hA.stopped_iff.mpr (by simp [hsd])
    exact plain _ rfl rfl (fun h => h) (fun _ => Or.inr hst) (Or.inl rfl)
  | clr =>
    simp only [hsd, List.mem_singleton] at hs; subst hs
    exact plain _ rfl rfl (fun h => h) (fun h => Or.inl h) (Or.inl rfl)

/-! `Start` -/

theorem spawn1_tr (s : St) (i : Nat) : ∃ es, (spawn1 s i).tr = s.tr ++ es ∧ ∀ e, e ∈ es → ∀ c, e ≠ Ev.runret c := by
  by_cases hpc : (s.objs i).pc = .reg
  · rw [spawn1_reg hpc]
    exact ⟨[_], rfl, by intro e he; simp at he; subst he; intro c h; cases h⟩
  · rw [spawn1_not_reg hpc]; exact ⟨[], by simp, by simp⟩

theorem spawnAll_tr (l : List Nat) : ∀ (s : St), ∃ es, (l.foldl spawn1 s).tr = s.tr ++ es ∧
    ∀ e, e ∈ es → ∀ c, e ≠ Ev.runret c := by
  induction l with
  | nil => intro s; exact ⟨[], by simp, by simp⟩
  | cons i l ih =>
    intro s
    simp only [List.foldl_cons]
    obtain ⟨e1, h1, n1⟩ := spawn1_tr s i
    obtain ⟨e2, h2, n2⟩ := ih (spawn1 s i)
    refine ⟨e1 ++ e2, by rw [h2, h1, List.append_assoc], ?_⟩
    intro e he
    rcases List.mem_append.mp he with h | h
    · exact n1 e h
    · exact n2 e h

theorem spawnAll_running (l : List Nat) : ∀ (s : St), (l.foldl spawn1 s).running = s.running := by
  induction l with
  | nil => intro s; rfl
  | cons i l ih => intro s; simp only [List.foldl_cons]; rw [ih, spawn1_running]

theorem frame_startCrit (s : St) : Frame s (startCrit true s) := by
  by_cases hst : s.stopped = true
  · rw [startCrit_stopped hst]; exact frame_refl s
  · by_cases hr : s.running = true
    · rw [startCrit_running hr]; exact frame_refl s
    · have hst' : s.stopped = false := by simpa using hst
      have hr' : s.running = false := by simpa using hr
      refine ⟨?_, by intro h; simp [hst'] at h, by intro h; simp [hr'] at h, Or.inr (Or.inl ⟨hst', hr'⟩)⟩
      rw [startCrit_go hst' hr']
      exact spawnAll_tr s.regl { s with running := true }

theorem startCrit_running_or_stopped (s : St) : (startCrit true s).running = true ∨ (startCrit true s).stopped = true := by
  by_cases hst : s.stopped = true
  · rw [startCrit_stopped hst]; exact Or.inr hst
  · by_cases hr : s.running = true
    · rw [startCrit_running hr]; exact Or.inl hr
    · have hst' : s.stopped = false := by simpa using hst
      have hr' : s.running = false := by simpa using hr
      rw [startCrit_go hst' hr', spawnAll_running]; exact Or.inl rfl

/-! `BackgroundWorker` -/

theorem frame_bwCrit {s s' : St} {c name : Nat} {order : Int} (hs : s' ∈ bwCrit true s c name order) : Frame s s' := by
  have hreg : ∀ base, s' ∈ register s c name order base → Frame s s' := by
    intro base hb
    obtain ⟨l, _, rfl⟩ := mem_register hb
    have hA : ∃ es, (regState s c name order l).tr = s.tr ++ es ∧ (∀ e, e ∈ es → ∀ c, e ≠ Ev.runret c) :=
      ⟨[_], regState_tr s c name order l, by intro e he; simp at he; subst he; intro c h; cases h⟩
    have hlate : (obsOf s.tr).runSnap = true → (obsOf (regState s c name order l).tr).lateAdd = true := by
      intro h
      rw [regState_tr]
      simp [obsOf, List.foldl_append, upd] at h ⊢
      simp [h]
    cases hr : s.running with
    | false =>
      simp only [Bool.false_eq_true, if_false]
      exact ⟨hA, fun h => h, by intro h; simp [hr] at h, Or.inr (Or.inr hlate)⟩
    | true =>
      simp only [if_true]
      obtain ⟨e1, h1, n1⟩ := hA
      obtain ⟨e2, h2, n2⟩ := spawn1_tr (regState s c name order l) s.n
      refine ⟨⟨e1 ++ e2, by rw [h2, h1, List.append_assoc], ?_⟩, ?_, ?_, Or.inr (Or.inr ?_)⟩
      · intro e he
        rcases List.mem_append.mp he with h | h
        · exact n1 e h
        · exact n2 e h
      · intro h; rw [spawn1_stopped]; exact h
      · intro h; left; rw [spawn1_running]; exact h
      · intro h
        have := hlate h
        by_cases hpc : ((regState s c name order l).objs s.n).pc = .reg
        · rw [spawn1_reg hpc]
          have e : (emit (Ev.start s.n ((regState s c name order l).objs s.n).name ((regState s c name order l).objs s.n).order)
              (spawnSt (regState s c name order l) s.n)).tr = (regState s c name order l).tr ++ [Ev.start s.n ((regState s c name order l).objs s.n).name ((regState s c name order l).objs s.n).order] := rfl
          rw [e]
          simp only [obsOf, List.foldl_append, List.foldl_cons, List.foldl_nil, upd]
          exact this
        · rw [spawn1_not_reg hpc]; exact this
  unfold bwCrit at hs
  split at hs
  · simp at hs; subst hs; exact frame_emit _ (by intro c h; cases h)
  · split at hs
    · simp at hs; subst hs; exact frame_emit _ (by intro c h; cases h)
    · split at hs
      · split at hs
        · simp at hs; subst hs; exact frame_emit _ (by intro c h; cases h)
        · split at hs
          · simp at hs; subst hs; exact frame_emit _ (by intro c h; cases h)
          · exact hreg _ hs
      · exact hreg _ hs

/-! ## monotone observer flags and neutral events -/

theorem upd_lateAdd_mono (o : Obs) (e : Ev) (h : o.lateAdd = true) : (upd o e).lateAdd = true := by
  cases e <;> simp only [upd] <;> first | exact h | (split <;> exact h) | simp [h]

theorem upd_runSnap_mono (o : Obs) (e : Ev) (h : o.runSnap = true) : (upd o e).runSnap = true := by
  cases e <;> simp only [upd] <;> first | exact h | (split <;> exact h) | simp [h]

theorem foldl_lateAdd_mono (es : List Ev) : ∀ (o : Obs), o.lateAdd = true → (es.foldl upd o).lateAdd = true := by
  induction es with
  | nil => intro o h; exact h
  | cons e es ih => intro o h; exact ih _ (upd_lateAdd_mono o e h)

theorem foldl_runSnap_mono (es : List Ev) : ∀ (o : Obs), o.runSnap = true → (es.foldl upd o).runSnap = true := by
  induction es with
  | nil => intro o h; exact h
  | cons e es ih => intro o h; exact ih _ (upd_runSnap_mono o e h)

theorem obsOf_append (tr es : List Ev) : obsOf (tr ++ es) = es.foldl upd (obsOf tr) := by
  simp [obsOf, List.foldl_append]

theorem scan_append_list (chk : Obs → Ev → Bool) : ∀ (tr : List Ev) (o : Obs) (es : List Ev),
    scan chk o (tr ++ es) = (scan chk o tr && scan chk (tr.foldl upd o) es)
  | [], o, es => by simp [scan]
  | x :: xs, o, es => by
    simp [scan, scan_append_list chk xs (upd o x) es, Bool.and_assoc]

theorem scan_runwait_neutral : ∀ (es : List Ev) (o : Obs), (∀ e, e ∈ es → ∀ c, e ≠ Ev.runret c) →
    scan chkRunWait o es = true
  | [], _, _ => rfl
  | e :: es, o, h => by
    have h1 : chkRunWait o e = true := by
      cases e <;> first | rfl | exact absurd rfl (h _ (List.mem_cons_self ..) _)
    simp only [scan, h1, Bool.true_and]
    exact scan_runwait_neutral es _ (fun e' he' => h e' (List.mem_cons_of_mem _ he'))

/-! ## the configuration invariant -/

/-- A `Run` call past its `Start`: the daemon is running or stopped; after the copy a `runsnap` was seen. -/
def RunSt (s : St) : Th → Prop
  | .runner _ .started => s.running = true ∨ s.stopped = true
  | .runner _ (.waiting _) => (s.running = true ∨ s.stopped = true) ∧ (obsOf s.tr).runSnap = true
  | _ => True

/-- The WaitGroups a `Run` call still has to pass cover every counted worker. -/
def RunKeys (s : St) : Th → Prop
  | .runner _ (.waiting keys) => ∀ i, i < s.n → (s.objs i).counted = true → (s.objs i).order ∈ keys
  | _ => True

def RInv (c : Cfg St Th) : Prop :=
  Inv c.1 ∧ (∀ t, t ∈ c.2 → RunSt c.1 t) ∧
    (noLateAdd c.1.tr = true → runWaitOk c.1.tr = true ∧ ∀ t, t ∈ c.2 → RunKeys c.1 t)

theorem runSt_frame {s s' : St} (hf : WFrame s s') (u : Th) (h : RunSt s u) : RunSt s' u := by
  have hrs : (s.running = true ∨ s.stopped = true) → (s'.running = true ∨ s'.stopped = true) := by
    rintro (h' | h')
    · exact hf.run h'
    · exact Or.inr (hf.stop h')
  have hsnap : (obsOf s.tr).runSnap = true → (obsOf s'.tr).runSnap = true := by
    intro h'
    obtain ⟨es, he⟩ := hf.ext
    rw [he, obsOf_append]; exact foldl_runSnap_mono es _ h'
  cases u with
  | runner c pc =>
    cases pc with
    | started => exact hrs h
    | waiting keys => exact ⟨hrs h.1, hsnap h.2⟩
    | _ => trivial
  | _ => trivial

theorem noLate_frame {s s' : St} (hf : WFrame s s') (h : noLateAdd s'.tr = true) : noLateAdd s.tr = true := by
  obtain ⟨es, he⟩ := hf.ext
  unfold noLateAdd at h ⊢
  cases hl : (obsOf s.tr).lateAdd with
  | false => rfl
  | true =>
    have := foldl_lateAdd_mono es _ hl
    rw [he, obsOf_append, this] at h; simp at h

theorem runWait_frame {s s' : St} (hf : Frame s s') (h : runWaitOk s.tr = true) : runWaitOk s'.tr = true := by
  obtain ⟨es, he, hn⟩ := hf.ext
  unfold runWaitOk holds at h ⊢
  rw [he, scan_append_list, h, scan_runwait_neutral es _ hn]; rfl

theorem runKeys_frame {s s' : St} (hf : WFrame s s') (hl : noLateAdd s'.tr = true) (u : Th)
    (hst : RunSt s u) (h : RunKeys s u) : RunKeys s' u := by
  cases u with
  | runner c pc =>
    cases pc with
    | waiting keys =>
      intro i hi hc
      rcases hf.cnt with h1 | h2 | h3
      · obtain ⟨a, b, c'⟩ := h1 i hi hc
        rw [c']; exact h i a b
      · rcases hst.1 with h' | h'
        · simp [h2.2] at h'
        · simp [h2.1] at h'
      · have := h3 hst.2
        unfold noLateAdd at hl; rw [this] at hl; simp at hl
    | _ => trivial
  | _ => trivial

/-- Threads other than `Run` calls carry no obligation. -/
theorem runSt_plain (s : St) (t : Th) (h : ∀ c pc, t ≠ .runner c pc) : RunSt s t ∧ RunKeys s t := by
  cases t with
  | runner c pc => exact absurd rfl (h c pc)
  | _ => exact ⟨trivial, trivial⟩

theorem no_counted_of_cleared {s : St} (h : Inv s) (hc : s.cleared = true) : ∀ i, i < s.n → (s.objs i).counted = false :=
  h.2.1.doneInv (Or.inr (Or.inr (h.1.clearedDone hc)))

theorem rinv_step {a b : Cfg St Th} (h : RInv a) (hstep : Step (sys true) a b) : RInv b := by
  cases hstep with
  | mk s pre t post s' t' hmem =>
    obtain ⟨hI, hSt, hK⟩ := h
    have hI' : Inv s' := inv_step hI hmem
    have hmem' : (s', t') ∈ step true s t := hmem
    -- the frame of the step and what the stepping thread looks like afterwards
    have main : WFrame s s' ∧ RunSt s' t' ∧
        (noLateAdd s'.tr = true → (runWaitOk s.tr = true ∧ RunKeys s t) → runWaitOk s'.tr = true ∧ RunKeys s' t') := by
      have hStT : RunSt s t := hSt t (by simp)
      cases t with
      | bw c name order pc =>
        cases pc with
        | call =>
          simp only [step] at hmem'
          split at hmem' <;> (simp only [List.mem_singleton, Prod.mk.injEq] at hmem'; obtain ⟨rfl, rfl⟩ := hmem')
          · have f := frame_trans (frame_emit (s := s) (.bwcall c name order) (by intro c h; cases h))
              (frame_emit (.refuse c name .stopped) (by intro c h; cases h)) (Or.inl (fun i hi hc => ⟨hi, hc, rfl⟩))
            exact ⟨f.weak, trivial, fun _ hk => ⟨runWait_frame f hk.1, trivial⟩⟩
          · have f := frame_emit (s := s) (.bwcall c name order) (by intro c h; cases h)
            exact ⟨f.weak, trivial, fun _ hk => ⟨runWait_frame f hk.1, trivial⟩⟩
        | passed =>
          simp only [step, List.mem_map] at hmem'
          obtain ⟨s1, hs1, heq⟩ := hmem'
          injection heq with h1 h2
          subst h1; subst h2
          have f := frame_bwCrit hs1
          exact ⟨f.weak, trivial, fun _ hk => ⟨runWait_frame f hk.1, trivial⟩⟩
        | fin => simp [step] at hmem'
      | starter pc =>
        cases pc with
        | call =>
          simp only [step] at hmem'
          split at hmem' <;> (simp only [List.mem_singleton, Prod.mk.injEq] at hmem'; obtain ⟨rfl, rfl⟩ := hmem') <;>
            exact ⟨(frame_refl _).weak, trivial, fun _ hk => ⟨hk.1, trivial⟩⟩
        | passed =>
          simp only [step, List.mem_singleton, Prod.mk.injEq] at hmem'
          obtain ⟨rfl, rfl⟩ := hmem'
          have f := frame_startCrit s
          exact ⟨f.weak, trivial, fun _ hk => ⟨runWait_frame f hk.1, trivial⟩⟩
        | fin => simp [step] at hmem'
      | wk i =>
        simp only [step, List.mem_map] at hmem'
        obtain ⟨s1, hs1, heq⟩ := hmem'
        injection heq with h1 h2
        subst h1; subst h2
        have f := frame_wkStep hs1
        exact ⟨f.weak, trivial, fun _ hk => ⟨runWait_frame f hk.1, trivial⟩⟩
      | sd c pc =>
        cases pc with
        | call =>
          simp only [step, List.mem_singleton, Prod.mk.injEq] at hmem'
          obtain ⟨rfl, rfl⟩ := hmem'
          have f := frame_emit (s := s) (.sdcall c) (by intro c h; cases h)
          exact ⟨f.weak, trivial, fun _ hk => ⟨runWait_frame f hk.1, trivial⟩⟩
        | enter =>
          simp only [step] at hmem'
          cases hsd : s.sd with
          | idle =>
            simp only [hsd, List.mem_singleton, Prod.mk.injEq] at hmem'
            obtain ⟨rfl, rfl⟩ := hmem'
            have f := frame_take s
            exact ⟨f.weak, trivial, fun _ hk => ⟨runWait_frame f hk.1, trivial⟩⟩
          | _ =>
            simp only [hsd, List.mem_singleton, Prod.mk.injEq] at hmem'
            obtain ⟨rfl, rfl⟩ := hmem'
            exact ⟨(frame_refl _).weak, trivial, fun _ hk => ⟨hk.1, trivial⟩⟩
        | body =>
          simp only [step] at hmem'
          cases hsd : s.sd with
          | done =>
            simp only [hsd, List.mem_singleton, Prod.mk.injEq] at hmem'
            obtain ⟨rfl, rfl⟩ := hmem'
            have f := frame_emit (s := s) (.sdret c) (by intro c h; cases h)
            exact ⟨f.weak, trivial, fun _ hk => ⟨runWait_frame f hk.1, trivial⟩⟩
          | _ =>
            simp only [hsd, List.mem_map] at hmem'
            obtain ⟨s1, hs1, heq⟩ := hmem'
            injection heq with h1 h2
            subst h1; subst h2
            have f := frame_sdBody hI.1 hs1
            exact ⟨f.weak, trivial, fun _ hk => ⟨runWait_frame f hk.1, trivial⟩⟩
        | blocked =>
          simp only [step] at hmem'
          cases hsd : s.sd with
          | done =>
            simp only [hsd, List.mem_singleton, Prod.mk.injEq] at hmem'
            obtain ⟨rfl, rfl⟩ := hmem'
            have f := frame_emit (s := s) (.sdret c) (by intro c h; cases h)
            exact ⟨f.weak, trivial, fun _ hk => ⟨runWait_frame f hk.1, trivial⟩⟩
          | _ => simp [hsd] at hmem'
        | fin => simp [step] at hmem'
      | watcher =>
        simp only [step] at hmem'
        split at hmem'
        · simp only [List.mem_singleton, Prod.mk.injEq] at hmem'
          obtain ⟨rfl, rfl⟩ := hmem'
          have f := frame_emit (s := s) .stopseen (by intro c h; cases h)
          exact ⟨f.weak, trivial, fun _ hk => ⟨runWait_frame f hk.1, trivial⟩⟩
        · simp at hmem'
      | runner c pc =>
        cases pc with
        | call =>
          simp only [step] at hmem'
          have f := frame_emit (s := s) (.runcall c) (by intro c h; cases h)
          split at hmem'
          · rename_i hst
            simp only [List.mem_singleton, Prod.mk.injEq] at hmem'
            obtain ⟨rfl, rfl⟩ := hmem'
            exact ⟨f.weak, Or.inr hst, fun _ hk => ⟨runWait_frame f hk.1, trivial⟩⟩
          · simp only [List.mem_singleton, Prod.mk.injEq] at hmem'
            obtain ⟨rfl, rfl⟩ := hmem'
            exact ⟨f.weak, trivial, fun _ hk => ⟨runWait_frame f hk.1, trivial⟩⟩
        | passed =>
          simp only [step, List.mem_singleton, Prod.mk.injEq] at hmem'
          obtain ⟨rfl, rfl⟩ := hmem'
          have f := frame_startCrit s
          exact ⟨f.weak, startCrit_running_or_stopped s, fun _ hk => ⟨runWait_frame f hk.1, trivial⟩⟩
        | started =>
          simp only [step, List.mem_singleton, Prod.mk.injEq] at hmem'
          obtain ⟨rfl, rfl⟩ := hmem'
          have f := frame_emit (s := s) (.runsnap c) (by intro c h; cases h)
          refine ⟨f.weak, ⟨hStT, ?_⟩, fun _ hk => ⟨runWait_frame f hk.1, ?_⟩⟩
          · show (obsOf (s.tr ++ [Ev.runsnap c])).runSnap = true
            rw [obsOf_append]; rfl
          · intro i hi hc
            have hi' : i < s.n := hi
            have hc' : (s.objs i).counted = true := hc
            cases hcl : s.cleared with
            | false => exact hI.1.keys hcl i hi'
            | true => rw [no_counted_of_cleared hI hcl i hi'] at hc'; simp at hc'
        | waiting keys =>
          cases keys with
          | nil =>
            simp only [step, List.mem_singleton, Prod.mk.injEq] at hmem'
            obtain ⟨rfl, rfl⟩ := hmem'
            refine ⟨⟨⟨[_], rfl⟩, fun h => h, fun h => Or.inl h, Or.inl (fun i hi hc => ⟨hi, hc, rfl⟩)⟩, trivial, ?_⟩
            · intro _ hk
              refine ⟨?_, trivial⟩
              have hlive : (obsOf s.tr).live = [] := by
                apply List.eq_nil_iff_forall_not_mem.mpr
                intro w hw
                obtain ⟨w1, w2, _, _⟩ := hI.2.2.liveSound w hw
                have := hk.2 w.id w1 ((counted_iff _).mpr (Or.inl w2))
                simp at this
              show holds chkRunWait (s.tr ++ [Ev.runret c]) = true
              unfold holds
              rw [scan_append]
              have h1 : holds chkRunWait s.tr = true := hk.1
              unfold holds at h1
              rw [h1]
              show (true && (obsOf s.tr).live.isEmpty) = true
              rw [hlive]; rfl
          | cons k ks =>
            simp only [step, List.mem_map, List.mem_filter] at hmem'
            obtain ⟨o, ⟨ho, hz⟩, heq⟩ := hmem'
            injection heq with h1 h2
            subst h1; subst h2
            refine ⟨(frame_refl s).weak, hStT, fun _ hk => ⟨hk.1, ?_⟩⟩
            intro i hi hc
            have hz' : s.wgc o = 0 := by simpa using hz
            have hmemk := hk.2 i hi hc
            have hne : (s.objs i).order ≠ o := cntd_false_of_wgc_zero hI.1 hz' hi hc
            exact (List.mem_erase_of_ne hne).mpr hmemk
        | fin => simp [step] at hmem'
    obtain ⟨hf, hSt', hK'⟩ := main
    refine ⟨hI', ?_, ?_⟩
    · intro u hu
      rcases List.mem_append.mp hu with h1 | h1
      · exact runSt_frame hf u (hSt u (by simp [h1]))
      · rcases List.mem_cons.mp h1 with rfl | h2
        · exact hSt'
        · exact runSt_frame hf u (hSt u (by simp [h2]))
    · intro hl
      have hl0 : noLateAdd s.tr = true := noLate_frame hf hl
      obtain ⟨k1, k2⟩ := hK hl0
      obtain ⟨r1, r2⟩ := hK' hl ⟨k1, k2 t (by simp)⟩
      refine ⟨r1, ?_⟩
      intro u hu
      rcases List.mem_append.mp hu with h1 | h1
      · exact runKeys_frame hf hl u (hSt u (by simp [h1])) (k2 u (by simp [h1]))
      · rcases List.mem_cons.mp h1 with rfl | h2
        · exact r2
        · exact runKeys_frame hf hl u (hSt u (by simp [h2])) (k2 u (by simp [h2]))

/-- The configuration invariant holds in every configuration reachable from a fresh daemon and a pool of
callers that have not begun their calls. -/
theorem rinv_reach {ts ts' : List Th} {s : St} (hinit : ∀ t, t ∈ ts → t.isInit = true)
    (hr : Reach (sys true) (init, ts) (s, ts')) : RInv (s, ts') := by
  refine inv_induction (S := sys true) RInv (c0 := (init, ts)) (c := (s, ts')) ?_ (fun a b ha hs => rinv_step ha hs) hr
  refine ⟨inv_init, ?_, ?_⟩
  · intro t ht
    have := hinit t ht
    cases t with
    | runner c pc => cases pc <;> first | trivial | simp [Th.isInit] at this
    | _ => trivial
  · intro _
    refine ⟨rfl, ?_⟩
    intro t ht
    have := hinit t ht
    cases t with
    | runner c pc => cases pc <;> first | trivial | simp [Th.isInit] at this
    | _ => trivial

end Hive.Daemon
