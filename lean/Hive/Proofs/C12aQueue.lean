import Hive.Model.C12aQueue
/-! The ring-index queue refines the bounded FIFO. -/
namespace Hive.C12a.Queue

/-- `x mod cap` for `x < 2*cap`, without `%`. -/
def wrap (x cap : Nat) : Nat := if x < cap then x else x - cap

theorem succ_mod {p cap : Nat} (h : p < cap) : (p + 1) % cap = wrap (p + 1) cap := by
  unfold wrap
  by_cases e : p + 1 = cap
  · rw [e, Nat.mod_self]; simp
  · rw [Nat.mod_eq_of_lt (by omega)]; simp; omega

/-- The `n` cells starting at offset `k` from `read`, in ring order. -/
def win (buf : List Nat) (cap read : Nat) : Nat → Nat → List Nat
  | _, 0 => []
  | k, n + 1 => buf.getD (wrap (read + k) cap) 0 :: win buf cap read (k + 1) n

/-- Abstraction: the live cells, oldest first. -/
def absq (s : St) : List Nat := win s.buf s.cap s.read 0 s.size

structure Inv (s : St) : Prop where
  cpos : 0 < s.cap
  len : s.buf.length = s.cap
  rd : s.read < s.cap
  sz : s.size ≤ s.cap
  wr : s.write = wrap (s.read + s.size) s.cap

theorem inv_init (c : Nat) (h : 0 < c) : Inv (init c) :=
  ⟨h, by simp [init], h, by simp [init], by simp [init, wrap, h]⟩

theorem win_length (buf : List Nat) (cap read k n : Nat) : (win buf cap read k n).length = n := by
  induction n generalizing k with
  | zero => rfl
  | succ n ih => simp [win, ih]

theorem win_snoc (buf : List Nat) (cap read k n : Nat) :
    win buf cap read k (n + 1) = win buf cap read k n ++ [buf.getD (wrap (read + (k + n)) cap) 0] := by
  induction n generalizing k with
  | zero => simp [win]
  | succ n ih =>
    rw [win, ih (k + 1)]
    simp only [win, List.cons_append]
    have : k + 1 + n = k + (n + 1) := by omega
    rw [this]

theorem win_set_ne (buf : List Nat) (cap read w x k n : Nat)
    (h : ∀ t, k ≤ t → t < k + n → wrap (read + t) cap ≠ w) :
    win (buf.set w x) cap read k n = win buf cap read k n := by
  induction n generalizing k with
  | zero => rfl
  | succ n ih =>
    simp only [win]
    rw [ih (k + 1) (fun t h1 h2 => h t (by omega) (by omega))]
    congr 1
    simp only [List.getD_eq_getElem?_getD]
    rw [List.getElem?_set_ne (Ne.symm (h k (Nat.le_refl _) (by omega)))]

/-- Shifting the read index by one cell. -/
theorem win_shift (buf : List Nat) (cap read k n : Nat) (hr : read < cap) (h : k + 1 + n ≤ cap) :
    win buf cap (wrap (read + 1) cap) k n = win buf cap read (k + 1) n := by
  induction n generalizing k with
  | zero => rfl
  | succ n ih =>
    simp only [win]
    rw [ih (k + 1) (by omega)]
    congr 2
    unfold wrap; split <;> split <;> split <;> omega

theorem inv_put {s : St} (h : Inv s) (hlt : s.size < s.cap) (x : Nat) : Inv (put s x) := by
  have := h.rd; have := h.sz; have hw := h.wr
  have hwl : s.write < s.cap := by rw [hw]; unfold wrap; split <;> omega
  refine ⟨h.cpos, by simp [put, h.len], h.rd, by simp only [put]; omega, ?_⟩
  simp only [put]
  rw [succ_mod hwl, hw]
  unfold wrap; split <;> split <;> split <;> omega

theorem abs_put {s : St} (h : Inv s) (hlt : s.size < s.cap) (x : Nat) : absq (put s x) = absq s ++ [x] := by
  have := h.rd; have := h.sz; have hw := h.wr
  have hwl : s.write < s.cap := by rw [hw]; unfold wrap; split <;> omega
  unfold absq
  simp only [put]
  rw [win_snoc, win_set_ne]
  · congr 1
    simp only [Nat.zero_add, ← hw, List.getD_eq_getElem?_getD]
    simp [h.len, hwl]
  · intro t _ ht
    rw [hw]; unfold wrap; split <;> split <;> omega

theorem inv_poll {s : St} (h : Inv s) (hne : s.size ≠ 0) : Inv (poll s).1 := by
  have := h.rd; have := h.sz; have hw := h.wr
  simp only [poll, hne, ne_eq, not_false_eq_true, if_true]
  refine ⟨h.cpos, by simp [h.len], Nat.mod_lt _ h.cpos, by simp only; omega, ?_⟩
  simp only
  rw [succ_mod h.rd, hw]
  unfold wrap; split <;> split <;> split <;> omega

theorem abs_poll {s : St} (h : Inv s) (hne : s.size ≠ 0) :
    (poll s).2 = (absq s).head? ∧ absq (poll s).1 = (absq s).tail := by
  have := h.rd; have := h.sz
  obtain ⟨n, hn⟩ : ∃ n, s.size = n + 1 := ⟨s.size - 1, by omega⟩
  have hp : poll s = ({ s with buf := s.buf.set s.read 0, read := (s.read + 1) % s.cap, size := s.size - 1 },
      some (s.buf.getD s.read 0)) := by simp [poll, hne]
  rw [hp]
  simp only [absq, hn, win, Nat.add_zero, List.head?_cons, List.tail_cons, Nat.add_sub_cancel]
  have hwr : wrap s.read s.cap = s.read := by unfold wrap; simp [h.rd]
  refine ⟨by rw [hwr], ?_⟩
  rw [succ_mod h.rd, win_shift _ _ _ _ _ h.rd (by omega), win_set_ne]
  intro t h1 h2
  unfold wrap; split <;> omega

/-- Refinement relation. -/
def Rel (s : St) (a : Spec) : Prop := Inv s ∧ a.cap = s.cap ∧ a.q = absq s

theorem rel_size {s : St} {a : Spec} (r : Rel s a) : a.q.length = s.size := by
  rw [r.2.2, absq, win_length]

theorem step_refines (s : St) (a : Spec) (r : Rel s a) (op : Op) :
    (step s op).2 = (specStep a op).2 ∧ Rel (step s op).1 (specStep a op).1 := by
  have hlen := rel_size r
  obtain ⟨hi, hc, hq⟩ := r
  obtain ⟨q, c⟩ := a
  simp only at hc hq hlen
  subst hc hq
  have hsz := hi.sz
  cases op with
  | offer x =>
    simp only [step, offer, specStep, hlen]
    by_cases hf : s.size = s.cap
    · simp only [hf, if_true]; exact ⟨trivial, hi, rfl, rfl⟩
    · simp only [hf, if_false]
      exact ⟨trivial, inv_put hi (by omega) x, rfl, by rw [abs_put hi (by omega)]⟩
  | force x =>
    simp only [step, forceOffer, specStep, hlen]
    by_cases hf : s.size = s.cap
    · simp only [hf, if_true]
      have hne : s.size ≠ 0 := by have := hi.cpos; omega
      obtain ⟨p1, p2⟩ := abs_poll hi hne
      have hi' := inv_poll hi hne
      have hlt : (poll s).1.size < (poll s).1.cap := by
        simp only [poll, hne, ne_eq, not_false_eq_true, if_true]; omega
      have hcap : (poll s).1.cap = s.cap := by simp only [poll]; split <;> rfl
      refine ⟨by rw [p1], inv_put hi' hlt x, ?_, ?_⟩
      · simp only [put, hcap]
      · rw [abs_put hi' hlt, p2]
    · simp only [hf, if_false]
      exact ⟨trivial, inv_put hi (by omega) x, rfl, by rw [abs_put hi (by omega)]⟩
  | poll =>
    simp only [step, specStep]
    by_cases hne : s.size = 0
    · have hnil : absq s = [] := List.eq_nil_of_length_eq_zero (by omega)
      simp only [poll, hne, ne_eq, not_true_eq_false, if_false, hnil, List.head?_nil, List.tail_nil, true_and]
      exact ⟨hi, rfl, hnil.symm⟩
    · obtain ⟨p1, p2⟩ := abs_poll hi hne
      have hcap : (poll s).1.cap = s.cap := by simp only [poll]; split <;> rfl
      exact ⟨by rw [p1], inv_poll hi hne, by simp only [hcap], by rw [p2]⟩
  | size => exact ⟨by simp [step, specStep, hlen], hi, rfl, rfl⟩
  | cap => exact ⟨by simp [step, specStep], hi, rfl, rfl⟩

theorem run_refines (s : St) (a : Spec) (r : Rel s a) (ops : List Op) :
    (run s ops).2 = (specRun a ops).2 ∧ Rel (run s ops).1 (specRun a ops).1 := by
  induction ops generalizing s a with
  | nil => exact ⟨rfl, r⟩
  | cons op ops ih =>
    obtain ⟨h1, h2⟩ := step_refines s a r op
    obtain ⟨i1, i2⟩ := ih _ _ h2
    simp only [run, specRun]
    exact ⟨by rw [h1, i1], i2⟩

theorem rel_init (c : Nat) (h : 0 < c) : Rel (init c) ⟨[], c⟩ :=
  ⟨inv_init c h, rfl, by simp [absq, init, win]⟩

end Hive.C12a.Queue
