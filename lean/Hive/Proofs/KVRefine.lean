import Hive.Proofs.KVIter
import Hive.Proofs.KVBatch
/-!
# The model refines the ordered-map specification

`abs` forgets everything the specification does not have: the order of the Go map (sorted away),
the wrapper stacks of views and batches, the batch's set/delete maps (the ghost call log is kept).
-/
namespace Hive.KV

/-- closes `a = a` goals whether or not `simp` already turned them into `True` -/
macro "triv" : tactic => `(tactic| first | rfl | trivial)

/-! ## wrappers are transparent -/

theorem vFlush_eq (ws : List Wrap) (s : Store) : vFlush ws s = dbCheck s := by
  induction ws with
  | nil => rfl
  | cons w t ih => simpa [vFlush] using ih

theorem vRead_eq (f : Store → Out) (ws : List Wrap) (s : Store) : vRead f ws s = f s := by
  induction ws with
  | nil => rfl
  | cons w t ih => simpa [vRead] using ih

/-- A mutator that reports `ok` only on an open store, and leaves it open. -/
def FlushSafe (f : Store → Store × Out) : Prop := ∀ s, (f s).2 = .ok → (f s).1.closed = false

theorem vMut_eq {f : Store → Store × Out} (hf : FlushSafe f) (ws : List Wrap) (s : Store) :
    vMut f ws s = f s := by
  induction ws with
  | nil => rfl
  | cons w t ih =>
    cases w with
    | debug => simpa [vMut] using ih
    | flush =>
      simp only [vMut, ih]
      have h := hf s
      rcases hfs : f s with ⟨s', o⟩
      rw [hfs] at h
      cases o <;> simp_all [vFlush_eq, dbCheck]

theorem flushSafe_set (r k v : Bytes) : FlushSafe (dbSet r k v) := by
  intro s; unfold dbSet; cases h : s.closed <;> simp [h]

theorem flushSafe_delete (r k : Bytes) : FlushSafe (dbDelete r k) := by
  intro s; unfold dbDelete; cases h : s.closed <;> simp [h]

theorem flushSafe_deletePrefix (r p : Bytes) : FlushSafe (dbDeletePrefix r p) := by
  intro s; unfold dbDeletePrefix; cases h : s.closed <;> simp [h]

theorem flushSafe_clear (r : Bytes) : FlushSafe (dbClear r) := by
  intro s; unfold dbClear; cases h : s.closed <;> simp [h]

theorem flushSafe_commit (r : Bytes) (sets : AList) (dels : List Bytes) : FlushSafe (dbCommit r sets dels) := by
  intro s; unfold dbCommit; cases h : s.closed <;> simp [h]

/-! ## abstraction and invariant -/

def absBatch (b : Batch) : Spec.SBatch := { realm := b.realm, log := b.log }

def abs (s : St) : Spec.St :=
  { m := absMap s.db.m
    closed := s.db.closed
    views := s.views.map (fun e => (e.1, e.2.realm))
    batches := s.batches.map (fun e => (e.1, absBatch e.2)) }

structure Inv (s : St) : Prop where
  nodup : NoDupKeys s.db.m
  batches : ∀ e ∈ s.batches, BatchInv e.2

theorem inv_init : Inv init := by
  constructor
  · simp [init, NoDupKeys]
  · simp [init]

theorem abs_init : abs init = Spec.init := by
  simp [abs, init, Spec.init, absMap, sortBy]

theorem lookup_map {α β : Type} (f : α → β) (l : List (Nat × α)) (k : Nat) :
    (l.map (fun e => (e.1, f e.2))).lookup k = (l.lookup k).map f := by
  induction l with
  | nil => rfl
  | cons e t ih =>
    obtain ⟨i, x⟩ := e
    simp only [List.map_cons, List.lookup_cons]
    cases h : (k == i) <;> simp [ih]

theorem lookup_mem {α : Type} {l : List (Nat × α)} {k : Nat} {x : α} (h : l.lookup k = some x) :
    (k, x) ∈ l := by
  induction l with
  | nil => simp at h
  | cons e t ih =>
    obtain ⟨i, y⟩ := e
    rw [List.lookup_cons] at h
    cases hk : (k == i) with
    | true =>
      simp only [hk] at h
      have : k = i := by simpa using hk
      cases h; subst this; exact List.mem_cons_self ..
    | false =>
      simp only [hk] at h
      exact List.mem_cons_of_mem _ (ih h)

theorem filter_map_batches (l : List (Nat × Batch)) (b : Nat) :
    (l.map (fun e => (e.1, absBatch e.2))).filter (fun e => e.1 != b) =
      (l.filter (fun e => e.1 != b)).map (fun e => (e.1, absBatch e.2)) := by
  induction l with
  | nil => rfl
  | cons e t ih =>
    simp only [List.map_cons, List.filter_cons]
    split <;> simp [ih]

theorem abs_views_lookup (s : St) (v : Nat) :
    (abs s).views.lookup v = (s.views.lookup v).map (fun vw => vw.realm) := by
  unfold abs; exact lookup_map (fun vw : View => vw.realm) s.views v

theorem abs_batches_lookup (s : St) (b : Nat) :
    (abs s).batches.lookup b = (s.batches.lookup b).map absBatch := by
  unfold abs; exact lookup_map absBatch s.batches b

/-! ## one step -/

/-- What one refinement step has to establish. -/
def StepOk (s : St) (op : Op) : Prop :=
  (step s op).2 = (Spec.step (abs s) op).2 ∧ abs (step s op).1 = (Spec.step (abs s) op).1 ∧ Inv (step s op).1

theorem inv_db {s : St} (h : Inv s) (db : Store) (hn : NoDupKeys db.m) : Inv { s with db := db } :=
  ⟨hn, h.batches⟩

theorem inv_views {s : St} (h : Inv s) (vs : List (Nat × View)) : Inv { s with views := vs } :=
  ⟨h.nodup, h.batches⟩

theorem inv_batch_cons {s : St} (h : Inv s) (b : Nat) (bt : Batch) (hb : BatchInv bt) :
    Inv { s with batches := (b, bt) :: s.batches } :=
  ⟨h.nodup, fun e he => by
    rcases List.mem_cons.mp he with rfl | he
    · exact hb
    · exact h.batches e he⟩

/-- View-level read requests. -/
theorem step_read (s : St) (v : Nat) (f : View → Store → Out) (g : Bytes → Out)
    (hfg : ∀ vw, s.db.closed = false → f vw s.db = g vw.realm)
    (hc : ∀ vw, s.db.closed = true → f vw s.db = .closed) (h : Inv s) :
    (onView s v fun vw => (s, vRead (f vw) vw.wraps s.db)).2 =
      (Spec.onView (abs s) v fun r => (abs s, g r)).2 ∧
    abs (onView s v fun vw => (s, vRead (f vw) vw.wraps s.db)).1 =
      (Spec.onView (abs s) v fun r => (abs s, g r)).1 ∧
    Inv (onView s v fun vw => (s, vRead (f vw) vw.wraps s.db)).1 := by
  unfold onView Spec.onView
  rw [abs_views_lookup]
  cases hv : s.views.lookup v with
  | none => exact ⟨by triv, by triv, h⟩
  | some vw =>
    simp only [Option.map_some, vRead_eq]
    cases hcl : s.db.closed with
    | true =>
      have : (abs s).closed = true := hcl
      simp only [this, if_true]
      exact ⟨hc vw hcl, by triv, h⟩
    | false =>
      have : (abs s).closed = false := hcl
      simp only [this]
      exact ⟨hfg vw hcl, by triv, h⟩

/-- View-level mutating requests. -/
theorem step_mut (s : St) (v : Nat) (f : View → Store → Store × Out) (g : Bytes → AList → AList)
    (hsafe : ∀ vw, FlushSafe (f vw))
    (hopen : ∀ vw, s.db.closed = false → f vw s.db = ({ s.db with m := (f vw s.db).1.m }, .ok))
    (hm : ∀ vw, s.db.closed = false → NoDupKeys (f vw s.db).1.m ∧
      absMap (f vw s.db).1.m = g vw.realm (absMap s.db.m))
    (hc : ∀ vw, s.db.closed = true → f vw s.db = (s.db, .closed)) (h : Inv s) :
    (onView s v fun vw => mutate s vw (f vw)).2 =
      (Spec.onView (abs s) v fun r => ({ abs s with m := g r (abs s).m }, .ok)).2 ∧
    abs (onView s v fun vw => mutate s vw (f vw)).1 =
      (Spec.onView (abs s) v fun r => ({ abs s with m := g r (abs s).m }, .ok)).1 ∧
    Inv (onView s v fun vw => mutate s vw (f vw)).1 := by
  unfold onView Spec.onView
  rw [abs_views_lookup]
  cases hv : s.views.lookup v with
  | none => exact ⟨by triv, by triv, h⟩
  | some vw =>
    simp only [Option.map_some, mutate, vMut_eq (hsafe vw)]
    cases hcl : s.db.closed with
    | true =>
      have : (abs s).closed = true := hcl
      simp only [this, if_true, hc vw hcl]
      exact ⟨by triv, by triv, h⟩
    | false =>
      have hcl' : (abs s).closed = false := hcl
      simp only [hcl']
      obtain ⟨hn, ha⟩ := hm vw hcl
      rw [hopen vw hcl]
      refine ⟨by triv, ?_, inv_db h _ hn⟩
      simp only [abs]
      rw [ha]
      simp [hcl]

theorem stepOk_view (s : St) (h : Inv s) (v p : Nat) (realm : Bytes) (mode : Mode) :
    StepOk s (.view v p realm mode) := by
  unfold StepOk
  simp only [step, Spec.step, onView, Spec.onView, abs_views_lookup]
  cases hv : s.views.lookup p with
  | none => exact ⟨by triv, by triv, h⟩
  | some pv =>
    simp only [Option.map_some, vRead_eq, dbCheck]
    cases hcl : s.db.closed with
    | true =>
      have : (abs s).closed = true := hcl
      simp only [this, if_true]
      exact ⟨by triv, by triv, h⟩
    | false =>
      have : (abs s).closed = false := hcl
      simp only [this]
      refine ⟨by triv, ?_, inv_views h _⟩
      cases mode <;> simp [abs, hcl]

theorem stepOk_wrap (s : St) (h : Inv s) (v p : Nat) (w : Wrap) : StepOk s (.wrap v p w) := by
  unfold StepOk
  simp only [step, Spec.step, onView, abs_views_lookup]
  cases hv : s.views.lookup p with
  | none => exact ⟨by triv, by triv, h⟩
  | some pv => exact ⟨by triv, by simp [abs], inv_views h _⟩

theorem stepOk_realm (s : St) (h : Inv s) (v : Nat) : StepOk s (.realm v) := by
  unfold StepOk
  simp only [step, Spec.step, onView, abs_views_lookup]
  cases hv : s.views.lookup v with
  | none => exact ⟨by triv, by triv, h⟩
  | some vw => exact ⟨by triv, by triv, h⟩

theorem stepOk_close (s : St) (h : Inv s) (v : Nat) : StepOk s (.close v) := by
  unfold StepOk
  simp only [step, Spec.step, onView, abs_views_lookup]
  cases hv : s.views.lookup v with
  | none => exact ⟨by triv, by triv, h⟩
  | some vw => exact ⟨by triv, by simp [abs], ⟨h.nodup, h.batches⟩⟩

theorem stepOk_get (s : St) (h : Inv s) (v : Nat) (k : Bytes) : StepOk s (.get v k) := by
  unfold StepOk
  simp only [step, Spec.step]
  apply step_read s v (fun vw => dbGet vw.realm k)
    (fun r => match Spec.lookup (r ++ k) (abs s).m with | none => .notfound | some x => .val x) _ _ h
  · intro vw hcl
    simp only [dbGet, hcl, abs, lookup_eq_aget, aget_absMap h.nodup]
    rfl
  · intro vw hcl; simp [dbGet, hcl]

theorem stepOk_has (s : St) (h : Inv s) (v : Nat) (k : Bytes) : StepOk s (.has v k) := by
  unfold StepOk
  simp only [step, Spec.step]
  apply step_read s v (fun vw => dbHas vw.realm k)
    (fun r => .bool (Spec.lookup (r ++ k) (abs s).m).isSome) _ _ h
  · intro vw hcl
    simp only [dbHas, hcl, abs, lookup_eq_aget, aget_absMap h.nodup]
    rfl
  · intro vw hcl; simp [dbHas, hcl]

theorem stepOk_flush (s : St) (h : Inv s) (v : Nat) : StepOk s (.flush v) := by
  unfold StepOk
  simp only [step, Spec.step]
  have := step_read s v (fun _ => dbCheck) (fun _ => .ok)
    (fun vw hcl => by simp [dbCheck, hcl]) (fun vw hcl => by simp [dbCheck, hcl]) h
  simpa only [vRead_eq, vFlush_eq] using this

theorem stepOk_iter (s : St) (h : Inv s) (v : Nat) (p : Bytes) (d : Dir) (stop : Nat) :
    StepOk s (.iter v p d stop) := by
  unfold StepOk
  simp only [step, Spec.step]
  apply step_read s v (fun vw => dbIterate vw.realm p d stop)
    (fun r => .kvs (Spec.iterate (r ++ p) r.length d stop (abs s).m)) _ _ h
  · intro vw hcl
    simp only [dbIterate, hcl, abs, Spec.iterate, iterAll_eq _ _ _ h.nodup, stopAfter_map]
    rfl
  · intro vw hcl; simp [dbIterate, hcl]

theorem stepOk_iterk (s : St) (h : Inv s) (v : Nat) (p : Bytes) (d : Dir) (stop : Nat) :
    StepOk s (.iterk v p d stop) := by
  unfold StepOk
  simp only [step, Spec.step]
  apply step_read s v (fun vw => dbIterateKeys vw.realm p d stop)
    (fun r => .keys ((Spec.iterate (r ++ p) r.length d stop (abs s).m).map (·.1))) _ _ h
  · intro vw hcl
    simp only [dbIterateKeys, hcl, abs, Spec.iterate, iterKeysAll_eq, iterAll_eq _ _ _ h.nodup, stopAfter_map]
    rfl
  · intro vw hcl; simp [dbIterateKeys, hcl]

theorem stepOk_set (s : St) (h : Inv s) (v : Nat) (k x : Bytes) : StepOk s (.set v k x) := by
  unfold StepOk
  simp only [step, Spec.step]
  apply step_mut s v (fun vw => dbSet vw.realm k x) (fun r m => Spec.insert (r ++ k) x m)
    (fun vw => flushSafe_set _ _ _) _ _ _ h
  · intro vw hcl; simp [dbSet, hcl]
  · intro vw hcl
    simp only [dbSet, hcl]
    exact ⟨noDup_aset _ _ h.nodup, absMap_aset _ _ h.nodup⟩
  · intro vw hcl; simp [dbSet, hcl]

theorem stepOk_del (s : St) (h : Inv s) (v : Nat) (k : Bytes) : StepOk s (.del v k) := by
  unfold StepOk
  simp only [step, Spec.step]
  apply step_mut s v (fun vw => dbDelete vw.realm k) (fun r m => Spec.erase (r ++ k) m)
    (fun vw => flushSafe_delete _ _) _ _ _ h
  · intro vw hcl; simp [dbDelete, hcl]
  · intro vw hcl
    simp only [dbDelete, hcl]
    exact ⟨noDup_adel _ h.nodup, absMap_adel _ h.nodup⟩
  · intro vw hcl; simp [dbDelete, hcl]

theorem stepOk_delp (s : St) (h : Inv s) (v : Nat) (p : Bytes) : StepOk s (.delp v p) := by
  unfold StepOk
  simp only [step, Spec.step]
  apply step_mut s v (fun vw => dbDeletePrefix vw.realm p) (fun r m => Spec.erasePfx (r ++ p) m)
    (fun vw => flushSafe_deletePrefix _ _) _ _ _ h
  · intro vw hcl; simp [dbDeletePrefix, hcl]
  · intro vw hcl
    simp only [dbDeletePrefix, hcl]
    exact ⟨noDup_adelPfx _ h.nodup, absMap_adelPfx _ h.nodup⟩
  · intro vw hcl; simp [dbDeletePrefix, hcl]

theorem stepOk_clear (s : St) (h : Inv s) (v : Nat) : StepOk s (.clear v) := by
  unfold StepOk
  simp only [step, Spec.step]
  apply step_mut s v (fun vw => dbClear vw.realm) (fun r m => Spec.erasePfx r m)
    (fun vw => flushSafe_clear _) _ _ _ h
  · intro vw hcl; simp [dbClear, hcl]
  · intro vw hcl
    simp only [dbClear, hcl]
    exact ⟨noDup_adelPfx _ h.nodup, absMap_adelPfx _ h.nodup⟩
  · intro vw hcl; simp [dbClear, hcl]

theorem stepOk_batch (s : St) (h : Inv s) (b v : Nat) : StepOk s (.batch b v) := by
  unfold StepOk
  simp only [step, Spec.step, onView, Spec.onView, abs_views_lookup]
  cases hv : s.views.lookup v with
  | none => exact ⟨by triv, by triv, h⟩
  | some vw =>
    simp only [Option.map_some, vRead_eq, dbCheck]
    cases hcl : s.db.closed with
    | true =>
      have : (abs s).closed = true := hcl
      simp only [this, if_true]
      exact ⟨by triv, by triv, h⟩
    | false =>
      have : (abs s).closed = false := hcl
      simp only [this]
      exact ⟨by triv, by simp [abs, absBatch, hcl], inv_batch_cons h _ _ (batchInv_empty _ _)⟩

theorem stepOk_bset (s : St) (h : Inv s) (b : Nat) (k x : Bytes) : StepOk s (.bset b k x) := by
  unfold StepOk
  simp only [step, Spec.step, onBatch, Spec.onBatch, abs_batches_lookup]
  cases hb : s.batches.lookup b with
  | none => exact ⟨by triv, by triv, h⟩
  | some bt =>
    exact ⟨by triv, by simp [abs, absBatch],
      inv_batch_cons h _ _ (batchInv_set (h.batches _ (lookup_mem hb)) k x)⟩

theorem stepOk_bdel (s : St) (h : Inv s) (b : Nat) (k : Bytes) : StepOk s (.bdel b k) := by
  unfold StepOk
  simp only [step, Spec.step, onBatch, Spec.onBatch, abs_batches_lookup]
  cases hb : s.batches.lookup b with
  | none => exact ⟨by triv, by triv, h⟩
  | some bt =>
    exact ⟨by triv, by simp [abs, absBatch],
      inv_batch_cons h _ _ (batchInv_del (h.batches _ (lookup_mem hb)) k)⟩

theorem stepOk_cancel (s : St) (h : Inv s) (b : Nat) : StepOk s (.cancel b) := by
  unfold StepOk
  simp only [step, Spec.step, onBatch, Spec.onBatch, abs_batches_lookup]
  cases hb : s.batches.lookup b with
  | none => exact ⟨by triv, by triv, h⟩
  | some bt =>
    exact ⟨by triv, by simp [abs, absBatch], inv_batch_cons h _ _ (batchInv_empty _ _)⟩

theorem inv_release {s : St} (h : Inv s) (db : Store) (hn : NoDupKeys db.m) (final : Bool) (b : Nat) :
    Inv { s with db := db, batches := if final then s.batches.filter (fun e => e.1 != b) else s.batches } :=
  ⟨hn, fun e he => by
    cases final with
    | false => exact h.batches e he
    | true => exact h.batches e (List.mem_filter.mp he).1⟩

theorem abs_release (s : St) (final : Bool) (b : Nat) :
    (if final then s.batches.filter (fun e => e.1 != b) else s.batches).map (fun e => (e.1, absBatch e.2)) =
      if final then (s.batches.map (fun e => (e.1, absBatch e.2))).filter (fun e => e.1 != b)
      else s.batches.map (fun e => (e.1, absBatch e.2)) := by
  cases final <;> simp [filter_map_batches]

theorem stepOk_commit (s : St) (h : Inv s) (b : Nat) (final : Bool) : StepOk s (.commit b final) := by
  unfold StepOk
  simp only [step, Spec.step, onBatch, Spec.onBatch, abs_batches_lookup]
  cases hb : s.batches.lookup b with
  | none => exact ⟨by triv, by triv, h⟩
  | some bt =>
    have hbi : BatchInv bt := h.batches (b, bt) (lookup_mem hb)
    simp only [Option.map_some, vMut_eq (flushSafe_commit _ _ _)]
    cases hcl : s.db.closed with
    | true =>
      have hc : (abs s).closed = true := hcl
      have hdc : dbCommit bt.realm bt.sets bt.dels s.db = (s.db, .closed) := by simp [dbCommit, hcl]
      simp only [hc, if_true, hdc]
      refine ⟨by triv, ?_, inv_release h _ h.nodup _ _⟩
      simp only [abs, abs_release, hcl]
    | false =>
      have hc : (abs s).closed = false := hcl
      have hdc : dbCommit bt.realm bt.sets bt.dels s.db =
          ({ s.db with m := commitMap bt.realm bt.sets bt.dels s.db.m }, .ok) := by
        simp [dbCommit, hcl, commitMap]
      simp only [hc, hdc]
      refine ⟨by triv, ?_, inv_release h _ (noDup_commitMap _ _ _ h.nodup) _ _⟩
      simp only [abs, abs_release, absMap_commitMap hbi h.nodup]
      simp [absBatch, fullWrites, hcl]

/-- **Refinement, one step**: every request gets the ordered map's answer, the abstraction
commutes, the invariant is kept. -/
theorem step_refines (s : St) (h : Inv s) (op : Op) : StepOk s op := by
  cases op with
  | view v p realm mode => exact stepOk_view s h v p realm mode
  | wrap v p w => exact stepOk_wrap s h v p w
  | realm v => exact stepOk_realm s h v
  | get v k => exact stepOk_get s h v k
  | has v k => exact stepOk_has s h v k
  | set v k x => exact stepOk_set s h v k x
  | del v k => exact stepOk_del s h v k
  | delp v p => exact stepOk_delp s h v p
  | clear v => exact stepOk_clear s h v
  | flush v => exact stepOk_flush s h v
  | close v => exact stepOk_close s h v
  | iter v p d stop => exact stepOk_iter s h v p d stop
  | iterk v p d stop => exact stepOk_iterk s h v p d stop
  | batch b v => exact stepOk_batch s h b v
  | bset b k x => exact stepOk_bset s h b k x
  | bdel b k => exact stepOk_bdel s h b k
  | commit b final => exact stepOk_commit s h b final
  | cancel b => exact stepOk_cancel s h b

/-- **Refinement, all histories.** -/
theorem run_refines (s : St) (h : Inv s) (ops : List Op) :
    (run s ops).2 = (Spec.run (abs s) ops).2 ∧ abs (run s ops).1 = (Spec.run (abs s) ops).1 ∧
      Inv (run s ops).1 := by
  induction ops generalizing s with
  | nil => exact ⟨by triv, by triv, h⟩
  | cons op ops ih =>
    obtain ⟨h1, h2, h3⟩ := step_refines s h op
    obtain ⟨i1, i2, i3⟩ := ih (step s op).1 h3
    simp only [run, Spec.run]
    rw [← h2, h1, i1, i2]
    exact ⟨rfl, rfl, i3⟩

/-! ## closed is forever -/

theorem dbCommit_empty (r : Bytes) (db : Store) :
    dbCommit r [] [] db = (db, if db.closed then .closed else .ok) := by
  obtain ⟨m, c⟩ := db
  cases c <;> simp [dbCommit]

theorem onView_closed (t : St) (v : Nat) (f : View → St × Out) (h0 : t.db.closed = true)
    (hf : ∀ vw, (f vw).1.db.closed = true) : (onView t v f).1.db.closed = true := by
  unfold onView; split
  · exact h0
  · exact hf _

theorem onBatch_closed (t : St) (b : Nat) (f : Batch → St × Out) (h0 : t.db.closed = true)
    (hf : ∀ bt, (f bt).1.db.closed = true) : (onBatch t b f).1.db.closed = true := by
  unfold onBatch; split
  · exact h0
  · exact hf _

theorem mutate_closed (t : St) (vw : View) (f : Store → Store × Out) (hs : FlushSafe f)
    (hf : (f t.db).1.closed = true) : (mutate t vw f).1.db.closed = true := by
  unfold mutate; rw [vMut_eq hs]; exact hf

/-- No request re-opens a closed store. -/
theorem step_closed (t : St) (h0 : t.db.closed = true) (op : Op) : (step t op).1.db.closed = true := by
  cases op with
  | view v p realm mode =>
    apply onView_closed _ _ _ h0; intro pv
    simp [vRead_eq, dbCheck, h0]
  | wrap v p w => apply onView_closed _ _ _ h0; intro pv; exact h0
  | realm v => apply onView_closed _ _ _ h0; intro pv; exact h0
  | get v k => apply onView_closed _ _ _ h0; intro pv; exact h0
  | has v k => apply onView_closed _ _ _ h0; intro pv; exact h0
  | set v k x =>
    apply onView_closed _ _ _ h0; intro vw
    exact mutate_closed _ _ _ (flushSafe_set _ _ _) (by simp [dbSet, h0])
  | del v k =>
    apply onView_closed _ _ _ h0; intro vw
    exact mutate_closed _ _ _ (flushSafe_delete _ _) (by simp [dbDelete, h0])
  | delp v p =>
    apply onView_closed _ _ _ h0; intro vw
    exact mutate_closed _ _ _ (flushSafe_deletePrefix _ _) (by simp [dbDeletePrefix, h0])
  | clear v =>
    apply onView_closed _ _ _ h0; intro vw
    exact mutate_closed _ _ _ (flushSafe_clear _) (by simp [dbClear, h0])
  | flush v => apply onView_closed _ _ _ h0; intro pv; exact h0
  | close v => apply onView_closed _ _ _ h0; intro pv; rfl
  | iter v p d stop => apply onView_closed _ _ _ h0; intro pv; exact h0
  | iterk v p d stop => apply onView_closed _ _ _ h0; intro pv; exact h0
  | batch b v =>
    apply onView_closed _ _ _ h0; intro pv
    simp [vRead_eq, dbCheck, h0]
  | bset b k x => apply onBatch_closed _ _ _ h0; intro bt; exact h0
  | bdel b k => apply onBatch_closed _ _ _ h0; intro bt; exact h0
  | commit b final =>
    apply onBatch_closed _ _ _ h0; intro bt
    simp [vMut_eq (flushSafe_commit _ _ _), dbCommit, h0]
  | cancel b => apply onBatch_closed _ _ _ h0; intro bt; exact h0

theorem run_closed (t : St) (h0 : t.db.closed = true) (ops : List Op) : (run t ops).1.db.closed = true := by
  induction ops generalizing t with
  | nil => exact h0
  | cons op ops ih => exact ih _ (step_closed t h0 op)

end Hive.KV
