import Hive.Proofs.SafeMathLemmas
import Hive.Gen.C19_SafeMath
/-! SafeMulInt64 (the sign bookkeeping around a 128-bit unsigned multiplication): the definition generated from core/safemath/safe_math.go meets the specification, for every width and signedness. -/
namespace Hive.GoInt
open Hive.Gen.SafeMath IntTy

theorem safeMulInt64_exact (x y : Int) (hx : IntTy.i64.InRange x) (hy : IntTy.i64.InRange y) :
    SafeMulInt64 x y = exact IntTy.i64 (x * y) := by
  rw [i64_inRange] at hx hy
  by_cases h0 : x = 0 ∨ y = 0
  · have hz : x * y = 0 := by rcases h0 with h | h <;> simp [h]
    have hin : IntTy.i64.InRange 0 := by rw [i64_inRange]; omega
    unfold SafeMulInt64 exact
    rw [hz, if_pos hin]
    rcases h0 with h | h <;> simp [h]
  · have hx0 : x ≠ 0 := fun h => h0 (Or.inl h)
    have hy0 : y ≠ 0 := fun h => h0 (Or.inr h)
    rcases Int.lt_or_lt_of_ne hx0 with hxn | hxp <;> rcases Int.lt_or_lt_of_ne hy0 with hyn | hyp
    · -- x < 0, y < 0
      have e1 : ¬ x > 0 := by omega
      have e2 : ¬ y > 0 := by omega
      unfold SafeMulInt64
      simp only [hx0, hy0, hxn, hyn, e1, e2, decide_false, decide_true, Bool.or_self, Bool.false_eq_true,
        if_false, if_true, mul64, pow64]
      rw [abs_of_neg x ⟨hx.1, hxn⟩, abs_of_neg y ⟨hy.1, hyn⟩]
      have hP : 0 < -x * -y := Int.mul_pos (by omega) (by omega)
      have hxy : x * y = -x * -y := by rw [Int.neg_mul_neg]
      rw [hxy]
      exact tailPos _ hP
    · -- x < 0, y > 0
      have e1 : ¬ x > 0 := by omega
      have e2 : ¬ y < 0 := by omega
      unfold SafeMulInt64
      simp only [hx0, hy0, hxn, hyp, e1, e2, decide_false, decide_true, Bool.or_self, Bool.false_eq_true,
        if_false, if_true, mul64, pow64]
      rw [abs_of_neg x ⟨hx.1, hxn⟩, abs_of_pos y ⟨hyp, hy.2⟩]
      have hP : 0 < -x * y := Int.mul_pos (by omega) hyp
      have hxy : x * y = -(-x * y) := by rw [Int.neg_mul, Int.neg_neg]
      rw [hxy]
      exact tailNeg _ hP
    · -- x > 0, y < 0
      have e1 : ¬ x < 0 := by omega
      have e2 : ¬ y > 0 := by omega
      unfold SafeMulInt64
      simp only [hx0, hy0, hxp, hyn, e1, e2, decide_false, decide_true, Bool.or_self, Bool.false_eq_true,
        if_false, if_true, mul64, pow64]
      rw [abs_of_pos x ⟨hxp, hx.2⟩, abs_of_neg y ⟨hy.1, hyn⟩]
      have hP : 0 < x * -y := Int.mul_pos hxp (by omega)
      have hxy : x * y = -(x * -y) := by rw [Int.mul_neg, Int.neg_neg]
      rw [hxy]
      exact tailNeg _ hP
    · -- x > 0, y > 0
      have e1 : ¬ x < 0 := by omega
      have e2 : ¬ y < 0 := by omega
      unfold SafeMulInt64
      simp only [hx0, hy0, hxp, hyp, e1, e2, decide_false, decide_true, Bool.or_self, Bool.false_eq_true,
        if_false, if_true, mul64, pow64]
      rw [abs_of_pos x ⟨hxp, hx.2⟩, abs_of_pos y ⟨hyp, hy.2⟩]
      exact tailPos _ (Int.mul_pos hxp hyp)

end Hive.GoInt
