import Hive.Proofs.SafeMath64
/-! SafeMulInt64: the sign bookkeeping around a 128-bit unsigned multiplication. -/
namespace Hive.GoInt
open Hive.Gen.SafeMath IntTy

theorem i64_wrap (z : Int) : IntTy.i64.wrap z =
    if z % 18446744073709551616 < 9223372036854775808 then z % 18446744073709551616
    else z % 18446744073709551616 - 18446744073709551616 := by
  have h1 : (2 : Int) ^ (64 - 1) = 9223372036854775808 := by decide
  simp only [wrap, i64, modulus, pow64, h1, if_true]

theorem u64_wrap (z : Int) : IntTy.u64.wrap z = z % 18446744073709551616 := by
  simp only [wrap, u64, modulus, pow64, Bool.false_eq_true, if_false]

/-- `(z >> 63) & 1 == 1` tests the sign of an int64. -/
theorem signBit (z : Int) (hz : -9223372036854775808 ≤ z ∧ z < 9223372036854775808) :
    decide (IntTy.i64.and (IntTy.i64.shr z 63) 1 = 1) = decide (z < 0) := by
  have h63 : (2 : Int) ^ (63 : Int).toNat = 9223372036854775808 := by decide
  unfold IntTy.shr
  rw [h63]
  by_cases hneg : z < 0
  · have : z / 9223372036854775808 = -1 := by omega
    rw [this]
    have : IntTy.i64.and (-1) 1 = 1 := by decide
    simp [this, hneg]
  · have : z / 9223372036854775808 = 0 := by omega
    rw [this]
    have : IntTy.i64.and 0 1 = 0 := by decide
    simp [this, hneg]

theorem i64_wrap_range (z : Int) :
    -9223372036854775808 ≤ IntTy.i64.wrap z ∧ IntTy.i64.wrap z < 9223372036854775808 := by
  rw [i64_wrap]; split <;> omega

/-- Tail of SafeMulInt64 when the product is expected to be positive (`resultSign = 1`). -/
theorem tailPos (P : Int) (hP : 0 < P) :
    (if decide (P / 18446744073709551616 ≠ 0) = true then Res.overflow
      else if decide (IntTy.i64.and (IntTy.i64.shr (IntTy.i64.mul (IntTy.i64.wrap (P % 18446744073709551616)) 1) 63) 1 = 1) = true
        then Res.overflow
        else Res.ok (IntTy.i64.mul (IntTy.i64.wrap (P % 18446744073709551616)) 1))
      = exact IntTy.i64 P := by
  unfold exact
  simp only [i64_inRange]
  have hmul : IntTy.i64.mul (IntTy.i64.wrap (P % 18446744073709551616)) 1
      = IntTy.i64.wrap (P % 18446744073709551616) := by
    unfold IntTy.mul
    rw [Int.mul_one, i64_wrap, i64_wrap]
    split <;> omega
  rw [hmul, signBit _ (i64_wrap_range _)]
  by_cases hhi : P / 18446744073709551616 = 0
  · have hlo : P % 18446744073709551616 = P := by omega
    rw [hlo, i64_wrap]
    by_cases hsmall : P < 9223372036854775808
    · have h1 : P % 18446744073709551616 = P := by omega
      have h2 : ¬ P < 0 := by omega
      have h3 : -9223372036854775808 ≤ P := by omega
      simp [hhi, h1, hsmall, h2, h3]
    · have h1 : P % 18446744073709551616 = P := by omega
      have h2 : P - 18446744073709551616 < 0 := by omega
      have h3 : ¬ (-9223372036854775808 ≤ P ∧ P < 9223372036854775808) := by omega
      simp [hhi, h1, hsmall, h2, h3]
  · have h3 : ¬ (-9223372036854775808 ≤ P ∧ P < 9223372036854775808) := by omega
    simp [hhi, h3]

/-- Tail of SafeMulInt64 when the product is expected to be negative (`resultSign = -1`). -/
theorem tailNeg (P : Int) (hP : 0 < P) :
    (if decide (P / 18446744073709551616 ≠ 0) = true then Res.overflow
      else if (!decide (IntTy.i64.and (IntTy.i64.shr (IntTy.i64.mul (IntTy.i64.wrap (P % 18446744073709551616)) (-1)) 63) 1 = 1)) = true
        then Res.overflow
        else Res.ok (IntTy.i64.mul (IntTy.i64.wrap (P % 18446744073709551616)) (-1)))
      = exact IntTy.i64 (-P) := by
  unfold exact
  simp only [i64_inRange]
  have hrange : -9223372036854775808 ≤ IntTy.i64.mul (IntTy.i64.wrap (P % 18446744073709551616)) (-1) ∧
      IntTy.i64.mul (IntTy.i64.wrap (P % 18446744073709551616)) (-1) < 9223372036854775808 := by
    unfold IntTy.mul; exact i64_wrap_range _
  rw [signBit _ hrange]
  by_cases hhi : P / 18446744073709551616 = 0
  · have hlo : P % 18446744073709551616 = P := by omega
    have hval : IntTy.i64.mul (IntTy.i64.wrap (P % 18446744073709551616)) (-1) =
        if P ≤ 9223372036854775808 then -P else 18446744073709551616 - P := by
      unfold IntTy.mul
      rw [hlo, i64_wrap P, i64_wrap]
      split <;> split <;> split <;> omega
    rw [hval]
    by_cases hsmall : P ≤ 9223372036854775808
    · have h2 : -P < 0 := by omega
      have h3 : (-9223372036854775808 ≤ -P ∧ -P < 9223372036854775808) := by omega
      simp [hhi, hsmall, h2, h3, hP]
    · have h2 : ¬ 18446744073709551616 - P < 0 := by omega
      have h3 : ¬ (-9223372036854775808 ≤ -P ∧ -P < 9223372036854775808) := by omega
      simp [hhi, hsmall, h2, h3]
  · have h3 : ¬ (-9223372036854775808 ≤ -P ∧ -P < 9223372036854775808) := by omega
    rw [if_neg h3]
    simp [hhi]

/-- `uint64(-x)` of a negative int64 is its magnitude (also for MinInt64, where `-x` wraps). -/
theorem abs_of_neg (x : Int) (hx : -9223372036854775808 ≤ x ∧ x < 0) : IntTy.u64.wrap (IntTy.i64.neg x) = -x := by
  unfold IntTy.neg
  rw [u64_wrap, i64_wrap]
  split <;> omega

theorem abs_of_pos (x : Int) (hx : 0 < x ∧ x < 9223372036854775808) : IntTy.u64.wrap x = x := by
  rw [u64_wrap]; omega

theorem safeMulInt64_exact (x y : Int) (hx : IntTy.i64.InRange x) (hy : IntTy.i64.InRange y) :
    SafeMulInt64 x y = exact IntTy.i64 (x * y) := by
  rw [i64_inRange] at hx hy
  by_cases h0 : x = 0 ∨ y = 0
  · have hz : x * y = 0 := by rcases h0 with h | h <;> simp [h]
    have hin : IntTy.i64.InRange 0 := by rw [i64_inRange]; omega
    unfold SafeMulInt64 exact
    rw [hz, if_pos hin]
    rcases h0 with h | h <;> simp [h]
  · have hx0 : x ≠ 0 := fun h => h0 (Or.inl h)
    have hy0 : y ≠ 0 := fun h => h0 (Or.inr h)
    rcases Int.lt_or_lt_of_ne hx0 with hxn | hxp <;> rcases Int.lt_or_lt_of_ne hy0 with hyn | hyp
    · -- x < 0, y < 0
      have e1 : ¬ x > 0 := by omega
      have e2 : ¬ y > 0 := by omega
      unfold SafeMulInt64
      simp only [hx0, hy0, hxn, hyn, e1, e2, decide_false, decide_true, Bool.or_self, Bool.false_eq_true,
        if_false, if_true, mul64, pow64]
      rw [abs_of_neg x ⟨hx.1, hxn⟩, abs_of_neg y ⟨hy.1, hyn⟩]
      have hP : 0 < -x * -y := Int.mul_pos (by omega) (by omega)
      have hxy : x * y = -x * -y := by rw [Int.neg_mul_neg]
      rw [hxy]
      exact tailPos _ hP
    · -- x < 0, y > 0
      have e1 : ¬ x > 0 := by omega
      have e2 : ¬ y < 0 := by omega
      unfold SafeMulInt64
      simp only [hx0, hy0, hxn, hyp, e1, e2, decide_false, decide_true, Bool.or_self, Bool.false_eq_true,
        if_false, if_true, mul64, pow64]
      rw [abs_of_neg x ⟨hx.1, hxn⟩, abs_of_pos y ⟨hyp, hy.2⟩]
      have hP : 0 < -x * y := Int.mul_pos (by omega) hyp
      have hxy : x * y = -(-x * y) := by rw [Int.neg_mul, Int.neg_neg]
      rw [hxy]
      exact tailNeg _ hP
    · -- x > 0, y < 0
      have e1 : ¬ x < 0 := by omega
      have e2 : ¬ y > 0 := by omega
      unfold SafeMulInt64
      simp only [hx0, hy0, hxp, hyn, e1, e2, decide_false, decide_true, Bool.or_self, Bool.false_eq_true,
        if_false, if_true, mul64, pow64]
      rw [abs_of_pos x ⟨hxp, hx.2⟩, abs_of_neg y ⟨hy.1, hyn⟩]
      have hP : 0 < x * -y := Int.mul_pos hxp (by omega)
      have hxy : x * y = -(x * -y) := by rw [Int.mul_neg, Int.neg_neg]
      rw [hxy]
      exact tailNeg _ hP
    · -- x > 0, y > 0
      have e1 : ¬ x < 0 := by omega
      have e2 : ¬ y < 0 := by omega
      unfold SafeMulInt64
      simp only [hx0, hy0, hxp, hyp, e1, e2, decide_false, decide_true, Bool.or_self, Bool.false_eq_true,
        if_false, if_true, mul64, pow64]
      rw [abs_of_pos x ⟨hxp, hx.2⟩, abs_of_pos y ⟨hyp, hy.2⟩]
      exact tailPos _ (Int.mul_pos hxp hyp)

end Hive.GoInt
