import Hive.Proofs.SerixJson
import Hive.Proofs.SerixJsonDeep
import Hive.Spec.SerixJsonCanon
/-!
# The encoder does not depend on Go's map iteration order, at any depth

`encord_ty`: two Go values that differ only in the order in which the entries of their maps are listed
(`VEquiv`: the same Go value, maps at every depth compared as sets of entries) are encoded to documents that
differ only in the order of the members of their objects (`JPerm`) — i.e. to the same JSON object, the same
`map[string]any` — and the second encoding succeeds whenever the first does.  Mutual induction over
`JTy` / `Fields` / `Alts`; `orderedmap.Set` never overwrites because distinct keys of a well-typed map have
distinct member names (`keys_nodup_of_mapM`, via the key round trip).
-/
namespace Hive.SerixJson

variable (fc : FloatCodec) (o : Opts)

/-! ## values without inner structure -/

def Val.atomic : Val → Bool
  | .list _ => false
  | .struct _ => false
  | .some _ => false
  | .iface _ _ => false
  | .map _ => false
  | _ => true

theorem VEquiv_atomic {v v' : Val} (ha : v.atomic = true) (h : VEquiv v v') : v' = v := by
  cases h <;> first | rfl | simp [Val.atomic] at ha

theorem isNil_vequiv {v v' : Val} (h : VEquiv v v') : v'.isNil = v.isNil := by
  cases h <;> rfl

theorem VEquiv_struct_inv {xs : List Val} {y : Val} (h : VEquiv (.struct xs) y) :
    ∃ ys, y = .struct ys ∧ VEquivL xs ys := by
  cases h with
  | refl => exact ⟨xs, rfl, VEquivL_refl xs⟩
  | struct hL => exact ⟨_, rfl, hL⟩

theorem VEquiv_some_inv {x y : Val} (h : VEquiv (.some x) y) : ∃ y0, y = .some y0 ∧ VEquiv x y0 := by
  cases h with
  | refl => exact ⟨x, rfl, .refl x⟩
  | some h1 => exact ⟨_, rfl, h1⟩

/-! ## `IsZero` / `isValueEmpty` do not look at the order of map entries -/

theorem all_vequivL {p : Val → Bool} (hp : ∀ x y, VEquiv x y → p y = p x) :
    ∀ (xs ys : List Val), VEquivL xs ys → ys.all p = xs.all p
  | [], _, h => by cases h; rfl
  | x :: xs, _, h => by
    cases h with
    | cons h1 h2 => simp only [List.all_cons, hp x _ h1, all_vequivL hp xs _ h2]

mutual
theorem isZero_vequiv : ∀ (t : JTy) (v v' : Val), VEquiv v v' → isZero t v' = isZero t v
  | .bool, _, _, hq => by cases hq <;> simp [isZero]
  | .uint _, _, _, hq => by cases hq <;> simp [isZero]
  | .int _, _, _, hq => by cases hq <;> simp [isZero]
  | .float _, _, _, hq => by cases hq <;> simp [isZero]
  | .str _, _, _, hq => by cases hq <;> simp [isZero]
  | .bytes _, _, _, hq => by cases hq <;> simp [isZero, Val.isNil]
  | .byteArr viaPtr _, _, _, hq => by cases viaPtr <;> cases hq <;> simp [isZero, Val.isNil]
  | .typedBytes viaPtr n _ _, _, _, hq => by
    cases viaPtr <;> cases n <;> cases hq <;> simp [isZero, Val.isNil]
  | .u256, _, _, hq => by cases hq <;> simp [isZero, Val.isNil]
  | .time, _, _, hq => by cases hq <;> simp [isZero, Val.isNil]
  | .slice _ _, _, _, hq => by cases hq <;> simp [isZero, Val.isNil]
  | .array _ e, _, _, hq => by
    cases hq with
    | refl => rfl
    | list hL => simp only [isZero]; exact all_vequivL (isZero_vequiv e) _ _ hL
    | struct _ => simp [isZero]
    | some _ => simp [isZero]
    | iface _ _ => simp [isZero]
    | map _ _ => simp [isZero]
  | .map _ _ _, _, _, hq => by cases hq <;> simp [isZero, Val.isNil]
  | .struct _ fs, _, _, hq => by
    cases hq with
    | refl => rfl
    | struct hL => simp only [isZero]; exact zeroFields_vequiv fs _ _ hL
    | list _ => simp [isZero]
    | some _ => simp [isZero]
    | iface _ _ => simp [isZero]
    | map _ _ => simp [isZero]
  | .ptr _, _, _, hq => by cases hq <;> simp [isZero, Val.isNil]
  | .iface _, _, _, hq => by cases hq <;> simp [isZero, Val.isNil]
theorem zeroFields_vequiv : ∀ (fs : Fields) (vs vs' : List Val), VEquivL vs vs' →
    zeroFields fs vs' = zeroFields fs vs
  | .nil, _, _, _ => by simp [zeroFields]
  | .named _ _ _ t rest, _, _, h => by
    cases h with
    | nil => rfl
    | cons h1 h2 => simp only [zeroFields, isZero_vequiv t _ _ h1, zeroFields_vequiv rest _ _ h2]
  | .embedded false fs rest, _, _, h => by
    cases h with
    | nil => rfl
    | cons h1 h2 =>
      rename_i x y xs ys
      cases x with
      | struct sx =>
        obtain ⟨sy, rfl, hL⟩ := VEquiv_struct_inv h1
        simp only [zeroFields, zeroFields_vequiv fs _ _ hL, zeroFields_vequiv rest _ _ h2]
      | _ => cases h1 <;> simp [zeroFields]
  | .embedded true _ rest, _, _, h => by
    cases h with
    | nil => rfl
    | cons h1 h2 => simp only [zeroFields, isNil_vequiv h1, zeroFields_vequiv rest _ _ h2]
  | .inlined _ fs rest, _, _, h => by
    cases h with
    | nil => rfl
    | cons h1 h2 =>
      rename_i x y xs ys
      cases x with
      | struct sx =>
        obtain ⟨sy, rfl, hL⟩ := VEquiv_struct_inv h1
        simp only [zeroFields, zeroFields_vequiv fs _ _ hL, zeroFields_vequiv rest _ _ h2]
      | _ => cases h1 <;> simp [zeroFields]
end

theorem isEmpty_vequiv (t : JTy) {v v' : Val} (h : VEquiv v v') : isEmpty t v' = isEmpty t v := by
  unfold isEmpty
  rw [isZero_vequiv t v v' h]
  cases h with
  | refl => rfl
  | list hL =>
    cases hL with
    | nil => rfl
    | cons _ _ => cases t <;> simp
  | struct _ => cases t <;> simp
  | some _ => cases t <;> simp
  | iface _ _ => cases t <;> simp
  | map _ _ => cases t <;> simp

/-! ## objects built member by member -/

theorem objSet_JPermM {k : String} {j j' : Json} (hj : JPerm j j') :
    ∀ (acc acc' : List (String × Json)), JPermM acc acc' → JPermM (objSet acc k j) (objSet acc' k j')
  | [], _, h => by cases h; exact .cons hj .nil
  | (k0, x) :: ms, _, h => by
    cases h with
    | cons hx hm =>
      simp only [objSet]
      by_cases hk : k0 = k
      · simp only [hk, if_true]
        exact .cons hj hm
      · simp only [hk, if_false]
        exact .cons hx (objSet_JPermM hj ms _ hm)

theorem objSetAll_JPermM : ∀ (ms ms' acc acc' : List (String × Json)), JPermM ms ms' → JPermM acc acc' →
    JPermM (objSetAll acc ms) (objSetAll acc' ms')
  | [], _, acc, acc', h, ha => by cases h; simpa [objSetAll] using ha
  | (k, x) :: ms, _, acc, acc', h, ha => by
    cases h with
    | cons hx hm =>
      simp only [objSetAll, List.foldl_cons]
      exact objSetAll_JPermM ms _ _ _ hm (objSet_JPermM hx acc acc' ha)

/-! ## element lists and map entries -/

theorem mapM_enc_VEquivL (f : Val → Except Err Json) (P : Val → Prop)
    (ih : ∀ x y j, P x → VEquiv x y → f x = .ok j → ∃ j', f y = .ok j' ∧ JPerm j j') :
    ∀ (xs ys : List Val) (js : List Json), (∀ x ∈ xs, P x) → VEquivL xs ys → xs.mapM f = .ok js →
      ∃ js', ys.mapM f = .ok js' ∧ JPermL js js'
  | [], _, js, _, hL, h => by
    cases hL
    simp at h
    subst h
    exact ⟨[], rfl, .nil⟩
  | x :: xs, _, js, hP, hL, h => by
    cases hL with
    | cons h1 h2 =>
      obtain ⟨j, js0, hj, hjs0, rfl⟩ := (mapM_cons_ok _ _ _ _).mp h
      obtain ⟨j', hj', hJ⟩ := ih _ _ _ (hP _ List.mem_cons_self) h1 hj
      obtain ⟨js1, hjs1, hJL⟩ := mapM_enc_VEquivL f P ih xs _ js0
        (fun x hx => hP x (List.mem_cons_of_mem _ hx)) h2 hjs0
      exact ⟨j' :: js1, (mapM_cons_ok _ _ _ _).mpr ⟨j', js1, hj', hjs1, rfl⟩, .cons hJ hJL⟩

theorem encEntry_mk {fk fv : Val → Except Err Json} {k x : Val} {ks : String} {vj : Json}
    (hk : fk k = .ok (.str ks)) (hv : fv x = .ok vj) : encEntry fk fv (k, x) = .ok (ks, vj) := by
  simp [encEntry, hk, hv, keyString]

theorem mapM_entry_VEquivE (fk fv : Val → Except Err Json) (P : Val → Prop)
    (ih : ∀ x y j, P x → VEquiv x y → fv x = .ok j → ∃ j', fv y = .ok j' ∧ JPerm j j') :
    ∀ (es es' : List (Val × Val)) (ps : List (String × Json)), (∀ p ∈ es, P p.2) → VEquivE es es' →
      es.mapM (encEntry fk fv) = .ok ps → ∃ ps', es'.mapM (encEntry fk fv) = .ok ps' ∧ JPermM ps ps'
  | [], _, ps, _, hE, h => by
    cases hE
    simp at h
    subst h
    exact ⟨[], rfl, .nil⟩
  | p :: es, _, ps, hP, hE, h => by
    cases hE with
    | cons hxy hE' =>
      obtain ⟨q, ps0, hq, hps0, rfl⟩ := (mapM_cons_ok _ _ _ _).mp h
      obtain ⟨hqk, hqv⟩ := encEntry_ok hq
      obtain ⟨vj', hv', hJ⟩ := ih _ _ _ (hP _ List.mem_cons_self) hxy hqv
      obtain ⟨ps1, hps1, hM⟩ := mapM_entry_VEquivE fk fv P ih es _ ps0
        (fun p hp => hP p (List.mem_cons_of_mem _ hp)) hE' hps0
      obtain ⟨ks, vj⟩ := q
      exact ⟨(ks, vj') :: ps1, (mapM_cons_ok _ _ _ _).mpr ⟨(ks, vj'), ps1, encEntry_mk hqk hv', hps1, rfl⟩,
        .cons hJ hM⟩

/-! ## the induction -/

theorem enc_atomic_case {t : JTy} {v v' : Val} {j : Json} (ha : v.atomic = true) (hq : VEquiv v v')
    (h : mapEncode fc o t v = .ok j) : ∃ j', mapEncode fc o t v' = .ok j' ∧ JPerm j j' := by
  rw [VEquiv_atomic ha hq]
  exact ⟨j, h, .refl j⟩

mutual
theorem encord_ty : ∀ (t : JTy) (v v' : Val) (j : Json), expressible t = true → wt fc t v = true →
    VEquiv v v' → mapEncode fc o t v = .ok j → ∃ j', mapEncode fc o t v' = .ok j' ∧ JPerm j j'
  | .bool, v, _, _, _, hv, hq, h =>
    enc_atomic_case fc o (by cases v <;> first | rfl | simp [wt] at hv) hq h
  | .uint _, v, _, _, _, hv, hq, h =>
    enc_atomic_case fc o (by cases v <;> first | rfl | simp [wt] at hv) hq h
  | .int _, v, _, _, _, hv, hq, h =>
    enc_atomic_case fc o (by cases v <;> first | rfl | simp [wt] at hv) hq h
  | .float _, v, _, _, _, hv, hq, h =>
    enc_atomic_case fc o (by cases v <;> first | rfl | simp [wt] at hv) hq h
  | .str _, v, _, _, _, hv, hq, h =>
    enc_atomic_case fc o (by cases v <;> first | rfl | simp [wt] at hv) hq h
  | .bytes _, v, _, _, _, hv, hq, h =>
    enc_atomic_case fc o (by cases v <;> first | rfl | simp [wt] at hv) hq h
  | .byteArr viaPtr _, v, _, _, _, hv, hq, h =>
    enc_atomic_case fc o (by cases viaPtr <;> cases v <;> first | rfl | simp [wt] at hv) hq h
  | .typedBytes viaPtr n _ _, v, _, _, _, hv, hq, h =>
    enc_atomic_case fc o (by cases viaPtr <;> cases n <;> cases v <;> first | rfl | simp [wt] at hv) hq h
  | .u256, v, _, _, _, hv, hq, h =>
    enc_atomic_case fc o (by cases v <;> first | rfl | simp [wt] at hv) hq h
  | .time, v, _, _, _, hv, hq, h =>
    enc_atomic_case fc o (by cases v <;> first | rfl | simp [wt] at hv) hq h
  | .slice b e, v, v', j, hx, hv, hq, h => by
    simp only [expressible] at hx
    cases hq with
    | refl => exact ⟨j, h, .refl j⟩
    | list hL =>
      rename_i xs ys
      simp only [wt] at hv
      have hall := List.all_eq_true.mp hv
      simp only [mapEncode] at h ⊢
      obtain ⟨u, hu, h⟩ := bind_eq_ok.mp h
      unfold encList at h ⊢
      obtain ⟨js, hjs, rfl⟩ := map_eq_ok.mp h
      obtain ⟨js', hjs', hJ⟩ := mapM_enc_VEquivL (mapEncode fc o e) (fun x => wt fc e x = true)
        (fun x y j hw => encord_ty e x y j hx hw) xs ys js hall hL hjs
      refine ⟨.arr js', ?_, .arr hJ⟩
      have hu' : checkLen o b ys.length = .ok () := by
        rw [← VEquivL_length hL]; exact checkLen_ok_unit hu
      simp [hu', hjs', Except.map]
    | struct _ => simp [wt] at hv
    | some _ => simp [wt] at hv
    | iface _ _ => simp [wt] at hv
    | map _ _ => simp [wt] at hv
  | .array n e, v, v', j, hx, hv, hq, h => by
    simp only [expressible] at hx
    cases hq with
    | refl => exact ⟨j, h, .refl j⟩
    | list hL =>
      rename_i xs ys
      simp only [wt, Bool.and_eq_true, decide_eq_true_eq] at hv
      have hall := List.all_eq_true.mp hv.2
      have hlen : ys.length = n := by rw [← VEquivL_length hL]; exact hv.1
      simp only [mapEncode, hv.1, hlen, if_true] at h ⊢
      unfold encList at h ⊢
      obtain ⟨js, hjs, rfl⟩ := map_eq_ok.mp h
      obtain ⟨js', hjs', hJ⟩ := mapM_enc_VEquivL (mapEncode fc o e) (fun x => wt fc e x = true)
        (fun x y j hw => encord_ty e x y j hx hw) xs ys js hall hL hjs
      exact ⟨.arr js', by simp [hjs', Except.map], .arr hJ⟩
    | struct _ => simp [wt] at hv
    | some _ => simp [wt] at hv
    | iface _ _ => simp [wt] at hv
    | map _ _ => simp [wt] at hv
  | .map b k e, v, v', j, hx, hv, hq, h => by
    simp only [expressible, Bool.and_eq_true] at hx
    obtain ⟨⟨hko, hkx⟩, hex⟩ := hx
    cases hq with
    | refl => exact ⟨j, h, .refl j⟩
    | map hE hP =>
      rename_i es es' fs
      simp only [wt, Bool.and_eq_true] at hv
      obtain ⟨hd, hall⟩ := hv
      have hall := List.all_eq_true.mp hall
      have hkv : ∀ p ∈ es, valOk fc k p.1 = true := fun p hp => by
        have := hall p hp; simp only [Bool.and_eq_true] at this; exact this.1
      have hvv : ∀ p ∈ es, wt fc e p.2 = true := fun p hp => by
        have := hall p hp; simp only [Bool.and_eq_true] at this; exact this.2
      simp only [mapEncode] at h ⊢
      obtain ⟨u, hu, h⟩ := bind_eq_ok.mp h
      rw [encEntries_eq] at h ⊢
      obtain ⟨ps, hps, rfl⟩ := map_eq_ok.mp h
      obtain ⟨ps', hps', hM⟩ := mapM_entry_VEquivE (mapEncode fc o k) (mapEncode fc o e)
        (fun x => wt fc e x = true) (fun x y j hw => encord_ty e x y j hex hw) es es' ps hvv hE hps
      obtain ⟨ps'', hps'', hPP⟩ := mapM_perm (encEntry (mapEncode fc o k) (mapEncode fc o e)) hP hps'
      obtain ⟨hnd, _⟩ := keys_nodup_of_mapM (mapEncode fc o k) (mapEncode fc o e) (mapDecode fc o k) es ps hps
        (fun p hp y hy => (rt_ty fc o k p.1 y hkx (hkv p hp) hy).1)
        (fun p hp => keyEq_refl_of_keyOk fc k hko p.1 (hkv p hp)) hd
      have hnd'' : (keys ps'').Nodup := by
        have hp1 : (keys ps').Perm (keys ps'') := hPP.map _
        rw [keys_of_JPermM hM] at hp1
        exact hp1.nodup_iff.mp hnd
      refine ⟨.obj ps'', ?_, ?_⟩
      · have hlen : fs.length = es.length := by rw [← hP.length_eq, ← VEquivE_length hE]
        have hu' : checkLen o b fs.length = .ok () := by rw [hlen]; exact checkLen_ok_unit hu
        simp [hu', hps'', Except.map, objSetAll_of_disjoint [] ps'' hnd'' (by simp [keys])]
      · rw [objSetAll_of_disjoint [] ps hnd (by simp [keys])]
        simpa using JPerm.obj hM hPP
    | list _ => simp [wt] at hv
    | struct _ => simp [wt] at hv
    | some _ => simp [wt] at hv
    | iface _ _ => simp [wt] at hv
  | .struct code fs, v, v', j, hx, hv, hq, h => by
    simp only [expressible, Bool.and_eq_true] at hx
    cases hq with
    | refl => exact ⟨j, h, .refl j⟩
    | struct hL =>
      simp only [wt] at hv
      simp only [mapEncode] at h ⊢
      obtain ⟨ms, hms, rfl⟩ := map_eq_ok.mp h
      obtain ⟨ms', hms', hM⟩ := encord_fields fs _ _ (typeMember code) (typeMember code) ms hx.2 hv hL
        (JPermM_refl _) hms
      exact ⟨.obj ms', by simp [hms', Except.map], .obj hM (List.Perm.refl _)⟩
    | list _ => simp [wt] at hv
    | some _ => simp [wt] at hv
    | iface _ _ => simp [wt] at hv
    | map _ _ => simp [wt] at hv
  | .ptr t, v, v', j, hx, hv, hq, h => by
    simp only [expressible, Bool.and_eq_true] at hx
    cases hq with
    | refl => exact ⟨j, h, .refl j⟩
    | some hxy =>
      simp only [wt] at hv
      simp only [mapEncode, hx.1, if_true] at h ⊢
      exact encord_ty t _ _ j hx.2 hv hxy h
    | list _ => simp [wt] at hv
    | struct _ => simp [wt] at hv
    | iface _ _ => simp [wt] at hv
    | map _ _ => simp [wt] at hv
  | .iface alts, v, v', j, hx, hv, hq, h => by
    simp only [expressible] at hx
    cases hq with
    | refl => exact ⟨j, h, .refl j⟩
    | iface c hxy =>
      simp only [wt] at hv
      simp only [mapEncode] at h ⊢
      exact encord_alts alts [] c _ _ j hx hv hxy h
    | list _ => simp [wt] at hv
    | struct _ => simp [wt] at hv
    | some _ => simp [wt] at hv
    | map _ _ => simp [wt] at hv
theorem encord_fields : ∀ (fs : Fields) (vs vs' : List Val) (acc acc' ms : List (String × Json)),
    fieldsExpressible fs = true → wtFields fc fs vs = true → VEquivL vs vs' → JPermM acc acc' →
    encFields fc o fs vs acc = .ok ms → ∃ ms', encFields fc o fs vs' acc' = .ok ms' ∧ JPermM ms ms'
  | .nil, _, _, acc, acc', ms, _, hv, hq, ha, h => by
    cases hq with
    | nil =>
      simp only [encFields, Except.ok.injEq] at h ⊢
      subst h
      exact ⟨acc', rfl, ha⟩
    | cons _ _ => simp [wtFields] at hv
  | .named key opt omt t rest, _, _, acc, acc', ms, hx, hv, hq, ha, h => by
    cases hq with
    | nil => simp [wtFields] at hv
    | cons h1 h2 =>
      rename_i x y xs ys
      simp only [fieldsExpressible, Bool.and_eq_true] at hx
      obtain ⟨⟨⟨_, _⟩, htx⟩, hrx⟩ := hx
      simp only [wtFields, Bool.and_eq_true] at hv
      obtain ⟨hvx, hvr⟩ := hv
      simp only [encFields] at h ⊢
      rw [isEmpty_vequiv t h1, isNil_vequiv h1]
      by_cases c1 : (omt && isEmpty t x) = true
      · simp only [c1, if_true] at h ⊢
        exact encord_fields rest xs ys acc acc' ms hrx hvr h2 ha h
      · simp only [c1, Bool.false_eq_true, if_false] at h ⊢
        by_cases c2 : (opt && x.isNil) = true
        · simp only [c2, if_true] at h ⊢
          exact encord_fields rest xs ys acc acc' ms hrx hvr h2 ha h
        · simp only [c2, Bool.false_eq_true, if_false] at h ⊢
          cases hb : t.byValueTyped with
          | some nc =>
            simp only [hb] at h ⊢
            obtain ⟨j, hj, hrest⟩ := bind_eq_ok.mp h
            have hat : x.atomic = true := by
              cases t <;> simp [JTy.byValueTyped] at hb
              rename_i viaPtr n c k
              cases viaPtr <;> cases n <;> cases x <;> first | rfl | simp [wt] at hvx
            have hyx : y = x := VEquiv_atomic hat h1
            subst hyx
            obtain ⟨ms', hms', hM⟩ := encord_fields rest xs ys (objSet acc key j) (objSet acc' key j) ms hrx hvr h2
              (objSet_JPermM (.refl j) acc acc' ha) hrest
            exact ⟨ms', bind_eq_ok.mpr ⟨j, hj, hms'⟩, hM⟩
          | none =>
            simp only [hb] at h ⊢
            obtain ⟨j, hj, h⟩ := bind_eq_ok.mp h
            obtain ⟨j', hj', hJ⟩ := encord_ty t x y j htx hvx h1 hj
            obtain ⟨ms', hms', hM⟩ := encord_fields rest xs ys (objSet acc key j) (objSet acc' key j') ms hrx hvr h2
              (objSet_JPermM hJ acc acc' ha) h
            exact ⟨ms', bind_eq_ok.mpr ⟨j', hj', hms'⟩, hM⟩
  | .embedded false fs rest, _, _, acc, acc', ms, hx, hv, hq, ha, h => by
    cases hq with
    | nil => simp [wtFields] at hv
    | cons h1 h2 =>
      rename_i x y xs ys
      cases x <;> simp only [wtFields, Bool.false_eq_true] at hv
      rename_i sx
      obtain ⟨sy, rfl, hL⟩ := VEquiv_struct_inv h1
      simp only [fieldsExpressible, Bool.and_eq_true] at hx
      simp only [Bool.and_eq_true] at hv
      simp only [encFields] at h ⊢
      obtain ⟨a1, ha1, h⟩ := bind_eq_ok.mp h
      obtain ⟨a1', ha1', hM1⟩ := encord_fields fs sx sy acc acc' a1 hx.1 hv.1 hL ha ha1
      obtain ⟨ms', hms', hM⟩ := encord_fields rest xs ys a1 a1' ms hx.2 hv.2 h2 hM1 h
      exact ⟨ms', by rw [ha1']; exact hms', hM⟩
  | .embedded true fs rest, _, _, acc, acc', ms, hx, hv, hq, ha, h => by
    cases hq with
    | nil => simp [wtFields] at hv
    | cons h1 h2 =>
      rename_i x y xs ys
      cases x with
      | nil => simp [encFields] at h
      | some x0 =>
        cases x0 <;> simp only [wtFields, Bool.false_eq_true] at hv
        rename_i sx
        obtain ⟨y0, rfl, h10⟩ := VEquiv_some_inv h1
        obtain ⟨sy, rfl, hL⟩ := VEquiv_struct_inv h10
        simp only [fieldsExpressible, Bool.and_eq_true] at hx
        simp only [Bool.and_eq_true] at hv
        simp only [encFields] at h ⊢
        obtain ⟨a1, ha1, h⟩ := bind_eq_ok.mp h
        obtain ⟨a1', ha1', hM1⟩ := encord_fields fs sx sy acc acc' a1 hx.1 hv.1 hL ha ha1
        obtain ⟨ms', hms', hM⟩ := encord_fields rest xs ys a1 a1' ms hx.2 hv.2 h2 hM1 h
        exact ⟨ms', by rw [ha1']; exact hms', hM⟩
      | _ => simp [wtFields] at hv
  | .inlined code fs rest, _, _, acc, acc', ms, hx, hv, hq, ha, h => by
    cases hq with
    | nil => simp [wtFields] at hv
    | cons h1 h2 =>
      rename_i x y xs ys
      cases x <;> simp only [wtFields, Bool.false_eq_true] at hv
      rename_i sx
      obtain ⟨sy, rfl, hL⟩ := VEquiv_struct_inv h1
      simp only [fieldsExpressible, Bool.and_eq_true] at hx
      simp only [Bool.and_eq_true] at hv
      simp only [encFields] at h ⊢
      obtain ⟨a1, ha1, h⟩ := bind_eq_ok.mp h
      obtain ⟨a1', ha1', hM1⟩ := encord_fields fs sx sy (typeMember code) (typeMember code) a1 hx.1.2 hv.1 hL
        (JPermM_refl _) ha1
      obtain ⟨ms', hms', hM⟩ := encord_fields rest xs ys (objSetAll acc a1) (objSetAll acc' a1') ms hx.2 hv.2 h2
        (objSetAll_JPermM a1 a1' acc acc' hM1 ha) h
      exact ⟨ms', by rw [ha1']; exact hms', hM⟩
theorem encord_alts : ∀ (alts : Alts) (seen : List Nat) (c : Nat) (v v' : Val) (j : Json),
    altsExpressible alts seen = true → wtAlt fc alts c v = true → VEquiv v v' →
    encAlt fc o alts c v = .ok j → ∃ j', encAlt fc o alts c v' = .ok j' ∧ JPerm j j'
  | .nil, _, _, _, _, _, _, hv, _, _ => by simp [wtAlt] at hv
  | .cons c0 t rest, seen, c, v, v', j, hx, hv, hq, h => by
    simp only [altsExpressible, Bool.and_eq_true] at hx
    simp only [wtAlt] at hv
    simp only [encAlt] at h ⊢
    by_cases hc : c0 = c
    · simp only [hc, if_true] at hv h ⊢
      exact encord_ty t v v' j hx.1.2 hv hq h
    · simp only [hc, if_false] at hv h ⊢
      exact encord_alts rest (c0 :: seen) c v v' j hx.2 hv hq h
end

end Hive.SerixJson
