import Hive.Proofs.DListRefine3
/-! Observations (`Values`, `ForEachReverse`, the handle walk) read off the abstract sequence; runs. -/
namespace Hive.DList

/-- Pigeonhole: a duplicate-free list of numbers below `n` has at most `n` entries. -/
theorem nodup_bounded_length : ∀ (n : Nat) (l : List Nat), l.Nodup → (∀ x ∈ l, x < n) → l.length ≤ n := by
  intro n
  induction n with
  | zero =>
    intro l _ h
    cases l with
    | nil => simp
    | cons a t => exact absurd (h a List.mem_cons_self) (by omega)
  | succ n ih =>
    intro l hnd h
    have h1 : (l.erase n).Nodup := hnd.erase n
    have h2 : ∀ x ∈ l.erase n, x < n := by
      intro x hx
      have := hnd.mem_erase_iff.1 hx
      have := h x this.2
      omega
    have := ih (l.erase n) h1 h2
    by_cases hm : n ∈ l
    · rw [List.length_erase_of_mem hm] at this
      have : 0 < l.length := List.length_pos_of_mem hm
      omega
    · rw [List.erase_of_not_mem hm] at this; omega

theorem seq_length_le {s : St} (w : WF s) (l : Bool) : (s.seq l).length ≤ s.fresh :=
  nodup_bounded_length s.fresh (s.seq l) (w.nodup l) (fun x hx => (w.ids l x hx).2)

theorem walkF_seq {s : St} (w : WF s) {o : Bool} : ∀ (B A : List Nat) (fuel : Nat), s.seq o = A ++ B →
    B.length ≤ fuel → walkF s fuel (B.head?.getD 0) = B.map fun e => (s.heap e).val := by
  intro B
  induction B with
  | nil => intro A fuel _ _; cases fuel <;> simp [walkF]
  | cons t B' ih =>
    intro A fuel h hf
    cases fuel with
    | zero => simp at hf
    | succ f =>
      have ht : t ∈ s.seq o := by rw [h]; simp
      have ht0 : t ≠ 0 := by have := (w.ids o t ht).1; omega
      show walkF s (f + 1) t = _
      have hv : valueOf s t = (s.heap t).val := by
        unfold valueOf; rw [if_neg]; have := (w.ids o t ht).1; omega
      rw [walkF, if_neg ht0, hv, List.map_cons, nextOf_at w h, ih (A ++ [t]) f (by rw [h]; simp) (by simpa using hf)]

theorem walkIds_seq {s : St} (w : WF s) {o : Bool} : ∀ (B A : List Nat) (fuel : Nat), s.seq o = A ++ B →
    B.length ≤ fuel → walkIds s fuel (B.head?.getD 0) = B := by
  intro B
  induction B with
  | nil => intro A fuel _ _; cases fuel <;> simp [walkIds]
  | cons t B' ih =>
    intro A fuel h hf
    cases fuel with
    | zero => simp at hf
    | succ f =>
      have ht : t ∈ s.seq o := by rw [h]; simp
      have ht0 : t ≠ 0 := by have := (w.ids o t ht).1; omega
      show walkIds s (f + 1) t = _
      rw [walkIds, if_neg ht0, nextOf_at w h, ih (A ++ [t]) f (by rw [h]; simp) (by simpa using hf)]

theorem walkB_seq {s : St} (w : WF s) {o : Bool} : ∀ (rA B : List Nat) (fuel : Nat), s.seq o = rA.reverse ++ B →
    rA.length ≤ fuel → walkB s fuel (rA.head?.getD 0) = rA.map fun e => (s.heap e).val := by
  intro rA
  induction rA with
  | nil => intro B fuel _ _; cases fuel <;> simp [walkB]
  | cons t rA' ih =>
    intro B fuel h hf
    cases fuel with
    | zero => simp at hf
    | succ f =>
      have h' : s.seq o = rA'.reverse ++ t :: B := by rw [h]; simp
      have ht : t ∈ s.seq o := by rw [h']; simp
      have ht0 : t ≠ 0 := by have := (w.ids o t ht).1; omega
      show walkB s (f + 1) t = _
      have hv : valueOf s t = (s.heap t).val := by
        unfold valueOf; rw [if_neg]; have := (w.ids o t ht).1; omega
      rw [walkB, if_neg ht0, hv, List.map_cons, prevOf_at w h', List.getLast?_reverse, ih (t :: B) f h' (by simpa using hf)]

theorem values_eq {s : St} (w : WF s) (l : Bool) : values s l = (s.seq l).map fun e => (s.heap e).val := by
  unfold values
  rw [front_eq w l]
  exact walkF_seq (o := l) w (s.seq l) [] s.fresh (by simp) (seq_length_le w l)

theorem valuesRev_eq {s : St} (w : WF s) (l : Bool) :
    valuesRev s l = ((s.seq l).map fun e => (s.heap e).val).reverse := by
  unfold valuesRev
  rw [back_eq w l, ← List.head?_reverse, ← List.map_reverse]
  exact walkB_seq (o := l) w (s.seq l).reverse [] s.fresh (by simp) (by simpa using seq_length_le w l)

/-- A handle that is in neither list (and not stale) reads `nil` on both sides. -/
theorem neighbours_removed {s : St} (w : WF s) {e : Nat} (h : ∀ k, e ∉ s.seq k) (hs : e ∉ s.stale) :
    prevOf s e = 0 ∧ nextOf s e = 0 := by
  have : (s.heap e).owner = none := by
    cases ho : (s.heap e).owner with
    | none => rfl
    | some k =>
      rcases w.own_back k e ho with m | m
      · exact absurd m (h k)
      · exact absurd m hs
  simp [prevOf, nextOf, this]

/-! ### histories -/

theorem abs_init : abs init = sinit := by
  apply SSt.ext'
  · rfl
  · funext j
    simp only [abs, init, sinit]
    split
    · rfl
    · split <;> rfl
  · rfl
  · rfl

theorem run_refines : ∀ (ops : List Op) (s : St), WF s → okRun (abs s) ops →
    WF (run s ops).1 ∧ (run s ops).2 = (srun (abs s) ops).2 ∧ abs (run s ops).1 = (srun (abs s) ops).1 := by
  intro ops
  induction ops with
  | nil => intro s w _; exact ⟨w, rfl, rfl⟩
  | cons op ops ih =>
    intro s w hok
    obtain ⟨h1, h2⟩ := hok
    obtain ⟨w1, o1, a1⟩ := step_ok w op h1
    rw [← a1] at h2
    obtain ⟨w2, o2, a2⟩ := ih (step s op).1 w1 h2
    refine ⟨w2, ?_, ?_⟩
    · simp only [run, srun]; rw [o1, o2, a1]
    · simp only [run, srun]; rw [a2, a1]

instance okRunDec : (s : SSt) → (ops : List Op) → Decidable (okRun s ops)
  | _, [] => isTrue trivial
  | s, op :: ops =>
    match okRunDec (sstep s op).1 ops with
    | isTrue h =>
      if h' : ∀ a ∈ op.args, a ∉ s.stale then isTrue ⟨h', h⟩ else isFalse (fun k => h' k.1)
    | isFalse h => isFalse (fun k => h k.2)

end Hive.DList

namespace Hive.DList

/-- The driver's re-tabulation is the identity on well-formed states. -/
theorem compact_eq {s : St} (w : WF s) : compact s = s := by
  have hheap : (fun j => (Array.ofFn (n := s.fresh) (fun i => s.heap i.val)).getD j {}) = s.heap := by
    funext j
    by_cases hj : j < s.fresh
    · simp [Array.getD, hj]
    · simp [Array.getD, hj, w.unalloc j (by omega)]
  have hlen : (fun k : Bool => if k then s.len true else s.len false) = s.len := by
    funext k; cases k <;> simp
  have hseq : (fun k : Bool => if k then s.seq true else s.seq false) = s.seq := by
    funext k; cases k <;> simp
  cases s
  simp only [compact] at hheap hlen hseq ⊢
  simp only [hheap]
  congr

end Hive.DList
