import Hive.Model.SyncMutexDag
import Hive.Proofs.SyncMutexWait
/-! Invariants of the DAGMutex model: per entity the lock state and the consumer count equal what the
goroutines hold and are registered for; ordered acquisition never deadlocks. -/
namespace Hive.SyncMutex.Dag
open Hive.Conc
open Hive.SyncMutex.Wait (sumL sumL_mid sumL_ge sumL_zero)

theorem sumL_pos {α : Type} {f : α → Nat} {vs : List α} (h : 0 < sumL f vs) : ∃ v ∈ vs, 0 < f v := by
  induction vs with
  | nil => simp [sumL] at h
  | cons a l ih =>
    simp only [sumL, List.map_cons, List.sum_cons] at h
    by_cases ha : 0 < f a
    · exact ⟨a, by simp, ha⟩
    · have : 0 < sumL f l := by simp only [sumL]; omega
      obtain ⟨v, hv, hp⟩ := ih this
      exact ⟨v, by simp [hv], hp⟩

def hW (x : Nat) (t : DTh) : Nat := t.held.count (x, .w)
def hR (x : Nat) (t : DTh) : Nat := t.held.count (x, .r)
/-- registrations of a goroutine for entities it is still acquiring -/
def aq (x : Nat) (t : DTh) : Nat :=
  match t.pc with
  | .acqW y => if y = x then 1 else 0
  | .acqR xs => xs.count x
  | _ => 0

structure GI (s : DSh) (ts : List DTh) : Prop where
  hw : ∀ x, (if (s x).writer then 1 else 0) = sumL (hW x) ts
  hr : ∀ x, (s x).readers = sumL (hR x) ts
  ex : ∀ x, (s x).writer = true → (s x).readers = 0
  hc : ∀ x, (s x).cnt = sumL (hW x) ts + sumL (hR x) ts + sumL (aq x) ts

/-- The per-entity content of `GI` with the contribution of one goroutine split off. -/
def EntOk (e : Ent) (A B C w r a : Nat) : Prop :=
  (if e.writer then 1 else 0) = A + w ∧ e.readers = B + r ∧ (e.writer = true → e.readers = 0) ∧
    e.cnt = (A + w) + (B + r) + (C + a)

theorem gi_split {s : DSh} {pre post : List DTh} {t : DTh} :
    GI s (pre ++ t :: post) ↔
      ∀ x, EntOk (s x) (sumL (hW x) pre + sumL (hW x) post) (sumL (hR x) pre + sumL (hR x) post)
        (sumL (aq x) pre + sumL (aq x) post) (hW x t) (hR x t) (aq x t) := by
  constructor
  · intro ⟨h1, h2, h3, h4⟩ x
    have a := h1 x; have b := h2 x; have c := h3 x; have d := h4 x
    simp only [sumL_mid] at a b d
    exact ⟨by omega, by omega, c, by omega⟩
  · intro h
    constructor <;> intro x <;> obtain ⟨a, b, c, d⟩ := h x <;> (try simp only [sumL_mid]) <;> first | omega | exact c

theorem gi_replace {s s' : DSh} {pre post : List DTh} {t t' : DTh} (h : GI s (pre ++ t :: post))
    (hx : ∀ x A B C, EntOk (s x) A B C (hW x t) (hR x t) (aq x t) →
      EntOk (s' x) A B C (hW x t') (hR x t') (aq x t')) : GI s' (pre ++ t' :: post) := by
  rw [gi_split] at h ⊢
  intro x
  exact hx x _ _ _ (h x)

theorem upd_same {α : Type} (f : Nat → α) (x : Nat) (v : α) : upd f x v x = v := by simp [upd]
theorem upd_other {α : Type} (f : Nat → α) {x y : Nat} (v : α) (h : y ≠ x) : upd f x v y = f y := by simp [upd, h]

theorem registerAll_eq (xs : List Nat) (s : DSh) (y : Nat) :
    registerAll s xs y = { s y with cnt := (s y).cnt + xs.count y } := by
  induction xs generalizing s with
  | nil => simp [registerAll]
  | cons x xs ih =>
    simp only [registerAll, List.foldl_cons] at ih ⊢
    rw [ih]
    by_cases hy : y = x
    · subst hy; simp [register, upd]; omega
    · have : ¬ x = y := fun h => hy h.symm
      simp [register, upd, hy, this]

theorem count_cons_pair (x y : Nat) (m m' : Mode) (l : List (Nat × Mode)) :
    ((x, m) :: l).count (y, m') = l.count (y, m') + (if x = y ∧ m = m' then 1 else 0) := by
  rw [List.count_cons]
  congr 1
  by_cases h : x = y ∧ m = m'
  · obtain ⟨rfl, rfl⟩ := h; simp
  · have : ¬ ((x, m) == (y, m')) = true := by
      intro hb; apply h; simpa using hb
    simp [h, this]

theorem gi_lock_reg {s : DSh} {pre post : List DTh} {t : DTh} (x : Nat) (rest : List DOp)
    (h : GI s (pre ++ t :: post)) (hp : t.pc = .idle) :
    GI (register s x) (pre ++ { t with pc := .acqW x, script := rest } :: post) := by
  refine gi_replace h ?_
  clear h
  intro y A B C
  simp only [EntOk, hW, hR, aq, hp, register]
  by_cases hy : y = x
  · subst hy; simp only [upd_same, if_true]; generalize s y = e; obtain ⟨c, r, w⟩ := e; cases w <;> simp <;> omega
  · have : ¬ x = y := fun h => hy h.symm
    simp [upd, hy, this]

theorem gi_rlock_reg {s : DSh} {pre post : List DTh} {t : DTh} (xs : List Nat) (rest : List DOp)
    (h : GI s (pre ++ t :: post)) (hp : t.pc = .idle) :
    GI (registerAll s xs)
      (pre ++ { t with pc := if xs = [] then .idle else .acqR xs, script := rest } :: post) := by
  refine gi_replace h ?_
  clear h
  intro y A B C
  simp only [EntOk, hW, hR, aq, hp, registerAll_eq]
  by_cases hx : xs = []
  · subst hx; simp
  · simp only [hx, if_false]; generalize s y = e; obtain ⟨c, r, w⟩ := e; cases w <;> simp <;> omega

theorem gi_acqW {s : DSh} {pre post : List DTh} {t : DTh} {x : Nat}
    (h : GI s (pre ++ t :: post)) (hp : t.pc = .acqW x) (hw : (s x).writer = false) (hr : (s x).readers = 0) :
    GI (upd s x { s x with writer := true })
      (pre ++ { t with pc := .idle, held := (x, .w) :: t.held } :: post) := by
  refine gi_replace h ?_
  clear h
  intro y A B C
  simp only [EntOk, hW, hR, aq, hp, count_cons_pair]
  by_cases hy : y = x
  · subst hy; simp only [upd_same]; revert hw hr; generalize s y = e; obtain ⟨c, r, w⟩ := e
    intro hw hr; simp at hw hr; subst hw hr; simp; omega
  · have : ¬ x = y := fun h => hy h.symm
    simp [upd, hy, this]

theorem gi_acqR {s : DSh} {pre post : List DTh} {t : DTh} {x : Nat} {xs : List Nat}
    (h : GI s (pre ++ t :: post)) (hp : t.pc = .acqR (x :: xs)) (hw : (s x).writer = false) :
    GI (upd s x { s x with readers := (s x).readers + 1 })
      (pre ++ { t with pc := if xs = [] then .idle else .acqR xs, held := (x, .r) :: t.held } :: post) := by
  refine gi_replace h ?_
  clear h
  intro y A B C
  have haq : aq y { t with pc := if xs = [] then .idle else .acqR xs, held := (x, .r) :: t.held } = xs.count y := by
    by_cases hx : xs = []
    · subst hx; simp [aq]
    · simp [aq, hx]
  simp only [EntOk, haq]
  simp only [hW, hR, aq, hp, List.count_cons]
  by_cases hy : y = x
  · subst hy; simp only [upd_same]; revert hw; generalize s y = e; obtain ⟨c, r, w⟩ := e
    intro hw; simp at hw; subst hw; simp; omega
  · have : ¬ x = y := fun h => hy h.symm
    simp [upd, hy, this]

theorem count_erase_pair (x y : Nat) (m m' : Mode) (l : List (Nat × Mode)) :
    (l.erase (x, m)).count (y, m') = l.count (y, m') - (if x = y ∧ m = m' then 1 else 0) := by
  by_cases h : x = y ∧ m = m'
  · obtain ⟨rfl, rfl⟩ := h; simp [List.count_erase_self]
  · have : (y, m') ≠ (x, m) := by
      intro hb; apply h; simp at hb; exact ⟨hb.1.symm, hb.2.symm⟩
    simp [h, List.count_erase_of_ne this]

theorem gi_unlockEnt {s : DSh} {pre post : List DTh} {t : DTh} {x : Nat} {md : Mode}
    (h : GI s (pre ++ t :: post)) (hheld : (x, md) ∈ t.held) :
    ∃ s', unlockEnt true md s x = some s' ∧
      GI s' (pre ++ { t with held := t.held.erase (x, md) } :: post) := by
  have hx := (gi_split.mp h) x
  have hpos : 0 < t.held.count (x, md) := List.count_pos_iff.mpr hheld
  cases md with
  | w =>
    have hfacts : (s x).writer = true ∧ (s x).readers = 0 ∧ (s x).cnt ≠ 0 := by
      revert hx; simp only [EntOk, hW, hR]
      generalize s x = e; obtain ⟨c, r, w⟩ := e
      cases w <;> simp <;> omega
    obtain ⟨f1, f2, f3⟩ := hfacts
    refine ⟨_, by simp [unlockEnt, f1, f2, f3]; rfl, ?_⟩
    refine gi_replace h ?_
    clear h hx
    intro y A B C
    simp only [EntOk, hW, hR, aq, count_erase_pair]
    by_cases hy : y = x
    · subst hy
      simp only [upd_same]
      rcases he : s y with ⟨c, r, w⟩
      simp only [he] at f1 f2 f3
      subst f1 f2
      by_cases hc : c = 1
      · subst hc; simp [Ent.zero]; omega
      · simp [hc]; omega
    · have : ¬ x = y := fun h => hy h.symm
      simp [upd, hy, this]
  | r =>
    have hfacts : (s x).writer = false ∧ (s x).readers ≠ 0 ∧ (s x).cnt ≠ 0 := by
      revert hx; simp only [EntOk, hW, hR]
      generalize s x = e; obtain ⟨c, r, w⟩ := e
      cases w <;> simp <;> omega
    obtain ⟨f1, f2, f3⟩ := hfacts
    refine ⟨_, by simp [unlockEnt, f1, f2, f3]; rfl, ?_⟩
    refine gi_replace h ?_
    clear h hx
    intro y A B C
    simp only [EntOk, hW, hR, aq, count_erase_pair]
    by_cases hy : y = x
    · subst hy
      simp only [upd_same]
      rcases he : s y with ⟨c, r, w⟩
      simp only [he] at f1 f2 f3
      subst f1
      by_cases hc : c = 1
      · subst hc; simp [Ent.zero]; omega
      · simp [hc]; omega
    · have : ¬ x = y := fun h => hy h.symm
      simp [upd, hy, this]

theorem gi_unlockAll {pre post : List DTh} : ∀ (xs : List Nat) (s : DSh) (t : DTh),
    GI s (pre ++ t :: post) → allHeld t.held .r xs = true →
    ∃ s', unlockAll true .r s xs = some s' ∧
      GI s' (pre ++ { t with held := eraseAll t.held .r xs } :: post) := by
  intro xs
  induction xs with
  | nil => intro s t h _; exact ⟨s, rfl, by cases t; exact h⟩
  | cons x xs ih =>
    intro s t h hall
    simp only [allHeld, Bool.and_eq_true, List.contains_iff_mem] at hall
    obtain ⟨s1, h1, g1⟩ := gi_unlockEnt h hall.1
    obtain ⟨s2, h2, g2⟩ := ih s1 { t with held := t.held.erase (x, .r) } g1 hall.2
    exact ⟨s2, by simp only [unlockAll, h1]; exact h2, g2⟩

theorem gi_script {s : DSh} {pre post : List DTh} {t : DTh} (r : List DOp) (h : GI s (pre ++ t :: post)) :
    GI s (pre ++ { t with script := r } :: post) :=
  gi_replace h (fun _ _ _ _ hx => hx)

/-- What the program point says about the script: acquisitions follow the order, releases are held. -/
def TI (t : DTh) : Prop :=
  match t.pc with
  | .idle => okD t.held t.script = true
  | .acqW x => below t.held x = true ∧ okD ((x, .w) :: t.held) t.script = true
  | .acqR xs => xs ≠ [] ∧ chain t.held xs = true ∧ okD (pushAll t.held xs) t.script = true
  | .dead => False

theorem step_inv {s : DSh} {pre post : List DTh} {t : DTh} {s' : DSh} {t' : DTh}
    (h : GI s (pre ++ t :: post)) (ht : TI t) (hmem : (s', t') ∈ stepG true s t) :
    GI s' (pre ++ t' :: post) ∧ TI t' := by
  obtain ⟨pc, held, script⟩ := t
  cases pc with
  | dead => simp [stepG] at hmem
  | idle =>
    simp only [TI] at ht
    cases script with
    | nil => simp [stepG] at hmem
    | cons op rest =>
      cases op with
      | lock x =>
        simp only [stepG, List.mem_singleton, Prod.mk.injEq] at hmem
        obtain ⟨rfl, rfl⟩ := hmem
        simp only [okD, Bool.and_eq_true] at ht
        exact ⟨gi_lock_reg x rest h rfl, ht⟩
      | rlock xs =>
        simp only [stepG, List.mem_singleton, Prod.mk.injEq] at hmem
        obtain ⟨rfl, rfl⟩ := hmem
        simp only [okD, Bool.and_eq_true] at ht
        refine ⟨gi_rlock_reg xs rest h rfl, ?_⟩
        by_cases hx : xs = []
        · subst hx; simpa [TI, pushAll] using ht.2
        · simp only [hx, if_false, TI]; exact ⟨hx, ht.1, ht.2⟩
      | unlock x =>
        simp only [okD, Bool.and_eq_true, List.contains_iff_mem] at ht
        obtain ⟨s1, h1, g1⟩ := gi_unlockEnt (gi_script rest h) (t := ⟨.idle, held, rest⟩) ht.1
        simp only [stepG, h1, List.mem_singleton, Prod.mk.injEq] at hmem
        obtain ⟨rfl, rfl⟩ := hmem
        exact ⟨g1, ht.2⟩
      | runlock xs =>
        simp only [okD, Bool.and_eq_true] at ht
        obtain ⟨s1, h1, g1⟩ := gi_unlockAll xs s ⟨.idle, held, rest⟩ (gi_script rest h) ht.1
        simp only [stepG, h1, List.mem_singleton, Prod.mk.injEq] at hmem
        obtain ⟨rfl, rfl⟩ := hmem
        exact ⟨g1, ht.2⟩
  | acqW x =>
    simp only [TI] at ht
    simp only [stepG] at hmem
    split at hmem
    · rename_i hg
      simp only [List.mem_singleton, Prod.mk.injEq] at hmem
      obtain ⟨rfl, rfl⟩ := hmem
      exact ⟨gi_acqW h rfl hg.1 hg.2, ht.2⟩
    · simp at hmem
  | acqR xs =>
    simp only [TI] at ht
    cases xs with
    | nil => exact absurd rfl ht.1
    | cons x xs =>
      simp only [stepG] at hmem
      split at hmem
      · rename_i hg
        simp only [List.mem_singleton, Prod.mk.injEq] at hmem
        obtain ⟨rfl, rfl⟩ := hmem
        refine ⟨gi_acqR h rfl hg, ?_⟩
        simp only [chain, Bool.and_eq_true, pushAll] at ht
        by_cases hx : xs = []
        · subst hx; simpa [TI, pushAll] using ht.2.2
        · simp only [hx, if_false, TI]; exact ⟨hx, ht.2.1.2, ht.2.2⟩
      · simp at hmem

/-! ## Configurations -/

def DInv (c : Cfg DSh DTh) : Prop := GI c.1 c.2 ∧ ∀ t ∈ c.2, TI t

def WBD (scripts : List (List DOp)) : Prop := ∀ sc ∈ scripts, okD [] sc = true

theorem dinv_init {scripts : List (List DOp)} (h : WBD scripts) : DInv (initCfg scripts) := by
  have hnew : ∀ t ∈ (initCfg scripts).2, ∃ sc ∈ scripts, t = DTh.new sc := by
    intro t ht
    simp only [initCfg, List.mem_map] at ht
    obtain ⟨sc, hsc, rfl⟩ := ht
    exact ⟨sc, hsc, rfl⟩
  refine ⟨?_, ?_⟩
  · have z : ∀ f : DTh → Nat, (∀ sc, f (DTh.new sc) = 0) → sumL f (initCfg scripts).2 = 0 := by
      intro f hf
      apply sumL_zero
      intro t ht
      obtain ⟨sc, _, rfl⟩ := hnew t ht
      exact hf sc
    constructor <;> intro x
    · rw [z]; · rfl
      intro sc; simp [hW, DTh.new]
    · rw [z]; · rfl
      intro sc; simp [hR, DTh.new]
    · intro hw; simp [initCfg, Ent.zero] at hw
    · rw [z, z, z]
      · rfl
      · intro sc; simp [aq, DTh.new]
      · intro sc; simp [hR, DTh.new]
      · intro sc; simp [hW, DTh.new]
  · intro t ht
    obtain ⟨sc, hsc, rfl⟩ := hnew t ht
    exact h sc hsc

theorem dinv_step {a b : Cfg DSh DTh} (h : DInv a) (hs : Step sys a b) : DInv b := by
  cases hs with
  | mk s pre t post s' t' hmem =>
    obtain ⟨hg, hl⟩ := h
    have ht : TI t := hl t (by simp)
    obtain ⟨g', t1⟩ := step_inv hg ht hmem
    refine ⟨g', ?_⟩
    intro u hu
    simp only [List.mem_append, List.mem_cons] at hu
    rcases hu with hu | rfl | hu
    · exact hl u (by simp [hu])
    · exact t1
    · exact hl u (by simp [hu])

theorem dinv_reach {scripts : List (List DOp)} (hwb : WBD scripts) {c : Cfg DSh DTh}
    (hr : Reach sys (initCfg scripts) c) : DInv c :=
  inv_induction DInv (dinv_init hwb) (fun _ _ h hs => dinv_step h hs) hr

/-! ## Ordered acquisition never deadlocks -/

theorem holder_exists {s : DSh} {ts : List DTh} (h : GI s ts) {x : Nat}
    (hb : (s x).writer = true ∨ 0 < (s x).readers) : ∃ u ∈ ts, ∃ md, (x, md) ∈ u.held := by
  rcases hb with hw | hr
  · have := h.hw x
    simp only [hw, if_true] at this
    obtain ⟨u, hu, hp⟩ := sumL_pos (f := hW x) (vs := ts) (by omega)
    exact ⟨u, hu, .w, List.count_pos_iff.mp hp⟩
  · have := h.hr x
    obtain ⟨u, hu, hp⟩ := sumL_pos (f := hR x) (vs := ts) (by omega)
    exact ⟨u, hu, .r, List.count_pos_iff.mp hp⟩

theorem wants_above {t : DTh} (ht : TI t) {y : Nat} (hw : t.wants = some y) :
    ∀ x md, (x, md) ∈ t.held → x < y := by
  obtain ⟨pc, held, script⟩ := t
  have key : below held y = true := by
    cases pc with
    | idle => simp [DTh.wants] at hw
    | dead => simp [DTh.wants] at hw
    | acqW x =>
      simp only [DTh.wants, Option.some.injEq] at hw; subst hw
      exact ht.1
    | acqR xs =>
      cases xs with
      | nil => simp [DTh.wants] at hw
      | cons x xs =>
        simp only [DTh.wants, Option.some.injEq] at hw; subst hw
        have := ht.2.1
        simp only [chain, Bool.and_eq_true] at this
        exact this.1
  intro x md hmem
  simp only [below, List.all_eq_true, decide_eq_true_eq] at key
  exact key (x, md) hmem

theorem not_done_of_held {t : DTh} (ht : TI t) {x : Nat} {md : Mode} (hm : (x, md) ∈ t.held) : ¬ t.done := by
  rintro ⟨hp, hs⟩
  obtain ⟨pc, held, script⟩ := t
  simp only at hp hs; subst hp hs
  simp only [TI, okD, List.isEmpty_iff] at ht
  subst ht
  simp at hm

/-- Pessimistically stuck: everybody has finished or is waiting for an entity somebody holds. -/
def PStuck (c : Cfg DSh DTh) : Prop := ∀ t ∈ c.2, t.done ∨ blocked c.1 t

theorem pstuck_all_done {s : DSh} {ts : List DTh} (h : DInv (s, ts)) (hst : PStuck (s, ts)) :
    ∀ t ∈ ts, t.done := by
  obtain ⟨hg, hl⟩ := h
  let wv : DTh → Nat := fun t => t.wants.getD 0
  have hbound : ∀ t ∈ ts, ∀ x, t.wants = some x → x ≤ sumL wv ts := by
    intro t ht x hx
    have := sumL_ge (f := wv) ht
    simp only [wv, hx, Option.getD_some] at this
    exact this
  have hclimb : ∀ t ∈ ts, ∀ x, t.wants = some x → ((s x).writer = true ∨ 0 < (s x).readers) →
      ∃ u ∈ ts, ∃ y, u.wants = some y ∧ ((s y).writer = true ∨ 0 < (s y).readers) ∧ x < y := by
    intro t _ x _ hb
    obtain ⟨u, hu, md, hheld⟩ := holder_exists hg hb
    have hnd := not_done_of_held (hl u hu) hheld
    rcases hst u hu with hd | ⟨y, hy, hby⟩
    · exact absurd hd hnd
    · exact ⟨u, hu, y, hy, hby, wants_above (hl u hu) hy x md hheld⟩
  have hnone : ∀ k, ∀ t ∈ ts, ∀ x, t.wants = some x → ((s x).writer = true ∨ 0 < (s x).readers) →
      sumL wv ts - x ≤ k → False := by
    intro k
    induction k with
    | zero =>
      intro t ht x hx hb hk
      obtain ⟨u, hu, y, hy, _, hlt⟩ := hclimb t ht x hx hb
      have := hbound u hu y hy
      omega
    | succ k ih =>
      intro t ht x hx hb hk
      obtain ⟨u, hu, y, hy, hby, hlt⟩ := hclimb t ht x hx hb
      have := hbound u hu y hy
      exact ih u hu y hy hby (by omega)
  intro t ht
  rcases hst t ht with hd | ⟨x, hx, hb⟩
  · exact hd
  · exact (hnone _ t ht x hx hb (Nat.le_refl _)).elim

end Hive.SyncMutex.Dag
