import Hive.Proofs.C12aMap
import Hive.Model.C12aShrink
/-! Refinement of the ShrinkingMap model to the plain map, for every shrink rule. -/
namespace Hive.C12a.Shrink

open Hive.C12a

theorem rebuild_m (s : St) : (rebuild s).m = s.m := rfl

theorem delete_m (sh : Nat → Nat → Bool) (s : St) (k : Nat) :
    (delete sh s k).1.m = AL.del s.m k := by
  unfold delete
  by_cases h : AL.has s.m k = true
  · simp only [h, if_true]; split <;> simp [rebuild]
  · simp only [h, Bool.false_eq_true, if_false]
    have hn : k ∉ AL.keys s.m := by rw [← AL.has_iff_mem_keys]; exact h
    symm
    unfold AL.del
    rw [List.filter_eq_self]
    intro p hp
    have : p.1 ∈ AL.keys s.m := List.mem_map_of_mem hp
    simp only [bne_iff_ne, ne_eq]
    intro e; rw [e] at this; exact hn this

theorem delete_b (sh : Nat → Nat → Bool) (s : St) (k : Nat) :
    (delete sh s k).2 = AL.has s.m k := by
  unfold delete
  by_cases h : AL.has s.m k = true
  · simp only [h, if_true]; split <;> rfl
  · simp [h]

theorem store_m (s : St) (k v : Nat) : (store s k v).m = AL.set s.m k v := rfl

theorem pick_mem (m : AL Nat) (c k v : Nat) (h : pick m c = some (k, v)) : AL.get m k ≠ none ∧ (k, v) ∈ m := by
  unfold pick at h
  have hm : (k, v) ∈ m := List.mem_of_getElem? h
  refine ⟨?_, hm⟩
  rw [Ne, AL.get_eq_none_iff]; intro hn
  exact hn (List.mem_map_of_mem (f := (·.1)) hm)

theorem deleteAll_m (sh : Nat → Nat → Bool) (s : St) (ks : List Nat) :
    (deleteAll sh s ks).m = ks.foldl AL.del s.m := by
  induction ks generalizing s with
  | nil => rfl
  | cons k ks ih =>
    simp only [deleteAll, List.foldl_cons] at ih ⊢
    rw [ih, delete_m]

/-- Deleting the keys `ks` one after the other keeps exactly the bindings of the other keys. -/
theorem foldl_del_eq_filter (m : AL Nat) (ks : List Nat) :
    ks.foldl AL.del m = m.filter (fun p => !ks.contains p.1) := by
  induction ks generalizing m with
  | nil =>
    simp only [List.foldl_nil, List.contains_nil, Bool.not_false]
    exact (List.filter_eq_self.mpr (fun _ _ => rfl)).symm
  | cons k ks ih =>
    simp only [List.foldl_cons, ih, AL.del, List.filter_filter]
    apply List.filter_congr
    intro p _
    by_cases h : p.1 = k
    · simp [h]
    · have h' : (p.1 == k) = false := by simpa using h
      simp [h, h']

theorem foldl_del_keys (m : AL Nat) : (AL.keys m).foldl AL.del m = [] := by
  rw [foldl_del_eq_filter, List.filter_eq_nil_iff]
  intro p hp
  have : p.1 ∈ AL.keys m := List.mem_map_of_mem hp
  simp [this]

/-- One step: same output as the plain map, and the map component follows the plain map. -/
theorem step_refines (sh : Nat → Nat → Bool) (s : St) (op : Op) :
    (step sh s op).2 = (specStep s.m op).2 ∧ (step sh s op).1.m = (specStep s.m op).1 := by
  cases op with
  | set k v => exact ⟨rfl, rfl⟩
  | get k => exact ⟨rfl, rfl⟩
  | goc k v =>
    simp only [step, specStep]
    cases AL.get s.m k <;> exact ⟨rfl, rfl⟩
  | compute k d => exact ⟨rfl, rfl⟩
  | has k => exact ⟨rfl, rfl⟩
  | del k => simp [step, specStep, delete_m, delete_b]
  | delif k c => cases c <;> simp [step, specStep, delete_m, delete_b]
  | delret k =>
    simp only [step, specStep]
    cases h : AL.get s.m k with
    | none =>
      refine ⟨rfl, ?_⟩
      have := delete_m (fun _ _ => false) s k
      simp only [delete, AL.has, h, Option.isSome_none, Bool.false_eq_true, if_false] at this
      exact this
    | some x => exact ⟨rfl, delete_m sh s k⟩
  | pop c =>
    simp only [step, specStep]
    cases h : pick s.m c with
    | none => exact ⟨rfl, rfl⟩
    | some p => obtain ⟨k, v⟩ := p; exact ⟨rfl, delete_m sh s k⟩
  | keys => exact ⟨rfl, rfl⟩
  | values => exact ⟨rfl, rfl⟩
  | size => exact ⟨rfl, rfl⟩
  | isEmpty => exact ⟨rfl, rfl⟩
  | asMap => exact ⟨rfl, rfl⟩
  | clear => exact ⟨rfl, rfl⟩
  | shrink => exact ⟨rfl, rfl⟩
  | forEachN n => exact ⟨rfl, rfl⟩
  | forEachDel ko => exact ⟨rfl, deleteAll_m sh s _⟩

theorem run_refines (sh : Nat → Nat → Bool) (s : St) (ops : List Op) :
    (run sh s ops).2 = (specRun s.m ops).2 ∧ (run sh s ops).1.m = (specRun s.m ops).1 := by
  induction ops generalizing s with
  | nil => exact ⟨rfl, rfl⟩
  | cons op ops ih =>
    obtain ⟨h1, h2⟩ := step_refines sh s op
    obtain ⟨i1, i2⟩ := ih (step sh s op).1
    simp only [run, specRun]
    rw [h2] at i1 i2
    exact ⟨by rw [h1, i1], i2⟩

/-! ## the plain map keeps its keys distinct, so `size` is the number of keys -/

theorem spec_nodup {m : AL Nat} (h : AL.NoDupKeys m) (op : Op) : AL.NoDupKeys (specStep m op).1 := by
  cases op with
  | goc k v => simp only [specStep]; cases AL.get m k <;> simp [h, AL.nodup_set]
  | delif k c => cases c <;> simp [specStep, h, AL.nodup_del]
  | pop c =>
    simp only [specStep]
    cases pick m c with
    | none => exact h
    | some p => exact AL.nodup_del h _
  | clear => simp [specStep, AL.NoDupKeys, AL.keys]
  | forEachDel ko =>
    simp only [specStep]
    generalize AL.keys m = ks
    induction ks generalizing m with
    | nil => exact h
    | cons k ks ih => exact ih (AL.nodup_del h k)
  | _ => simp [specStep, h, AL.nodup_set, AL.nodup_del]

/-! ## what the counter and the ghost allocation do -/

/-- The map never holds more allocated slots than live keys plus counted deletions. -/
structure Inv (s : St) : Prop where
  nodup : AL.NoDupKeys s.m
  alloc : s.alloc ≤ s.m.length + s.deleted
  live : s.m.length ≤ s.alloc

theorem inv_init : Inv init := ⟨by simp [init, AL.NoDupKeys, AL.keys], by simp [init], by simp [init]⟩

theorem inv_rebuild {s : St} (h : Inv s) : Inv (rebuild s) :=
  ⟨h.nodup, by simp [rebuild], by simp [rebuild]⟩

theorem inv_store {s : St} (h : Inv s) (k v : Nat) : Inv (store s k v) := by
  have hl := AL.length_set s.m k v
  refine ⟨AL.nodup_set h.nodup k v, ?_, ?_⟩
  · have := h.alloc; have := h.live
    simp only [store]; split at hl <;> omega
  · simp only [store]; omega

theorem inv_delete {s : St} (h : Inv s) (sh : Nat → Nat → Bool) (k : Nat) : Inv (delete sh s k).1 := by
  unfold delete
  by_cases hk : AL.has s.m k = true
  · simp only [hk, if_true]
    have hl := AL.length_del h.nodup k
    simp only [hk, if_true] at hl
    have hpos : s.m.length ≠ 0 := by
      intro h0; have := List.eq_nil_of_length_eq_zero h0
      rw [this] at hk; simp [AL.has, AL.get] at hk
    have h1 : Inv { s with m := AL.del s.m k, deleted := s.deleted + 1 } :=
      ⟨AL.nodup_del h.nodup k, by have := h.alloc; simp only; omega, by have := h.live; simp only; omega⟩
    split
    · exact inv_rebuild h1
    · exact h1
  · simpa [hk] using h

theorem inv_deleteAll {s : St} (h : Inv s) (sh : Nat → Nat → Bool) (ks : List Nat) : Inv (deleteAll sh s ks) := by
  induction ks generalizing s with
  | nil => exact h
  | cons k ks ih => exact ih (inv_delete h sh k)

theorem inv_step {s : St} (h : Inv s) (sh : Nat → Nat → Bool) (op : Op) : Inv (step sh s op).1 := by
  cases op with
  | forEachDel ko => exact inv_deleteAll h sh _
  | set k v => exact inv_store h k v
  | goc k v => simp only [step]; cases AL.get s.m k <;> simp [h, inv_store]
  | compute k d => exact inv_store h k _
  | del k => exact inv_delete h sh k
  | delif k c => cases c <;> simp [step, h, inv_delete]
  | delret k => simp only [step]; cases AL.get s.m k <;> simp [h, inv_delete]
  | pop c =>
    simp only [step]
    cases pick s.m c with
    | none => exact h
    | some p => exact inv_delete h sh _
  | clear => exact ⟨by simp [step, AL.NoDupKeys, AL.keys], by simp [step], by simp [step]⟩
  | shrink => exact inv_rebuild h
  | _ => exact h

def final (sh : Nat → Nat → Bool) (s : St) (ops : List Op) : St := ops.foldl (fun s op => (step sh s op).1) s

theorem run_fst (sh : Nat → Nat → Bool) (s : St) (ops : List Op) : (run sh s ops).1 = final sh s ops := by
  induction ops generalizing s with
  | nil => rfl
  | cons op ops ih => simp [run, final, ih]

theorem inv_final (sh : Nat → Nat → Bool) (ops : List Op) {s : St} (h : Inv s) : Inv (final sh s ops) := by
  induction ops generalizing s with
  | nil => exact h
  | cons op ops ih => exact ih (inv_step h sh op)

/-- Under a rule that fires whenever `c` deletions were counted, the counter stays below `c`. -/
theorem deleted_lt_step {sh : Nat → Nat → Bool} {c : Nat} (hc : 0 < c)
    (hsh : ∀ d n, c ≤ d → sh d n = true) {s : St} (h : s.deleted < c) (op : Op) :
    (step sh s op).1.deleted < c := by
  have hdel : ∀ k, (delete sh s k).1.deleted < c := by
    intro k
    unfold delete
    by_cases hk : AL.has s.m k = true
    · simp only [hk, if_true]
      by_cases hs : sh (s.deleted + 1) (AL.del s.m k).length = true
      · simp [hs, rebuild, hc]
      · simp only [hs, Bool.false_eq_true, if_false]
        by_cases hlt : s.deleted + 1 < c
        · exact hlt
        · exact absurd (hsh _ _ (by omega)) hs
    · simpa [hk] using h
  cases op with
  | forEachDel ko =>
    simp only [step]
    generalize AL.keys s.m = ks
    -- every single delete keeps the counter below `c`, from any state
    have hdel' : ∀ (t : St), t.deleted < c → ∀ k, (delete sh t k).1.deleted < c := by
      intro t ht k
      unfold delete
      by_cases hk : AL.has t.m k = true
      · simp only [hk, if_true]
        by_cases hs : sh (t.deleted + 1) (AL.del t.m k).length = true
        · simp [hs, rebuild, hc]
        · simp only [hs, Bool.false_eq_true, if_false]
          by_cases hlt : t.deleted + 1 < c
          · exact hlt
          · exact absurd (hsh _ _ (by omega)) hs
      · simpa [hk] using ht
    induction ks generalizing s with
    | nil => exact h
    | cons k ks ih =>
      simp only [deleteAll, List.foldl_cons]
      exact ih (hdel' s h k) (fun k' => hdel' _ (hdel' s h k) k')
  | goc k v => simp only [step]; cases AL.get s.m k <;> simp [h, store]
  | del k => exact hdel k
  | delif k b => cases b <;> simp [step, h, hdel]
  | delret k => simp only [step]; cases AL.get s.m k <;> simp [h, hdel]
  | pop x =>
    simp only [step]
    cases pick s.m x with
    | none => exact h
    | some p => exact hdel _
  | clear => simpa [step] using hc
  | shrink => simpa [step, rebuild] using hc
  | _ => simpa [step, store] using h

/-- The rule of the code with the ratio disabled fires whenever `count` deletions were counted. -/
theorem shouldShrink_count (c : Nat) (hc : 0 < c) (d n : Nat) (h : c ≤ d) :
    shouldShrink ⟨0, 1, c⟩ d n = true := by
  simp only [shouldShrink]
  have h1 : ¬ ((d : Int) < (c : Int)) := by omega
  have h2 : c ≠ 0 := by omega
  simp [h1, h2]

end Hive.C12a.Shrink
