import Hive.Proofs.BatchWriterNeed
/-!
# C08 proofs, part 5: per-thread facts are preserved by the thread's own steps and by everybody else's
-/
namespace Hive.BatchWriter
open Hive.Conc Hive.Spec.BatchWriter

def atLoad : Thread → Bool
  | .stopper _ pc => pc = .load
  | _ => false

set_option hygiene false in
theorem tinv_own {s s' : St} {t t' : Thread} (ht : TInv s t) (hl : LInv s) (hn : NInv s) (hw : ∀ o, WO s o)
    (hld : atLoad t = true → (s.running = true → s.added = true) ∧ (s.stopped = true → s.waited = true))
    (hbr : bodyPre t = true → s.running = false)
    (hm : (s', t') ∈ step s t) : TInv s' t' := by
  have g1 : s.once = 3 → s.running = false → s.mon.stopCalled = true := by
    intro a b; exact hl.stopped_called (hl.once_stopped (by omega) b)
  have g2 : ∀ o, s.mon.wr o ≤ s.rst o := by
    intro o; have := (hw o).wr_rst; omega
  have g3 := hn.sch_rst
  have g4 : s.running = false → s.stopped = false → ∀ o, s.mon.need o = 0 := by
    intro a b
    apply hn.need0
    by_cases h : 2 ≤ s.once
    · have := hl.once_stopped h a; simp_all
    · omega
  have g5 := hl.waited_exited
  have g7 := hn.snap_need
  have g6 : s.wg = 0 → s.added = true → s.wpc = .exited := by
    intro a b
    have := hl.wg
    by_cases h : s.wpc = .exited
    · exact h
    · simp [b, h] at this; omega
  clear hl hn hw
  step_cases
  all_goals (
    (try simp [emit, Mon.step, TInv, atLoad, bodyPre, Tab.get_set] at *) <;> (try simp_all) <;> (try omega))
  · intro _; have := g2 cur; omega
  · have := g2 cur; omega
  · by_cases h : s'.stopped = true
    · left; exact g5 (hld h)
    · right
      intro o
      have a := g4 (by simpa using h) o
      have b := g7 id o
      omega

/-- How one step changes what other threads rely on. -/
structure Mono (s s' : St) (t : Thread) : Prop where
  wr : ∀ o, s.mon.wr o ≤ s'.mon.wr o
  sch : ∀ o, s.mon.sch o ≤ s'.mon.sch o
  once : s.once ≤ s'.once
  called : s.mon.stopCalled = true → s'.mon.stopCalled = true
  added : s.added = true → s'.added = true
  exited : s.wpc = .exited → s'.wpc = .exited
  snap : ∀ k, t.pid ≠ some (true, k) → s'.mon.snap k = s.mon.snap k
  mark : ∀ p, t.pid ≠ some (false, p) → s'.mon.mark p = s.mon.mark p
  passed : ∀ p, t.pid ≠ some (false, p) → s'.mon.passed p = s.mon.passed p
  running : holdsMu t = false → s'.running = s.running
  spawned : s.spawned = true → s'.spawned = true

set_option hygiene false in
theorem mono_step {s s' : St} {t t' : Thread} (hc : CFacts s t) (hm : (s', t') ∈ step s t) : Mono s s' t := by
  have c1 := hc.pre
  have c2 := hc.post
  clear hc
  step_cases
  all_goals (
    refine ⟨?_, ?_, ?_, ?_, ?_, ?_, ?_, ?_, ?_, ?_, ?_⟩ <;>
    (try intro o) <;>
    (try simp [emit, Mon.step, Thread.pid, holdsMu, bodyPre, bodyPost, Tab.get_set] at *) <;> (try split) <;>
    (try simp_all) <;> (try omega))

theorem tinv_other {s s' : St} {t u : Thread} (hu : TInv s u) (hmo : Mono s s' t) (hle : s'.once ≤ 3)
    (hmx : holdsMu t = true → holdsMu u = true → False) (hid : ∀ k, u.pid = some k → t.pid ≠ some k) :
    TInv s' u := by
  obtain ⟨m1, m2, m3, m4, m5, m6, m7, m8, m8', m9, m10⟩ := hmo
  cases u with
  | prod p pc cur script =>
    have e := m8 p (hid _ rfl)
    have e' := m8' p (hid _ rfl)
    have a := m1 cur
    have b := m2 cur
    simp only [TInv] at hu ⊢
    rw [e, e']
    refine ⟨fun h => ?_, fun h => ?_, fun h hp => ?_, fun h => hu.2.2.2.1 h, fun h => ?_, fun h => m10 (hu.2.2.2.2.2 h)⟩
    · have := hu.1 h; omega
    · have := hu.2.1 h; omega
    · have := hu.2.2.1 h hp; omega
    · have := hu.2.2.2.2.1 h; omega
  | stopper id pc =>
    have e := m7 id (hid _ rfl)
    simp only [TInv] at hu ⊢
    rw [e]
    refine ⟨fun h => m4 (hu.1 h), fun h => ?_, fun h => m5 (hu.2.2.1 h), fun h => ?_⟩
    · have hh : holdsMu t = false := by
        cases hx : holdsMu t
        · rfl
        · exact (hmx hx (by simp [holdsMu, h])).elim
      rw [m9 hh]
      exact ⟨(hu.2.1 h).1, m5 (hu.2.1 h).2⟩
    · rcases hu.2.2.2 h with h' | h'
      · left; exact m6 h'
      · right; exact h'
  | flusher l n => trivial
  | writer => trivial
  | obs sc => trivial
end Hive.BatchWriter
