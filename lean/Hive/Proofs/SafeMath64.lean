import Hive.Proofs.SafeMathShift
/-! The 64-bit helpers: SafeMulUint64, Safe64MulDiv. -/
namespace Hive.GoInt
open Hive.Gen.SafeMath IntTy

theorem pow64 : (2 : Int) ^ 64 = 18446744073709551616 := by decide

theorem u64_inRange (z : Int) : IntTy.u64.InRange z ↔ 0 ≤ z ∧ z < 18446744073709551616 := by
  unfold InRange minVal maxVal u64
  simp only [Bool.false_eq_true, if_false, pow64]
  omega

theorem i64_inRange (z : Int) : IntTy.i64.InRange z ↔ -9223372036854775808 ≤ z ∧ z < 9223372036854775808 := by
  unfold InRange minVal maxVal i64
  have : (2 : Int) ^ (64 - 1) = 9223372036854775808 := by decide
  simp only [if_true, this]
  omega

theorem safeMulUint64_exact (x y : Int) (hx : IntTy.u64.InRange x) (hy : IntTy.u64.InRange y) :
    SafeMulUint64 x y = exact IntTy.u64 (x * y) := by
  rw [u64_inRange] at hx hy
  have hp : 0 ≤ x * y := Int.mul_nonneg hx.1 hy.1
  unfold SafeMulUint64 exact mul64
  simp only [u64_inRange, pow64]
  by_cases h0 : x = 0 ∨ y = 0
  · have : x * y = 0 := by rcases h0 with h | h <;> simp [h]
    rcases h0 with h | h <;> simp [h]
  · have hc : ((decide (x = 0)) || (decide (y = 0))) = false := by
      simp only [not_or] at h0; simp [h0.1, h0.2]
    simp only [hc, Bool.false_eq_true, if_false]
    generalize x * y = p at hp ⊢
    by_cases hlt : p < 18446744073709551616
    · have h1 : p / 18446744073709551616 = 0 := by omega
      have h2 : p % 18446744073709551616 = p := by omega
      simp [h1, h2, hp, hlt]
    · have h1 : p / 18446744073709551616 ≠ 0 := by omega
      simp [h1, hlt]

/-- What the property demands of `Safe64MulDiv`. -/
def exactMulDiv (x y d : Int) : Res Int :=
  if d = 0 then .divzero else exact IntTy.u64 (x * y / d)

theorem safe64MulDiv_exact (x y d : Int) (hx : IntTy.u64.InRange x) (hy : IntTy.u64.InRange y)
    (hd : IntTy.u64.InRange d) : Safe64MulDiv x y d = exactMulDiv x y d := by
  rw [u64_inRange] at hx hy hd
  have hp : 0 ≤ x * y := Int.mul_nonneg hx.1 hy.1
  unfold Safe64MulDiv exactMulDiv exact mul64 div64
  simp only [u64_inRange, pow64]
  by_cases hd0 : d = 0
  · simp [hd0]
  · have hdpos : 0 < d := by omega
    simp only [hd0, decide_false, Bool.false_eq_true, if_false]
    generalize x * y = p at hp ⊢
    have hq0 : 0 ≤ p / d := Int.ediv_nonneg hp (Int.le_of_lt hdpos)
    have hrecomb : p / 18446744073709551616 * 18446744073709551616 + p % 18446744073709551616 = p := by omega
    by_cases hle : d ≤ p / 18446744073709551616
    · -- quotient ≥ 2^64
      have : 18446744073709551616 ≤ p / d := by
        rw [Int.le_ediv_iff_mul_le hdpos]
        have := Int.mul_le_mul_of_nonneg_left hle (show (0 : Int) ≤ 18446744073709551616 by decide)
        omega
      have hnot : ¬ (0 ≤ p / d ∧ p / d < 18446744073709551616) := by omega
      simp [hle, hnot]
    · have hlt : p / d < 18446744073709551616 := by
        rw [Int.ediv_lt_iff_lt_mul hdpos]
        have h1 : p / 18446744073709551616 + 1 ≤ d := by omega
        have := Int.mul_le_mul_of_nonneg_left h1 (show (0 : Int) ≤ 18446744073709551616 by decide)
        omega
      have hin : (0 ≤ p / d ∧ p / d < 18446744073709551616) := ⟨hq0, hlt⟩
      simp only [hle, decide_false, Bool.false_eq_true, if_false, hd0, false_or, hrecomb, if_pos hin]

end Hive.GoInt
