import Hive.Proofs.C12bSubMgrInv
/-! The events of the SubscriptionManager model mirror every state change: a listener that folds the
events reconstructs the connected clients, every client's subscription counts and the set of topics
that have subscribers. -/
namespace Hive.C12b.SM
open AMap

theorem has_set {β : Type} (m : AMap β) (k k' : Nat) (v : β) :
    (m.set k v).has k' = if k' = k then true else m.has k' := by
  simp only [AMap.has, get_set]; split <;> simp

theorem has_del {β : Type} (m : AMap β) (k k' : Nat) :
    (m.del k).has k' = if k' = k then false else m.has k' := by
  simp only [AMap.has, get_del]; split <;> simp

/-- Subscription count read off a subscribers map. -/
def cntS (subs : AMap (AMap Nat)) (c t : Nat) : Nat :=
  match subs.get c with
  | some m => cntOf m t
  | none => 0

theorem cnt_eq (s : St) (c t : Nat) : cnt s c t = cntS s.subs c t := rfl

theorem cntS_set (subs : AMap (AMap Nat)) (c c' t : Nat) (m' : AMap Nat) :
    cntS (subs.set c m') c' t = if c' = c then cntOf m' t else cntS subs c' t := by
  by_cases e : c' = c <;> simp [cntS, get_set, e]

theorem cntS_del (subs : AMap (AMap Nat)) (c c' t : Nat) :
    cntS (subs.del c) c' t = if c' = c then 0 else cntS subs c' t := by
  by_cases e : c' = c <;> simp [cntS, get_del, e]

structure Agree (r : Rep) (subs : AMap (AMap Nat)) (topics : AMap Nat) : Prop where
  conn : ∀ c, r.conn c = subs.has c
  sub : ∀ c t, r.sub c t = cntS subs c t
  topic : ∀ t, r.topic t = topics.has t

/-! ## replaying batches -/

theorem replay_append (r : Rep) (a b : List Event) : replay r (a ++ b) = replay (replay r a) b := by
  simp [replay, List.foldl_append]

theorem replay_cons (r : Rep) (e : Event) (l : List Event) : replay r (e :: l) = replay (applyEvent r e) l := rfl

theorem replay_nil (r : Rep) : replay r [] = r := rfl

theorem replay_removed (r : Rep) (l : List Nat) :
    (replay r (l.map .topicRemoved)).conn = r.conn ∧
    (replay r (l.map .topicRemoved)).sub = r.sub ∧
    ∀ y, (replay r (l.map .topicRemoved)).topic y = if y ∈ l then false else r.topic y := by
  induction l generalizing r with
  | nil => simp [replay]
  | cons t l ih =>
    simp only [List.map_cons, replay_cons]
    obtain ⟨h1, h2, h3⟩ := ih (applyEvent r (.topicRemoved t))
    refine ⟨by rw [h1]; rfl, by rw [h2]; rfl, ?_⟩
    intro y
    rw [h3 y]
    simp only [applyEvent, List.mem_cons]
    by_cases hy : y ∈ l
    · simp [hy]
    · by_cases e : y = t <;> simp [hy, e]

theorem replay_unsub (r : Rep) (c : Nat) (l : List Nat) :
    (replay r (l.map (.unsubscribed c))).conn = r.conn ∧
    (replay r (l.map (.unsubscribed c))).topic = r.topic ∧
    ∀ c' t, (replay r (l.map (.unsubscribed c))).sub c' t = if c' = c then r.sub c' t - l.count t else r.sub c' t := by
  induction l generalizing r with
  | nil => simp [replay]
  | cons t0 l ih =>
    simp only [List.map_cons, replay_cons]
    obtain ⟨h1, h2, h3⟩ := ih (applyEvent r (.unsubscribed c t0))
    refine ⟨by rw [h1]; rfl, by rw [h2]; rfl, ?_⟩
    intro c' t
    rw [h3 c' t]
    simp only [applyEvent]
    by_cases ec : c' = c
    · subst ec
      by_cases et : t = t0
      · subst et; simp; omega
      · have : ¬ (t0 == t) = true := by simp; exact fun e => et e.symm
        simp [et, List.count_cons, this]
    · simp [ec]

/-- The batch produced by `cleanupClientWithoutLocking`. -/
def cleanEvents (c : Nat) (m tp : AMap Nat) : List Event :=
  (cleanLoop m tp).removed.map .topicRemoved ++ (cleanLoop m tp).unsub.map (.unsubscribed c)

theorem agree_cleanEvents {r : Rep} {s : St} (ha : Agree r s.subs s.topics) (hv : Inv s) (c : Nat) (m : AMap Nat)
    (h : s.subs.get c = some m) :
    (replay r (cleanEvents c m s.topics)).conn = r.conn ∧
    (∀ c' t, (replay r (cleanEvents c m s.topics)).sub c' t = cntS (s.subs.del c) c' t) ∧
    (∀ t, (replay r (cleanEvents c m s.topics)).topic t = (cleanLoop m s.topics).topics.has t) := by
  have hmn := hv.clientNodup c m h
  unfold cleanEvents
  rw [replay_append]
  obtain ⟨a1, a2, a3⟩ := replay_removed r (cleanLoop m s.topics).removed
  obtain ⟨b1, b2, b3⟩ := replay_unsub (replay r ((cleanLoop m s.topics).removed.map .topicRemoved)) c (cleanLoop m s.topics).unsub
  refine ⟨by rw [b1, a1], ?_, ?_⟩
  · intro c' t
    rw [b3 c' t, a2, cntS_del]
    by_cases ec : c' = c
    · subst ec
      simp only [if_true]
      rw [ha.sub c' t, count_cleanLoop_unsub m s.topics hmn t]
      simp [cntS, h]
    · simp only [ec, if_false]; exact ha.sub c' t
  · intro t
    rw [b2, a3 t, ha.topic t]
    simp only [AMap.has, cleanLoop_get m s.topics hmn t]
    by_cases hr : t ∈ (cleanLoop m s.topics).removed
    · obtain ⟨n, tc, h1, h2, h3⟩ := (mem_cleanLoop_removed m s.topics hmn t).1 hr
      simp [hr, h1, h2, h3]
    · simp only [hr, if_false]
      cases hm : m.get t with
      | none => rfl
      | some n =>
        cases htp : s.topics.get t with
        | none => rfl
        | some tc =>
          have : ¬ tc ≤ n := fun hle => hr ((mem_cleanLoop_removed m s.topics hmn t).2 ⟨n, tc, hm, htp, hle⟩)
          simp [this]

/-- Mirror step: folding the events of one request keeps the listener's replica in agreement. -/
theorem agree_step {r : Rep} {s : St} (ha : Agree r s.subs s.topics) (hv : Inv s) (op : Op) :
    Agree (replay r (step s op).2.events) (step s op).1.subs (step s op).1.topics := by
  cases op with
  | connect c =>
    simp only [step]
    cases hc : s.subs.get c with
    | none =>
      rw [cleanup_none s c hc]
      simp only [Bool.false_eq_true, if_false, List.nil_append, replay_cons, replay_nil]
      refine ⟨?_, ?_, ha.topic⟩
      · intro c'
        simp only [applyEvent, has_set]
        by_cases e : c' = c <;> simp [e, ha.conn c']
      · intro c' t
        simp only [applyEvent, cntS_set, cntOf_nil]
        by_cases e : c' = c
        · subst e; simp only [if_true]; rw [ha.sub c' t]; simp [cntS, hc]
        · simp only [e, if_false]; exact ha.sub c' t
    | some m =>
      rw [cleanup_some s c m hc]
      obtain ⟨k1, k2, k3⟩ := agree_cleanEvents ha hv c m hc
      simp only [if_true, cleaned]
      rw [replay_append, replay_append]
      simp only [replay_cons, replay_nil]
      refine ⟨?_, ?_, ?_⟩
      · intro c'
        simp only [applyEvent, has_set]
        by_cases e : c' = c
        · simp [e]
        · simp only [e, if_false]
          show (replay r (cleanEvents c m s.topics)).conn c' = _
          rw [k1, ha.conn c', has_del]; simp [e]
      · intro c' t
        simp only [applyEvent, cntS_set, cntOf_nil]
        show (replay r (cleanEvents c m s.topics)).sub c' t = _
        rw [k2 c' t, cntS_del]
        by_cases e : c' = c <;> simp [e]
      · intro t
        simp only [applyEvent]
        exact k3 t
  | disconnect c =>
    simp only [step]
    cases hc : s.subs.get c with
    | none =>
      rw [cleanup_none s c hc]
      simpa [replay_nil] using ha
    | some m =>
      rw [cleanup_some s c m hc]
      obtain ⟨k1, k2, k3⟩ := agree_cleanEvents ha hv c m hc
      simp only [if_true, cleaned]
      rw [replay_append]
      simp only [replay_cons, replay_nil]
      refine ⟨?_, ?_, ?_⟩
      · intro c'
        simp only [applyEvent, has_del]
        by_cases e : c' = c
        · simp [e]
        · simp only [e, if_false]
          show (replay r (cleanEvents c m s.topics)).conn c' = _
          rw [k1, ha.conn c']
      · intro c' t
        simp only [applyEvent]
        exact k2 c' t
      · intro t
        simp only [applyEvent]
        exact k3 t
  | subscribe c t =>
    simp only [step]
    cases hc : s.subs.get c with
    | none => simpa [replay_nil] using ha
    | some m =>
      simp only []
      have hasc : s.subs.has c = true := by simp [AMap.has, hc]
      -- the two successful paths share one argument
      have key : ∀ m' : AMap Nat, (∀ t', cntOf m' t' = cntOf m t' + (if t' = t then 1 else 0)) →
          Agree (replay r ((bumpTopic { s with subs := s.subs.set c m' } t).2 ++ [.subscribed c t]))
            (bumpTopic { s with subs := s.subs.set c m' } t).1.subs
            (bumpTopic { s with subs := s.subs.set c m' } t).1.topics := by
        intro m' hm'
        have hsub : ∀ (r0 : Rep), r0.sub = r.sub → ∀ c' t',
            (applyEvent r0 (.subscribed c t)).sub c' t' = cntS (s.subs.set c m') c' t' := by
          intro r0 h0 c' t'
          simp only [applyEvent, h0, cntS_set]
          by_cases e : c' = c
          · subst e
            have hs := ha.sub c' t'
            simp only [cntS, hc] at hs
            by_cases e2 : t' = t
            · subst e2; simp [hs, hm']
            · simp [e2, hs, hm']
          · simp [e, ha.sub c' t']
        have hconn : ∀ c', r.conn c' = (s.subs.set c m').has c' := by
          intro c'
          rw [has_set, ha.conn c']
          by_cases e : c' = c <;> simp [e, hasc]
        unfold bumpTopic
        cases htp : s.topics.get t with
        | some n =>
          simp only [List.nil_append, replay_cons, replay_nil]
          refine ⟨hconn, hsub r rfl, ?_⟩
          intro t'
          simp only [applyEvent, has_set, ha.topic t']
          by_cases e : t' = t
          · subst e; simp [AMap.has, htp]
          · simp [e]
        | none =>
          simp only [List.cons_append, List.nil_append, replay_cons, replay_nil]
          refine ⟨hconn, hsub _ rfl, ?_⟩
          intro t'
          simp only [applyEvent, has_set, ha.topic t']
          try (by_cases e : t' = t <;> simp [e])
      cases hm : m.get t with
      | some n =>
        simp only []
        apply key
        intro t'
        rw [cntOf_set]
        by_cases e : t' = t
        · subst e; simp [cntOf, hm]
        · simp [e]
      | none =>
        simp only []
        split
        · rw [cleanup_some s c m hc]
          obtain ⟨k1, k2, k3⟩ := agree_cleanEvents ha hv c m hc
          simp only [cleaned]
          rw [replay_append]
          simp only [replay_cons, replay_nil]
          refine ⟨?_, ?_, ?_⟩
          · intro c'
            simp only [applyEvent, has_del]
            by_cases e : c' = c
            · simp [e]
            · simp only [e, if_false]
              show (replay r (cleanEvents c m s.topics)).conn c' = _
              rw [k1, ha.conn c']
          · intro c' t'
            simp only [applyEvent]
            exact k2 c' t'
          · intro t'
            simp only [applyEvent]
            exact k3 t'
        · apply key
          intro t'
          rw [cntOf_set]
          by_cases e : t' = t
          · subst e; simp [cntOf, hm]
          · simp [e]
  | unsubscribe c t =>
    simp only [step]
    cases hc : s.subs.get c with
    | none => simpa [replay_nil] using ha
    | some m =>
      simp only []
      have hasc : s.subs.has c = true := by simp [AMap.has, hc]
      cases hm : m.get t with
      | none => simpa [replay_nil] using ha
      | some n =>
        simp only []
        have hm' : ∀ t', cntOf (if n ≤ 1 then m.del t else m.set t (n - 1)) t' = cntOf m t' - (if t' = t then 1 else 0) := by
          intro t'
          split
          · rw [cntOf_del]
            by_cases e : t' = t
            · subst e; simp [cntOf, hm]; omega
            · simp [e]
          · rw [cntOf_set]
            by_cases e : t' = t
            · subst e; simp [cntOf, hm]
            · simp [e]
        have hsub : ∀ (r0 : Rep), r0.sub = r.sub → ∀ c' t',
            (applyEvent r0 (.unsubscribed c t)).sub c' t' =
              cntS (s.subs.set c (if n ≤ 1 then m.del t else m.set t (n - 1))) c' t' := by
          intro r0 h0 c' t'
          simp only [applyEvent, h0, cntS_set]
          by_cases e : c' = c
          · subst e
            have hs := ha.sub c' t'
            simp only [cntS, hc] at hs
            by_cases e2 : t' = t
            · subst e2; simp [hs, hm']
            · simp [e2, hs, hm']
          · simp [e, ha.sub c' t']
        have hconn : ∀ c', r.conn c' = (s.subs.set c (if n ≤ 1 then m.del t else m.set t (n - 1))).has c' := by
          intro c'
          rw [has_set, ha.conn c']
          by_cases e : c' = c <;> simp [e, hasc]
        cases htp : s.topics.get t with
        | none =>
          simp only [replay_cons, replay_nil]
          exact ⟨hconn, hsub r rfl, ha.topic⟩
        | some tc =>
          simp only []
          by_cases hle : tc ≤ 1
          · simp only [hle, if_true, replay_cons, replay_nil]
            refine ⟨hconn, hsub _ rfl, ?_⟩
            intro t'
            simp only [applyEvent, has_del, ha.topic t']
            try (by_cases e : t' = t <;> simp [e])
          · simp only [hle, if_false, replay_cons, replay_nil]
            refine ⟨hconn, hsub r rfl, ?_⟩
            intro t'
            simp only [applyEvent, has_set, ha.topic t']
            by_cases e : t' = t
            · subst e; simp [AMap.has, htp]
            · simp [e]
  | hasTopic t => simpa [step, replay_nil] using ha
  | clientSub c t =>
    simp only [step]
    split <;> simpa [replay_nil] using ha
  | sizes => simpa [step, replay_nil] using ha

theorem agree_empty (l : Int) : Agree Rep.empty (init l).subs (init l).topics := by
  constructor <;> simp [Rep.empty, init, AMap.has, AMap.get, cntS]

theorem run_fst (s : St) (ops : List Op) : (run s ops).1 = final s ops := by
  induction ops generalizing s with
  | nil => rfl
  | cons op ops ih => simp [run, final, ih]

theorem agree_run (r : Rep) (s : St) (ops : List Op) (ha : Agree r s.subs s.topics) (hv : Inv s) :
    Agree (replay r (allEvents s ops)) (final s ops).subs (final s ops).topics := by
  induction ops generalizing r s with
  | nil => simpa [allEvents, run, final, replay_nil] using ha
  | cons op ops ih =>
    have h1 := agree_step ha hv op
    have h2 := ih _ _ h1 (inv_step hv op)
    have e : allEvents s (op :: ops) = (step s op).2.events ++ allEvents (step s op).1 ops := by
      simp [allEvents, run]
    rw [e, replay_append]
    simpa [final] using h2

/-! ## a topic has subscribers exactly when some client holds it -/

theorem sumOver_pos_iff (subs : AMap (AMap Nat)) (t : Nat) :
    0 < sumOver subs t ↔ ∃ c m, (c, m) ∈ subs ∧ 0 < cntOf m t := by
  induction subs with
  | nil => simp [sumOver]
  | cons p subs ih =>
    obtain ⟨c0, m0⟩ := p
    rw [sumOver_cons]
    constructor
    · intro h
      by_cases h0 : 0 < cntOf m0 t
      · exact ⟨c0, m0, by simp, h0⟩
      · obtain ⟨c, m, hm, hp⟩ := ih.1 (by omega)
        exact ⟨c, m, List.mem_cons_of_mem _ hm, hp⟩
    · rintro ⟨c, m, hm, hp⟩
      rcases List.mem_cons.1 hm with e | e
      · cases e; omega
      · have := ih.2 ⟨c, m, e, hp⟩; omega

theorem has_topic_iff {s : St} (hv : Inv s) (t : Nat) :
    s.topics.has t = true ↔ ∃ c, 0 < cnt s c t := by
  have h1 : s.topics.has t = true ↔ 0 < cntOf s.topics t := by
    simp only [AMap.has, cntOf]
    cases hg : s.topics.get t with
    | none => simp
    | some n => simp; exact hv.tpos t n hg
  rw [h1, hv.sum t, sumOver_pos_iff]
  constructor
  · rintro ⟨c, m, hm, hp⟩
    refine ⟨c, ?_⟩
    rw [cnt_eq]
    simp only [cntS, get_eq_some_of_mem _ _ _ hv.subsNodup hm]
    exact hp
  · rintro ⟨c, hp⟩
    rw [cnt_eq] at hp
    simp only [cntS] at hp
    cases hg : s.subs.get c with
    | none => rw [hg] at hp; simp at hp
    | some m =>
      rw [hg] at hp
      exact ⟨c, m, mem_of_get_eq_some _ _ _ hg, hp⟩

end Hive.C12b.SM
