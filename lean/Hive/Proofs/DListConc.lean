import Hive.Model.DListConc
/-!
# The thread-safe flavour of `ds.List` (C10): soundness of the linearizability checker the driver runs on recorded
# histories, and the invariant of the wrapper protocol `TS.tsSys` (every call through one `sync.RWMutex` takes
# effect at one point between its invocation and its response; the effects in that order are a sequential run)
-/
namespace Hive.DList
open Hive.Conc

/-! ## soundness of `linSearch` -/

/-- `order` is a linearization of the completed calls `cs` from `(b, s)`: a permutation of them that the specification
executes with exactly the recorded results (`creplay`), never placing a call before one that had already returned
when it was invoked. -/
def LinWitness (b : Binding) (s : SSt) (cs order : List CCall) : Prop :=
  order.Perm cs ∧ (creplay b s order).isSome = true ∧ order.Pairwise (fun a c => ¬ c.ret < a.inv)

theorem perm_cons_eraseIdx' {α : Type} {l : List α} {i : Nat} {c : α} (h : l[i]? = some c) :
    (c :: l.eraseIdx i).Perm l := by
  obtain ⟨hlt, hc⟩ := List.getElem?_eq_some_iff.1 h
  have hsplit : l = l.take i ++ c :: l.drop (i + 1) := by
    conv => lhs; rw [← List.take_append_drop i l, List.drop_eq_getElem_cons hlt, hc]
  rw [List.eraseIdx_eq_take_drop_succ]
  conv => rhs; rw [hsplit]
  exact List.perm_middle.symm

theorem linSearch_sound (fuel : Nat) (b : Binding) (s : SSt) (cs : List CCall) (h : linSearch fuel b s cs = true) :
    ∃ order, LinWitness b s cs order := by
  induction fuel generalizing b s cs with
  | zero =>
    cases cs with
    | nil => exact ⟨[], List.Perm.refl _, rfl, List.Pairwise.nil⟩
    | cons c r => simp [linSearch] at h
  | succ f ih =>
    cases cs with
    | nil => exact ⟨[], List.Perm.refl _, rfl, List.Pairwise.nil⟩
    | cons c0 r =>
      simp only [linSearch, List.any_eq_true] at h
      obtain ⟨i, _, hi⟩ := h
      cases hc : (c0 :: r)[i]? with
      | none => simp [hc] at hi
      | some c =>
        simp only [hc, Bool.and_eq_true] at hi
        obtain ⟨hmin, hrest⟩ := hi
        cases hst : cstep b s c with
        | none => simp [hst] at hrest
        | some p =>
          obtain ⟨b', s'⟩ := p
          simp only [hst] at hrest
          obtain ⟨order, hperm, hrep, hpw⟩ := ih _ _ _ hrest
          have hp := perm_cons_eraseIdx' hc
          refine ⟨c :: order, (List.Perm.cons c hperm).trans hp, ?_, ?_⟩
          · simp only [creplay, hst]; exact hrep
          · rw [List.pairwise_cons]
            refine ⟨?_, hpw⟩
            intro d hd
            have hd' : d ∈ c0 :: r := hp.mem_iff.1 (List.mem_cons_of_mem _ (hperm.mem_iff.1 hd))
            have := List.all_eq_true.1 hmin d hd'
            simpa using this

theorem linearizable_sound (s : SSt) (cs : List CCall) (h : linearizable s cs = true) :
    ∃ order, LinWitness [] s cs order := linSearch_sound _ _ _ _ h

/-- **The search is complete**: a history of well-formed calls (`inv ≤ ret`) that has a linearization is accepted — so
a `reject` of the driver means that NO sequential order of the recorded calls is compatible with their real-time order
and returns the recorded results. -/
theorem linSearch_complete (fuel : Nat) (b : Binding) (s : SSt) (cs order : List CCall)
    (hw : LinWitness b s cs order) (hwf : ∀ c ∈ cs, c.inv ≤ c.ret) (hf : cs.length ≤ fuel) :
    linSearch fuel b s cs = true := by
  induction fuel generalizing b s cs order with
  | zero =>
    cases cs with
    | nil => simp [linSearch]
    | cons c r => simp at hf
  | succ f ih =>
    cases cs with
    | nil => simp [linSearch]
    | cons c0 r =>
      obtain ⟨hperm, hrep, hpw⟩ := hw
      cases order with
      | nil => exact absurd hperm.length_eq (by simp)
      | cons c rest =>
        have hc : c ∈ c0 :: r := hperm.mem_iff.1 (List.mem_cons_self ..)
        obtain ⟨i, hi⟩ := List.getElem?_of_mem hc
        have hlt : i < (c0 :: r).length := by
          rcases Nat.lt_or_ge i (c0 :: r).length with h | h
          · exact h
          · rw [List.getElem?_eq_none h] at hi; cases hi
        rw [List.pairwise_cons] at hpw
        cases hst : cstep b s c with
        | none => simp [creplay, hst] at hrep
        | some p =>
          obtain ⟨b', s'⟩ := p
          simp only [creplay, hst] at hrep
          have hp := perm_cons_eraseIdx' hi
          have hrest : rest.Perm ((c0 :: r).eraseIdx i) := (hperm.trans hp.symm).cons_inv
          have hmin : minimalIn c (c0 :: r) = true := by
            unfold minimalIn
            rw [List.all_eq_true]
            intro d hd
            rcases List.mem_cons.1 (hperm.mem_iff.2 hd) with hd' | hd'
            · subst hd'
              have := hwf d hd
              simp; omega
            · have := hpw.1 d hd'
              simpa using this
          have hrec : linSearch f b' s' ((c0 :: r).eraseIdx i) = true := by
            refine ih b' s' _ rest ⟨hrest, hrep, hpw.2⟩ ?_ ?_
            · intro d hd
              exact hwf d (List.mem_of_mem_eraseIdx hd)
            · rw [List.length_eraseIdx, if_pos hlt]
              simp at hf ⊢; omega
          simp only [linSearch, List.any_eq_true]
          exact ⟨i, List.mem_range.2 hlt, by simp [hi, hmin, hst, hrec]⟩

theorem linearizable_complete (s : SSt) (cs order : List CCall) (hw : LinWitness [] s cs order)
    (hwf : ∀ c ∈ cs, c.inv ≤ c.ret) : linearizable s cs = true :=
  linSearch_complete _ _ _ _ _ hw hwf (Nat.le_refl _)

/-! ## traversals whose callback modifies the list -/

/-- once the callback's one action is behind it, the loop is the plain walk -/
theorem walkMut_zero (fwd : Bool) (act : St → Nat → St) (f : Nat) (s : St) (e : Nat) :
    walkMut fwd act f 0 s e = (s, if fwd then walkF s f e else walkB s f e) := by
  induction f generalizing e with
  | zero => cases fwd <;> simp [walkMut, walkF, walkB]
  | succ f ih =>
    by_cases he : e = 0
    · subst he; cases fwd <;> simp [walkMut, walkF, walkB]
    · cases fwd
      · have := ih (prevOf s e)
        simp only [walkMut, he, if_false, Nat.zero_sub, walkB]
        simp at this ⊢
        rw [this]; simp
      · have := ih (nextOf s e)
        simp only [walkMut, he, if_false, Nat.zero_sub, walkF]
        simp at this ⊢
        rw [this]; simp

/-- before the callback acts, the loop delivers the value and advances in the unchanged list -/
theorem walkMut_before (fwd : Bool) (act : St → Nat → St) (f k : Nat) (s : St) (e : Nat) (he : e ≠ 0) :
    walkMut fwd act (f + 1) (k + 2) s e =
      ((walkMut fwd act f (k + 1) s (if fwd then nextOf s e else prevOf s e)).1,
       valueOf s e :: (walkMut fwd act f (k + 1) s (if fwd then nextOf s e else prevOf s e)).2) := by
  simp [walkMut, he]

/-- at its `k`-th call the callback acts and the loop advances **in the list as the callback left it** -/
theorem walkMut_acts (fwd : Bool) (act : St → Nat → St) (f : Nat) (s : St) (e : Nat) (he : e ≠ 0) :
    walkMut fwd act (f + 1) 1 s e =
      (act s e, valueOf s e :: (if fwd then walkF (act s e) f (nextOf (act s e) e) else walkB (act s e) f (prevOf (act s e) e))) := by
  cases fwd <;> simp [walkMut, he, walkMut_zero]

/-- a callback that would act at a call the traversal never makes (beyond the end of the list) changes nothing -/
theorem walkMut_beyond (fwd : Bool) (act : St → Nat → St) (f k : Nat) (s : St) (e : Nat)
    (h : (if fwd then walkF s f e else walkB s f e).length < k) :
    walkMut fwd act f k s e = (s, if fwd then walkF s f e else walkB s f e) := by
  induction f generalizing k e with
  | zero => cases fwd <;> simp [walkMut, walkF, walkB]
  | succ f ih =>
    by_cases he : e = 0
    · subst he; cases fwd <;> simp [walkMut, walkF, walkB]
    · cases fwd
      · simp only [walkB, he, if_false, List.length_cons, Bool.false_eq_true] at h
        obtain ⟨k', rfl⟩ : ∃ k', k = k' + 2 := ⟨k - 2, by omega⟩
        have := ih (k' + 1) (prevOf s e) (by simp; omega)
        rw [walkMut_before false act f k' s e he]
        simp at this ⊢
        rw [this]; simp [walkB, he]
      · simp only [walkF, he, if_false, List.length_cons, if_true] at h
        obtain ⟨k', rfl⟩ : ∃ k', k = k' + 2 := ⟨k - 2, by omega⟩
        have := ih (k' + 1) (nextOf s e) (by simp; omega)
        rw [walkMut_before true act f k' s e he]
        simp at this ⊢
        rw [this]; simp [walkF, he]

/-! ## the wrapper protocol -/
namespace TS
variable {σ O R : Type}

def inW : Pc σ O R → Bool
  | .wIn _ _ | .wBody _ _ _ | .wOut _ _ _ _ => true
  | _ => false

def inR : Pc σ O R → Bool
  | .rIn _ _ | .rBody _ _ _ _ | .rOut _ _ _ _ => true
  | _ => false

/-- the log is sorted by stamp and every stamp is in the past -/
def LogOk (s : Sh σ O R) : Prop :=
  s.log.Pairwise (fun a b => a.stamp < b.stamp) ∧ ∀ e ∈ s.log, e.stamp < s.clock

def PcGood (B : Obj σ O R) (s : Sh σ O R) : Pc σ O R → Prop
  | .idle => True
  | .wWait op inv => inv < s.clock ∧ B.kind op = .w
  | .wIn op inv => inv < s.clock ∧ B.kind op = .w
  | .wBody op inv x => inv < s.clock ∧ x = s.obj ∧ B.kind op = .w
  | .wOut op inv res lin => inv < lin ∧ lin < s.clock ∧ (⟨op, res, lin⟩ : LE O R) ∈ s.log
  | .rIn op inv => inv < s.clock ∧ B.kind op = .r
  | .rBody op inv x lin => inv < lin ∧ lin < s.clock ∧ x = s.obj ∧ (⟨op, (B.run x op).2, lin⟩ : LE O R) ∈ s.log
  | .rOut op inv res lin => inv < lin ∧ lin < s.clock ∧ (⟨op, res, lin⟩ : LE O R) ∈ s.log

/-- a completed call: its entry is in the log, stamped strictly between its invocation and its response -/
def RetGood (s : Sh σ O R) (r : Ret O R) : Prop :=
  (⟨r.op, r.res, r.lin⟩ : LE O R) ∈ s.log ∧ r.inv < r.lin ∧ r.lin < r.ret ∧ r.ret < s.clock

def ThGood (B : Obj σ O R) (s : Sh σ O R) (t : Th σ O R) : Prop :=
  PcGood B s t.pc ∧ ∀ r ∈ t.rets, RetGood s r

structure TInv (B : Obj σ O R) (x0 : σ) (c : Cfg (Sh σ O R) (Th σ O R)) : Prop where
  exclW : (if c.1.rw.writer then 1 else 0) = c.2.countP (fun t => inW t.pc)
  cntR : c.1.rw.readers = c.2.countP (fun t => inR t.pc)
  excl : c.1.rw.writer = true → c.1.rw.readers = 0
  lin : Replays B x0 c.1.log c.1.obj
  logOk : LogOk c.1
  good : ∀ t ∈ c.2, ThGood B c.1 t

theorem replays_snoc (B : Obj σ O R) (log : List (LE O R)) (x y : σ) (h : Replays B x log y) (op : O) (k : Nat) :
    Replays B x (log ++ [⟨op, (B.seq y op).2, k⟩]) (B.seq y op).1 := by
  induction log generalizing x with
  | nil =>
    simp only [Replays] at h
    subst h
    simp [Replays]
  | cons e rest ih =>
    simp only [Replays] at h
    simp only [List.cons_append, Replays]
    exact ⟨h.1, ih _ h.2⟩

theorem logOk_snoc {s : Sh σ O R} (h : LogOk s) (e : LE O R) (he : e.stamp = s.clock) (s' : Sh σ O R)
    (hlog : s'.log = s.log ++ [e]) (hclk : s'.clock = s.clock + 1) : LogOk s' := by
  obtain ⟨h1, h2⟩ := h
  refine ⟨?_, ?_⟩
  · rw [hlog, List.pairwise_append]
    refine ⟨h1, List.pairwise_singleton _ _, ?_⟩
    intro a ha b hb
    rw [List.mem_singleton] at hb
    subst hb
    rw [he]
    exact h2 a ha
  · intro a ha
    rw [hlog] at ha
    rw [hclk]
    rcases List.mem_append.1 ha with ha | ha
    · have := h2 a ha; omega
    · rw [List.mem_singleton] at ha
      subst ha
      omega

theorem logOk_same {s s' : Sh σ O R} (h : LogOk s) (hlog : s'.log = s.log) (hclk : s.clock ≤ s'.clock) : LogOk s' := by
  obtain ⟨h1, h2⟩ := h
  refine ⟨by rw [hlog]; exact h1, ?_⟩
  intro a ha
  rw [hlog] at ha
  have := h2 a ha
  omega

/-- thread-local facts survive a step of another thread that leaves the object alone … -/
theorem thGood_mono {B : Obj σ O R} {s s' : Sh σ O R} {t : Th σ O R} (h : ThGood B s t)
    (hobj : s'.obj = s.obj) (hlog : ∀ e ∈ s.log, e ∈ s'.log) (hclk : s.clock ≤ s'.clock) : ThGood B s' t := by
  obtain ⟨h1, h2⟩ := h
  refine ⟨?_, ?_⟩
  · cases hpc : t.pc <;> rw [hpc] at h1 <;> simp only [PcGood] at h1 ⊢
    · exact ⟨by omega, h1.2⟩
    · exact ⟨by omega, h1.2⟩
    · exact ⟨by omega, by rw [hobj]; exact h1.2.1, h1.2.2⟩
    · exact ⟨h1.1, by omega, hlog _ h1.2.2⟩
    · exact ⟨by omega, h1.2⟩
    · exact ⟨h1.1, by omega, by rw [hobj]; exact h1.2.2.1, hlog _ h1.2.2.2⟩
    · exact ⟨h1.1, by omega, hlog _ h1.2.2⟩
  · intro r hr
    obtain ⟨a, b, c, d⟩ := h2 r hr
    exact ⟨hlog _ a, b, c, by omega⟩

/-- … and, for a thread outside both sections, also a step that changes the object -/
theorem thGood_outside {B : Obj σ O R} {s s' : Sh σ O R} {t : Th σ O R} (h : ThGood B s t)
    (hw : inW t.pc = false) (hr : inR t.pc = false) (hlog : ∀ e ∈ s.log, e ∈ s'.log) (hclk : s.clock ≤ s'.clock) :
    ThGood B s' t := by
  obtain ⟨h1, h2⟩ := h
  refine ⟨?_, ?_⟩
  · cases hpc : t.pc <;> rw [hpc] at h1 hw hr <;> simp only [PcGood, inW, inR] at h1 hw hr ⊢ <;> first | exact ⟨by omega, h1.2⟩ | trivial | contradiction
  · intro r hr
    obtain ⟨a, b, c, d⟩ := h2 r hr
    exact ⟨hlog _ a, b, c, by omega⟩

theorem countP_zero_of {l : List (Th σ O R)} {p : Th σ O R → Bool} (h : l.countP p = 0) : ∀ u ∈ l, p u = false := by
  intro u hu
  have := List.countP_eq_zero.1 h u hu
  simpa using this

/-- while one thread is inside the write section every other thread is outside both sections -/
theorem others_outside {B : Obj σ O R} {x0 : σ} {s : Sh σ O R} {pre post : List (Th σ O R)} {t : Th σ O R}
    (hi : TInv B x0 (s, pre ++ t :: post)) (ht : inW t.pc = true) :
    s.rw.writer = true ∧ ∀ u, u ∈ pre ∨ u ∈ post → inW u.pc = false ∧ inR u.pc = false := by
  have hW := hi.exclW
  have hR := hi.cntR
  simp only [] at hW hR
  rw [countP_mid] at hW hR
  simp only [ht, if_true] at hW
  have hw : s.rw.writer = true := by
    cases h : s.rw.writer with
    | true => rfl
    | false => rw [h] at hW; simp at hW; omega
  have h0 := hi.excl hw
  simp only [] at h0
  rw [hw] at hW
  simp only [if_true] at hW
  rw [h0] at hR
  have hRt : inR t.pc = false := by
    cases hpc : t.pc <;> rw [hpc] at ht <;> simp [inW, inR] at ht ⊢
  have a1 : pre.countP (fun t => inW t.pc) = 0 := by omega
  have a2 : post.countP (fun t => inW t.pc) = 0 := by omega
  have a3 : pre.countP (fun t => inR t.pc) = 0 := by omega
  have a4 : post.countP (fun t => inR t.pc) = 0 := by omega
  refine ⟨hw, ?_⟩
  intro u hu
  rcases hu with hu | hu
  · exact ⟨countP_zero_of a1 u hu, countP_zero_of a3 u hu⟩
  · exact ⟨countP_zero_of a2 u hu, countP_zero_of a4 u hu⟩

/-- reassembling the invariant after a step of thread `t` -/
theorem tinv_frame {B : Obj σ O R} {x0 : σ} {s s' : Sh σ O R} {pre post : List (Th σ O R)} {t t' : Th σ O R}
    (hi : TInv B x0 (s, pre ++ t :: post))
    (hW : (if s'.rw.writer then 1 else 0) + (if inW t.pc then 1 else 0)
      = (if s.rw.writer then 1 else 0) + (if inW t'.pc then 1 else 0))
    (hR : s'.rw.readers + (if inR t.pc then 1 else 0) = s.rw.readers + (if inR t'.pc then 1 else 0))
    (hex : s'.rw.writer = true → s'.rw.readers = 0)
    (hlin : Replays B x0 s'.log s'.obj)
    (hlogok : LogOk s')
    (hothers : ∀ u, u ∈ pre ∨ u ∈ post → ThGood B s u → ThGood B s' u)
    (ht' : ThGood B s' t') : TInv B x0 (s', pre ++ t' :: post) := by
  have hW0 := hi.exclW
  have hR0 := hi.cntR
  simp only [] at hW0 hR0
  rw [countP_mid] at hW0 hR0
  refine ⟨?_, ?_, hex, hlin, hlogok, ?_⟩
  · show (if s'.rw.writer then 1 else 0) = _
    rw [countP_mid]; omega
  · show s'.rw.readers = _
    rw [countP_mid]; omega
  · intro u hu
    rcases List.mem_append.1 hu with hu | hu
    · exact hothers u (Or.inl hu) (hi.good u (List.mem_append_left _ hu))
    · rcases List.mem_cons.1 hu with hu | hu
      · subst hu; exact ht'
      · exact hothers u (Or.inr hu) (hi.good u (List.mem_append_right _ (List.mem_cons_of_mem _ hu)))

theorem retsGood_mono {s s' : Sh σ O R} {rets : List (Ret O R)} (h : ∀ r ∈ rets, RetGood s r)
    (hlog : ∀ e ∈ s.log, e ∈ s'.log) (hclk : s.clock ≤ s'.clock) : ∀ r ∈ rets, RetGood s' r := by
  intro r hr
  obtain ⟨a, b, c, d⟩ := h r hr
  exact ⟨hlog _ a, b, c, by omega⟩

theorem tinv_step {B : Obj σ O R} {x0 : σ} {a b : Cfg (Sh σ O R) (Th σ O R)} (hi : TInv B x0 a)
    (hs : Step (tsSys B) a b) : TInv B x0 b := by
  obtain ⟨s, pre, t, post, s', t', hmem⟩ := hs
  obtain ⟨pc, todo, rets⟩ := t
  obtain ⟨hpcg, hretsg⟩ := hi.good ⟨pc, todo, rets⟩ (by simp)
  simp only [tsSys] at hmem
  cases pc with
  | idle =>
    cases todo with
    | nil => simp [tsStep] at hmem
    | cons op rest =>
      simp only [tsStep] at hmem
      cases hk : B.kind op with
      | w =>
        simp only [hk, List.mem_singleton, Prod.mk.injEq] at hmem
        obtain ⟨rfl, rfl⟩ := hmem
        refine tinv_frame hi (by simp [tick, inW] <;> rfl) (by simp [tick, inR]) (by simpa [tick] using hi.excl)
          (by simpa [tick] using hi.lin) (logOk_same hi.logOk rfl (by simp [tick]))
          (fun u _ hu => thGood_mono hu rfl (fun _ h => by simpa [tick] using h) (by simp [tick])) ?_
        exact ⟨by simp [PcGood, tick, hk], retsGood_mono hretsg (fun _ h => by simpa [tick] using h) (by simp [tick])⟩
      | r =>
        simp only [hk] at hmem
        split at hmem
        · simp at hmem
        · rename_i hwf
          simp only [List.mem_singleton, Prod.mk.injEq] at hmem
          obtain ⟨rfl, rfl⟩ := hmem
          refine tinv_frame hi (by simp [tick, inW] <;> rfl) (by simp [tick, inR]) (by intro h; simp [tick] at h; exact absurd h hwf)
            (by simpa [tick] using hi.lin) (logOk_same hi.logOk rfl (by simp [tick]))
            (fun u _ hu => thGood_mono hu rfl (fun _ h => by simpa [tick] using h) (by simp [tick])) ?_
          exact ⟨by simp [PcGood, tick, hk], retsGood_mono hretsg (fun _ h => by simpa [tick] using h) (by simp [tick])⟩
  | wWait op inv =>
    simp only [tsStep] at hmem
    split at hmem
    · rename_i hc
      simp only [Bool.and_eq_true, beq_iff_eq, Bool.not_eq_true'] at hc
      simp only [List.mem_singleton, Prod.mk.injEq] at hmem
      obtain ⟨rfl, rfl⟩ := hmem
      simp only [PcGood] at hpcg
      refine tinv_frame hi (by simp [inW, hc.2] <;> rfl) (by simp [inR]) (by intro _; exact hc.1)
        hi.lin (logOk_same hi.logOk rfl (Nat.le_refl _))
        (fun u _ hu => thGood_mono hu rfl (fun _ h => by simpa [tick] using h) (Nat.le_refl _)) ?_
      exact ⟨by simp only [PcGood]; exact hpcg, retsGood_mono hretsg (fun _ h => by simpa [tick] using h) (Nat.le_refl _)⟩
    · simp at hmem
  | wIn op inv =>
    simp only [tsStep, List.mem_singleton, Prod.mk.injEq] at hmem
    obtain ⟨rfl, rfl⟩ := hmem
    simp only [PcGood] at hpcg
    refine tinv_frame hi (by simp [inW] <;> rfl) (by simp [inR]) hi.excl hi.lin hi.logOk (fun u _ hu => hu) ?_
    exact ⟨show _ ∧ _ ∧ _ from ⟨hpcg.1, rfl, hpcg.2⟩, hretsg⟩
  | wBody op inv x =>
    simp only [tsStep, List.mem_singleton, Prod.mk.injEq] at hmem
    obtain ⟨rfl, rfl⟩ := hmem
    simp only [PcGood] at hpcg
    obtain ⟨hinv, hx, hk⟩ := hpcg
    subst hx
    obtain ⟨_, hout⟩ := others_outside hi (t := ⟨.wBody op inv s.obj, todo, rets⟩) rfl
    have hseq : B.seq s.obj op = B.run s.obj op := by simp [Obj.seq, hk]
    have hrep := replays_snoc B s.log x0 s.obj hi.lin op s.clock
    rw [hseq] at hrep
    refine tinv_frame hi (by simp [tick, inW] <;> rfl) (by simp [tick, inR]) (by simpa [tick] using hi.excl)
      (by simpa [tick] using hrep) (logOk_snoc hi.logOk ⟨op, (B.run s.obj op).2, s.clock⟩ rfl _ rfl rfl)
      (fun u hu hg => thGood_outside hg (hout u hu).1 (hout u hu).2 (fun _ h => by simp [tick]; exact Or.inl h) (by simp [tick])) ?_
    refine ⟨?_, retsGood_mono hretsg (fun _ h => by simp [tick]; exact Or.inl h) (by simp [tick])⟩
    simp only [PcGood, tick]
    exact ⟨hinv, by omega, by simp⟩
  | wOut op inv res lin =>
    simp only [tsStep, List.mem_singleton, Prod.mk.injEq] at hmem
    obtain ⟨rfl, rfl⟩ := hmem
    simp only [PcGood] at hpcg
    obtain ⟨hw, _⟩ := others_outside hi (t := ⟨.wOut op inv res lin, todo, rets⟩) rfl
    refine tinv_frame hi (by simp [tick, inW, hw] <;> rfl) (by simp [tick, inR]) (by intro h; simp [tick] at h)
      (by simpa [tick] using hi.lin) (logOk_same hi.logOk rfl (by simp [tick]))
      (fun u _ hu => thGood_mono hu rfl (fun _ h => by simpa [tick] using h) (by simp [tick])) ?_
    refine ⟨by simp [PcGood], ?_⟩
    intro r hr
    rcases List.mem_cons.1 hr with hr | hr
    · subst hr
      exact ⟨by simpa [tick] using hpcg.2.2, hpcg.1, hpcg.2.1, by simp [tick]⟩
    · exact retsGood_mono hretsg (fun _ h => by simpa [tick] using h) (by simp [tick]) r hr
  | rIn op inv =>
    simp only [tsStep, List.mem_singleton, Prod.mk.injEq] at hmem
    obtain ⟨rfl, rfl⟩ := hmem
    simp only [PcGood] at hpcg
    obtain ⟨hinv, hk⟩ := hpcg
    have hseq : B.seq s.obj op = (s.obj, (B.run s.obj op).2) := by simp [Obj.seq, hk]
    have hrep := replays_snoc B s.log x0 s.obj hi.lin op s.clock
    rw [hseq] at hrep
    refine tinv_frame hi (by simp [tick, inW] <;> rfl) (by simp [tick, inR]) (by simpa [tick] using hi.excl)
      (by simpa [tick] using hrep) (logOk_snoc hi.logOk ⟨op, (B.run s.obj op).2, s.clock⟩ rfl _ rfl rfl)
      (fun u _ hg => thGood_mono hg rfl (fun _ h => by simp [tick]; exact Or.inl h) (by simp [tick])) ?_
    refine ⟨?_, retsGood_mono hretsg (fun _ h => by simp [tick]; exact Or.inl h) (by simp [tick])⟩
    simp only [PcGood, tick]
    exact ⟨hinv, by omega, trivial, by simp⟩
  | rBody op inv x lin =>
    simp only [tsStep, List.mem_singleton, Prod.mk.injEq] at hmem
    obtain ⟨rfl, rfl⟩ := hmem
    simp only [PcGood] at hpcg
    obtain ⟨h1, h2, hx, hlogm⟩ := hpcg
    subst hx
    refine tinv_frame hi (by simp [inW] <;> rfl) (by simp [inR]) hi.excl hi.lin hi.logOk (fun u _ hu => hu) ?_
    exact ⟨by simp only [PcGood]; exact ⟨h1, h2, hlogm⟩, hretsg⟩
  | rOut op inv res lin =>
    simp only [tsStep, List.mem_singleton, Prod.mk.injEq] at hmem
    obtain ⟨rfl, rfl⟩ := hmem
    simp only [PcGood] at hpcg
    have hR0 := hi.cntR
    simp only [] at hR0
    rw [countP_mid] at hR0
    simp only [inR, if_true] at hR0
    refine tinv_frame hi (by simp [tick, inW] <;> rfl) (by simp [tick, inR]; omega)
      (by intro h; simp [tick] at h ⊢; have := hi.excl h; simp only [] at this; omega)
      (by simpa [tick] using hi.lin) (logOk_same hi.logOk rfl (by simp [tick]))
      (fun u _ hu => thGood_mono hu rfl (fun _ h => by simpa [tick] using h) (by simp [tick])) ?_
    refine ⟨by simp [PcGood], ?_⟩
    intro r hr
    rcases List.mem_cons.1 hr with hr | hr
    · subst hr
      exact ⟨by simpa [tick] using hpcg.2.2, hpcg.1, hpcg.2.1, by simp [tick]⟩
    · exact retsGood_mono hretsg (fun _ h => by simpa [tick] using h) (by simp [tick]) r hr

theorem tinv_init (B : Obj σ O R) (x0 : σ) (progs : List (List O)) :
    TInv B x0 (Sh.start x0, progs.map Th.start) := by
  have hW : ∀ l : List (List O), (l.map (Th.start (σ := σ) (R := R))).countP (fun t => inW t.pc) = 0 := by
    intro l; induction l with
    | nil => rfl
    | cons a r ih => simp [Th.start, inW]
  have hR : ∀ l : List (List O), (l.map (Th.start (σ := σ) (R := R))).countP (fun t => inR t.pc) = 0 := by
    intro l; induction l with
    | nil => rfl
    | cons a r ih => simp [Th.start, inR]
  refine ⟨?_, ?_, ?_, ?_, ?_, ?_⟩
  · simp [Sh.start, hW]
  · simp [Sh.start, hR]
  · intro h; simp [Sh.start] at h
  · simp [Sh.start, Replays]
  · exact ⟨by simp [Sh.start], by simp [Sh.start]⟩
  · intro t ht
    obtain ⟨ops, _, rfl⟩ := List.mem_map.1 ht
    exact ⟨by simp [Th.start, PcGood], by simp [Th.start]⟩

theorem tinv_reach (B : Obj σ O R) (x0 : σ) (progs : List (List O)) {c : Cfg (Sh σ O R) (Th σ O R)}
    (hr : Reach (tsSys B) (Sh.start x0, progs.map Th.start) c) : TInv B x0 c :=
  inv_induction (TInv B x0) (tinv_init B x0 progs) (fun _ _ h hs => tinv_step h hs) hr

/-! ### every log entry belongs to exactly one call -/

/-- the linearization stamp a call in progress has already taken -/
def pcStamps : Pc σ O R → List Nat
  | .wOut _ _ _ lin => [lin]
  | .rBody _ _ _ lin => [lin]
  | .rOut _ _ _ lin => [lin]
  | _ => []

/-- the stamps of the calls of one goroutine that have passed their linearization point (in progress + completed) -/
def thStamps (t : Th σ O R) : List Nat := pcStamps t.pc ++ t.rets.map (·.lin)

def claimed (ts : List (Th σ O R)) : List Nat := (ts.map thStamps).flatten

theorem claimed_mid (pre post : List (Th σ O R)) (t : Th σ O R) :
    claimed (pre ++ t :: post) = claimed pre ++ (thStamps t ++ claimed post) := by
  simp [claimed]

theorem claimed_same {pre post : List (Th σ O R)} {t t' : Th σ O R} {L L' : List Nat}
    (h : (claimed (pre ++ t :: post)).Perm L) (ht : thStamps t' = thStamps t) (hL : L' = L) :
    (claimed (pre ++ t' :: post)).Perm L' := by
  rw [claimed_mid, ht, ← claimed_mid, hL]; exact h

theorem claimed_new {pre post : List (Th σ O R)} {t t' : Th σ O R} {L L' : List Nat} {k : Nat}
    (h : (claimed (pre ++ t :: post)).Perm L) (ht : thStamps t' = k :: thStamps t) (hL : L' = L ++ [k]) :
    (claimed (pre ++ t' :: post)).Perm L' := by
  rw [claimed_mid] at h ⊢
  rw [ht, hL]
  have h1 : (claimed pre ++ (k :: thStamps t ++ claimed post)).Perm (k :: (claimed pre ++ (thStamps t ++ claimed post))) := by
    simp
  exact h1.trans ((List.Perm.cons k h).trans (List.perm_append_singleton k L).symm)

/-- **The calls that have passed their linearization point are exactly the log entries, each once**: the stamps held
by the goroutines (calls in progress past that point, and completed calls) are a permutation of the stamps of the log. -/
theorem stamps_step {B : Obj σ O R} {a b : Cfg (Sh σ O R) (Th σ O R)}
    (hi : (claimed a.2).Perm (a.1.log.map (·.stamp))) (hs : Step (tsSys B) a b) :
    (claimed b.2).Perm (b.1.log.map (·.stamp)) := by
  obtain ⟨s, pre, t, post, s', t', hmem⟩ := hs
  obtain ⟨pc, todo, rets⟩ := t
  simp only [tsSys] at hmem
  simp only [] at hi ⊢
  cases pc with
  | idle =>
    cases todo with
    | nil => simp [tsStep] at hmem
    | cons op rest =>
      simp only [tsStep] at hmem
      cases hk : B.kind op with
      | w =>
        simp only [hk, List.mem_singleton, Prod.mk.injEq] at hmem
        obtain ⟨rfl, rfl⟩ := hmem
        exact claimed_same hi rfl rfl
      | r =>
        simp only [hk] at hmem
        split at hmem
        · simp at hmem
        · simp only [List.mem_singleton, Prod.mk.injEq] at hmem
          obtain ⟨rfl, rfl⟩ := hmem
          exact claimed_same hi rfl rfl
  | wWait op inv =>
    simp only [tsStep] at hmem
    split at hmem
    · simp only [List.mem_singleton, Prod.mk.injEq] at hmem
      obtain ⟨rfl, rfl⟩ := hmem
      exact claimed_same hi rfl rfl
    · simp at hmem
  | wIn op inv =>
    simp only [tsStep, List.mem_singleton, Prod.mk.injEq] at hmem
    obtain ⟨rfl, rfl⟩ := hmem
    exact claimed_same hi rfl rfl
  | wBody op inv x =>
    simp only [tsStep, List.mem_singleton, Prod.mk.injEq] at hmem
    obtain ⟨rfl, rfl⟩ := hmem
    exact claimed_new hi rfl (by simp [tick])
  | wOut op inv res lin =>
    simp only [tsStep, List.mem_singleton, Prod.mk.injEq] at hmem
    obtain ⟨rfl, rfl⟩ := hmem
    exact claimed_same hi (by simp [thStamps, pcStamps]) rfl
  | rIn op inv =>
    simp only [tsStep, List.mem_singleton, Prod.mk.injEq] at hmem
    obtain ⟨rfl, rfl⟩ := hmem
    exact claimed_new hi rfl (by simp [tick])
  | rBody op inv x lin =>
    simp only [tsStep, List.mem_singleton, Prod.mk.injEq] at hmem
    obtain ⟨rfl, rfl⟩ := hmem
    exact claimed_same hi rfl rfl
  | rOut op inv res lin =>
    simp only [tsStep, List.mem_singleton, Prod.mk.injEq] at hmem
    obtain ⟨rfl, rfl⟩ := hmem
    exact claimed_same hi (by simp [thStamps, pcStamps]) rfl

theorem stamps_reach (B : Obj σ O R) (x0 : σ) (progs : List (List O)) {c : Cfg (Sh σ O R) (Th σ O R)}
    (hr : Reach (tsSys B) (Sh.start x0, progs.map Th.start) c) : (claimed c.2).Perm (c.1.log.map (·.stamp)) := by
  refine inv_induction (S := tsSys B) (fun c => (claimed c.2).Perm (c.1.log.map (·.stamp))) ?_
    (fun _ _ h hs => stamps_step h hs) hr
  have : ∀ l : List (List O), claimed (l.map (Th.start (σ := σ) (R := R))) = [] := by
    intro l; induction l with
    | nil => rfl
    | cons a r ih => simp [claimed, Th.start, thStamps, pcStamps] at ih ⊢
  simp [this, Sh.start]

theorem nodup_of_sorted {l : List Nat} (h : l.Pairwise (· < ·)) : l.Nodup :=
  h.imp (fun hab => Nat.ne_of_lt hab)

/-! ### no reachable configuration is stuck -/

/-- a goroutine that has returned from its last call -/
def finished (t : Th σ O R) : Prop :=
  match t.pc, t.todo with
  | .idle, [] => True
  | _, _ => False

/-- a goroutine inside a section can always take its next step -/
theorem inside_steps (B : Obj σ O R) (s : Sh σ O R) (t : Th σ O R) (h : inW t.pc = true ∨ inR t.pc = true) :
    tsStep B s t ≠ [] := by
  obtain ⟨pc, todo, rets⟩ := t
  cases pc <;> simp [inW, inR] at h <;> simp [tsStep]

/-- **The wrapper cannot block itself**: in every configuration satisfying the invariant (hence in every reachable one)
either every goroutine has finished or some goroutine can take a step — a goroutine inside a section always can; if
nobody is inside, the mutex is free and whoever waits for it (or is about to call) gets it. -/
theorem ts_not_stuck {B : Obj σ O R} {x0 : σ} {c : Cfg (Sh σ O R) (Th σ O R)} (hi : TInv B x0 c) :
    ¬ Deadlock (tsSys B) finished c := by
  rintro ⟨hstuck, t, ht, hnf⟩
  have hout : ∀ u ∈ c.2, inW u.pc = false ∧ inR u.pc = false := by
    intro u hu
    have hs := hstuck u hu
    constructor
    · cases h : inW u.pc with
      | false => rfl
      | true => exact absurd hs (inside_steps B c.1 u (Or.inl h))
    · cases h : inR u.pc with
      | false => rfl
      | true => exact absurd hs (inside_steps B c.1 u (Or.inr h))
  have hW0 : c.2.countP (fun t => inW t.pc) = 0 := List.countP_eq_zero.2 (fun u hu => by simp [(hout u hu).1])
  have hR0 : c.2.countP (fun t => inR t.pc) = 0 := List.countP_eq_zero.2 (fun u hu => by simp [(hout u hu).2])
  have hw : c.1.rw.writer = false := by
    have := hi.exclW
    rw [hW0] at this
    cases h : c.1.rw.writer with
    | false => rfl
    | true => rw [h] at this; simp at this
  have hr : c.1.rw.readers = 0 := by rw [hi.cntR, hR0]
  have hs := hstuck t ht
  obtain ⟨pc, todo, rets⟩ := t
  have ho := hout _ ht
  simp only [tsSys] at hs
  cases pc with
  | idle =>
    cases todo with
    | nil => exact hnf (by simp [finished])
    | cons op rest =>
      simp only [tsStep] at hs
      cases hk : B.kind op with
      | w => simp [hk] at hs
      | r => simp [hk, hw] at hs
  | wWait op inv => simp [tsStep, hw, hr] at hs
  | wIn op inv => simp [inW] at ho
  | wBody op inv x => simp [inW] at ho
  | wOut op inv res lin => simp [inW] at ho
  | rIn op inv => simp [inR] at ho
  | rBody op inv x lin => simp [inR] at ho
  | rOut op inv res lin => simp [inR] at ho

/-! ### Go's writer preference

`sync.RWMutex` does not admit a new reader while a writer has announced `Lock()`.  `tsSysStrict` is `tsSys` with that
restriction; its runs are runs of `tsSys`, so every invariant above holds for it, and it cannot block itself either. -/

/-- a goroutine about to start a reader call while some writer is pending -/
def readerBlocked (B : Obj σ O R) (s : Sh σ O R) (t : Th σ O R) : Bool :=
  match t.pc, t.todo with
  | .idle, op :: _ =>
    match B.kind op with
    | .r => s.rw.pending != 0
    | .w => false
  | _, _ => false

def tsStepStrict (B : Obj σ O R) (s : Sh σ O R) (t : Th σ O R) : List (Sh σ O R × Th σ O R) :=
  if readerBlocked B s t then [] else tsStep B s t

def tsSysStrict (B : Obj σ O R) : Sys (Sh σ O R) (Th σ O R) := { step := tsStepStrict B }

theorem strict_step_sub {B : Obj σ O R} {a b : Cfg (Sh σ O R) (Th σ O R)} (h : Step (tsSysStrict B) a b) :
    Step (tsSys B) a b := by
  obtain ⟨s, pre, t, post, s', t', hmem⟩ := h
  refine Step.mk s pre t post s' t' ?_
  simp only [tsSysStrict, tsStepStrict] at hmem
  split at hmem
  · simp at hmem
  · exact hmem

theorem strict_reach_sub {B : Obj σ O R} {a b : Cfg (Sh σ O R) (Th σ O R)} (h : Reach (tsSysStrict B) a b) :
    Reach (tsSys B) a b := by
  induction h with
  | refl => exact Reach.refl _
  | tail _ hs ih => exact Reach.tail ih (strict_step_sub hs)

def isWWait : Pc σ O R → Bool
  | .wWait _ _ => true
  | _ => false

/-- `pending` counts the goroutines that have announced `Lock()` and not yet acquired -/
def PInv (c : Cfg (Sh σ O R) (Th σ O R)) : Prop := c.1.rw.pending = c.2.countP (fun t => isWWait t.pc)

theorem pinv_step {B : Obj σ O R} {a b : Cfg (Sh σ O R) (Th σ O R)} (hi : PInv a) (hs : Step (tsSys B) a b) : PInv b := by
  obtain ⟨s, pre, t, post, s', t', hmem⟩ := hs
  obtain ⟨pc, todo, rets⟩ := t
  simp only [tsSys] at hmem
  unfold PInv at hi ⊢
  simp only [] at hi ⊢
  rw [countP_mid] at hi ⊢
  cases pc with
  | idle =>
    cases todo with
    | nil => simp [tsStep] at hmem
    | cons op rest =>
      simp only [tsStep] at hmem
      cases hk : B.kind op with
      | w =>
        simp only [hk, List.mem_singleton, Prod.mk.injEq] at hmem
        obtain ⟨rfl, rfl⟩ := hmem
        simp [tick, isWWait] at hi ⊢; omega
      | r =>
        simp only [hk] at hmem
        split at hmem
        · simp at hmem
        · simp only [List.mem_singleton, Prod.mk.injEq] at hmem
          obtain ⟨rfl, rfl⟩ := hmem
          simp [tick, isWWait] at hi ⊢; omega
  | wWait op inv =>
    simp only [tsStep] at hmem
    split at hmem
    · simp only [List.mem_singleton, Prod.mk.injEq] at hmem
      obtain ⟨rfl, rfl⟩ := hmem
      simp [isWWait] at hi ⊢; omega
    · simp at hmem
  | wIn op inv =>
    simp only [tsStep, List.mem_singleton, Prod.mk.injEq] at hmem
    obtain ⟨rfl, rfl⟩ := hmem
    simp [isWWait] at hi ⊢; omega
  | wBody op inv x =>
    simp only [tsStep, List.mem_singleton, Prod.mk.injEq] at hmem
    obtain ⟨rfl, rfl⟩ := hmem
    simp [tick, isWWait] at hi ⊢; omega
  | wOut op inv res lin =>
    simp only [tsStep, List.mem_singleton, Prod.mk.injEq] at hmem
    obtain ⟨rfl, rfl⟩ := hmem
    simp [tick, isWWait] at hi ⊢; omega
  | rIn op inv =>
    simp only [tsStep, List.mem_singleton, Prod.mk.injEq] at hmem
    obtain ⟨rfl, rfl⟩ := hmem
    simp [tick, isWWait] at hi ⊢; omega
  | rBody op inv x lin =>
    simp only [tsStep, List.mem_singleton, Prod.mk.injEq] at hmem
    obtain ⟨rfl, rfl⟩ := hmem
    simp [isWWait] at hi ⊢; omega
  | rOut op inv res lin =>
    simp only [tsStep, List.mem_singleton, Prod.mk.injEq] at hmem
    obtain ⟨rfl, rfl⟩ := hmem
    simp [tick, isWWait] at hi ⊢; omega

theorem pinv_reach (B : Obj σ O R) (x0 : σ) (progs : List (List O)) {c : Cfg (Sh σ O R) (Th σ O R)}
    (hr : Reach (tsSys B) (Sh.start x0, progs.map Th.start) c) : PInv c := by
  refine inv_induction (S := tsSys B) PInv ?_ (fun _ _ h hs => pinv_step h hs) hr
  have : ∀ l : List (List O), (l.map (Th.start (σ := σ) (R := R))).countP (fun t => isWWait t.pc) = 0 := by
    intro l; induction l with
    | nil => rfl
    | cons a r ih => simp [Th.start, isWWait]
  simp [PInv, Sh.start, this]

/-- **With writer preference the wrapper cannot block itself either**: a reader is only refused while a writer is
pending, and a pending writer gets the mutex as soon as nobody is inside. -/
theorem ts_strict_not_stuck {B : Obj σ O R} {x0 : σ} {c : Cfg (Sh σ O R) (Th σ O R)} (hi : TInv B x0 c) (hp : PInv c) :
    ¬ Deadlock (tsSysStrict B) finished c := by
  rintro ⟨hstuck, t, ht, hnf⟩
  -- a goroutine inside a section is never refused
  have hinside : ∀ u ∈ c.2, inW u.pc = true ∨ inR u.pc = true → False := by
    intro u hu h
    have hs := hstuck u hu
    simp only [tsSysStrict, tsStepStrict] at hs
    have hb : readerBlocked B c.1 u = false := by
      obtain ⟨pc, todo, rets⟩ := u
      cases pc <;> simp [inW, inR] at h <;> simp [readerBlocked]
    rw [hb] at hs
    exact inside_steps B c.1 u h (by simpa using hs)
  have hout : ∀ u ∈ c.2, inW u.pc = false ∧ inR u.pc = false := by
    intro u hu
    constructor
    · cases h : inW u.pc with
      | false => rfl
      | true => exact (hinside u hu (Or.inl h)).elim
    · cases h : inR u.pc with
      | false => rfl
      | true => exact (hinside u hu (Or.inr h)).elim
  have hW0 : c.2.countP (fun t => inW t.pc) = 0 := List.countP_eq_zero.2 (fun u hu => by simp [(hout u hu).1])
  have hR0 : c.2.countP (fun t => inR t.pc) = 0 := List.countP_eq_zero.2 (fun u hu => by simp [(hout u hu).2])
  have hw : c.1.rw.writer = false := by
    have := hi.exclW
    rw [hW0] at this
    cases h : c.1.rw.writer with
    | false => rfl
    | true => rw [h] at this; simp at this
  have hr : c.1.rw.readers = 0 := by rw [hi.cntR, hR0]
  -- nobody waits for the mutex: a waiting writer would get it
  have hnowait : ∀ u ∈ c.2, isWWait u.pc = false := by
    intro u hu
    cases h : isWWait u.pc with
    | false => rfl
    | true =>
      have hs := hstuck u hu
      obtain ⟨pc, todo, rets⟩ := u
      cases pc <;> simp [isWWait] at h
      simp [tsSysStrict, tsStepStrict, readerBlocked, tsStep, hw, hr] at hs
  have hp0 : c.1.rw.pending = 0 := by
    rw [hp]; exact List.countP_eq_zero.2 (fun u hu => by simp [hnowait u hu])
  have hs := hstuck t ht
  have ho := hout _ ht
  have hnw := hnowait _ ht
  obtain ⟨pc, todo, rets⟩ := t
  simp only [tsSysStrict, tsStepStrict] at hs
  cases pc with
  | idle =>
    cases todo with
    | nil => exact hnf (by simp [finished])
    | cons op rest =>
      cases hk : B.kind op with
      | w => simp [readerBlocked, hk, tsStep] at hs
      | r => simp [readerBlocked, hk, hp0, tsStep, hw] at hs
  | wWait op inv => simp [isWWait] at hnw
  | wIn op inv => simp [inW] at ho
  | wBody op inv x => simp [inW] at ho
  | wOut op inv res lin => simp [inW] at ho
  | rIn op inv => simp [inR] at ho
  | rBody op inv x lin => simp [inR] at ho
  | rOut op inv res lin => simp [inR] at ho

theorem mem_snoc_left {α : Type} {l : List α} {x y : α} (h : x ∈ l) : x ∈ l ++ [y] := List.mem_append_left _ h

end TS
end Hive.DList
