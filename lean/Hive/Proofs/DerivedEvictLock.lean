import Hive.Proofs.DerivedEvict
/-!
# EvictionState at lock level: `evict()`'s test and update are atomic *because of the write lock*

`evlSys true` (test under the write lock, as in the code) refines the call-level system `evSys`: every step is a
stutter or the atomic call-level step, so the invariant and the quiescence theorem of `evSys` carry over.  The
refinement needs two invariants: mutual exclusion of the critical section (counting) and "a thread that has passed
the test still sees its slot un-evicted" — which is exactly what fails for `evlSys false` (`evl_back_witness`).
-/
namespace Hive.Derived
open Hive.Conc

namespace EvL

def holds : EVLT → Bool
  | .check _ _ => true
  | .update _ _ => true
  | .unlock _ _ => true
  | _ => false

def isWait : EVLT → Bool
  | .waitLock _ _ => true
  | _ => false

def passed (ev : EV) : EVLT → Prop
  | .update slot _ => ev.evicted slot = false
  | _ => True

structure LInv (c : Cfg EVL EVLT) : Prop where
  me : c.2.countP holds = if c.1.lock then 1 else 0
  nw : ∀ t ∈ c.2, isWait t = false
  up : ∀ t ∈ c.2, passed c.1.ev t

def absC (c : Cfg EVL EVLT) : Cfg EV EVT := (c.1.ev, c.2.map EVLT.abs)

theorem atEvict_some {t : EVT} {slot : Int} {sc : List EVCall} (h : t.atEvict = some (slot, sc)) :
    t = ⟨[], .evict slot :: sc⟩ := by
  obtain ⟨todo, script⟩ := t
  cases todo with
  | cons e r => simp [EVT.atEvict] at h
  | nil =>
    cases script with
    | nil => simp [EVT.atEvict] at h
    | cons c sc' =>
      cases c with
      | event s => simp [EVT.atEvict] at h
      | evict s =>
        simp only [EVT.atEvict, Option.some.injEq, Prod.mk.injEq] at h
        obtain ⟨rfl, rfl⟩ := h
        rfl

/-- The steps of the code's variant as a relation. -/
inductive LStep : EVL → EVLT → EVL → EVLT → Prop
  | lock (s : EVL) (slot : Int) (sc : List EVCall) (h : s.lock = false) :
      LStep s (.run ⟨[], .evict slot :: sc⟩) { s with lock := true } (.check slot sc)
  | call (s : EVL) (t : EVT) (e' : EV) (t' : EVT) (hne : t.atEvict = none) (hl : t.atEvent = true → s.lock = false)
      (h : (e', t') ∈ evStep s.ev t) :
      LStep s (.run t) { s with ev := e' } (.run t')
  | evicted (s : EVL) (slot : Int) (sc : List EVCall) (h : s.ev.evicted slot = true) :
      LStep s (.check slot sc) s (.unlock [] sc)
  | pass (s : EVL) (slot : Int) (sc : List EVCall) (h : s.ev.evicted slot = false) :
      LStep s (.check slot sc) s (.update slot sc)
  | wait (s : EVL) (slot : Int) (sc : List EVCall) (h : s.lock = false) :
      LStep s (.waitLock slot sc) { s with lock := true } (.update slot sc)
  | update (s : EVL) (slot : Int) (sc : List EVCall) :
      LStep s (.update slot sc)
        { s with ev := { s.ev with last := some slot, events := s.ev.events.filter (fun i => !decide (i ≤ slot)) } }
        (.unlock (evFire s.ev.events slot) sc)
  | unlock (s : EVL) (todo : List Int) (sc : List EVCall) :
      LStep s (.unlock todo sc) { s with lock := false } (.run ⟨todo, sc⟩)

theorem evlStep_sound {s s' : EVL} {t t' : EVLT} (h : (s', t') ∈ evlStep true s t) : LStep s t s' t' := by
  cases t with
  | run t =>
    simp only [evlStep] at h
    split at h
    · next slot sc he =>
      have := atEvict_some he
      subst this
      simp only [if_true] at h
      split at h
      · simp at h
      · next hl =>
        simp only [List.mem_singleton, Prod.mk.injEq] at h
        obtain ⟨rfl, rfl⟩ := h
        exact LStep.lock _ _ _ (by simpa using hl)
    · next hne =>
      split at h
      · simp at h
      · next hc =>
        simp only [List.mem_map] at h
        obtain ⟨p, hp, hpe⟩ := h
        simp only [Prod.mk.injEq] at hpe
        obtain ⟨rfl, rfl⟩ := hpe
        refine LStep.call _ _ _ _ hne (fun ha => ?_) hp
        simp only [ha, Bool.true_and, Bool.not_eq_true] at hc
        exact hc
  | check slot sc =>
    simp only [evlStep, Bool.not_true, Bool.false_and, Bool.false_eq_true, if_false, if_true] at h
    split at h
    · next he =>
      simp only [List.mem_singleton, Prod.mk.injEq] at h
      obtain ⟨rfl, rfl⟩ := h
      exact LStep.evicted _ _ _ he
    · next he =>
      simp only [List.mem_singleton, Prod.mk.injEq] at h
      obtain ⟨rfl, rfl⟩ := h
      exact LStep.pass _ _ _ (by simpa using he)
  | waitLock slot sc =>
    simp only [evlStep] at h
    split at h
    · simp at h
    · next hl =>
      simp only [List.mem_singleton, Prod.mk.injEq] at h
      obtain ⟨rfl, rfl⟩ := h
      exact LStep.wait _ _ _ (by simpa using hl)
  | update slot sc =>
    simp only [evlStep, List.mem_singleton, Prod.mk.injEq] at h
    obtain ⟨rfl, rfl⟩ := h
    exact LStep.update _ _ _
  | unlock todo sc =>
    simp only [evlStep, List.mem_singleton, Prod.mk.injEq] at h
    obtain ⟨rfl, rfl⟩ := h
    exact LStep.unlock _ _ _

variable {s s' : EVL} {t t' : EVLT} {pre post : List EVLT}

theorem mem_mid' {u : EVLT} : u ∈ pre ++ t :: post ↔ u = t ∨ (u ∈ pre ∨ u ∈ post) := by
  simp only [List.mem_append, List.mem_cons]
  constructor
  · rintro (h | h | h)
    · exact Or.inr (Or.inl h)
    · exact Or.inl h
    · exact Or.inr (Or.inr h)
  · rintro (h | h | h)
    · exact Or.inr (Or.inl h)
    · exact Or.inl h
    · exact Or.inr (Or.inr h)

/-- nobody else is in the critical section of the moving thread -/
theorem others_out (hme : (pre ++ t :: post).countP holds = if s.lock then 1 else 0) (ht : holds t = true)
    {u : EVLT} (hu : u ∈ pre ∨ u ∈ post) : holds u = false := by
  rw [countP_mid] at hme
  simp only [ht, if_true] at hme
  have h1 : pre.countP holds = 0 := by split at hme <;> omega
  have h2 : post.countP holds = 0 := by split at hme <;> omega
  rw [List.countP_eq_zero] at h1 h2
  rcases hu with hu | hu
  · simpa using h1 u hu
  · simpa using h2 u hu

theorem LInv_step (a b : Cfg EVL EVLT) (h : LInv a) (hs : Step (evlSys true) a b) : LInv b := by
  cases hs with
  | mk s pre t post s' t' hmem =>
    have hd : LStep s t s' t' := evlStep_sound hmem
    have hme := h.me
    have hnw := h.nw
    have hup := h.up
    simp only at hme hnw hup
    refine ⟨?_, ?_, ?_⟩
    · show (pre ++ t' :: post).countP holds = if s'.lock then 1 else 0
      rw [countP_mid] at hme ⊢
      generalize pre.countP holds = x at hme ⊢
      generalize post.countP holds = y at hme ⊢
      cases hd with
      | lock slot sc hl => simp [holds, hl] at hme ⊢; omega
      | call t0 e' t1 hne hl hmem' => simpa [holds] using hme
      | evicted slot sc he => simpa [holds] using hme
      | pass slot sc he => simpa [holds] using hme
      | wait slot sc hl => exact absurd (hnw _ (mem_mid'.2 (Or.inl rfl))) (by simp [isWait])
      | update slot sc => simpa [holds] using hme
      | unlock todo sc =>
        cases hl : s.lock <;> simp [holds, hl] at hme ⊢ <;> omega
    · intro u hu
      rcases mem_mid'.1 hu with rfl | hu
      · cases hd <;> simp [isWait]
      · exact hnw u (mem_mid'.2 (Or.inr hu))
    · intro u hu
      rcases mem_mid'.1 hu with rfl | hu2
      · cases hd with
        | pass slot sc he => exact he
        | wait slot sc hl => exact absurd (hnw _ (mem_mid'.2 (Or.inl rfl))) (by simp [isWait])
        | _ => trivial
      · have hu' := hup u (mem_mid'.2 (Or.inr hu2))
        cases u with
        | update slot' sc' =>
          -- `u` is in the critical section: the moving thread is not, so it can only have made a call-level step
          -- that does not evict, or taken / released the lock — which it cannot while `u` holds it
          have hmeu : ∀ (ht : holds t = true), False := by
            intro ht
            have := others_out hme ht hu2
            simp [holds] at this
          have hlock : s.lock = true := by
            cases hl : s.lock with
            | true => rfl
            | false =>
              simp only [hl, Bool.false_eq_true, if_false] at hme
              rw [List.countP_eq_zero] at hme
              have := hme _ (mem_mid'.2 (Or.inr hu2))
              simp [holds] at this
          cases hd with
          | lock slot sc hl => simp [hlock] at hl
          | call t0 e' t1 hne hl hmem' =>
            -- a call-level step outside `evict`: a trigger or an `EvictionEvent` (the latter excluded by the lock)
            show ({ s with ev := e' } : EVL).ev.evicted slot' = false
            obtain ⟨todo, script⟩ := t0
            cases todo with
            | cons e rest =>
              simp only [evStep, List.mem_singleton, Prod.mk.injEq] at hmem'
              obtain ⟨rfl, rfl⟩ := hmem'
              exact hu'
            | nil =>
              cases script with
              | nil => simp [evStep] at hmem'
              | cons c sc0 =>
                cases c with
                | event sl => exact absurd (hl (by simp [EVT.atEvent])) (by simp [hlock])
                | evict sl => simp [EVT.atEvict] at hne
          | evicted slot sc he => exact (hmeu (by simp [holds])).elim
          | pass slot sc he => exact (hmeu (by simp [holds])).elim
          | wait slot sc hl => simp [hlock] at hl
          | update slot sc => exact (hmeu (by simp [holds])).elim
          | unlock todo sc => exact (hmeu (by simp [holds])).elim
        | _ => trivial

theorem absC_mid (s : EVL) (pre post : List EVLT) (t : EVLT) :
    absC (s, pre ++ t :: post) = (s.ev, pre.map EVLT.abs ++ t.abs :: post.map EVLT.abs) := by
  simp [absC]

/-- **Refinement**: a lock-level step is a stutter or the call-level step. -/
theorem sim_step (a b : Cfg EVL EVLT) (h : LInv a) (hs : Step (evlSys true) a b) :
    absC a = absC b ∨ Step evSys (absC a) (absC b) := by
  cases hs with
  | mk s pre t post s' t' hmem =>
    have hd : LStep s t s' t' := evlStep_sound hmem
    rw [absC_mid, absC_mid]
    cases hd with
    | lock slot sc hl => exact Or.inl rfl
    | call t0 e' t1 hne hl hmem' => exact Or.inr (Step.mk _ _ _ _ _ _ hmem')
    | evicted slot sc he =>
      refine Or.inr (Step.mk _ _ _ _ _ _ ?_)
      simp [evSys, evStep, EVLT.abs, he]
    | pass slot sc he => exact Or.inl rfl
    | wait slot sc hl => exact Or.inl rfl
    | update slot sc =>
      have hp : s.ev.evicted slot = false := h.up _ (mem_mid'.2 (Or.inl rfl))
      refine Or.inr (Step.mk _ _ _ _ _ _ ?_)
      simp [evSys, evStep, EVLT.abs, hp]
    | unlock todo sc => exact Or.inl rfl

theorem sim_reach (c0 c : Cfg EVL EVLT) (h0 : LInv c0) (hr : Reach (evlSys true) c0 c) :
    LInv c ∧ Reach evSys (absC c0) (absC c) := by
  induction hr with
  | refl => exact ⟨h0, Reach.refl _⟩
  | tail _ hs ih =>
    refine ⟨LInv_step _ _ ih.1 hs, ?_⟩
    rcases sim_step _ _ ih.1 hs with e | st
    · rw [← e]; exact ih.2
    · exact Reach.tail ih.2 st

theorem LInv_init (ts : List EVT) : LInv (({ ev := EV.init, lock := false } : EVL), ts.map EVLT.run) := by
  refine ⟨?_, ?_, ?_⟩
  · show (ts.map EVLT.run).countP holds = if false then 1 else 0
    simp only [Bool.false_eq_true, if_false]
    rw [List.countP_eq_zero]
    intro u hu
    obtain ⟨t, _, rfl⟩ := List.mem_map.1 hu
    simp [holds]
  · intro u hu
    obtain ⟨t, _, rfl⟩ := List.mem_map.1 hu
    rfl
  · intro u hu
    obtain ⟨t, _, rfl⟩ := List.mem_map.1 hu
    trivial

end EvL

/-- The call-level invariant holds of (the abstraction of) every reachable lock-level configuration. -/
theorem evl_inv (ts : List EVT) (h0 : ∀ t ∈ ts, t.todo = []) (c : Cfg EVL EVLT)
    (hr : Reach (evlSys true) (({ ev := EV.init, lock := false } : EVL), ts.map EVLT.run) c) :
    EVPInv (EvL.absC c) := by
  have h := (EvL.sim_reach _ _ (EvL.LInv_init ts) hr).2
  have e : EvL.absC (({ ev := EV.init, lock := false } : EVL), ts.map EVLT.run) = (EV.init, ts) := by
    simp [EvL.absC, EVLT.abs, Function.comp_def]
  rw [e] at h
  exact evpInv_reach ts h0 _ h

/-- The variant with the test in front of the critical section sets the last evicted slot back: after the schedule
`evlBackSched` every call has returned, the event of slot 4 has triggered (by `Evict(5)`) and the last evicted slot
is 3. -/
theorem evl_back_witness :
    let c := runSched (evlSys false) evlBackInit evlBackSched
    c.2.all EVLT.finished = true ∧ c.1.ev.last = some 3 ∧ c.1.ev.trig = [4] ∧ c.1.ev.evicted 4 = false := by
  decide

end Hive.Derived
