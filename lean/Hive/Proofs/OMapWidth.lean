import Hive.Proofs.OMapDict

/-!
# The entry-count prefix of `SerializableOrderedMap.Encode/Decode` as a field of `w` bytes

The code writes the count with `seri.WriteNum(uint32(o.Size()), …)` and reads it with `var mapSize uint32`
(pinned by `C11_stmts_SerializableOrderedMap_Encode/_Decode`), i.e. `w = 4`; the model `encode`/`decode`
of `Hive/Model/OMap.lean` has `le32 (length % 2^32)`.  Here the width is a parameter, so that the theorems
say what the width is *for*: the round trip holds for every map with fewer than `256^w` entries, and a map
with exactly `256^w` entries is encoded with count 0 and decodes, successfully, to nothing (seeded change
C11-r6-1 narrowed the field to two bytes on both sides).
-/

namespace Hive.OMap

/-- `Encode` with a count prefix of `w` bytes: the conversion `uintN(o.Size())` wraps modulo `256^w`. -/
def encodeW (w : Nat) (encK encV : Nat → Bytes) (m : AMap) : Bytes :=
  encLE w (m.length % 256 ^ w) ++ encodeEntries encK encV m

/-- `Decode` with a count prefix of `w` bytes, into the (uncleared) receiver `m`. -/
def decodeW (w : Nat) (decK decV : Dec) (m : AMap) (b : Bytes) : AMap × Option Nat :=
  match decLE w b with
  | none => (m, none)
  | some (n, _) => decodeLoop decK decV n (b.drop w) m w []

theorem encLE_four (n : Nat) : encLE 4 n = le32 n := by
  simp [encLE, le32, Nat.div_div_eq_div_mul]

theorem decLE_four (b : Bytes) :
    decLE 4 b = (unle32 b).map (fun p => (p.1, 4)) := by
  match b with
  | [] => rfl
  | [_] => rfl
  | [_, _] => rfl
  | [_, _, _] => rfl
  | a :: b :: c :: d :: r =>
    simp only [decLE, unle32, Option.map_some]
    congr 2
    omega

/-- The model of the check's line protocol is the `w = 4` instance. -/
theorem encodeW_four (encK encV : Nat → Bytes) (m : AMap) : encodeW 4 encK encV m = encode encK encV m := by
  unfold encodeW encode
  rw [encLE_four]

theorem decodeW_four (decK decV : Dec) (m : AMap) (b : Bytes) : decodeW 4 decK decV m b = decode decK decV m b := by
  unfold decodeW decode
  rw [decLE_four]
  match h : unle32 b with
  | none => simp
  | some (n, rest) =>
    simp only [Option.map_some]
    have : b.drop 4 = rest := by
      match b, h with
      | a :: b' :: c :: d :: r, h =>
        simp only [unle32, Option.some.injEq, Prod.mk.injEq] at h
        simp [h.2]
    rw [this]

theorem decodeW_encodeW {DK DV : Nat → Prop} {encK encV : Nat → Bytes} {decK decV : Dec}
    (w : Nat) (hK : Codec DK encK decK) (hV : Codec DV encV decV) (m m0 : AMap) (hdom : ∀ p ∈ m, DK p.1 ∧ DV p.2)
    (hn : (AMap.keys m).Nodup) (hlen : m.length < 256 ^ w) (rest : Bytes) :
    decodeW w decK decV m0 (encodeW w encK encV m ++ rest)
      = (m.foldl (fun c p => (AMap.set c p.1 p.2).1) m0, some (encodeW w encK encV m).length) := by
  unfold decodeW encodeW
  rw [Nat.mod_eq_of_lt hlen, List.append_assoc, codec_LE w m.length hlen]
  simp only [length_encLE]
  have hd : (encLE w m.length ++ (encodeEntries encK encV m ++ rest)).drop w = encodeEntries encK encV m ++ rest := by
    have := length_encLE w m.length
    rw [List.drop_append_of_le_length (by omega)]
    simp [List.drop_eq_nil_of_le, this]
  rw [hd, decodeLoop_encodeEntries hK hV m hdom _ _ _ hn (by simp)]
  simp [length_encLE]

theorem decodeW_wraps (w : Nat) (encK encV : Nat → Bytes) (decK decV : Dec) (m m0 : AMap)
    (hlen : m.length = 256 ^ w) (rest : Bytes) :
    decodeW w decK decV m0 (encodeW w encK encV m ++ rest) = (m0, some w) := by
  unfold decodeW encodeW
  have hz : m.length % 256 ^ w = 0 := by rw [hlen]; exact Nat.mod_self _
  have hpos : 0 < 256 ^ w := Nat.pow_pos (by decide)
  rw [hz, List.append_assoc, codec_LE w 0 hpos]
  simp [decodeLoop]

end Hive.OMap
