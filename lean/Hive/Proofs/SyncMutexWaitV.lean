import Hive.Model.SyncMutexWaitV
import Hive.Proofs.SyncMutexWait
/-! The data layer of the Counter/Stack monitor: refinement of the wait monitor, FIFO/conservation of the stack
contents, chain of subscriber notifications. -/
namespace Hive.SyncMutex.WaitV
open Hive.Conc Hive.SyncMutex.Wait

theorem dataStep_base (s : MonV) (t : WThV) (p : Mon × WTh) :
    (dataStep s t p).1.base = p.1 ∧ (dataStep s t p).2.base = p.2 := by
  unfold dataStep
  split
  · simp
  · simp
  · split
    · split <;> simp
    · simp
  · split
    · split <;> simp
    · simp
  · simp

/-- Every transition of the data model is a transition of the wait monitor once the data is forgotten. -/
theorem step_proj {a b : Cfg MonV WThV} (h : Step sys a b) : Step Wait.sys (proj a) (proj b) := by
  cases h with
  | mk s pre t post s' t' hm =>
    simp only [sys, step, List.mem_map] at hm
    obtain ⟨p, hp, he⟩ := hm
    have hb := dataStep_base s t p
    rw [he] at hb
    simp only [proj, List.map_append, List.map_cons]
    rw [hb.1, hb.2]
    exact Step.mk s.base _ t.base _ p.1 p.2 hp

theorem reach_proj {a b : Cfg MonV WThV} (h : Reach sys a b) : Reach Wait.sys (proj a) (proj b) := by
  induction h with
  | refl => exact Reach.refl _
  | tail _ hs ih => exact Reach.tail ih (step_proj hs)

theorem stuck_proj {c : Cfg MonV WThV} (h : Stuck sys c) : Stuck Wait.sys (proj c) := by
  intro t ht
  simp only [proj, List.mem_map] at ht
  obtain ⟨u, hu, rfl⟩ := ht
  have := h u hu
  simpa [sys, step, Wait.sys, proj] using this

/-! ## Notifications chain -/

theorem chain_notify {v0 : Int} {log : List (Int × Int)} {old new : Int} (h : Chain v0 log old) :
    Chain v0 (notify log old new) new := by
  unfold notify
  split
  · rename_i he; rw [he]; exact h
  · rename_i hne
    exact ⟨rfl, fun h' => hne h'.symm, h⟩

/-- one successor: the log stays a chain ending at the new value -/
theorem chain_local {v0 : Int} (s : MonV) (t : WThV) (p : Mon × WTh) (hp : p ∈ Wait.step s.base t.base)
    (h : Chain v0 s.log s.base.value) : Chain v0 (dataStep s t p).1.log (dataStep s t p).1.base.value := by
  obtain ⟨⟨m, value, genI, genD⟩, q, pushed, popped, log⟩ := s
  obtain ⟨⟨pc, script, res, cb⟩, vals, rets⟩ := t
  cases pc with
  | idle =>
    cases script with
    | nil => simp [Wait.step] at hp
    | cons op rest => simp [Wait.step] at hp; subst hp; simpa [dataStep] using h
  | acq op =>
    cases m <;> simp [Wait.step] at hp
    subst hp; simpa [dataStep] using h
  | crit op =>
    cases op with
    | add d =>
      simp [Wait.step, critStep] at hp; subst hp
      simpa [dataStep] using chain_notify h
    | set v =>
      simp [Wait.step, critStep] at hp; subst hp
      simpa [dataStep] using chain_notify h
    | tryPop =>
      simp only [Wait.step, critStep] at hp
      split at hp <;> simp at hp <;> subst hp
      · cases q <;> simpa [dataStep] using chain_notify h
      · simpa [dataStep] using h
    | waitBelow thr =>
      simp only [Wait.step, critStep] at hp
      split at hp <;> simp at hp <;> subst hp <;> simpa [dataStep] using h
    | waitAbove thr =>
      simp only [Wait.step, critStep] at hp
      split at hp <;> simp at hp <;> subst hp <;> simpa [dataStep] using h
    | popOrWait =>
      simp only [Wait.step, critStep] at hp
      split at hp
      · simp at hp
        rcases hp with rfl | rfl <;> simpa [dataStep] using h
      · simp at hp; subst hp
        cases q <;> simpa [dataStep] using chain_notify h
    | shutdown =>
      simp [Wait.step, critStep] at hp; subst hp; simpa [dataStep] using h
  | critW => simp [Wait.step] at hp; subst hp; simpa [dataStep] using h
  | parkI op g =>
    simp only [Wait.step] at hp
    split at hp <;> simp at hp
    subst hp; simpa [dataStep] using h
  | parkD op g =>
    simp only [Wait.step] at hp
    split at hp <;> simp at hp
    subst hp; simpa [dataStep] using h
  | bcI => simp [Wait.step] at hp; subst hp; simpa [dataStep] using h
  | bcD => simp [Wait.step] at hp; subst hp; simpa [dataStep] using h

theorem chain_reach {v0 : Int} {c0 c : Cfg MonV WThV} (h0 : Chain v0 c0.1.log c0.1.base.value)
    (hr : Reach sys c0 c) : Chain v0 c.1.log c.1.base.value := by
  refine inv_induction (S := sys) (fun c => Chain v0 c.1.log c.1.base.value) h0 ?_ hr
  intro a b ha hs
  cases hs with
  | mk s pre t post s' t' hm =>
    simp only [sys, step, List.mem_map] at hm
    obtain ⟨p, hp, he⟩ := hm
    have := chain_local s t p hp ha
    rw [he] at this
    exact this

/-! ## Stack contents -/

structure SLoc (s : MonV) (t : WThV) : Prop where
  len : s.base.value = s.q.length
  fifo : List.range s.pushed = s.popped ++ s.q
  sub : t.vals.reverse.Sublist s.popped
  ops : stackTh t.base

structure SInv (c : Cfg MonV WThV) : Prop where
  len : c.1.base.value = c.1.q.length
  fifo : List.range c.1.pushed = c.1.popped ++ c.1.q
  sub : ∀ t ∈ c.2, t.vals.reverse.Sublist c.1.popped
  ops : ∀ t ∈ c.2, stackTh t.base

theorem range_push {n : Nat} {a b : List Nat} (h : List.range n = a ++ b) : List.range (n + 1) = a ++ (b ++ [n]) := by
  rw [List.range_succ, h, List.append_assoc]

theorem sub_push {l p : List Nat} (x : Nat) (h : l.reverse.Sublist p) : (x :: l).reverse.Sublist (p ++ [x]) := by
  rw [List.reverse_cons]
  exact List.Sublist.append h (List.Sublist.refl _)

/-- one successor of a goroutine that uses Stack methods only: the local facts are kept and `popped` only grows -/
theorem sloc_step (s : MonV) (t : WThV) (p : Mon × WTh) (hp : p ∈ Wait.step s.base t.base) (h : SLoc s t) :
    SLoc (dataStep s t p).1 (dataStep s t p).2 ∧ ∃ l, (dataStep s t p).1.popped = s.popped ++ l := by
  obtain ⟨hlen, hfifo, hsub, hops, hpc⟩ := h
  obtain ⟨⟨m, value, genI, genD⟩, q, pushed, popped, log⟩ := s
  obtain ⟨⟨pc, script, res, cb⟩, vals, rets⟩ := t
  simp only at hlen hfifo hsub hops hpc
  cases pc with
  | idle =>
    cases script with
    | nil => simp [Wait.step] at hp
    | cons op rest =>
      simp [Wait.step] at hp; subst hp
      refine ⟨⟨by simpa [dataStep] using hlen, by simpa [dataStep] using hfifo, by simpa [dataStep] using hsub, ?_, ?_⟩, [], by simp [dataStep]⟩
      · intro o ho; exact hops o (by simp [dataStep] at ho; simp [ho])
      · intro o ho; simp [dataStep, pcOp] at ho; subst ho; exact hops _ (by simp)
  | acq op =>
    cases m <;> simp [Wait.step] at hp
    subst hp
    refine ⟨⟨by simpa [dataStep] using hlen, by simpa [dataStep] using hfifo, by simpa [dataStep] using hsub, ?_, ?_⟩, [], by simp [dataStep]⟩
    · simpa [dataStep] using hops
    · intro o ho; simp [dataStep, pcOp] at ho; subst ho; exact hpc _ (by simp [pcOp])
  | crit op =>
    have hop : stackOp op := hpc op (by simp [pcOp])
    cases op with
    | add d =>
      simp only [stackOp] at hop; subst hop
      simp [Wait.step, critStep] at hp; subst hp
      refine ⟨⟨?_, ?_, by simpa [dataStep] using hsub, by simpa [dataStep] using hops, ?_⟩, [], by simp [dataStep]⟩
      · simp [dataStep]; omega
      · simpa [dataStep] using range_push hfifo
      · intro o ho; simp [dataStep, pcOp] at ho
    | set v => exact absurd hop (by simp [stackOp])
    | tryPop =>
      simp only [Wait.step, critStep] at hp
      split at hp <;> simp at hp <;> subst hp
      · rename_i hv
        cases q with
        | nil => simp at hlen; omega
        | cons x r =>
          refine ⟨⟨?_, ?_, ?_, by simpa [dataStep] using hops, ?_⟩, [x], by simp [dataStep]⟩
          · simp [dataStep] at hlen ⊢; omega
          · simpa [dataStep] using hfifo
          · simpa [dataStep] using sub_push x hsub
          · intro o ho; simp [dataStep, pcOp] at ho
      · refine ⟨⟨by simpa [dataStep] using hlen, by simpa [dataStep] using hfifo, by simpa [dataStep] using hsub, by simpa [dataStep] using hops, ?_⟩, [], by simp [dataStep]⟩
        intro o ho; simp [dataStep, pcOp] at ho
    | waitBelow thr =>
      simp only [Wait.step, critStep] at hp
      split at hp <;> simp at hp <;> subst hp
      · refine ⟨⟨by simpa [dataStep] using hlen, by simpa [dataStep] using hfifo, by simpa [dataStep] using hsub, by simpa [dataStep] using hops, ?_⟩, [], by simp [dataStep]⟩
        intro o ho; simp [dataStep, pcOp] at ho; subst ho; simp [stackOp]
      · refine ⟨⟨by simpa [dataStep] using hlen, by simpa [dataStep] using hfifo, by simpa [dataStep] using hsub, by simpa [dataStep] using hops, ?_⟩, [], by simp [dataStep]⟩
        intro o ho; simp [dataStep, pcOp] at ho
    | waitAbove thr =>
      simp only [Wait.step, critStep] at hp
      split at hp <;> simp at hp <;> subst hp
      · refine ⟨⟨by simpa [dataStep] using hlen, by simpa [dataStep] using hfifo, by simpa [dataStep] using hsub, by simpa [dataStep] using hops, ?_⟩, [], by simp [dataStep]⟩
        intro o ho; simp [dataStep, pcOp] at ho; subst ho; simp [stackOp]
      · refine ⟨⟨by simpa [dataStep] using hlen, by simpa [dataStep] using hfifo, by simpa [dataStep] using hsub, by simpa [dataStep] using hops, ?_⟩, [], by simp [dataStep]⟩
        intro o ho; simp [dataStep, pcOp] at ho
    | popOrWait =>
      simp only [Wait.step, critStep] at hp
      split at hp
      · simp at hp
        rcases hp with rfl | rfl
        · refine ⟨⟨by simpa [dataStep] using hlen, by simpa [dataStep] using hfifo, by simpa [dataStep] using hsub, by simpa [dataStep] using hops, ?_⟩, [], by simp [dataStep]⟩
          intro o ho; simp [dataStep, pcOp] at ho; subst ho; simp [stackOp]
        · refine ⟨⟨by simpa [dataStep] using hlen, by simpa [dataStep] using hfifo, by simpa [dataStep] using hsub, by simpa [dataStep] using hops, ?_⟩, [], by simp [dataStep]⟩
          intro o ho; simp [dataStep, pcOp] at ho
      · rename_i hv
        simp at hp; subst hp
        cases q with
        | nil => simp at hlen; omega
        | cons x r =>
          refine ⟨⟨?_, ?_, ?_, by simpa [dataStep] using hops, ?_⟩, [x], by simp [dataStep]⟩
          · simp [dataStep] at hlen ⊢; omega
          · simpa [dataStep] using hfifo
          · simpa [dataStep] using sub_push x hsub
          · intro o ho; simp [dataStep, pcOp] at ho
    | shutdown =>
      simp [Wait.step, critStep] at hp; subst hp
      refine ⟨⟨by simpa [dataStep] using hlen, by simpa [dataStep] using hfifo, by simpa [dataStep] using hsub, by simpa [dataStep] using hops, ?_⟩, [], by simp [dataStep]⟩
      intro o ho; simp [dataStep, pcOp] at ho
  | critW =>
    simp [Wait.step] at hp; subst hp
    refine ⟨⟨by simpa [dataStep] using hlen, by simpa [dataStep] using hfifo, by simpa [dataStep] using hsub, by simpa [dataStep] using hops, ?_⟩, [], by simp [dataStep]⟩
    intro o ho; simp [dataStep, pcOp] at ho; subst ho; simp [stackOp]
  | parkI op g =>
    simp only [Wait.step] at hp
    split at hp <;> simp at hp
    subst hp
    refine ⟨⟨by simpa [dataStep] using hlen, by simpa [dataStep] using hfifo, by simpa [dataStep] using hsub, by simpa [dataStep] using hops, ?_⟩, [], by simp [dataStep]⟩
    intro o ho; simp [dataStep, pcOp] at ho; subst ho; exact hpc _ (by simp [pcOp])
  | parkD op g =>
    simp only [Wait.step] at hp
    split at hp <;> simp at hp
    subst hp
    refine ⟨⟨by simpa [dataStep] using hlen, by simpa [dataStep] using hfifo, by simpa [dataStep] using hsub, by simpa [dataStep] using hops, ?_⟩, [], by simp [dataStep]⟩
    intro o ho; simp [dataStep, pcOp] at ho; subst ho; exact hpc _ (by simp [pcOp])
  | bcI =>
    simp [Wait.step] at hp; subst hp
    refine ⟨⟨by simpa [dataStep] using hlen, by simpa [dataStep] using hfifo, by simpa [dataStep] using hsub, by simpa [dataStep] using hops, ?_⟩, [], by simp [dataStep]⟩
    intro o ho; simp [dataStep, pcOp] at ho
  | bcD =>
    simp [Wait.step] at hp; subst hp
    refine ⟨⟨by simpa [dataStep] using hlen, by simpa [dataStep] using hfifo, by simpa [dataStep] using hsub, by simpa [dataStep] using hops, ?_⟩, [], by simp [dataStep]⟩
    intro o ho; simp [dataStep, pcOp] at ho

theorem sinv_step {a b : Cfg MonV WThV} (ha : SInv a) (hs : Step sys a b) : SInv b := by
  cases hs with
  | mk s pre t post s' t' hm =>
    simp only [sys, step, List.mem_map] at hm
    obtain ⟨p, hp, he⟩ := hm
    have ht : t ∈ pre ++ t :: post := by simp
    obtain ⟨hl, l, hpop⟩ := sloc_step s t p hp ⟨ha.len, ha.fifo, ha.sub t ht, ha.ops t ht⟩
    rw [he] at hl hpop
    simp only at hl hpop
    refine ⟨hl.len, hl.fifo, ?_, ?_⟩
    · intro u hu
      simp only [List.mem_append, List.mem_cons] at hu
      rcases hu with hu | rfl | hu
      · have := ha.sub u (by simp [hu]); simp only at this ⊢; rw [hpop]; exact this.trans (List.sublist_append_left _ _)
      · exact hl.sub
      · have := ha.sub u (by simp [hu]); simp only at this ⊢; rw [hpop]; exact this.trans (List.sublist_append_left _ _)
    · intro u hu
      simp only [List.mem_append, List.mem_cons] at hu
      rcases hu with hu | rfl | hu
      · exact ha.ops u (by simp [hu])
      · exact hl.ops
      · exact ha.ops u (by simp [hu])

theorem sinv_init (n : Nat) {scripts : List (List WOp)} (h : ∀ sc ∈ scripts, ∀ op ∈ sc, stackOp op) :
    SInv (initStack n scripts) := by
  refine ⟨by simp [initStack, MonV.initStack, Mon.init], by simp [initStack, MonV.initStack], ?_, ?_⟩
  · intro t ht
    simp only [initStack, List.mem_map] at ht
    obtain ⟨sc, _, rfl⟩ := ht
    simp [WThV.new]
  · intro t ht
    simp only [initStack, List.mem_map] at ht
    obtain ⟨sc, hsc, rfl⟩ := ht
    exact ⟨h sc hsc, by simp [WThV.new, WTh.new, pcOp]⟩

theorem sinv_reach (n : Nat) {scripts : List (List WOp)} (h : ∀ sc ∈ scripts, ∀ op ∈ sc, stackOp op)
    {c : Cfg MonV WThV} (hr : Reach sys (initStack n scripts) c) : SInv c :=
  inv_induction (S := sys) SInv (sinv_init n h) (fun _ _ ha hs => sinv_step ha hs) hr

end Hive.SyncMutex.WaitV
