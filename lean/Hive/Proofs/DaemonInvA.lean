import Hive.Proofs.DaemonBase
/-! Basic invariants of the daemon model (repaired code): WaitGroup counters, registry, flags. -/
namespace Hive.Daemon

/-- Object `i` is counted in the WaitGroup of order `o`. -/
def cntd (s : St) (o : Int) (i : Nat) : Bool := (s.objs i).counted && decide ((s.objs i).order = o)

/-- The shutdown has not yet passed its `IsRunning` check. -/
def early (s : St) : Prop := s.sd = .idle ∨ s.sd = .taken ∨ s.sd = .stoppedSet

/-- Started and not yet cleaned up (running, returned or done). -/
def inReg (w : Wk) : Prop := w.pc = .run ∨ w.pc = .ret ∨ w.pc = .dn

structure InvA (s : St) : Prop where
  wg : ∀ o, s.wgc o = cnt (cntd s o) s.n
  regv : ∀ i, i ∈ s.regl → i < s.n
  sorted : s.regl.Pairwise (fun a b => ordOf s b ≤ ordOf s a)
  uniq : ∀ a, a ∈ s.regl → ∀ b, b ∈ s.regl → (s.objs a).name = (s.objs b).name → a = b
  stopped_iff : s.stopped = true ↔ (s.sd ≠ .idle ∧ s.sd ≠ .taken)
  flagreg : s.cleared = false → ∀ i, i < s.n → inReg (s.objs i) → i ∈ s.regl
  notrun : s.running = false → early s → ∀ i, i < s.n → (s.objs i).pc = .reg
  nocancel : s.stopped = false → ∀ i, i < s.n → (s.objs i).cancelled = false
  keys : s.cleared = false → ∀ i, i < s.n → (s.objs i).order ∈ s.wgKeys
  clearedDone : s.cleared = true → s.sd = .done

theorem invA_init : InvA init := by
  constructor <;> simp [init, cnt, early]

/-- Events do not touch the state proper. -/
theorem invA_emit {s : St} (e : Ev) (h : InvA s) : InvA (emit e s) := by
  exact ⟨h.wg, h.regv, h.sorted, h.uniq, h.stopped_iff, h.flagreg, h.notrun, h.nocancel, h.keys, h.clearedDone⟩

theorem invA_rw {s : St} (r : Nat) (h : InvA s) : InvA { s with rw := r } := by
  exact ⟨h.wg, h.regv, h.sorted, h.uniq, h.stopped_iff, h.flagreg, h.notrun, h.nocancel, h.keys, h.clearedDone⟩

theorem invA_tr {s : St} (tr : List Ev) (h : InvA s) : InvA { s with tr := tr } := by
  exact ⟨h.wg, h.regv, h.sorted, h.uniq, h.stopped_iff, h.flagreg, h.notrun, h.nocancel, h.keys, h.clearedDone⟩

theorem ordOf_setObj {s : St} {i : Nat} {w' : Wk} (hord : w'.order = (s.objs i).order) (j : Nat) :
    ordOf (setObj s i w') j = ordOf s j := by
  unfold ordOf
  by_cases hj : j = i
  · subst hj; simp [hord]
  · simp [setObj_objs_ne _ _ _ _ hj]

theorem name_setObj {s : St} {i : Nat} {w' : Wk} (hname : w'.name = (s.objs i).name) (j : Nat) :
    ((setObj s i w').objs j).name = (s.objs j).name := by
  by_cases hj : j = i
  · subst hj; simp [hname]
  · simp [setObj_objs_ne _ _ _ _ hj]

/-- The registry part of the invariant only depends on names and orders. -/
theorem invA_setObj_core {s : St} {i : Nat} {w' : Wk} (h : InvA s)
    (hname : w'.name = (s.objs i).name) (hord : w'.order = (s.objs i).order) :
    (∀ j, j ∈ (setObj s i w').regl → j < (setObj s i w').n) ∧
    (setObj s i w').regl.Pairwise (fun a b => ordOf (setObj s i w') b ≤ ordOf (setObj s i w') a) ∧
    (∀ a, a ∈ (setObj s i w').regl → ∀ b, b ∈ (setObj s i w').regl →
      ((setObj s i w').objs a).name = ((setObj s i w').objs b).name → a = b) ∧
    ((setObj s i w').cleared = false → ∀ j, j < (setObj s i w').n → ((setObj s i w').objs j).order ∈ (setObj s i w').wgKeys) := by
  refine ⟨h.regv, ?_, ?_, ?_⟩
  · simp only [setObj_regl, ordOf_setObj hord]; exact h.sorted
  · intro a ha b hb; simp only [name_setObj hname]; exact h.uniq a ha b hb
  · intro hc j hj
    have := h.keys hc j hj
    by_cases hji : j = i
    · subst hji; simpa [hord] using this
    · simpa [setObj_objs_ne _ _ _ _ hji] using this

/-- An update of one object that keeps its name, its order and whether it is counted. -/
theorem invA_setObj {s : St} {i : Nat} {w' : Wk} (h : InvA s)
    (hname : w'.name = (s.objs i).name) (hord : w'.order = (s.objs i).order)
    (hcnt : w'.counted = (s.objs i).counted)
    (hin : inReg w' → inReg (s.objs i))
    (hreg : (s.objs i).pc = .reg → w'.pc = .reg)
    (hc : s.stopped = false → w'.cancelled = false) :
    InvA (setObj s i w') := by
  obtain ⟨c1, c2, c3, c4⟩ := invA_setObj_core h hname hord
  refine ⟨?_, c1, c2, c3, h.stopped_iff, ?_, ?_, ?_, c4, h.clearedDone⟩
  · intro o
    rw [setObj_wgc, setObj_n, h.wg o]
    apply cnt_congr
    intro j _
    unfold cntd
    by_cases hji : j = i
    · subst hji; simp [hcnt, hord]
    · simp [setObj_objs_ne _ _ _ _ hji]
  · intro hcl j hj hr
    by_cases hji : j = i
    · subst hji
      rw [setObj_objs_same] at hr
      exact h.flagreg hcl j hj (hin hr)
    · rw [setObj_objs_ne _ _ _ _ hji] at hr
      exact h.flagreg hcl j hj hr
  · intro hr he j hj
    have := h.notrun hr he j hj
    by_cases hji : j = i
    · subst hji; rw [setObj_objs_same]; exact hreg this
    · rw [setObj_objs_ne _ _ _ _ hji]; exact this
  · intro hs j hj
    by_cases hji : j = i
    · subst hji; rw [setObj_objs_same]; exact hc hs
    · rw [setObj_objs_ne _ _ _ _ hji]; exact h.nocancel hs j hj

/-- `runBackgroundWorker` for a registered, not yet started worker of a daemon that is not stopped. -/
theorem invA_spawn1 {s : St} {i : Nat} (h : InvA s) (hi : i < s.n) (hir : i ∈ s.regl) (hrun : s.running = true) :
    InvA (spawn1 s i) := by
  unfold spawn1
  by_cases hpc : (s.objs i).pc = .reg
  · simp only [hpc, beq_self_eq_true, if_true]
    apply invA_emit
    obtain ⟨c1, c2, c3, c4⟩ := invA_setObj_core (w' := { s.objs i with pc := .run }) h rfl rfl
    refine ⟨?_, c1, c2, c3, h.stopped_iff, ?_, ?_, ?_, c4, h.clearedDone⟩
    · intro o
      show (if o = (s.objs i).order then s.wgc o + 1 else s.wgc o) = cnt (cntd (setObj s i { s.objs i with pc := .run }) o) s.n
      have hch := cnt_change (p := cntd s o) (q := cntd (setObj s i { s.objs i with pc := .run }) o) i hi
        (by intro j _ hji; unfold cntd; rw [setObj_objs_ne _ _ _ _ hji])
      have hp : cntd s o i = false := by simp [cntd, Wk.counted, hpc]
      have hq : cntd (setObj s i { s.objs i with pc := .run }) o i = decide ((s.objs i).order = o) := by
        simp [cntd, Wk.counted]
      rw [hp, hq, ← h.wg o] at hch
      by_cases ho : o = (s.objs i).order
      · subst ho; simp at hch ⊢; omega
      · have : ¬ (s.objs i).order = o := fun h' => ho h'.symm
        simp [ho, this] at hch ⊢; omega
    · intro hcl j hj hr
      by_cases hji : j = i
      · subst hji; exact hir
      · have : (setObj s i { s.objs i with pc := .run }).objs j = s.objs j := setObj_objs_ne _ _ _ _ hji
        exact h.flagreg hcl j hj (by simpa [this] using hr)
    · intro hr; simp [hrun] at hr
    · intro hs j hj
      by_cases hji : j = i
      · subst hji
        show ((setObj s j { s.objs j with pc := .run }).objs j).cancelled = false
        rw [setObj_objs_same]; exact h.nocancel hs j hj
      · show ((setObj s i { s.objs i with pc := .run }).objs j).cancelled = false
        rw [setObj_objs_ne _ _ _ _ hji]; exact h.nocancel hs j hj
  · have : ((s.objs i).pc == WPc.reg) = false := by simpa using hpc
    simp [this, h]

theorem spawn1_running (s : St) (i : Nat) : (spawn1 s i).running = s.running := by
  by_cases h : ((s.objs i).pc == WPc.reg) = true <;> simp [spawn1, h]

theorem spawn1_n (s : St) (i : Nat) : (spawn1 s i).n = s.n := by
  by_cases h : ((s.objs i).pc == WPc.reg) = true <;> simp [spawn1, h]

theorem spawn1_stopped (s : St) (i : Nat) : (spawn1 s i).stopped = s.stopped := by
  by_cases h : ((s.objs i).pc == WPc.reg) = true <;> simp [spawn1, h]

theorem spawn1_sd (s : St) (i : Nat) : (spawn1 s i).sd = s.sd := by
  by_cases h : ((s.objs i).pc == WPc.reg) = true <;> simp [spawn1, h]

theorem spawn1_cleared (s : St) (i : Nat) : (spawn1 s i).cleared = s.cleared := by
  by_cases h : ((s.objs i).pc == WPc.reg) = true <;> simp [spawn1, h]

theorem spawn1_regl (s : St) (i : Nat) : (spawn1 s i).regl = s.regl := by
  by_cases h : ((s.objs i).pc == WPc.reg) = true <;> simp [spawn1, h]

theorem invA_spawnAll {l : List Nat} : ∀ {s : St}, InvA s → (∀ i, i ∈ l → i ∈ s.regl) → s.running = true →
    InvA (l.foldl spawn1 s) := by
  induction l with
  | nil => intro s h _ _; exact h
  | cons i l ih =>
    intro s h hl hr
    simp only [List.foldl_cons]
    have hi := hl i (List.mem_cons_self ..)
    apply ih (invA_spawn1 h (h.regv i hi) hi hr)
    · intro j hj; rw [spawn1_regl]; exact hl j (List.mem_cons_of_mem _ hj)
    · rw [spawn1_running]; exact hr

/-- The worker goroutine. -/
theorem invA_wkStep {s s' : St} {i : Nat} (h : InvA s) (hs : s' ∈ wkStep s i) : InvA s' := by
  unfold wkStep at hs
  by_cases hi : i < s.n
  · simp only [hi, if_true] at hs
    cases hpc : (s.objs i).pc with
    | reg => simp [hpc] at hs
    | fin => simp [hpc] at hs
    | run =>
      simp only [hpc, List.mem_append, List.mem_singleton] at hs
      rcases hs with hs | hs
      · subst hs
        apply invA_emit
        refine invA_setObj (i := i) (w' := { s.objs i with pc := .ret }) h rfl rfl ?_ ?_ ?_ ?_
        · simp [Wk.counted, hpc]
        · intro _; exact Or.inl hpc
        · intro h'; simp [hpc] at h'
        · intro hst; exact h.nocancel hst i hi
      · split at hs
        · simp only [List.mem_singleton] at hs
          subst hs
          apply invA_emit
          refine invA_setObj (i := i) (w' := ⟨(s.objs i).name, (s.objs i).order, .run, (s.objs i).cancelled, true⟩) h rfl rfl ?_ ?_ ?_ ?_
          · simp [Wk.counted, hpc]
          · intro _; exact Or.inl hpc
          · intro h'; simp [hpc] at h'
          · intro hst; exact h.nocancel hst i hi
        · simp at hs
    | ret =>
      simp only [hpc, List.mem_singleton] at hs
      subst hs
      obtain ⟨c1, c2, c3, c4⟩ := invA_setObj_core (w' := { s.objs i with pc := .dn }) h rfl rfl
      refine ⟨?_, c1, c2, c3, h.stopped_iff, ?_, ?_, ?_, c4, h.clearedDone⟩
      · intro o
        show (if o = (s.objs i).order then s.wgc o - 1 else s.wgc o) = cnt (cntd (setObj s i { s.objs i with pc := .dn }) o) s.n
        have hch := cnt_change (p := cntd s o) (q := cntd (setObj s i { s.objs i with pc := .dn }) o) i hi
          (by intro j _ hji; unfold cntd; rw [setObj_objs_ne _ _ _ _ hji])
        have hq : cntd (setObj s i { s.objs i with pc := .dn }) o i = false := by simp [cntd, Wk.counted]
        have hp : cntd s o i = decide ((s.objs i).order = o) := by simp [cntd, Wk.counted, hpc]
        rw [hp, hq, ← h.wg o] at hch
        by_cases ho : o = (s.objs i).order
        · subst ho; simp at hch ⊢; omega
        · have : ¬ (s.objs i).order = o := fun h' => ho h'.symm
          simp [ho, this] at hch ⊢; omega
      · intro hcl j hj hr
        by_cases hji : j = i
        · subst hji; exact h.flagreg hcl j hj (Or.inr (Or.inl hpc))
        · have : (setObj s i { s.objs i with pc := .dn }).objs j = s.objs j := setObj_objs_ne _ _ _ _ hji
          exact h.flagreg hcl j hj (by simpa [this] using hr)
      · intro hr he j hj
        have := h.notrun hr he i hi
        simp [hpc] at this
      · intro hst j hj
        by_cases hji : j = i
        · subst hji
          show ((setObj s j { s.objs j with pc := .dn }).objs j).cancelled = false
          rw [setObj_objs_same]; exact h.nocancel hst j hj
        · show ((setObj s i { s.objs i with pc := .dn }).objs j).cancelled = false
          rw [setObj_objs_ne _ _ _ _ hji]; exact h.nocancel hst j hj
    | dn =>
      simp only [hpc] at hs
      have hbase : InvA (setObj s i { s.objs i with pc := .cl }) := by
        refine invA_setObj (i := i) (w' := { s.objs i with pc := .cl }) h rfl rfl ?_ ?_ ?_ ?_
        · simp [Wk.counted, hpc]
        · intro h'; simp [inReg] at h'
        · intro h'; simp [hpc] at h'
        · intro hst; exact h.nocancel hst i hi
      split at hs
      · simp only [List.mem_singleton] at hs; subst hs; exact invA_rw _ hbase
      · rename_i hst
        simp only [List.mem_singleton] at hs; subst hs
        have hcl : s.cleared = false := by
          cases hc : s.cleared with
          | false => rfl
          | true =>
            have := h.clearedDone hc
            have hs2 := h.stopped_iff.mpr (by simp [this])
            simp [hs2] at hst
        have hireg : i ∈ s.regl := h.flagreg hcl i hi (Or.inr (Or.inr hpc))
        -- removing by name removes exactly `i`
        have hfilter : ∀ j, j ∈ s.regl.filter (fun j => (s.objs j).name != (s.objs i).name) ↔ (j ∈ s.regl ∧ j ≠ i) := by
          intro j
          simp only [List.mem_filter, bne_iff_ne, ne_eq]
          constructor
          · rintro ⟨hj, hne⟩
            exact ⟨hj, fun hji => hne (by rw [hji])⟩
          · rintro ⟨hj, hne⟩
            exact ⟨hj, fun hnm => hne (h.uniq j hj i hireg hnm)⟩
        refine ⟨hbase.wg, ?_, ?_, ?_, hbase.stopped_iff, ?_, hbase.notrun, hbase.nocancel, hbase.keys, hbase.clearedDone⟩
        · intro j hj; exact hbase.regv j ((hfilter j).mp hj).1
        · exact hbase.sorted.sublist List.filter_sublist
        · intro a ha b hb
          exact hbase.uniq a ((hfilter a).mp ha).1 b ((hfilter b).mp hb).1
        · intro hcl' j hj hr
          have hji : j ≠ i := by
            intro hji; subst hji
            have : (setObj s j { s.objs j with pc := .cl }).objs j = { s.objs j with pc := .cl } := setObj_objs_same _ _ _
            simp [this, inReg] at hr
          exact (hfilter j).mpr ⟨hbase.flagreg hcl' j hj hr, hji⟩
    | cl =>
      simp only [hpc, List.mem_singleton] at hs
      subst hs
      refine invA_setObj (i := i) (w' := { s.objs i with pc := .fin }) h rfl rfl ?_ ?_ ?_ ?_
      · simp [Wk.counted, hpc]
      · intro h'; simp [inReg] at h'
      · intro h'; simp [hpc] at h'
      · intro hst; exact h.nocancel hst i hi
  · simp [hi] at hs

/-! ## BackgroundWorker -/

theorem findName_some {s : St} {name j : Nat} (h : findName s name = some j) :
    j ∈ s.regl ∧ (s.objs j).name = name := by
  unfold findName at h
  exact ⟨List.mem_of_find?_eq_some h, by simpa using List.find?_some h⟩

theorem findName_none {s : St} {name : Nat} (h : findName s name = none) :
    ∀ k, k ∈ s.regl → (s.objs k).name ≠ name := by
  unfold findName at h
  intro k hk
  have := List.find?_eq_none.mp h k hk
  simpa using this

/-- The state right after the registration proper (before the new worker is possibly started). -/
def regState (s : St) (c name : Nat) (order : Int) (l : List Nat) : St :=
  emit (.accept c name s.n)
    { setObj s s.n ⟨name, order, .reg, false, false⟩ with
      n := s.n + 1, wgKeys := if s.wgKeys.contains order then s.wgKeys else s.wgKeys ++ [order], regl := l }

theorem regState_objs_lt (s : St) (c name : Nat) (order : Int) (l : List Nat) (j : Nat) (hj : j < s.n) :
    (regState s c name order l).objs j = s.objs j := by
  show (if j = s.n then _ else s.objs j) = s.objs j
  simp [Nat.ne_of_lt hj]

theorem regState_objs_n (s : St) (c name : Nat) (order : Int) (l : List Nat) :
    (regState s c name order l).objs s.n = ⟨name, order, .reg, false, false⟩ := by
  show (if s.n = s.n then _ else s.objs s.n) = _
  simp

theorem mem_register {s s' : St} {c name : Nat} {order : Int} {base : List Nat} (h : s' ∈ register s c name order base) :
    ∃ l, ((∀ z, z ∈ l ↔ z ∈ base ∨ z = s.n) ∧
        l.Pairwise (fun a b => ordOf (regState s c name order l) b ≤ ordOf (regState s c name order l) a)) ∧
      s' = if s.running then spawn1 (regState s c name order l) s.n else regState s c name order l := by
  unfold register at h
  simp only [List.mem_map] at h
  obtain ⟨l, hl, rfl⟩ := h
  have := mem_sortedPerms hl
  refine ⟨l, ⟨?_, ?_⟩, rfl⟩
  · intro z; rw [this.1 z]; simp
  · exact this.2

theorem invA_regState {s : St} {c name : Nat} {order : Int} {base l : List Nat} (h : InvA s)
    (hcl : s.cleared = false)
    (hsub : ∀ j, j ∈ base → j ∈ s.regl) (hnm : ∀ j, j ∈ base → (s.objs j).name ≠ name)
    (hkeep : ∀ j, j ∈ s.regl → inReg (s.objs j) → j ∈ base)
    (hl : ∀ z, z ∈ l ↔ z ∈ base ∨ z = s.n)
    (hsorted : l.Pairwise (fun a b => ordOf (regState s c name order l) b ≤ ordOf (regState s c name order l) a)) :
    InvA (regState s c name order l) := by
  have hlt : ∀ j, j ∈ base → j < s.n := fun j hj => h.regv j (hsub j hj)
  refine ⟨?_, ?_, hsorted, ?_, h.stopped_iff, ?_, ?_, ?_, ?_, h.clearedDone⟩
  · intro o
    show s.wgc o = cnt (cntd (regState s c name order l) o) (s.n + 1)
    rw [h.wg o]; symm
    apply cnt_succ_new
    · intro j hj; unfold cntd; rw [regState_objs_lt _ _ _ _ _ _ hj]
    · unfold cntd; rw [regState_objs_n]; simp [Wk.counted]
  · intro j hj
    show j < s.n + 1
    rcases (hl j).mp hj with hb | rfl
    · exact Nat.lt_succ_of_lt (hlt j hb)
    · exact Nat.lt_succ_self _
  · intro a ha b hb hab
    rcases (hl a).mp ha with ha' | rfl <;> rcases (hl b).mp hb with hb' | rfl
    · rw [regState_objs_lt _ _ _ _ _ _ (hlt a ha'), regState_objs_lt _ _ _ _ _ _ (hlt b hb')] at hab
      exact h.uniq a (hsub a ha') b (hsub b hb') hab
    · rw [regState_objs_lt _ _ _ _ _ _ (hlt a ha'), regState_objs_n] at hab
      exact absurd hab (hnm a ha')
    · rw [regState_objs_lt _ _ _ _ _ _ (hlt b hb'), regState_objs_n] at hab
      exact absurd hab.symm (hnm b hb')
    · rfl
  · intro _ j hj hr
    have hj' : j < s.n + 1 := hj
    rcases Nat.lt_succ_iff_lt_or_eq.mp hj' with hlt' | rfl
    · rw [regState_objs_lt _ _ _ _ _ _ hlt'] at hr
      exact (hl j).mpr (Or.inl (hkeep j (h.flagreg hcl j hlt' hr) hr))
    · rw [regState_objs_n] at hr; simp [inReg] at hr
  · intro hr he j hj
    have hj' : j < s.n + 1 := hj
    rcases Nat.lt_succ_iff_lt_or_eq.mp hj' with hlt' | rfl
    · rw [regState_objs_lt _ _ _ _ _ _ hlt']; exact h.notrun hr he j hlt'
    · rw [regState_objs_n]
  · intro hs j hj
    have hj' : j < s.n + 1 := hj
    rcases Nat.lt_succ_iff_lt_or_eq.mp hj' with hlt' | rfl
    · rw [regState_objs_lt _ _ _ _ _ _ hlt']; exact h.nocancel hs j hlt'
    · rw [regState_objs_n]
  · intro _ j hj
    have hj' : j < s.n + 1 := hj
    show ((regState s c name order l).objs j).order ∈ (if s.wgKeys.contains order then s.wgKeys else s.wgKeys ++ [order])
    rcases Nat.lt_succ_iff_lt_or_eq.mp hj' with hlt' | rfl
    · rw [regState_objs_lt _ _ _ _ _ _ hlt']
      have := h.keys hcl j hlt'
      split
      · exact this
      · exact List.mem_append_left _ this
    · rw [regState_objs_n]
      split
      · rename_i hc; simpa using hc
      · simp

theorem invA_register {s s' : St} {c name : Nat} {order : Int} {base : List Nat} (h : InvA s)
    (hcl : s.cleared = false)
    (hsub : ∀ j, j ∈ base → j ∈ s.regl) (hnm : ∀ j, j ∈ base → (s.objs j).name ≠ name)
    (hkeep : ∀ j, j ∈ s.regl → inReg (s.objs j) → j ∈ base)
    (hs : s' ∈ register s c name order base) : InvA s' := by
  obtain ⟨l, ⟨hl, hsorted⟩, rfl⟩ := mem_register hs
  have hA := invA_regState (c := c) h hcl hsub hnm hkeep hl hsorted
  cases hr : s.running with
  | false => simpa using hA
  | true =>
    simp only [if_true]
    apply invA_spawn1 hA
    · show s.n < s.n + 1; exact Nat.lt_succ_self _
    · exact (hl s.n).mpr (Or.inr rfl)
    · exact hr

theorem invA_bwCrit {s s' : St} {c name : Nat} {order : Int} (h : InvA s)
    (hs : s' ∈ bwCrit true s c name order) : InvA s' := by
  unfold bwCrit at hs
  cases hst : s.stopped with
  | true => simp [hst] at hs; subst hs; exact invA_emit _ h
  | false =>
    simp only [hst, Bool.and_false, Bool.false_eq_true, if_false] at hs
    cases hcl : s.cleared with
    | true => simp [hcl] at hs; subst hs; exact invA_emit _ h
    | false =>
      simp only [hcl, Bool.false_eq_true, if_false] at hs
      cases hf : findName s name with
      | none =>
        simp only [hf] at hs
        exact invA_register h hcl (fun _ hj => hj) (findName_none hf) (fun _ hj _ => hj) hs
      | some j =>
        simp only [hf] at hs
        obtain ⟨hj, hjn⟩ := findName_some hf
        cases hr : s.running with
        | false => simp [hr] at hs; subst hs; exact invA_emit _ h
        | true =>
          simp only [hr, Bool.not_true, Bool.false_eq_true, if_false] at hs
          cases hfl : (s.objs j).flag with
          | true => simp [hfl] at hs; subst hs; exact invA_emit _ h
          | false =>
            simp only [hfl, Bool.false_eq_true, if_false] at hs
            refine invA_register h hcl ?_ ?_ ?_ hs
            · intro k hk; exact (List.mem_filter.mp hk).1
            · intro k hk; simpa using (List.mem_filter.mp hk).2
            · intro k hk hin
              apply List.mem_filter.mpr
              refine ⟨hk, ?_⟩
              simp only [bne_iff_ne, ne_eq]
              intro hkn
              have : k = j := h.uniq k hk j hj (by rw [hkn, hjn])
              subst this
              have := (flag_false_iff _).mp hfl
              rcases hin with h1 | h1 | h1 <;> rcases this with h2 | h2 <;> simp [h1] at h2

/-! ## Start -/

theorem startCrit_stopped {s : St} (h : s.stopped = true) : startCrit true s = s := by
  unfold startCrit; simp [h]

theorem startCrit_running {s : St} (h : s.running = true) : startCrit true s = s := by
  unfold startCrit; simp [h]

theorem startCrit_go {s : St} (h1 : s.stopped = false) (h2 : s.running = false) :
    startCrit true s = s.regl.foldl spawn1 { s with running := true } := by
  unfold startCrit; simp [h1, h2]

theorem invA_startCrit {s : St} (h : InvA s) : InvA (startCrit true s) := by
  by_cases hst : s.stopped = true
  · rw [startCrit_stopped hst]; exact h
  · by_cases hr : s.running = true
    · rw [startCrit_running hr]; exact h
    · have hst' : s.stopped = false := by simpa using hst
      have hr' : s.running = false := by simpa using hr
      rw [startCrit_go hst' hr']
      apply invA_spawnAll
      · exact ⟨h.wg, h.regv, h.sorted, h.uniq, h.stopped_iff, h.flagreg, by intro h'; simp at h', h.nocancel, h.keys, h.clearedDone⟩
      · intro i hi; exact hi
      · rfl

/-! ## the shutdown body -/

/-- A step that only changes `stopped`, `running` and the program point of the shutdown. -/
theorem invA_sd {s : St} (h : InvA s) (st' r' : Bool) (sd' : SdPc)
    (h1 : st' = true ↔ (sd' ≠ .idle ∧ sd' ≠ .taken))
    (h2 : r' = false → (sd' = .idle ∨ sd' = .taken ∨ sd' = .stoppedSet) → s.running = false ∧ early s)
    (h3 : st' = false → s.stopped = false)
    (h4 : s.cleared = true → sd' = .done) :
    InvA { s with stopped := st', running := r', sd := sd' } :=
  ⟨h.wg, h.regv, h.sorted, h.uniq, h1, h.flagreg,
    fun hr he => h.notrun (h2 hr he).1 (h2 hr he).2, fun hs => h.nocancel (h3 hs), h.keys, h4⟩

theorem invA_cancelW {s : St} {i : Nat} (h : InvA s) (hst : s.stopped = true) : InvA (cancelW s i) := by
  unfold cancelW
  apply invA_emit
  refine invA_setObj (i := i) (w' := { s.objs i with cancelled := true }) h rfl rfl rfl (fun x => x) (fun x => x) ?_
  intro h'; simp [hst] at h'

theorem cleared_false_of_ne_done {s : St} (h : InvA s) (hne : s.sd ≠ .done) : s.cleared = false := by
  cases hc : s.cleared with
  | false => rfl
  | true => exact absurd (h.clearedDone hc) hne

theorem invA_take {s : St} (h : InvA s) (hsd : s.sd = .idle) : InvA { s with sd := .taken } := by
  have hst : s.stopped = false := by
    cases hs : s.stopped with
    | false => rfl
    | true => have := h.stopped_iff.mp hs; simp [hsd] at this
  have := invA_sd h s.stopped s.running .taken (by simp [hst])
    (by intro hr _; exact ⟨hr, Or.inl hsd⟩) (fun x => x)
    (by intro hc; have := h.clearedDone hc; simp [hsd] at this)
  simpa using this

theorem invA_sdBody {s s' : St} (h : InvA s) (hs : s' ∈ sdBody s) : InvA s' := by
  unfold sdBody at hs
  have hstop : (s.sd ≠ .idle ∧ s.sd ≠ .taken) → s.stopped = true := h.stopped_iff.mpr
  cases hsd : s.sd with
  | idle => simp [hsd] at hs
  | done => simp [hsd] at hs
  | taken =>
    simp only [hsd, List.mem_singleton] at hs; subst hs
    have := invA_sd h true s.running .stoppedSet (by simp)
      (by intro hr _; exact ⟨hr, Or.inr (Or.inl hsd)⟩) (by simp)
      (by intro hc; have := h.clearedDone hc; simp [hsd] at this)
    simpa using this
  | stoppedSet =>
    have hst := hstop (by simp [hsd])
    have hcl := cleared_false_of_ne_done h (by simp [hsd])
    simp only [hsd] at hs
    split at hs <;> (simp only [List.mem_singleton] at hs; subst hs)
    · have := invA_sd h s.stopped s.running .snap (by simp [hst]) (by simp) (fun x => x) (by simp [hcl])
      simpa using this
    · have := invA_sd h s.stopped s.running .done (by simp [hst]) (by simp) (fun x => x) (by simp)
      simpa using this
  | snap =>
    have hst := hstop (by simp [hsd])
    have hcl := cleared_false_of_ne_done h (by simp [hsd])
    simp only [hsd] at hs
    cases hreg : s.regl with
    | nil =>
      simp only [hreg, List.mem_singleton] at hs; subst hs
      have := invA_sd h s.stopped s.running .unrun (by simp [hst]) (by simp) (fun x => x) (by simp [hcl])
      simpa [hreg] using this
    | cons hd rest =>
      simp only [hreg, List.mem_singleton] at hs; subst hs
      have := invA_sd h s.stopped s.running (.loop (ordOf s hd) (hd :: rest)) (by simp [hst]) (by simp) (fun x => x) (by simp [hcl])
      simpa [hreg] using this
  | loop prev todo =>
    have hst := hstop (by simp [hsd])
    have hcl := cleared_false_of_ne_done h (by simp [hsd])
    cases todo with
    | nil =>
      simp only [hsd, List.mem_singleton] at hs; subst hs
      apply invA_emit
      have := invA_sd h s.stopped s.running (.waitLast prev) (by simp [hst]) (by simp) (fun x => x) (by simp [hcl])
      simpa using this
    | cons hd rest =>
      simp only [hsd] at hs
      have hc : ∀ sd', sd' ≠ SdPc.idle → sd' ≠ SdPc.taken → sd' ≠ SdPc.stoppedSet →
          InvA { cancelW s hd with sd := sd' } := by
        intro sd' n1 n2 n3
        have hA := invA_cancelW (i := hd) h hst
        have := invA_sd hA (cancelW s hd).stopped (cancelW s hd).running sd'
          (by simp [cancelW, hst, n1, n2]) (by simp [n1, n2, n3]) (fun x => x) (by simp [cancelW, hcl])
        simpa using this
      split at hs
      · simp only [List.mem_singleton] at hs; subst hs; exact hc _ (by simp) (by simp) (by simp)
      · split at hs
        · simp only [List.mem_singleton] at hs; subst hs
          apply invA_emit
          have := invA_sd h s.stopped s.running (.waitMid prev (hd :: rest)) (by simp [hst]) (by simp) (fun x => x) (by simp [hcl])
          simpa using this
        · simp only [List.mem_singleton] at hs; subst hs; exact hc _ (by simp) (by simp) (by simp)
  | waitMid prev todo =>
    have hst := hstop (by simp [hsd])
    have hcl := cleared_false_of_ne_done h (by simp [hsd])
    simp only [hsd] at hs
    split at hs
    · cases todo with
      | nil =>
        simp only [List.mem_singleton] at hs; subst hs
        have := invA_sd h s.stopped s.running (.waitLast prev) (by simp [hst]) (by simp) (fun x => x) (by simp [hcl])
        simpa using this
      | cons hd rest =>
        simp only [List.mem_singleton] at hs; subst hs
        have := invA_sd h s.stopped s.running (.loop (ordOf s hd) (hd :: rest)) (by simp [hst]) (by simp) (fun x => x) (by simp [hcl])
        simpa using this
    · simp at hs
  | waitLast prev =>
    have hst := hstop (by simp [hsd])
    have hcl := cleared_false_of_ne_done h (by simp [hsd])
    simp only [hsd] at hs
    split at hs
    · simp only [List.mem_singleton] at hs; subst hs
      have := invA_sd h s.stopped s.running .unrun (by simp [hst]) (by simp) (fun x => x) (by simp [hcl])
      simpa using this
    · simp at hs
  | unrun =>
    have hst := hstop (by simp [hsd])
    have hcl := cleared_false_of_ne_done h (by simp [hsd])
    simp only [hsd, List.mem_singleton] at hs; subst hs
    have := invA_sd h s.stopped false .clr (by simp [hst]) (by simp) (fun x => x) (by simp [hcl])
    simpa using this
  | clr =>
    have hst := hstop (by simp [hsd])
    simp only [hsd, List.mem_singleton] at hs; subst hs
    refine ⟨h.wg, by simp, by simp, by simp, by simp [hst], by simp, ?_, h.nocancel, by simp, by simp⟩
    intro _ he; simp [early] at he

end Hive.Daemon
