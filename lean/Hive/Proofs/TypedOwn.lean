import Hive.Proofs.TypedValue
import Hive.Model.TypedRef
/-!
# Ownership / aliasing facts of `TypedValue` (C06): what `Compute` hands to its function, what ends up in the cache
-/
namespace Hive.Typed

variable {V : Type}

/-- The structural part of cache coherence that the provenance of the function's argument needs: a cached value implies
that presence is cached as `true` and that the key is stored. -/
def CacheBacked (s : St V) : Prop := ∀ v, s.cv = some v → s.ch = some true ∧ s.store.isSome = true

theorem Coherent.cacheBacked {C : Codec V} {s : St V} (h : Coherent C s) : CacheBacked s := by
  intro v hv
  obtain ⟨b, hb, _⟩ := h.val v hv
  exact ⟨h.both (by simp [hv]), by simp [hb]⟩

/-- What the read half of `Compute` passes on: `ex = true` exactly with the value this call's own decode produced from
the stored bytes, `ex = false` with the zero value — never the cached value. -/
theorem computeRead_provenance [Inhabited V] {C : Codec V} {s : St V} (hb : CacheBacked s) {F : Faults} {cur : V} {ex : Bool}
    {tr : List Ev} (h : computeRead C s F = .go cur ex tr) :
    (ex = true ∧ ∃ b, s.store = some b ∧ decF C F b = some cur ∧ (⟨.dec, .ok⟩ : Ev) ∈ tr) ∨ (ex = false ∧ cur = default) := by
  unfold computeRead at h
  cases hcv : s.cv with
  | some v =>
    obtain ⟨hch, hst⟩ := hb v hcv
    have hn : needsRead s = true := by simp [needsRead, hch]
    cases hs : s.store with
    | none => simp [hs] at hst
    | some b =>
      simp only [hn, hs, if_true] at h
      split at h
      · cases h
      · cases hd : decF C F b with
        | none => simp [hd] at h
        | some d =>
          simp only [hd, RdRes.go.injEq] at h
          obtain ⟨rfl, rfl, rfl⟩ := h
          exact .inl ⟨rfl, b, rfl, hd, by simp⟩
  | none =>
    by_cases hn : needsRead s = true
    · simp only [hn, if_true] at h
      split at h
      · cases h
      · cases hs : s.store with
        | none =>
          simp only [hs, hcv, RdRes.go.injEq] at h
          obtain ⟨rfl, rfl, _⟩ := h
          exact .inr ⟨rfl, rfl⟩
        | some b =>
          simp only [hs] at h
          cases hd : decF C F b with
          | none => simp [hd] at h
          | some d =>
            simp only [hd, RdRes.go.injEq] at h
            obtain ⟨rfl, rfl, rfl⟩ := h
            exact .inl ⟨rfl, b, rfl, hd, by simp⟩
    · simp only [hn, hcv] at h
      simp only [Bool.false_eq_true, if_false, RdRes.go.injEq] at h
      obtain ⟨rfl, rfl, _⟩ := h
      exact .inr ⟨rfl, rfl⟩

/-- `Compute` uses its function only through the one application to what the read half produced; when the read half
exits (store or decode failure) the function is not called at all. -/
theorem compute_calls_fn_once [Inhabited V] (C : Codec V) (s : St V) (F : Faults) :
    (∃ o tr, computeRead C s F = .exit o tr ∧ ∀ f g, compute C s f F = compute C s g F) ∨
    (∃ cur ex tr, computeRead C s F = .go cur ex tr ∧ ∀ f g, f cur ex = g cur ex → compute C s f F = compute C s g F) := by
  cases hr : computeRead C s F with
  | exit o tr =>
    refine .inl ⟨o, tr, rfl, fun f g => ?_⟩
    unfold compute
    split
    · rfl
    · simp [hr]
  | go cur ex tr =>
    refine .inr ⟨cur, ex, tr, rfl, fun f g hfg => ?_⟩
    unfold compute
    split
    · rfl
    · simp only [hr, computeWrite, hfg]

/-- A successful `Compute` caches and returns exactly the value its function returned; `Get` returns the cached value
itself; a successful `Set` caches the value it was given. -/
theorem cache_holds_given [Inhabited V] (C : Codec V) (s : St V) (F : Faults) :
    (∀ f nv, (compute C s f F).out = .computed nv true → (compute C s f F).st.cv = some nv) ∧
    (∀ v, (get C s F).out = .val v → (get C s F).st.cv = some v) ∧
    (∀ v, (set C s v F).out = .ok → (set C s v F).st.cv = some v) := by
  refine ⟨fun f nv h => ?_, fun v h => ?_, fun v h => ?_⟩
  · by_cases hp : s.cv.isSome = true ∧ s.ch = none
    · rw [compute_panic C s f F hp.1 hp.2] at h; cases h
    · have hq : s.cv.isSome = true → s.ch ≠ none := fun h1 h2 => hp ⟨h1, h2⟩
      rw [compute_eq C s f F hq] at h ⊢
      cases hr : computeRead C s F with
      | exit o tr =>
        simp only [hr] at h ⊢
        obtain ⟨e, _, _, ho⟩ := (computeRead_exit hr).2
        rw [ho] at h; cases h
      | go cur ex tr =>
        simp only [hr] at h ⊢
        unfold computeWrite at h ⊢
        repeat' split at h
        all_goals simp_all
  · unfold get at h ⊢
    repeat' split at h
    all_goals simp_all
  · unfold set at h ⊢
    repeat' split at h
    all_goals simp_all

/-! ## Reference-typed values: the argument of the function is a *fresh object* -/

/-- With the codec of `TypedValue[*T]` at one moment (decoding allocates the fresh object `nxt`), the function is handed
`nxt` (when the key exists) or the nil pointer — whatever objects the cache, the caller or anybody else holds. -/
theorem ref_argument_fresh (henc : List (Ref × UInt64)) (nxt : Ref) (s : St Ref) (hb : CacheBacked s) (F : Faults)
    (cur : Ref) (ex : Bool) (tr : List Ev) (h : computeRead (refCodec henc nxt) s F = .go cur ex tr) :
    (ex = true ∧ cur = nxt) ∨ (ex = false ∧ cur = 0) := by
  rcases computeRead_provenance hb h with ⟨he, b, _, hd, _⟩ | ⟨he, hc⟩
  · refine .inl ⟨he, ?_⟩
    have hd' := (decF_some hd).1
    simp only [refCodec, Option.map_eq_some_iff] at hd'
    obtain ⟨_, _, hx⟩ := hd'
    exact hx.symm
  · exact .inr ⟨he, hc⟩

end Hive.Typed
