import Hive.Model.KVCopy
import Hive.Proofs.KVRefine
/-!
# Copy / CopyBatched refine "insert every entry of the source view under the target realm";
the pair of store trees refines the pair of ordered maps; `KeyPrefixUpperBound` bounds exactly the
strings with the prefix.
-/
namespace Hive.KV

/-! ## lookups after writing a list of entries -/

/-- What a lookup of `fk` gives after the entries `es` have been written under realm `rd`. -/
def copyLookup (rd : Bytes) (es : List Entry) (fk : Bytes) (old : Option Bytes) : Option Bytes :=
  match es.find? (fun e => rd ++ e.1 == fk) with
  | some e => some e.2
  | none => old

/-- A "set" on a map representation: the lookup law of `aset` and of `Spec.insert`. -/
def SetLaw (f : Bytes → Bytes → AList → AList) : Prop :=
  ∀ k' k v m, aget k' (f k v m) = if k' = k then some v else aget k' m

theorem setLaw_aset : SetLaw aset := fun k' k v m => aget_aset' k' k v m
theorem setLaw_insert : SetLaw Spec.insert := fun k' k v m => aget_insert k' k v m

theorem find_none_of_key_not_mem (rd : Bytes) (es : List Entry) (k : Bytes) (h : ∀ e ∈ es, e.1 ≠ k) :
    es.find? (fun e => rd ++ e.1 == rd ++ k) = none := by
  rw [List.find?_eq_none]
  intro e he
  simpa using h e he

theorem copyLookup_cons (rd : Bytes) (e : Entry) (rest : List Entry) (fk : Bytes) (old : Option Bytes) :
    copyLookup rd (e :: rest) fk old = if rd ++ e.1 = fk then some e.2 else copyLookup rd rest fk old := by
  unfold copyLookup
  rw [List.find?_cons]
  by_cases h : rd ++ e.1 = fk
  · have : (rd ++ e.1 == fk) = true := by simpa using h
    simp [h]
  · have : (rd ++ e.1 == fk) = false := by simpa using h
    simp [h, this]

theorem foldr_lookup {f : Bytes → Bytes → AList → AList} (hf : SetLaw f) (rd : Bytes) (es : List Entry) (m : AList)
    (fk : Bytes) :
    aget fk (es.foldr (fun e m => f (rd ++ e.1) e.2 m) m) = copyLookup rd es fk (aget fk m) := by
  induction es with
  | nil => rfl
  | cons e rest ih =>
    rw [List.foldr_cons, hf, copyLookup_cons, ih]
    by_cases h : rd ++ e.1 = fk
    · simp [h]
    · have h' : ¬ fk = rd ++ e.1 := fun hh => h hh.symm
      simp [h, h']

theorem foldl_lookup {f : Bytes → Bytes → AList → AList} (hf : SetLaw f) (rd : Bytes) :
    ∀ (es : List Entry) (m : AList) (fk : Bytes), NoDupKeys es →
      aget fk (es.foldl (fun m e => f (rd ++ e.1) e.2 m) m) = copyLookup rd es fk (aget fk m)
  | [], _, _, _ => rfl
  | e :: rest, m, fk, hnd => by
    unfold NoDupKeys at hnd
    rw [List.pairwise_cons] at hnd
    rw [List.foldl_cons, foldl_lookup hf rd rest _ fk hnd.2, hf, copyLookup_cons]
    by_cases h : rd ++ e.1 = fk
    · subst h
      have := find_none_of_key_not_mem rd rest e.1 (fun x hx hh => hnd.1 x hx hh.symm)
      simp [copyLookup, this]
    · have h' : ¬ fk = rd ++ e.1 := fun hh => h hh.symm
      simp [h, h']

theorem noDupKeys_append {a b : List Entry} (h : NoDupKeys (a ++ b)) :
    NoDupKeys a ∧ NoDupKeys b ∧ ∀ x ∈ a, ∀ y ∈ b, x.1 ≠ y.1 := by
  unfold NoDupKeys at h ⊢
  exact List.pairwise_append.mp h

/-- Committing batch after batch (each batch applied head-last, as `dbCommit` does). -/
theorem chunks_lookup {f : Bytes → Bytes → AList → AList} (hf : SetLaw f) (rd : Bytes) :
    ∀ (cs : List (List Entry)) (m : AList) (fk : Bytes), NoDupKeys cs.flatten →
      aget fk (cs.foldl (fun m c => c.foldr (fun e m => f (rd ++ e.1) e.2 m) m) m) =
        copyLookup rd cs.flatten fk (aget fk m)
  | [], _, _, _ => rfl
  | c :: rest, m, fk, hnd => by
    rw [List.flatten_cons] at hnd
    obtain ⟨_, h2, h3⟩ := noDupKeys_append hnd
    rw [List.foldl_cons, chunks_lookup hf rd rest _ fk h2, foldr_lookup hf]
    unfold copyLookup
    rw [List.flatten_cons, List.find?_append]
    cases hr : rest.flatten.find? (fun e => rd ++ e.1 == fk) with
    | none => cases hc : c.find? (fun e => rd ++ e.1 == fk) <;> rfl
    | some e =>
      have hmem := List.mem_of_find?_eq_some hr
      have hk := List.find?_some hr
      simp only [beq_iff_eq] at hk
      have : c.find? (fun e => rd ++ e.1 == fk) = none := by
        rw [List.find?_eq_none]
        intro x hx hxe
        simp only [beq_iff_eq] at hxe
        rw [← hk] at hxe
        exact h3 x hx e hmem (List.append_cancel_left hxe)
      rw [this]; rfl

/-- An entry of a list with distinct keys is what the lookup finds. -/
theorem copyLookup_mem {rd : Bytes} {es : List Entry} (hnd : NoDupKeys es) {k x : Bytes} (h : (k, x) ∈ es)
    (old : Option Bytes) : copyLookup rd es (rd ++ k) old = some x := by
  induction es with
  | nil => cases h
  | cons e rest ih =>
    unfold NoDupKeys at hnd
    rw [List.pairwise_cons] at hnd
    rw [copyLookup_cons]
    rcases List.mem_cons.mp h with rfl | h
    · simp
    · have : ¬ e.1 = k := fun hh => hnd.1 (k, x) h hh
      simp only [List.append_cancel_left_eq, this, if_false]
      exact ih hnd.2 h

theorem copyLookup_other {rd : Bytes} {es : List Entry} {fk : Bytes} (h : ∀ e ∈ es, fk ≠ rd ++ e.1)
    (old : Option Bytes) : copyLookup rd es fk old = old := by
  unfold copyLookup
  have : es.find? (fun e => rd ++ e.1 == fk) = none := by
    rw [List.find?_eq_none]
    intro e he hh
    simp only [beq_iff_eq] at hh
    exact h e he hh.symm
  rw [this]

/-! ## the batches of CopyBatched cover the entries -/

theorem chunkFuel_flatten : ∀ (f n : Nat) (es : List Entry), (chunkFuel f n es).flatten = es
  | 0, _, _ => by simp [chunkFuel]
  | f + 1, n, es => by
    simp only [chunkFuel]
    split
    · simp [chunkFuel_flatten f n (es.drop n)]
    · simp

theorem chunks_flatten (n : Nat) (es : List Entry) : (chunks n es).flatten = es := by
  unfold chunks
  split
  · simp
  · exact chunkFuel_flatten _ _ _

/-! ## the model's Copy on an open / closed target -/

theorem copySets_open (ws : List Wrap) (realm : Bytes) : ∀ (es : List Entry) (s : Store), s.closed = false →
    copySets ws realm es s = ({ s with m := es.foldl (fun m e => aset (realm ++ e.1) e.2 m) s.m }, .ok)
  | [], s, _ => by simp [copySets]
  | e :: rest, s, h => by
    have : dbSet realm e.1 e.2 s = ({ s with m := aset (realm ++ e.1) e.2 s.m }, .ok) := by simp [dbSet, h]
    simp only [copySets, vMut_eq (flushSafe_set _ _ _), this]
    rw [copySets_open ws realm rest _ (by simpa using h)]
    simp

theorem copySets_closed (ws : List Wrap) (realm : Bytes) (es : List Entry) (s : Store) (h : s.closed = true) :
    copySets ws realm es s = (s, if es = [] then .ok else .closed) := by
  cases es with
  | nil => simp [copySets]
  | cons e rest => simp [copySets, vMut_eq (flushSafe_set _ _ _), dbSet, h]

theorem copyCommits_open (ws : List Wrap) (realm : Bytes) : ∀ (cs : List (List Entry)) (s : Store), s.closed = false →
    copyCommits ws realm cs s =
      ({ s with m := cs.foldl (fun m c => c.foldr (fun e m => aset (realm ++ e.1) e.2 m) m) s.m }, .ok)
  | [], s, _ => by simp [copyCommits]
  | c :: rest, s, h => by
    have : dbCommit realm c [] s = ({ s with m := c.foldr (fun e m => aset (realm ++ e.1) e.2 m) s.m }, .ok) := by
      simp [dbCommit, h]
    simp only [copyCommits, vMut_eq (flushSafe_commit _ _ _), this]
    rw [copyCommits_open ws realm rest _ (by simpa using h)]
    simp

theorem noDup_foldl_aset (realm : Bytes) : ∀ (es : List Entry) (m : AList), NoDupKeys m →
    NoDupKeys (es.foldl (fun m e => aset (realm ++ e.1) e.2 m) m)
  | [], _, h => h
  | e :: rest, m, h => noDup_foldl_aset realm rest _ (noDup_aset _ _ h)

theorem noDup_foldr_aset (realm : Bytes) (es : List Entry) (m : AList) (h : NoDupKeys m) :
    NoDupKeys (es.foldr (fun e m => aset (realm ++ e.1) e.2 m) m) := by
  induction es with
  | nil => exact h
  | cons e rest ih => exact noDup_aset _ _ ih

theorem noDup_chunks (realm : Bytes) : ∀ (cs : List (List Entry)) (m : AList), NoDupKeys m →
    NoDupKeys (cs.foldl (fun m c => c.foldr (fun e m => aset (realm ++ e.1) e.2 m) m) m)
  | [], _, h => h
  | c :: rest, m, h => noDup_chunks realm rest _ (noDup_foldr_aset realm c m h)

theorem sortedK_foldl_insert (rd : Bytes) : ∀ (es : List Entry) (m : AList), SortedK m →
    SortedK (es.foldl (fun m e => Spec.insert (rd ++ e.1) e.2 m) m)
  | [], _, h => h
  | e :: rest, m, h => sortedK_foldl_insert rd rest _ (sortedK_insert _ _ h)

/-- The entries an unstopped forward iteration over the whole view reports have distinct keys. -/
theorem noDup_iterAll (realm : Bytes) {m : AList} (h : NoDupKeys m) : NoDupKeys (iterAll realm [] .fwd m) := by
  have := sorted_iterAll realm [] .fwd h
  rw [List.pairwise_map] at this
  exact List.Pairwise.imp (fun {a b} hab heq => by
    simp only [dirLt] at hab
    rw [heq, blt_irrefl] at hab; cases hab) this

theorem iterAll_spec (realm : Bytes) {m : AList} (h : NoDupKeys m) :
    iterAll realm [] .fwd m = Spec.iterate realm realm.length .fwd 0 (absMap m) := by
  rw [iterAll_eq realm [] .fwd h]
  simp [Spec.iterate, stopAfter]

/-! ## refinement of Copy / CopyBatched -/

/-- The map of the target after either kind of copy, characterised by its lookups. -/
theorem abs_copied {rd : Bytes} {es : List Entry} (hes : NoDupKeys es) {m m' : AList} (hm : NoDupKeys m)
    (hm' : NoDupKeys m') (hl : ∀ fk, aget fk m' = copyLookup rd es fk (aget fk m)) :
    absMap m' = es.foldl (fun m e => Spec.insert (rd ++ e.1) e.2 m) (absMap m) := by
  apply absMap_eq hm' (sortedK_foldl_insert rd es _ (sortedK_absMap hm))
  intro fk
  rw [foldl_lookup setLaw_insert rd es _ fk hes, aget_absMap hm, hl]

theorem copy_refines (src dst : St) (hs : Inv src) (hd : Inv dst) (v w : Nat) :
    (copyStep src dst v w).2 = (Spec.copyStep (abs src) (abs dst) v w).2 ∧
    abs (copyStep src dst v w).1 = (Spec.copyStep (abs src) (abs dst) v w).1 ∧ Inv (copyStep src dst v w).1 := by
  unfold copyStep Spec.copyStep
  rw [abs_views_lookup, abs_views_lookup]
  cases hv : src.views.lookup v with
  | none => exact ⟨by simp, by simp, by simpa using hd⟩
  | some vs =>
    cases hw : dst.views.lookup w with
    | none => exact ⟨by simp, by simp, by simpa using hd⟩
    | some vd =>
      simp only [Option.map_some, vRead_eq, dbIterate, vFlush_eq, dbCheck]
      cases hsc : src.db.closed with
      | true =>
        have : (abs src).closed = true := hsc
        simp only [this, if_true, Bool.true_or]
        exact ⟨by triv, by triv, hd⟩
      | false =>
        have hsc' : (abs src).closed = false := hsc
        simp only [Bool.false_eq_true, if_false, stopAfter, if_true, hsc', Bool.false_or]
        cases hdc : dst.db.closed with
        | true =>
          have hdc' : (abs dst).closed = true := hdc
          simp only [copySets_closed _ _ _ _ hdc, hdc', if_true]
          by_cases he : iterAll vs.realm [] Dir.fwd src.db.m = []
          · simp only [he, if_true, hdc]
            exact ⟨by triv, by triv, hd⟩
          · simp only [he, if_false]
            exact ⟨by triv, by triv, hd⟩
        | false =>
          have hdc' : (abs dst).closed = false := hdc
          simp only [copySets_open _ _ _ _ hdc, hdc, hdc', Bool.false_eq_true, if_false]
          have hes := noDup_iterAll vs.realm hs.nodup
          have hnd' := noDup_foldl_aset vd.realm (iterAll vs.realm [] .fwd src.db.m) dst.db.m hd.nodup
          refine ⟨by triv, ?_, ⟨hnd', hd.batches⟩⟩
          simp only [abs]
          rw [abs_copied hes hd.nodup hnd' (fun fk => foldl_lookup setLaw_aset vd.realm _ _ fk hes),
            iterAll_spec vs.realm hs.nodup]

theorem copyb_refines (src dst : St) (hs : Inv src) (hd : Inv dst) (v w n : Nat) :
    (copybStep src dst v w n).2 = (Spec.copyStep (abs src) (abs dst) v w).2 ∧
    abs (copybStep src dst v w n).1 = (Spec.copyStep (abs src) (abs dst) v w).1 ∧ Inv (copybStep src dst v w n).1 := by
  unfold copybStep Spec.copyStep
  rw [abs_views_lookup, abs_views_lookup]
  cases hv : src.views.lookup v with
  | none => exact ⟨by simp, by simp, by simpa using hd⟩
  | some vs =>
    cases hw : dst.views.lookup w with
    | none => exact ⟨by simp, by simp, by simpa using hd⟩
    | some vd =>
      simp only [Option.map_some, vRead_eq, dbIterate, vFlush_eq, dbCheck]
      cases hdc : dst.db.closed with
      | true =>
        have hdc' : (abs dst).closed = true := hdc
        simp only [if_true, hdc', Bool.or_true]
        exact ⟨by triv, by triv, hd⟩
      | false =>
        have hdc' : (abs dst).closed = false := hdc
        simp only [Bool.false_eq_true, if_false, hdc', Bool.or_false]
        cases hsc : src.db.closed with
        | true =>
          have : (abs src).closed = true := hsc
          simp only [this, if_true]
          exact ⟨by triv, by triv, hd⟩
        | false =>
          have hsc' : (abs src).closed = false := hsc
          simp only [Bool.false_eq_true, if_false, stopAfter, if_true, hsc',
            copyCommits_open _ _ _ _ hdc, hdc]
          have hes := noDup_iterAll vs.realm hs.nodup
          have hnd' := noDup_chunks vd.realm (chunks n (iterAll vs.realm [] .fwd src.db.m)) dst.db.m hd.nodup
          refine ⟨by triv, ?_, ⟨hnd', hd.batches⟩⟩
          simp only [abs]
          rw [abs_copied hes hd.nodup hnd' (fun fk => by
              rw [chunks_lookup setLaw_aset vd.realm _ _ fk (by rw [chunks_flatten]; exact hes), chunks_flatten]),
            iterAll_spec vs.realm hs.nodup]

/-- On open stores both kinds of copy answer `ok`, leave the target's handles alone, and the target's
map is the old one overwritten with the source view's entries under the target realm. -/
theorem copy_result (src dst : St) (hs : Inv src) (v w : Nat) (vs vd : View)
    (hv : src.views.lookup v = some vs) (hw : dst.views.lookup w = some vd)
    (hso : src.db.closed = false) (hdo : dst.db.closed = false) (n : Nat) :
    let es := iterAll vs.realm [] .fwd src.db.m
    ((copyStep src dst v w).2 = .ok ∧ (copyStep src dst v w).1.views = dst.views ∧
      (copyStep src dst v w).1.batches = dst.batches ∧
      ∀ fk, aget fk (copyStep src dst v w).1.db.m = copyLookup vd.realm es fk (aget fk dst.db.m)) ∧
    ((copybStep src dst v w n).2 = .ok ∧ (copybStep src dst v w n).1.views = dst.views ∧
      (copybStep src dst v w n).1.batches = dst.batches ∧
      ∀ fk, aget fk (copybStep src dst v w n).1.db.m = copyLookup vd.realm es fk (aget fk dst.db.m)) := by
  have hes := noDup_iterAll vs.realm hs.nodup
  constructor
  · simp only [copyStep, hv, hw, vRead_eq, dbIterate, hso, Bool.false_eq_true, if_false, stopAfter, if_true,
      copySets_open _ _ _ _ hdo, vFlush_eq, dbCheck, hdo]
    exact ⟨trivial, trivial, trivial, fun fk => foldl_lookup setLaw_aset vd.realm _ _ fk hes⟩
  · simp only [copybStep, hv, hw, vRead_eq, dbIterate, hso, Bool.false_eq_true, if_false, stopAfter, if_true,
      copyCommits_open _ _ _ _ hdo, vFlush_eq, dbCheck, hdo]
    refine ⟨trivial, trivial, trivial, fun fk => ?_⟩
    rw [chunks_lookup setLaw_aset vd.realm _ _ fk (by rw [chunks_flatten]; exact hes), chunks_flatten]

/-! ## the pair of store trees -/

def pabs (p : Pair) : Spec.Pair := (abs p.1, abs p.2)

def PInv (p : Pair) : Prop := Inv p.1 ∧ Inv p.2

theorem pinv_get {p : Pair} (h : PInv p) (b : Bool) : Inv (p.get b) := by
  cases b
  · exact h.1
  · exact h.2

theorem pabs_get (p : Pair) (b : Bool) : (pabs p).get b = abs (p.get b) := by cases b <;> rfl

theorem pabs_put (p : Pair) (b : Bool) (s : St) : pabs (p.put b s) = (pabs p).put b (abs s) := by cases b <;> rfl

theorem pinv_put {p : Pair} (h : PInv p) (b : Bool) {s : St} (hs : Inv s) : PInv (p.put b s) := by
  cases b
  · exact ⟨hs, h.2⟩
  · exact ⟨h.1, hs⟩

theorem pstep_refines (p : Pair) (h : PInv p) (op : POp) :
    (pstep p op).2 = (Spec.pstep (pabs p) op).2 ∧ pabs (pstep p op).1 = (Spec.pstep (pabs p) op).1 ∧
      PInv (pstep p op).1 := by
  cases op with
  | on b op =>
    obtain ⟨h1, h2, h3⟩ := step_refines (p.get b) (pinv_get h b) op
    simp only [pstep, Spec.pstep, pabs_get, pabs_put]
    exact ⟨h1, by rw [h2], pinv_put h b h3⟩
  | copy sb v db w =>
    obtain ⟨h1, h2, h3⟩ := copy_refines (p.get sb) (p.get db) (pinv_get h sb) (pinv_get h db) v w
    simp only [pstep, Spec.pstep, pabs_get, pabs_put]
    exact ⟨h1, by rw [h2], pinv_put h db h3⟩
  | copyb sb v db w n =>
    obtain ⟨h1, h2, h3⟩ := copyb_refines (p.get sb) (p.get db) (pinv_get h sb) (pinv_get h db) v w n
    simp only [pstep, Spec.pstep, pabs_get, pabs_put]
    exact ⟨h1, by rw [h2], pinv_put h db h3⟩

theorem prun_refines (p : Pair) (h : PInv p) (ops : List POp) :
    (prunOps p ops).2 = (Spec.prunOps (pabs p) ops).2 ∧ pabs (prunOps p ops).1 = (Spec.prunOps (pabs p) ops).1 ∧
      PInv (prunOps p ops).1 := by
  induction ops generalizing p with
  | nil => exact ⟨rfl, rfl, h⟩
  | cons op ops ih =>
    obtain ⟨h1, h2, h3⟩ := pstep_refines p h op
    obtain ⟨i1, i2, i3⟩ := ih (pstep p op).1 h3
    simp only [prunOps, Spec.prunOps]
    rw [← h2, h1, i1, i2]
    exact ⟨rfl, rfl, i3⟩

/-! ## KeyPrefixUpperBound -/

def belowBound (u : Option Bytes) (k : Bytes) : Bool :=
  match u with
  | none => true
  | some u => blt k u

theorem blt_nil_right (k : Bytes) : blt k [] = false := by cases k <;> rfl

theorem toNat_succ_of_ne (b : UInt8) (h : ¬ b.toNat = 255) : (b + 1).toNat = b.toNat + 1 := by
  have hb := b.toNat_lt
  rw [UInt8.toNat_add]
  simp only [UInt8.toNat_one] <;> omega

theorem prefix_range_iff : ∀ (p k : Bytes),
    hasPfx p k = true ↔ (blt k p = false ∧ belowBound (upperBound p) k = true)
  | [], k => by simp [hasPfx, upperBound, belowBound, blt_nil_right]
  | b :: rest, [] => by simp [hasPfx, blt]
  | b :: rest, c :: k' => by
    have ih := prefix_range_iff rest k'
    have hc := c.toNat_lt
    have hb := b.toNat_lt
    have hpf : hasPfx (b :: rest) (c :: k') = true ↔ (c.toNat = b.toNat ∧ hasPfx rest k' = true) := by
      unfold hasPfx
      simp only [List.isPrefixOf_cons_cons, Bool.and_eq_true, beq_iff_eq]
      constructor
      · rintro ⟨rfl, h⟩; exact ⟨rfl, h⟩
      · rintro ⟨h1, h2⟩; exact ⟨(UInt8.toNat_inj.mp h1).symm, h2⟩
    have hlt : blt (c :: k') (b :: rest) = false ↔
        ¬ (c.toNat < b.toNat ∨ (c.toNat = b.toNat ∧ blt k' rest = true)) := by
      rw [← blt_cons]; simp
    rw [hpf, hlt, ih]
    simp only [upperBound]
    cases hu : upperBound rest with
    | some u =>
      simp only [belowBound, blt_cons]
      cases blt k' rest <;> cases blt k' u <;> simp <;> omega
    | none =>
      by_cases hff : b.toNat = 255
      · simp only [hff, if_true, belowBound]
        cases blt k' rest <;> simp <;> omega
      · simp only [hff, if_false, belowBound, blt_cons, toNat_succ_of_ne b hff, blt_nil_right]
        cases blt k' rest <;> simp <;> omega

/-- **`k` carries the prefix `p` iff `p ≤ k < KeyPrefixUpperBound(p)`** in Go's byte order; the empty
and the all-0xff prefix have no upper bound. -/
theorem prefix_range (p k : Bytes) : hasPfx p k = (!blt k p && belowBound (upperBound p) k) := by
  rw [Bool.eq_iff_iff, prefix_range_iff]
  simp

/-! ## the loop of `CopyBatched` as written commits exactly `chunks` -/

theorem loopBatches_zero (cur : List Entry) (cnt : Nat) (es : List Entry) :
    loopBatches 0 cur cnt es = [cur ++ es] := by
  induction es generalizing cur cnt with
  | nil => simp [loopBatches]
  | cons e rest ih => simp [loopBatches, ih]

/-- With enough fuel the fuel does not matter. -/
theorem chunkFuel_fuel (n : Nat) (hn : 0 < n) : ∀ (f1 f2 : Nat) (es : List Entry), es.length ≤ f1 → es.length ≤ f2 →
    chunkFuel f1 n es = chunkFuel f2 n es
  | 0, 0, _, _, _ => rfl
  | 0, f2 + 1, es, h1, _ => by
    have : es = [] := List.length_eq_zero_iff.mp (Nat.le_zero.mp h1)
    subst this
    have : ¬ n ≤ 0 := by omega
    simp [chunkFuel, this]
  | f1 + 1, 0, es, _, h2 => by
    have : es = [] := List.length_eq_zero_iff.mp (Nat.le_zero.mp h2)
    subst this
    have : ¬ n ≤ 0 := by omega
    simp [chunkFuel, this]
  | f1 + 1, f2 + 1, es, h1, h2 => by
    simp only [chunkFuel]
    by_cases h : n ≤ es.length
    · simp only [h, if_true]
      rw [chunkFuel_fuel n hn f1 f2 (es.drop n) (by simp only [List.length_drop]; omega)
        (by simp only [List.length_drop]; omega)]
    · simp [h]

theorem chunks_unfold (n : Nat) (hn : 0 < n) (es : List Entry) :
    chunks n es = if n ≤ es.length then es.take n :: chunks n (es.drop n) else [es] := by
  have hn0 : n ≠ 0 := by omega
  simp only [chunks, hn0, if_false]
  cases hl : es.length with
  | zero =>
    have : ¬ n ≤ 0 := by omega
    simp [chunkFuel, this]
  | succ f =>
    simp only [chunkFuel, hl]
    by_cases h : n ≤ f + 1
    · simp only [h, if_true]
      rw [chunkFuel_fuel n hn f (es.drop n).length (es.drop n) (by simp only [List.length_drop]; omega) (Nat.le_refl _)]
    · simp [h]

theorem loopBatches_pos (n : Nat) (hn : 0 < n) (es : List Entry) : ∀ (cur : List Entry) (cnt : Nat), cnt < n →
    loopBatches n cur cnt es =
      if n ≤ cnt + es.length then (cur ++ es.take (n - cnt)) :: chunks n (es.drop (n - cnt)) else [cur ++ es] := by
  have hn0 : (n != 0) = true := by simpa using (show n ≠ 0 by omega)
  induction es with
  | nil =>
    intro cur cnt hc
    have : ¬ n ≤ cnt := by omega
    simp [loopBatches, this]
  | cons e rest ih =>
    intro cur cnt hc
    by_cases hb : cnt + 1 ≥ n
    · have hd : (decide (cnt + 1 ≥ n)) = true := by simpa using hb
      have h1 : n - cnt = 1 := by omega
      have h2 : n ≤ cnt + (e :: rest).length := by simp only [List.length_cons]; omega
      simp only [loopBatches, hn0, hd, Bool.and_self, if_true, h2, h1, List.take_succ_cons, List.take_zero,
        List.drop_succ_cons, List.drop_zero]
      rw [ih [] 0 hn, chunks_unfold n hn rest]
      simp
    · have hd : (decide (cnt + 1 ≥ n)) = false := by simpa using hb
      have hk : n - cnt = (n - (cnt + 1)) + 1 := by omega
      simp only [loopBatches, hn0, hd, Bool.and_false, Bool.false_eq_true, if_false]
      rw [ih (cur ++ [e]) (cnt + 1) (by omega), hk]
      simp only [List.length_cons, List.take_succ_cons, List.drop_succ_cons, List.append_assoc, List.singleton_append]
      by_cases h : n ≤ cnt + 1 + rest.length
      · have h' : n ≤ cnt + (rest.length + 1) := by omega
        simp [h, h']
      · have h' : ¬ n ≤ cnt + (rest.length + 1) := by omega
        simp [h, h']

theorem loopBatches_eq_chunks (n : Nat) (es : List Entry) : loopBatches n [] 0 es = chunks n es := by
  by_cases hn : n = 0
  · subst hn; simp [loopBatches_zero, chunks]
  · have hp : 0 < n := by omega
    rw [loopBatches_pos n hp es [] 0 hp, chunks_unfold n hp es]
    simp

end Hive.KV
