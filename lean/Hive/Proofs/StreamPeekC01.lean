import Hive.Proofs.Stream
/-!
# C01, stream part: `PeekSize` and `ReadObjectFromReader` against what the writers wrote

`PeekSize(reader, lenType)` reads the size prefix and seeks back; `ReadObjectFromReader(reader, f)` hands the reader
to the callback.  For every sized writer call (`WriteBytesWithSize`, `WriteObjectWithSize`, `WriteCollection`):
`PeekSize` on the written bytes reports the size that was written (payload length / element count) through any
chunking, leaves the reader where it was, and the mirrored reader call that follows still returns the written values
and consumes exactly the written bytes.  (File of the C01 owner; `Hive/Proofs/Stream.lean` belongs to C02.)
-/
namespace Hive.Stream
open Hive.Dec

/-- The size prefix a writer call puts in front: prefix width and value. -/
def WOp.sized : WOp → Option (LP × Nat)
  | .bws lp d => some (lp, d.length)
  | .ows lp d => some (lp, d.length)
  | .coll lp _ items => some (lp, items.length)
  | _ => none

theorem encOp_sized {op : WOp} {e : Bytes} {lp : LP} {n : Nat} (he : encOp op = some e) (hs : op.sized = some (lp, n)) :
    fitsLP lp n = true ∧ ∃ body, e = natLE lp.width n ++ body := by
  cases op with
  | bws lp' d =>
    simp only [WOp.sized, Option.some.injEq, Prod.mk.injEq] at hs
    obtain ⟨rfl, rfl⟩ := hs
    simp only [encOp] at he
    split at he
    · rename_i hf; simp only [Option.some.injEq] at he; exact ⟨hf, d, he.symm⟩
    · cases he
  | ows lp' d =>
    simp only [WOp.sized, Option.some.injEq, Prod.mk.injEq] at hs
    obtain ⟨rfl, rfl⟩ := hs
    simp only [encOp] at he
    split at he
    · rename_i hf; simp only [Option.some.injEq] at he; exact ⟨hf, d, he.symm⟩
    · cases he
  | coll lp' k items =>
    simp only [WOp.sized, Option.some.injEq, Prod.mk.injEq] at hs
    obtain ⟨rfl, rfl⟩ := hs
    simp only [encOp] at he
    cases hi : encItems k items with
    | none => simp [hi] at he
    | some b =>
      simp only [hi] at he
      split at he
      · rename_i hf; simp only [Option.some.injEq] at he; exact ⟨hf, b, he.symm⟩
      · cases he
  | num _ _ => simp [WOp.sized] at hs
  | bool _ => simp [WOp.sized] at hs
  | arr _ _ => simp [WOp.sized] at hs
  | bytes _ => simp [WOp.sized] at hs
  | obj _ => simp [WOp.sized] at hs

/-- `PeekSize` on what a sized writer call wrote: the written size, the reader content untouched. -/
theorem peek_written (op : WOp) (e tail : Bytes) (cs : List Nat) (lp : LP) (n : Nat)
    (he : encOp op = some e) (hs : op.sized = some (lp, n)) :
    ∃ cs', runOp (.peek lp) ⟨e ++ tail, cs⟩ = ⟨.ok, ⟨e ++ tail, cs'⟩, [.size n], {}⟩ := by
  obtain ⟨hf, body, rfl⟩ := encOp_sized he hs
  obtain ⟨cs', hr⟩ := readFixedSize_ok lp n hf (body ++ tail) cs
  refine ⟨cs', ?_⟩
  simp only [List.append_assoc] at hr ⊢
  simp [runOp, hr, rok]

/-- `PeekSize`, then the mirrored reader call: size, then the written values; exactly the written bytes consumed. -/
theorem peek_then_read (op : WOp) (e tail : Bytes) (cs : List Nat) (lp : LP) (n : Nat)
    (he : encOp op = some e) (hs : op.sized = some (lp, n)) (hw : op.wf) :
    ∃ cs' c, runProg (.cons (.peek lp) (.cons (readOf1 op) .nil)) ⟨e ++ tail, cs⟩ =
      ⟨.ok, ⟨tail, cs'⟩, .size n :: valsOf1 op, c⟩ := by
  obtain ⟨cs1, hp⟩ := peek_written op e tail cs lp n he hs
  obtain ⟨cs2, c, hr⟩ := op_roundtrip op e tail cs1 he hw
  exact ⟨cs2, {} + (c + {}), by simp [runProg, hp, hr]⟩

/-- `ReadObjectFromReader` with a callback that runs a reader program is that program. -/
theorem sub_eq (p : RProg) (rd : Rd) : runOp (.sub p) rd = runProg p rd := by
  simp [runOp]

end Hive.Stream
