import Hive.Proofs.SafeMathLemmas
import Hive.Gen.C19_SafeMath
/-! SafeLeftShift (every shift count): the definition generated from core/safemath/safe_math.go meets the specification, for every width and signedness. -/
namespace Hive.GoInt
open Hive.Gen.SafeMath IntTy

theorem safeLeftShift_exact (T : IntTy) (hb : 0 < T.bits) (v : Int) (n : Nat) (_hv : T.InRange v) :
    SafeLeftShift T v (n : Int) = exact T (v * 2 ^ n) := by
  have hM := T.modulus_pos
  have hP := two_pow_pos n
  unfold SafeLeftShift exact IntTy.shl IntTy.shr
  simp only [Int.toNat_natCast]
  by_cases hin : T.InRange (v * 2 ^ n)
  · rw [if_pos hin]
    have hw := T.wrap_eq_self hb _ hin
    have : v * 2 ^ n / 2 ^ n = v := Int.mul_ediv_cancel v (Int.ne_of_gt hP)
    simp [hw, this]
  · rw [if_neg hin]
    have hv0 : v ≠ 0 := by
      intro h; apply hin; rw [h]; simpa using zero_inRange T hb
    obtain ⟨k, hk⟩ := T.wrap_congr hb (v * 2 ^ n)
    have hrin := T.wrap_inRange hb (v * 2 ^ n)
    have hk0 : k ≠ 0 := by
      intro h; rw [h] at hk; simp at hk; rw [hk] at hrin; exact hin hrin
    have habs := mul_ne_zero_abs k T.modulus hk0 hM
    suffices hne : T.wrap (v * 2 ^ n) / 2 ^ n ≠ v by simp [hne]
    intro heq
    have hdm := Int.emod_add_mul_ediv (T.wrap (v * 2 ^ n)) (2 ^ n)
    have hm0 := Int.emod_nonneg (T.wrap (v * 2 ^ n)) (Int.ne_of_gt hP)
    have hm1 := Int.emod_lt_of_pos (T.wrap (v * 2 ^ n)) hP
    rw [heq] at hdm
    have hcomm : (2 : Int) ^ n * v = v * 2 ^ n := Int.mul_comm _ _
    -- the remainder equals -k*M, so M ≤ remainder < 2^n
    have hMP : T.modulus < 2 ^ n := by omega
    have hnb : T.bits ≤ n := by
      rcases Nat.lt_or_ge n T.bits with h | h
      · have := two_pow_le n T.bits (Nat.le_of_lt h); unfold modulus at hMP; omega
      · exact h
    obtain ⟨c, hc⟩ := Nat.exists_eq_add_of_le hnb
    have hPM : (2 : Int) ^ n = T.modulus * 2 ^ c := by rw [hc, Int.pow_add]; rfl
    -- the wrapped result is an in-range multiple of the modulus, hence 0
    have hmul : T.wrap (v * 2 ^ n) = 0 - (k - v * 2 ^ c) * T.modulus := by
      rw [hk, hPM, Int.sub_mul]
      have : v * (T.modulus * 2 ^ c) = v * 2 ^ c * T.modulus := by
        rw [Int.mul_comm T.modulus, Int.mul_assoc]
      omega
    have hz := T.inRange_unique hb _ 0 _ hrin (zero_inRange T hb) hmul
    rw [hz] at hmul
    simp at hmul
    rw [hmul] at heq
    simp at heq
    exact hv0 heq.symm

end Hive.GoInt
