import Hive.Model.AdsConc
import Hive.Proofs.Ads
/-! Invariant of the protocol model of a shared `ads.Map`: write sections exclude each other and all
readers, and the log of completed calls is a run of the sequential machine. -/
namespace Hive.Ads.Conc
open Hive.Conc

variable {R : Type}

/-- What holds for a thread that is inside a call: the relation between the state its write section
started from (`b`), the shared state now (`st`), the call and the program counter. -/
def WOk (c : Cfg R) (b st : St R) (op : Op) : Pc R → Prop
  | .idle => True
  | .wantW => True
  | .wantR => op = .size
  | .r1 => op = .size
  | .rDone _ => op = .size
  | .w1 => st = b
  | .wHas h =>
    st = b ∧
    match op with
    | .set (some kb) (some _) => h = has b kb
    | .del (some kb) => h = has b kb
    | _ => False
  | .wTree h =>
    match op with
    | .set (some kb) (some vb) => h = has b kb ∧ st = { b with trie := b.trie.update kb vb }
    | .del (some kb) =>
      h = true ∧ has b kb = true ∧ st = { b with trie := { b.trie with mem := kvErase kb b.trie.mem } }
    | _ => False
  | .wRaw h =>
    match op with
    | .set (some kb) (some vb) =>
      h = has b kb ∧ st = { b with trie := b.trie.update kb vb, rawKeys := insertSorted kb b.rawKeys }
    | .del (some kb) =>
      h = true ∧ has b kb = true ∧
        st = { b with trie := { b.trie with mem := kvErase kb b.trie.mem }, rawKeys := b.rawKeys.filter (· ≠ kb) }
    | _ => False
  | .wSize n =>
    match op with
    | .set (some kb) (some vb) =>
      has b kb = false ∧ n = b.size.getD 0 ∧
        st = { b with trie := b.trie.update kb vb, rawKeys := insertSorted kb b.rawKeys }
    | .del (some kb) =>
      has b kb = true ∧ n = b.size.getD 0 ∧
        st = { b with trie := { b.trie with mem := kvErase kb b.trie.mem }, rawKeys := b.rawKeys.filter (· ≠ kb) }
    | _ => False
  | .wRoot => op = .commit ∧ st = { b with rootKey := some (c.rootOf b.trie.fn) }
  | .wDone o => st = (step c b op).1 ∧ o = (step c b op).2

def TOk (c : Cfg R) (sh : Shared R) (t : Thread R) : Prop :=
  match t.pc with
  | .idle => True
  | pc => ∃ op rest, t.script = op :: rest ∧ isMethod op = true ∧ WOk c sh.base sh.st op pc

abbrev pW : Thread R → Bool := fun t => inW t.pc
abbrev pR : Thread R → Bool := fun t => inR t.pc

structure Inv (c : Cfg R) (s0 : St R) (cf : Hive.Conc.Cfg (Shared R) (Thread R)) : Prop where
  wcount : cf.2.countP pW = if cf.1.writer then 1 else 0
  rcount : cf.2.countP pR = cf.1.readers
  excl : cf.1.writer = true → cf.1.readers = 0
  logrun : run c s0 (logOps cf.1.log) = (cf.1.base, logOuts cf.1.log)
  quiet : cf.1.writer = false → cf.1.st = cf.1.base
  logMeth : ∀ e ∈ cf.1.log, isMethod e.1 = true
  threads : ∀ t ∈ cf.2, TOk c cf.1 t

/-! ## small facts -/

theorem run_append (c : Cfg R) (s : St R) (h1 h2 : List Op) :
    run c s (h1 ++ h2) = ((run c (run c s h1).1 h2).1, (run c s h1).2 ++ (run c (run c s h1).1 h2).2) := by
  induction h1 generalizing s with
  | nil => simp [run]
  | cons x xs ih => simp [run, ih]

theorem logrun_snoc {c : Cfg R} {s0 base : St R} {log : List (Op × Out R)}
    (h : run c s0 (logOps log) = (base, logOuts log)) (op : Op) :
    run c s0 (logOps (log ++ [(op, (step c base op).2)])) =
      ((step c base op).1, logOuts (log ++ [(op, (step c base op).2)])) := by
  simp only [logOps, logOuts, List.map_append, List.map_cons, List.map_nil] at h ⊢
  rw [run_append, h]
  simp [run]

theorem mem_mid {α : Type} {pre post : List α} {t u : α} (h : u ∈ pre ++ t :: post) :
    u = t ∨ u ∈ pre ∨ u ∈ post := by
  simp only [List.mem_append, List.mem_cons] at h
  rcases h with h | h | h
  · exact Or.inr (Or.inl h)
  · exact Or.inl h
  · exact Or.inr (Or.inr h)

theorem mem_mid' {α : Type} {pre post : List α} {t u : α} (h : u ∈ pre ∨ u ∈ post) : u ∈ pre ++ t :: post := by
  simp only [List.mem_append, List.mem_cons]
  rcases h with h | h
  · exact Or.inl h
  · exact Or.inr (Or.inr h)

theorem countP_swap (p : Thread R → Bool) (pre post : List (Thread R)) (t t' : Thread R) (b b' : Bool)
    (hb : p t = b) (hb' : p t' = b') :
    (pre ++ t' :: post).countP p + (if b then 1 else 0) =
      (pre ++ t :: post).countP p + (if b' then 1 else 0) := by
  subst hb hb'
  rw [countP_mid, countP_mid]; omega

theorem tok_of_not_inW_inR {c : Cfg R} {sh sh' : Shared R} {u : Thread R}
    (hW : inW u.pc = false) (h : TOk c sh u) : TOk c sh' u := by
  unfold TOk at *
  cases hp : u.pc <;> simp_all [inW, WOk]

theorem tok_congr {c : Cfg R} {sh sh' : Shared R} {u : Thread R}
    (h1 : sh'.st = sh.st) (h2 : sh'.base = sh.base) (h : TOk c sh u) : TOk c sh' u := by
  unfold TOk at *
  rw [h1, h2]; exact h

/-- If the stepping thread is inside a write section nobody else is. -/
theorem others_not_inW {pre post : List (Thread R)} {t : Thread R} {w : Bool}
    (hc : (pre ++ t :: post).countP pW = if w then 1 else 0) (ht : inW t.pc = true) :
    ∀ u, u ∈ pre ∨ u ∈ post → inW u.pc = false := by
  rw [countP_mid] at hc
  have h1 : pW t = true := ht
  simp only [h1, if_true] at hc
  have hpre : pre.countP pW = 0 := by split at hc <;> omega
  have hpost : post.countP pW = 0 := by split at hc <;> omega
  intro u hu
  rcases hu with hu | hu
  · have := (List.countP_eq_zero.mp hpre) u hu; simpa [pW] using this
  · have := (List.countP_eq_zero.mp hpost) u hu; simpa [pW] using this

theorem writer_of_inW {c : Cfg R} {s0 : St R} {s : Shared R} {pre post : List (Thread R)} {t : Thread R}
    (hi : Inv c s0 (s, pre ++ t :: post)) (hW : inW t.pc = true) : s.writer = true := by
  have h1 : (pre ++ t :: post).countP pW = if s.writer then 1 else 0 := hi.wcount
  rw [countP_mid] at h1
  have : pW t = true := hW
  simp only [this, if_true] at h1
  cases hw : s.writer with
  | true => rfl
  | false => simp [hw] at h1

theorem readers_pos_of_inR {c : Cfg R} {s0 : St R} {s : Shared R} {pre post : List (Thread R)} {t : Thread R}
    (hi : Inv c s0 (s, pre ++ t :: post)) (hR : inR t.pc = true) : 0 < s.readers := by
  have h2 : (pre ++ t :: post).countP pR = s.readers := hi.rcount
  rw [countP_mid] at h2
  have : pR t = true := hR
  simp only [this, if_true] at h2
  omega

theorem inv_init (c : Cfg R) (s0 : St R) (scripts : List (List Op)) :
    Inv c s0 (init s0, scripts.map start) := by
  constructor
  · simp only [init]
    induction scripts with
    | nil => rfl
    | cons x xs ih => simp [List.countP_cons, pW, start, inW]
  · simp only [init]
    induction scripts with
    | nil => rfl
    | cons x xs ih => simp [List.countP_cons, pR, start, inR]
  · simp [init]
  · simp [init, logOps, logOuts, run]
  · simp [init]
  · simp [init]
  · intro t ht
    simp only [List.mem_map] at ht
    obtain ⟨sc, _, rfl⟩ := ht
    simp [TOk, start]

/-! ## the kinds of transitions -/

/-- A step outside every write section that leaves `st`, `base`, `log`, `writer` alone. -/
theorem inv_light (c : Cfg R) (s0 : St R) {s s' : Shared R} {pre post : List (Thread R)} {t t' : Thread R}
    (hi : Inv c s0 (s, pre ++ t :: post))
    (hst : s'.st = s.st) (hbase : s'.base = s.base) (hlog : s'.log = s.log) (hw : s'.writer = s.writer)
    (hW : inW t.pc = false) (hW' : inW t'.pc = false)
    (hr : s'.readers + (if inR t.pc then 1 else 0) = s.readers + (if inR t'.pc then 1 else 0))
    (hex : s'.writer = true → s'.readers = 0) (hok : TOk c s' t') :
    Inv c s0 (s', pre ++ t' :: post) := by
  have hsw := countP_swap pW pre post t t' false false hW hW'
  have hsr := countP_swap pR pre post t t' (inR t.pc) (inR t'.pc) rfl rfl
  have h1 : (pre ++ t :: post).countP pW = if s.writer then 1 else 0 := hi.wcount
  have h2 : (pre ++ t :: post).countP pR = s.readers := hi.rcount
  simp only [Bool.false_eq_true, if_false, Nat.add_zero] at hsw
  constructor
  · show (pre ++ t' :: post).countP pW = if s'.writer then 1 else 0
    rw [hw, hsw]; exact h1
  · show (pre ++ t' :: post).countP pR = s'.readers
    omega
  · exact hex
  · simp only [hlog, hbase]; exact hi.logrun
  · simp only [hw, hst, hbase]; exact hi.quiet
  · simp only [hlog]; exact hi.logMeth
  · intro u hu
    rcases mem_mid hu with rfl | hu
    · exact hok
    · exact tok_congr hst hbase (hi.threads u (mem_mid' hu))

/-- A micro-step inside the write section: only `st` changes. -/
theorem inv_writer (c : Cfg R) (s0 : St R) {s s' : Shared R} {pre post : List (Thread R)} {t t' : Thread R}
    (hi : Inv c s0 (s, pre ++ t :: post))
    (hW : inW t.pc = true) (hW' : inW t'.pc = true) (hR : inR t.pc = false) (hR' : inR t'.pc = false)
    (hbase : s'.base = s.base) (hlog : s'.log = s.log) (hw : s'.writer = s.writer) (hrd : s'.readers = s.readers)
    (hok : TOk c s' t') : Inv c s0 (s', pre ++ t' :: post) := by
  have hsw := countP_swap pW pre post t t' true true hW hW'
  have hsr := countP_swap pR pre post t t' false false hR hR'
  have h1 : (pre ++ t :: post).countP pW = if s.writer then 1 else 0 := hi.wcount
  have h2 : (pre ++ t :: post).countP pR = s.readers := hi.rcount
  have hwr := writer_of_inW hi hW
  simp only [if_true, Nat.add_right_cancel_iff] at hsw
  simp only [Bool.false_eq_true, if_false, Nat.add_zero] at hsr
  constructor
  · show (pre ++ t' :: post).countP pW = if s'.writer then 1 else 0
    rw [hw, hsw]; exact h1
  · show (pre ++ t' :: post).countP pR = s'.readers
    rw [hrd, hsr]; exact h2
  · intro _; rw [hrd]; exact hi.excl hwr
  · simp only [hlog, hbase]; exact hi.logrun
  · intro h; rw [hw, hwr] at h; cases h
  · simp only [hlog]; exact hi.logMeth
  · intro u hu
    rcases mem_mid hu with rfl | hu
    · exact hok
    · have hnw := others_not_inW hi.wcount hW u hu
      exact tok_of_not_inW_inR hnw (hi.threads u (mem_mid' hu))

/-- What every successor of a micro-step inside the write section looks like. -/
structure WStepOk (c : Cfg R) (s : Shared R) (t : Thread R) (op : Op) (s' : Shared R) (t' : Thread R) : Prop where
  base : s'.base = s.base
  log : s'.log = s.log
  writer : s'.writer = s.writer
  readers : s'.readers = s.readers
  inW : inW t'.pc = true
  inR : inR t'.pc = false
  script : t'.script = t.script
  ok : WOk c s.base s'.st op t'.pc

def midW : Pc R → Bool
  | .w1 | .wHas _ | .wTree _ | .wRaw _ | .wSize _ | .wRoot => true
  | _ => false

theorem delete_of_has {s : St R} {kb : Key} (h : has s kb = true) :
    s.trie.delete kb = some { s.trie with mem := kvErase kb s.trie.mem } := by
  have : (kvGet kb s.trie.mem).isSome = true := h
  simp [Trie.delete, this]

theorem wstep_ok (c : Cfg R) (s : Shared R) (t : Thread R) (op : Op) (rest : List Op)
    (hsc : t.script = op :: rest) (hmid : midW t.pc = true) (hok : WOk c s.base s.st op t.pc)
    (s' : Shared R) (t' : Thread R) (hmem : (s', t') ∈ tstep c s t) : WStepOk c s t op s' t' := by
  unfold tstep at hmem
  simp only [hsc] at hmem
  cases hpc : t.pc with
  | idle => simp [hpc, midW] at hmid
  | wantW => simp [hpc, midW] at hmid
  | wantR => simp [hpc, midW] at hmid
  | r1 => simp [hpc, midW] at hmid
  | rDone o => simp [hpc, midW] at hmid
  | wDone o => simp [hpc, midW] at hmid
  | w1 =>
    rw [hpc] at hok
    simp only [WOk] at hok
    simp only [hpc] at hmem
    cases op with
    | set k v =>
      cases k with
      | none =>
        simp only [List.mem_singleton, Prod.mk.injEq] at hmem
        obtain ⟨e1, e2⟩ := hmem; subst s' t'
        exact ⟨rfl, rfl, rfl, rfl, rfl, rfl, hsc.symm, by simp [WOk, hok]⟩
      | some kb =>
        cases v with
        | none =>
          simp only [List.mem_singleton, Prod.mk.injEq] at hmem
          obtain ⟨e1, e2⟩ := hmem; subst s' t'
          exact ⟨rfl, rfl, rfl, rfl, rfl, rfl, hsc.symm, by simp [WOk, hok]⟩
        | some vb =>
          simp only [List.mem_singleton, Prod.mk.injEq] at hmem
          obtain ⟨e1, e2⟩ := hmem; subst s' t'
          exact ⟨rfl, rfl, rfl, rfl, rfl, rfl, hsc.symm, by simp [WOk, hok]⟩
    | del k =>
      cases k with
      | none =>
        simp only [List.mem_singleton, Prod.mk.injEq] at hmem
        obtain ⟨e1, e2⟩ := hmem; subst s' t'
        exact ⟨rfl, rfl, rfl, rfl, rfl, rfl, hsc.symm, by simp [WOk, hok]⟩
      | some kb =>
        simp only [List.mem_singleton, Prod.mk.injEq] at hmem
        obtain ⟨e1, e2⟩ := hmem; subst s' t'
        exact ⟨rfl, rfl, rfl, rfl, rfl, rfl, hsc.symm, by simp [WOk, hok]⟩
    | commit =>
      simp only [List.mem_singleton, Prod.mk.injEq] at hmem
      obtain ⟨e1, e2⟩ := hmem; subst s' t'
      exact ⟨rfl, rfl, rfl, rfl, rfl, rfl, hsc.symm, by simp [WOk, hok]⟩
    | get k =>
      simp only [List.mem_singleton, Prod.mk.injEq] at hmem
      obtain ⟨e1, e2⟩ := hmem; subst s' t'
      exact ⟨rfl, rfl, rfl, rfl, rfl, rfl, hsc.symm, by simp [WOk, hok]⟩
    | has k =>
      simp only [List.mem_singleton, Prod.mk.injEq] at hmem
      obtain ⟨e1, e2⟩ := hmem; subst s' t'
      exact ⟨rfl, rfl, rfl, rfl, rfl, rfl, hsc.symm, by simp [WOk, hok]⟩
    | size =>
      simp only [List.mem_singleton, Prod.mk.injEq] at hmem
      obtain ⟨e1, e2⟩ := hmem; subst s' t'
      exact ⟨rfl, rfl, rfl, rfl, rfl, rfl, hsc.symm, by simp [WOk, hok]⟩
    | stream n =>
      simp only [List.mem_singleton, Prod.mk.injEq] at hmem
      obtain ⟨e1, e2⟩ := hmem; subst s' t'
      exact ⟨rfl, rfl, rfl, rfl, rfl, rfl, hsc.symm, by simp [WOk, hok]⟩
    | root =>
      simp only [List.mem_singleton, Prod.mk.injEq] at hmem
      obtain ⟨e1, e2⟩ := hmem; subst s' t'
      exact ⟨rfl, rfl, rfl, rfl, rfl, rfl, hsc.symm, by simp [WOk, hok]⟩
    | restored =>
      simp only [List.mem_singleton, Prod.mk.injEq] at hmem
      obtain ⟨e1, e2⟩ := hmem; subst s' t'
      exact ⟨rfl, rfl, rfl, rfl, rfl, rfl, hsc.symm, by simp [WOk, hok]⟩
    | reopen =>
      simp only [List.mem_singleton, Prod.mk.injEq] at hmem
      obtain ⟨e1, e2⟩ := hmem; subst s' t'
      exact ⟨rfl, rfl, rfl, rfl, rfl, rfl, hsc.symm, by simp [WOk, hok]⟩
  | wHas h =>
    rw [hpc] at hok
    simp only [WOk] at hok
    obtain ⟨hst, hop⟩ := hok
    simp only [hpc] at hmem
    cases op with
    | set k v =>
      cases k with
      | none => simp at hop
      | some kb =>
        cases v with
        | none => simp at hop
        | some vb =>
          simp only [List.mem_singleton, Prod.mk.injEq] at hmem hop
          obtain ⟨e1, e2⟩ := hmem; subst s' t'
          exact ⟨rfl, rfl, rfl, rfl, rfl, rfl, hsc.symm, by simp [WOk, hop, hst]⟩
    | del k =>
      cases k with
      | none => simp at hop
      | some kb =>
        simp only at hop
        cases hh : h with
        | false =>
          simp only [hh, Bool.false_eq_true, if_false, List.mem_singleton, Prod.mk.injEq] at hmem
          obtain ⟨e1, e2⟩ := hmem; subst s' t'
          have hb : has s.base kb = false := by rw [← hop, hh]
          exact ⟨rfl, rfl, rfl, rfl, rfl, rfl, hsc.symm, by simp [WOk, hst, step, hb]⟩
        | true =>
          have hb : has s.base kb = true := by rw [← hop, hh]
          have hd := delete_of_has (s := s.st) (kb := kb) (by rw [hst]; exact hb)
          simp only [hh, if_true, hd, List.mem_singleton, Prod.mk.injEq] at hmem
          obtain ⟨e1, e2⟩ := hmem; subst s' t'
          exact ⟨rfl, rfl, rfl, rfl, rfl, rfl, hsc.symm, by simp [WOk, hst, hb]⟩
    | get k => simp at hop
    | has k => simp at hop
    | size => simp at hop
    | stream n => simp at hop
    | commit => simp at hop
    | root => simp at hop
    | restored => simp at hop
    | reopen => simp at hop
  | wTree h =>
    rw [hpc] at hok
    simp only [WOk] at hok
    simp only [hpc] at hmem
    cases op with
    | set k v =>
      cases k with
      | none => simp at hok
      | some kb =>
        cases v with
        | none => simp at hok
        | some vb =>
          simp only [List.mem_singleton, Prod.mk.injEq] at hmem hok
          obtain ⟨e1, e2⟩ := hmem; subst s' t'
          exact ⟨rfl, rfl, rfl, rfl, rfl, rfl, hsc.symm, by simp [WOk, hok.1, hok.2]⟩
    | del k =>
      cases k with
      | none => simp at hok
      | some kb =>
        simp only [List.mem_singleton, Prod.mk.injEq] at hmem hok
        obtain ⟨e1, e2⟩ := hmem; subst s' t'
        exact ⟨rfl, rfl, rfl, rfl, rfl, rfl, hsc.symm, by simp [WOk, hok.1, hok.2.1, hok.2.2]⟩
    | get k => simp at hok
    | has k => simp at hok
    | size => simp at hok
    | stream n => simp at hok
    | commit => simp at hok
    | root => simp at hok
    | restored => simp at hok
    | reopen => simp at hok
  | wRaw h =>
    rw [hpc] at hok
    simp only [WOk] at hok
    simp only [hpc] at hmem
    cases op with
    | set k v =>
      cases k with
      | none => simp at hok
      | some kb =>
        cases v with
        | none => simp at hok
        | some vb =>
          simp only at hok
          obtain ⟨hh, hst⟩ := hok
          cases hv : h with
          | true =>
            simp only [hv, if_true, List.mem_singleton, Prod.mk.injEq] at hmem
            obtain ⟨e1, e2⟩ := hmem; subst s' t'
            have hb : has s.base kb = true := by rw [← hh, hv]
            exact ⟨rfl, rfl, rfl, rfl, rfl, rfl, hsc.symm, by simp [WOk, step, hb, hst]⟩
          | false =>
            simp only [hv, Bool.false_eq_true, if_false, List.mem_singleton, Prod.mk.injEq] at hmem
            obtain ⟨e1, e2⟩ := hmem; subst s' t'
            have hb : has s.base kb = false := by rw [← hh, hv]
            exact ⟨rfl, rfl, rfl, rfl, rfl, rfl, hsc.symm, by simp [WOk, hb, hst]⟩
    | del k =>
      cases k with
      | none => simp at hok
      | some kb =>
        simp only [List.mem_singleton, Prod.mk.injEq] at hmem hok
        obtain ⟨e1, e2⟩ := hmem; subst s' t'
        exact ⟨rfl, rfl, rfl, rfl, rfl, rfl, hsc.symm, by simp [WOk, hok.2.1, hok.2.2]⟩
    | get k => simp at hok
    | has k => simp at hok
    | size => simp at hok
    | stream n => simp at hok
    | commit => simp at hok
    | root => simp at hok
    | restored => simp at hok
    | reopen => simp at hok
  | wSize n =>
    rw [hpc] at hok
    simp only [WOk] at hok
    simp only [hpc] at hmem
    cases op with
    | set k v =>
      cases k with
      | none => simp at hok
      | some kb =>
        cases v with
        | none => simp at hok
        | some vb =>
          simp only [List.mem_singleton, Prod.mk.injEq] at hmem hok
          obtain ⟨e1, e2⟩ := hmem; subst s' t'
          obtain ⟨hb, hn, hst⟩ := hok
          exact ⟨rfl, rfl, rfl, rfl, rfl, rfl, hsc.symm, by simp [WOk, step, hb, hst, hn, addSize]⟩
    | del k =>
      cases k with
      | none => simp at hok
      | some kb =>
        simp only [List.mem_singleton, Prod.mk.injEq] at hmem hok
        obtain ⟨e1, e2⟩ := hmem; subst s' t'
        obtain ⟨hb, hn, hst⟩ := hok
        have hd := delete_of_has hb
        exact ⟨rfl, rfl, rfl, rfl, rfl, rfl, hsc.symm, by simp [WOk, step, hb, hd, hst, hn, addSize]⟩
    | get k => simp at hok
    | has k => simp at hok
    | size => simp at hok
    | stream n => simp at hok
    | commit => simp at hok
    | root => simp at hok
    | restored => simp at hok
    | reopen => simp at hok
  | wRoot =>
    rw [hpc] at hok
    simp only [WOk] at hok
    obtain ⟨rfl, hst⟩ := hok
    simp only [hpc, List.mem_singleton, Prod.mk.injEq] at hmem
    obtain ⟨e1, e2⟩ := hmem; subst s' t'
    exact ⟨rfl, rfl, rfl, rfl, rfl, rfl, hsc.symm, by simp [WOk, step, hst]⟩

theorem size_of_usesReadLock {op : Op} (h : usesReadLock op = true) : op = .size := by
  cases op <;> simp [usesReadLock] at h ⊢

theorem tok_head {c : Cfg R} {sh : Shared R} {t : Thread R} {op : Op} {rest : List Op}
    (hsc : t.script = op :: rest) (hne : t.pc ≠ .idle) (h : TOk c sh t) :
    isMethod op = true ∧ WOk c sh.base sh.st op t.pc := by
  unfold TOk at h
  cases hpc : t.pc with
  | idle => exact absurd hpc hne
  | _ =>
    rw [hpc] at h
    obtain ⟨op', rest', h1, h2, h3⟩ := h
    rw [hsc] at h1
    cases h1
    exact ⟨h2, h3⟩

theorem tok_mk {c : Cfg R} {sh : Shared R} {t : Thread R} {op : Op} {rest : List Op}
    (hsc : t.script = op :: rest) (hm : isMethod op = true) (h : WOk c sh.base sh.st op t.pc) : TOk c sh t := by
  unfold TOk
  cases hpc : t.pc with
  | idle => trivial
  | _ => rw [hpc] at h; exact ⟨op, rest, hsc, hm, h⟩

theorem inv_step (c : Cfg R) (s0 : St R) {a b : Hive.Conc.Cfg (Shared R) (Thread R)}
    (hi : Inv c s0 a) (hs : Step (sys c) a b) : Inv c s0 b := by
  cases hs with
  | mk s pre t post s' t' hmem =>
    have htok := hi.threads t (by simp)
    obtain ⟨sc, pc⟩ := t
    cases sc with
    | nil => simp [sys, tstep] at hmem
    | cons op rest =>
      have hsc : (Thread.mk (op :: rest) pc).script = op :: rest := rfl
      have hwc : (pre ++ Thread.mk (op :: rest) pc :: post).countP pW = if s.writer then 1 else 0 := hi.wcount
      have hrc : (pre ++ Thread.mk (op :: rest) pc :: post).countP pR = s.readers := hi.rcount
      have hex : s.writer = true → s.readers = 0 := hi.excl
      have hq : s.writer = false → s.st = s.base := hi.quiet
      by_cases hmid : midW pc = true
      · -- a micro-step inside the write section
        have hne : (Thread.mk (op :: rest) pc).pc ≠ .idle := by
          intro e; simp only at e; rw [e] at hmid; simp [midW] at hmid
        obtain ⟨hm, hok⟩ := tok_head hsc hne htok
        have hw := wstep_ok c s _ op rest hsc hmid hok s' t' hmem
        have hW : inW pc = true := by cases pc <;> simp_all [midW, inW]
        have hR : inR pc = false := by cases pc <;> simp_all [midW, inR]
        refine inv_writer c s0 hi hW hw.inW hR hw.inR hw.base hw.log hw.writer hw.readers ?_
        apply tok_mk (hw.script.trans hsc) hm
        rw [hw.base]; exact hw.ok
      · simp only [sys, tstep] at hmem
        cases pc with
        | w1 => simp [midW] at hmid
        | wHas h => simp [midW] at hmid
        | wTree h => simp [midW] at hmid
        | wRaw h => simp [midW] at hmid
        | wSize n => simp [midW] at hmid
        | wRoot => simp [midW] at hmid
        | idle =>
          cases hm : isMethod op with
          | false => simp [hm] at hmem
          | true =>
            cases hu : usesReadLock op with
            | true =>
              simp only [hm, hu, Bool.not_true, Bool.false_eq_true, if_false, if_true, List.mem_singleton, Prod.mk.injEq] at hmem
              obtain ⟨e1, e2⟩ := hmem; subst s' t'
              refine inv_light c s0 hi rfl rfl rfl rfl rfl rfl rfl hi.excl ?_
              exact tok_mk (t := ⟨op :: rest, .wantR⟩) rfl hm (size_of_usesReadLock hu)
            | false =>
              simp only [hm, hu, Bool.not_true, Bool.false_eq_true, if_false, List.mem_singleton, Prod.mk.injEq] at hmem
              obtain ⟨e1, e2⟩ := hmem; subst s' t'
              refine inv_light c s0 hi rfl rfl rfl rfl rfl rfl rfl hi.excl ?_
              exact tok_mk (t := ⟨op :: rest, .wantW⟩) rfl hm trivial
        | wantR =>
          obtain ⟨hm, hok⟩ := tok_head hsc (by simp) htok
          cases hwr : s.writer with
          | true => simp [hwr] at hmem
          | false =>
            simp only [hwr, Bool.false_eq_true, if_false, List.mem_singleton, Prod.mk.injEq] at hmem
            obtain ⟨e1, e2⟩ := hmem; subst s' t'
            refine inv_light c s0 hi rfl rfl rfl hwr.symm rfl rfl ?_ ?_ ?_
            · show s.readers + 1 + 0 = s.readers + 1; omega
            · intro h; cases h
            · exact tok_mk (t := ⟨op :: rest, .r1⟩) rfl hm hok
        | r1 =>
          obtain ⟨hm, hok⟩ := tok_head hsc (by simp) htok
          have hop : op = .size := hok
          subst hop
          simp only [List.mem_singleton, Prod.mk.injEq] at hmem
          obtain ⟨e1, e2⟩ := hmem; subst s' t'
          have hpos : 0 < s.readers := readers_pos_of_inR hi (t := ⟨Op.size :: rest, .r1⟩) rfl
          have hwf : s.writer = false := by
            cases hw : s.writer with
            | false => rfl
            | true => have := hex hw; omega
          have hst := hq hwf
          have hsw := countP_swap pW pre post ⟨Op.size :: rest, .r1⟩ ⟨Op.size :: rest, .rDone (step c s.st .size).2⟩
            false false rfl rfl
          have hsr := countP_swap pR pre post ⟨Op.size :: rest, .r1⟩ ⟨Op.size :: rest, .rDone (step c s.st .size).2⟩
            true true rfl rfl
          simp only [Bool.false_eq_true, if_false, Nat.add_zero] at hsw
          simp only [if_true, Nat.add_right_cancel_iff] at hsr
          constructor
          · show List.countP pW (pre ++ _ :: post) = if s.writer then 1 else 0
            rw [hsw]; exact hwc
          · show List.countP pR (pre ++ _ :: post) = s.readers
            rw [hsr]; exact hrc
          · exact hex
          · show run c s0 (logOps (s.log ++ [(Op.size, (step c s.st .size).2)])) =
              (s.base, logOuts (s.log ++ [(Op.size, (step c s.st .size).2)]))
            rw [hst]
            have := logrun_snoc hi.logrun .size
            simpa [step] using this
          · exact hq
          · intro e he
            have he' : e ∈ s.log ++ [(Op.size, (step c s.st .size).2)] := he
            simp only [List.mem_append, List.mem_singleton] at he'
            rcases he' with he' | he'
            · exact hi.logMeth e he'
            · subst he'; rfl
          · intro u hu
            rcases mem_mid hu with rfl | hu
            · exact tok_mk (t := ⟨Op.size :: rest, .rDone (step c s.st .size).2⟩) rfl hm rfl
            · exact tok_congr rfl rfl (hi.threads u (mem_mid' hu))
        | rDone o =>
          simp only [List.mem_singleton, Prod.mk.injEq] at hmem
          obtain ⟨e1, e2⟩ := hmem; subst s' t'
          have hpos : 0 < s.readers := readers_pos_of_inR hi (t := ⟨op :: rest, .rDone o⟩) rfl
          refine inv_light c s0 hi rfl rfl rfl rfl rfl rfl ?_ ?_ trivial
          · show s.readers - 1 + 1 = s.readers + 0; omega
          · intro h
            have h0 : s.readers = 0 := hex h
            omega
        | wantW =>
          obtain ⟨hm, _⟩ := tok_head hsc (by simp) htok
          cases hcond : (s.writer || s.readers != 0) with
          | true => simp [hcond] at hmem
          | false =>
            simp only [hcond, Bool.false_eq_true, if_false, List.mem_singleton, Prod.mk.injEq] at hmem
            obtain ⟨e1, e2⟩ := hmem; subst s' t'
            simp only [Bool.or_eq_false_iff, bne_eq_false_iff_eq] at hcond
            obtain ⟨hwf, hr0⟩ := hcond
            have hsw := countP_swap pW pre post ⟨op :: rest, .wantW⟩ ⟨op :: rest, .w1⟩ false true rfl rfl
            have hsr := countP_swap pR pre post ⟨op :: rest, .wantW⟩ ⟨op :: rest, .w1⟩ false false rfl rfl
            rw [hwf] at hwc
            simp only [Bool.false_eq_true, if_false, Nat.add_zero, if_true] at hsw hsr hwc
            constructor
            · show List.countP pW (pre ++ _ :: post) = if true then 1 else 0
              simp only [if_true]; omega
            · show List.countP pR (pre ++ _ :: post) = s.readers
              rw [hsr]; exact hrc
            · intro _; exact hr0
            · exact hi.logrun
            · intro h; cases h
            · exact hi.logMeth
            · intro u hu
              rcases mem_mid hu with rfl | hu
              · exact tok_mk (t := ⟨op :: rest, .w1⟩) rfl hm (hq hwf)
              · exact tok_congr rfl rfl (hi.threads u (mem_mid' hu))
        | wDone o =>
          obtain ⟨hm, hok⟩ := tok_head hsc (by simp) htok
          have hst : s.st = (step c s.base op).1 := hok.1
          have ho : o = (step c s.base op).2 := hok.2
          simp only [List.mem_singleton, Prod.mk.injEq] at hmem
          obtain ⟨e1, e2⟩ := hmem; subst s' t'
          have hW : inW (Thread.mk (op :: rest) (.wDone o)).pc = true := rfl
          have hwr := writer_of_inW hi hW
          have hsw := countP_swap pW pre post ⟨op :: rest, .wDone o⟩ ⟨rest, .idle⟩ true false rfl rfl
          have hsr := countP_swap pR pre post ⟨op :: rest, .wDone o⟩ ⟨rest, .idle⟩ false false rfl rfl
          rw [hwr] at hwc
          simp only [Bool.false_eq_true, if_false, Nat.add_zero, if_true] at hsw hsr hwc
          constructor
          · show List.countP pW (pre ++ _ :: post) = if false then 1 else 0
            simp only [Bool.false_eq_true, if_false]; omega
          · show List.countP pR (pre ++ _ :: post) = s.readers
            rw [hsr]; exact hrc
          · intro h; cases h
          · show run c s0 (logOps (s.log ++ [(op, o)])) = (s.st, logOuts (s.log ++ [(op, o)]))
            rw [hst, ho]; exact logrun_snoc hi.logrun op
          · intro _; rfl
          · intro e he
            have he' : e ∈ s.log ++ [(op, o)] := he
            simp only [List.mem_append, List.mem_singleton] at he'
            rcases he' with he' | he'
            · exact hi.logMeth e he'
            · subst he'; exact hm
          · intro u hu
            rcases mem_mid hu with rfl | hu
            · trivial
            · have hnw := others_not_inW hi.wcount hW u hu
              exact tok_of_not_inW_inR hnw (hi.threads u (mem_mid' hu))

theorem inv_reach (c : Cfg R) (s0 : St R) (scripts : List (List Op))
    {cf : Hive.Conc.Cfg (Shared R) (Thread R)} (hr : Reach (sys c) (init s0, scripts.map start) cf) :
    Inv c s0 cf :=
  inv_induction (Inv c s0) (inv_init c s0 scripts) (fun _ _ h hs => inv_step c s0 h hs) hr

/-- A history without `reopen` is clean. -/
theorem cleanFrom_of_methods (c : Cfg R) (s : St R) (ops : List Op) (h : ∀ op ∈ ops, isMethod op = true) :
    CleanFrom c s ops := by
  induction ops generalizing s with
  | nil => trivial
  | cons op ops ih =>
    refine ⟨fun e => ?_, ih _ (fun o ho => h o (List.mem_cons_of_mem _ ho))⟩
    have := h op (by simp)
    rw [e] at this; simp [isMethod] at this

/-- A value found in the plain map was put there by a `Set` of the history. -/
theorem spec_foldl_some (ops : List Op) (m : Spec.SMap) (k : Key) (v : Val)
    (h : (ops.foldl Spec.apply m) k = some v) : m k = some v ∨ Op.set (some k) (some v) ∈ ops := by
  induction ops generalizing m with
  | nil => exact Or.inl h
  | cons op ops ih =>
    rcases ih (Spec.apply m op) h with h' | h'
    · cases op with
      | set k' v' =>
        cases k' with
        | none => exact Or.inl h'
        | some kb =>
          cases v' with
          | none => exact Or.inl h'
          | some vb =>
            simp only [Spec.apply, Spec.put] at h'
            by_cases e : k = kb
            · subst e
              simp at h'
              subst h'
              exact Or.inr (by simp)
            · simp [e] at h'; exact Or.inl h'
      | del k' =>
        cases k' with
        | none => exact Or.inl h'
        | some kb =>
          simp only [Spec.apply, Spec.remove] at h'
          by_cases e : k = kb
          · simp [e] at h'
          · simp [e] at h'; exact Or.inl h'
      | get _ => exact Or.inl h'
      | has _ => exact Or.inl h'
      | size => exact Or.inl h'
      | stream _ => exact Or.inl h'
      | commit => exact Or.inl h'
      | root => exact Or.inl h'
      | restored => exact Or.inl h'
      | reopen => exact Or.inl h'
    · exact Or.inr (List.mem_cons_of_mem _ h')

theorem run_length (c : Cfg R) (s : St R) (ops : List Op) : (run c s ops).2.length = ops.length := by
  induction ops generalizing s with
  | nil => rfl
  | cons op ops ih => simp [run, ih]

end Hive.Ads.Conc
