import Hive.Proofs.TimedProg
/-!
# All three invariants hold in every reachable configuration; the progress argument
-/
namespace Hive.Timed
open Hive.Conc

/-- Initial pools: idle workers, controllers at the start of their scripts, tickers; at least one worker. -/
def InitPool (ts : List Th) : Prop := (∀ t ∈ ts, t.isInitial = true) ∧ Th.idle ∈ ts

structure AllInv (c : Cfg Sh Th) : Prop where
  i1 : Inv c.1 c.2
  i2 : Inv2 c.1 c.2
  ip : InvP c.1 c.2

theorem init_class {ts : List Th} (h : ∀ t ∈ ts, t.isInitial = true) (f : Th → Nat)
    (hf : ∀ t, t.isInitial = true → f t = 0) : tsum f ts = 0 :=
  tsum_zero (fun t ht => hf t (h t ht))

theorem inv2_init (maxSize : Nat) (ts : List Th) (hts : ∀ t ∈ ts, t.isInitial = true) :
    Inv2 (initCfg maxSize ts).1 (initCfg maxSize ts).2 := by
  constructor
  · intro e he; simp [initCfg] at he
  · intro t ht e he
    have := hts t (by simpa [initCfg] using ht)
    cases t <;> simp_all [Th.isInitial, Th.held]
  · intro t ht i hp
    have := hts t (by simpa [initCfg] using ht)
    cases t with
    | ctl pc script => cases pc <;> simp_all [Th.isInitial, Th.pend]
    | _ => simp_all [Th.isInitial, Th.pend]
  · have : tsum execPc ts = 0 := init_class hts execPc (by
      intro t ht
      cases t with
      | ctl pc script => cases pc <;> simp_all [Th.isInitial, execPc, Th.pend]
      | _ => simp_all [Th.isInitial, execPc, Th.pend])
    simpa [initCfg] using this
  · intro i x hx; simp [initCfg, regGet] at hx
  · intro hc; simp [initCfg] at hc
  · intro t ht hp
    have := hts t (by simpa [initCfg] using ht)
    cases t with
    | ctl pc script => cases pc <;> simp_all [Th.isInitial, Th.sdPend]
    | _ => simp_all [Th.isInitial, Th.sdPend]

theorem invP_init (maxSize : Nat) (ts : List Th) (hts : InitPool ts) :
    InvP (initCfg maxSize ts).1 (initCfg maxSize ts).2 := by
  obtain ⟨h1, h2⟩ := hts
  have hp : tsum isParked ts = 0 := init_class h1 isParked (by intro t ht; cases t <;> simp_all [Th.isInitial, isParked])
  have hx : tsum isExited ts = 0 := init_class h1 isExited (by intro t ht; cases t <;> simp_all [Th.isInitial, isExited])
  constructor
  · simp [initCfg]
  · simpa [initCfg] using hp.symm
  · intro h0; simp [initCfg] at h0
  · intro _; exact hx
  · intro h0; simp [initCfg] at h0
  · intro h0; simp [initCfg] at h0
  · have := tsum_ge (f := isWk) h2
    simp only [isWk, isActive, isParked, isExited] at this
    show 0 < tsum isWk ts
    omega

theorem all_init (maxSize : Nat) (ts : List Th) (hts : InitPool ts) : AllInv (initCfg maxSize ts) :=
  ⟨inv_init maxSize ts hts.1, inv2_init maxSize ts hts.1, invP_init maxSize ts hts⟩

theorem all_step {a b : Cfg Sh Th} (h : AllInv a) (st : Step sys a b) : AllInv b := by
  obtain ⟨s, l, t, r, s', t', rfl, rfl, tr⟩ := Step.tr st
  exact ⟨inv_tr h.i1 tr, inv2_tr h.i1 h.i2 tr, invP_tr h.i2 h.ip tr⟩

theorem all_reach {maxSize : Nat} {ts : List Th} (hts : InitPool ts) {c : Cfg Sh Th}
    (hr : Reach sys (initCfg maxSize ts) c) : AllInv c :=
  inv_induction AllInv (all_init maxSize ts hts) (fun _ _ h st => all_step h st) hr

/-! ## progress -/

/-- The thread waits only for the clock. -/
def TimerWait : Th → Prop
  | .sel _ => True
  | .selSD _ => True
  | _ => False

/-- The thread waits for the harness: parked in the `verif` hook, or inside a callback that blocks
on a channel the harness controls (the callback cannot move although the identifier map is free). -/
def HarnessWait (s : Sh) : Th → Prop
  | .hk e => e.tag ∉ s.released
  | .cb e k => s.regLocked = false ∧ step s (.cb e k) = []
  | _ => False

/-- A goroutine of the queue/executor itself (not the environment script, not the clock). -/
def Internal (t : Th) : Prop := 0 < isWk t ∨ 0 < sdN t ∨ t.pend.isSome = true

/-- `t` is on its way: it can take a step now, or it waits only for the clock or for the harness. -/
def OnItsWay (s : Sh) (t : Th) : Prop := Internal t ∧ (step s t ≠ [] ∨ TimerWait t ∨ HarnessWait s t)

/-- Whoever holds the identifier map's mutex can finish its `ExecuteAt`. -/
theorem lock_holder_moves {s : Sh} {ts : List Th} (h2 : Inv2 s ts) (hl : s.regLocked = true) :
    ∃ t ∈ ts, OnItsWay s t := by
  have h1 := h2.lkc
  rw [hl] at h1
  simp only [if_true] at h1
  obtain ⟨t, ht, hp⟩ := tsum_pos (f := execPc) (ts := ts) (by rw [h1]; exact Nat.one_pos)
  refine ⟨t, ht, ?_⟩
  have hpend : t.pend.isSome = true := by
    unfold execPc at hp; split at hp
    · assumption
    · exact absurd hp (Nat.lt_irrefl 0)
  refine ⟨Or.inr (Or.inr hpend), Or.inl ?_⟩
  cases t with
  | ctl pc script =>
    cases pc <;> simp_all [Th.pend, step, ctlStep]
  | cb e k =>
    match k with
    | 1 =>
      simp only [Th.pend] at hpend
      split at hpend
      · rename_i due blk tag i hk hi
        simp [step, workerStep, hk, hi]
      · simp at hpend
    | 0 => simp [Th.pend] at hpend
    | k + 2 => simp [Th.pend] at hpend
  | _ => simp [Th.pend] at hpend

/-- An active worker is on its way, or waits for the map's mutex, whose holder is on its way. -/
theorem active_moves {s : Sh} {ts : List Th} (h2 : Inv2 s ts) {t : Th} (ht : t ∈ ts) (ha : 0 < isActive t) :
    ∃ u ∈ ts, OnItsWay s u := by
  have hint : Internal t := Or.inl (by unfold isWk; omega)
  cases hl : s.regLocked with
  | true => exact lock_holder_moves h2 hl
  | false =>
    refine ⟨t, ht, hint, ?_⟩
    cases t with
    | idle =>
      left
      simp only [step, workerStep]
      cases Heap.pop s.heap with
      | none => cases s.isShutdown <;> simp
      | some p => simp
    | hk e =>
      by_cases hr : e.tag ∈ s.released
      · left; simp [step, workerStep, hr]
      · right; right; exact hr
    | sel e => right; left; trivial
    | selSD e => right; left; trivial
    | chk e =>
      left
      simp only [step, workerStep]
      split <;> simp
    | wrap e =>
      left
      simp only [step, workerStep]
      cases e.id with
      | none => simp
      | some i =>
        simp only [hl, Bool.false_eq_true, if_false]
        split <;> simp
    | cb e k =>
      by_cases hs : step s (.cb e k) = []
      · right; right; exact ⟨hl, hs⟩
      · left; exact hs
    | parked => simp [isActive] at ha
    | exited => simp [isActive] at ha
    | ctl pc script => simp [isActive] at ha
    | ticker => simp [isActive] at ha

/-- **Progress.** With at least one worker, whenever an element is waiting in the heap or is held
by a poller, some goroutine of the executor can take a step, or waits only for the clock or for the
harness. -/
theorem progress {c : Cfg Sh Th} (h : AllInv c)
    (hpend : c.1.heap ≠ [] ∨ ∃ t ∈ c.2, ∃ e, t = .hk e ∨ t = .sel e ∨ t = .selSD e ∨ t = .chk e) :
    ∃ t ∈ c.2, OnItsWay c.1 t := by
  obtain ⟨s, ts⟩ := c
  obtain ⟨i1, i2, ip⟩ := h
  simp only at *
  rcases hpend with hne | ⟨t, ht, e, hte⟩
  · have hlen : 0 < s.heap.length := by
      cases hh : s.heap with
      | nil => exact absurd hh hne
      | cons a l => simp
    rcases ip.p2 hlen with hw | ⟨_, hsd⟩
    · by_cases hwk : 0 < s.wake
      · -- a notified waiter
        have : 0 < tsum isParked ts := by have := ip.p1a; have := ip.p1b; omega
        obtain ⟨t, ht, hp⟩ := tsum_pos this
        refine ⟨t, ht, Or.inl (by unfold isWk; omega), Or.inl ?_⟩
        cases t <;> simp_all [isParked, step, workerStep]
      · have : 0 < tsum isActive ts := by omega
        obtain ⟨t, ht, hp⟩ := tsum_pos this
        exact active_moves i2 ht hp
    · obtain ⟨t, ht, hp⟩ := tsum_pos hsd
      refine ⟨t, ht, Or.inr (Or.inl hp), Or.inl ?_⟩
      cases t with
      | ctl pc script => cases pc <;> simp_all [sdN, step, ctlStep]
      | _ => simp [sdN] at hp
  · have ha : 0 < isActive t := by
      rcases hte with rfl | rfl | rfl | rfl <;> simp [isActive]
    exact active_moves i2 ht ha

/-- After `Shutdown` has gone through its last step, every goroutine in `waitCond.Wait()` has been
notified. -/
theorem shutdown_wakes {c : Cfg Sh Th} (h : AllInv c) (hs : c.1.isShutdown = true) (hsd : tsum sdN c.2 = 0) :
    ∀ t ∈ c.2, t = .parked → step c.1 t ≠ [] := by
  intro t ht hp
  subst hp
  have h1 := h.ip.p6 hs hsd
  have h2 := h.ip.p1b
  have h3 := tsum_ge (f := isParked) ht
  simp only [isParked] at h3
  have : 0 < c.1.wake := by omega
  simp [step, workerStep, this]

end Hive.Timed
