import Hive.Model.EventsOMap
/-!
# The pointer-level ordered map keeps a well-formed doubly linked list (all histories)

`WF m as`: the addresses `as` (pairwise different) are the list of `m` — `head`/`tail` are its ends, the
`next`/`prev` pointers of its elements are the successor / predecessor in `as`, the dictionary maps exactly
the keys of these elements to them, `size` is its length.  Every operation preserves it (`WF_set`,
`WF_delete`, `WF_clear`); elements outside the list are never written again (`frozen_*`).
-/
set_option linter.unusedSimpArgs false
namespace Hive.EventsOMap

/-! ## successor / predecessor in a list of addresses -/

def succ : List Nat → Nat → Option Nat
  | x :: y :: r, a => if x = a then some y else succ (y :: r) a
  | _, _ => none

def pred : List Nat → Nat → Option Nat
  | x :: y :: r, a => if y = a then some x else pred (y :: r) a
  | _, _ => none

theorem succ_mem {as : List Nat} {a b : Nat} (h : succ as a = some b) : a ∈ as ∧ b ∈ as := by
  fun_induction succ as a <;> grind

theorem pred_mem {as : List Nat} {a b : Nat} (h : pred as a = some b) : a ∈ as ∧ b ∈ as := by
  fun_induction pred as a <;> grind

theorem succ_not_mem {as : List Nat} {a : Nat} (h : a ∉ as) : succ as a = none := by
  fun_induction succ as a <;> grind

theorem pred_not_mem {as : List Nat} {a : Nat} (h : a ∉ as) : pred as a = none := by
  fun_induction pred as a <;> grind

/-- Removing `a`: the predecessor of `a` gets `a`'s successor, nothing else changes. -/
theorem succ_filter {as : List Nat} {a b : Nat} (hn : as.Nodup) (hb : b ≠ a) :
    succ (as.filter (· != a)) b = if pred as a = some b then succ as a else succ as b := by
  induction as with
  | nil => simp [succ, pred]
  | cons x rest ih =>
    cases rest with
    | nil => by_cases hx : x = a <;> simp [succ, pred, List.filter_cons, hx]
    | cons y r =>
      have hfr : a ∉ r → r.filter (· != a) = r := by
        intro h; apply List.filter_eq_self.mpr; intro z hz; simp; intro hza; exact h (hza ▸ hz)
      rw [List.nodup_cons] at hn
      obtain ⟨hx, hn'⟩ := hn
      have ih := ih hn'
      rw [List.nodup_cons] at hn'
      by_cases hxa : x = a
      · subst hxa
        have hya : y ≠ x := by grind
        have har : x ∉ r := by grind
        have : (x :: y :: r).filter (· != x) = y :: r := by simp [List.filter_cons, hya, hfr har]
        rw [this]
        have hp : pred (y :: r) x = none := pred_not_mem (by grind)
        simp [succ, pred, hya, hp, Ne.symm hb]
      · by_cases hya : y = a
        · subst hya
          have har : y ∉ r := by grind
          have : (x :: y :: r).filter (· != y) = x :: r := by simp [List.filter_cons, hxa, hfr har]
          rw [this]
          cases r with
          | nil => by_cases hxb : x = b <;> simp [succ, pred, hxa, hxb, Ne.symm hb] <;> grind
          | cons z r' => by_cases hxb : x = b <;> simp [succ, pred, hxa, hxb, Ne.symm hb] <;> grind
        · have : (x :: y :: r).filter (· != a) = x :: y :: r.filter (· != a) := by simp [List.filter_cons, hxa, hya]
          rw [this]
          have ih' : succ (y :: r.filter (· != a)) b = if pred (y :: r) a = some b then succ (y :: r) a else succ (y :: r) b := by
            rw [← ih]; simp [List.filter_cons, hya]
          by_cases hxb : x = b
          · subst hxb
            have : pred (y :: r) a ≠ some x := by
              intro h; have := (pred_mem h).2; grind
            simp [succ, pred, hxa, hya, this]
          · simp [succ, pred, hxa, hya, hxb, ih']

theorem nodup_reverse {l : List Nat} (h : l.Nodup) : l.reverse.Nodup := by
  unfold List.Nodup at *
  rw [List.pairwise_reverse]
  exact h.imp (fun h => Ne.symm h)

theorem nodup_filter {l : List Nat} (p : Nat → Bool) (h : l.Nodup) : (l.filter p).Nodup := by
  unfold List.Nodup at *
  exact h.filter p

theorem succ_cons (x : Nat) (l : List Nat) (a : Nat) : succ (x :: l) a = if x = a then l.head? else succ l a := by
  cases l <;> simp [succ]

theorem pred_cons (x : Nat) (l : List Nat) (a : Nat) : pred (x :: l) a = if l.head? = some a then some x else pred l a := by
  cases l <;> simp [pred]

/-- Appending `n` behind the tail: the old tail gets `n` as its successor. -/
theorem succ_snoc {l : List Nat} (n b : Nat) (hn : l.Nodup) :
    succ (l ++ [n]) b = if l.getLast? = some b then some n else succ l b := by
  induction l with
  | nil => simp [succ]
  | cons x l' ih =>
    rw [List.nodup_cons] at hn
    have ih := ih hn.2
    rw [List.cons_append, succ_cons, ih, succ_cons]
    cases l' with
    | nil => simp [succ]
    | cons y r =>
      have hl : (x :: y :: r).getLast? = (y :: r).getLast? := by simp [List.getLast?_cons_cons]
      rw [hl]
      by_cases hxb : x = b
      · subst hxb
        have : (y :: r).getLast? ≠ some x := by
          intro h; exact hn.1 (List.mem_of_getLast? h)
        simp [this]
      · simp [hxb]

theorem pred_eq_succ_reverse {l : List Nat} (a : Nat) (hn : l.Nodup) : pred l a = succ l.reverse a := by
  induction l with
  | nil => simp [succ, pred]
  | cons x l' ih =>
    rw [List.nodup_cons] at hn
    rw [List.reverse_cons, succ_snoc _ _ (nodup_reverse hn.2), pred_cons, ih hn.2]
    simp [List.getLast?_reverse]

theorem succ_eq_pred_reverse {l : List Nat} (a : Nat) (hn : l.Nodup) : succ l a = pred l.reverse a := by
  rw [pred_eq_succ_reverse a (nodup_reverse hn), List.reverse_reverse]

theorem pred_snoc {l : List Nat} (n b : Nat) (hn : (l ++ [n]).Nodup) :
    pred (l ++ [n]) b = if n = b then l.getLast? else pred l b := by
  have hl : l.Nodup := (List.nodup_append.mp hn).1
  rw [pred_eq_succ_reverse b hn, List.reverse_append, List.reverse_singleton, List.singleton_append, succ_cons,
    pred_eq_succ_reverse b hl]
  simp [List.head?_reverse]

theorem pred_filter {as : List Nat} {a b : Nat} (hn : as.Nodup) (hb : b ≠ a) :
    pred (as.filter (· != a)) b = if succ as a = some b then pred as a else pred as b := by
  have hr : as.reverse.Nodup := nodup_reverse hn
  rw [pred_eq_succ_reverse b (nodup_filter _ hn), ← List.filter_reverse, succ_filter hr hb,
    ← succ_eq_pred_reverse a hn, ← pred_eq_succ_reverse a hn, ← pred_eq_succ_reverse b hn]

theorem filter_ne_self {l : List Nat} {a : Nat} (h : a ∉ l) : l.filter (· != a) = l := by
  apply List.filter_eq_self.mpr
  intro z hz
  simp only [bne_iff_ne, ne_eq]
  intro hza
  exact h (hza ▸ hz)

theorem pred_isSome {x : Nat} {l : List Nat} {a : Nat} (h : a ∈ l) : pred (x :: l) a ≠ none := by
  induction l generalizing x with
  | nil => simp at h
  | cons y r ih =>
    rw [pred_cons]
    by_cases hy : y = a
    · simp [hy]
    · have : a ∈ r := by simpa [Ne.symm hy] using h
      simp [hy, ih this]

theorem head_filter {as : List Nat} {a : Nat} (hn : as.Nodup) (ha : a ∈ as) :
    (as.filter (· != a)).head? = if pred as a = none then succ as a else as.head? := by
  cases as with
  | nil => simp at ha
  | cons x rest =>
    rw [List.nodup_cons] at hn
    by_cases hx : x = a
    · subst hx
      have hp : pred (x :: rest) x = none := by
        rw [pred_cons, pred_not_mem hn.1]
        have : rest.head? ≠ some x := fun h => hn.1 (List.mem_of_head? h)
        simp [this]
      simp [List.filter_cons, filter_ne_self hn.1, hp, succ_cons]
    · have har : a ∈ rest := by simpa [Ne.symm hx] using ha
      simp [List.filter_cons, hx, pred_isSome har]

theorem getLast_filter {as : List Nat} {a : Nat} (hn : as.Nodup) (ha : a ∈ as) :
    (as.filter (· != a)).getLast? = if succ as a = none then pred as a else as.getLast? := by
  rw [← List.head?_reverse, ← List.filter_reverse, head_filter (nodup_reverse hn) (List.mem_reverse.mpr ha),
    ← succ_eq_pred_reverse a hn, ← pred_eq_succ_reverse a hn, List.head?_reverse]

theorem length_filter_ne {as : List Nat} {a : Nat} (hn : as.Nodup) (ha : a ∈ as) :
    (as.filter (· != a)).length + 1 = as.length := by
  induction as with
  | nil => simp at ha
  | cons x rest ih =>
    rw [List.nodup_cons] at hn
    by_cases hx : x = a
    · subst hx; simp [List.filter_cons, filter_ne_self hn.1]
    · have har : a ∈ rest := by simpa [Ne.symm hx] using ha
      simp [List.filter_cons, hx, ih hn.2 har]

/-! ## heap and dictionary access -/

theorem getElem?_modify (h : List Elem) (a b : Nat) (f : Elem → Elem) :
    (modify h a f)[b]? = if a = b then (h[b]?).map f else h[b]? := by
  unfold modify
  cases ha : h[a]? with
  | none => by_cases hab : a = b <;> simp [hab] <;> (subst hab; simp [ha])
  | some e =>
    by_cases hab : a = b
    · subst hab
      have hlt : a < h.length := by
        rcases Nat.lt_or_ge a h.length with hlt | hge
        · exact hlt
        · have := List.getElem?_eq_none_iff.mpr hge; simp [ha] at this
      have he : h[a] = e := by
        have := List.getElem?_eq_getElem hlt; rw [ha] at this; exact (Option.some.inj this).symm
      simp [List.getElem?_set, hlt, he]
    · simp [List.getElem?_set, hab]

theorem length_modify (h : List Elem) (a : Nat) (f : Elem → Elem) : (modify h a f).length = h.length := by
  unfold modify; cases h[a]? <;> simp

theorem lookup_filter (m : OM) (k k' : Nat) :
    ((m.dict.filter (fun p => p.1 != k)).find? (fun p => p.1 == k')).map (·.2) = if k' = k then none else lookup m k' := by
  unfold lookup
  rw [List.find?_filter]
  by_cases h : k' = k
  · subst h
    have : (m.dict.find? (fun p => (p.1 != k' && p.1 == k'))) = none := by
      apply List.find?_eq_none.mpr; intro p _; simp
    simp [this]
  · have : (fun a : Nat × Nat => decide ((a.1 != k) = true ∧ (a.1 == k') = true)) = (fun p => p.1 == k') := by
      funext p; by_cases hp : p.1 = k' <;> simp [hp, h]
    rw [this]; simp [h]

theorem lookup_append (m : OM) (k n k' : Nat) (hk : lookup m k = none) :
    ((m.dict ++ [(k, n)]).find? (fun p => p.1 == k')).map (·.2) = if k' = k then some n else lookup m k' := by
  unfold lookup at *
  rw [List.find?_append]
  by_cases h : k' = k
  · subst h
    have : m.dict.find? (fun p => p.1 == k') = none := by simpa using hk
    simp [this]
  · cases hf : m.dict.find? (fun p => p.1 == k') <;> simp [h, Ne.symm h]

/-! ## the invariant -/

structure WF (m : OM) (as : List Nat) : Prop where
  nodup : as.Nodup
  bound : ∀ a ∈ as, a < m.heap.length
  head : m.head = as.head?
  tail : m.tail = as.getLast?
  next : ∀ a ∈ as, nextOf m a = succ as a
  prev : ∀ a ∈ as, prevOf m a = pred as a
  dsound : ∀ k a, lookup m k = some a → a ∈ as ∧ keyOf m a = some k
  dcompl : ∀ a ∈ as, ∃ k, keyOf m a = some k ∧ lookup m k = some a
  size : m.size = as.length

theorem WF_empty : WF OM.empty [] := by
  constructor <;> simp [OM.empty, lookup, succ, pred]

theorem WF_clear {m : OM} {as : List Nat} (_h : WF m as) : WF (clear m) [] := by
  constructor <;> simp [clear, lookup]

theorem getElem_of_bound {m : OM} {a : Nat} (h : a < m.heap.length) : ∃ e, m.heap[a]? = some e :=
  ⟨m.heap[a], List.getElem?_eq_getElem h⟩

/-- `Set` of a key that is in the dictionary: only the value of its element changes. -/
theorem WF_set_existing {m : OM} {as : List Nat} (h : WF m as) {k a : Nat} (v : Nat) (hl : lookup m k = some a) :
    WF (set m k v).1 as := by
  obtain ⟨e, he⟩ := getElem_of_bound (h.bound a (h.dsound k a hl).1)
  have hset : (set m k v).1 = { m with heap := m.heap.set a { e with value := v } } := by
    unfold set; simp [hl, he]
  rw [hset]
  have hget : ∀ b, (m.heap.set a { e with value := v })[b]? =
      if a = b then some { e with value := v } else m.heap[b]? := by
    intro b
    by_cases hab : a = b
    · subst hab
      have hlt : a < m.heap.length := h.bound a (h.dsound k a hl).1
      simp [List.getElem?_set, hlt]
    · simp [List.getElem?_set, hab]
  have hn : ∀ b, nextOf { m with heap := m.heap.set a { e with value := v } } b = nextOf m b := by
    intro b; unfold nextOf; simp only [hget]; by_cases hab : a = b <;> simp [hab]; subst hab; simp [he]
  have hp : ∀ b, prevOf { m with heap := m.heap.set a { e with value := v } } b = prevOf m b := by
    intro b; unfold prevOf; simp only [hget]; by_cases hab : a = b <;> simp [hab]; subst hab; simp [he]
  have hk : ∀ b, keyOf { m with heap := m.heap.set a { e with value := v } } b = keyOf m b := by
    intro b; unfold keyOf; simp only [hget]; by_cases hab : a = b <;> simp [hab]; subst hab; simp [he]
  exact {
    nodup := h.nodup
    bound := by intro b hb; simpa using h.bound b hb
    head := h.head
    tail := h.tail
    next := by intro b hb; rw [hn]; exact h.next b hb
    prev := by intro b hb; rw [hp]; exact h.prev b hb
    dsound := by intro k' b hl'; rw [hk]; exact h.dsound k' b hl'
    dcompl := by intro b hb; rw [hk]; exact h.dcompl b hb
    size := h.size }

/-- `Set` of a new key: a new element behind the tail. -/
theorem WF_set_new {m : OM} {as : List Nat} (h : WF m as) {k : Nat} (v : Nat) (hl : lookup m k = none) :
    WF (set m k v).1 (as ++ [m.heap.length]) := by
  have hfresh : m.heap.length ∉ as := fun hm => Nat.lt_irrefl _ (h.bound _ hm)
  have hnd : (as ++ [m.heap.length]).Nodup := by
    rw [List.nodup_append]
    refine ⟨h.nodup, by simp, ?_⟩
    intro a ha b hb
    simp only [List.mem_singleton] at hb
    subst hb
    intro hab; exact hfresh (hab ▸ ha)
  cases has : as with
  | nil =>
    have hh : m.head = none := by rw [h.head, has]; rfl
    have hset : (set m k v).1 =
        { heap := m.heap ++ [{ key := k, value := v, prev := none, next := none }],
          head := some m.heap.length, tail := some m.heap.length, dict := m.dict ++ [(k, m.heap.length)], size := m.size + 1 } := by
      unfold set; simp [hl, hh]
    rw [hset]
    have hsz := h.size
    rw [has] at hsz
    constructor
    · simp
    · simp
    · simp
    · simp
    · simp [nextOf, succ]
    · simp [prevOf, pred]
    · intro k' b hb
      have := lookup_append m k m.heap.length k' hl
      unfold lookup at hb
      simp only at hb
      rw [this] at hb
      by_cases hk : k' = k
      · simp [hk] at hb; subst hb; simp [keyOf, hk]
      · simp only [hk, if_false] at hb
        have := (h.dsound k' b hb).1
        rw [has] at this; simp at this
    · intro b hb
      simp only [List.nil_append, List.mem_singleton] at hb
      subst hb
      refine ⟨k, by simp [keyOf], ?_⟩
      have := lookup_append m k m.heap.length k hl
      unfold lookup; simpa using this
    · simp [hsz]
  | cons x rest =>
    rw [← has]
    have hne : as ≠ [] := by rw [has]; simp
    obtain ⟨t, ht⟩ : ∃ t, as.getLast? = some t := by
      cases hg : as.getLast? with
      | none => exact absurd (List.getLast?_eq_none_iff.mp hg) hne
      | some t => exact ⟨t, rfl⟩
    have hh : m.head.isNone = false := by rw [h.head, has]; rfl
    have htl : m.tail = some t := by rw [h.tail, ht]
    have htm : t ∈ as := List.mem_of_getLast? ht
    have hset : (set m k v).1 =
        { heap := modify m.heap t (fun x => { x with next := some m.heap.length }) ++
            [{ key := k, value := v, prev := some t, next := none }],
          head := m.head, tail := some m.heap.length, dict := m.dict ++ [(k, m.heap.length)], size := m.size + 1 } := by
      unfold set; simp [hl, hh, htl]
    rw [hset]
    have hget : ∀ b, b < m.heap.length →
        (modify m.heap t (fun x => { x with next := some m.heap.length }) ++
          [({ key := k, value := v, prev := some t, next := none } : Elem)])[b]? =
        if t = b then (m.heap[b]?).map (fun x => { x with next := some m.heap.length }) else m.heap[b]? := by
      intro b hb
      rw [List.getElem?_append_left (by rw [length_modify]; exact hb), getElem?_modify]
    have hgetn : (modify m.heap t (fun x => { x with next := some m.heap.length }) ++
          [({ key := k, value := v, prev := some t, next := none } : Elem)])[m.heap.length]? =
        some { key := k, value := v, prev := some t, next := none } := by
      rw [List.getElem?_append_right (by rw [length_modify]; exact Nat.le_refl _)]
      simp [length_modify]
    constructor
    · exact hnd
    · intro a ha
      simp only [List.length_append, length_modify, List.length_singleton]
      rcases List.mem_append.mp ha with ha | ha
      · exact Nat.lt_succ_of_lt (h.bound a ha)
      · simp only [List.mem_singleton] at ha; subst ha; exact Nat.lt_succ_self _
    · simp only; rw [h.head, has]; simp
    · simp
    · intro a ha
      rw [succ_snoc _ _ h.nodup]
      rcases List.mem_append.mp ha with ha | ha
      · have hb := h.bound a ha
        obtain ⟨e, he⟩ := getElem_of_bound hb
        have hnx := h.next a ha
        unfold nextOf at hnx ⊢
        simp only [hget a hb, ht]
        by_cases hta : t = a
        · simp [hta, he]
        · have : ¬ (some t = some a) := by simpa using hta
          simp [hta, this, hnx]
      · simp only [List.mem_singleton] at ha; subst ha
        have : as.getLast? ≠ some m.heap.length := fun hg => hfresh (List.mem_of_getLast? hg)
        unfold nextOf
        simp [hgetn, this, succ_not_mem hfresh]
    · intro a ha
      rw [pred_snoc _ _ hnd]
      rcases List.mem_append.mp ha with ha | ha
      · have hb := h.bound a ha
        obtain ⟨e, he⟩ := getElem_of_bound hb
        have hpx := h.prev a ha
        have hna : m.heap.length ≠ a := fun hq => hfresh (hq ▸ ha)
        unfold prevOf at hpx ⊢
        simp only [hget a hb]
        by_cases hta : t = a
        · subst hta; simp [he, hna] at hpx ⊢; exact hpx
        · simp [hta, hna, hpx]
      · simp only [List.mem_singleton] at ha; subst ha
        unfold prevOf
        simp [hgetn, ht]
    · intro k' b hb
      have := lookup_append m k m.heap.length k' hl
      unfold lookup at hb
      simp only at hb
      rw [this] at hb
      by_cases hk : k' = k
      · simp [hk] at hb; subst hb
        refine ⟨by simp, ?_⟩
        unfold keyOf; simp [hgetn, hk]
      · simp only [hk, if_false] at hb
        have hs := h.dsound k' b hb
        refine ⟨List.mem_append_left _ hs.1, ?_⟩
        have hbb := h.bound b hs.1
        have hkk := hs.2
        unfold keyOf at hkk ⊢
        simp only [hget b hbb]
        by_cases htb : t = b
        · subst htb; obtain ⟨e, he⟩ := getElem_of_bound hbb; simp [he] at hkk ⊢; exact hkk
        · simp [htb, hkk]
    · intro b hb
      rcases List.mem_append.mp hb with hb | hb
      · obtain ⟨k', hk1, hk2⟩ := h.dcompl b hb
        have hkne : k' ≠ k := by intro hq; subst hq; rw [hl] at hk2; cases hk2
        refine ⟨k', ?_, ?_⟩
        · have hbb := h.bound b hb
          unfold keyOf at hk1 ⊢
          simp only [hget b hbb]
          by_cases htb : t = b
          · subst htb; obtain ⟨e, he⟩ := getElem_of_bound hbb; simp [he] at hk1 ⊢; exact hk1
          · simp [htb, hk1]
        · have := lookup_append m k m.heap.length k' hl
          unfold lookup; simp only; rw [this]; simp [hkne, hk2]
      · simp only [List.mem_singleton] at hb; subst hb
        refine ⟨k, by unfold keyOf; simp [hgetn], ?_⟩
        have := lookup_append m k m.heap.length k hl
        unfold lookup; simpa using this
    · simp [h.size]

/-- The two pointer assignments of `Delete` for the element `e`. -/
def delHeap (heap : List Elem) (e : Elem) : List Elem :=
  let h1 := match e.prev with
    | some p => modify heap p (fun x => { x with next := e.next })
    | none => heap
  match e.next with
  | some n => modify h1 n (fun x => { x with prev := e.prev })
  | none => h1

theorem delHeap_get (heap : List Elem) (e : Elem) (b : Nat) :
    (delHeap heap e)[b]? = (heap[b]?).map (fun x =>
      { x with next := if e.prev = some b then e.next else x.next, prev := if e.next = some b then e.prev else x.prev }) := by
  unfold delHeap
  cases hp : e.prev with
  | none =>
    cases hn : e.next with
    | none => simp
    | some n =>
      simp only [getElem?_modify]
      by_cases hnb : n = b
      · subst hnb; simp
      · have : ¬ (some n = some b) := by simpa using hnb
        simp [hnb, this]
  | some p =>
    cases hn : e.next with
    | none =>
      simp only [getElem?_modify]
      by_cases hpb : p = b
      · subst hpb; simp
      · have : ¬ (some p = some b) := by simpa using hpb
        simp [hpb, this]
    | some n =>
      simp only [getElem?_modify]
      generalize heap[b]? = o
      by_cases hpb : p = b <;> by_cases hnb : n = b <;> cases o <;> simp [hpb, hnb]

theorem length_delHeap (heap : List Elem) (e : Elem) : (delHeap heap e).length = heap.length := by
  unfold delHeap
  cases e.prev <;> cases e.next <;> simp [length_modify]

theorem delete_eq {m : OM} {k a : Nat} {e : Elem} (hl : lookup m k = some a) (he : m.heap[a]? = some e) :
    delete m k = ({ heap := delHeap m.heap e,
                    head := (match e.prev with | some _ => m.head | none => e.next),
                    tail := (match e.next with | some _ => m.tail | none => e.prev),
                    dict := m.dict.filter (fun p => p.1 != k), size := m.size - 1 }, true) := by
  unfold delete delHeap
  simp only [hl, he]
  rfl

theorem delete_absent {m : OM} {k : Nat} (hl : lookup m k = none) : delete m k = (m, false) := by
  unfold delete; simp [hl]

/-- `Delete` of a key that is in the dictionary: its element leaves the list. -/
theorem WF_delete {m : OM} {as : List Nat} (h : WF m as) {k a : Nat} (hl : lookup m k = some a) :
    WF (delete m k).1 (as.filter (· != a)) := by
  have ha : a ∈ as := (h.dsound k a hl).1
  have hka : keyOf m a = some k := (h.dsound k a hl).2
  obtain ⟨e, he⟩ := getElem_of_bound (h.bound a ha)
  have hprev : e.prev = pred as a := by have := h.prev a ha; unfold prevOf at this; simpa [he] using this
  have hnext : e.next = succ as a := by have := h.next a ha; unfold nextOf at this; simpa [he] using this
  rw [delete_eq hl he]
  have hmem : ∀ b, b ∈ as.filter (· != a) ↔ b ∈ as ∧ b ≠ a := by intro b; simp [List.mem_filter]
  have hkey : ∀ b, (delHeap m.heap e)[b]?.map (·.key) = keyOf m b := by
    intro b; rw [delHeap_get]; unfold keyOf; cases m.heap[b]? <;> simp
  constructor
  · exact nodup_filter _ h.nodup
  · intro b hb
    simp only [length_delHeap]
    exact h.bound b ((hmem b).mp hb).1
  · simp only
    rw [head_filter h.nodup ha, ← hprev, ← hnext, h.head]
    cases e.prev <;> simp
  · simp only
    rw [getLast_filter h.nodup ha, ← hprev, ← hnext, h.tail]
    cases e.next <;> simp
  · intro b hb
    obtain ⟨hb1, hb2⟩ := (hmem b).mp hb
    rw [succ_filter h.nodup hb2, ← hprev, ← hnext, ← h.next b hb1]
    obtain ⟨x, hx⟩ := getElem_of_bound (h.bound b hb1)
    unfold nextOf
    simp only [delHeap_get, hx]
    by_cases hq : e.prev = some b <;> simp [hq]
  · intro b hb
    obtain ⟨hb1, hb2⟩ := (hmem b).mp hb
    rw [pred_filter h.nodup hb2, ← hprev, ← hnext, ← h.prev b hb1]
    obtain ⟨x, hx⟩ := getElem_of_bound (h.bound b hb1)
    unfold prevOf
    simp only [delHeap_get, hx]
    by_cases hq : e.next = some b <;> simp [hq]
  · intro k' b hb
    unfold lookup at hb
    simp only at hb
    rw [lookup_filter] at hb
    by_cases hk : k' = k
    · simp [hk] at hb
    · simp only [hk, if_false] at hb
      have hs := h.dsound k' b hb
      have hba : b ≠ a := by
        intro hq; subst hq; rw [hka] at hs; exact hk (Option.some.inj hs.2).symm
      refine ⟨(hmem b).mpr ⟨hs.1, hba⟩, ?_⟩
      unfold keyOf; simp only; rw [hkey]; exact hs.2
  · intro b hb
    obtain ⟨hb1, hb2⟩ := (hmem b).mp hb
    obtain ⟨k', hk1, hk2⟩ := h.dcompl b hb1
    have hkne : k' ≠ k := by
      intro hq; subst hq; rw [hl] at hk2; exact hb2 (Option.some.inj hk2).symm
    refine ⟨k', ?_, ?_⟩
    · unfold keyOf; simp only; rw [hkey]; exact hk1
    · unfold lookup; simp only; rw [lookup_filter]; simp [hkne, hk2]
  · simp only
    have := length_filter_ne h.nodup ha
    rw [h.size]; omega

/-! ## histories -/

inductive Op
  | set (k v : Nat)
  | delete (k : Nat)
  | clear
deriving Repr, DecidableEq

def apply (m : OM) : Op → OM
  | .set k v => (set m k v).1
  | .delete k => (delete m k).1
  | .clear => clear m

def run (ops : List Op) : OM := ops.foldl apply OM.empty

/-- The list of element addresses after `op`. -/
def stepList (m : OM) (as : List Nat) : Op → List Nat
  | .set k _ => match lookup m k with
    | some _ => as
    | none => as ++ [m.heap.length]
  | .delete k => match lookup m k with
    | some a => as.filter (· != a)
    | none => as
  | .clear => []

theorem WF_apply {m : OM} {as : List Nat} (h : WF m as) (op : Op) : WF (apply m op) (stepList m as op) := by
  cases op with
  | set k v =>
    cases hl : lookup m k with
    | some a => simp only [apply, stepList, hl]; exact WF_set_existing h v hl
    | none => simp only [apply, stepList, hl]; exact WF_set_new h v hl
  | delete k =>
    cases hl : lookup m k with
    | some a => simp only [apply, stepList, hl]; exact WF_delete h hl
    | none => simp only [apply, stepList, hl, delete_absent hl]; exact h
  | clear => exact WF_clear h

theorem WF_run (ops : List Op) : ∃ as, WF (run ops) as := by
  unfold run
  suffices ∀ (m : OM) (as : List Nat), WF m as → ∃ as', WF (ops.foldl apply m) as' from this _ _ WF_empty
  induction ops with
  | nil => intro m as h; exact ⟨as, h⟩
  | cons op ops ih => intro m as h; exact ih _ _ (WF_apply h op)

/-! ## removed elements are never written again -/

theorem succ_ne_self {as : List Nat} {a : Nat} (hn : as.Nodup) : succ as a ≠ some a := by
  intro h
  induction as with
  | nil => simp [succ] at h
  | cons x l ih =>
    rw [List.nodup_cons] at hn
    rw [succ_cons] at h
    by_cases hx : x = a
    · subst hx; simp at h; exact hn.1 (List.mem_of_head? h)
    · simp [hx] at h; exact ih hn.2 h

theorem pred_ne_self {as : List Nat} {a : Nat} (hn : as.Nodup) : pred as a ≠ some a := by
  rw [pred_eq_succ_reverse a hn]; exact succ_ne_self (nodup_reverse hn)

/-- An operation writes only to elements of the current list (and to the element it allocates): the
`next` / `prev` / `key` of every other allocated element stay as they are. -/
theorem frozen_apply {m : OM} {as : List Nat} (h : WF m as) (op : Op) {b : Nat} (hb : b ∉ as) (hlt : b < m.heap.length) :
    nextOf (apply m op) b = nextOf m b ∧ prevOf (apply m op) b = prevOf m b ∧ keyOf (apply m op) b = keyOf m b := by
  cases op with
  | clear => simp [apply, clear, nextOf, prevOf, keyOf]
  | set k v =>
    simp only [apply]
    cases hl : lookup m k with
    | some a =>
      have ha : a ∈ as := (h.dsound k a hl).1
      obtain ⟨e, he⟩ := getElem_of_bound (h.bound a ha)
      have hab : a ≠ b := fun hq => hb (hq ▸ ha)
      have hset : (set m k v).1 = { m with heap := m.heap.set a { e with value := v } } := by
        unfold set; simp [hl, he]
      rw [hset]
      simp [nextOf, prevOf, keyOf, List.getElem?_set, hab]
    | none =>
      by_cases hh : m.head.isNone = true
      · have hset : (set m k v).1 =
            { heap := m.heap ++ [{ key := k, value := v, prev := none, next := none }],
              head := some m.heap.length, tail := some m.heap.length, dict := m.dict ++ [(k, m.heap.length)], size := m.size + 1 } := by
          unfold set; simp [hl, hh]
        rw [hset]
        simp [nextOf, prevOf, keyOf, List.getElem?_append_left hlt]
      · cases htl : m.tail with
        | none =>
          have hset : (set m k v).1 =
              { heap := m.heap ++ [{ key := k, value := v, prev := none, next := none }],
                head := m.head, tail := some m.heap.length, dict := m.dict ++ [(k, m.heap.length)], size := m.size + 1 } := by
            unfold set; simp [hl, hh, htl]
          rw [hset]
          simp [nextOf, prevOf, keyOf, List.getElem?_append_left hlt]
        | some t =>
          have htm : t ∈ as := by
            have := h.tail; rw [htl] at this; exact List.mem_of_getLast? this.symm
          have htb : t ≠ b := fun hq => hb (hq ▸ htm)
          have hset : (set m k v).1 =
              { heap := modify m.heap t (fun x => { x with next := some m.heap.length }) ++
                  [{ key := k, value := v, prev := some t, next := none }],
                head := m.head, tail := some m.heap.length, dict := m.dict ++ [(k, m.heap.length)], size := m.size + 1 } := by
            unfold set; simp [hl, hh, htl]
          rw [hset]
          have hg : (modify m.heap t (fun x => { x with next := some m.heap.length }) ++
              [({ key := k, value := v, prev := some t, next := none } : Elem)])[b]? = m.heap[b]? := by
            rw [List.getElem?_append_left (by rw [length_modify]; exact hlt), getElem?_modify]; simp [htb]
          simp [nextOf, prevOf, keyOf, hg]
  | delete k =>
    simp only [apply]
    cases hl : lookup m k with
    | none => simp [delete_absent hl]
    | some a =>
      have ha : a ∈ as := (h.dsound k a hl).1
      obtain ⟨e, he⟩ := getElem_of_bound (h.bound a ha)
      have hprev : e.prev = pred as a := by have := h.prev a ha; unfold prevOf at this; simpa [he] using this
      have hnext : e.next = succ as a := by have := h.next a ha; unfold nextOf at this; simpa [he] using this
      have h1 : e.prev ≠ some b := by rw [hprev]; intro hq; exact hb (pred_mem hq).2
      have h2 : e.next ≠ some b := by rw [hnext]; intro hq; exact hb (succ_mem hq).2
      rw [delete_eq hl he]
      unfold nextOf prevOf keyOf
      simp only [delHeap_get, h1, h2, if_false]
      cases m.heap[b]? <;> simp

/-- At the moment an element is removed its `next` / `prev` are its neighbours in the list at that
time, and `Delete` does not touch them (the removed element keeps pointing into the list). -/
theorem removed_keeps {m : OM} {as : List Nat} (h : WF m as) {k a : Nat} (hl : lookup m k = some a) :
    nextOf (delete m k).1 a = succ as a ∧ prevOf (delete m k).1 a = pred as a := by
  have ha : a ∈ as := (h.dsound k a hl).1
  obtain ⟨e, he⟩ := getElem_of_bound (h.bound a ha)
  have hprev : e.prev = pred as a := by have := h.prev a ha; unfold prevOf at this; simpa [he] using this
  have hnext : e.next = succ as a := by have := h.next a ha; unfold nextOf at this; simpa [he] using this
  have h1 : e.prev ≠ some a := by rw [hprev]; exact pred_ne_self h.nodup
  have h2 : e.next ≠ some a := by rw [hnext]; exact succ_ne_self h.nodup
  rw [delete_eq hl he]
  unfold nextOf prevOf
  simp only [delHeap_get, he, h1, h2, if_false]
  simp [hprev, hnext]

/-! ## the quiescent walk -/

theorem succ_append_mid {l1 r : List Nat} {a : Nat} (hn : (l1 ++ a :: r).Nodup) : succ (l1 ++ a :: r) a = r.head? := by
  induction l1 with
  | nil => simp [succ_cons]
  | cons x l ih =>
    rw [List.cons_append, List.nodup_cons] at hn
    have hx : x ≠ a := by intro hq; subst hq; exact hn.1 (by simp)
    rw [List.cons_append, succ_cons]
    simp [hx, ih hn.2]

/-- Following `next` from `head` (what `Clone` and a `ForEach` without concurrent writers do) visits exactly
the list, in order. -/
theorem walk_list {m : OM} {as : List Nat} (h : WF m as) (fuel : Nat) (hf : as.length < fuel) :
    walk m fuel m.head = as := by
  suffices ∀ (l2 l1 : List Nat) (fuel : Nat), as = l1 ++ l2 → l2.length < fuel → walk m fuel l2.head? = l2 by
    rw [h.head]; exact this as [] fuel rfl hf
  intro l2
  induction l2 with
  | nil =>
    intro l1 fuel _ hf
    cases fuel with
    | zero => simp at hf
    | succ n => simp [walk]
  | cons a r ih =>
    intro l1 fuel has hf
    cases fuel with
    | zero => simp at hf
    | succ n =>
      have ha : a ∈ as := by rw [has]; simp
      have hnx : nextOf m a = r.head? := by
        rw [h.next a ha]
        have hn := h.nodup
        rw [has] at hn ⊢
        exact succ_append_mid hn
      have : walk m (n + 1) (some a) = a :: walk m n (nextOf m a) := by simp [walk]
      rw [List.head?_cons, this, hnx, ih (l1 ++ [a]) n (by rw [has]; simp) (by simpa using hf)]

end Hive.EventsOMap
