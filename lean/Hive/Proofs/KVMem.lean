import Hive.Model.KVMem
import Hive.Proofs.KVHeap
/-!
# Ownership invariant of mapdb with memory, second level (keys, prefixes, realms as buffers) — C04

* `MInv`: the buffers the map references were allocated by the store and are unknown to the caller; what the caller
  holds, what the views keep as realm and what the batches reference exists (`< next`); batch values are the caller's.
* `mstep_reads`: no request of the store ever writes into a buffer that exists already — only the caller's own `write` does.
* `frozen_step` / `frozen_run`: a buffer the caller does not hold never changes and is never handed to the caller.
-/
namespace Hive.KV.Mem
open Hive.KV.Heap

/-! ## `allocKeys`: the key slices an iteration hands out -/

theorem allocKeys_cons_fst (n : Nat) (k : Bytes) (ks : List Bytes) (mem : Mem) :
    (allocKeys n (k :: ks) mem).1 = (allocKeys n ks (mem.alloc (k.drop n)).1).1 := rfl

theorem allocKeys_cons_snd (n : Nat) (k : Bytes) (ks : List Bytes) (mem : Mem) :
    (allocKeys n (k :: ks) mem).2 = mem.next :: (allocKeys n ks (mem.alloc (k.drop n)).1).2 := rfl

theorem allocKeys_ok (n : Nat) (ks : List Bytes) (mem : Mem) :
    mem.next ≤ (allocKeys n ks mem).1.next ∧
    (∀ r, r < mem.next → (allocKeys n ks mem).1.read r = mem.read r) ∧
    (∀ r ∈ (allocKeys n ks mem).2, mem.next ≤ r ∧ r < (allocKeys n ks mem).1.next) ∧
    (allocKeys n ks mem).2.Pairwise (· ≠ ·) ∧
    (allocKeys n ks mem).2.map (allocKeys n ks mem).1.read = ks.map (fun k => k.drop n) := by
  induction ks generalizing mem with
  | nil => exact ⟨Nat.le_refl _, fun _ _ => rfl, by simp [allocKeys], by simp [allocKeys], rfl⟩
  | cons k ks ih =>
    obtain ⟨h1, h2, h3, h4, h5⟩ := ih (mem.alloc (k.drop n)).1
    have hn : (mem.alloc (k.drop n)).1.next = mem.next + 1 := rfl
    rw [hn] at h1 h2 h3
    rw [allocKeys_cons_fst, allocKeys_cons_snd]
    have hlt : ∀ r, r < mem.next → r < mem.next + 1 := fun r hr => Nat.lt_succ_of_lt hr
    refine ⟨Nat.le_trans (Nat.le_succ _) h1, ?_, ?_, ?_, ?_⟩
    · intro r hr
      rw [h2 r (hlt r hr), read_alloc_lt _ _ _ hr]
    · intro r hr
      simp only [List.mem_cons] at hr
      rcases hr with rfl | hr
      · exact ⟨Nat.le_refl _, Nat.lt_of_lt_of_le (Nat.lt_succ_self _) h1⟩
      · have := h3 r hr; exact ⟨Nat.le_trans (Nat.le_succ _) this.1, this.2⟩
    · simp only [List.pairwise_cons]
      refine ⟨fun r hr heq => ?_, h4⟩
      have := (h3 r hr).1
      rw [← heq] at this
      exact Nat.lt_irrefl _ (Nat.lt_of_lt_of_le (Nat.lt_succ_self _) this)
    · simp only [List.map_cons]
      congr 1
      rw [h2 mem.next (Nat.lt_succ_self _), ← alloc_ref mem (k.drop n), read_alloc_new]

/-! ## the invariant -/

structure MInv (s : MSt) : Prop where
  owned_lt : ∀ e ∈ s.m, e.2 < s.mem.next
  owned_priv : ∀ e ∈ s.m, e.2 ∉ s.known
  known_lt : ∀ r ∈ s.known, r < s.mem.next
  batch_known : ∀ x ∈ s.batches, ∀ e ∈ x.2.sets, e.2 ∈ s.known
  view_lt : ∀ x ∈ s.views, x.2 < s.mem.next
  batch_realm_lt : ∀ x ∈ s.batches, x.2.realm < s.mem.next

theorem minv_init : MInv minit := by
  refine ⟨by simp [minit], by simp [minit], by simp [minit], by simp [minit], ?_, by simp [minit]⟩
  intro x hx
  simp only [minit, List.mem_singleton] at hx
  subst hx; decide

/-- How a request may change the state, as far as the invariant is concerned. -/
theorem minv_mk {s s' : MSt} (h : MInv s) (hnext : s.mem.next ≤ s'.mem.next)
    (hm : ∀ e ∈ s'.m, e.2 < s'.mem.next ∧ (e ∈ s.m ∨ s.mem.next ≤ e.2))
    (hk : ∀ r ∈ s'.known, r < s'.mem.next ∧ (r ∈ s.known ∨ (s.mem.next ≤ r ∧ ∀ e ∈ s'.m, e.2 ≠ r)))
    (hv : ∀ x ∈ s'.views, x ∈ s.views ∨ x.2 < s'.mem.next)
    (hb : ∀ x ∈ s'.batches, x.2.realm < s'.mem.next ∧ ∀ e ∈ x.2.sets, e.2 ∈ s'.known) : MInv s' := by
  refine ⟨fun e he => (hm e he).1, ?_, fun r hr => (hk r hr).1, fun x hx => (hb x hx).2, ?_, fun x hx => (hb x hx).1⟩
  · intro e he hke
    rcases (hk e.2 hke).2 with h1 | ⟨h1, h2⟩
    · rcases (hm e he).2 with h3 | h3
      · exact h.owned_priv e h3 h1
      · exact Nat.lt_irrefl _ (Nat.lt_of_lt_of_le (h.known_lt _ h1) h3)
    · exact h2 e he rfl
  · intro x hx
    rcases hv x hx with h1 | h1
    · exact Nat.lt_of_lt_of_le (h.view_lt x h1) hnext
    · exact h1

/-- A request that only makes new buffers and hands some of them to the caller (`alloc`, `Realm`, `Get`, the iterations). -/
theorem minv_grow {s : MSt} (h : MInv s) (mem' : Mem) (new : List Ref) (hnext : s.mem.next ≤ mem'.next)
    (hnew : ∀ r ∈ new, s.mem.next ≤ r ∧ r < mem'.next) :
    MInv { s with mem := mem', known := new ++ s.known } := by
  refine minv_mk h hnext (fun e he => ⟨Nat.lt_of_lt_of_le (h.owned_lt e he) hnext, Or.inl he⟩) ?_ (fun x hx => Or.inl hx) ?_
  · intro r hr
    simp only [List.mem_append] at hr
    rcases hr with hr | hr
    · exact ⟨(hnew r hr).2, Or.inr ⟨(hnew r hr).1, fun e he heq =>
        Nat.lt_irrefl _ (Nat.lt_of_lt_of_le (heq ▸ h.owned_lt e he) (hnew r hr).1)⟩⟩
    · exact ⟨Nat.lt_of_lt_of_le (h.known_lt r hr) hnext, Or.inl hr⟩
  · intro x hx
    exact ⟨Nat.lt_of_lt_of_le (h.batch_realm_lt x hx) hnext,
      fun e he => List.mem_append_right _ (h.batch_known x hx e he)⟩

/-- A request that replaces the map by the result of `mapSet` / `commitSets` (+ deletions). -/
theorem minv_setok {s : MSt} (h : MInv s) (res : Mem × RMap) (ok : SetOk s.mem s.m res) (m' : RMap)
    (hsub : ∀ e ∈ m', e ∈ res.2) : MInv { s with mem := res.1, m := m' } := by
  refine minv_mk h ok.next_ge (fun e he => ok.refs e (hsub e he)) ?_ (fun x hx => Or.inl hx) ?_
  · intro r hr
    exact ⟨Nat.lt_of_lt_of_le (h.known_lt r hr) ok.next_ge, Or.inl hr⟩
  · intro x hx
    exact ⟨Nat.lt_of_lt_of_le (h.batch_realm_lt x hx) ok.next_ge, h.batch_known x hx⟩

/-- A request that only removes entries from the map. -/
theorem minv_sub {s : MSt} (h : MInv s) (m' : RMap) (hsub : ∀ e ∈ m', e ∈ s.m) : MInv { s with m := m' } :=
  minv_mk h (Nat.le_refl _) (fun e he => ⟨h.owned_lt e (hsub e he), Or.inl (hsub e he)⟩)
    (fun r hr => ⟨h.known_lt r hr, Or.inl hr⟩) (fun x hx => Or.inl hx)
    (fun x hx => ⟨h.batch_realm_lt x hx, h.batch_known x hx⟩)

/-- A request that replaces one batch. -/
theorem minv_batch {s : MSt} (h : MInv s) (b : Nat) (bt : MBatch) (hr : bt.realm < s.mem.next)
    (hs : ∀ e ∈ bt.sets, e.2 ∈ s.known) : MInv { s with batches := (b, bt) :: s.batches } := by
  refine minv_mk h (Nat.le_refl _) (fun e he => ⟨h.owned_lt e he, Or.inl he⟩)
    (fun r hr => ⟨h.known_lt r hr, Or.inl hr⟩) (fun x hx => Or.inl hx) ?_
  intro x hx
  simp only [List.mem_cons] at hx
  rcases hx with rfl | hx
  · exact ⟨hr, hs⟩
  · exact ⟨h.batch_realm_lt x hx, h.batch_known x hx⟩

theorem foldr_rdel_sub (realm : Bytes) (dels : List Bytes) (m : RMap) :
    ∀ e ∈ dels.foldr (fun k m => rdel (realm ++ k) m) m, e ∈ m := by
  induction dels with
  | nil => intro e he; exact he
  | cons k t ih => intro e he; exact ih e (mem_rdel he)

theorem filter_lt {s : MSt} (h : MInv s) (p : Bytes × Ref → Bool) : ∀ e ∈ s.m.filter p, e.2 < s.mem.next :=
  fun e he => h.owned_lt e (List.mem_filter.mp he).1

theorem minv_step (s : MSt) (h : MInv s) (op : MOp) : MInv (mstep s op).1 := by
  cases op with
  | alloc b =>
    exact minv_grow h _ [s.mem.next] (by simp) (by simp)
  | write r b =>
    simp only [mstep]
    split
    · exact ⟨h.owned_lt, h.owned_priv, h.known_lt, h.batch_known, h.view_lt, h.batch_realm_lt⟩
    · exact h
  | withRealm v p r =>
    simp only [mstep]
    split
    · exact h
    · split
      · rename_i hr
        refine minv_mk h (Nat.le_refl _) (fun e he => ⟨h.owned_lt e he, Or.inl he⟩)
          (fun r hr => ⟨h.known_lt r hr, Or.inl hr⟩) ?_ (fun x hx => ⟨h.batch_realm_lt x hx, h.batch_known x hx⟩)
        intro x hx
        simp only [List.mem_cons] at hx
        rcases hx with rfl | hx
        · exact Or.inr (h.known_lt r hr)
        · exact Or.inl hx
      · exact h
  | withExtendedRealm v p r =>
    simp only [mstep]
    split
    · exact h
    · split
      · refine minv_mk h (by simp) (fun e he => ⟨Nat.lt_succ_of_lt (h.owned_lt e he), Or.inl he⟩)
          (fun r hr => ⟨Nat.lt_succ_of_lt (h.known_lt r hr), Or.inl hr⟩) ?_
          (fun x hx => ⟨Nat.lt_succ_of_lt (h.batch_realm_lt x hx), h.batch_known x hx⟩)
        intro x hx
        simp only [List.mem_cons] at hx
        rcases hx with rfl | hx
        · exact Or.inr (by simp)
        · exact Or.inl hx
      · exact h
  | realm v =>
    simp only [mstep]
    split
    · exact h
    · exact minv_grow h _ [s.mem.next] (by simp) (by simp)
  | set v k x =>
    simp only [mstep]
    split
    · exact h
    · split
      · exact minv_setok h _ (mapSet_ok s.mem s.m _ x h.owned_lt).1 _ (fun e he => he)
      · exact h
  | get v k =>
    simp only [mstep]
    split
    · exact h
    · split
      · split
        · exact h
        · exact minv_grow h _ [s.mem.next] (by simp) (by simp)
      · exact h
  | has v k =>
    simp only [mstep]
    split
    · exact h
    · split <;> exact h
  | del v k =>
    simp only [mstep]
    split
    · exact h
    · split
      · exact minv_sub h _ (fun e he => mem_rdel he)
      · exact h
  | delp v p =>
    simp only [mstep]
    split
    · exact h
    · split
      · exact minv_sub h _ (fun e he => mem_rdelPfx he)
      · exact h
  | iter v p d =>
    simp only [mstep]
    split
    · exact h
    · rename_i rv _
      split
      · obtain ⟨c1, _, c3, _⟩ := copyAll_ok (s.m.filter (fun e => hasPfx (fullKey s rv p) e.1)) s.mem (filter_lt h _)
        obtain ⟨a1, _, a3, _, _⟩ := allocKeys_ok (s.mem.read rv).length
          (sortBy (dirLt d) ((copyAll (s.m.filter (fun e => hasPfx (fullKey s rv p) e.1)) s.mem).2.map (·.1)))
          (copyAll (s.m.filter (fun e => hasPfx (fullKey s rv p) e.1)) s.mem).1
        rw [← List.append_assoc]
        refine minv_grow h _ _ (Nat.le_trans c1 a1) ?_
        intro r hr
        simp only [List.mem_append, List.mem_map] at hr
        rcases hr with hr | ⟨e, he, rfl⟩
        · exact ⟨Nat.le_trans c1 (a3 r hr).1, (a3 r hr).2⟩
        · exact ⟨(c3 e he).1, Nat.lt_of_lt_of_le (c3 e he).2 a1⟩
      · exact h
  | iterk v p d =>
    simp only [mstep]
    split
    · exact h
    · rename_i rv _
      split
      · obtain ⟨a1, _, a3, _, _⟩ := allocKeys_ok (s.mem.read rv).length
          (sortBy (dirLt d) ((s.m.filter (fun e => hasPfx (fullKey s rv p) e.1)).map (·.1))) s.mem
        exact minv_grow h _ _ a1 a3
      · exact h
  | batch b v =>
    simp only [mstep]
    split
    · exact h
    · rename_i rv hl
      exact minv_batch h b _ (h.view_lt (v, rv) (lookup_mem' hl)) (by simp)
  | bset b k x =>
    simp only [mstep]
    split
    · exact h
    · rename_i bt hl
      split
      · rename_i hkx
        refine minv_batch h b _ (h.batch_realm_lt (b, bt) (lookup_mem' hl)) ?_
        intro e he
        rcases mem_rset he with rfl | he'
        · exact hkx.2
        · exact h.batch_known (b, bt) (lookup_mem' hl) e he'
      · exact h
  | bdel b k =>
    simp only [mstep]
    split
    · exact h
    · rename_i bt hl
      split
      · exact minv_batch h b _ (h.batch_realm_lt (b, bt) (lookup_mem' hl))
          (fun e he => h.batch_known (b, bt) (lookup_mem' hl) e (mem_rdel he))
      · exact h
  | commit b =>
    simp only [mstep]
    split
    · exact h
    · rename_i bt hl
      have hs : ∀ e ∈ bt.sets, e.2 < s.mem.next :=
        fun e he => h.known_lt _ (h.batch_known (b, bt) (lookup_mem' hl) e he)
      exact minv_setok h _ (commitSets_ok (s.mem.read bt.realm) bt.sets s.mem s.m h.owned_lt hs).1 _
        (foldr_rdel_sub _ _ _)
  | cancel b =>
    simp only [mstep]
    split
    · exact h
    · rename_i bt hl
      exact minv_batch h b _ (h.batch_realm_lt (b, bt) (lookup_mem' hl)) (by simp)

theorem minv_run (s : MSt) (h : MInv s) (ops : List MOp) : MInv (mrun s ops) := by
  induction ops generalizing s with
  | nil => exact h
  | cons op rest ih => exact ih _ (minv_step s h op)

/-! ## what a request does to the buffers that exist already -/

/-- **No request of the store writes into a buffer that exists already**: only the caller's own `write` changes the bytes of
an existing buffer (and only of the buffer it names). -/
theorem mstep_reads (s : MSt) (h : MInv s) (op : MOp) (r : Ref) (hr : r < s.mem.next)
    (hop : ∀ b, op ≠ .write r b) : (mstep s op).1.mem.read r = s.mem.read r := by
  cases op with
  | alloc b => exact read_alloc_lt _ _ _ hr
  | write r' b =>
    simp only [mstep]
    split
    · exact read_write_ne _ _ _ _ (fun heq => hop b (heq ▸ rfl))
    · rfl
  | withRealm v p r' =>
    simp only [mstep]
    split
    · rfl
    · split
      · rfl
      · rfl
  | withExtendedRealm v p r' =>
    simp only [mstep]
    split
    · rfl
    · split
      · exact read_alloc_lt _ _ _ hr
      · rfl
  | realm v =>
    simp only [mstep]
    split
    · rfl
    · exact read_alloc_lt _ _ _ hr
  | set v k x =>
    simp only [mstep]
    split
    · rfl
    · split
      · rename_i rv _ _
        exact (mapSet_ok s.mem s.m (fullKey s rv k) x h.owned_lt).1.old r hr
      · rfl
  | get v k =>
    simp only [mstep]
    split
    · rfl
    · split
      · split
        · rfl
        · exact read_alloc_lt _ _ _ hr
      · rfl
  | has v k =>
    simp only [mstep]
    split
    · rfl
    · split
      · rfl
      · rfl
  | del v k =>
    simp only [mstep]
    split
    · rfl
    · split
      · rfl
      · rfl
  | delp v p =>
    simp only [mstep]
    split
    · rfl
    · split
      · rfl
      · rfl
  | iter v p d =>
    simp only [mstep]
    split
    · rfl
    · rename_i rv _
      split
      · obtain ⟨c1, c2, _, _⟩ := copyAll_ok (s.m.filter (fun e => hasPfx (fullKey s rv p) e.1)) s.mem (filter_lt h _)
        obtain ⟨_, a2, _, _, _⟩ := allocKeys_ok (s.mem.read rv).length
          (sortBy (dirLt d) ((copyAll (s.m.filter (fun e => hasPfx (fullKey s rv p) e.1)) s.mem).2.map (·.1)))
          (copyAll (s.m.filter (fun e => hasPfx (fullKey s rv p) e.1)) s.mem).1
        show (allocKeys _ _ _).1.read r = _
        rw [a2 r (Nat.lt_of_lt_of_le hr c1), c2 r hr]
      · rfl
  | iterk v p d =>
    simp only [mstep]
    split
    · rfl
    · rename_i rv _
      split
      · exact (allocKeys_ok (s.mem.read rv).length _ s.mem).2.1 r hr
      · rfl
  | batch b v =>
    simp only [mstep]
    split
    · rfl
    · rfl
  | bset b k x =>
    simp only [mstep]
    split
    · rfl
    · split
      · rfl
      · rfl
  | bdel b k =>
    simp only [mstep]
    split
    · rfl
    · split
      · rfl
      · rfl
  | commit b =>
    simp only [mstep]
    split
    · rfl
    · rename_i bt hl
      have hs : ∀ e ∈ bt.sets, e.2 < s.mem.next :=
        fun e he => h.known_lt _ (h.batch_known (b, bt) (lookup_mem' hl) e he)
      exact (commitSets_ok (s.mem.read bt.realm) bt.sets s.mem s.m h.owned_lt hs).1.old r hr
  | cancel b =>
    simp only [mstep]
    split
    · rfl
    · rfl

/-- The buffers the caller holds after a request: those it held before and buffers that did not exist before. -/
theorem mstep_known (s : MSt) (h : MInv s) (op : MOp) (r : Ref) (hr : r ∈ (mstep s op).1.known) :
    r ∈ s.known ∨ s.mem.next ≤ r := by
  cases op with
  | alloc b =>
    simp only [mstep, List.mem_cons, alloc_ref] at hr
    rcases hr with rfl | hr
    · exact Or.inr (Nat.le_refl _)
    · exact Or.inl hr
  | write r' b =>
    simp only [mstep] at hr
    split at hr
    · exact Or.inl hr
    · exact Or.inl hr
  | withRealm v p r' =>
    simp only [mstep] at hr
    split at hr
    · exact Or.inl hr
    · split at hr
      · exact Or.inl hr
      · exact Or.inl hr
  | withExtendedRealm v p r' =>
    simp only [mstep] at hr
    split at hr
    · exact Or.inl hr
    · split at hr
      · exact Or.inl hr
      · exact Or.inl hr
  | realm v =>
    simp only [mstep] at hr
    split at hr
    · exact Or.inl hr
    · simp only [List.mem_cons, alloc_ref] at hr
      rcases hr with rfl | hr
      · exact Or.inr (Nat.le_refl _)
      · exact Or.inl hr
  | set v k x =>
    simp only [mstep] at hr
    split at hr
    · exact Or.inl hr
    · split at hr
      · exact Or.inl hr
      · exact Or.inl hr
  | get v k =>
    simp only [mstep] at hr
    split at hr
    · exact Or.inl hr
    · split at hr
      · split at hr
        · exact Or.inl hr
        · simp only [List.mem_cons, alloc_ref] at hr
          rcases hr with rfl | hr
          · exact Or.inr (Nat.le_refl _)
          · exact Or.inl hr
      · exact Or.inl hr
  | has v k =>
    simp only [mstep] at hr
    split at hr
    · exact Or.inl hr
    · split at hr
      · exact Or.inl hr
      · exact Or.inl hr
  | del v k =>
    simp only [mstep] at hr
    split at hr
    · exact Or.inl hr
    · split at hr
      · exact Or.inl hr
      · exact Or.inl hr
  | delp v p =>
    simp only [mstep] at hr
    split at hr
    · exact Or.inl hr
    · split at hr
      · exact Or.inl hr
      · exact Or.inl hr
  | iter v p d =>
    simp only [mstep] at hr
    split at hr
    · exact Or.inl hr
    · rename_i rv _
      split at hr
      · obtain ⟨c1, _, c3, _⟩ := copyAll_ok (s.m.filter (fun e => hasPfx (fullKey s rv p) e.1)) s.mem (filter_lt h _)
        obtain ⟨_, _, a3, _, _⟩ := allocKeys_ok (s.mem.read rv).length
          (sortBy (dirLt d) ((copyAll (s.m.filter (fun e => hasPfx (fullKey s rv p) e.1)) s.mem).2.map (·.1)))
          (copyAll (s.m.filter (fun e => hasPfx (fullKey s rv p) e.1)) s.mem).1
        simp only [List.mem_append, List.mem_map] at hr
        rcases hr with hr | ⟨e, he, rfl⟩ | hr
        · exact Or.inr (Nat.le_trans c1 (a3 r hr).1)
        · exact Or.inr (c3 e he).1
        · exact Or.inl hr
      · exact Or.inl hr
  | iterk v p d =>
    simp only [mstep] at hr
    split at hr
    · exact Or.inl hr
    · rename_i rv _
      split at hr
      · simp only [List.mem_append] at hr
        rcases hr with hr | hr
        · exact Or.inr ((allocKeys_ok (s.mem.read rv).length _ s.mem).2.2.1 r hr).1
        · exact Or.inl hr
      · exact Or.inl hr
  | batch b v =>
    simp only [mstep] at hr
    split at hr
    · exact Or.inl hr
    · exact Or.inl hr
  | bset b k x =>
    simp only [mstep] at hr
    split at hr
    · exact Or.inl hr
    · split at hr
      · exact Or.inl hr
      · exact Or.inl hr
  | bdel b k =>
    simp only [mstep] at hr
    split at hr
    · exact Or.inl hr
    · split at hr
      · exact Or.inl hr
      · exact Or.inl hr
  | commit b =>
    simp only [mstep] at hr
    split at hr
    · exact Or.inl hr
    · exact Or.inl hr
  | cancel b =>
    simp only [mstep] at hr
    split at hr
    · exact Or.inl hr
    · exact Or.inl hr

/-- Buffers are never freed: the allocation counter only grows. -/
theorem mstep_next_le (s : MSt) (h : MInv s) (op : MOp) : s.mem.next ≤ (mstep s op).1.mem.next := by
  cases op with
  | alloc b => exact Nat.le_succ _
  | write r' b =>
    simp only [mstep]
    split
    · exact Nat.le_refl _
    · exact Nat.le_refl _
  | withRealm v p r' =>
    simp only [mstep]
    split
    · exact Nat.le_refl _
    · split
      · exact Nat.le_refl _
      · exact Nat.le_refl _
  | withExtendedRealm v p r' =>
    simp only [mstep]
    split
    · exact Nat.le_refl _
    · split
      · exact Nat.le_succ _
      · exact Nat.le_refl _
  | realm v =>
    simp only [mstep]
    split
    · exact Nat.le_refl _
    · exact Nat.le_succ _
  | set v k x =>
    simp only [mstep]
    split
    · exact Nat.le_refl _
    · rename_i rv _
      split
      · exact (mapSet_ok s.mem s.m (fullKey s rv k) x h.owned_lt).1.next_ge
      · exact Nat.le_refl _
  | get v k =>
    simp only [mstep]
    split
    · exact Nat.le_refl _
    · split
      · split
        · exact Nat.le_refl _
        · exact Nat.le_succ _
      · exact Nat.le_refl _
  | has v k =>
    simp only [mstep]
    split
    · exact Nat.le_refl _
    · split
      · exact Nat.le_refl _
      · exact Nat.le_refl _
  | del v k =>
    simp only [mstep]
    split
    · exact Nat.le_refl _
    · split
      · exact Nat.le_refl _
      · exact Nat.le_refl _
  | delp v p =>
    simp only [mstep]
    split
    · exact Nat.le_refl _
    · split
      · exact Nat.le_refl _
      · exact Nat.le_refl _
  | iter v p d =>
    simp only [mstep]
    split
    · exact Nat.le_refl _
    · rename_i rv _
      split
      · obtain ⟨c1, _, _, _⟩ := copyAll_ok (s.m.filter (fun e => hasPfx (fullKey s rv p) e.1)) s.mem (filter_lt h _)
        obtain ⟨a1, _, _, _, _⟩ := allocKeys_ok (s.mem.read rv).length
          (sortBy (dirLt d) ((copyAll (s.m.filter (fun e => hasPfx (fullKey s rv p) e.1)) s.mem).2.map (·.1)))
          (copyAll (s.m.filter (fun e => hasPfx (fullKey s rv p) e.1)) s.mem).1
        exact Nat.le_trans c1 a1
      · exact Nat.le_refl _
  | iterk v p d =>
    simp only [mstep]
    split
    · exact Nat.le_refl _
    · rename_i rv _
      split
      · exact (allocKeys_ok (s.mem.read rv).length _ s.mem).1
      · exact Nat.le_refl _
  | batch b v =>
    simp only [mstep]
    split
    · exact Nat.le_refl _
    · exact Nat.le_refl _
  | bset b k x =>
    simp only [mstep]
    split
    · exact Nat.le_refl _
    · split
      · exact Nat.le_refl _
      · exact Nat.le_refl _
  | bdel b k =>
    simp only [mstep]
    split
    · exact Nat.le_refl _
    · split
      · exact Nat.le_refl _
      · exact Nat.le_refl _
  | commit b =>
    simp only [mstep]
    split
    · exact Nat.le_refl _
    · rename_i bt hl
      have hs : ∀ e ∈ bt.sets, e.2 < s.mem.next :=
        fun e he => h.known_lt _ (h.batch_known (b, bt) (lookup_mem' hl) e he)
      exact (commitSets_ok (s.mem.read bt.realm) bt.sets s.mem s.m h.owned_lt hs).1.next_ge
  | cancel b =>
    simp only [mstep]
    split
    · exact Nat.le_refl _
    · exact Nat.le_refl _

/-- **A buffer the caller does not hold is frozen**: no request changes its bytes, and it is never handed to the caller
(one step). -/
theorem frozen_step (s : MSt) (h : MInv s) (op : MOp) (r : Ref) (hr : r < s.mem.next) (hk : r ∉ s.known) :
    (mstep s op).1.mem.read r = s.mem.read r ∧ r < (mstep s op).1.mem.next ∧ r ∉ (mstep s op).1.known := by
  refine ⟨?_, Nat.lt_of_lt_of_le hr (mstep_next_le s h op), ?_⟩
  · by_cases hw : ∃ b, op = .write r b
    · obtain ⟨b, rfl⟩ := hw
      simp [mstep, hk]
    · exact mstep_reads s h op r hr (fun b heq => hw ⟨b, heq⟩)
  · intro hk'
    rcases mstep_known s h op r hk' with h1 | h1
    · exact hk h1
    · exact Nat.lt_irrefl _ (Nat.lt_of_lt_of_le hr h1)

theorem frozen_run (s : MSt) (h : MInv s) (ops : List MOp) (r : Ref) (hr : r < s.mem.next) (hk : r ∉ s.known) :
    (mrun s ops).mem.read r = s.mem.read r ∧ r < (mrun s ops).mem.next ∧ r ∉ (mrun s ops).known := by
  induction ops generalizing s with
  | nil => exact ⟨rfl, hr, hk⟩
  | cons op rest ih =>
    obtain ⟨f1, f2, f3⟩ := frozen_step s h op r hr hk
    obtain ⟨g1, g2, g3⟩ := ih (mstep s op).1 (minv_step s h op) f2 f3
    exact ⟨by rw [← f1]; exact g1, g2, g3⟩

/-! ## dereferencing: the link to the value model -/

theorem aget_deref (mem : Mem) (k : Bytes) (m : RMap) : aget k (deref mem m) = (rget k m).map mem.read := by
  induction m with
  | nil => rfl
  | cons e t ih =>
    simp only [deref, List.map_cons, aget, rget, List.find?_cons] at ih ⊢
    cases hk : (e.1 == k) with
    | true => simp
    | false => simpa using ih

theorem keys_deref (mem : Mem) (m : RMap) : (deref mem m).map (·.1) = m.map (·.1) := by
  simp [deref, List.map_map, Function.comp_def]

/-- Caller-only requests (`alloc`, `write`) touch neither the map's references, nor the views, nor the batches. -/
theorem caller_step (s : MSt) (op : MOp) (hc : op.isCaller = true) :
    (mstep s op).1.m = s.m ∧ (mstep s op).1.views = s.views ∧ (mstep s op).1.batches = s.batches := by
  cases op with
  | alloc b => exact ⟨rfl, rfl, rfl⟩
  | write r b =>
    simp only [mstep]
    split <;> exact ⟨rfl, rfl, rfl⟩
  | _ => simp [MOp.isCaller] at hc

theorem caller_run (s : MSt) (ops : List MOp) (hc : ∀ op ∈ ops, op.isCaller = true) :
    (mrun s ops).m = s.m ∧ (mrun s ops).views = s.views ∧ (mrun s ops).batches = s.batches := by
  induction ops generalizing s with
  | nil => exact ⟨rfl, rfl, rfl⟩
  | cons op rest ih =>
    obtain ⟨a, b, c⟩ := caller_step s op (hc op (by simp))
    obtain ⟨a', b', c'⟩ := ih (mstep s op).1 (fun o ho => hc o (List.mem_cons_of_mem _ ho))
    exact ⟨a'.trans a, b'.trans b, c'.trans c⟩

/-! ## the iterations, spelled out -/

/-- The key buffers `IterateKeys` makes. -/
def iterkRes (s : MSt) (rv p : Ref) (d : Dir) : Mem × List Ref :=
  allocKeys (s.mem.read rv).length (sortBy (dirLt d) ((s.m.filter (fun e => hasPfx (fullKey s rv p) e.1)).map (·.1))) s.mem

def iterkSt (s : MSt) (rv p : Ref) (d : Dir) : MSt :=
  { s with mem := (iterkRes s rv p d).1, known := (iterkRes s rv p d).2 ++ s.known }

theorem mstep_iterk (s : MSt) (v : Nat) (rv p : Ref) (d : Dir) (hv : s.views.lookup v = some rv) (hp : p ∈ s.known) :
    mstep s (.iterk v p d) = (iterkSt s rv p d, .keys (iterkRes s rv p d).2) := by
  simp only [mstep, hv, hp, if_true, iterkSt, iterkRes]

/-- The snapshot of `Iterate` (value copies) and the key buffers it makes. -/
def iterSnap (s : MSt) (rv p : Ref) : Mem × RMap := copyAll (s.m.filter (fun e => hasPfx (fullKey s rv p) e.1)) s.mem

def iterKeys (s : MSt) (rv p : Ref) (d : Dir) : List Bytes := sortBy (dirLt d) ((iterSnap s rv p).2.map (·.1))

def iterRes (s : MSt) (rv p : Ref) (d : Dir) : Mem × List Ref :=
  allocKeys (s.mem.read rv).length (iterKeys s rv p d) (iterSnap s rv p).1

def iterSt (s : MSt) (rv p : Ref) (d : Dir) : MSt :=
  { s with mem := (iterRes s rv p d).1, known := (iterRes s rv p d).2 ++ ((iterSnap s rv p).2.map (·.2) ++ s.known) }

theorem mstep_iter (s : MSt) (v : Nat) (rv p : Ref) (d : Dir) (hv : s.views.lookup v = some rv) (hp : p ∈ s.known) :
    mstep s (.iter v p d) = (iterSt s rv p d,
      .kvs ((iterRes s rv p d).2.zip ((iterKeys s rv p d).map (fun k => (rget k (iterSnap s rv p).2).getD 0)))) := by
  simp only [mstep, hv, hp, if_true, iterSt, iterRes, iterKeys, iterSnap]

/-! ## the stored data along a history -/

/-- The requests that do not touch the map's references. -/
def MOp.keepsMap : MOp → Bool
  | .set .. => false
  | .del .. => false
  | .delp .. => false
  | .commit .. => false
  | _ => true

theorem mstep_m_unchanged (s : MSt) (op : MOp) (hk : op.keepsMap = true) : (mstep s op).1.m = s.m := by
  cases op with
  | alloc b => rfl
  | write r b =>
    simp only [mstep]
    split
    · rfl
    · rfl
  | withRealm v p r =>
    simp only [mstep]
    split
    · rfl
    · split
      · rfl
      · rfl
  | withExtendedRealm v p r =>
    simp only [mstep]
    split
    · rfl
    · split
      · rfl
      · rfl
  | realm v =>
    simp only [mstep]
    split
    · rfl
    · rfl
  | set v k x => simp [MOp.keepsMap] at hk
  | get v k =>
    simp only [mstep]
    split
    · rfl
    · split
      · split
        · rfl
        · rfl
      · rfl
  | has v k =>
    simp only [mstep]
    split
    · rfl
    · split
      · rfl
      · rfl
  | del v k => simp [MOp.keepsMap] at hk
  | delp v p => simp [MOp.keepsMap] at hk
  | iter v p d =>
    simp only [mstep]
    split
    · rfl
    · split
      · rfl
      · rfl
  | iterk v p d =>
    simp only [mstep]
    split
    · rfl
    · split
      · rfl
      · rfl
  | batch b v =>
    simp only [mstep]
    split
    · rfl
    · rfl
  | bset b k x =>
    simp only [mstep]
    split
    · rfl
    · split
      · rfl
      · rfl
  | bdel b k =>
    simp only [mstep]
    split
    · rfl
    · split
      · rfl
      · rfl
  | commit b => simp [MOp.keepsMap] at hk
  | cancel b =>
    simp only [mstep]
    split
    · rfl
    · rfl

/-- A request that keeps the map's references keeps the stored data: the map's buffers are not the caller's, and no request
of the store writes into an existing buffer. -/
theorem storeView_unchanged (s : MSt) (h : MInv s) (op : MOp) (hk : op.keepsMap = true) :
    storeView (mstep s op).1 = storeView s := by
  unfold storeView
  rw [mstep_m_unchanged s op hk]
  apply deref_congr
  intro e he
  by_cases hw : ∃ b, op = .write e.2 b
  · obtain ⟨b, rfl⟩ := hw
    have : e.2 ∉ s.known := h.owned_priv e he
    simp [mstep, this]
  · exact mstep_reads s h op e.2 (h.owned_lt e he) (fun b heq => hw ⟨b, heq⟩)

/-- What a request does to the stored data, by value, with every buffer as it reads when the request is made. -/
def effect (s : MSt) : MOp → AList → AList
  | .set v k x, m =>
    match s.views.lookup v with
    | some rv => if k ∈ s.known ∧ x ∈ s.known then aset (s.mem.read rv ++ s.mem.read k) (s.mem.read x) m else m
    | none => m
  | .del v k, m =>
    match s.views.lookup v with
    | some rv => if k ∈ s.known then adel (s.mem.read rv ++ s.mem.read k) m else m
    | none => m
  | .delp v p, m =>
    match s.views.lookup v with
    | some rv => if p ∈ s.known then adelPfx (s.mem.read rv ++ s.mem.read p) m else m
    | none => m
  | .commit b, m =>
    match s.batches.lookup b with
    | some bt => (dbCommit (s.mem.read bt.realm) (deref s.mem bt.sets) bt.dels { m := m, closed := false }).1.m
    | none => m
  | _, m => m

theorem storeView_step (s : MSt) (h : MInv s) (op : MOp) : storeView (mstep s op).1 = effect s op (storeView s) := by
  cases op with
  | set v k x =>
    cases hv : s.views.lookup v with
    | none => simp [mstep, effect, hv]
    | some rv =>
      by_cases hkx : k ∈ s.known ∧ x ∈ s.known
      · simp only [mstep, effect, hv, hkx, and_self, if_true, storeView, fullKey]
        exact (mapSet_ok s.mem s.m _ x h.owned_lt).2 (h.known_lt x hkx.2)
      · simp [mstep, effect, hv, hkx]
  | del v k =>
    cases hv : s.views.lookup v with
    | none => simp [mstep, effect, hv]
    | some rv =>
      by_cases hk : k ∈ s.known
      · simp only [mstep, effect, hv, hk, if_true, storeView, fullKey, deref_rdel]
      · simp [mstep, effect, hv, hk]
  | delp v p =>
    cases hv : s.views.lookup v with
    | none => simp [mstep, effect, hv]
    | some rv =>
      by_cases hk : p ∈ s.known
      · simp only [mstep, effect, hv, hk, if_true, storeView, fullKey, deref_rdelPfx]
      · simp [mstep, effect, hv, hk]
  | commit b =>
    cases hl : s.batches.lookup b with
    | none => simp [mstep, effect, hl]
    | some bt =>
      have hs : ∀ e ∈ bt.sets, e.2 < s.mem.next :=
        fun e he => h.known_lt _ (h.batch_known (b, bt) (lookup_mem' hl) e he)
      obtain ⟨_, hd⟩ := commitSets_ok (s.mem.read bt.realm) bt.sets s.mem s.m h.owned_lt hs
      simp only [mstep, effect, hl, storeView, dbCommit, Bool.false_eq_true, if_false]
      rw [deref_foldr_rdel, hd, foldr_deref_sets]
  | alloc b => exact storeView_unchanged s h _ rfl
  | write r b => exact storeView_unchanged s h _ rfl
  | withRealm v p r => exact storeView_unchanged s h _ rfl
  | withExtendedRealm v p r => exact storeView_unchanged s h _ rfl
  | realm v => exact storeView_unchanged s h _ rfl
  | get v k => exact storeView_unchanged s h _ rfl
  | has v k => exact storeView_unchanged s h _ rfl
  | iter v p d => exact storeView_unchanged s h _ rfl
  | iterk v p d => exact storeView_unchanged s h _ rfl
  | batch b v => exact storeView_unchanged s h _ rfl
  | bset b k x => exact storeView_unchanged s h _ rfl
  | bdel b k => exact storeView_unchanged s h _ rfl
  | cancel b => exact storeView_unchanged s h _ rfl

/-- The effects of a history, one after the other, each with the buffers as they read at that moment. -/
def effects : MSt → List MOp → AList → AList
  | _, [], m => m
  | s, op :: ops, m => effects (mstep s op).1 ops (effect s op m)

theorem storeView_run (s : MSt) (h : MInv s) (ops : List MOp) : storeView (mrun s ops) = effects s ops (storeView s) := by
  induction ops generalizing s with
  | nil => rfl
  | cons op rest ih =>
    simp only [mrun, effects]
    rw [ih _ (minv_step s h op), storeView_step s h op]

end Hive.KV.Mem
