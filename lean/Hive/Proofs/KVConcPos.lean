import Hive.Model.KVHist
import Hive.Proofs.KVConcLin
/-!
# C05 protocol model: where the events of a call sit in the trace

Positional invariant `HInv`, for every reachable configuration:
* a linearisation point sits after the invocation event of its call (`g1`) and before its response
  event, if any (`g2`);
* an access that is linearised after a `Close` point belongs to a call that was *invoked before* that
  `Close` point (`g3`): it had loaded the flag while it was still clear.
-/
namespace Hive.KV.Conc
open Hive.Conc

/-! ## lists -/

theorem getElem?_snoc {α : Type} (l : List α) (e x : α) (p : Nat) :
    (l ++ [e])[p]? = some x ↔ l[p]? = some x ∨ (p = l.length ∧ x = e) := by
  by_cases hp : p < l.length
  · rw [List.getElem?_append_left hp]
    constructor
    · exact Or.inl
    · rintro (h | ⟨h, _⟩)
      · exact h
      · omega
  · have hp' : l.length ≤ p := by omega
    rw [List.getElem?_append_right hp']
    have hn : l[p]? = none := List.getElem?_eq_none hp'
    rw [hn]
    by_cases h0 : p = l.length
    · subst h0; simp [eq_comm]
    · have : p - l.length ≠ 0 := by omega
      cases hq : p - l.length with
      | zero => exact absurd hq this
      | succ k => simp [h0]

theorem getElem?_lt {α : Type} {l : List α} {p : Nat} {x : α} (h : l[p]? = some x) : p < l.length := by
  rcases Nat.lt_or_ge p l.length with h' | h'
  · exact h'
  · rw [List.getElem?_eq_none h'] at h; cases h

theorem findIdx_snoc {α : Type} (p : α → Bool) (l : List α) (e : α) :
    (l ++ [e]).findIdx p =
      if l.findIdx p < l.length then l.findIdx p else if p e then l.length else l.length + 1 := by
  rw [List.findIdx_append]
  split
  · rfl
  · cases hp : p e <;> simp [List.findIdx_cons, hp] <;> omega

theorem findIdx_snoc_found {α : Type} (p : α → Bool) (l : List α) (e : α) (h : l.findIdx p < l.length) :
    (l ++ [e]).findIdx p = l.findIdx p := by
  rw [findIdx_snoc, if_pos h]

theorem findIdx_snoc_gt {α : Type} (p : α → Bool) (l : List α) (e : α) (k : Nat) (hk : k < l.length)
    (h : k < l.findIdx p) : k < (l ++ [e]).findIdx p := by
  rw [findIdx_snoc]
  split
  · exact h
  · split <;> omega

theorem findIdx_snoc_none {α : Type} (p : α → Bool) (l : List α) (e : α) (h : ∀ x ∈ l, p x = false)
    (he : p e = false) : (l ++ [e]).findIdx p = l.length + 1 := by
  have : (l ++ [e]).findIdx p = (l ++ [e]).length := by
    apply List.findIdx_eq_length_of_false
    intro x hx
    rcases List.mem_append.mp hx with hx | hx
    · exact h x hx
    · simp only [List.mem_singleton] at hx; subst hx; exact he
  simpa using this

/-! ## the invariant -/

/-- An access is still to come and the closed flag has been loaded (and found clear). -/
def pendingEff (u : Thread) : Prop := Instr.check ∉ u.code ∧ effsOf u.code ≠ []

structure HInv (c : Cfg Shared Thread) : Prop where
  g1 : ∀ p t i a o, c.1.tr[p]? = some (.lin t i a o) → invPos c.1.tr t i < p
  g2 : ∀ p t i a o, c.1.tr[p]? = some (.lin t i a o) → p < retPos c.1.tr t i
  g3 : ∀ p q t i a o e, c.1.tr[p]? = some (.lin t i (.eff a) o) → c.1.tr[q]? = some e → isCloseLin e = true →
    q < p → invPos c.1.tr t i < q
  c1 : c.1.closed = false → ∀ e ∈ c.1.tr, isCloseLin e = false
  u1 : ∀ u ∈ c.2, ∀ e ∈ c.1.tr, e.tid = u.tid → e.idx < u.idx ∨ (e.idx = u.idx ∧ u.cur ≠ none ∧ e.isRet = false)
  u2 : ∀ u ∈ c.2, u.cur ≠ none → invPos c.1.tr u.tid u.idx < c.1.tr.length
  u3 : ∀ u ∈ c.2, pendingEff u → ∀ q e, c.1.tr[q]? = some e → isCloseLin e = true → invPos c.1.tr u.tid u.idx < q

theorem pendingEff_busy {u : Thread} (hu : TInv u) (h : pendingEff u) : u.cur ≠ none := by
  intro hc
  have := hu.idle hc
  unfold pendingEff at h
  rw [this] at h
  exact h.2 rfl

/-- `closed.Load()` comes before every access: a freshly compiled call has no pending access with
the flag already loaded. -/
theorem not_pendingEff_compile (op : COp) : ¬ (Instr.check ∉ compile op ∧ effsOf (compile op) ≠ []) := by
  rintro ⟨h1, h2⟩
  cases op with
  | close => simp [compile, effsOf] at h2
  | commit b v r ws => simp [compile] at h1
  | fcommit b v r ws => simp [compile] at h1
  | batchOp b => simp [compile, batchCode, effsOf] at h2
  | callback => simp [compile, effsOf] at h2
  | _ => simp [compile, readCode, writeCode, fwriteCode, iterCode, flagCode] at h1

theorem effsOf_cons_ne (i : Instr) (rest : List Instr) (hi : ∀ a, i ≠ .eff a) : effsOf (i :: rest) = effsOf rest := by
  cases i <;> simp_all [effsOf]

/-- Membership helpers for `pre ++ t' :: post`. -/
theorem mem_mid {α : Type} {pre post : List α} {t u : α} (h : u ∈ pre ++ t :: post) :
    u = t ∨ u ∈ pre ∨ u ∈ post := by
  rcases List.mem_append.mp h with h | h
  · exact Or.inr (Or.inl h)
  · rcases List.mem_cons.mp h with h | h
    · exact Or.inl h
    · exact Or.inr (Or.inr h)

theorem tid_ne_of_nodup {pre post : List Thread} {t u : Thread}
    (hnd : ((pre ++ t :: post).map (·.tid)).Nodup) (hu : u ∈ pre ∨ u ∈ post) : u.tid ≠ t.tid := by
  simp only [List.map_append, List.map_cons] at hnd
  intro heq
  rw [List.nodup_append] at hnd
  obtain ⟨_, h2, h3⟩ := hnd
  rcases hu with hm | hm
  · exact h3 u.tid (List.mem_map.mpr ⟨u, hm, rfl⟩) t.tid (List.mem_cons_self ..) heq
  · rw [List.nodup_cons] at h2
    exact h2.1 (heq ▸ List.mem_map.mpr ⟨u, hm, rfl⟩)

/-- Transitions that log nothing. -/
theorem hinv_keep {s s' : Shared} {pre post : List Thread} {t t' : Thread}
    (h : HInv (s, pre ++ t :: post)) (htr : s'.tr = s.tr) (hcl : s'.closed = s.closed)
    (htid : t'.tid = t.tid) (hidx : t'.idx = t.idx) (hcur : t'.cur = t.cur)
    (hpe : pendingEff t' → pendingEff t ∨ s.closed = false) : HInv (s', pre ++ t' :: post) := by
  have hmem : t ∈ pre ++ t :: post := List.mem_append_right _ (List.mem_cons_self ..)
  have hold : ∀ u, u ∈ pre ∨ u ∈ post → u ∈ pre ++ t :: post := by
    intro u hu
    rcases hu with hu | hu
    · exact List.mem_append_left _ hu
    · exact List.mem_append_right _ (List.mem_cons_of_mem _ hu)
  refine ⟨?_, ?_, ?_, ?_, ?_, ?_, ?_⟩
  · intro p t0 i a o hp; simp only [htr] at hp ⊢; exact h.g1 p t0 i a o hp
  · intro p t0 i a o hp; simp only [htr] at hp ⊢; exact h.g2 p t0 i a o hp
  · intro p q t0 i a o e hp hq; simp only [htr] at hp hq ⊢; exact h.g3 p q t0 i a o e hp hq
  · intro hc e he; simp only [htr, hcl] at hc he; exact h.c1 hc e he
  · intro u hu e he htid'
    simp only [htr] at he
    rcases mem_mid hu with rfl | hu'
    · rw [htid] at htid'; rw [hidx, hcur]; exact h.u1 t hmem e he htid'
    · exact h.u1 u (hold u hu') e he htid'
  · intro u hu hc
    simp only [htr]
    rcases mem_mid hu with rfl | hu'
    · rw [htid, hidx]; rw [hcur] at hc; exact h.u2 t hmem hc
    · exact h.u2 u (hold u hu') hc
  · intro u hu hp q e hq hce
    simp only [htr] at hq ⊢
    rcases mem_mid hu with rfl | hu'
    · rw [htid, hidx]
      rcases hpe hp with hp' | hopen
      · exact h.u3 t hmem hp' q e hq hce
      · have := h.c1 hopen e (List.mem_of_getElem? hq)
        rw [this] at hce; cases hce
    · exact h.u3 u (hold u hu') hp q e hq hce

/-- Transitions of goroutine `t` that log one event `e` of its current call.  `hnew` describes the
obligations of the new position `n = tr.length`. -/
theorem hinv_log {s s' : Shared} {pre post : List Thread} {t t' : Thread} (e : Ev)
    (h : HInv (s, pre ++ t :: post)) (htinv : ∀ u ∈ pre ++ t :: post, TInv u)
    (hnd : ((pre ++ t :: post).map (·.tid)).Nodup)
    (htr : s'.tr = s.tr ++ [e]) (hetid : e.tid = t.tid) (htid : t'.tid = t.tid)
    -- the closed flag and close points
    (hc1 : s'.closed = false → s.closed = false ∧ isCloseLin e = false)
    -- the new event, if it is a linearisation point, belongs to the current call, which has not returned
    (hlin : ∀ t0 i a o, e = .lin t0 i a o → t0 = t.tid ∧ i = t.idx ∧ t.cur ≠ none)
    -- an access logged now was pending
    (heff : ∀ t0 i a o, e = .lin t0 i (.eff a) o → pendingEff t)
    -- the stepping goroutine afterwards
    (hu1 : ∀ x ∈ s.tr ++ [e], x.tid = t.tid → x.idx < t'.idx ∨ (x.idx = t'.idx ∧ t'.cur ≠ none ∧ x.isRet = false))
    (hu2 : t'.cur ≠ none → invPos (s.tr ++ [e]) t.tid t'.idx < s.tr.length + 1)
    (hu3 : pendingEff t' → t'.idx = t.idx ∧ pendingEff t ∧ isCloseLin e = false) :
    HInv (s', pre ++ t' :: post) := by
  have hmem : t ∈ pre ++ t :: post := List.mem_append_right _ (List.mem_cons_self ..)
  have hold : ∀ u, u ∈ pre ∨ u ∈ post → u ∈ pre ++ t :: post := by
    intro u hu
    rcases hu with hu | hu
    · exact List.mem_append_left _ hu
    · exact List.mem_append_right _ (List.mem_cons_of_mem _ hu)
  -- positions of old calls are unchanged
  have invOld : ∀ t0 i, invPos s.tr t0 i < s.tr.length → invPos (s.tr ++ [e]) t0 i = invPos s.tr t0 i :=
    fun t0 i hf => findIdx_snoc_found _ _ _ hf
  -- no response event of the current call of `t` yet
  have noRet : t.cur ≠ none → ∀ x ∈ s.tr, isRetOf t.tid t.idx x = false := by
    intro hcur x hx
    cases x with
    | ret t0 i o =>
      by_cases hm : t0 = t.tid ∧ i = t.idx
      · obtain ⟨rfl, rfl⟩ := hm
        rcases h.u1 t hmem _ hx rfl with hlt | ⟨_, _, hr⟩
        · simp [Ev.idx] at hlt
        · simp [Ev.isRet] at hr
      · simp only [isRetOf, Bool.and_eq_false_iff, beq_eq_false_iff_ne, ne_eq]
        by_cases h1 : t0 = t.tid
        · right; exact fun h2 => hm ⟨h1, h2⟩
        · left; exact h1
    | _ => rfl
  refine ⟨?_, ?_, ?_, ?_, ?_, ?_, ?_⟩
  · -- g1
    intro p t0 i a o hp
    simp only [htr] at hp ⊢
    rcases (getElem?_snoc _ _ _ _).mp hp with hp | ⟨hp, he⟩
    · have := h.g1 p t0 i a o hp
      have hlt := getElem?_lt hp
      rw [invOld t0 i (by simp only at this; omega)]; exact this
    · obtain ⟨rfl, rfl, hcur⟩ := hlin t0 i a o he.symm
      have hfound : invPos s.tr t.tid t.idx < s.tr.length := h.u2 t hmem hcur
      rw [invOld _ _ hfound]; omega
  · -- g2
    intro p t0 i a o hp
    simp only [htr] at hp ⊢
    rcases (getElem?_snoc _ _ _ _).mp hp with hp | ⟨hp, he⟩
    · exact findIdx_snoc_gt _ _ _ _ (getElem?_lt hp) (h.g2 p t0 i a o hp)
    · obtain ⟨rfl, rfl, hcur⟩ := hlin t0 i a o he.symm
      have : retPos (s.tr ++ [e]) t.tid t.idx = s.tr.length + 1 :=
        findIdx_snoc_none _ _ _ (noRet hcur) (by rw [← he]; rfl)
      rw [this]; omega
  · -- g3
    intro p q t0 i a o x hp hq hx hqp
    simp only [htr] at hp hq ⊢
    rcases (getElem?_snoc _ _ _ _).mp hp with hp | ⟨hp, he⟩
    · have hpl := getElem?_lt hp
      rcases (getElem?_snoc _ _ _ _).mp hq with hq | ⟨hq, _⟩
      · have h1 := h.g1 p t0 i _ o hp
        rw [invOld t0 i (by simp only at h1; omega)]
        exact h.g3 p q t0 i a o x hp hq hx hqp
      · omega
    · rcases (getElem?_snoc _ _ _ _).mp hq with hq | ⟨hq, _⟩
      · obtain ⟨rfl, rfl, hcur⟩ := hlin t0 i _ o he.symm
        have hpe := heff _ _ a o he.symm
        rw [invOld _ _ (h.u2 t hmem hcur)]
        exact h.u3 t hmem hpe q x hq hx
      · omega
  · -- c1
    intro hc x hx
    simp only [htr] at hx
    obtain ⟨hc0, hce⟩ := hc1 hc
    rcases List.mem_append.mp hx with hx | hx
    · exact h.c1 hc0 x hx
    · simp only [List.mem_singleton] at hx; subst hx; exact hce
  · -- u1
    intro u hu x hx hxt
    simp only [htr] at hx
    rcases mem_mid hu with rfl | hu'
    · rw [htid] at hxt; exact hu1 x hx hxt
    · have hne := tid_ne_of_nodup hnd hu'
      rcases List.mem_append.mp hx with hx | hx
      · exact h.u1 u (hold u hu') x hx hxt
      · simp only [List.mem_singleton] at hx; subst hx
        rw [hetid] at hxt; exact absurd hxt.symm hne
  · -- u2
    intro u hu hc
    simp only [htr, List.length_append, List.length_singleton]
    rcases mem_mid hu with rfl | hu'
    · rw [htid]; exact hu2 hc
    · have := h.u2 u (hold u hu') hc
      rw [invOld _ _ this]; simp only at this; omega
  · -- u3
    intro u hu hp q x hq hx
    simp only [htr] at hq ⊢
    rcases mem_mid hu with rfl | hu'
    · obtain ⟨hidx, hpt, hne⟩ := hu3 hp
      have hcur := pendingEff_busy (htinv t hmem) hpt
      rw [htid, hidx, invOld _ _ (h.u2 t hmem hcur)]
      rcases (getElem?_snoc _ _ _ _).mp hq with hq | ⟨_, hxe⟩
      · exact h.u3 t hmem hpt q x hq hx
      · rw [hxe, hne] at hx; cases hx
    · have hcur := pendingEff_busy (htinv u (hold u hu')) hp
      have hfound := h.u2 u (hold u hu') hcur
      rw [invOld _ _ hfound]
      rcases (getElem?_snoc _ _ _ _).mp hq with hq | ⟨hq, _⟩
      · exact h.u3 u (hold u hu') hp q x hq hx
      · rw [hq]; exact hfound

end Hive.KV.Conc
