import Hive.Model.EventsMax
/-!
# Counting invariant of the max-trigger-count protocol
-/
namespace Hive.EventsMax
open Hive.Conc

def isT (x : Th) (t : Th) : Bool := t == x
def notT0 (t : Th) : Bool := t != .t0

theorem exceeds_iff (max c : Nat) : Hive.Events.exceeds max c = true ↔ max ≠ 0 ∧ max < c := by
  simp [Hive.Events.exceeds]; exact And.comm

theorem minLim_succ_exceeds {lim x : Nat} (h : lim ≠ 0 ∧ lim < x + 1) : minLim lim (x + 1) = minLim lim x := by
  unfold minLim; simp [h.1]; omega

theorem minLim_succ_not_exceeds {lim x : Nat} (h : ¬ (lim ≠ 0 ∧ lim < x + 1)) : minLim lim (x + 1) = minLim lim x + 1 := by
  unfold minLim
  by_cases h0 : lim = 0
  · simp [h0]
  · simp [h0]; have : ¬ lim < x + 1 := fun hh => h ⟨h0, hh⟩; omega

structure Inv (c : Cfg Sh Th) : Prop where
  ec : c.1.ec = c.2.countP notT0
  passed : c.1.passed = minLim c.1.n c.1.ec
  fired : c.1.fired + c.2.countP (isT .t4) = minLim c.1.m c.1.hc
  visits : c.1.passed = c.1.hc + c.2.countP (isT .t1) + c.2.countP (isT .t2) + c.1.skipped
  gone : (0 < c.2.countP (isT .t3) ∨ c.1.attached = false) → c.1.m ≠ 0 ∧ c.1.m < c.1.hc
  skipped : 0 < c.1.skipped → c.1.attached = false

theorem inv_step {a b : Cfg Sh Th} (h : Inv a) (hs : Step sys a b) : Inv b := by
  cases hs with
  | mk s pre t post s' t' hm =>
    obtain ⟨h1, h2, h3, h4, h5, h6⟩ := h
    simp only [countP_mid] at h1 h3 h4 h5
    simp only at h2 h6
    simp only [sys] at hm
    cases t with
    | t0 =>
      simp only [step] at hm
      simp [isT, notT0] at h1 h3 h4 h5
      by_cases hx : s.n ≠ 0 ∧ s.n < s.ec + 1
      · rw [if_pos ((exceeds_iff _ _).mpr hx)] at hm
        simp only [List.mem_singleton, Prod.mk.injEq] at hm
        obtain ⟨rfl, rfl⟩ := hm
        have hmin := minLim_succ_exceeds hx
        constructor
        all_goals (try simp only [countP_mid])
        all_goals (try simp [isT, notT0])
        all_goals first | omega | exact h5 | exact h6
      · rw [if_neg (fun hh => hx ((exceeds_iff _ _).mp hh))] at hm
        simp only [List.mem_singleton, Prod.mk.injEq] at hm
        obtain ⟨rfl, rfl⟩ := hm
        have hmin := minLim_succ_not_exceeds hx
        constructor
        all_goals (try simp only [countP_mid])
        all_goals (try simp [isT, notT0])
        all_goals first | omega | exact h5 | exact h6
    | t1 =>
      simp only [step] at hm
      simp [isT, notT0] at h1 h3 h4 h5
      by_cases ha : s.attached = true
      · rw [if_pos ha] at hm
        simp only [List.mem_singleton, Prod.mk.injEq] at hm
        obtain ⟨rfl, rfl⟩ := hm
        constructor
        all_goals (try simp only [countP_mid])
        all_goals (try simp [isT, notT0])
        all_goals first | omega | exact h5 | exact h6
      · rw [if_neg ha] at hm
        simp only [List.mem_singleton, Prod.mk.injEq] at hm
        obtain ⟨rfl, rfl⟩ := hm
        constructor
        all_goals (try simp only [countP_mid])
        all_goals (try simp [isT, notT0])
        all_goals first | omega | exact h5 | exact h6 | (simpa using ha)
    | t2 =>
      simp only [step] at hm
      simp [isT, notT0] at h1 h3 h4 h5
      by_cases hx : s.m ≠ 0 ∧ s.m < s.hc + 1
      · rw [if_pos ((exceeds_iff _ _).mpr hx)] at hm
        simp only [List.mem_singleton, Prod.mk.injEq] at hm
        obtain ⟨rfl, rfl⟩ := hm
        have hmin := minLim_succ_exceeds hx
        constructor
        all_goals (try simp only [countP_mid])
        all_goals (try simp [isT, notT0])
        all_goals first | omega | exact h6 | exact hx
      · rw [if_neg (fun hh => hx ((exceeds_iff _ _).mp hh))] at hm
        simp only [List.mem_singleton, Prod.mk.injEq] at hm
        obtain ⟨rfl, rfl⟩ := hm
        have hmin := minLim_succ_not_exceeds hx
        constructor
        all_goals (try simp only [countP_mid])
        all_goals (try simp [isT, notT0])
        all_goals first | omega | exact h6 | (intro hh; have := h5 hh; exact ⟨this.1, by omega⟩)
    | t3 =>
      simp only [step, List.mem_singleton, Prod.mk.injEq] at hm
      obtain ⟨rfl, rfl⟩ := hm
      simp [isT, notT0] at h1 h3 h4 h5
      constructor
      all_goals (try simp only [countP_mid])
      all_goals (try simp [isT, notT0])
      all_goals first | omega | exact h5
    | t4 =>
      simp only [step, List.mem_singleton, Prod.mk.injEq] at hm
      obtain ⟨rfl, rfl⟩ := hm
      simp [isT, notT0] at h1 h3 h4 h5
      constructor
      all_goals (try simp only [countP_mid])
      all_goals (try simp [isT, notT0])
      all_goals first | omega | exact h5 | exact h6
    | fin => simp [step] at hm

theorem inv_init (n m : Nat) (ts : List Th) (hts : ∀ t ∈ ts, t = .t0) : Inv (init n m, ts) := by
  have hz : ∀ p : Th → Bool, p .t0 = false → ts.countP p = 0 := by
    intro p hp
    rw [List.countP_eq_zero]
    intro t ht; rw [hts t ht, hp]; simp
  constructor
  · simp [init, hz notT0 (by rfl)]
  · simp [init, minLim]
  · simp [init, minLim, hz (isT .t4) (by rfl)]
  · simp [init, hz (isT .t1) (by rfl), hz (isT .t2) (by rfl)]
  · simp [init, hz (isT .t3) (by rfl)]
  · simp [init]

/-- The limits never change. -/
theorem lim_step {a b : Cfg Sh Th} (hs : Step sys a b) : b.1.n = a.1.n ∧ b.1.m = a.1.m := by
  cases hs with
  | mk s pre t post s' t' hm =>
    simp only [sys] at hm
    cases t <;> simp only [step] at hm
    · split at hm <;> simp at hm <;> obtain ⟨rfl, rfl⟩ := hm <;> exact ⟨rfl, rfl⟩
    · split at hm <;> simp at hm <;> obtain ⟨rfl, rfl⟩ := hm <;> exact ⟨rfl, rfl⟩
    · split at hm <;> simp at hm <;> obtain ⟨rfl, rfl⟩ := hm <;> exact ⟨rfl, rfl⟩
    · simp at hm; obtain ⟨rfl, rfl⟩ := hm; exact ⟨rfl, rfl⟩
    · simp at hm; obtain ⟨rfl, rfl⟩ := hm; exact ⟨rfl, rfl⟩
    · simp at hm

end Hive.EventsMax
