import Hive.Model.TypedConc
/-! The serial-order judge of the gate schedules is sound (it only accepts when a permutation of the
queued calls replays) and complete for the order in which the calls actually ran. -/
namespace Hive.Typed.Conc

theorem perm_getElem_eraseIdx {α : Type} : ∀ (l : List α) (i : Nat) (h : i < l.length), (l[i] :: l.eraseIdx i).Perm l
  | a :: as, 0, _ => by simp
  | a :: as, i + 1, h => by
    have h' : i < as.length := by simpa using h
    have ih := perm_getElem_eraseIdx as i h'
    simp only [List.getElem_cons_succ, List.eraseIdx_cons_succ]
    exact (List.Perm.swap a as[i] (as.eraseIdx i)).trans (List.Perm.cons a ih)

theorem replayG_cons (st : Nat) (o : GOp) (rest : List GOp) :
    replayG st (o :: rest) = (applyG st o).bind fun st' => replayG st' rest := rfl

theorem serialSearch_sound : ∀ (fuel st : Nat) (ops : List GOp) (final : Nat),
    serialSearch fuel st ops final = true → ∃ l, l.Perm ops ∧ replayG st l = some final := by
  intro fuel
  induction fuel with
  | zero =>
    intro st ops final h
    cases ops with
    | nil => simp [serialSearch] at h; exact ⟨[], List.Perm.refl _, by simp [replayG, h]⟩
    | cons o rest => simp [serialSearch] at h
  | succ fuel ih =>
    intro st ops final h
    cases ops with
    | nil => simp [serialSearch] at h; exact ⟨[], List.Perm.refl _, by simp [replayG, h]⟩
    | cons o0 rest0 =>
      simp only [serialSearch, List.any_eq_true, List.mem_range] at h
      obtain ⟨i, hi, hm⟩ := h
      have hget : (o0 :: rest0)[i]? = some (o0 :: rest0)[i] := List.getElem?_eq_getElem hi
      rw [hget] at hm
      simp only at hm
      cases ha : applyG st (o0 :: rest0)[i] with
      | none => simp [ha] at hm
      | some st' =>
        simp only [ha] at hm
        obtain ⟨l', hp, hr⟩ := ih st' _ final hm
        refine ⟨(o0 :: rest0)[i] :: l', ?_, ?_⟩
        · exact (List.Perm.cons _ hp).trans (perm_getElem_eraseIdx _ i hi)
        · rw [replayG_cons, ha]; exact hr

/-- Soundness: the judge accepts only if some order of the calls replays to the final state. -/
theorem serialOk_sound (init : Nat) (ops : List GOp) (final : Nat) (h : serialOk init ops final = true) :
    ∃ l, l.Perm ops ∧ replayG init l = some final :=
  serialSearch_sound _ _ _ _ h

theorem serialSearch_complete : ∀ (ops : List GOp) (fuel st final : Nat), ops.length < fuel →
    replayG st ops = some final → serialSearch fuel st ops final = true := by
  intro ops
  induction ops with
  | nil =>
    intro fuel st final _ h
    simp only [replayG, Option.some.injEq] at h
    cases fuel <;> simp [serialSearch, h]
  | cons o rest ih =>
    intro fuel st final hf h
    cases fuel with
    | zero => simp at hf
    | succ fuel =>
      rw [replayG_cons] at h
      cases ha : applyG st o with
      | none => simp [ha] at h
      | some st' =>
        simp only [ha, Option.bind_some] at h
        simp only [serialSearch, List.any_eq_true, List.mem_range]
        refine ⟨0, by simp, ?_⟩
        simp only [List.getElem?_cons_zero, ha, List.eraseIdx_cons_zero]
        exact ih fuel st' final (by simpa using hf) h

/-- Completeness for the actual order: if the calls, in the order in which they took the lock,
replay from `init` to `final` (which is what `C06_serialised` says about the log), the judge accepts. -/
theorem serialOk_complete (init : Nat) (ops : List GOp) (final : Nat) (h : replayG init ops = some final) :
    serialOk init ops final = true :=
  serialSearch_complete ops _ _ _ (Nat.lt_succ_self _) h

end Hive.Typed.Conc
