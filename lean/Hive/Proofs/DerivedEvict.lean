import Hive.Model.DerivedEvict
import Hive.Proofs.DerivedCounter
/-! # EvictionState under concurrency: invariant over all reachable configurations -/
namespace Hive.Derived
open Hive.Conc

structure EVPInv (c : Cfg EV EVT) : Prop where
  above : ∀ e ∈ c.1.events, c.1.evicted e = false
  handed : ∀ e, e ∈ c.1.handed ↔ (e ∈ c.1.events ∨ e ∈ c.1.trig ∨ ∃ t ∈ c.2, e ∈ t.todo)
  below : ∀ e ∈ c.1.trig, c.1.evicted e = true
  pending : ∀ t ∈ c.2, ∀ e ∈ t.todo, c.1.evicted e = true

theorem evpInv_init (ts : List EVT) (h : ∀ t ∈ ts, t.todo = []) : EVPInv (EV.init, ts) := by
  refine ⟨by simp [EV.init], ?_, by simp [EV.init], ?_⟩
  · intro e
    simp only [EV.init, List.not_mem_nil, false_or, false_iff, not_exists, not_and]
    intro t ht
    simp [h t ht]
  · intro t ht e he
    simp [h t ht] at he

theorem evicted_mono (s : EV) (slot e : Int) (hne : s.evicted slot = false) (he : s.evicted e = true) :
    ({ s with last := some slot } : EV).evicted e = true := by
  cases hl : s.last with
  | none => simp [EV.evicted, hl] at he
  | some l =>
    simp [EV.evicted, hl] at he hne ⊢
    omega

theorem evpInv_step (a b : Cfg EV EVT) (h : EVPInv a) (hs : Step evSys a b) : EVPInv b := by
  cases hs with
  | mk s pre t post s' t' hmem =>
    obtain ⟨todo, script⟩ := t
    have hmemT : ∀ u, u ∈ pre ++ (⟨todo, script⟩ : EVT) :: post ↔ (u ∈ pre ∨ u = ⟨todo, script⟩ ∨ u ∈ post) := by
      intro u; simp [List.mem_append]
    have hmemT' : ∀ u, u ∈ pre ++ t' :: post ↔ (u ∈ pre ∨ u = t' ∨ u ∈ post) := by
      intro u; simp [List.mem_append]
    cases todo with
    | cons e rest =>
      simp only [evSys, evStep, List.mem_singleton, Prod.mk.injEq] at hmem
      obtain ⟨rfl, rfl⟩ := hmem
      refine ⟨h.above, ?_, ?_, ?_⟩
      · intro x
        rw [h.handed x]
        simp only [List.mem_append, List.mem_singleton, hmemT, hmemT']
        constructor
        · rintro (h1 | h1 | ⟨u, hu, hx⟩)
          · exact Or.inl h1
          · exact Or.inr (Or.inl (Or.inl h1))
          · rcases hu with hu | rfl | hu
            · exact Or.inr (Or.inr ⟨u, Or.inl hu, hx⟩)
            · simp only [List.mem_cons] at hx
              rcases hx with rfl | hx
              · exact Or.inr (Or.inl (Or.inr rfl))
              · exact Or.inr (Or.inr ⟨_, Or.inr (Or.inl rfl), hx⟩)
            · exact Or.inr (Or.inr ⟨u, Or.inr (Or.inr hu), hx⟩)
        · rintro (h1 | (h1 | rfl) | ⟨u, hu, hx⟩)
          · exact Or.inl h1
          · exact Or.inr (Or.inl h1)
          · exact Or.inr (Or.inr ⟨_, Or.inr (Or.inl rfl), List.mem_cons_self ..⟩)
          · rcases hu with hu | rfl | hu
            · exact Or.inr (Or.inr ⟨u, Or.inl hu, hx⟩)
            · exact Or.inr (Or.inr ⟨_, Or.inr (Or.inl rfl), List.mem_cons_of_mem _ hx⟩)
            · exact Or.inr (Or.inr ⟨u, Or.inr (Or.inr hu), hx⟩)
      · intro x hx
        simp only [List.mem_append, List.mem_singleton] at hx
        rcases hx with hx | rfl
        · exact h.below x hx
        · exact h.pending _ ((hmemT _).2 (Or.inr (Or.inl rfl))) _ (List.mem_cons_self ..)
      · intro u hu x hx
        rcases (hmemT' u).1 hu with hu | rfl | hu
        · exact h.pending u ((hmemT u).2 (Or.inl hu)) x hx
        · exact h.pending _ ((hmemT _).2 (Or.inr (Or.inl rfl))) x (List.mem_cons_of_mem _ hx)
        · exact h.pending u ((hmemT u).2 (Or.inr (Or.inr hu))) x hx
    | nil =>
      cases script with
      | nil => simp [evSys, evStep] at hmem
      | cons call sc =>
        -- threads other than the moving one keep their todo lists; the moving one had none
        have hother : ∀ x, (∃ u ∈ pre ++ (⟨[], call :: sc⟩ : EVT) :: post, x ∈ u.todo) ↔
            (∃ u, (u ∈ pre ∨ u ∈ post) ∧ x ∈ u.todo) := by
          intro x
          constructor
          · rintro ⟨u, hu, hx⟩
            rcases (hmemT u).1 hu with hu | rfl | hu
            · exact ⟨u, Or.inl hu, hx⟩
            · simp at hx
            · exact ⟨u, Or.inr hu, hx⟩
          · rintro ⟨u, hu | hu, hx⟩
            · exact ⟨u, (hmemT u).2 (Or.inl hu), hx⟩
            · exact ⟨u, (hmemT u).2 (Or.inr (Or.inr hu)), hx⟩
        cases call with
        | event slot =>
          simp only [evSys, evStep, List.mem_singleton, Prod.mk.injEq] at hmem
          obtain ⟨rfl, rfl⟩ := hmem
          have hsame : ∀ x, (∃ u ∈ pre ++ (⟨[], sc⟩ : EVT) :: post, x ∈ u.todo) ↔
              (∃ u ∈ pre ++ (⟨[], EVCall.event slot :: sc⟩ : EVT) :: post, x ∈ u.todo) := by
            intro x
            rw [hother x]
            constructor
            · rintro ⟨u, hu, hx⟩
              rcases (hmemT' u).1 hu with hu | rfl | hu
              · exact ⟨u, Or.inl hu, hx⟩
              · simp at hx
              · exact ⟨u, Or.inr hu, hx⟩
            · rintro ⟨u, hu | hu, hx⟩
              · exact ⟨u, (hmemT' u).2 (Or.inl hu), hx⟩
              · exact ⟨u, (hmemT' u).2 (Or.inr (Or.inr hu)), hx⟩
          simp only [EV.step]
          split
          · exact ⟨h.above, fun x => by rw [h.handed x, hsame x], h.below, fun u hu x hx => by
              rcases (hmemT' u).1 hu with hu | rfl | hu
              · exact h.pending u ((hmemT u).2 (Or.inl hu)) x hx
              · simp at hx
              · exact h.pending u ((hmemT u).2 (Or.inr (Or.inr hu))) x hx⟩
          · rename_i hne
            split
            · exact ⟨h.above, fun x => by rw [h.handed x, hsame x], h.below, fun u hu x hx => by
                rcases (hmemT' u).1 hu with hu | rfl | hu
                · exact h.pending u ((hmemT u).2 (Or.inl hu)) x hx
                · simp at hx
                · exact h.pending u ((hmemT u).2 (Or.inr (Or.inr hu))) x hx⟩
            · refine ⟨?_, ?_, h.below, ?_⟩
              · intro e he
                simp only [List.mem_cons] at he
                rcases he with rfl | he
                · simpa [EV.evicted] using hne
                · exact h.above e he
              · intro x
                simp only [List.mem_cons, h.handed x, hsame x]
                constructor
                · rintro (rfl | h1 | h2 | h3)
                  · exact Or.inl (Or.inl rfl)
                  · exact Or.inl (Or.inr h1)
                  · exact Or.inr (Or.inl h2)
                  · exact Or.inr (Or.inr h3)
                · rintro ((rfl | h1) | h2 | h3)
                  · exact Or.inl rfl
                  · exact Or.inr (Or.inl h1)
                  · exact Or.inr (Or.inr (Or.inl h2))
                  · exact Or.inr (Or.inr (Or.inr h3))
              · intro u hu x hx
                rcases (hmemT' u).1 hu with hu | rfl | hu
                · exact h.pending u ((hmemT u).2 (Or.inl hu)) x hx
                · simp at hx
                · exact h.pending u ((hmemT u).2 (Or.inr (Or.inr hu))) x hx
        | evict slot =>
          simp only [evSys, evStep] at hmem
          split at hmem
          · simp only [List.mem_singleton, Prod.mk.injEq] at hmem
            obtain ⟨rfl, rfl⟩ := hmem
            refine ⟨h.above, fun x => ?_, h.below, fun u hu x hx => ?_⟩
            · rw [h.handed x, hother x]
              constructor
              · rintro (h1 | h1 | ⟨u, hu, hx⟩)
                · exact Or.inl h1
                · exact Or.inr (Or.inl h1)
                · rcases hu with hu | hu
                  · exact Or.inr (Or.inr ⟨u, (hmemT' u).2 (Or.inl hu), hx⟩)
                  · exact Or.inr (Or.inr ⟨u, (hmemT' u).2 (Or.inr (Or.inr hu)), hx⟩)
              · rintro (h1 | h1 | ⟨u, hu, hx⟩)
                · exact Or.inl h1
                · exact Or.inr (Or.inl h1)
                · rcases (hmemT' u).1 hu with hu | rfl | hu
                  · exact Or.inr (Or.inr ⟨u, Or.inl hu, hx⟩)
                  · simp at hx
                  · exact Or.inr (Or.inr ⟨u, Or.inr hu, hx⟩)
            · rcases (hmemT' u).1 hu with hu | rfl | hu
              · exact h.pending u ((hmemT u).2 (Or.inl hu)) x hx
              · simp at hx
              · exact h.pending u ((hmemT u).2 (Or.inr (Or.inr hu))) x hx
          · rename_i hne
            have hne' : s.evicted slot = false := by simpa using hne
            simp only [List.mem_singleton, Prod.mk.injEq] at hmem
            obtain ⟨rfl, rfl⟩ := hmem
            have hlast : ∀ l, s.last = some l → l < slot := by
              intro l hl
              simp [EV.evicted, hl] at hne'
              omega
            refine ⟨?_, ?_, ?_, ?_⟩
            · intro e he
              simp only [List.mem_filter] at he
              simp only [EV.evicted]
              simpa using he.2
            · intro x
              rw [h.handed x, hother x]
              simp only [List.mem_filter]
              constructor
              · rintro (h1 | h1 | ⟨u, hu, hx⟩)
                · by_cases hr : x ≤ slot
                  · refine Or.inr (Or.inr ⟨_, (hmemT' _).2 (Or.inr (Or.inl rfl)), ?_⟩)
                    exact (mem_evFire _ _ _).2 ⟨h1, hr⟩
                  · exact Or.inl ⟨h1, by simpa using hr⟩
                · exact Or.inr (Or.inl h1)
                · rcases hu with hu | hu
                  · exact Or.inr (Or.inr ⟨u, (hmemT' u).2 (Or.inl hu), hx⟩)
                  · exact Or.inr (Or.inr ⟨u, (hmemT' u).2 (Or.inr (Or.inr hu)), hx⟩)
              · rintro (h1 | h1 | ⟨u, hu, hx⟩)
                · exact Or.inl h1.1
                · exact Or.inr (Or.inl h1)
                · rcases (hmemT' u).1 hu with hu | rfl | hu
                  · exact Or.inr (Or.inr ⟨u, Or.inl hu, hx⟩)
                  · exact Or.inl ((mem_evFire _ _ _).1 hx).1
                  · exact Or.inr (Or.inr ⟨u, Or.inr hu, hx⟩)
            · intro e he
              exact evicted_mono s slot e hne' (h.below e he)
            · intro u hu x hx
              rcases (hmemT' u).1 hu with hu | rfl | hu
              · exact evicted_mono s slot x hne' (h.pending u ((hmemT u).2 (Or.inl hu)) x hx)
              · have := ((mem_evFire _ _ _).1 hx).2
                simp only [EV.evicted]
                simpa using this
              · exact evicted_mono s slot x hne' (h.pending u ((hmemT u).2 (Or.inr (Or.inr hu))) x hx)

theorem evpInv_reach (ts : List EVT) (h0 : ∀ t ∈ ts, t.todo = []) (c : Cfg EV EVT)
    (hr : Reach evSys (EV.init, ts) c) : EVPInv c :=
  inv_induction EVPInv (evpInv_init ts h0) evpInv_step hr

end Hive.Derived
