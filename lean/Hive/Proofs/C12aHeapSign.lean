import Hive.Proofs.C12aHeapPerm
/-!
# The heap looks at `CompareTo` only through its sign

Two comparators whose results have the same sign everywhere (`SameSign`: the same pairs answer `< 0`,
the same pairs answer `≤ 0`) drive the array heap through exactly the same states and answers, for
every history — whatever the magnitudes are (`-1/0/1`, `a - b`, `MinInt64/MaxInt64` …).  A `Less`
that tests `CompareTo == -1` (seeded change r6-1) does not have this property.
-/
namespace Hive.C12a.Heap

/-- `c` and `d` agree in sign on every pair of keys. -/
def SameSign (c d : Cmp) : Prop := ∀ a b, (c.f a b < 0 ↔ d.f a b < 0) ∧ (c.f a b ≤ 0 ↔ d.f a b ≤ 0)

theorem lessK_sameSign {c d : Cmp} (h : SameSign c d) (a b : Int) : lessK d a b = lessK c a b := by
  simp only [lessK]; exact decide_eq_decide.2 (h a b).1.symm

theorem leK_sameSign {c d : Cmp} (h : SameSign c d) (a b : Int) : leK d a b = leK c a b := by
  simp only [leK]; exact decide_eq_decide.2 (h a b).2.symm

/-- The same array and index table under another comparator. -/
def St.withCmp (s : St) (d : Cmp) : St := { s with cmp := d }

@[simp] theorem withCmp_arr (s : St) (d) : (s.withCmp d).arr = s.arr := rfl
@[simp] theorem withCmp_idx (s : St) (d) : (s.withCmp d).idx = s.idx := rfl
@[simp] theorem withCmp_cmp (s : St) (d) : (s.withCmp d).cmp = d := rfl
@[simp] theorem withCmp_at (s : St) (d) (i) : (s.withCmp d).at i = s.at i := rfl

theorem less_withCmp (s : St) (d) (h : SameSign s.cmp d) (i j) :
    less (s.withCmp d) i j = less s i j := by
  simp [less, lessK_sameSign h]

theorem swap_withCmp (s : St) (d) (i j) : swap (s.withCmp d) i j = (swap s i j).withCmp d := rfl

theorem up_withCmp (s : St) (d) (h : SameSign s.cmp d) (j) :
    up (s.withCmp d) j = (up s j).withCmp d := by
  fun_induction up s j with
  | case1 s => rw [up]; simp
  | case2 s j h0 hl ih =>
    rw [up]; simp only [h0, ↓reduceDIte, less_withCmp s d h, hl, ↓reduceIte, swap_withCmp]
    exact ih (by simpa using h)
  | case3 s j h0 hl =>
    rw [up]; simp only [h0, ↓reduceDIte, less_withCmp s d h, hl]; simp

theorem child_withCmp (s : St) (d) (h : SameSign s.cmp d) (i n) :
    child (s.withCmp d) i n = child s i n := by
  simp [child, less_withCmp s d h]

theorem down_withCmp (s : St) (d) (h : SameSign s.cmp d) (i n) :
    down (s.withCmp d) i n = ((down s i n).1.withCmp d, (down s i n).2) := by
  fun_induction down s i n with
  | case1 s i hn hl ih =>
    rw [down]; simp only [hn, ↓reduceDIte, child_withCmp s d h, less_withCmp s d h, hl, ↓reduceIte,
      swap_withCmp]
    exact ih (by simpa using h)
  | case2 s i hn hl =>
    rw [down]; simp only [hn, ↓reduceDIte, child_withCmp s d h, less_withCmp s d h, hl]; simp
  | case3 s i hn => rw [down]; simp [hn]

theorem pushLast_withCmp (s : St) (d) (e) : pushLast (s.withCmp d) e = (pushLast s e).withCmp d := rfl
theorem popLast_withCmp (s : St) (d) :
    popLast (s.withCmp d) = ((popLast s).1.withCmp d, (popLast s).2) := rfl
theorem alloc_withCmp (s : St) (d) (p v) :
    alloc (s.withCmp d) p v = ((alloc s p v).1.withCmp d, (alloc s p v).2) := rfl

theorem heapPush_withCmp (s : St) (d) (h : SameSign s.cmp d) (e) :
    heapPush (s.withCmp d) e = (heapPush s e).withCmp d := by
  simp only [heapPush, pushLast_withCmp]
  exact up_withCmp _ d (by simpa using h) _

theorem heapPop_withCmp (s : St) (d) (h : SameSign s.cmp d) :
    heapPop (s.withCmp d) = ((heapPop s).1.withCmp d, (heapPop s).2) := by
  simp only [heapPop, withCmp_arr, swap_withCmp]
  rw [down_withCmp _ d (by simpa using h)]
  exact popLast_withCmp _ d

theorem heapRemove_withCmp (s : St) (d) (h : SameSign s.cmp d) (i) :
    heapRemove (s.withCmp d) i = ((heapRemove s i).1.withCmp d, (heapRemove s i).2) := by
  have e := down_withCmp (swap s i (s.arr.length - 1)) d (by simpa using h) i (s.arr.length - 1)
  have u := up_withCmp (down (swap s i (s.arr.length - 1)) i (s.arr.length - 1)).1 d
    (by simpa using h) i
  unfold heapRemove
  simp only [withCmp_arr, swap_withCmp, e]
  by_cases hn : s.arr.length - 1 ≠ i
  · simp only [hn, ne_eq, not_false_eq_true, ↓reduceIte]
    by_cases hm : (down (swap s i (s.arr.length - 1)) i (s.arr.length - 1)).2 > i
    · simp only [hm, not_true_eq_false, ↓reduceIte]
      exact popLast_withCmp _ d
    · simp only [hm, not_false_eq_true, ↓reduceIte, u]
      exact popLast_withCmp _ d
  · have hn2 : s.arr.length - 1 = i := by omega
    simp only [hn2, ne_eq, not_true_eq_false, ↓reduceIte]
    exact popLast_withCmp _ d

theorem push_withCmp (s : St) (d) (h : SameSign s.cmp d) (v p) :
    push (s.withCmp d) v p = ((push s v p).1.withCmp d, (push s v p).2) := by
  simp only [push, alloc_withCmp]
  rw [heapPush_withCmp _ d (by simpa using h)]

theorem removeHandle_withCmp (s : St) (d) (h : SameSign s.cmp d) (k) :
    removeHandle (s.withCmp d) k = (removeHandle s k).withCmp d := by
  unfold removeHandle
  by_cases hc : s.idx.getD k (-1) ≠ -1
  · have hc' : (s.withCmp d).idx.getD k (-1) ≠ -1 := hc
    rw [if_pos hc, if_pos hc', withCmp_idx, heapRemove_withCmp _ d h]
  · have hc' : ¬ (s.withCmp d).idx.getD k (-1) ≠ -1 := hc
    rw [if_neg hc, if_neg hc']

theorem pop_withCmp (s : St) (d) (h : SameSign s.cmp d) :
    pop (s.withCmp d) = ((pop s).1.withCmp d, (pop s).2) := by
  unfold pop
  by_cases hc : s.arr.length ≠ 0
  · have hc' : (s.withCmp d).arr.length ≠ 0 := hc
    rw [if_pos hc, if_pos hc', heapPop_withCmp _ d h]
  · have hc' : ¬ (s.withCmp d).arr.length ≠ 0 := hc
    rw [if_neg hc, if_neg hc']

theorem peek_withCmp (s : St) (d) : peek (s.withCmp d) = peek s := rfl

theorem popUntilAux_withCmp (p : Int) (d) (fuel : Nat) (s : St) (h : SameSign s.cmp d) (acc) :
    popUntilAux p fuel (s.withCmp d) acc =
      ((popUntilAux p fuel s acc).1.withCmp d, (popUntilAux p fuel s acc).2) := by
  induction fuel generalizing s acc with
  | zero => rfl
  | succ fuel ih =>
    have e := heapPop_withCmp s d h
    by_cases hc : s.arr.length ≠ 0 ∧ leK s.cmp (s.at 0).key p = true
    · have hc' : (s.withCmp d).arr.length ≠ 0 ∧ leK (s.withCmp d).cmp ((s.withCmp d).at 0).key p = true := by
        simpa [leK_sameSign h] using hc
      rw [popUntilAux, popUntilAux, if_pos hc, if_pos hc', e]
      exact ih _ (by simpa using h) _
    · have hc' : ¬ ((s.withCmp d).arr.length ≠ 0 ∧ leK (s.withCmp d).cmp ((s.withCmp d).at 0).key p = true) := by
        simpa [leK_sameSign h] using hc
      rw [popUntilAux, popUntilAux, if_neg hc, if_neg hc']

theorem popAllAux_withCmp (d) (fuel : Nat) (s : St) (h : SameSign s.cmp d) (acc) :
    popAllAux fuel (s.withCmp d) acc =
      ((popAllAux fuel s acc).1.withCmp d, (popAllAux fuel s acc).2) := by
  induction fuel generalizing s acc with
  | zero => rfl
  | succ fuel ih =>
    have e := heapPop_withCmp s d h
    by_cases hc : s.arr.length ≠ 0
    · have hc' : (s.withCmp d).arr.length ≠ 0 := hc
      rw [popAllAux, popAllAux, if_pos hc, if_pos hc', e]
      exact ih _ (by simpa using h) _
    · have hc' : ¬ (s.withCmp d).arr.length ≠ 0 := hc
      rw [popAllAux, popAllAux, if_neg hc, if_neg hc']

/-- One step under a sign-equivalent comparator: the same answer, the same array and index table. -/
theorem step_withCmp (s : St) (d) (h : SameSign s.cmp d) (op : Op) :
    step (s.withCmp d) op = ((step s op).1.withCmp d, (step s op).2) := by
  cases op with
  | push v p => simp only [step, push_withCmp s d h]
  | remove k => simp only [step, removeHandle_withCmp s d h]
  | peek => simp only [step, peek_withCmp]
  | pop => simp only [step, pop_withCmp s d h]
  | popUntil p => simp only [step, popUntil, withCmp_arr, popUntilAux_withCmp p d _ s h]
  | popAll => simp only [step, popAll, withCmp_arr, popAllAux_withCmp d _ s h]
  | size => rfl
  | isEmpty => rfl

theorem popUntilAux_cmp' (p : Int) (fuel : Nat) (s : St) (acc) :
    (popUntilAux p fuel s acc).1.cmp = s.cmp := by
  induction fuel generalizing s acc with
  | zero => rfl
  | succ fuel ih =>
    rw [popUntilAux]; split
    · rw [ih]; simp
    · rfl

theorem popAllAux_cmp' (fuel : Nat) (s : St) (acc) : (popAllAux fuel s acc).1.cmp = s.cmp := by
  induction fuel generalizing s acc with
  | zero => rfl
  | succ fuel ih =>
    rw [popAllAux]; split
    · rw [ih]; simp
    · rfl

theorem step_cmp (s : St) (op : Op) : (step s op).1.cmp = s.cmp := by
  cases op with
  | pop => simp only [step, pop]; split <;> simp
  | popUntil p => simp [step, popUntil, popUntilAux_cmp']
  | popAll => simp [step, popAll, popAllAux_cmp']
  | _ => simp [step]

theorem run_withCmp (s : St) (d) (h : SameSign s.cmp d) (ops : List Op) :
    run (s.withCmp d) ops = ((run s ops).1.withCmp d, (run s ops).2) := by
  induction ops generalizing s with
  | nil => rfl
  | cons op ops ih =>
    simp only [run, step_withCmp s d h]
    rw [ih _ (by rw [step_cmp]; exact h)]

end Hive.C12a.Heap
