import Hive.Proofs.DaemonInvT
/-! `InvT` for `BackgroundWorker`, `Start` and the shutdown body. -/
namespace Hive.Daemon

/-! ## BackgroundWorker -/

theorem stopEv_false_of_not_stopped {s : St} (h : InvT s) (hst : s.stopped = false) :
    (obsOf s.tr).stopEv = false := by
  cases hc : (obsOf s.tr).stopEv with
  | false => rfl
  | true => have := h.stopEvStopped hc; simp [hst] at this

theorem afterStop_nil_of_not_stopped {s : St} (h : InvT s) (hst : s.stopped = false) :
    (obsOf s.tr).afterStop = [] := by
  cases hc : (obsOf s.tr).afterStop with
  | nil => rfl
  | cons a l =>
    have := h.afterStopEv (by simp [hc])
    rw [stopEv_false_of_not_stopped h hst] at this; simp at this

theorem regState_tr (s : St) (c name : Nat) (order : Int) (l : List Nat) :
    (regState s c name order l).tr = s.tr ++ [.accept c name s.n] := rfl

theorem invT_regState {s : St} {c name : Nat} {order : Int} {base l : List Nat} (hA : InvA s) (h : InvT s)
    (hst : s.stopped = false) (hcl : s.cleared = false)
    (hnm : ∀ j, j ∈ base → (s.objs j).name ≠ name)
    (hkeep : ∀ j, j ∈ s.regl → inReg (s.objs j) → j ∈ base) :
    InvT (regState s c name order l) := by
  refine invT_ev h (.accept c name s.n) (regState_tr s c name order l) ?_ ?_ h.sdRetDone h.stopEvStopped
    h.afterStopEv h.lastWaitLoop h.lastWaitMid h.quiet h.minCancelLoop rfl rfl rfl ?_ ?_
  · intro w hw
    have hw' : w ∈ (obsOf s.tr).live := hw
    have := h.liveSound w hw'
    show w.id < s.n + 1 ∧ _
    rw [regState_objs_lt _ _ _ _ _ _ this.1]
    exact ⟨Nat.lt_succ_of_lt this.1, this.2⟩
  · intro j hj hr
    have hj' : j < s.n + 1 := hj
    show _ ∈ (obsOf s.tr).live
    rcases Nat.lt_succ_iff_lt_or_eq.mp hj' with hlt | rfl
    · rw [regState_objs_lt _ _ _ _ _ _ hlt] at hr ⊢
      exact h.liveComplete j hlt hr
    · rw [regState_objs_n] at hr; simp at hr
  · show (!(obsOf s.tr).afterStop.contains c) = true
    rw [afterStop_nil_of_not_stopped h hst]; rfl
  · show (obsOf s.tr).live.all (fun w => w.name != name || w.id == s.n || !liveAtCall (obsOf s.tr) c w.id) = true
    simp only [List.all_eq_true, Bool.or_eq_true, bne_iff_ne, ne_eq, beq_iff_eq]
    intro w hw
    left; left
    intro hwn
    obtain ⟨h1, h2, h3, _⟩ := h.liveSound w hw
    have hreg := hA.flagreg hcl w.id h1 (Or.inl h2)
    have := hnm w.id (hkeep w.id hreg (Or.inl h2))
    exact this (by rw [h3, hwn])

theorem regState_stopped (s : St) (c name : Nat) (order : Int) (l : List Nat) :
    (regState s c name order l).stopped = s.stopped := rfl

theorem invT_register {s s' : St} {c name : Nat} {order : Int} {base : List Nat} (hA : InvA s) (h : InvT s)
    (hst : s.stopped = false) (hcl : s.cleared = false)
    (hsub : ∀ j, j ∈ base → j ∈ s.regl) (hnm : ∀ j, j ∈ base → (s.objs j).name ≠ name)
    (hkeep : ∀ j, j ∈ s.regl → inReg (s.objs j) → j ∈ base)
    (hs : s' ∈ register s c name order base) : InvT s' := by
  obtain ⟨l, ⟨hl, hsorted⟩, rfl⟩ := mem_register hs
  have hA' := invA_regState (c := c) hA hcl hsub hnm hkeep hl hsorted
  have hT' := invT_regState (c := c) (order := order) (l := l) hA h hst hcl hnm hkeep
  cases hr : s.running with
  | false => simpa using hT'
  | true =>
    simp only [if_true]
    exact invT_spawn1 hA' hT' (Nat.lt_succ_self _) hst

theorem invT_bwCrit {s s' : St} {c name : Nat} {order : Int} (hA : InvA s) (h : InvT s)
    (hs : s' ∈ bwCrit true s c name order) : InvT s' := by
  unfold bwCrit at hs
  cases hst : s.stopped with
  | true => simp [hst] at hs; subst hs; exact invT_refuse h _ _ _
  | false =>
    simp only [hst, Bool.and_false, Bool.false_eq_true, if_false] at hs
    cases hcl : s.cleared with
    | true => simp [hcl] at hs; subst hs; exact invT_refuse h _ _ _
    | false =>
      simp only [hcl, Bool.false_eq_true, if_false] at hs
      cases hf : findName s name with
      | none =>
        simp only [hf] at hs
        exact invT_register hA h hst hcl (fun _ hj => hj) (findName_none hf) (fun _ hj _ => hj) hs
      | some j =>
        simp only [hf] at hs
        obtain ⟨hj, hjn⟩ := findName_some hf
        cases hr : s.running with
        | false => simp [hr] at hs; subst hs; exact invT_refuse h _ _ _
        | true =>
          simp only [hr, Bool.not_true, Bool.false_eq_true, if_false] at hs
          cases hfl : (s.objs j).flag with
          | true => simp [hfl] at hs; subst hs; exact invT_refuse h _ _ _
          | false =>
            simp only [hfl, Bool.false_eq_true, if_false] at hs
            refine invT_register hA h hst hcl ?_ ?_ ?_ hs
            · intro k hk; exact (List.mem_filter.mp hk).1
            · intro k hk; simpa using (List.mem_filter.mp hk).2
            · intro k hk hin
              apply List.mem_filter.mpr
              refine ⟨hk, ?_⟩
              simp only [bne_iff_ne, ne_eq]
              intro hkn
              have : k = j := hA.uniq k hk j hj (by rw [hkn, hjn])
              subst this
              have := (flag_false_iff _).mp hfl
              rcases hin with h1 | h1 | h1 <;> rcases this with h2 | h2 <;> simp [h1] at h2

/-- `BackgroundWorker`'s critical section keeps the daemon's stop flag. -/
theorem bwCrit_stopped {s s' : St} {c name : Nat} {order : Int} (hs : s' ∈ bwCrit true s c name order) :
    s'.stopped = s.stopped := by
  unfold bwCrit at hs
  have hreg : ∀ base, s' ∈ register s c name order base → s'.stopped = s.stopped := by
    intro base hb
    obtain ⟨l, _, rfl⟩ := mem_register hb
    split
    · rw [spawn1_stopped]; rfl
    · rfl
  split at hs
  · simp at hs; subst hs; rfl
  · split at hs
    · simp at hs; subst hs; rfl
    · split at hs
      · split at hs
        · simp at hs; subst hs; rfl
        · split at hs
          · simp at hs; subst hs; rfl
          · exact hreg _ hs
      · exact hreg _ hs

/-! ## Start -/

theorem inv_spawnAll {l : List Nat} : ∀ {s : St}, InvA s → InvT s → (∀ i, i ∈ l → i ∈ s.regl) →
    s.running = true → s.stopped = false → InvA (l.foldl spawn1 s) ∧ InvT (l.foldl spawn1 s) ∧
      (l.foldl spawn1 s).stopped = false := by
  induction l with
  | nil => intro s hA hT _ _ hst; exact ⟨hA, hT, hst⟩
  | cons i l ih =>
    intro s hA hT hl hr hst
    simp only [List.foldl_cons]
    have hi := hl i (List.mem_cons_self ..)
    apply ih (invA_spawn1 hA (hA.regv i hi) hi hr) (invT_spawn1 hA hT (hA.regv i hi) hst)
    · intro j hj; rw [spawn1_regl]; exact hl j (List.mem_cons_of_mem _ hj)
    · rw [spawn1_running]; exact hr
    · rw [spawn1_stopped]; exact hst

theorem invT_startCrit {s : St} (hA : InvA s) (h : InvT s) : InvT (startCrit true s) := by
  by_cases hst : s.stopped = true
  · rw [startCrit_stopped hst]; exact h
  · by_cases hr : s.running = true
    · rw [startCrit_running hr]; exact h
    · have hst' : s.stopped = false := by simpa using hst
      have hr' : s.running = false := by simpa using hr
      rw [startCrit_go hst' hr']
      have hA' : InvA { s with running := true } :=
        ⟨hA.wg, hA.regv, hA.sorted, hA.uniq, hA.stopped_iff, hA.flagreg, by intro h'; simp at h', hA.nocancel, hA.keys, hA.clearedDone⟩
      have hT' : InvT { s with running := true } := invT_congr h rfl rfl rfl rfl rfl
      exact (inv_spawnAll hA' hT' (fun i hi => hi) rfl hst').2.1

theorem startCrit_stopped_eq (s : St) : (startCrit true s).stopped = s.stopped := by
  by_cases hst : s.stopped = true
  · rw [startCrit_stopped hst]
  · by_cases hr : s.running = true
    · rw [startCrit_running hr]
    · have hst' : s.stopped = false := by simpa using hst
      have hr' : s.running = false := by simpa using hr
      rw [startCrit_go hst' hr']
      have : ∀ (l : List Nat) (t : St), (l.foldl spawn1 t).stopped = t.stopped := by
        intro l
        induction l with
        | nil => intro t; rfl
        | cons i l ih => intro t; simp only [List.foldl_cons]; rw [ih, spawn1_stopped]
      rw [this]

/-! ## the shutdown body -/

theorem upd_cancel_live (o : Obs) (i : Nat) : (upd o (.cancel i)).live = o.live := by
  simp only [upd]; split <;> rfl
theorem upd_cancel_sdRet (o : Obs) (i : Nat) : (upd o (.cancel i)).sdRet = o.sdRet := by
  simp only [upd]; split <;> rfl
theorem upd_cancel_stopEv (o : Obs) (i : Nat) : (upd o (.cancel i)).stopEv = o.stopEv := by
  simp only [upd]; split <;> rfl
theorem upd_cancel_afterStop (o : Obs) (i : Nat) : (upd o (.cancel i)).afterStop = o.afterStop := by
  simp only [upd]; split <;> rfl
theorem upd_cancel_lastWait (o : Obs) (i : Nat) : (upd o (.cancel i)).lastWait = o.lastWait := by
  simp only [upd]; split <;> rfl
theorem upd_cancel_minCancel (o : Obs) (i : Nat) : (upd o (.cancel i)).minCancel =
    match findLive o.live i with
    | some w => optMin o.minCancel w.order
    | none => o.minCancel := by
  simp only [upd]; cases findLive o.live i <;> rfl

theorem cancelW_name (s : St) (i j : Nat) : ((cancelW s i).objs j).name = (s.objs j).name := by
  by_cases h : j = i
  · subst h; rw [cancelW_objs_same]
  · rw [cancelW_objs_ne _ _ _ h]

theorem cancelW_order (s : St) (i j : Nat) : ((cancelW s i).objs j).order = (s.objs j).order := cancelW_ord s i j

theorem invT_take {s : St} (h : InvT s) (hsd : s.sd = .idle) : InvT { s with sd := .taken } := by
  have := invT_sd_only h s.stopped s.running .taken
    (by intro h'; rw [sdRet_false_of_ne_done h (by simp [hsd])] at h'; simp at h')
    (fun x => x) (by simp) (by simp) (by intro _; exact h.quiet (Or.inl hsd)) (by simp)
  simpa using this

/-- Cancelling the head of the snapshot. -/
theorem invT_cancel_head {s : St} {prev : Int} {hd : Nat} {rest : List Nat} (hB : InvB s) (h : InvT s)
    (hsd : s.sd = .loop prev (hd :: rest))
    (hlive : (s.objs hd).pc = .run → ordOf s hd = prev) :
    InvT { cancelW s hd with sd := .loop prev rest } := by
  obtain ⟨h1, h2, h3⟩ := hB.loopInv prev (hd :: rest) (Or.inl hsd)
  have hsr := sdRet_false_of_ne_done h (by simp [hsd])
  have hfl : ∀ w, findLive (obsOf s.tr).live hd = some w → w.order = prev ∧
      ∀ v, v ∈ (obsOf s.tr).live → v.order ≤ prev := by
    intro w hf
    obtain ⟨hw, hwi⟩ := findLive_some hf
    obtain ⟨_, a2, _, a4⟩ := h.liveSound w hw
    rw [hwi] at a2 a4
    refine ⟨by rw [← a4]; exact hlive a2, ?_⟩
    intro v hv
    obtain ⟨b1, b2, _, b4⟩ := h.liveSound v hv
    rcases h1 v.id b1 ((counted_iff _).mpr (Or.inl b2)) with hl | hr
    · rw [← b4]; unfold ordOf at hl; rw [hl.2]; exact Int.le_refl _
    · rw [← b4]; exact h3 v.id hr
  refine invT_ev h (.cancel hd) rfl ?_ ?_ ?_ ?_ ?_ ?_ ?_ ?_ ?_ ?_ ?_ rfl rfl rfl
  · intro w hw
    rw [upd_cancel_live] at hw
    have := h.liveSound w hw
    show w.id < s.n ∧ ((cancelW s hd).objs w.id).pc = .run ∧ ((cancelW s hd).objs w.id).name = w.name ∧
      ((cancelW s hd).objs w.id).order = w.order
    rw [cancelW_pc, cancelW_name, cancelW_order]; exact this
  · intro j hj hr
    have hj' : j < s.n := hj
    have hr' : ((cancelW s hd).objs j).pc = .run := hr
    rw [cancelW_pc] at hr'
    rw [upd_cancel_live]
    show (⟨j, ((cancelW s hd).objs j).name, ((cancelW s hd).objs j).order⟩ : W) ∈ _
    rw [cancelW_name, cancelW_order]
    exact h.liveComplete j hj' hr'
  · rw [upd_cancel_sdRet, hsr]; intro h'; simp at h'
  · rw [upd_cancel_stopEv]; exact h.stopEvStopped
  · rw [upd_cancel_afterStop, upd_cancel_stopEv]; exact h.afterStopEv
  · rw [upd_cancel_lastWait]
    intro p hp prev' todo' hsd'
    have h'' : SdPc.loop prev rest = SdPc.loop prev' todo' := hsd'
    injection h'' with a b
    subst a
    exact h.lastWaitLoop p hp prev (hd :: rest) hsd
  · intro prev' todo' hsd'
    have h'' : SdPc.loop prev rest = SdPc.waitMid prev' todo' := hsd'
    cases h''
  · intro hsd'
    have h'' : SdPc.loop prev rest = SdPc.idle ∨ SdPc.loop prev rest = SdPc.taken ∨
      SdPc.loop prev rest = SdPc.stoppedSet ∨ SdPc.loop prev rest = SdPc.snap := hsd'
    simp at h''
  · rw [upd_cancel_minCancel]
    intro m hm prev' todo' hsd'
    have hp : prev' = prev := by
      rcases hsd' with h' | h'
      · have h'' : SdPc.loop prev rest = SdPc.loop prev' todo' := h'
        injection h'' with a b; exact a.symm
      · have h'' : SdPc.loop prev rest = SdPc.waitMid prev' todo' := h'
        cases h''
    subst hp
    cases hf : findLive (obsOf s.tr).live hd with
    | none =>
      rw [hf] at hm
      exact h.minCancelLoop m hm prev' (hd :: rest) (Or.inl hsd)
    | some w =>
      rw [hf] at hm
      have hwo := (hfl w hf).1
      cases hmc : (obsOf s.tr).minCancel with
      | none =>
        rw [hmc] at hm
        simp only [optMin, Option.some.injEq] at hm
        omega
      | some m0 =>
        rw [hmc] at hm
        have := h.minCancelLoop m0 hmc prev' (hd :: rest) (Or.inl hsd)
        simp only [optMin, Option.some.injEq] at hm
        split at hm <;> omega
  · show chkOrder (obsOf s.tr) (.cancel hd) = true
    simp only [chkOrder]
    cases hf : findLive (obsOf s.tr).live hd with
    | none => rfl
    | some w =>
      obtain ⟨hwo, hall⟩ := hfl w hf
      simp only [List.all_eq_true, decide_eq_true_eq]
      intro v hv
      rw [hwo]; exact hall v hv
  · show chkTogether (obsOf s.tr) (.cancel hd) = true
    simp only [chkTogether]
    cases hf : findLive (obsOf s.tr).live hd with
    | none => rfl
    | some w =>
      cases hlw : (obsOf s.tr).lastWait with
      | none => rfl
      | some p =>
        have := h.lastWaitLoop p hlw prev (hd :: rest) hsd
        have hwo := (hfl w hf).1
        simp only [decide_eq_true_eq]
        omega

/-- The shutdown starts to wait for an order's WaitGroup. -/
theorem invT_waitfor {s : St} {prev : Int} {todo : List Nat} (h : InvT s) (hsd : s.sd = .loop prev todo) (sd' : SdPc)
    (hsd' : sd' = .waitLast prev ∨ sd' = .waitMid prev todo) :
    InvT (emit (.waitfor prev) { s with sd := sd' }) := by
  have hsr := sdRet_false_of_ne_done h (by simp [hsd])
  refine invT_ev h (.waitfor prev) rfl h.liveSound h.liveComplete ?_ h.stopEvStopped h.afterStopEv
    ?_ ?_ ?_ ?_ rfl ?_ rfl rfl rfl
  · show (obsOf s.tr).sdRet = true → _
    rw [hsr]; intro h'; simp at h'
  · intro p _ prev' todo' h'
    have h'' : sd' = SdPc.loop prev' todo' := h'
    rcases hsd' with rfl | rfl <;> cases h''
  · intro prev' todo' h'
    have h'' : sd' = SdPc.waitMid prev' todo' := h'
    show some prev = some prev'
    rcases hsd' with rfl | rfl
    · cases h''
    · injection h'' with a b; rw [a]
  · intro h'
    have h'' : sd' = SdPc.idle ∨ sd' = SdPc.taken ∨ sd' = SdPc.stoppedSet ∨ sd' = SdPc.snap := h'
    rcases hsd' with rfl | rfl <;> simp at h''
  · intro m hm prev' todo' h'
    have hm' : (obsOf s.tr).minCancel = some m := hm
    have h'' : sd' = SdPc.loop prev' todo' ∨ sd' = SdPc.waitMid prev' todo' := h'
    have hp : prev' = prev := by
      rcases hsd' with rfl | rfl
      · rcases h'' with h3 | h3 <;> cases h3
      · rcases h'' with h3 | h3
        · cases h3
        · injection h3 with a b; exact a.symm
    subst hp
    exact h.minCancelLoop m hm' prev' todo (Or.inl hsd)
  · show chkTogether (obsOf s.tr) (.waitfor prev) = true
    simp only [chkTogether]
    cases hmc : (obsOf s.tr).minCancel with
    | none => rfl
    | some m =>
      have := h.minCancelLoop m hmc prev todo (Or.inl hsd)
      simpa using this

theorem invT_sdBody {s s' : St} (hA : InvA s) (hB : InvB s) (h : InvT s) (hs : s' ∈ sdBody s) : InvT s' := by
  unfold sdBody at hs
  cases hsd : s.sd with
  | idle => simp [hsd] at hs
  | done => simp [hsd] at hs
  | taken =>
    simp only [hsd, List.mem_singleton] at hs; subst hs
    have := invT_sd_only h true s.running .stoppedSet
      (by intro h'; rw [sdRet_false_of_ne_done h (by simp [hsd])] at h'; simp at h')
      (by simp) (by simp) (by simp) (by intro _; exact h.quiet (Or.inr (Or.inl hsd))) (by simp)
    simpa using this
  | stoppedSet =>
    have hq := h.quiet (Or.inr (Or.inr (Or.inl hsd)))
    have hsr := sdRet_false_of_ne_done h (by simp [hsd])
    simp only [hsd] at hs
    by_cases hr : s.running = true
    · simp only [hr, if_true, List.mem_singleton] at hs; subst hs
      have := invT_sd_only h s.stopped s.running .snap (by rw [hsr]; simp) (fun x => x) (by simp) (by simp)
        (by intro _; exact hq) (by simp)
      simpa [hr] using this
    · have hr' : s.running = false := by simpa using hr
      simp only [hr', Bool.false_eq_true, if_false, List.mem_singleton] at hs; subst hs
      have := invT_sd_only h s.stopped s.running .done (by simp) (fun x => x) (by simp) (by simp) (by simp) (by simp)
      simpa [hr'] using this
  | snap =>
    have hq := h.quiet (Or.inr (Or.inr (Or.inr hsd)))
    have hsr := sdRet_false_of_ne_done h (by simp [hsd])
    simp only [hsd] at hs
    cases hreg : s.regl with
    | nil =>
      simp only [hreg, List.mem_singleton] at hs; subst hs
      have := invT_sd_only h s.stopped s.running .unrun (by rw [hsr]; simp) (fun x => x) (by simp) (by simp) (by simp) (by simp)
      simpa [hreg] using this
    | cons hd rest =>
      simp only [hreg, List.mem_singleton] at hs; subst hs
      have := invT_sd_only h s.stopped s.running (.loop (ordOf s hd) (hd :: rest)) (by rw [hsr]; simp) (fun x => x)
        (by intro p hp; rw [hq.1] at hp; simp at hp) (by simp) (by simp)
        (by intro m hm; rw [hq.2] at hm; simp at hm)
      simpa [hreg] using this
  | loop prev todo =>
    have hsr := sdRet_false_of_ne_done h (by simp [hsd])
    obtain ⟨h1, h2, h3⟩ := hB.loopInv prev todo (Or.inl hsd)
    cases todo with
    | nil =>
      simp only [hsd, List.mem_singleton] at hs; subst hs
      exact invT_waitfor h hsd _ (Or.inl rfl)
    | cons hd rest =>
      simp only [hsd] at hs
      by_cases hfl : (s.objs hd).flag = true
      · simp only [hfl, Bool.not_true, Bool.false_eq_true, if_false] at hs
        by_cases hlt : ordOf s hd < prev
        · simp only [hlt, if_true, List.mem_singleton] at hs; subst hs
          exact invT_waitfor h hsd _ (Or.inr rfl)
        · simp only [hlt, if_false, List.mem_singleton] at hs; subst hs
          apply invT_cancel_head hB h hsd
          intro _
          have := h3 hd (List.mem_cons_self ..)
          omega
      · have hfl' : (s.objs hd).flag = false := by simpa using hfl
        simp only [hfl', Bool.not_false, if_true, List.mem_singleton] at hs; subst hs
        apply invT_cancel_head hB h hsd
        intro hr
        rcases (flag_false_iff _).mp hfl' with h' | h' <;> simp [h'] at hr
  | waitMid prev todo =>
    have hsr := sdRet_false_of_ne_done h (by simp [hsd])
    have hlw := h.lastWaitMid prev todo hsd
    simp only [hsd] at hs
    by_cases h0 : s.wgc prev = 0
    · simp only [h0, if_true] at hs
      cases todo with
      | nil =>
        simp only [List.mem_singleton] at hs; subst hs
        have := invT_sd_only h s.stopped s.running (.waitLast prev) (by rw [hsr]; simp) (fun x => x)
          (by simp) (by simp) (by simp) (by simp)
        simpa using this
      | cons hd rest =>
        simp only [List.mem_singleton] at hs; subst hs
        have hmid := hB.midInv prev hd rest hsd
        have := invT_sd_only h s.stopped s.running (.loop (ordOf s hd) (hd :: rest)) (by rw [hsr]; simp) (fun x => x)
          (by intro p hp prev' todo' h'
              injection h' with a b
              rw [hlw] at hp
              injection hp with hp
              omega)
          (by simp) (by simp)
          (by intro m hm prev' todo' h'
              have := h.minCancelLoop m hm prev (hd :: rest) (Or.inr hsd)
              rcases h' with h' | h'
              · injection h' with a b; omega
              · cases h')
        simpa using this
    · simp [h0] at hs
  | waitLast prev =>
    have hsr := sdRet_false_of_ne_done h (by simp [hsd])
    simp only [hsd] at hs
    by_cases h0 : s.wgc prev = 0
    · simp only [h0, if_true, List.mem_singleton] at hs; subst hs
      have := invT_sd_only h s.stopped s.running .unrun (by rw [hsr]; simp) (fun x => x) (by simp) (by simp) (by simp) (by simp)
      simpa using this
    · simp [h0] at hs
  | unrun =>
    have hsr := sdRet_false_of_ne_done h (by simp [hsd])
    simp only [hsd, List.mem_singleton] at hs; subst hs
    have := invT_sd_only h s.stopped false .clr (by rw [hsr]; simp) (fun x => x) (by simp) (by simp) (by simp) (by simp)
    simpa using this
  | clr =>
    simp only [hsd, List.mem_singleton] at hs; subst hs
    have := invT_sd_only h s.stopped s.running .done (by simp) (fun x => x) (by simp) (by simp) (by simp) (by simp)
    exact invT_congr this rfl rfl rfl rfl rfl

end Hive.Daemon
