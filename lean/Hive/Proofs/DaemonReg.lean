import Hive.Proofs.DaemonRun
/-! The registry of a running, not yet stopped daemon contains only workers whose `running` flag is set
(`InvD`): `Start` and `BackgroundWorker` start every registered worker in the same critical section in which the
daemon is (found) running, and a finished worker removes its name (`cleanupWorker`) *before* its flag is cleared.
Consequence: the branch of `BackgroundWorker` that replaces an existing, no longer running entry
(`removeWorkerFromShutdownOrder`) is never taken — a name found in the registry of a running daemon is refused.
Also: what `GetRunningBackgroundWorkers` returns (`runningList`). -/
namespace Hive.Daemon
open Hive.Conc

structure InvD (s : St) : Prop where
  allflag : s.stopped = false → s.running = true → ∀ i, i ∈ s.regl → (s.objs i).flag = true
  clout : s.stopped = false → ∀ i, i < s.n → ((s.objs i).pc = .cl ∨ (s.objs i).pc = .fin) → i ∉ s.regl

theorem invD_init : InvD init :=
  ⟨by intro _ h; simp [init] at h, by intro _ i hi; simp [init] at hi⟩

theorem invD_stopped {s : St} (h : s.stopped = true) : InvD s :=
  ⟨by intro h'; simp [h] at h', by intro h'; simp [h] at h'⟩

theorem flag_of_pc {w w' : Wk} (h : w'.pc = w.pc) : w'.flag = w.flag := by
  unfold Wk.flag; rw [h]

/-- Nothing the invariant looks at changed (or it changed in the harmless direction). -/
theorem invD_congr {s s' : St} (h : InvD s) (hst : s'.stopped = false → s.stopped = false)
    (hr : s'.running = true → s.running = true) (hn : s'.n = s.n)
    (hreg : ∀ i, i ∈ s'.regl → i ∈ s.regl) (hpc : ∀ i, (s'.objs i).pc = (s.objs i).pc) : InvD s' := by
  constructor
  · intro hs hr' i hi
    rw [flag_of_pc (hpc i)]
    exact h.allflag (hst hs) (hr hr') i (hreg i hi)
  · intro hs i hi hp hmem
    rw [hpc i] at hp
    exact h.clout (hst hs) i (hn ▸ hi) hp (hreg i hmem)

/-- An object moves on but keeps its flag and does not become cleaned up. -/
theorem invD_setObj {s : St} {i : Nat} {w' : Wk} (h : InvD s) (hf : (s.objs i).flag = true → w'.flag = true)
    (hc : (w'.pc = .cl ∨ w'.pc = .fin) → ((s.objs i).pc = .cl ∨ (s.objs i).pc = .fin)) : InvD (setObj s i w') := by
  constructor
  · intro hs hr j hj
    by_cases hji : j = i
    · subst hji; rw [setObj_objs_same]; exact hf (h.allflag hs hr j hj)
    · rw [setObj_objs_ne _ _ _ _ hji]; exact h.allflag hs hr j hj
  · intro hs j hj hp
    by_cases hji : j = i
    · subst hji; rw [setObj_objs_same] at hp; exact h.clout hs j hj (hc hp)
    · rw [setObj_objs_ne _ _ _ _ hji] at hp; exact h.clout hs j hj hp

/-- Any update of an object that is not registered. -/
theorem invD_setObj_out {s : St} {i : Nat} {w' : Wk} (h : InvD s) (hout : s.stopped = false → i ∉ s.regl) :
    InvD (setObj s i w') := by
  constructor
  · intro hs hr j hj
    have hji : j ≠ i := fun e => hout hs (e ▸ hj)
    rw [setObj_objs_ne _ _ _ _ hji]; exact h.allflag hs hr j hj
  · intro hs j hj hp
    by_cases hji : j = i
    · subst hji; exact hout hs
    · rw [setObj_objs_ne _ _ _ _ hji] at hp; exact h.clout hs j hj hp

theorem d_wkStep {s s' : St} {i : Nat} (h : InvD s) (hs : s' ∈ wkStep s i) : InvD s' := by
  unfold wkStep at hs
  by_cases hi : i < s.n
  · simp only [hi, if_true] at hs
    cases hpc : (s.objs i).pc with
    | reg => simp [hpc] at hs
    | fin => simp [hpc] at hs
    | run =>
      simp only [hpc, List.mem_append, List.mem_singleton] at hs
      rcases hs with hs | hs
      · subst hs
        exact invD_congr (invD_setObj (i := i) (w' := { s.objs i with pc := .ret }) h (by intro _; simp [Wk.flag])
          (by intro h'; simp at h')) id id rfl (fun _ x => x) (fun _ => rfl)
      · split at hs
        · simp only [List.mem_singleton] at hs
          subst hs
          exact invD_congr (invD_setObj (i := i)
            (w' := ⟨(s.objs i).name, (s.objs i).order, .run, (s.objs i).cancelled, true⟩) h (by intro _; simp [Wk.flag])
            (by intro h'; simp at h')) id id rfl (fun _ x => x) (fun _ => rfl)
        · simp at hs
    | ret =>
      simp only [hpc, List.mem_singleton] at hs
      subst hs
      exact invD_congr (invD_setObj (i := i) (w' := { s.objs i with pc := .dn }) h (by intro _; simp [Wk.flag])
        (by intro h'; simp at h')) id id rfl (fun _ x => x) (fun _ => rfl)
    | dn =>
      simp only [hpc] at hs
      split at hs
      · rename_i hst
        simp only [List.mem_singleton] at hs; subst hs
        exact invD_stopped hst
      · simp only [List.mem_singleton] at hs; subst hs
        -- `cleanupWorker` of a daemon that is not stopped: the name leaves the registry, the flag is still set
        constructor
        · intro hs' hr j hj
          have hj' := List.mem_filter.mp hj
          have hji : j ≠ i := by
            intro e; subst e; simp at hj'
          show ((setObj s i { s.objs i with pc := .cl }).objs j).flag = true
          rw [setObj_objs_ne _ _ _ _ hji]
          exact h.allflag hs' hr j hj'.1
        · intro hs' j hj hp hmem
          have hj' := List.mem_filter.mp hmem
          have hji : j ≠ i := by
            intro e; subst e; simp at hj'
          have hp' : ((setObj s i { s.objs i with pc := .cl }).objs j).pc = .cl ∨
              ((setObj s i { s.objs i with pc := .cl }).objs j).pc = .fin := hp
          rw [setObj_objs_ne _ _ _ _ hji] at hp'
          exact h.clout hs' j hj hp' hj'.1
    | cl =>
      simp only [hpc, List.mem_singleton] at hs
      subst hs
      exact invD_setObj_out h (fun hst => h.clout hst i hi (Or.inl hpc))
  · simp [hi] at hs

/-! ## starting workers -/

theorem spawn1_objs_ne (s : St) (i j : Nat) (h : j ≠ i) : (spawn1 s i).objs j = s.objs j := by
  by_cases hpc : (s.objs i).pc = .reg
  · rw [spawn1_reg hpc]; exact spawnSt_objs_ne s i j h
  · rw [spawn1_not_reg hpc]

theorem spawn1_pc_same (s : St) (i : Nat) (h : (s.objs i).pc = .reg) : ((spawn1 s i).objs i).pc = .run := by
  rw [spawn1_reg h]
  show ((spawnSt s i).objs i).pc = .run
  rw [spawnSt_objs_same]

/-- Starting a worker only ever turns a `reg` into a `run`. -/
theorem spawn1_pc (s : St) (i j : Nat) :
    ((spawn1 s i).objs j).pc = (s.objs j).pc ∨ (((spawn1 s i).objs j).pc = .run ∧ (s.objs j).pc = .reg) := by
  by_cases hji : j = i
  · subst hji
    by_cases hpc : (s.objs j).pc = .reg
    · exact Or.inr ⟨spawn1_pc_same s j hpc, hpc⟩
    · rw [spawn1_not_reg hpc]; exact Or.inl rfl
  · rw [spawn1_objs_ne s i j hji]; exact Or.inl rfl

theorem spawnAll_pc : ∀ (l : List Nat) (s : St) (j : Nat),
    ((l.foldl spawn1 s).objs j).pc = (s.objs j).pc ∨ (((l.foldl spawn1 s).objs j).pc = .run ∧ (s.objs j).pc = .reg)
  | [], _, _ => Or.inl rfl
  | i :: l, s, j => by
    simp only [List.foldl_cons]
    rcases spawnAll_pc l (spawn1 s i) j with h1 | ⟨h1, h2⟩
    · rcases spawn1_pc s i j with h3 | ⟨h3, h4⟩
      · exact Or.inl (h1.trans h3)
      · exact Or.inr ⟨h1.trans h3, h4⟩
    · rcases spawn1_pc s i j with h3 | ⟨h3, _⟩
      · exact Or.inr ⟨h1, h3 ▸ h2⟩
      · rw [h3] at h2; cases h2

theorem spawnAll_run : ∀ (l : List Nat) (s : St) (j : Nat), j ∈ l → (s.objs j).pc = .reg →
    ((l.foldl spawn1 s).objs j).pc = .run
  | [], _, _, h, _ => by cases h
  | i :: l, s, j, hj, hp => by
    simp only [List.foldl_cons]
    by_cases hji : j = i
    · subst hji
      have h1 := spawn1_pc_same s j hp
      rcases spawnAll_pc l (spawn1 s j) j with h2 | ⟨h2, _⟩
      · exact h2.trans h1
      · exact h2
    · have hj' : j ∈ l := by
        rcases List.mem_cons.mp hj with e | e
        · exact absurd e hji
        · exact e
      apply spawnAll_run l (spawn1 s i) j hj'
      rw [spawn1_objs_ne s i j hji]; exact hp

theorem spawnAll_fields : ∀ (l : List Nat) (s : St),
    (l.foldl spawn1 s).regl = s.regl ∧ (l.foldl spawn1 s).stopped = s.stopped ∧ (l.foldl spawn1 s).n = s.n
  | [], _ => ⟨rfl, rfl, rfl⟩
  | i :: l, s => by
    simp only [List.foldl_cons]
    obtain ⟨h1, h2, h3⟩ := spawnAll_fields l (spawn1 s i)
    exact ⟨h1.trans (spawn1_regl s i), h2.trans (spawn1_stopped s i), h3.trans (spawn1_n s i)⟩

theorem invD_spawn1 {s : St} {i : Nat} (h : InvD s) : InvD (spawn1 s i) := by
  constructor
  · intro hs hr j hj
    rw [spawn1_stopped] at hs; rw [spawn1_running] at hr; rw [spawn1_regl] at hj
    have := h.allflag hs hr j hj
    rcases spawn1_pc s i j with h1 | ⟨h1, _⟩
    · rw [flag_of_pc h1]; exact this
    · simp [Wk.flag, h1]
  · intro hs j hj hp
    rw [spawn1_stopped] at hs; rw [spawn1_n] at hj; rw [spawn1_regl]
    rcases spawn1_pc s i j with h1 | ⟨h1, _⟩
    · rw [h1] at hp; exact h.clout hs j hj hp
    · rw [h1] at hp; rcases hp with hp | hp <;> cases hp

theorem d_startCrit {s : St} (hA : InvA s) (h : InvD s) : InvD (startCrit true s) := by
  by_cases hst : s.stopped = true
  · rw [startCrit_stopped hst]; exact h
  · by_cases hr : s.running = true
    · rw [startCrit_running hr]; exact h
    · have hst' : s.stopped = false := by simpa using hst
      have hr' : s.running = false := by simpa using hr
      rw [startCrit_go hst' hr']
      obtain ⟨f1, f2, f3⟩ := spawnAll_fields s.regl { s with running := true }
      have hearly : early s := by
        by_cases h1 : s.sd = .idle
        · exact Or.inl h1
        · by_cases h2 : s.sd = .taken
          · exact Or.inr (Or.inl h2)
          · have := hA.stopped_iff.mpr ⟨h1, h2⟩
            rw [hst'] at this; cases this
      constructor
      · intro _ _ i hi
        rw [f1] at hi
        have hi' : i ∈ s.regl := hi
        have hp : (s.objs i).pc = .reg := hA.notrun hr' hearly i (hA.regv i hi')
        have := spawnAll_run s.regl { s with running := true } i hi' hp
        simp [Wk.flag, this]
      · intro _ i hi hp
        rw [f1]
        rw [f3] at hi
        rcases spawnAll_pc s.regl { s with running := true } i with h1 | ⟨h1, _⟩
        · rw [h1] at hp; exact h.clout hst' i hi hp
        · rw [h1] at hp; rcases hp with hp | hp <;> cases hp

/-! ## BackgroundWorker -/

theorem d_register {s s' : St} {c name : Nat} {order : Int} {base : List Nat} (hA : InvA s) (h : InvD s)
    (hsub : ∀ j, j ∈ base → j ∈ s.regl) (hs : s' ∈ register s c name order base) : InvD s' := by
  obtain ⟨l, ⟨hl, _⟩, rfl⟩ := mem_register hs
  -- the registration proper
  have hclout : ∀ (hs' : s.stopped = false) (j : Nat), j < s.n + 1 →
      (((regState s c name order l).objs j).pc = .cl ∨ ((regState s c name order l).objs j).pc = .fin) → j ∉ l := by
    intro hs' j hj hp hmem
    rcases Nat.lt_succ_iff_lt_or_eq.mp hj with hlt | heq
    · rw [regState_objs_lt _ _ _ _ _ _ hlt] at hp
      rcases (hl j).mp hmem with hb | he
      · exact h.clout hs' j hlt hp (hsub j hb)
      · omega
    · subst heq; rw [regState_objs_n] at hp; rcases hp with hp | hp <;> cases hp
  cases hr : s.running with
  | false =>
    simp only [Bool.false_eq_true, if_false]
    constructor
    · intro _ hr'
      have : (regState s c name order l).running = s.running := rfl
      rw [this, hr] at hr'; cases hr'
    · intro hs' j hj hp
      exact hclout hs' j hj hp
  | true =>
    simp only [if_true]
    have hreg : ((regState s c name order l).objs s.n).pc = .reg := by rw [regState_objs_n]
    constructor
    · intro hs' _ j hj
      rw [spawn1_stopped] at hs'
      rw [spawn1_regl] at hj
      have hj' : j ∈ l := hj
      rcases (hl j).mp hj' with hb | he
      · have hlt : j < s.n := hA.regv j (hsub j hb)
        have hne : j ≠ s.n := Nat.ne_of_lt hlt
        rw [spawn1_objs_ne _ _ _ hne, regState_objs_lt _ _ _ _ _ _ hlt]
        exact h.allflag hs' hr j (hsub j hb)
      · subst he
        have := spawn1_pc_same (regState s c name order l) s.n hreg
        simp [Wk.flag, this]
    · intro hs' j hj hp
      rw [spawn1_stopped] at hs'
      rw [spawn1_n] at hj
      rw [spawn1_regl]
      have hj' : j < s.n + 1 := hj
      rcases spawn1_pc (regState s c name order l) s.n j with h1 | ⟨h1, _⟩
      · rw [h1] at hp; exact hclout hs' j hj' hp
      · rw [h1] at hp; rcases hp with hp | hp <;> cases hp

theorem d_bwCrit {s s' : St} {c name : Nat} {order : Int} (hA : InvA s) (h : InvD s)
    (hs : s' ∈ bwCrit true s c name order) : InvD s' := by
  have hem : ∀ e : Ev, InvD (emit e s) := fun e => invD_congr h id id rfl (fun _ x => x) (fun _ => rfl)
  unfold bwCrit at hs
  split at hs
  · simp at hs; subst hs; exact hem _
  · split at hs
    · simp at hs; subst hs; exact hem _
    · split at hs
      · split at hs
        · simp at hs; subst hs; exact hem _
        · split at hs
          · simp at hs; subst hs; exact hem _
          · exact d_register hA h (fun j hj => (List.mem_filter.mp hj).1) hs
      · exact d_register hA h (fun _ hj => hj) hs

/-! ## the shutdown body: it never clears the stopped flag, never sets the running flag, never adds to the registry and
never changes a worker's program point -/

theorem d_sdBody {s s' : St} (h : InvD s) (hs : s' ∈ sdBody s) : InvD s' := by
  unfold sdBody at hs
  have plain : ∀ (s1 : St), (s1.stopped = false → s.stopped = false) → (s1.running = true → s.running = true) →
      s1.n = s.n → (∀ j, j ∈ s1.regl → j ∈ s.regl) → s1.objs = s.objs → InvD s1 := by
    intro s1 h1 h2 h3 h4 h5
    exact invD_congr h h1 h2 h3 h4 (fun j => by rw [h5])
  have canc : ∀ (hd : Nat) (sd' : SdPc), InvD { cancelW s hd with sd := sd' } := by
    intro hd sd'
    exact invD_congr h id id rfl (fun _ x => x) (fun j => cancelW_pc s hd j)
  cases hsd : s.sd with
  | idle => simp [hsd] at hs
  | done => simp [hsd] at hs
  | taken =>
    simp only [hsd, List.mem_singleton] at hs; subst hs
    exact invD_stopped rfl
  | stoppedSet =>
    simp only [hsd] at hs
    split at hs <;> (simp only [List.mem_singleton] at hs; subst hs) <;> exact plain _ id id rfl (fun _ x => x) rfl
  | snap =>
    simp only [hsd] at hs
    split at hs <;> (simp only [List.mem_singleton] at hs; subst hs) <;> exact plain _ id id rfl (fun _ x => x) rfl
  | loop prev todo =>
    cases todo with
    | nil =>
      simp only [hsd, List.mem_singleton] at hs; subst hs
      exact plain _ id id rfl (fun _ x => x) rfl
    | cons hd rest =>
      simp only [hsd] at hs
      split at hs
      · simp only [List.mem_singleton] at hs; subst hs; exact canc _ _
      · split at hs
        · simp only [List.mem_singleton] at hs; subst hs
          exact plain _ id id rfl (fun _ x => x) rfl
        · simp only [List.mem_singleton] at hs; subst hs; exact canc _ _
  | waitMid prev todo =>
    simp only [hsd] at hs
    split at hs
    · cases todo with
      | nil =>
        simp only [List.mem_singleton] at hs; subst hs
        exact plain _ id id rfl (fun _ x => x) rfl
      | cons hd rest =>
        simp only [List.mem_singleton] at hs; subst hs
        exact plain _ id id rfl (fun _ x => x) rfl
    · simp at hs
  | waitLast prev =>
    simp only [hsd] at hs
    split at hs
    · simp only [List.mem_singleton] at hs; subst hs
      exact plain _ id id rfl (fun _ x => x) rfl
    · simp at hs
  | unrun =>
    simp only [hsd, List.mem_singleton] at hs; subst hs
    exact plain _ id (by intro h'; cases h') rfl (fun _ x => x) rfl
  | clr =>
    simp only [hsd, List.mem_singleton] at hs; subst hs
    exact plain _ id id rfl (by intro j hj; cases hj) rfl

/-! ## every step -/

def Inv3 (s : St) : Prop := Inv2 s ∧ InvD s

theorem inv3_init : Inv3 init := ⟨inv2_init, invD_init⟩

theorem inv3_step {s s' : St} {t t' : Th} (h : Inv3 s) (hs : (s', t') ∈ step true true s t) : Inv3 s' := by
  obtain ⟨h2, hD⟩ := h
  refine ⟨inv2_step h2 hs, ?_⟩
  have hA : InvA s := h2.1.1
  have hem : ∀ e : Ev, InvD (emit e s) := fun e => invD_congr hD id id rfl (fun _ x => x) (fun _ => rfl)
  cases t with
  | bw c name order pc =>
    cases pc with
    | call =>
      simp only [step] at hs
      split at hs <;> (simp only [List.mem_singleton, Prod.mk.injEq] at hs; obtain ⟨rfl, _⟩ := hs)
      · exact invD_congr hD id id rfl (fun _ x => x) (fun _ => rfl)
      · exact hem _
    | passed =>
      simp only [step, List.mem_map] at hs
      obtain ⟨s1, hs1, heq⟩ := hs
      injection heq with h1 _
      subst h1
      exact d_bwCrit hA hD hs1
    | fin => simp [step] at hs
  | starter pc =>
    cases pc with
    | call =>
      simp only [step] at hs
      split at hs <;> (simp only [List.mem_singleton, Prod.mk.injEq] at hs; obtain ⟨rfl, _⟩ := hs) <;> exact hD
    | passed =>
      simp only [step, List.mem_singleton, Prod.mk.injEq] at hs
      obtain ⟨rfl, _⟩ := hs
      exact d_startCrit hA hD
    | fin => simp [step] at hs
  | wk i =>
    simp only [step, List.mem_map] at hs
    obtain ⟨s1, hs1, heq⟩ := hs
    injection heq with h1 _
    subst h1
    exact d_wkStep hD hs1
  | sd c pc =>
    cases pc with
    | call =>
      simp only [step, List.mem_singleton, Prod.mk.injEq] at hs
      obtain ⟨rfl, _⟩ := hs
      exact hem _
    | enter =>
      simp only [step] at hs
      cases hsd : s.sd with
      | idle =>
        simp only [hsd, List.mem_singleton, Prod.mk.injEq] at hs
        obtain ⟨rfl, _⟩ := hs
        exact invD_congr hD id id rfl (fun _ x => x) (fun _ => rfl)
      | _ =>
        simp only [hsd, List.mem_singleton, Prod.mk.injEq] at hs
        obtain ⟨rfl, _⟩ := hs
        exact hD
    | body =>
      simp only [step] at hs
      cases hsd : s.sd with
      | done =>
        simp only [hsd, List.mem_singleton, Prod.mk.injEq] at hs
        obtain ⟨rfl, _⟩ := hs
        exact hem _
      | _ =>
        simp only [hsd, List.mem_map] at hs
        obtain ⟨s1, hs1, heq⟩ := hs
        injection heq with h1 _
        subst h1
        exact d_sdBody hD hs1
    | blocked =>
      simp only [step] at hs
      cases hsd : s.sd with
      | done =>
        simp only [hsd, List.mem_singleton, Prod.mk.injEq] at hs
        obtain ⟨rfl, _⟩ := hs
        exact hem _
      | _ => simp [hsd] at hs
    | fin => simp [step] at hs
  | watcher =>
    simp only [step] at hs
    split at hs
    · simp only [List.mem_singleton, Prod.mk.injEq] at hs
      obtain ⟨rfl, _⟩ := hs
      exact hem _
    · simp at hs
  | runner c pc =>
    cases pc with
    | call =>
      simp only [step] at hs
      split at hs <;> (simp only [List.mem_singleton, Prod.mk.injEq] at hs; obtain ⟨rfl, _⟩ := hs) <;> exact hem _
    | passed =>
      simp only [step, List.mem_singleton, Prod.mk.injEq] at hs
      obtain ⟨rfl, _⟩ := hs
      exact d_startCrit hA hD
    | started =>
      simp only [step, if_true] at hs
      split at hs
      · simp only [List.mem_singleton, Prod.mk.injEq] at hs
        obtain ⟨rfl, _⟩ := hs
        exact hem _
      · simp at hs
    | waiting keys => cases keys <;> simp [step] at hs
    | fin => simp [step] at hs

theorem inv3_reach {ts ts' : List Th} {s : St} (hr : Reach (sys true true) (init, ts) (s, ts')) : Inv3 s := by
  have := inv_induction (S := sys true true) (fun c => Inv3 c.1) (c0 := (init, ts)) (c := (s, ts')) inv3_init
    (by
      intro a b ha hstep
      cases hstep with
      | mk s0 pre t post s1 t1 hmem => exact inv3_step ha hmem)
    hr
  exact this

/-! ## what `GetRunningBackgroundWorkers` returns -/

theorem runningList_mem {s : St} {i : Nat} : i ∈ runningList s ↔ (i ∈ s.regl ∧ (s.objs i).flag = true) := by
  unfold runningList
  simp [List.mem_filter]

/-- Ascending by shutdown order (the registry is sorted descending, the result is its filtered reverse). -/
theorem runningList_ascending {s : St} (hA : InvA s) :
    (runningList s).Pairwise (fun a b => ordOf s a ≤ ordOf s b) := by
  unfold runningList
  rw [List.pairwise_reverse]
  exact hA.sorted.sublist List.filter_sublist

theorem runningList_names_distinct {s : St} (hA : InvA s) :
    ∀ a, a ∈ runningList s → ∀ b, b ∈ runningList s → (s.objs a).name = (s.objs b).name → a = b := by
  intro a ha b hb
  exact hA.uniq a (runningList_mem.mp ha).1 b (runningList_mem.mp hb).1

/-- Complete: every started worker that has not been cleaned up is listed (until `clear()`). -/
theorem runningList_complete {s : St} (hA : InvA s) (hcl : s.cleared = false) {i : Nat} (hi : i < s.n)
    (hp : busy s i = true) : i ∈ runningList s := by
  have hin : inReg (s.objs i) := by
    unfold busy at hp
    unfold inReg
    cases h : (s.objs i).pc <;> simp [h] at hp ⊢
  refine runningList_mem.mpr ⟨hA.flagreg hcl i hi hin, ?_⟩
  rcases hin with h | h | h <;> simp [Wk.flag, h]

end Hive.Daemon
