import Hive.Proofs.BatchWriterLive
/-!
# C08 proofs, part 8: progress — blocked calls can be unblocked

From every reachable configuration there is a continuation after which a blocked call can move:

* `blocked_send_unblocks`: an `Enqueue` blocked on the queue send (queue full, or queue size 0 and the writer not
  in a `select`) — the writer goroutine alone, in finitely many steps, reaches a `select` and takes an object;
* `blocked_wait_unblocks`: a `StopBatchWriter` blocked in `writeWg.Wait()` — the producers that have announced an
  object finish (back out or hand their object to the writer), the writer drains the queue, commits, calls the
  Dones, sees `running = false` and the counter at 0, and leaves; the counter never grows on the way because
  only threads past their increment are scheduled.

Both are constructed by well-founded descent on explicit measures (`wdist`, `drainMeasure`, `exitDist`).
-/
namespace Hive.BatchWriter
open Hive.Conc Hive.Spec.BatchWriter

/-! ### Moving one thread of the pool -/

theorem getElem?_replace {pre post : List Thread} {u u' t : Thread} {i : Nat}
    (h : (pre ++ u :: post)[i]? = some t) (hne : t ≠ u) : (pre ++ u' :: post)[i]? = some t := by
  have hi : i ≠ pre.length := by
    intro e; subst e
    rw [List.getElem?_append_right (Nat.le_refl _)] at h
    simp at h; exact hne h.symm
  rw [← h]
  rcases Nat.lt_or_ge i pre.length with h1 | h1
  · rw [List.getElem?_append_left h1, List.getElem?_append_left h1]
  · rw [List.getElem?_append_right h1, List.getElem?_append_right h1]
    have : i - pre.length = (i - pre.length - 1) + 1 := by omega
    rw [this, List.getElem?_cons_succ, List.getElem?_cons_succ]

theorem step_reach {s s' : St} {pre post : List Thread} {u u' : Thread} (hm : (s', u') ∈ step s u) :
    Reach sys (s, pre ++ u :: post) (s', pre ++ u' :: post) :=
  Reach.tail (Reach.refl _) (Step.mk (S := sys) s pre u post s' u' hm)

/-- the writer token takes one step; the pool is unchanged -/
theorem writer_step_reach {s s' : St} {ts : List Thread} (hw : Thread.writer ∈ ts) (hm : s' ∈ stepWriter s) :
    Reach sys (s, ts) (s', ts) := by
  obtain ⟨pre, post, rfl⟩ := List.append_of_mem hw
  exact step_reach (mem_step_writer.mpr ⟨rfl, hm⟩)

/-! ### The queue never holds more than its capacity -/

theorem queue_le {q b : Nat} {c0 c : Cfg St Thread} (h0 : Init q b c0) (hr : Reach sys c0 c) :
    c.1.queue.length ≤ c.1.qsize := by
  obtain ⟨s0, ts⟩ := c0
  obtain ⟨rfl, _, _⟩ := h0
  refine inv_of_step (fun c => c.1.queue.length ≤ c.1.qsize) (by simp [initSt]) ?_ hr
  intro s pre t post s' t' h hm
  simp only at h ⊢
  step_cases
  all_goals (first | exact h | (simp_all [emit, afterCommit]; done) | (simp_all [emit, afterCommit]; omega))

/-! ### The writer alone reaches a `select` -/

/-- number of writer steps to the next `select` on the queue (upper bound) -/
def wdist (s : St) : Nat :=
  match s.wpc with
  | .sel => 0
  | .fsel => 0
  | .loopCnt => 1
  | .loopRun => 2
  | .notStarted => 3
  | .doneLoop => 3 + s.todo.length
  | .commit => 4 + s.batch.length
  | .addWrite => 6 + s.batch.length
  | .addDec => 7 + s.batch.length
  | .addReset => 8 + s.batch.length
  | .wgDone => 0
  | .exited => 0

theorem wdist_step (s : St) (h1 : s.wpc ≠ .sel) (h2 : s.wpc ≠ .fsel) (h3 : s.wpc ≠ .wgDone) (h4 : s.wpc ≠ .exited)
    (h5 : s.wpc = .notStarted → s.spawned = true) (h6 : s.wpc = .loopCnt → s.count ≠ 0) :
    ∃ s' ∈ stepWriter s, wdist s' < wdist s := by
  cases hw : s.wpc <;> simp only [hw, ne_eq, not_true_eq_false, reduceCtorEq, not_false_eq_true, forall_const,
    false_implies] at h1 h2 h3 h4 h5 h6
  case notStarted =>
    exact ⟨{ s with wpc := .loopRun }, by simp [stepWriter, hw, h5], by simp [wdist, hw]⟩
  case loopRun =>
    by_cases hr : s.running = true
    · exact ⟨{ s with wpc := .sel, batch := [], muts := [], fl := false }, by simp [stepWriter, hw, hr], by simp [wdist, hw]⟩
    · exact ⟨{ s with wpc := .loopCnt }, by simp [stepWriter, hw, hr], by simp [wdist, hw]⟩
  case loopCnt =>
    exact ⟨{ s with wpc := .sel, batch := [], muts := [], fl := false }, by simp [stepWriter, hw, h6], by simp [wdist, hw]⟩
  case addReset =>
    refine ⟨_, by simp only [stepWriter, hw]; exact List.mem_singleton.mpr rfl, ?_⟩
    simp [wdist, hw, emit]
  case addDec =>
    refine ⟨_, by simp only [stepWriter, hw]; exact List.mem_singleton.mpr rfl, ?_⟩
    simp [wdist, hw]
  case addWrite =>
    by_cases hb : s.bsize ≤ s.batch.length + 1
    · refine ⟨_, by simp only [stepWriter, hw, hb, if_true]; exact List.mem_singleton.mpr rfl, ?_⟩
      simp [wdist, hw, emit]; omega
    · refine ⟨_, by simp only [stepWriter, hw, hb, if_false]; exact List.mem_singleton.mpr rfl, ?_⟩
      cases hf : s.fl <;> simp [wdist, hw, emit, hf] <;> omega
  case commit =>
    cases hb : s.batch with
    | nil =>
      refine ⟨afterCommit s, by simp [stepWriter, hw, hb], ?_⟩
      cases ha : s.again <;> simp [wdist, hw, afterCommit, ha] <;> omega
    | cons o rest =>
      refine ⟨_, by simp only [stepWriter, hw, hb]; exact List.mem_singleton.mpr rfl, ?_⟩
      simp [wdist, hw, emit, hb]
  case doneLoop =>
    cases hb : s.todo with
    | nil =>
      refine ⟨afterCommit s, by simp [stepWriter, hw, hb], ?_⟩
      cases ha : s.again <;> simp [wdist, hw, afterCommit, ha] <;> omega
    | cons o rest =>
      refine ⟨_, by simp only [stepWriter, hw, hb]; exact List.mem_singleton.mpr rfl, ?_⟩
      simp [wdist, hw, emit, hb]

/-- facts about the writer while some producer is past a successful running check -/
theorem writer_alive_of_win {c : Cfg St Thread} (hi : Inv c) (hu : ∃ u ∈ c.2, inWin u = true) :
    c.1.wpc ≠ .wgDone ∧ c.1.wpc ≠ .exited ∧ c.1.spawned = true ∧ c.1.count ≠ 0 := by
  obtain ⟨s, ts⟩ := c
  obtain ⟨u, hu, hp⟩ := hu
  have hc := hi.cnt
  have hl := hi.l
  simp only at hc hl hu ⊢
  have hpos : 0 < ts.countP inWin := List.countP_pos_iff.mpr ⟨u, hu, hp⟩
  have hw := hc.win
  have hsp : s.spawned = true := by
    have h2 := hi.t u hu
    cases u with
    | prod id pc cur sc =>
      simp only [TInv] at h2
      refine hl.once3_spawned (h2.2.2.2.2.1 ?_)
      cases pc <;> simp [inWin] at hp <;> simp
    | _ => simp [inWin] at hp
  have hcount : s.count ≠ 0 := by
    have h1 := hc.count
    have h2 := countP_le_of_imp inWin atSend inWin_imp ts
    omega
  refine ⟨fun h => ?_, fun h => ?_, hsp, hcount⟩
  · have := hl.fin_win (Or.inl h); omega
  · have := hl.fin_win (Or.inr h); omega

theorem writer_to_select {q b : Nat} {c0 : Cfg St Thread} (h0 : Init q b c0) :
    ∀ n s ts, Reach sys c0 (s, ts) → Thread.writer ∈ ts → (∃ u ∈ ts, inWin u = true) → wdist s ≤ n →
      ∃ s', Reach sys (s, ts) (s', ts) ∧ (s'.wpc = .sel ∨ s'.wpc = .fsel) := by
  intro n
  induction n with
  | zero =>
    intro s ts hr hw hu hn
    obtain ⟨a1, a2, a3, a4⟩ := writer_alive_of_win (inv_reach h0 hr) hu
    by_cases h1 : s.wpc = .sel
    · exact ⟨s, Reach.refl _, Or.inl h1⟩
    by_cases h2 : s.wpc = .fsel
    · exact ⟨s, Reach.refl _, Or.inr h2⟩
    obtain ⟨s', _, hlt⟩ := wdist_step s h1 h2 a1 a2 (fun _ => a3) (fun _ => a4)
    omega
  | succ n ih =>
    intro s ts hr hw hu hn
    obtain ⟨a1, a2, a3, a4⟩ := writer_alive_of_win (inv_reach h0 hr) hu
    by_cases h1 : s.wpc = .sel
    · exact ⟨s, Reach.refl _, Or.inl h1⟩
    by_cases h2 : s.wpc = .fsel
    · exact ⟨s, Reach.refl _, Or.inr h2⟩
    obtain ⟨s', hm, hlt⟩ := wdist_step s h1 h2 a1 a2 (fun _ => a3) (fun _ => a4)
    have hstep := writer_step_reach hw hm
    obtain ⟨s'', hr2, hsel⟩ := ih s' ts (hr.trans hstep) hw hu (by omega)
    exact ⟨s'', hstep.trans hr2, hsel⟩

/-- **A blocked queue send can be unblocked by the writer alone.** -/
theorem blocked_send_unblocks {q b : Nat} {c0 : Cfg St Thread} (h0 : Init q b c0) {s : St} {ts : List Thread}
    (hr : Reach sys c0 (s, ts)) (hw : Thread.writer ∈ ts) {id cur : Nat} {sc : List Nat}
    (ht : Thread.prod id .send cur sc ∈ ts) :
    ∃ s', Reach sys (s, ts) (s', ts) ∧ step s' (Thread.prod id .send cur sc) ≠ [] := by
  have hu : ∃ u ∈ ts, inWin u = true := ⟨_, ht, by simp [inWin]⟩
  obtain ⟨s1, hr1, hsel⟩ := writer_to_select h0 (wdist s) s ts hr hw hu (Nat.le_refl _)
  have hq1 := queue_le h0 (hr.trans hr1)
  simp only at hq1
  by_cases hroom : s1.queue.length < s1.qsize
  · exact ⟨s1, hr1, by simp [step, stepProd, hroom]⟩
  by_cases hz : s1.qsize = 0
  · refine ⟨s1, hr1, ?_⟩
    rcases hsel with h | h <;> simp [step, stepProd, hroom, hz, h]
  · -- the queue is full and not empty: the writer takes its head
    cases hqq : s1.queue with
    | nil => simp [hqq] at hroom; omega
    | cons o rest =>
      have hm : { s1 with queue := rest, rcv := upd s1.rcv o (s1.rcv o + 1), wcur := o, wpc := .addReset } ∈ stepWriter s1 := by
        rcases hsel with h | h <;> simp [stepWriter, h, recvStep, hqq]
      refine ⟨_, hr1.trans (writer_step_reach hw hm), ?_⟩
      have : rest.length < s1.qsize := by simp [hqq] at hq1; omega
      simp [step, stepProd, this]

/-! ### Stop blocked in `writeWg.Wait()`: phase 2 — the counter is 0, the writer alone leaves -/

/-- number of writer steps to `exited` while `running = false`, the counter is 0 and the queue is empty
(upper bound; the time-out alternative of the blocking `select` is taken) -/
def exitDist (s : St) : Nat :=
  match s.wpc with
  | .exited => 0
  | .wgDone => 1
  | .loopCnt => 2
  | .loopRun => 3
  | .notStarted => 4
  | .doneLoop => (if s.again then 8 else 4) + s.todo.length
  | .commit => (if s.again then 9 else 5) + s.batch.length
  | .sel => 7 + s.batch.length
  | .fsel => 7 + s.batch.length
  | .addWrite => 11 + s.batch.length
  | .addDec => 0
  | .addReset => 0

theorem exit_step (s : St) (hrun : s.running = false) (h4 : s.wpc ≠ .exited)
    (h5 : s.wpc = .notStarted → s.spawned = true)
    (hz : s.wpc ≠ .wgDone → s.count = 0 ∧ s.queue = [] ∧ s.wpc ≠ .addReset ∧ s.wpc ≠ .addDec) :
    ∃ s' ∈ stepWriter s, exitDist s' < exitDist s ∧ s'.running = false ∧ s'.count = s.count := by
  cases hw : s.wpc <;> simp only [hw, ne_eq, not_true_eq_false, reduceCtorEq, not_false_eq_true, forall_const,
    false_implies, and_true, and_false] at h4 h5 hz
  case notStarted =>
    exact ⟨{ s with wpc := .loopRun }, by simp [stepWriter, hw, h5], by simp [exitDist, hw], hrun, rfl⟩
  case loopRun =>
    exact ⟨{ s with wpc := .loopCnt }, by simp [stepWriter, hw, hrun], by simp [exitDist, hw], hrun, rfl⟩
  case loopCnt =>
    exact ⟨{ s with wpc := .wgDone }, by simp [stepWriter, hw, hz.1], by simp [exitDist, hw], hrun, rfl⟩
  case wgDone =>
    exact ⟨{ s with wg := s.wg - 1, wpc := .exited }, by simp [stepWriter, hw], by simp [exitDist, hw], hrun, rfl⟩
  case sel =>
    refine ⟨{ s with wpc := .commit, again := false }, by simp [stepWriter, hw], ?_, hrun, rfl⟩
    simp [exitDist, hw]
  case fsel =>
    refine ⟨{ s with wpc := .commit, again := false }, by simp [stepWriter, hw, hz.2], ?_, hrun, rfl⟩
    simp [exitDist, hw]
  case addWrite =>
    by_cases hb : s.bsize ≤ s.batch.length + 1
    · refine ⟨_, by simp only [stepWriter, hw, hb, if_true]; exact List.mem_singleton.mpr rfl, ?_, by simp [emit, hrun], by simp [emit]⟩
      cases hf : s.fl <;> simp [exitDist, hw, emit, hf] <;> omega
    · refine ⟨_, by simp only [stepWriter, hw, hb, if_false]; exact List.mem_singleton.mpr rfl, ?_, by simp [emit, hrun], by simp [emit]⟩
      cases hf : s.fl <;> simp [exitDist, hw, emit, hf] <;> omega
  case commit =>
    cases hb : s.batch with
    | nil =>
      refine ⟨afterCommit s, by simp [stepWriter, hw, hb], ?_, ?_, ?_⟩
      · cases ha : s.again <;> simp [exitDist, hw, afterCommit, ha, hb]
      · cases ha : s.again <;> simp [afterCommit, ha, hrun]
      · cases ha : s.again <;> simp [afterCommit, ha]
    | cons o rest =>
      refine ⟨_, by simp only [stepWriter, hw, hb]; exact List.mem_singleton.mpr rfl, ?_, by simp [emit, hrun], by simp [emit]⟩
      cases ha : s.again <;> simp [exitDist, hw, emit, hb, ha]
  case doneLoop =>
    cases hb : s.todo with
    | nil =>
      refine ⟨afterCommit s, by simp [stepWriter, hw, hb], ?_, ?_, ?_⟩
      · cases ha : s.again <;> simp [exitDist, hw, afterCommit, ha, hb]
      · cases ha : s.again <;> simp [afterCommit, ha, hrun]
      · cases ha : s.again <;> simp [afterCommit, ha]
    | cons o rest =>
      refine ⟨_, by simp only [stepWriter, hw, hb]; exact List.mem_singleton.mpr rfl, ?_, by simp [emit, hrun], by simp [emit]⟩
      cases ha : s.again <;> simp [exitDist, hw, emit, hb, ha]

theorem zero_count_facts {s : St} {ts : List Thread} (hi : Inv (s, ts)) (hz : s.count = 0) :
    s.queue = [] ∧ s.wpc ≠ .addReset ∧ s.wpc ≠ .addDec ∧ ts.countP atSend = 0 := by
  have h1 := hi.cnt.count
  simp only at h1
  rw [hz] at h1
  refine ⟨List.eq_nil_of_length_eq_zero (by omega), fun h => ?_, fun h => ?_, by omega⟩
  · simp [holdC, h] at h1; omega
  · simp [holdC, h] at h1; omega

theorem writer_not_enabled_of {s : St} (h : s.wpc = .exited ∨ (s.wpc = .notStarted ∧ s.spawned = false)) :
    ¬ Enabled s .writer := by
  intro he
  apply he
  rcases h with h | ⟨h, h'⟩ <;> simp [step, stepWriter, h, *]

theorem writer_to_exit {q b : Nat} {c0 : Cfg St Thread} (h0 : Init q b c0) {id : Nat} :
    ∀ n s ts, Reach sys c0 (s, ts) → Thread.writer ∈ ts → Thread.stopper id .wait ∈ ts → s.running = false →
      (s.count = 0 ∨ s.wpc = .wgDone ∨ s.wpc = .exited) → exitDist s ≤ n →
      ∃ s', Reach sys (s, ts) (s', ts) ∧ s'.wg = 0 := by
  intro n
  induction n with
  | zero =>
    intro s ts hr hw ht hrun hz hn
    by_cases hwg : s.wg = 0
    · exact ⟨s, Reach.refl _, hwg⟩
    have hi := inv_reach h0 hr
    have hen := wait_has_writer hi _ ht ⟨rfl, hwg⟩
    have a1 : s.wpc ≠ .exited := fun h => writer_not_enabled_of (Or.inl h) hen
    have a2 : s.wpc = .notStarted → s.spawned = true := by
      intro h; cases hs : s.spawned
      · exact (writer_not_enabled_of (Or.inr ⟨h, hs⟩) hen).elim
      · rfl
    obtain ⟨s', _, hlt, _, _⟩ := exit_step s hrun a1 a2 (by
      intro hne
      rcases hz with hz | hz | hz
      · have := zero_count_facts hi hz; exact ⟨hz, this.1, this.2.1, this.2.2.1⟩
      · exact (hne hz).elim
      · exact (a1 hz).elim)
    omega
  | succ n ih =>
    intro s ts hr hw ht hrun hz hn
    by_cases hwg : s.wg = 0
    · exact ⟨s, Reach.refl _, hwg⟩
    have hi := inv_reach h0 hr
    have hen := wait_has_writer hi _ ht ⟨rfl, hwg⟩
    have a1 : s.wpc ≠ .exited := fun h => writer_not_enabled_of (Or.inl h) hen
    have a2 : s.wpc = .notStarted → s.spawned = true := by
      intro h; cases hs : s.spawned
      · exact (writer_not_enabled_of (Or.inr ⟨h, hs⟩) hen).elim
      · rfl
    obtain ⟨s', hm, hlt, hrun', hcnt⟩ := exit_step s hrun a1 a2 (by
      intro hne
      rcases hz with hz | hz | hz
      · have := zero_count_facts hi hz; exact ⟨hz, this.1, this.2.1, this.2.2.1⟩
      · exact (hne hz).elim
      · exact (a1 hz).elim)
    have hstep := writer_step_reach hw hm
    have hz' : s'.count = 0 ∨ s'.wpc = .wgDone ∨ s'.wpc = .exited := by
      rcases hz with hz | hz | hz
      · left; rw [hcnt]; exact hz
      · -- from wgDone the only step leads to exited
        right; right
        simp [stepWriter, hz] at hm
        subst hm; rfl
      · exact (a1 hz).elim
    obtain ⟨s'', hr2, hfin⟩ := ih s' ts (hr.trans hstep) hw ht hrun' hz' (by omega)
    exact ⟨s'', hstep.trans hr2, hfin⟩

/-! ### Stop blocked in `writeWg.Wait()`: phase 1 — the announced objects are drained -/

/-- announced, not yet at the queue send -/
def preSend : Thread → Bool
  | .prod _ pc _ _ => pc = .chkRun || pc = .cas || pc = .undo
  | _ => false

/-- what a producer still costs -/
def wt : Thread → Nat
  | .prod _ pc _ _ =>
    match pc with
    | .chkRun => 2
    | .cas => 13
    | .send => 12
    | .undo => 1
    | _ => 0
  | _ => 0

def wbase : WPc → Nat
  | .sel => 0
  | .fsel => 0
  | .loopCnt => 1
  | .loopRun => 2
  | .notStarted => 3
  | .doneLoop => 3
  | .commit => 4
  | .addWrite => 8
  | .addDec => 9
  | .addReset => 10
  | .wgDone => 0
  | .exited => 0

/-- the writer's part of the measure -/
def wpot (s : St) : Nat := wbase s.wpc + 3 * s.batch.length + 2 * s.todo.length

/-- decreases with every scheduled step while `running = false` and the counter is not 0 -/
def drainMeasure (s : St) (ts : List Thread) : Nat := (ts.map wt).sum + 11 * s.queue.length + wpot s

theorem sum_mid (pre post : List Thread) (u : Thread) :
    ((pre ++ u :: post).map wt).sum = (pre.map wt).sum + wt u + (post.map wt).sum := by
  simp [List.sum_append, List.sum_cons]; omega

/-- a writer step outside the two `select`s makes the writer's potential smaller and leaves the queue alone -/
theorem drain_writer_step (s : St) (hrun : s.running = false) (h1 : s.wpc ≠ .sel) (h2 : s.wpc ≠ .fsel)
    (h3 : s.wpc ≠ .wgDone) (h4 : s.wpc ≠ .exited) (h5 : s.wpc = .notStarted → s.spawned = true)
    (h6 : s.wpc = .loopCnt → s.count ≠ 0) :
    ∃ s' ∈ stepWriter s, wpot s' < wpot s ∧ s'.queue = s.queue ∧ s'.running = false := by
  cases hw : s.wpc <;> simp only [hw, ne_eq, not_true_eq_false, reduceCtorEq, not_false_eq_true, forall_const,
    false_implies] at h1 h2 h3 h4 h5 h6
  case notStarted =>
    exact ⟨{ s with wpc := .loopRun }, by simp [stepWriter, hw, h5], by simp [wpot, wbase, hw], rfl, hrun⟩
  case loopRun =>
    exact ⟨{ s with wpc := .loopCnt }, by simp [stepWriter, hw, hrun], by simp [wpot, wbase, hw], rfl, hrun⟩
  case loopCnt =>
    refine ⟨{ s with wpc := .sel, batch := [], muts := [], fl := false }, by simp [stepWriter, hw, h6], ?_, rfl, hrun⟩
    simp [wpot, wbase, hw]; omega
  case addReset =>
    refine ⟨_, by simp only [stepWriter, hw]; exact List.mem_singleton.mpr rfl, ?_, by simp [emit], by simp [emit, hrun]⟩
    simp [wpot, wbase, hw, emit]
  case addDec =>
    refine ⟨{ s with count := s.count - 1, wpc := .addWrite }, by simp [stepWriter, hw], ?_, rfl, hrun⟩
    simp [wpot, wbase, hw]
  case addWrite =>
    by_cases hb : s.bsize ≤ s.batch.length + 1
    · refine ⟨_, by simp only [stepWriter, hw, hb, if_true]; exact List.mem_singleton.mpr rfl, ?_, by simp [emit], by simp [emit, hrun]⟩
      simp [wpot, wbase, hw, emit]; omega
    · refine ⟨_, by simp only [stepWriter, hw, hb, if_false]; exact List.mem_singleton.mpr rfl, ?_, by simp [emit], by simp [emit, hrun]⟩
      cases hf : s.fl <;> simp [wpot, wbase, hw, emit, hf] <;> omega
  case commit =>
    cases hb : s.batch with
    | nil =>
      refine ⟨afterCommit s, by simp [stepWriter, hw, hb], ?_, ?_, ?_⟩
      · cases ha : s.again <;> simp [wpot, wbase, hw, afterCommit, ha, hb] <;> omega
      · cases ha : s.again <;> simp [afterCommit, ha]
      · cases ha : s.again <;> simp [afterCommit, ha, hrun]
    | cons o rest =>
      refine ⟨_, by simp only [stepWriter, hw, hb]; exact List.mem_singleton.mpr rfl, ?_, by simp [emit], by simp [emit, hrun]⟩
      simp [wpot, wbase, hw, emit, hb] <;> omega
  case doneLoop =>
    cases hb : s.todo with
    | nil =>
      refine ⟨afterCommit s, by simp [stepWriter, hw, hb], ?_, ?_, ?_⟩
      · cases ha : s.again <;> simp [wpot, wbase, hw, afterCommit, ha, hb] <;> omega
      · cases ha : s.again <;> simp [afterCommit, ha]
      · cases ha : s.again <;> simp [afterCommit, ha, hrun]
    | cons o rest =>
      refine ⟨_, by simp only [stepWriter, hw, hb]; exact List.mem_singleton.mpr rfl, ?_, by simp [emit], by simp [emit, hrun]⟩
      simp [wpot, wbase, hw, emit, hb] <;> omega

/-- a producer that has announced its object and is not yet at the send takes a step: the measure drops,
`running`, the queue and the writer are untouched -/
theorem presend_step (s : St) (u : Thread) (hrun : s.running = false) (hp : preSend u = true) :
    ∃ s' u', (s', u') ∈ step s u ∧ wt u' < wt u ∧ s'.queue = s.queue ∧ wpot s' = wpot s ∧ s'.running = false ∧
      u' ≠ .writer ∧ (∀ k, u' ≠ .stopper k .wait) := by
  cases u with
  | prod id pc cur sc =>
    cases pc <;> simp [preSend] at hp
    case chkRun =>
      exact ⟨s, .prod id .undo cur sc, by simp [step, stepProd, hrun], by simp [wt], rfl, rfl, hrun, by simp, by simp⟩
    case cas =>
      by_cases hf : s.flag cur = true
      · exact ⟨_, .prod id .undo cur sc, by simp only [step, stepProd, hf, if_true]; exact List.mem_singleton.mpr rfl,
          by simp [wt], by simp [emit], by simp [wpot, emit], by simp [emit, hrun], by simp, by simp⟩
      · exact ⟨_, .prod id .send cur sc, by simp only [step, stepProd, hf]; exact List.mem_singleton.mpr rfl,
          by simp [wt], by simp [emit], by simp [wpot, emit], by simp [emit, hrun], by simp, by simp⟩
    case undo =>
      exact ⟨{ s with count := s.count - 1 }, .prod id .ret cur sc, by simp [step, stepProd], by simp [wt], rfl, rfl, hrun,
        by simp, by simp⟩
  | _ => simp [preSend] at hp

/-- a producer at the send, the queue empty, the writer in a `select`: the send (or the hand-off) happens -/
theorem send_step (s : St) (id cur : Nat) (sc : List Nat) (hrun : s.running = false) (hq : s.queue = [])
    (hsel : s.wpc = .sel ∨ s.wpc = .fsel) :
    ∃ s', (s', Thread.prod id .ret cur sc) ∈ step s (.prod id .send cur sc) ∧
      11 * s'.queue.length + wpot s' < 12 + (11 * s.queue.length + wpot s) ∧ s'.running = false := by
  by_cases hz : 0 < s.qsize
  · refine ⟨{ s with queue := s.queue ++ [cur], snt := upd s.snt cur (s.snt cur + 1), win := s.win - 1 },
      by simp [step, stepProd, hq, hz], ?_, hrun⟩
    simp [wpot, hq]
  · have hz' : s.qsize = 0 := by omega
    refine ⟨{ s with snt := upd s.snt cur (s.snt cur + 1), rcv := upd s.rcv cur (s.rcv cur + 1), wcur := cur, wpc := .addReset,
                     win := s.win - 1 }, ?_, ?_, hrun⟩
    · rcases hsel with h | h <;> simp [step, stepProd, hq, hz', h]
    · rcases hsel with h | h <;> simp [wpot, wbase, hq, h] <;> omega

theorem mem_replace {pre post : List Thread} {u u' t : Thread} (h : t ∈ pre ++ u :: post) (hne : t ≠ u) :
    t ∈ pre ++ u' :: post := by
  simp only [List.mem_append, List.mem_cons] at h ⊢
  rcases h with h | h | h
  · exact Or.inl h
  · exact (hne h).elim
  · exact Or.inr (Or.inr h)

/-- **A Stop blocked in `writeWg.Wait()` can be unblocked**: there is a continuation, in which the Stop caller
itself does not move, after which the WaitGroup counter is 0. -/
theorem drain_to_exit {q b : Nat} {c0 : Cfg St Thread} (h0 : Init q b c0) {i id : Nat} :
    ∀ n s ts, Reach sys c0 (s, ts) → Thread.writer ∈ ts → ts[i]? = some (Thread.stopper id .wait) →
      s.running = false → drainMeasure s ts ≤ n →
      ∃ s' ts', Reach sys (s, ts) (s', ts') ∧ ts'[i]? = some (Thread.stopper id .wait) ∧ s'.wg = 0 ∧
        (∀ (k : Nat) (t0 : Thread), ts[k]? = some t0 → atSend t0 = false → t0 ≠ .writer → ts'[k]? = some t0) ∧ Thread.writer ∈ ts' := by
  intro n
  induction n with
  | zero =>
    intro s ts hr hw ht hrun hn
    -- measure 0 is handled by the same argument as the successor case with no recursive call possible;
    -- it is easiest to show that the counter is 0 or the writer is past its loop
    have hmem : Thread.stopper id .wait ∈ ts := List.mem_of_getElem? ht
    by_cases hwg : s.wg = 0
    · exact ⟨s, ts, Reach.refl _, ht, hwg, fun _ _ h _ _ => h, hw⟩
    have hi := inv_reach h0 hr
    have hz : s.count = 0 ∨ s.wpc = .wgDone ∨ s.wpc = .exited := by
      by_cases hc0 : s.count = 0
      · exact Or.inl hc0
      by_cases h3 : s.wpc = .wgDone
      · exact Or.inr (Or.inl h3)
      by_cases h4 : s.wpc = .exited
      · exact Or.inr (Or.inr h4)
      exfalso
      -- every summand of the measure is 0
      simp only [drainMeasure, wpot] at hn
      have hq : s.queue = [] := List.eq_nil_of_length_eq_zero (by omega)
      have hcnt := hi.cnt.count
      simp only at hcnt
      have hb : wbase s.wpc = 0 := by omega
      have hh : holdC s.wpc = 0 := by
        cases hw' : s.wpc <;> simp [wbase, hw'] at hb <;> simp [holdC]
      have hpos : 0 < ts.countP atSend := by
        rw [hq, hh] at hcnt; simp at hcnt; omega
      obtain ⟨u, hu, hp⟩ := exists_of_countP_pos atSend ts hpos
      obtain ⟨pre, post, rfl⟩ := List.append_of_mem hu
      rw [sum_mid] at hn
      have : 0 < wt u := by
        cases u with
        | prod id pc cur sc => cases pc <;> simp [atSend] at hp <;> simp [wt]
        | _ => simp [atSend] at hp
      omega
    obtain ⟨s', hr', hfin⟩ := writer_to_exit h0 (exitDist s) s ts hr hw hmem hrun hz (Nat.le_refl _)
    exact ⟨s', ts, hr', ht, hfin, fun _ _ h _ _ => h, hw⟩
  | succ n ih =>
    intro s ts hr hw ht hrun hn
    have hmem : Thread.stopper id .wait ∈ ts := List.mem_of_getElem? ht
    by_cases hwg : s.wg = 0
    · exact ⟨s, ts, Reach.refl _, ht, hwg, fun _ _ h _ _ => h, hw⟩
    have hi := inv_reach h0 hr
    by_cases hz : s.count = 0 ∨ s.wpc = .wgDone ∨ s.wpc = .exited
    · obtain ⟨s', hr', hfin⟩ := writer_to_exit h0 (exitDist s) s ts hr hw hmem hrun hz (Nat.le_refl _)
      exact ⟨s', ts, hr', ht, hfin, fun _ _ h _ _ => h, hw⟩
    have hc0 : s.count ≠ 0 := fun h => hz (Or.inl h)
    have h3 : s.wpc ≠ .wgDone := fun h => hz (Or.inr (Or.inl h))
    have h4 : s.wpc ≠ .exited := fun h => hz (Or.inr (Or.inr h))
    have hen := wait_has_writer hi _ hmem ⟨rfl, hwg⟩
    have h5 : s.wpc = .notStarted → s.spawned = true := by
      intro h; cases hs : s.spawned
      · exact (writer_not_enabled_of (Or.inr ⟨h, hs⟩) hen).elim
      · rfl
    by_cases hpre : ∃ u ∈ ts, preSend u = true
    · -- (a) a producer between its increment and the send moves on
      obtain ⟨u, hu, hp⟩ := hpre
      obtain ⟨pre, post, rfl⟩ := List.append_of_mem hu
      obtain ⟨s', u', hm, hlt, hq', hw', hrun', hnw, hns⟩ := presend_step s u hrun hp
      have hne1 : Thread.stopper id .wait ≠ u := by
        intro e; subst e; simp [preSend] at hp
      have hne2 : Thread.writer ≠ u := by
        intro e; subst e; simp [preSend] at hp
      have hstep := step_reach (pre := pre) (post := post) hm
      have hmeas : drainMeasure s' (pre ++ u' :: post) ≤ n := by
        simp only [drainMeasure, sum_mid, hq', hw'] at hn ⊢; omega
      obtain ⟨s'', ts'', hr2, ht2, hfin, hfr, hwr⟩ := ih s' _ (hr.trans hstep) (mem_replace hw hne2) (getElem?_replace ht hne1) hrun' hmeas
      have hau : atSend u = true := by
        cases u with
        | prod pid pc cur sc => cases pc <;> simp [preSend] at hp <;> simp [atSend]
        | _ => simp [preSend] at hp
      refine ⟨s'', ts'', hstep.trans hr2, ht2, hfin, fun k t0 hk ha hnw' => hfr k t0 (getElem?_replace hk ?_) ha hnw', hwr⟩
      intro e; subst e; simp [hau] at ha
    · by_cases hsel : s.wpc = .sel ∨ s.wpc = .fsel
      · cases hqq : s.queue with
        | cons o rest =>
          -- (c1) the writer takes the head of the queue
          have hm : { s with queue := rest, rcv := upd s.rcv o (s.rcv o + 1), wcur := o, wpc := .addReset } ∈ stepWriter s := by
            rcases hsel with h | h <;> simp [stepWriter, h, recvStep, hqq]
          have hstep := writer_step_reach hw hm
          have hmeas : drainMeasure { s with queue := rest, rcv := upd s.rcv o (s.rcv o + 1), wcur := o, wpc := .addReset } ts ≤ n := by
            simp only [drainMeasure, wpot, hqq, List.length_cons] at hn ⊢
            rcases hsel with h | h <;> simp [wbase, h] at hn ⊢ <;> omega
          obtain ⟨s'', ts'', hr2, ht2, hfin, hfr, hwr⟩ := ih _ ts (hr.trans hstep) hw ht hrun hmeas
          exact ⟨s'', ts'', hstep.trans hr2, ht2, hfin, hfr, hwr⟩
        | nil =>
          -- (c2) the queue is empty, the counter is not 0: some producer is at the send
          have hcnt := hi.cnt.count
          simp only at hcnt
          have hh : holdC s.wpc = 0 := by rcases hsel with h | h <;> simp [holdC, h]
          have hpos : 0 < ts.countP atSend := by
            rw [hqq, hh] at hcnt; simp at hcnt; omega
          obtain ⟨u, hu, hp⟩ := exists_of_countP_pos atSend ts hpos
          have hnp : preSend u = false := by
            cases hx : preSend u
            · rfl
            · exact (hpre ⟨u, hu, hx⟩).elim
          obtain ⟨pid, cur, sc, rfl⟩ : ∃ pid cur sc, u = Thread.prod pid .send cur sc := by
            cases u with
            | prod pid pc cur sc =>
              cases pc <;> simp [atSend] at hp <;> simp [preSend] at hnp
              exact ⟨pid, cur, sc, rfl⟩
            | _ => simp [atSend] at hp
          obtain ⟨pre, post, rfl⟩ := List.append_of_mem hu
          obtain ⟨s', hm, hlt, hrun'⟩ := send_step s pid cur sc hrun hqq hsel
          have hstep := step_reach (pre := pre) (post := post) hm
          have hmeas : drainMeasure s' (pre ++ Thread.prod pid .ret cur sc :: post) ≤ n := by
            simp only [drainMeasure, sum_mid, wt] at hn ⊢; omega
          obtain ⟨s'', ts'', hr2, ht2, hfin, hfr, hwr⟩ := ih s' _ (hr.trans hstep) (mem_replace hw (by simp))
            (getElem?_replace ht (by simp)) hrun' hmeas
          refine ⟨s'', ts'', hstep.trans hr2, ht2, hfin, fun k t0 hk ha hnw' => hfr k t0 (getElem?_replace hk ?_) ha hnw', hwr⟩
          intro e; subst e; simp [atSend] at ha
      · -- (b) the writer moves towards its next `select`
        have h1 : s.wpc ≠ .sel := fun h => hsel (Or.inl h)
        have h2 : s.wpc ≠ .fsel := fun h => hsel (Or.inr h)
        obtain ⟨s', hm, hlt, hq', hrun'⟩ := drain_writer_step s hrun h1 h2 h3 h4 h5 (fun _ => hc0)
        have hstep := writer_step_reach hw hm
        have hmeas : drainMeasure s' ts ≤ n := by
          simp only [drainMeasure, hq'] at hn ⊢; omega
        obtain ⟨s'', ts'', hr2, ht2, hfin, hfr, hwr⟩ := ih s' ts (hr.trans hstep) hw ht hrun' hmeas
        exact ⟨s'', ts'', hstep.trans hr2, ht2, hfin, hfr, hwr⟩

/-! ### Waiting for `startStopMutex`: the holder releases it -/

/-- steps the holder of the mutex still needs to release it (not counting the writer's while Stop waits) -/
def hdist : Thread → Nat
  | .prod _ pc _ _ =>
    match pc with
    | .startLoad => 5
    | .startStore => 4
    | .startAdd => 3
    | .startGo => 2
    | .startUnlock => 1
    | _ => 0
  | .stopper _ pc =>
    match pc with
    | .load => 4
    | .store => 3
    | .wait => 2
    | .unlock => 1
    | _ => 0
  | _ => 0

/-- one step of a mutex holder that is not blocked in `Wait`: it releases the mutex or gets closer to that -/
theorem holder_step (s : St) (u : Thread) (h : holdsMu u = true) (hw : atWait u = true → s.wg = 0) :
    ∃ s' u', (s', u') ∈ step s u ∧ (s'.mu = false ∨ (holdsMu u' = true ∧ hdist u' < hdist u)) := by
  cases u with
  | prod id pc cur sc =>
    cases pc <;> simp [holdsMu] at h
    case startLoad =>
      by_cases hr : s.running = true
      · exact ⟨{ s with once := 2 }, .prod id .startUnlock cur sc, by simp [step, stepProd, hr], Or.inr ⟨by simp [holdsMu], by simp [hdist]⟩⟩
      · exact ⟨s, .prod id .startStore cur sc, by simp [step, stepProd, hr], Or.inr ⟨by simp [holdsMu], by simp [hdist]⟩⟩
    case startStore =>
      exact ⟨{ s with running := true, once := 2, started := true }, .prod id .startAdd cur sc, by simp [step, stepProd],
        Or.inr ⟨by simp [holdsMu], by simp [hdist]⟩⟩
    case startAdd =>
      exact ⟨{ s with wg := s.wg + 1, added := true }, .prod id .startGo cur sc, by simp [step, stepProd],
        Or.inr ⟨by simp [holdsMu], by simp [hdist]⟩⟩
    case startGo =>
      exact ⟨{ s with spawned := true }, .prod id .startUnlock cur sc, by simp [step, stepProd],
        Or.inr ⟨by simp [holdsMu], by simp [hdist]⟩⟩
    case startUnlock =>
      exact ⟨{ s with mu := false }, .prod id .onceEnd cur sc, by simp [step, stepProd], Or.inl rfl⟩
  | stopper id pc =>
    cases pc <;> simp [holdsMu] at h
    case load =>
      by_cases hr : s.running = true
      · exact ⟨s, .stopper id .store, by simp [step, stepStop, hr], Or.inr ⟨by simp [holdsMu], by simp [hdist]⟩⟩
      · exact ⟨s, .stopper id .unlock, by simp [step, stepStop, hr], Or.inr ⟨by simp [holdsMu], by simp [hdist]⟩⟩
    case store =>
      exact ⟨{ s with running := false, stopped := true }, .stopper id .wait, by simp [step, stepStop],
        Or.inr ⟨by simp [holdsMu], by simp [hdist]⟩⟩
    case wait =>
      have := hw (by simp [atWait])
      exact ⟨{ s with waited := true }, .stopper id .unlock, by simp [step, stepStop, this],
        Or.inr ⟨by simp [holdsMu], by simp [hdist]⟩⟩
    case unlock =>
      exact ⟨{ s with mu := false }, .stopper id .ret, by simp [step, stepStop], Or.inl rfl⟩
  | _ => simp [holdsMu] at h

/-- Threads a continuation built here never moves on behalf of somebody else: not the writer, not a producer
between its counter increment and its send, not a holder of the mutex, not the thread inside the `Once` body. -/
def frozenM (t : Thread) : Prop := atSend t = false ∧ t ≠ .writer ∧ holdsMu t = false

def frozen (t : Thread) : Prop := frozenM t ∧ bodyPre t = false ∧ bodyPost t = false

theorem holder_releases {q b : Nat} {c0 : Cfg St Thread} (h0 : Init q b c0) :
    ∀ n s ts u, Reach sys c0 (s, ts) → Thread.writer ∈ ts → u ∈ ts → holdsMu u = true → hdist u ≤ n →
      ∃ s' ts', Reach sys (s, ts) (s', ts') ∧ s'.mu = false ∧ Thread.writer ∈ ts' ∧
        (∀ (k : Nat) (t0 : Thread), ts[k]? = some t0 → frozenM t0 → ts'[k]? = some t0) := by
  intro n
  induction n with
  | zero =>
    intro s ts u hr hw hu hh hn
    exfalso
    cases u with
    | prod id pc cur sc => cases pc <;> simp [holdsMu] at hh <;> simp [hdist] at hn
    | stopper id pc => cases pc <;> simp [holdsMu] at hh <;> simp [hdist] at hn
    | _ => simp [holdsMu] at hh
  | succ n ih =>
    intro s ts u hr hw hu hh hn
    -- first make sure that a holder inside `Wait` can pass it
    have hpre : ∃ s1 ts1, Reach sys (s, ts) (s1, ts1) ∧ u ∈ ts1 ∧ Thread.writer ∈ ts1 ∧ (atWait u = true → s1.wg = 0) ∧
        (∀ (k : Nat) (t0 : Thread), ts[k]? = some t0 → frozenM t0 → ts1[k]? = some t0) := by
      by_cases haw : atWait u = true
      · cases u with
        | stopper id pc =>
          simp [atWait] at haw; subst haw
          obtain ⟨i, hi⟩ := List.mem_iff_getElem?.mp hu
          have hinv := inv_reach h0 hr
          have hrun : s.running = false := by
            obtain ⟨pre, post, rfl⟩ := List.append_of_mem hu
            have := (cfacts_of_cnt hinv.cnt).wait (by simp [atWait])
            exact (hinv.l.stopped_run this.1).1
          obtain ⟨s1, ts1, hr1, ht1, hwg, hfr, hwr⟩ := drain_to_exit h0 (drainMeasure s ts) s ts hr hw hi hrun (Nat.le_refl _)
          exact ⟨s1, ts1, hr1, List.mem_of_getElem? ht1, hwr, fun _ => hwg, fun k t0 hk hf => hfr k t0 hk hf.1 hf.2.1⟩
        | _ => simp [atWait] at haw
      · exact ⟨s, ts, Reach.refl _, hu, hw, fun h => (haw h).elim, fun _ _ h _ => h⟩
    obtain ⟨s1, ts1, hr1, hu1, hw1, hwg1, hfr1⟩ := hpre
    obtain ⟨s2, u2, hm, hres⟩ := holder_step s1 u hh hwg1
    obtain ⟨pre, post, rfl⟩ := List.append_of_mem hu1
    have hstep := step_reach (pre := pre) (post := post) hm
    have hnw : Thread.writer ≠ u := by intro e; subst e; simp [holdsMu] at hh
    have hw2 : Thread.writer ∈ pre ++ u2 :: post := mem_replace hw1 hnw
    have hfr2 : ∀ (k : Nat) (t0 : Thread), ts[k]? = some t0 → frozenM t0 → (pre ++ u2 :: post)[k]? = some t0 := by
      intro k t0 hk hf
      refine getElem?_replace (hfr1 k t0 hk hf) ?_
      intro e; subst e; simp [hf.2.2] at hh
    rcases hres with hmu | ⟨hh2, hlt⟩
    · exact ⟨s2, _, hr1.trans hstep, hmu, hw2, hfr2⟩
    · obtain ⟨s3, ts3, hr3, hmu3, hw3, hfr3⟩ := ih s2 _ u2 ((hr.trans hr1).trans hstep) hw2 (by simp) hh2 (by omega)
      exact ⟨s3, ts3, (hr1.trans hstep).trans hr3, hmu3, hw3, fun k t0 hk hf => hfr3 k t0 (hfr2 k t0 hk hf) hf⟩

theorem running_false_of_wait {s : St} {ts : List Thread} (hi : Inv (s, ts)) {id : Nat}
    (h : Thread.stopper id .wait ∈ ts) : s.running = false := by
  obtain ⟨pre, post, rfl⟩ := List.append_of_mem h
  have := (cfacts_of_cnt hi.cnt).wait (by simp [atWait])
  exact (hi.l.stopped_run this.1).1

/-! ### Waiting for `autoStartOnce`: the thread inside the body finishes it -/

def odist : Thread → Nat
  | .prod _ pc _ _ =>
    match pc with
    | .body => 9
    | .startLock => 8
    | .startLoad => 7
    | .startStore => 6
    | .startAdd => 5
    | .startGo => 4
    | .startUnlock => 3
    | .onceEnd => 2
    | _ => 0
  | _ => 0

def atStartLock : Thread → Bool
  | .prod _ pc _ _ => pc = .startLock
  | _ => false

theorem body_step (s : St) (u : Thread) (h : bodyPre u = true ∨ bodyPost u = true) (hl : atStartLock u = true → s.mu = false) :
    ∃ s' u', (s', u') ∈ step s u ∧ (s'.once = 3 ∨ ((bodyPre u' = true ∨ bodyPost u' = true) ∧ odist u' < odist u)) := by
  cases u with
  | prod id pc cur sc =>
    cases pc <;> simp [bodyPre, bodyPost] at h
    case body =>
      by_cases hr : s.running = true
      · exact ⟨{ s with once := 2 }, .prod id .onceEnd cur sc, by simp [step, stepProd, hr], Or.inr ⟨by simp [bodyPost], by simp [odist]⟩⟩
      · exact ⟨s, .prod id .startLock cur sc, by simp [step, stepProd, hr], Or.inr ⟨by simp [bodyPre], by simp [odist]⟩⟩
    case startLock =>
      have := hl (by simp [atStartLock])
      exact ⟨{ s with mu := true }, .prod id .startLoad cur sc, by simp [step, stepProd, this], Or.inr ⟨by simp [bodyPre], by simp [odist]⟩⟩
    case startLoad =>
      by_cases hr : s.running = true
      · exact ⟨{ s with once := 2 }, .prod id .startUnlock cur sc, by simp [step, stepProd, hr], Or.inr ⟨by simp [bodyPost], by simp [odist]⟩⟩
      · exact ⟨s, .prod id .startStore cur sc, by simp [step, stepProd, hr], Or.inr ⟨by simp [bodyPre], by simp [odist]⟩⟩
    case startStore =>
      exact ⟨{ s with running := true, once := 2, started := true }, .prod id .startAdd cur sc, by simp [step, stepProd],
        Or.inr ⟨by simp [bodyPost], by simp [odist]⟩⟩
    case startAdd =>
      exact ⟨{ s with wg := s.wg + 1, added := true }, .prod id .startGo cur sc, by simp [step, stepProd],
        Or.inr ⟨by simp [bodyPost], by simp [odist]⟩⟩
    case startGo =>
      exact ⟨{ s with spawned := true }, .prod id .startUnlock cur sc, by simp [step, stepProd],
        Or.inr ⟨by simp [bodyPost], by simp [odist]⟩⟩
    case startUnlock =>
      exact ⟨{ s with mu := false }, .prod id .onceEnd cur sc, by simp [step, stepProd], Or.inr ⟨by simp [bodyPost], by simp [odist]⟩⟩
    case onceEnd =>
      exact ⟨{ s with once := 3 }, .prod id .inc cur sc, by simp [step, stepProd], Or.inl rfl⟩
  | _ => simp [bodyPre, bodyPost] at h

theorem once_completes {q b : Nat} {c0 : Cfg St Thread} (h0 : Init q b c0) :
    ∀ n s ts u, Reach sys c0 (s, ts) → Thread.writer ∈ ts → u ∈ ts → (bodyPre u = true ∨ bodyPost u = true) → odist u ≤ n →
      ∃ s' ts', Reach sys (s, ts) (s', ts') ∧ s'.once = 3 ∧
        (∀ (k : Nat) (t0 : Thread), ts[k]? = some t0 → frozen t0 → ts'[k]? = some t0) := by
  intro n
  induction n with
  | zero =>
    intro s ts u hr hw hu hb hn
    exfalso
    cases u with
    | prod id pc cur sc => cases pc <;> simp [bodyPre, bodyPost] at hb <;> simp [odist] at hn
    | _ => simp [bodyPre, bodyPost] at hb
  | succ n ih =>
    intro s ts u hr hw hu hb hn
    have hnw : Thread.writer ≠ u := by intro e; subst e; simp [bodyPre, bodyPost] at hb
    -- if the body thread waits for the mutex, its holder releases it first
    have hpre : ∃ s1 ts1, Reach sys (s, ts) (s1, ts1) ∧ u ∈ ts1 ∧ Thread.writer ∈ ts1 ∧ (atStartLock u = true → s1.mu = false) ∧
        (∀ (k : Nat) (t0 : Thread), ts[k]? = some t0 → frozen t0 → ts1[k]? = some t0) := by
      by_cases hal : atStartLock u = true ∧ s.mu = true
      · obtain ⟨v, hv, hhv, _⟩ := mutex_has_holder (inv_reach h0 hr) hal.2
        obtain ⟨s1, ts1, hr1, hmu1, hw1, hfr1⟩ := holder_releases h0 (hdist v) s ts v hr hw hv hhv (Nat.le_refl _)
        obtain ⟨k, hk⟩ := List.mem_iff_getElem?.mp hu
        have hfu : frozenM u := by
          cases u with
          | prod id pc cur sc =>
            have := hal.1; simp [atStartLock] at this; subst this
            exact ⟨by simp [atSend], by simp, by simp [holdsMu]⟩
          | _ => have := hal.1; simp [atStartLock] at this
        exact ⟨s1, ts1, hr1, List.mem_of_getElem? (hfr1 k u hk hfu), hw1, fun _ => hmu1, fun k t0 hk hf => hfr1 k t0 hk hf.1⟩
      · refine ⟨s, ts, Reach.refl _, hu, hw, fun h => ?_, fun _ _ h _ => h⟩
        cases hm : s.mu
        · rfl
        · exact (hal ⟨h, hm⟩).elim
    obtain ⟨s1, ts1, hr1, hu1, hw1, hl1, hfr1⟩ := hpre
    obtain ⟨s2, u2, hm, hres⟩ := body_step s1 u hb hl1
    obtain ⟨pre, post, rfl⟩ := List.append_of_mem hu1
    have hstep := step_reach (pre := pre) (post := post) hm
    have hw2 : Thread.writer ∈ pre ++ u2 :: post := mem_replace hw1 hnw
    have hfr2 : ∀ (k : Nat) (t0 : Thread), ts[k]? = some t0 → frozen t0 → (pre ++ u2 :: post)[k]? = some t0 := by
      intro k t0 hk hf
      refine getElem?_replace (hfr1 k t0 hk hf) ?_
      intro e; subst e
      rcases hb with hb | hb
      · simp [hf.2.1] at hb
      · simp [hf.2.2] at hb
    rcases hres with ho | ⟨hb2, hlt⟩
    · exact ⟨s2, _, hr1.trans hstep, ho, hfr2⟩
    · obtain ⟨s3, ts3, hr3, ho3, hfr3⟩ := ih s2 _ u2 ((hr.trans hr1).trans hstep) hw2 (by simp) hb2 (by omega)
      exact ⟨s3, ts3, (hr1.trans hstep).trans hr3, ho3, fun k t0 hk hf => hfr3 k t0 (hfr2 k t0 hk hf) hf⟩

/-! ### Every unfinished call can be unblocked -/

/-- **No call is blocked for ever**: from every reachable configuration, for every thread with an unfinished call,
there is a continuation in which that thread itself does not move and after which it can. -/
theorem unblocks {q b : Nat} {c0 c : Cfg St Thread} (h0 : Init q b c0) (hw0 : Thread.writer ∈ c0.2) (hr : Reach sys c0 c)
    (i : Nat) (t : Thread) (hi : c.2[i]? = some t) (hnf : t.finished = false) :
    ∃ c', Reach sys c c' ∧ c'.2[i]? = some t ∧ step c'.1 t ≠ [] := by
  obtain ⟨s, ts⟩ := c
  have hinv := inv_reach h0 hr
  have hw := writer_mem_reach hw0 hr
  have hmem : t ∈ ts := List.mem_of_getElem? hi
  simp only at hi hw ⊢
  rcases blocked_classes s t hinv.l.once_le hnf with he | hb | hb | hb | hb
  · exact ⟨(s, ts), Reach.refl _, hi, he⟩
  · -- waiting for the Once
    cases t with
    | prod id pc cur sc =>
      obtain ⟨rfl, ho⟩ := hb
      obtain ⟨u, hu, hbu, _⟩ := once_has_body hinv ho
      obtain ⟨s', ts', hr', ho', hfr⟩ := once_completes h0 (odist u) s ts u hr hw hu hbu (Nat.le_refl _)
      refine ⟨(s', ts'), hr', hfr i _ hi ⟨⟨by simp [atSend], by simp, by simp [holdsMu]⟩, by simp [bodyPre], by simp [bodyPost]⟩, ?_⟩
      simp [step, stepProd, ho']
    | _ => exact hb.elim
  · -- waiting for the mutex
    have hmu : s.mu = true := by
      cases t with
      | prod id pc cur sc => exact hb.2
      | stopper id pc => exact hb.2
      | _ => exact hb.elim
    obtain ⟨v, hv, hhv, _⟩ := mutex_has_holder hinv hmu
    obtain ⟨s', ts', hr', hmu', _, hfr⟩ := holder_releases h0 (hdist v) s ts v hr hw hv hhv (Nat.le_refl _)
    cases t with
    | prod id pc cur sc =>
      obtain ⟨rfl, _⟩ := hb
      exact ⟨(s', ts'), hr', hfr i _ hi ⟨by simp [atSend], by simp, by simp [holdsMu]⟩, by simp [step, stepProd, hmu']⟩
    | stopper id pc =>
      obtain ⟨rfl, _⟩ := hb
      exact ⟨(s', ts'), hr', hfr i _ hi ⟨by simp [atSend], by simp, by simp [holdsMu]⟩, by simp [step, stepStop, hmu']⟩
    | _ => exact hb.elim
  · -- Stop inside Wait
    cases t with
    | stopper id pc =>
      obtain ⟨rfl, _⟩ := hb
      have hrun := running_false_of_wait hinv hmem
      obtain ⟨s', ts', hr', ht', hwg, _, _⟩ := drain_to_exit h0 (drainMeasure s ts) s ts hr hw hi hrun (Nat.le_refl _)
      exact ⟨(s', ts'), hr', ht', by simp [step, stepStop, hwg]⟩
    | _ => exact hb.elim
  · -- Enqueue on the queue send
    cases t with
    | prod id pc cur sc =>
      obtain ⟨rfl, _⟩ := hb
      obtain ⟨s', hr', hen⟩ := blocked_send_unblocks h0 hr hw hmem
      exact ⟨(s', ts), hr', hi, hen⟩
    | _ => exact hb.elim

end Hive.BatchWriter
