import Hive.Model.EventsRelink
import Hive.Model.EventsIter
/-!
# `LinkTo` concurrent with `Trigger`: registry, iterator, link-structure and mutex invariants
-/
namespace Hive.EventsRelink
open Hive.Conc

def known (r : Reg) (x : Nat) : Prop := x ∈ r.live ∨ ∃ q ∈ r.frozen, q.1 = x

/-- What a next pointer of `x` that was read (or frozen) when the id counter was `cnt` satisfies. -/
def NextOK (r : Reg) (x cnt : Nat) : Option Nat → Prop
  | some y => x < y ∧ (∀ p ∈ r.live, p ≤ cnt → x < p → y ≤ p) ∧ known r y
  | none => ∀ p ∈ r.live, p ≤ cnt → ¬ x < p

structure RegInv (r : Reg) : Prop where
  sorted : r.live.Pairwise (· < ·)
  le_counter : ∀ x ∈ r.live, x ≤ r.counter
  fle : ∀ q ∈ r.frozen, q.1 ≤ q.2.2 ∧ q.2.2 ≤ r.counter
  disj : ∀ q ∈ r.frozen, q.1 ∉ r.live
  frozen_ok : ∀ q ∈ r.frozen, NextOK r q.1 q.2.2 q.2.1

theorem find_first {l : List Nat} {q : Nat → Bool} {y : Nat} (hs : l.Pairwise (· < ·))
    (hf : l.find? q = some y) : ∀ p ∈ l, q p = true → y ≤ p := by
  induction l with
  | nil => simp at hf
  | cons a l ih =>
    rw [List.pairwise_cons] at hs
    intro p hp hq
    by_cases ha : q a = true
    · simp [ha] at hf
      subst hf
      simp only [List.mem_cons] at hp
      rcases hp with rfl | hp
      · exact Nat.le_refl _
      · exact Nat.le_of_lt (hs.1 p hp)
    · simp [ha] at hf
      simp only [List.mem_cons] at hp
      rcases hp with rfl | hp
      · exact absurd hq ha
      · exact ih hs.2 hf p hp hq

theorem liveNext_ok {r : Reg} (h : RegInv r) (x cnt : Nat) : NextOK r x cnt (liveNext r x) := by
  unfold liveNext
  cases hf : r.live.find? (fun y => decide (x < y)) with
  | none =>
    intro p hp _ hlt
    have := List.find?_eq_none.mp hf p hp
    simp at this; omega
  | some y =>
    have hy : y ∈ r.live := List.mem_of_find?_eq_some hf
    have hxy : x < y := by simpa using List.find?_some hf
    exact ⟨hxy, fun p hp _ hlt => find_first h.sorted hf p hp (by simpa using hlt), Or.inl hy⟩

theorem liveNext_live {r : Reg} {x y : Nat} (h : liveNext r x = some y) : y ∈ r.live :=
  List.mem_of_find?_eq_some h

/-- Reading `x.next`: the frozen entry that is found, if `x` is not live. -/
theorem next_cases (r : Reg) (x : Nat) (hk : known r x) :
    (x ∈ r.live ∧ next r x = liveNext r x) ∨
    (x ∉ r.live ∧ ∃ q ∈ r.frozen, q.1 = x ∧ next r x = q.2.1) := by
  unfold next
  by_cases hl : r.live.contains x = true
  · left; exact ⟨by simpa using hl, by rw [if_pos hl]⟩
  · right
    have hnl : x ∉ r.live := by simpa using hl
    refine ⟨hnl, ?_⟩
    rw [if_neg hl]
    rcases hk with hk | ⟨q, hq, hqx⟩
    · exact absurd hk hnl
    · cases hf : r.frozen.find? (fun p => p.1 == x) with
      | none =>
        have := List.find?_eq_none.mp hf q hq
        simp [hqx] at this
      | some q' =>
        exact ⟨q', List.mem_of_find?_eq_some hf, by simpa using List.find?_some hf, rfl⟩

theorem known_attach {r : Reg} {x : Nat} (h : known r x) : known (attach r) x := by
  rcases h with h | h
  · left; simp [attach, h]
  · right; exact h

theorem known_delete {r : Reg} {x : Nat} (y : Nat) (h : known r x) : known (delete r y) x := by
  unfold delete
  by_cases hc : r.live.contains y = true
  · simp only [hc, if_true]
    rcases h with h | ⟨q, hq, hqx⟩
    · by_cases hxy : x = y
      · right; exact ⟨(y, liveNext r y, r.counter), by simp, hxy.symm⟩
      · left; simp [h, hxy]
    · right; exact ⟨q, by simp [hq], hqx⟩
  · simp only [hc, Bool.false_eq_true, if_false]; exact h

/-- The registry only changes by attaching ids above the counter and by removing live ids. -/
structure Ext (r r' : Reg) : Prop where
  known : ∀ z, known r z → known r' z
  counter : r.counter ≤ r'.counter
  live : ∀ p ∈ r'.live, p ∈ r.live ∨ r.counter < p
  frozen : ∀ q ∈ r.frozen, q ∈ r'.frozen
  newfrozen : ∀ q ∈ r'.frozen, q ∈ r.frozen ∨ (q.1 ∈ r.live ∧ q.2.2 = r.counter ∧
    ∀ y, q.2.1 = some y → y ∈ r.live)

theorem Ext.refl (r : Reg) : Ext r r :=
  ⟨fun _ h => h, Nat.le_refl _, fun _ h => Or.inl h, fun _ h => h, fun _ h => Or.inl h⟩

theorem ext_attach (r : Reg) : Ext r (attach r) := by
  refine ⟨fun z hz => known_attach hz, by simp [attach], ?_, fun _ h => h, fun _ h => Or.inl h⟩
  intro p hp
  simp only [attach, List.mem_append, List.mem_singleton] at hp
  rcases hp with hp | rfl
  · exact Or.inl hp
  · right; omega

theorem ext_delete (r : Reg) (y : Nat) : Ext r (delete r y) := by
  refine ⟨fun z hz => known_delete y hz, ?_, ?_, ?_, ?_⟩
  · unfold delete; split <;> simp
  · intro p hp; left
    unfold delete at hp
    split at hp
    · exact (List.mem_filter.mp hp).1
    · exact hp
  · intro q hq
    unfold delete; split
    · simp [hq]
    · exact hq
  · intro q hq
    unfold delete at hq
    split at hq
    · rename_i hc
      simp only [List.mem_cons] at hq
      rcases hq with rfl | hq
      · right; exact ⟨by simpa using hc, rfl, fun y hy => liveNext_live hy⟩
      · exact Or.inl hq
    · exact Or.inl hq

theorem NextOK.mono {r r' : Reg} (he : Ext r r') {x cnt : Nat} (hc : cnt ≤ r.counter) {o : Option Nat}
    (h : NextOK r x cnt o) : NextOK r' x cnt o := by
  cases o with
  | none =>
    intro p hp hpc
    rcases he.live p hp with hl | hl
    · exact h p hl hpc
    · omega
  | some y =>
    refine ⟨h.1, ?_, he.known y h.2.2⟩
    intro p hp hpc hlt
    rcases he.live p hp with hl | hl
    · exact h.2.1 p hl hpc hlt
    · omega

theorem regInv_attach {r : Reg} (h : RegInv r) : RegInv (attach r) := by
  have he := ext_attach r
  constructor
  · simp only [attach, List.pairwise_append, List.pairwise_cons, List.mem_singleton]
    refine ⟨h.sorted, ⟨by simp, List.Pairwise.nil⟩, ?_⟩
    intro a ha b hb; subst hb
    have := h.le_counter a ha; omega
  · intro x hx
    simp only [attach, List.mem_append, List.mem_singleton] at hx ⊢
    rcases hx with hx | rfl
    · have := h.le_counter x hx; omega
    · exact Nat.le_refl _
  · intro q hq
    have := h.fle q hq
    simp only [attach]; omega
  · intro q hq hl
    simp only [attach, List.mem_append, List.mem_singleton] at hl
    rcases hl with hl | hl
    · exact h.disj q hq hl
    · have := h.fle q hq; omega
  · intro q hq
    exact (h.frozen_ok q hq).mono he (h.fle q hq).2

theorem regInv_delete {r : Reg} (h : RegInv r) (y : Nat) : RegInv (delete r y) := by
  have he := ext_delete r y
  unfold delete at he ⊢
  by_cases hc : r.live.contains y = true
  · simp only [hc, if_true] at he ⊢
    have hyl : y ∈ r.live := by simpa using hc
    constructor
    · exact h.sorted.filter _
    · intro x hx; exact h.le_counter x (List.mem_filter.mp hx).1
    · intro q hq
      simp only [List.mem_cons] at hq
      rcases hq with rfl | hq
      · exact ⟨h.le_counter y hyl, Nat.le_refl _⟩
      · exact h.fle q hq
    · intro q hq hl
      have hl' := List.mem_filter.mp hl
      simp only [List.mem_cons] at hq
      rcases hq with rfl | hq
      · simp at hl'
      · exact h.disj q hq hl'.1
    · intro q hq
      simp only [List.mem_cons] at hq
      rcases hq with rfl | hq
      · exact (liveNext_ok h y r.counter).mono he (Nat.le_refl _)
      · exact (h.frozen_ok q hq).mono he (h.fle q hq).2
  · simp only [hc, Bool.false_eq_true, if_false]; exact h

/-- Invariant of an iterator (ghosts: `c0` = id counter at its start, `d` = ids removed before its start). -/
structure ItInv (r : Reg) (c0 : Nat) (d vs : List Nat) : Prop where
  sorted : vs.Pairwise (· < ·)
  fresh : ∀ v ∈ vs, v ∉ d
  dead : ∀ x ∈ d, ∃ q ∈ r.frozen, q.1 = x
  later : ∀ q ∈ r.frozen, q.1 ∉ d → c0 ≤ q.2.2 ∧ ∀ y, q.2.1 = some y → y ∉ d
  c0le : c0 ≤ r.counter

def ThInv (s : Sh) : Th → Prop
  | .it .start _ _ vs => vs = []
  | .it (.at x) c0 d vs => ItInv s.reg c0 d vs ∧ (∀ v ∈ vs, v < x) ∧ known s.reg x ∧ x ∉ d ∧
      ∀ p ∈ s.reg.live, p ≤ c0 → p ∈ vs ∨ x ≤ p
  | .it (.after x) c0 d vs => ItInv s.reg c0 d vs ∧ (∀ v ∈ vs, v ≤ x) ∧ known s.reg x ∧ x ∉ d ∧
      ∀ p ∈ s.reg.live, p ≤ c0 → p ∈ vs ∨ x < p
  | .it .fin c0 d vs => ItInv s.reg c0 d vs ∧ ∀ p ∈ s.reg.live, p ≤ c0 → p ∈ vs
  | .lk _ .hook => s.link = none
  | _ => True

theorem dead_not_live {r : Reg} (hr : RegInv r) {c0 : Nat} {d vs : List Nat} (hi : ItInv r c0 d vs)
    {x : Nat} (hx : x ∈ r.live) : x ∉ d := by
  intro hd
  obtain ⟨q, hq, rfl⟩ := hi.dead x hd
  exact hr.disj q hq hx

theorem ItInv.mono {r r' : Reg} (hr : RegInv r) (he : Ext r r') {c0 : Nat} {d vs : List Nat}
    (h : ItInv r c0 d vs) : ItInv r' c0 d vs := by
  refine ⟨h.sorted, h.fresh, ?_, ?_, Nat.le_trans h.c0le he.counter⟩
  · intro x hx
    obtain ⟨q, hq, hqx⟩ := h.dead x hx
    exact ⟨q, he.frozen q hq, hqx⟩
  · intro q hq hqd
    rcases he.newfrozen q hq with ho | ⟨hl, hc, hy⟩
    · exact h.later q ho hqd
    · refine ⟨by rw [hc]; exact h.c0le, ?_⟩
      intro y hyy
      exact dead_not_live hr h (hy y hyy)

theorem live_mono {r r' : Reg} (he : Ext r r') {c0 : Nat} (hc : c0 ≤ r.counter) {Q : Nat → Prop}
    (h : ∀ p ∈ r.live, p ≤ c0 → Q p) : ∀ p ∈ r'.live, p ≤ c0 → Q p := by
  intro p hp hpc
  rcases he.live p hp with hl | hl
  · exact h p hl hpc
  · omega

/-- The invariant of a thread survives changes of the registry by other threads. -/
theorem ThInv.mono {s s' : Sh} (hr : RegInv s.reg) (he : Ext s.reg s'.reg) {t : Th}
    (hlink : (∃ b, t = .lk b .hook) → s.link = none → s'.link = none) (h : ThInv s t) : ThInv s' t := by
  cases t with
  | it pc c0 d vs =>
    cases pc with
    | start => exact h
    | «at» x =>
      obtain ⟨h1, h2, h3, h4, h5⟩ := h
      exact ⟨h1.mono hr he, h2, he.known x h3, h4, live_mono he h1.c0le h5⟩
    | after x =>
      obtain ⟨h1, h2, h3, h4, h5⟩ := h
      exact ⟨h1.mono hr he, h2, he.known x h3, h4, live_mono he h1.c0le h5⟩
    | fin =>
      obtain ⟨h1, h5⟩ := h
      exact ⟨h1.mono hr he, live_mono he h1.c0le h5⟩
  | att b => trivial
  | del x b => trivial
  | lk toX pc =>
    cases pc with
    | hook => exact hlink ⟨toX, rfl⟩ h
    | _ => trivial

/-- Arriving at `o` = `head` or a next pointer. -/
theorem arrive {s : Sh} {c0 : Nat} {d vs : List Nat} (hi : ItInv s.reg c0 d vs) (o : Option Nat)
    (ho : match o with
      | some y => (∀ v ∈ vs, v < y) ∧ known s.reg y ∧ y ∉ d ∧ ∀ p ∈ s.reg.live, p ≤ c0 → p ∈ vs ∨ y ≤ p
      | none => ∀ p ∈ s.reg.live, p ≤ c0 → p ∈ vs) :
    ThInv s (.it (pcOf o) c0 d vs) := by
  cases o with
  | none => exact ⟨hi, ho⟩
  | some y => exact ⟨hi, ho⟩

theorem it_step {s s' : Sh} {pc : ItPc} {c0 : Nat} {d vs : List Nat} {t' : Th} (hr : RegInv s.reg)
    (ht : ThInv s (.it pc c0 d vs)) (hm : (s', t') ∈ step s (.it pc c0 d vs)) : s' = s ∧ ThInv s t' := by
  cases pc with
  | start =>
    simp only [step, List.mem_singleton, Prod.mk.injEq] at hm
    obtain ⟨rfl, rfl⟩ := hm
    refine ⟨rfl, ?_⟩
    simp only [ThInv] at ht; subst ht
    have hi : ItInv s'.reg s'.reg.counter (s'.reg.frozen.map (·.1)) [] := by
      refine ⟨List.Pairwise.nil, by simp, ?_, ?_, Nat.le_refl _⟩
      · intro x hx
        obtain ⟨q, hq, rfl⟩ := List.mem_map.mp hx
        exact ⟨q, hq, rfl⟩
      · intro q hq hqd
        exact absurd (List.mem_map.mpr ⟨q, hq, rfl⟩) hqd
    apply arrive hi
    cases hh : s'.reg.live.head? with
    | none =>
      intro p hp
      rw [List.head?_eq_none_iff] at hh
      rw [hh] at hp; cases hp
    | some y =>
      have hy : y ∈ s'.reg.live := List.mem_of_head? hh
      refine ⟨by simp, Or.inl hy, dead_not_live hr hi hy, ?_⟩
      intro p hpl _
      right
      cases hl : s'.reg.live with
      | nil => rw [hl] at hpl; cases hpl
      | cons a l =>
        rw [hl] at hh hpl
        simp at hh; subst hh
        have hs := hr.sorted
        rw [hl, List.pairwise_cons] at hs
        simp only [List.mem_cons] at hpl
        rcases hpl with rfl | hpl
        · exact Nat.le_refl _
        · exact Nat.le_of_lt (hs.1 p hpl)
  | «at» x =>
    simp only [step, List.mem_singleton, Prod.mk.injEq] at hm
    obtain ⟨rfl, rfl⟩ := hm
    refine ⟨rfl, ?_⟩
    obtain ⟨hi, h2, h3, h4, h5⟩ := ht
    refine ⟨⟨?_, ?_, hi.dead, hi.later, hi.c0le⟩, ?_, h3, h4, ?_⟩
    · rw [List.pairwise_append]
      exact ⟨hi.sorted, by simp, fun a ha b hb => by simp at hb; subst hb; exact h2 a ha⟩
    · intro v hv
      simp only [List.mem_append, List.mem_singleton] at hv
      rcases hv with hv | rfl
      · exact hi.fresh v hv
      · exact h4
    · intro v hv
      simp only [List.mem_append, List.mem_singleton] at hv
      rcases hv with hv | rfl
      · exact Nat.le_of_lt (h2 v hv)
      · exact Nat.le_refl _
    · intro p hp hpc
      rcases h5 p hp hpc with h | h
      · left; simp [h]
      · rcases Nat.lt_or_eq_of_le h with h | h
        · right; exact h
        · left; simp [h]
  | after x =>
    simp only [step, List.mem_singleton, Prod.mk.injEq] at hm
    obtain ⟨rfl, rfl⟩ := hm
    refine ⟨rfl, ?_⟩
    obtain ⟨hi, h2, h3, h4, h5⟩ := ht
    apply arrive hi
    -- the pointer that is read, the counter value it is valid for, and that it does not lead into `d`
    have key : ∃ cnt, c0 ≤ cnt ∧ NextOK s'.reg x cnt (next s'.reg x) ∧ ∀ y, next s'.reg x = some y → y ∉ d := by
      rcases next_cases s'.reg x h3 with ⟨hl, hn⟩ | ⟨hl, q, hq, hqx, hn⟩
      · refine ⟨s'.reg.counter, hi.c0le, by rw [hn]; exact liveNext_ok hr x _, ?_⟩
        intro y hy
        rw [hn] at hy
        exact dead_not_live hr hi (liveNext_live hy)
      · have hqd : q.1 ∉ d := by rw [hqx]; exact h4
        obtain ⟨hc, hy⟩ := hi.later q hq hqd
        refine ⟨q.2.2, hc, ?_, by rw [hn]; exact hy⟩
        rw [hn, ← hqx]; exact hr.frozen_ok q hq
    obtain ⟨cnt, hc, hok, hnd⟩ := key
    cases hnx : next s'.reg x with
    | none =>
      rw [hnx] at hok
      intro p hp hpc
      rcases h5 p hp hpc with h | h
      · exact h
      · exact absurd h (hok p hp (by omega))
    | some y =>
      rw [hnx] at hok
      obtain ⟨hxy, hmin, hky⟩ := hok
      refine ⟨fun v hv => Nat.lt_of_le_of_lt (h2 v hv) hxy, hky, hnd y hnx, ?_⟩
      intro p hp hpc
      rcases h5 p hp hpc with h | h
      · left; exact h
      · right; exact hmin p hp (by omega) h
  | fin => simp [step] at hm

/-- The link structure of `S` with respect to X's registry. -/
structure LkInv (s : Sh) : Prop where
  cur : ∀ k, s.link = some k → k ∈ s.reg.live ∧ s.linkIds.head? = some k
  only : ∀ k ∈ s.linkIds, k ∈ s.reg.live → s.link = some k
  desc : s.linkIds.Pairwise (· > ·)
  le : ∀ k ∈ s.linkIds, k ≤ s.reg.counter
  gone : ∀ k2 ∈ s.linkIds, k2 ∉ s.reg.live →
    ∃ q ∈ s.reg.frozen, q.1 = k2 ∧ ∀ k1 ∈ s.linkIds, k2 < k1 → q.2.2 < k1

theorem mem_delete_live {r : Reg} {x p : Nat} (h : p ∈ (delete r x).live) : p ∈ r.live ∧ (x ∈ r.live → p ≠ x) := by
  unfold delete at h
  by_cases hc : r.live.contains x = true
  · simp only [hc, if_true] at h
    have := List.mem_filter.mp h
    exact ⟨this.1, fun _ => by simpa using this.2⟩
  · simp only [hc, Bool.false_eq_true, if_false] at h
    exact ⟨h, fun hx => absurd (by simpa using hx) hc⟩

theorem mem_live_delete {r : Reg} {x p : Nat} (h : p ∈ r.live) (hne : p ≠ x) : p ∈ (delete r x).live := by
  unfold delete
  split
  · exact List.mem_filter.mpr ⟨h, by simpa using hne⟩
  · exact h

theorem lk_attach {s : Sh} (h : LkInv s) : LkInv { s with reg := attach s.reg } := by
  have he := ext_attach s.reg
  constructor
  · intro k hk
    obtain ⟨h1, h2⟩ := h.cur k hk
    exact ⟨by simp [attach, h1], h2⟩
  · intro k hk hl
    simp only [attach, List.mem_append, List.mem_singleton] at hl
    rcases hl with hl | hl
    · exact h.only k hk hl
    · have := h.le k hk; omega
  · exact h.desc
  · intro k hk; have := h.le k hk; simp only [attach]; omega
  · intro k2 hk2 hnl
    apply h.gone k2 hk2
    intro hl; exact hnl (by simp [attach, hl])

theorem lk_delete_user {s : Sh} (h : LkInv s) (x : Nat) (hx : x ∉ s.linkIds) :
    LkInv { s with reg := delete s.reg x } := by
  have he := ext_delete s.reg x
  constructor
  · intro k hk
    obtain ⟨h1, h2⟩ := h.cur k hk
    refine ⟨mem_live_delete h1 ?_, h2⟩
    intro hkx; subst hkx
    exact hx (List.mem_of_mem_head? h2)
  · intro k hk hl
    exact h.only k hk (mem_delete_live hl).1
  · exact h.desc
  · intro k hk; have := h.le k hk; have := he.counter; simp only at *; omega
  · intro k2 hk2 hnl
    have hnl0 : k2 ∉ s.reg.live := by
      intro hl; exact hnl (mem_live_delete hl (by intro hkx; subst hkx; exact hx hk2))
    obtain ⟨q, hq, rest⟩ := h.gone k2 hk2 hnl0
    exact ⟨q, he.frozen q hq, rest⟩

theorem head_max {l : List Nat} (hd : l.Pairwise (· > ·)) {k : Nat} (hh : l.head? = some k) :
    ∀ k1 ∈ l, k1 ≤ k := by
  cases l with
  | nil => simp at hh
  | cons a l =>
    simp at hh; subst hh
    rw [List.pairwise_cons] at hd
    intro k1 hk1
    simp only [List.mem_cons] at hk1
    rcases hk1 with rfl | hk1
    · exact Nat.le_refl _
    · exact Nat.le_of_lt (hd.1 k1 hk1)

theorem lk_unhook {s : Sh} (h : LkInv s) (k : Nat) (hk : s.link = some k) :
    LkInv { s with reg := delete s.reg k, link := none } := by
  have he := ext_delete s.reg k
  obtain ⟨hkl, hkh⟩ := h.cur k hk
  have hkin : k ∈ s.linkIds := List.mem_of_mem_head? hkh
  constructor
  · intro k' hk'; cases hk'
  · intro k' hk' hl
    obtain ⟨hl0, hne⟩ := mem_delete_live hl
    have := h.only k' hk' hl0
    rw [hk] at this; cases this
    exact absurd rfl (hne hkl)
  · exact h.desc
  · intro k' hk'; have := h.le k' hk'; have := he.counter; simp only at *; omega
  · intro k2 hk2 hnl
    by_cases hkk : k2 = k
    · subst hkk
      refine ⟨(k2, liveNext s.reg k2, s.reg.counter), ?_, rfl, ?_⟩
      · show (k2, liveNext s.reg k2, s.reg.counter) ∈ (delete s.reg k2).frozen
        unfold delete
        rw [if_pos (by simpa using hkl)]
        simp
      · intro k1 hk1 hlt
        have := head_max h.desc hkh k1 hk1
        omega
    · have hnl0 : k2 ∉ s.reg.live := fun hl => hnl (mem_live_delete hl hkk)
      obtain ⟨q, hq, rest⟩ := h.gone k2 hk2 hnl0
      exact ⟨q, he.frozen q hq, rest⟩

theorem lk_hook {s : Sh} (hr : RegInv s.reg) (h : LkInv s) (hnone : s.link = none) :
    LkInv { s with reg := attach s.reg, link := some (s.reg.counter + 1),
                   linkIds := (s.reg.counter + 1) :: s.linkIds, mutex := false } := by
  constructor
  · intro k hk
    simp only [Option.some.injEq] at hk; subst hk
    exact ⟨by simp [attach], by simp⟩
  · intro k hk hl
    simp only [List.mem_cons] at hk
    rcases hk with rfl | hk
    · rfl
    · simp only [attach, List.mem_append, List.mem_singleton] at hl
      rcases hl with hl | hl
      · have := h.only k hk hl; rw [hnone] at this; cases this
      · have := h.le k hk; omega
  · rw [List.pairwise_cons]
    refine ⟨?_, h.desc⟩
    intro k hk; have := h.le k hk; omega
  · intro k hk
    simp only [List.mem_cons] at hk
    rcases hk with rfl | hk
    · simp [attach]
    · have := h.le k hk; simp only [attach]; omega
  · intro k2 hk2 hnl
    simp only [List.mem_cons] at hk2
    rcases hk2 with rfl | hk2
    · exact absurd (by simp [attach]) hnl
    · have hnl0 : k2 ∉ s.reg.live := fun hl => hnl (by simp [attach, hl])
      obtain ⟨q, hq, hqk, rest⟩ := h.gone k2 hk2 hnl0
      refine ⟨q, hq, hqk, ?_⟩
      intro k1 hk1 hlt
      simp only [List.mem_cons] at hk1
      rcases hk1 with rfl | hk1
      · have := (hr.fle q hq).2; omega
      · exact rest k1 hk1 hlt

/-- The thread is inside `linkTo`'s critical section. -/
def holding : Th → Bool
  | .lk _ .unhook => true
  | .lk _ .hook => true
  | _ => false

structure CfgInv (c : Cfg Sh Th) : Prop where
  reg : RegInv c.1.reg
  lk : LkInv c.1
  th : ∀ t ∈ c.2, ThInv c.1 t
  mutex : c.2.countP holding = if c.1.mutex then 1 else 0

theorem cfgInv_step {a b : Cfg Sh Th} (h : CfgInv a) (hs : Step sys a b) : CfgInv b := by
  cases hs with
  | mk s pre t post s' t' hm =>
    obtain ⟨hreg, hlk, hth, hmx⟩ := h
    simp only at hreg hlk hth hmx
    have ht := hth t (by simp)
    simp only [sys] at hm
    -- re-assembling the per-thread invariants when the shared state moved along `Ext`
    have others : ∀ (hreg' : Ext s.reg s'.reg),
        (∀ x, x ∈ pre ∨ x ∈ post → (∃ b, x = .lk b .hook) → s.link = none → s'.link = none) →
        ThInv s' t' → ∀ x ∈ pre ++ t' :: post, ThInv s' x := by
      intro he hl ht' x hx
      simp only [List.mem_append, List.mem_cons] at hx
      rcases hx with hx | rfl | hx
      · exact (hth x (by simp [hx])).mono hreg he (hl x (Or.inl hx))
      · exact ht'
      · exact (hth x (by simp [hx])).mono hreg he (hl x (Or.inr hx))
    cases t with
    | it pc c0 d vs =>
      obtain ⟨rfl, ht'⟩ := it_step hreg ht hm
      refine ⟨hreg, hlk, others (Ext.refl _) (fun _ _ _ h => h) ht', ?_⟩
      have h2 : holding t' = false := by
        cases pc <;> simp only [step, List.mem_singleton, Prod.mk.injEq] at hm
        · rw [hm.2]; rfl
        · rw [hm.2]; rfl
        · rw [hm.2]; rfl
        · simp at hm
      simp only [countP_mid] at hmx ⊢
      rw [h2]
      simp only [holding] at hmx
      exact hmx
    | att b =>
      cases b with
      | true => simp [step] at hm
      | false =>
        simp only [step, List.mem_singleton, Prod.mk.injEq] at hm
        obtain ⟨rfl, rfl⟩ := hm
        refine ⟨regInv_attach hreg, lk_attach hlk, others (ext_attach _) (fun _ _ _ h => h) trivial, ?_⟩
        simp only [countP_mid, holding] at hmx ⊢
        exact hmx
    | del x b =>
      cases b with
      | true => simp [step] at hm
      | false =>
        simp only [step] at hm
        by_cases hx : s.linkIds.contains x = true
        · simp only [hx, if_true, List.mem_singleton, Prod.mk.injEq] at hm
          obtain ⟨rfl, rfl⟩ := hm
          refine ⟨hreg, hlk, others (Ext.refl _) (fun _ _ _ h => h) trivial, ?_⟩
          simp only [countP_mid, holding] at hmx ⊢
          exact hmx
        · simp only [hx, Bool.false_eq_true, if_false, List.mem_singleton, Prod.mk.injEq] at hm
          obtain ⟨rfl, rfl⟩ := hm
          refine ⟨regInv_delete hreg x, lk_delete_user hlk x (by simpa using hx),
            others (ext_delete _ _) (fun _ _ _ h => h) trivial, ?_⟩
          simp only [countP_mid, holding] at hmx ⊢
          exact hmx
    | lk toX pc =>
      cases pc with
      | acquire =>
        simp only [step] at hm
        by_cases hmu : s.mutex = true
        · simp [hmu] at hm
        · simp only [hmu, Bool.false_eq_true, if_false, List.mem_singleton, Prod.mk.injEq] at hm
          obtain ⟨rfl, rfl⟩ := hm
          refine ⟨hreg, ⟨hlk.cur, hlk.only, hlk.desc, hlk.le, hlk.gone⟩,
            others (Ext.refl _) (fun _ _ _ h => h) trivial, ?_⟩
          simp only [countP_mid, holding, hmu, Bool.false_eq_true, if_false, if_true] at hmx ⊢
          omega
      | unhook =>
        simp only [step] at hm
        cases hl : s.link with
        | none =>
          simp only [hl, List.mem_singleton, Prod.mk.injEq] at hm
          obtain ⟨rfl, rfl⟩ := hm
          refine ⟨hreg, hlk, others (Ext.refl _) (fun _ _ _ h => h) hl, ?_⟩
          simp only [countP_mid, holding] at hmx ⊢
          exact hmx
        | some k =>
          simp only [hl, List.mem_singleton, Prod.mk.injEq] at hm
          obtain ⟨rfl, rfl⟩ := hm
          refine ⟨regInv_delete hreg k, lk_unhook hlk k hl,
            others (ext_delete _ _) (fun _ _ _ _ => rfl) rfl, ?_⟩
          simp only [countP_mid, holding] at hmx ⊢
          exact hmx
      | hook =>
        have hnone : s.link = none := ht
        -- nobody else is inside the critical section
        have hcount : pre.countP holding + post.countP holding = 0 := by
          simp only [countP_mid, holding, if_true] at hmx
          split at hmx <;> omega
        have nohook : ∀ x, x ∈ pre ∨ x ∈ post → (∃ b, x = .lk b .hook) → False := by
          intro x hx ⟨b, hb⟩
          subst hb
          rcases hx with hx | hx
          · have : 0 < pre.countP holding := List.countP_pos_iff.mpr ⟨_, hx, rfl⟩
            omega
          · have : 0 < post.countP holding := List.countP_pos_iff.mpr ⟨_, hx, rfl⟩
            omega
        cases toX with
        | true =>
          simp only [step, List.mem_singleton, Prod.mk.injEq] at hm
          obtain ⟨rfl, rfl⟩ := hm
          refine ⟨regInv_attach hreg, lk_hook hreg hlk hnone,
            others (ext_attach _) (fun x hx hb => (nohook x hx hb).elim) trivial, ?_⟩
          simp only [countP_mid, holding, Bool.false_eq_true, if_false]
          omega
        | false =>
          simp only [step, List.mem_singleton, Prod.mk.injEq] at hm
          obtain ⟨rfl, rfl⟩ := hm
          refine ⟨hreg, ⟨hlk.cur, hlk.only, hlk.desc, hlk.le, hlk.gone⟩,
            others (Ext.refl _) (fun _ _ _ h => h) trivial, ?_⟩
          simp only [countP_mid, holding, Bool.false_eq_true, if_false]
          omega
      | fin => simp [step] at hm

/-- A configuration in which nobody iterates or re-links: a well-formed registry, `S` either
unlinked or linked with its one link hook, all threads about to start. -/
structure Start (c : Cfg Sh Th) : Prop where
  sorted : c.1.reg.live.Pairwise (· < ·)
  le : ∀ x ∈ c.1.reg.live, x ≤ c.1.reg.counter
  nofrozen : c.1.reg.frozen = []
  mutex : c.1.mutex = false
  link : (c.1.link = none ∧ c.1.linkIds = []) ∨ (∃ k, c.1.link = some k ∧ c.1.linkIds = [k] ∧ k ∈ c.1.reg.live)
  threads : ∀ t ∈ c.2, t.initial = true

theorem cfgInv_start {c : Cfg Sh Th} (h : Start c) : CfgInv c := by
  obtain ⟨h1, h2, h3, h4, h5, h6⟩ := h
  refine ⟨⟨h1, h2, by simp [h3], by simp [h3], by simp [h3]⟩, ?_, ?_, ?_⟩
  · rcases h5 with ⟨hl, hi⟩ | ⟨k, hl, hi, hk⟩
    · exact ⟨by simp [hl], by simp [hi], by simp [hi], by simp [hi], by simp [hi]⟩
    · refine ⟨?_, ?_, by simp [hi], ?_, ?_⟩
      · intro k' hk'; rw [hl] at hk'; cases hk'; exact ⟨hk, by simp [hi]⟩
      · intro k' hk' _; rw [hi] at hk'; simp at hk'; subst hk'; exact hl
      · intro k' hk'; rw [hi] at hk'; simp at hk'; subst hk'; exact h2 _ hk
      · intro k' hk' hnl; rw [hi] at hk'; simp at hk'; subst hk'; exact absurd hk hnl
  · intro t ht
    have hi := h6 t ht
    cases t with
    | it pc c0 d vs => cases pc <;> cases vs <;> simp [Th.initial] at hi; rfl
    | att b => trivial
    | del x b => trivial
    | lk toX pc => cases pc <;> simp [Th.initial] at hi; trivial
  · rw [h4]
    simp only [Bool.false_eq_true, if_false, List.countP_eq_zero]
    intro t ht
    have hi := h6 t ht
    cases t with
    | lk toX pc => cases pc <;> simp [Th.initial] at hi; simp [holding]
    | _ => simp [holding]

/-- Forgetting the ghost stamp of the frozen entries gives the registry of `EventsIter`. -/
def proj (r : Reg) : Hive.EventsIter.Reg :=
  { live := r.live, frozen := r.frozen.map (fun q => (q.1, q.2.1)), counter := r.counter }

theorem proj_attach (r : Reg) : proj (attach r) = Hive.EventsIter.attach (proj r) := rfl

theorem proj_liveNext (r : Reg) (x : Nat) : Hive.EventsIter.liveNext (proj r) x = liveNext r x := rfl

theorem proj_delete (r : Reg) (x : Nat) : proj (delete r x) = Hive.EventsIter.delete (proj r) x := by
  unfold delete Hive.EventsIter.delete
  by_cases h : r.live.contains x = true
  · have h' : (proj r).live.contains x = true := h
    rw [if_pos h, if_pos h']; rfl
  · have h' : ¬ (proj r).live.contains x = true := h
    rw [if_neg h, if_neg h']

theorem proj_next (r : Reg) (x : Nat) : Hive.EventsIter.next (proj r) x = next r x := by
  unfold next Hive.EventsIter.next
  by_cases h : r.live.contains x = true
  · have h' : (proj r).live.contains x = true := h
    rw [if_pos h, if_pos h']; rfl
  · have h' : ¬ (proj r).live.contains x = true := h
    rw [if_neg h, if_neg h']
    simp only [proj, List.find?_map]
    cases hf : r.frozen.find? ((fun p => p.1 == x) ∘ fun q => (q.1, q.2.1)) with
    | none =>
      have : r.frozen.find? (fun p => p.1 == x) = none := hf
      rw [this]; rfl
    | some q =>
      have : r.frozen.find? (fun p => p.1 == x) = some q := hf
      rw [this]; rfl


end Hive.EventsRelink
