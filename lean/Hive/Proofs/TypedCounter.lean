import Hive.Proofs.TypedConc
/-! Sequential consequences used by the protocol corollaries: what a successful `Get` returns, and
the counter-increment workload. -/
namespace Hive.Typed

variable {V : Type} [Inhabited V]

/-- An operation that returned something other than an error made no failing call. -/
theorem no_fail_of_not_err (C : Codec V) (s : St V) (op : Op V) (F : Faults)
    (h : ∀ k, (step C s op F).out ≠ .err k) : ∀ e ∈ (step C s op F).tr, e.res ≠ .fail := by
  intro e he hf
  exact h _ ((failAtomic_step C s op F e he hf).2)

/-- A non-error result is the result of the raw key under the codec, whatever the fault vector. -/
theorem spec_of_not_err {C : Codec V} {s : St V} (op : Op V) (F : Faults) (hc : Coherent C s)
    (h : ∀ k, (step C s op F).out ≠ .err k) :
    (step C s op F).out = (spec C s.store op).2 ∧ (step C s op F).st.store = (spec C s.store op).1 := by
  have hu := unhit_step C s op F (no_fail_of_not_err C s op F h)
  have ht := transparent_step (C := C) op hc
  rw [hu.1, hu.2]; exact ht

/-- `Get` returns only what the store holds. -/
theorem get_val_stored {C : Codec V} {s : St V} (F : Faults) (hc : Coherent C s) {v : V}
    (h : (step C s .get F).out = .val v) : ∃ b, s.store = some b ∧ C.dec b = some v := by
  have hs := (spec_of_not_err (C := C) .get F hc (by intro k hk; rw [h] at hk; cases hk)).1
  rw [h] at hs
  simp only [spec] at hs
  cases hst : s.store with
  | none => simp [hst] at hs
  | some b =>
    simp only [hst] at hs
    cases hd : C.dec b with
    | none => simp [hd] at hs
    | some w => simp [hd] at hs; exact ⟨b, rfl, by rw [hs]; exact hd⟩

/-! ### counter workload (`V = Nat`) -/
open Hive.Typed.Conc

/-- The store holds the counter value `k` (absent for 0) and the cache agrees. -/
def CountInv (C : Codec Nat) (s : St Nat) (k : Nat) : Prop :=
  Coherent C s ∧ ((k = 0 ∧ s.store = none) ∨ (k ≠ 0 ∧ ∃ b, s.store = some b ∧ C.dec b = some k))

def CounterOp (op : Op Nat) : Prop := op = .compute incFn ∨ op = .get ∨ op = .has

/-- What one operation of the counter workload does, under any fault vector. -/
theorem count_step {C : Codec Nat} (hrt : C.RoundTrip) {s : St Nat} {k : Nat} (hk : CountInv C s k)
    {op : Op Nat} (hop : CounterOp op) (F : Faults) :
    (∀ v, (step C s op F).out = .computed v true → v = k + 1 ∧ CountInv C (step C s op F).st (k + 1)) ∧
    ((∀ v, (step C s op F).out ≠ .computed v true) → CountInv C (step C s op F).st k) ∧
    (∀ v, (step C s op F).out = .val v → v = k) ∧
    ((step C s op F).out = .notfound → k = 0) := by
  obtain ⟨hc, hst⟩ := hk
  have hc' : Coherent C (step C s op F).st := coherent_step op F hrt hc
  by_cases herr : ∃ e, (step C s op F).out = .err e
  · -- a failure: nothing changed
    obtain ⟨e, he⟩ := herr
    obtain ⟨x, hx, hxf, _⟩ := errTraced_step C s op F e he
    have hsame := (failAtomic_step C s op F x hx hxf).1
    refine ⟨?_, ?_, ?_, ?_⟩
    · intro v hv; rw [he] at hv; cases hv
    · intro _; rw [hsame]; exact ⟨hc, hst⟩
    · intro v hv; rw [he] at hv; cases hv
    · intro hv; rw [he] at hv; cases hv
  · have hne : ∀ k, (step C s op F).out ≠ .err k := fun k hk => herr ⟨k, hk⟩
    obtain ⟨ho, hs⟩ := spec_of_not_err (C := C) op F hc hne
    rw [ho]
    rcases hop with rfl | rfl | rfl
    · -- Compute(incFn)
      rcases hst with ⟨hk0, hs0⟩ | ⟨hk0, b, hs0, hd⟩
      · subst hk0
        simp only [spec, hs0, incFn, Bool.false_eq_true, ↓reduceIte] at ho hs ⊢
        cases he : C.enc 1 with
        | none => simp [he] at ho; exact absurd ho (hne _)
        | some b1 =>
          simp only [he] at hs ⊢
          refine ⟨?_, ?_, ?_, ?_⟩
          · intro v hv; simp at hv
            exact ⟨hv.symm, hc', Or.inr ⟨by omega, b1, hs, hrt 1 b1 he⟩⟩
          · intro h; exact absurd rfl (h 1)
          · intro v hv; simp at hv
          · intro hv; simp at hv
      · simp only [spec, hs0, hd, Option.map_some, incFn, ↓reduceIte] at ho hs ⊢
        cases he : C.enc (k + 1) with
        | none => simp [he] at ho; exact absurd ho (hne _)
        | some b1 =>
          simp only [he] at hs ⊢
          refine ⟨?_, ?_, ?_, ?_⟩
          · intro v hv; simp at hv
            exact ⟨hv.symm, hc', Or.inr ⟨by omega, b1, hs, hrt (k + 1) b1 he⟩⟩
          · intro h; exact absurd rfl (h (k + 1))
          · intro v hv; simp at hv
          · intro hv; simp at hv
    · -- Get
      rcases hst with ⟨hk0, hs0⟩ | ⟨hk0, b, hs0, hd⟩
      · simp only [spec, hs0] at hs ⊢
        refine ⟨by intro v hv; simp at hv, fun _ => ⟨hc', Or.inl ⟨hk0, hs⟩⟩, by intro v hv; simp at hv, fun _ => hk0⟩
      · simp only [spec, hs0, hd] at hs ⊢
        refine ⟨by intro v hv; simp at hv, fun _ => ⟨hc', Or.inr ⟨hk0, b, hs, hd⟩⟩, ?_, by intro hv; simp at hv⟩
        intro v hv; simp at hv; exact hv.symm
    · -- Has
      simp only [spec] at hs ⊢
      refine ⟨by intro v hv; simp at hv, fun _ => ⟨hc', ?_⟩, by intro v hv; simp at hv, by intro hv; simp at hv⟩
      rcases hst with ⟨hk0, hs0⟩ | ⟨hk0, b, hs0, hd⟩
      · exact Or.inl ⟨hk0, by rw [hs, hs0]⟩
      · exact Or.inr ⟨hk0, b, by rw [hs, hs0], hd⟩

theorem incRets_cons_computed (v : Nat) (os : List (Out Nat)) :
    incRets (.computed v true :: os) = v :: incRets os := rfl

theorem incRets_cons_other (o : Out Nat) (os : List (Out Nat)) (h : ∀ v, o ≠ .computed v true) :
    incRets (o :: os) = incRets os := by
  cases o with
  | computed v c => cases c with
    | true => exact absurd rfl (h v)
    | false => rfl
  | _ => rfl

theorem getVals_cons (o : Out Nat) (os : List (Out Nat)) :
    getVals (o :: os) = (match o with | .val v => [v] | .notfound => [0] | _ => []) ++ getVals os := by
  cases o <;> rfl

/-- Over every history of the counter workload with any fault vectors: the successful increments
return consecutive numbers, the store ends at their count, and every `Get` sees a value in between. -/
theorem count_run {C : Codec Nat} (hrt : C.RoundTrip) (h : List (Op Nat × Faults)) :
    ∀ {s : St Nat} {k : Nat}, CountInv C s k → (∀ x ∈ h, CounterOp x.1) →
      incRets (run C s h).2 = List.range' (k + 1) (incRets (run C s h).2).length ∧
      CountInv C (run C s h).1 (k + (incRets (run C s h).2).length) ∧
      (∀ g ∈ getVals (run C s h).2, k ≤ g ∧ g ≤ k + (incRets (run C s h).2).length) := by
  induction h with
  | nil => intro s k hk _; simp [run, incRets, getVals, hk]
  | cons x xs ih =>
    intro s k hk hops
    obtain ⟨op, F⟩ := x
    have hop : CounterOp op := hops (op, F) (by simp)
    obtain ⟨h1, h2, h3, h4⟩ := count_step hrt hk hop F
    have hrun : run C s ((op, F) :: xs) =
        ((run C (step C s op F).st xs).1, (step C s op F).out :: (run C (step C s op F).st xs).2) := by
      simp [run]
    rw [hrun]
    by_cases hcmp : ∃ v, (step C s op F).out = .computed v true
    · obtain ⟨v, hv⟩ := hcmp
      obtain ⟨rfl, hk'⟩ := h1 v hv
      obtain ⟨i1, i2, i3⟩ := ih hk' (fun x hx => hops x (by simp [hx]))
      simp only [hv, incRets_cons_computed, getVals_cons, List.length_cons, List.nil_append]
      refine ⟨?_, ?_, ?_⟩
      · rw [List.range'_succ]; congr 1
      · have : k + ((incRets (run C (step C s op F).st xs).2).length + 1) =
            k + 1 + (incRets (run C (step C s op F).st xs).2).length := by omega
        rw [this]; exact i2
      · intro g hg; have := i3 g hg; omega
    · have hno : ∀ v, (step C s op F).out ≠ .computed v true := fun v hv => hcmp ⟨v, hv⟩
      have hk' := h2 hno
      obtain ⟨i1, i2, i3⟩ := ih hk' (fun x hx => hops x (by simp [hx]))
      rw [incRets_cons_other _ _ hno, getVals_cons]
      refine ⟨i1, i2, ?_⟩
      intro g hg
      simp only [List.mem_append] at hg
      rcases hg with hg | hg
      · cases ho : (step C s op F).out with
        | val v => simp [ho] at hg; have := h3 v ho; omega
        | notfound => simp [ho] at hg; have := h4 ho; omega
        | ok => simp [ho] at hg
        | has b => simp [ho] at hg
        | computed v c => simp [ho] at hg
        | err e => simp [ho] at hg
        | panic => simp [ho] at hg
      · exact i3 g hg

/-- The value in the store, `0` when absent. -/
def finalVal (C : Codec Nat) (s : St Nat) : Nat :=
  match s.store with
  | none => 0
  | some b => (C.dec b).getD 0

theorem finalVal_of_countInv {C : Codec Nat} {s : St Nat} {k : Nat} (h : CountInv C s k) : finalVal C s = k := by
  rcases h.2 with ⟨rfl, hs⟩ | ⟨_, b, hs, hd⟩
  · simp [finalVal, hs]
  · simp [finalVal, hs, hd]

theorem counterOk_range (n : Nat) (gets : List Nat) (hg : ∀ g ∈ gets, g ≤ n) :
    counterOk (List.range' 1 n) n gets = true := by
  simp only [counterOk, List.length_range', Bool.and_eq_true, List.all_eq_true, List.mem_range,
    List.contains_iff_mem, List.mem_range'_1, beq_iff_eq, decide_eq_true_eq]
  refine ⟨⟨?_, trivial⟩, hg⟩
  intro i hi; omega

/-- The trace predicate does not depend on the order in which the observations are listed. -/
theorem counterOk_perm {incs incs' gets gets' : List Nat} (final : Nat) (h1 : incs.Perm incs') (h2 : gets.Perm gets') :
    counterOk incs final gets = counterOk incs' final gets' := by
  have hl := h1.length_eq
  have hm : ∀ x, incs.contains x = incs'.contains x := by
    intro x
    by_cases hx : x ∈ incs
    · have hx' : x ∈ incs' := h1.mem_iff.mp hx
      rw [List.contains_iff_mem.mpr hx, List.contains_iff_mem.mpr hx']
    · have hx' : x ∉ incs' := fun h => hx (h1.mem_iff.mpr h)
      have e1 : incs.contains x = false := by
        cases hc : incs.contains x with
        | false => rfl
        | true => exact absurd (List.contains_iff_mem.mp hc) hx
      have e2 : incs'.contains x = false := by
        cases hc : incs'.contains x with
        | false => rfl
        | true => exact absurd (List.contains_iff_mem.mp hc) hx'
      rw [e1, e2]
  have hg : gets.all (fun g => decide (g ≤ incs.length)) = gets'.all (fun g => decide (g ≤ incs'.length)) := by
    rw [hl]
    apply Bool.eq_iff_iff.mpr
    simp only [List.all_eq_true]
    exact ⟨fun h x hx => h x (h2.mem_iff.mpr hx), fun h x hx => h x (h2.mem_iff.mp hx)⟩
  simp only [counterOk, hl, hm]
  rw [hl] at hg; rw [hg]

end Hive.Typed
