import Hive.Proofs.TimedInv2
/-!
# The bookkeeping invariant is preserved by every transition
-/
namespace Hive.Timed
open Hive.Conc

/-- Thread moves of goroutines that hold no element and are not inside `ExecuteAt`. -/
theorem inv2_plain {s : Sh} {l r : List Th} {t t' : Th} (h : Inv2 s (l ++ t :: r))
    (ht' : t'.held = none) (hp : t.pend = none) (hp' : t'.pend = none) (hs : t'.sdPend = true → t.sdPend = true)
    (hz : ∀ x, pre x t + wr x t = 0) : Inv2 s (l ++ t' :: r) :=
  inv2_move h (fun e he => by rw [ht'] at he; cases he) (by rw [hp, hp']) (fun hx => Or.inl (hs hx))
    (fun _ x _ _ => by rw [hz x]; exact Nat.zero_le _)

theorem pend_cb_none {e : Elem} {k : Nat}
    (hg : ∀ due blk tag i, e.kind = .resched due blk tag → e.id = some i → k ≠ 1) : (Th.cb e k).pend = none := by
  match k with
  | 0 => rfl
  | 1 =>
    simp only [Th.pend]
    split
    · rename_i due blk tag i hk hi
      exact absurd rfl (hg due blk tag i hk hi)
    · rfl
  | k + 2 => rfl

/-- The two halves of `ExecuteAt`, first. -/
theorem inv2_exec1 {s : Sh} {l r : List Th} {t t' : Th} {i : Nat} (hI : Inv s (l ++ t :: r))
    (h : Inv2 s (l ++ t :: r)) (hul : s.regLocked = false) (ht : t.held = none) (ht' : t'.held = none)
    (hp' : t'.pend = some i) (hs : t'.sdPend = false) (hz : ∀ x, pre x t + wr x t = pre x t' + wr x t') :
    Inv2 (exec1 s i) (l ++ t' :: r) := by
  unfold exec1
  cases hg : regGet s.reg i with
  | none => exact inv2_lockmove h hul hg ht ht' hp' hs hz rfl rfl rfl rfl rfl rfl rfl
  | some x =>
    -- cancel and drop the registration, then take the lock
    have h1 : Inv2 ({ cancelElem s x with reg := regDel s.reg i } : Sh) (l ++ t :: r) :=
      inv2_cancel hI h x (some i) (by intro j hj; cases hj; exact hg) rfl (cancelElem_closed_mem s x) rfl rfl rfl rfl rfl
    exact inv2_lockmove h1 hul (by simp) ht ht' hp' hs hz rfl rfl rfl rfl rfl rfl rfl

/-- … and second. -/
theorem inv2_exec2 {s : Sh} {l r : List Th} {t t' : Th} {i : Nat} (due : Nat) (kind : Kind) (tag : Nat)
    (hI : Inv s (l ++ t :: r)) (h : Inv2 s (l ++ t :: r)) (hp : t.pend = some i) (ht : t.held = none)
    (ht' : t'.held = none) (hp' : t'.pend = none) (hs : t'.sdPend = false)
    (hz : ∀ x, pre x t + wr x t = pre x t' + wr x t') : Inv2 (exec2 s i due kind tag) (l ++ t' :: r) := by
  obtain ⟨h0, hnone⟩ := inv2_unlockmove (s' := { s with regLocked := false }) h hp ht ht' hp' hs hz rfl rfl rfl rfl rfl rfl rfl
  have hI0 : Inv ({ s with regLocked := false } : Sh) (l ++ t' :: r) :=
    inv_same (inv_move hI (fun x => by rw [(held_none_zero ht' x).1]; exact Nat.zero_le _)
      (fun x => by rw [(held_none_zero ht' x).2]; exact Nat.zero_le _)
      (fun _ => by cases t' <;> simp_all [Th.held, TOk])) rfl rfl rfl rfl rfl rfl (Nat.le_refl _)
  obtain ⟨c1, c3, c2⟩ := add_unlock s false due (some i) kind tag
  obtain ⟨f2, f3, f4, f5⟩ := add_fields s due (some i) kind tag
  unfold exec2
  cases hadd : add s due (some i) kind tag with
  | mk s1 r1 =>
    have e1 : (add s due (some i) kind tag).1 = s1 := by rw [hadd]
    have e2 : (add s due (some i) kind tag).2 = r1 := by rw [hadd]
    rw [e1] at c1 c3 f2 f3 f4 f5
    rw [e2] at c2
    cases r1 with
    | ok x =>
      refine inv2_add hI0 h0 due (some i) kind tag (fun _ _ => rfl) (by intro j hj; cases hj; exact hnone)
        ?_ ?_ ?_ ?_ ?_ ?_ ?_ <;> simp only [c1, c2, c3, f2, f3, f4, regAfter]
      have := add_reg s due (some i) kind tag
      rw [e1] at this; rw [this]
    | nil =>
      refine inv2_add hI0 h0 due (some i) kind tag (fun _ _ => rfl) (by intro j hj; cases hj; exact hnone)
        ?_ ?_ ?_ ?_ ?_ ?_ ?_ <;> simp only [c1, c2, c3, f2, f3, f4]
      have := add_reg s due (some i) kind tag
      rw [e1] at this; rw [this]
    | panic =>
      refine inv2_add hI0 h0 due (some i) kind tag (fun _ _ => rfl) (by intro j hj; cases hj; exact hnone)
        ?_ ?_ ?_ ?_ ?_ ?_ ?_ <;> simp only [c1, c2, c3, f2, f3, f4]
      have := add_reg s due (some i) kind tag
      rw [e1] at this; rw [this]

theorem inv2_cancelId {s : Sh} {ts : List Th} (hI : Inv s ts) (h : Inv2 s ts) (i : Nat) : Inv2 (cancelId s i) ts := by
  unfold cancelId
  cases hg : regGet s.reg i with
  | none => exact inv2_fields h rfl rfl rfl rfl rfl rfl rfl
  | some x =>
    exact inv2_cancel hI h x (some i) (by intro j hj; cases hj; exact hg) rfl (cancelElem_closed_mem s x) rfl rfl rfl rfl rfl

/-- A poller gives up the element it holds and the element's cancel channel is closed in the same step. -/
theorem inv2_dropHeld {s s' : Sh} {l r : List Th} {t t' : Th} {x0 : Nat} (h : Inv2 s (l ++ t :: r))
    (ht' : t'.held = none) (hp : t.pend = none) (hp' : t'.pend = none) (hs : t'.sdPend = false)
    (hz : ∀ x, x ≠ x0 → pre x t + wr x t = 0)
    (hh : s'.heap = s.heap) (hcl : ∀ y, y ∈ s'.closed ↔ y ∈ x0 :: s.closed) (hr : s'.reg = s.reg)
    (hlk : s'.regLocked = s.regLocked) (hsd : s'.isShutdown = s.isShutdown) (hcx : s'.ctxDone = s.ctxDone)
    (hm : s'.maxSize = s.maxSize) : Inv2 s' (l ++ t' :: r) := by
  have hsub : ∀ y ∈ s.closed, y ∈ s'.closed := fun y hy => (hcl y).mpr (List.mem_cons_of_mem _ hy)
  have hreg : ∀ a, Reg s a → Reg s' a := fun a ha => ha.mono hsub (by intro i _ _; rw [hr])
  constructor
  · intro a ha; rw [hh] at ha; exact hreg a (h.e1 a ha)
  · rw [forall_mid]
    have := forall_mid.mp h.e2
    refine ⟨fun u hu a hua => hreg a (this.1 u hu a hua), ?_, fun u hu a hua => hreg a (this.2.2 u hu a hua)⟩
    intro a ha; rw [ht'] at ha; cases ha
  · rw [forall_mid]
    have := forall_mid.mp h.lk
    refine ⟨fun u hu i hi => by rw [hr]; exact this.1 u hu i hi, ?_, fun u hu i hi => by rw [hr]; exact this.2.2 u hu i hi⟩
    intro i hi; rw [hp'] at hi; cases hi
  · have := h.lkc
    rw [hlk]
    have e0 : execPc t = 0 := by simp [execPc, hp]
    have e1 : execPc t' = 0 := by simp [execPc, hp']
    simp only [tsum_mid, e0, e1] at *
    exact this
  · intro i x hx hnc
    rw [hr] at hx
    have hx0 : x ≠ x0 := by rintro rfl; exact hnc ((hcl _).mpr List.mem_cons_self)
    have h2 := h.f i x hx (fun hc => hnc (hsub _ hc))
    have h3 := hz x hx0
    rw [lv_mid] at *
    rw [hh]; omega
  · intro hc; rw [hcx] at hc; rw [hsd]; exact h.sdinv hc
  · rw [forall_mid]
    have := forall_mid.mp h.sdpc
    refine ⟨fun u hu hp => by rw [hsd]; exact this.1 u hu hp, ?_, fun u hu hp => by rw [hsd]; exact this.2.2 u hu hp⟩
    intro hp; rw [hs] at hp; cases hp

theorem inv2_tr {s s' : Sh} {l r : List Th} {t t' : Th} (hI : Inv s (l ++ t :: r)) (h : Inv2 s (l ++ t :: r))
    (tr : Tr s t s' t') : Inv2 s' (l ++ t' :: r) := by
  cases tr with
  | idleExit hp hs =>
    exact inv2_fields (inv2_plain h rfl rfl rfl (fun hx => by cases hx) (fun _ => rfl)) rfl rfl rfl rfl rfl rfl rfl
  | idlePark hp hs =>
    exact inv2_fields (inv2_plain h rfl rfl rfl (fun hx => by cases hx) (fun _ => rfl)) rfl rfl rfl rfl rfl rfl rfl
  | idlePop hp =>
    refine inv2_pop h hp ?_ rfl rfl rfl rfl rfl rfl rfl
    split
    · exact Or.inl rfl
    · exact Or.inr rfl
  | wake hw =>
    exact inv2_fields (inv2_plain h rfl rfl rfl (fun hx => by cases hx) (fun _ => rfl)) rfl rfl rfl rfl rfl rfl rfl
  | hkGo hr => exact inv2_move h (fun e he => he) rfl (fun hx => by cases hx) (fun _ _ _ _ => Nat.le_refl _)
  | selSdCancel hc hf =>
    rename_i e
    exact inv2_dropHeld h rfl rfl rfl rfl (fun x hx => by have : ¬ e.serial = x := fun h' => hx h'.symm; simp [pre, wr, this]) rfl (fun _ => Iff.rfl) rfl rfl rfl rfl rfl
  | selSdIgnore hc hf hi =>
    exact inv2_move h (fun e he => he) rfl (fun hx => by cases hx) (fun _ _ _ _ => Nat.le_refl _)
  | selSd hc hf hi =>
    exact inv2_move h (fun e he => he) rfl (fun hx => by cases hx) (fun _ _ _ _ => Nat.le_refl _)
  | selCancel hc =>
    rename_i e
    refine inv2_fields (inv2_move h (fun a ha => by cases ha) rfl (fun hx => by cases hx) ?_) rfl rfl rfl rfl rfl rfl rfl
    intro i x _ hnc
    have : ¬ e.serial = x := by rintro rfl; exact hnc hc
    simp [pre, wr, this]
  | selTimer hd =>
    exact inv2_move h (fun e he => he) rfl (fun hx => by cases hx) (fun _ _ _ _ => Nat.le_refl _)
  | selSDCancel hc =>
    rename_i e
    refine inv2_fields (inv2_move h (fun a ha => by cases ha) rfl (fun hx => by cases hx) ?_) rfl rfl rfl rfl rfl rfl rfl
    intro i x _ hnc
    have : ¬ e.serial = x := by rintro rfl; exact hnc hc
    simp [pre, wr, this]
  | selSDTimer hd =>
    exact inv2_move h (fun e he => he) rfl (fun hx => by cases hx) (fun _ _ _ _ => Nat.le_refl _)
  | chkSkip hc =>
    rename_i e
    refine inv2_fields (inv2_move h (fun a ha => by cases ha) rfl (fun hx => by cases hx) ?_) rfl rfl rfl rfl rfl rfl rfl
    intro i x _ hnc
    have : ¬ e.serial = x := by rintro rfl; exact hnc hc
    simp [pre, wr, this]
  | chkDeliver hnc =>
    refine inv2_fields (inv2_move h (fun a ha => ha) rfl (fun hx => by cases hx) ?_) rfl rfl rfl rfl rfl rfl rfl
    intro _ x _ _; simp [pre, wr]
  | wrapRaw hid =>
    rename_i e
    have htok : Known s e ∧ Ready s e := hI.th_ok (.wrap e) (by simp)
    have hidf : idOf e.serial s.log = some none := by rw [← hid]; exact htok.1.2.2
    refine inv2_fields (inv2_move h (fun a ha => by cases ha) rfl (fun hx => by cases hx) ?_) rfl rfl rfl rfl rfl rfl rfl
    intro j x hx _
    have : ¬ e.serial = x := by
      rintro rfl
      have := hI.r_id j _ hx
      rw [hidf] at this; cases this
    simp [pre, wr, this]
  | wrapRun hid hl hg => exact inv2_run hI h hid hl hg rfl rfl rfl rfl rfl rfl rfl
  | wrapSkip hid hl hg =>
    rename_i e i
    have htok : Known s e ∧ Ready s e := hI.th_ok (.wrap e) (by simp)
    have hidf : idOf e.serial s.log = some (some i) := by rw [← hid]; exact htok.1.2.2
    refine inv2_fields (inv2_move h (fun a ha => by cases ha) rfl (fun hx => by cases hx) ?_) rfl rfl rfl rfl rfl rfl rfl
    intro j x hx _
    have : ¬ e.serial = x := by
      rintro rfl
      have h1 := hI.r_id j _ hx
      rw [hidf] at h1
      have : i = j := by simpa using h1
      subst this
      exact hg hx
    simp [pre, wr, this]
  | cbDone hg =>
    exact inv2_plain h rfl (pend_cb_none hg) rfl (fun hx => by cases hx) (fun _ => rfl)
  | cbExec1 hk hid hl =>
    rename_i e i due tag blk
    refine inv2_exec1 hI h hl rfl rfl ?_ rfl (fun _ => rfl)
    simp [Th.pend, hk, hid]
  | cbExec2 hk hid =>
    rename_i e i due tag blk
    have hp : (Th.cb e 1).pend = some i := by simp [Th.pend, hk, hid]
    refine inv2_exec2 due .plain tag hI h hp rfl ?_ ?_ ?_ ?_
    · cases blk <;> rfl
    · cases blk <;> rfl
    · cases blk <;> rfl
    · intro x; cases blk <;> rfl
  | cbCancel hk hid hl =>
    rename_i e i k
    have hp : (Th.cb e k).pend = none := pend_cb_none (by intro due blk tag j hk'; rw [hk] at hk'; cases hk')
    have h1 := inv2_plain (t' := .idle) h rfl hp rfl (fun hx => by cases hx) (fun _ => rfl)
    have hI1 : Inv s (l ++ Th.idle :: r) := noElem_move hI (fun _ => rfl) (fun _ => rfl) trivial
    exact inv2_cancelId hI1 h1 _
  | ctlExec2 =>
    exact inv2_exec2 _ _ _ hI h rfl rfl rfl rfl rfl (fun _ => rfl)
  | ctlSd2 =>
    rename_i dw script
    have hsd := h.sdpc (.ctl (.sd2 dw) script) (by simp) rfl
    exact inv2_shut (inv2_move h (fun a ha => by cases ha) rfl (fun _ => Or.inl rfl) (fun _ _ _ _ => Nat.le_refl _))
      (HSub.refl _) (fun _ hy => hy) (fun _ _ => rfl) rfl rfl hsd rfl
  | ctlSd3 =>
    rename_i dw script
    have hsd := h.sdpc (.ctl (.sd3 dw) script) (by simp) rfl
    have h1 : Inv2 s (l ++ Th.ctl (if dw = true then CPc.ready else CPc.sdWait) script :: r) :=
      inv2_plain h rfl rfl (by cases dw <;> rfl) (fun _ => rfl) (fun _ => rfl)
    refine inv2_shut h1 ?_ ?_ ?_ ?_ ?_ ?_ ?_
    · show HSub (sd3 s).heap s.heap
      unfold sd3; split
      · exact HSub.nil _
      · exact HSub.refl _
    · show ∀ y ∈ s.closed, y ∈ (sd3 s).closed
      unfold sd3; split
      · exact fun y hy => List.mem_append_right _ hy
      · exact fun _ hy => hy
    · show ∀ y, y ∉ (sd3 s).closed → hc y (sd3 s).heap = hc y s.heap
      unfold sd3; split
      · intro y hy
        simp only [broadcast, List.mem_append, List.mem_map, not_or, not_exists, not_and] at hy
        symm
        exact hc_zero_of_forall (fun e he hx => hy.1 e he hx)
      · intro _ _; rfl
    all_goals (unfold sd3; split <;> first | rfl | exact hsd)
  | ctlSdWait hw =>
    exact inv2_fields (inv2_plain h rfl rfl rfl (fun hx => by cases hx) (fun _ => rfl)) rfl rfl rfl rfl rfl rfl rfl
  | ctlWait ht => exact inv2_plain h rfl rfl rfl (fun hx => by cases hx) (fun _ => rfl)
  | ctlAdd =>
    rename_i due tag kind rest
    have h1 := inv2_plain (t' := .ctl .ready rest) h rfl rfl rfl (fun hx => by cases hx) (fun _ => rfl)
    have hI1 : Inv s (l ++ Th.ctl .ready rest :: r) := noElem_move hI (fun _ => rfl) (fun _ => rfl) trivial
    obtain ⟨f2, f3, f4, f5⟩ := add_fields s due none kind tag
    refine inv2_add hI1 h1 due none kind tag (by intro i hi; cases hi) (by intro i hi; cases hi) rfl rfl ?_ f5 f2 f3 f4
    show (add s due none kind tag).1.reg = _
    rw [add_reg]
    cases (add s due none kind tag).2 <;> rfl
  | ctlExec1 hl => exact inv2_exec1 hI h hl rfl rfl rfl rfl (fun _ => rfl)
  | ctlCancelElem hx =>
    rename_i x rest
    have h1 := inv2_plain (t' := .ctl .ready rest) h rfl rfl rfl (fun hx => by cases hx) (fun _ => rfl)
    have hI1 : Inv s (l ++ Th.ctl .ready rest :: r) := noElem_move hI (fun _ => rfl) (fun _ => rfl) trivial
    exact inv2_cancel hI1 h1 x none (by intro j hj; cases hj) rfl (cancelElem_closed_mem s x) rfl rfl rfl rfl rfl
  | ctlCancelNone =>
    exact inv2_fields (inv2_plain h rfl rfl rfl (fun hx => by cases hx) (fun _ => rfl)) rfl rfl rfl rfl rfl rfl rfl
  | ctlCancelId hl =>
    rename_i i rest
    have h1 := inv2_plain (t' := .ctl .ready rest) h rfl rfl rfl (fun hx => by cases hx) (fun _ => rfl)
    have hI1 : Inv s (l ++ Th.ctl .ready rest :: r) := noElem_move hI (fun _ => rfl) (fun _ => rfl) trivial
    exact inv2_cancelId hI1 h1 _
  | ctlSd1 hs =>
    rename_i f rest
    obtain ⟨_, rfl⟩ := sd1_some hs
    have h1 : Inv2 ({ s with isShutdown := true } : Sh) (l ++ Th.ctl .ready (.shutdown f :: rest) :: r) :=
      inv2_shut h (HSub.refl _) (fun _ hy => hy) (fun _ _ => rfl) rfl rfl rfl rfl
    exact inv2_fields (inv2_move h1 (fun a ha => by cases ha) rfl (fun _ => Or.inr rfl) (fun _ _ _ _ => Nat.le_refl _))
      rfl rfl rfl rfl rfl rfl rfl
  | ctlSdAgain hs hpc =>
    rename_i f rest res pc
    refine inv2_fields (inv2_plain h rfl rfl ?_ ?_ (fun _ => rfl)) rfl rfl rfl rfl rfl rfl rfl
    · rcases hpc with rfl | rfl <;> rfl
    · rcases hpc with rfl | rfl <;> intro hx <;> cases hx
  | ctlRelease =>
    exact inv2_fields (inv2_plain h rfl rfl rfl (fun hx => by cases hx) (fun _ => rfl)) rfl rfl rfl rfl rfl rfl rfl
  | ctlArm =>
    exact inv2_fields (inv2_plain h rfl rfl rfl (fun hx => by cases hx) (fun _ => rfl)) rfl rfl rfl rfl rfl rfl rfl
  | tick =>
    exact inv2_fields (inv2_plain h rfl rfl rfl (fun hx => by cases hx) (fun _ => rfl)) rfl rfl rfl rfl rfl rfl rfl

end Hive.Timed
