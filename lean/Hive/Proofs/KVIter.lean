import Hive.Proofs.KVMap
/-!
# Iteration: the model's snapshot-sort-strip equals a range scan of the ordered map
-/
namespace Hive.KV

/-- A list in iteration direction. -/
def dirList {α : Type} (d : Dir) (l : List α) : List α :=
  match d with
  | .fwd => l
  | .bwd => l.reverse

theorem range_eq (p : Bytes) (d : Dir) (m : AList) :
    Spec.range p d m = dirList d (m.filter (fun e => hasPfx p e.1)) := by
  cases d <;> rfl

theorem dirList_map {α β : Type} (f : α → β) (d : Dir) (l : List α) :
    dirList d (l.map f) = (dirList d l).map f := by
  cases d <;> simp [dirList]

theorem mem_dirList {α : Type} (d : Dir) (l : List α) (x : α) : x ∈ dirList d l ↔ x ∈ l := by
  cases d <;> simp [dirList]

/-- Sorting the keys of a map in direction `d` = the keys of the sorted map, in direction `d`. -/
theorem sort_keys {s : AList} (hn : NoDupKeys s) (d : Dir) :
    sortBy (dirLt d) (s.map (·.1)) = dirList d ((absMap s).map (·.1)) := by
  apply sortBy_eq (strict_dirLt d)
  · rw [List.pairwise_map]
    exact List.Pairwise.imp (fun {a b} hab => dirLt_total d a.1 b.1 hab) hn
  · have hs : ((absMap s).map (·.1)).Pairwise (fun a b => blt a b = true) := by
      rw [List.pairwise_map]; exact sortedK_absMap hn
    cases d
    · exact hs
    · simp only [dirList, List.pairwise_reverse]; exact hs
  · intro x
    rw [mem_dirList]
    simp only [List.mem_map]
    constructor
    · rintro ⟨e, he, rfl⟩; exact ⟨e, (mem_absMap e s).mp he, rfl⟩
    · rintro ⟨e, he, rfl⟩; exact ⟨e, (mem_absMap e s).mpr he, rfl⟩

theorem snapshot_eq (realm p : Bytes) (m : AList) :
    snapshot realm p m = m.filter (fun e => (fun x => hasPfx (realm ++ p) x) e.1) := rfl

theorem absMap_snapshot (realm p : Bytes) {m : AList} (hn : NoDupKeys m) :
    absMap (snapshot realm p m) = (absMap m).filter (fun e => hasPfx (realm ++ p) e.1) := by
  rw [snapshot_eq]; exact absMap_filter (fun x => hasPfx (realm ++ p) x) hn

/-- The model's iteration (snapshot under the lock, sort the keys, look the values up in the
snapshot, strip the realm) reports what a range scan of the ordered map reports. -/
theorem iterAll_eq (realm p : Bytes) (d : Dir) {m : AList} (hn : NoDupKeys m) :
    iterAll realm p d m =
      (Spec.range (realm ++ p) d (absMap m)).map (fun e => (e.1.drop realm.length, e.2)) := by
  have hsn : NoDupKeys (snapshot realm p m) := hn.filter _
  unfold iterAll
  simp only []
  rw [sort_keys hsn d, range_eq, ← absMap_snapshot realm p hn, dirList_map, List.map_map]
  apply List.map_congr_left
  intro e he
  rw [mem_dirList, mem_absMap] at he
  obtain ⟨k, v⟩ := e
  simp [Function.comp, mem_aget hsn he]

theorem iterKeysAll_eq (realm p : Bytes) (d : Dir) (m : AList) :
    iterKeysAll realm p d m = (iterAll realm p d m).map (·.1) := by
  unfold iterKeysAll iterAll
  simp [List.map_map, Function.comp]

/-! ## what an iteration reports -/

theorem hasPfx_iff (p k : Bytes) : hasPfx p k = true ↔ ∃ t, k = p ++ t := by
  unfold hasPfx
  rw [List.isPrefixOf_iff_prefix]
  constructor
  · rintro ⟨t, ht⟩; exact ⟨t, ht.symm⟩
  · rintro ⟨t, ht⟩; exact ⟨t, ht.symm⟩

theorem hasPfx_append (r p k : Bytes) : hasPfx (r ++ p) (r ++ k) = hasPfx p k := by
  rw [Bool.eq_iff_iff, hasPfx_iff, hasPfx_iff]
  constructor
  · rintro ⟨t, ht⟩
    rw [List.append_assoc] at ht
    exact ⟨t, List.append_cancel_left ht⟩
  · rintro ⟨t, ht⟩; exact ⟨t, by rw [ht, List.append_assoc]⟩

theorem hasPfx_realm {r p fk : Bytes} (h : hasPfx (r ++ p) fk = true) :
    fk = r ++ fk.drop r.length ∧ hasPfx p (fk.drop r.length) = true := by
  obtain ⟨t, ht⟩ := (hasPfx_iff _ _).mp h
  subst ht
  rw [List.append_assoc, List.drop_left]
  exact ⟨rfl, (hasPfx_iff _ _).mpr ⟨t, rfl⟩⟩

theorem blt_append (r a b : Bytes) : blt (r ++ a) (r ++ b) = blt a b := by
  induction r with
  | nil => rfl
  | cons x xs ih => simp [blt, ih]

theorem dirLt_append (d : Dir) (r a b : Bytes) : dirLt d (r ++ a) (r ++ b) = dirLt d a b := by
  cases d <;> simp [dirLt, blt_append]

/-- Membership in the consumer calls of an unstopped iteration. -/
theorem mem_iterAll (realm p : Bytes) (d : Dir) {m : AList} (hn : NoDupKeys m) (k v : Bytes) :
    (k, v) ∈ iterAll realm p d m ↔ aget (realm ++ k) m = some v ∧ hasPfx p k = true := by
  rw [iterAll_eq realm p d hn, range_eq, List.mem_map]
  constructor
  · rintro ⟨e, he, heq⟩
    rw [mem_dirList, List.mem_filter, mem_absMap] at he
    obtain ⟨fk, fv⟩ := e
    simp only [Prod.mk.injEq] at heq
    obtain ⟨hk, hv⟩ := heq
    have := hasPfx_realm he.2
    simp only at this
    subst hk hv
    rw [← this.1]
    exact ⟨mem_aget hn he.1, this.2⟩
  · rintro ⟨hg, hp⟩
    refine ⟨(realm ++ k, v), ?_, by simp⟩
    rw [mem_dirList, List.mem_filter, mem_absMap]
    exact ⟨aget_some_mem hg, by simpa [hasPfx_append] using hp⟩

/-- The reported keys are strictly ordered in the requested direction. -/
theorem sorted_iterAll (realm p : Bytes) (d : Dir) {m : AList} (hn : NoDupKeys m) :
    ((iterAll realm p d m).map (·.1)).Pairwise (fun a b => dirLt d a b = true) := by
  rw [iterAll_eq realm p d hn, range_eq, List.map_map, List.pairwise_map]
  have hs : SortedK ((absMap m).filter (fun e => hasPfx (realm ++ p) e.1)) := (sortedK_absMap hn).filter _
  have hd : (dirList d ((absMap m).filter (fun e => hasPfx (realm ++ p) e.1))).Pairwise
      (fun a b => dirLt d a.1 b.1 = true) := by
    cases d
    · exact hs
    · simp only [dirList, List.pairwise_reverse]; exact hs
  refine List.Pairwise.imp_of_mem ?_ hd
  intro a b ha hb hab
  rw [mem_dirList, List.mem_filter] at ha hb
  have h1 := (hasPfx_realm ha.2).1
  have h2 := (hasPfx_realm hb.2).1
  simp only [Function.comp]
  rw [h1, h2, dirLt_append] at hab
  exact hab

end Hive.KV
