import Hive.Proofs.C12bTimeHeapPerm
/-! `container/heap` keeps the heap order: `heap.Pop` returns an entry with a minimal timestamp. -/
namespace Hive.C12b.TH

/-- Timestamp at a slot (0 outside the slice). -/
def key (a : List Entry) (i : Nat) : Nat :=
  match a[i]? with
  | some e => e.ts
  | none => 0

/-- Binary-heap order on timestamps: every slot is at least its parent. -/
def HeapOrd (a : List Entry) : Prop := ∀ k, 0 < k → k < a.length → key a ((k - 1) / 2) ≤ key a k

theorem less_iff (a : List Entry) (i j : Nat) (hi : i < a.length) (hj : j < a.length) :
    less a i j = true ↔ key a i < key a j := by
  unfold less key
  rw [List.getElem?_eq_getElem hi, List.getElem?_eq_getElem hj]
  simp

theorem less_false_iff (a : List Entry) (i j : Nat) (hi : i < a.length) (hj : j < a.length) :
    less a i j = false ↔ key a j ≤ key a i := by
  have := less_iff a i j hi hj
  cases h : less a i j
  · simp only [true_iff]
    rw [h] at this
    have : ¬ key a i < key a j := fun e => by simpa using this.2 e
    omega
  · simp only [Bool.true_eq_false, false_iff]
    have := this.1 h
    omega

theorem swap_getElem? (a : List Entry) (i j k : Nat) (hi : i < a.length) (hj : j < a.length) :
    (swap a i j)[k]? = if k = j then a[i]? else if k = i then a[j]? else a[k]? := by
  unfold swap
  rw [List.getElem?_eq_getElem hi, List.getElem?_eq_getElem hj]
  simp only [List.getElem?_set, List.length_set]
  by_cases e1 : k = j
  · subst e1; simp [hj]
  · have e1' : ¬ j = k := fun e => e1 e.symm
    simp only [e1, e1', if_false]
    by_cases e2 : k = i
    · subst e2; simp [hi]
    · have e2' : ¬ i = k := fun e => e2 e.symm
      simp [e2, e2']

theorem swap_key (a : List Entry) (i j k : Nat) (hi : i < a.length) (hj : j < a.length) :
    key (swap a i j) k = if k = j then key a i else if k = i then key a j else key a k := by
  unfold key
  rw [swap_getElem? a i j k hi hj]
  by_cases e1 : k = j
  · simp [e1]
  · by_cases e2 : k = i
    · subst e2; simp [e1]
    · simp [e1, e2]

/-! ## up -/

theorem up_heap (a : List Entry) (j : Nat) (hj : j < a.length)
    (h1 : ∀ k, 0 < k → k < a.length → k ≠ j → key a ((k - 1) / 2) ≤ key a k)
    (h2 : ∀ k, 0 < k → k < a.length → (k - 1) / 2 = j → 0 < j → key a ((j - 1) / 2) ≤ key a k) :
    HeapOrd (up a j) := by
  fun_induction up a j with
  | case1 a j h =>
    intro k hk hkn
    by_cases e : k = j
    · subst e
      rcases h with h | h
      · omega
      · exact (less_false_iff a k _ hkn (by omega)).1 h
    · exact h1 k hk hkn e
  | case2 a j h ih =>
    have hp : (j - 1) / 2 ≠ j := fun e => h (Or.inl e)
    have hless : less a j ((j - 1) / 2) = true := by
      cases hl : less a j ((j - 1) / 2)
      · exact absurd (Or.inr hl) h
      · rfl
    have hjpos : 0 < j := by omega
    have hplt : (j - 1) / 2 < j := by omega
    have hpl : (j - 1) / 2 < a.length := by omega
    have hlt : key a j < key a ((j - 1) / 2) := (less_iff a j _ hj hpl).1 hless
    have hlen : (swap a ((j - 1) / 2) j).length = a.length := swap_length _ _ _
    have hk : ∀ k, key (swap a ((j - 1) / 2) j) k =
        if k = j then key a ((j - 1) / 2) else if k = (j - 1) / 2 then key a j else key a k :=
      fun k => swap_key a _ j k hpl hj
    apply ih (by rw [hlen]; exact hpl)
    · intro k hk0 hkn hkp
      rw [hlen] at hkn
      rw [hk k, hk ((k - 1) / 2)]
      by_cases e : k = j
      · subst e
        simp only [if_true, hp, if_false]
        omega
      · simp only [e, hkp, if_false]
        by_cases eq : (k - 1) / 2 = j
        · simp only [eq, if_true]
          exact h2 k hk0 hkn eq hjpos
        · simp only [eq, if_false]
          by_cases ep : (k - 1) / 2 = (j - 1) / 2
          · simp only [ep, if_true]
            have := h1 k hk0 hkn e
            rw [ep] at this
            omega
          · simp only [ep, if_false]
            exact h1 k hk0 hkn e
    · intro k hk0 hkn hkp hppos
      rw [hlen] at hkn
      have hg1 : ((j - 1) / 2 - 1) / 2 ≠ j := by omega
      have hg2 : ((j - 1) / 2 - 1) / 2 ≠ (j - 1) / 2 := by omega
      rw [hk k, hk (((j - 1) / 2 - 1) / 2)]
      simp only [hg1, hg2, if_false]
      have hpp := h1 ((j - 1) / 2) hppos hpl hp
      by_cases e : k = j
      · simp only [e, if_true]; exact hpp
      · have e2 : k ≠ (j - 1) / 2 := by omega
        simp only [e, e2, if_false]
        have := h1 k hk0 hkn e
        rw [hkp] at this
        omega

theorem key_append_left (a : List Entry) (e : Entry) (k : Nat) (h : k < a.length) :
    key (a ++ [e]) k = key a k := by
  unfold key
  rw [List.getElem?_append_left h]

theorem heapPush_ord (a : List Entry) (e : Entry) (h : HeapOrd a) : HeapOrd (heapPush a e) := by
  unfold heapPush
  apply up_heap
  · simp
  · intro k hk hkn hne
    simp only [List.length_append, List.length_cons, List.length_nil] at hkn
    have hk' : k < a.length := by omega
    rw [key_append_left a e k hk', key_append_left a e _ (by omega)]
    exact h k hk hk'
  · intro k hk hkn hp hpos
    simp only [List.length_append, List.length_cons, List.length_nil] at hkn
    omega

/-! ## down -/

theorem child_cases (a : List Entry) (i n : Nat) : child a i n = 2 * i + 1 ∨ (child a i n = 2 * i + 2 ∧ 2 * i + 2 < n) := by
  unfold child
  split
  · rename_i h; exact Or.inr ⟨rfl, h.1⟩
  · exact Or.inl rfl

/-- The chosen child is the smaller of the children inside the first `n` slots. -/
theorem child_min (a : List Entry) (i n k : Nat) (hn : n ≤ a.length) (hk0 : 0 < k) (hk : k < n)
    (hp : (k - 1) / 2 = i) : key a (child a i n) ≤ key a k := by
  have hk12 : k = 2 * i + 1 ∨ k = 2 * i + 2 := by omega
  unfold child
  split
  · rename_i h
    obtain ⟨h1, h2⟩ := h
    have := (less_iff a (2 * i + 2) (2 * i + 1) (by omega) (by omega)).1 h2
    rcases hk12 with e | e <;> subst e <;> omega
  · rename_i h
    rcases hk12 with e | e
    · subst e; omega
    · subst e
      have hf : less a (2 * i + 2) (2 * i + 1) = false := by
        cases hl : less a (2 * i + 2) (2 * i + 1)
        · rfl
        · exact absurd ⟨hk, hl⟩ h
      exact (less_false_iff a _ _ (by omega) (by omega)).1 hf

theorem down_heap (a : List Entry) (i n : Nat) (hn : n ≤ a.length)
    (h1 : ∀ k, 0 < k → k < n → (k - 1) / 2 ≠ i → key a ((k - 1) / 2) ≤ key a k)
    (h2 : ∀ k, 0 < k → k < n → (k - 1) / 2 = i → 0 < i → key a ((i - 1) / 2) ≤ key a k) :
    (∀ k, 0 < k → k < n → key (down a i n) ((k - 1) / 2) ≤ key (down a i n) k) ∧
    (∀ k, n ≤ k → (down a i n)[k]? = a[k]?) ∧ (down a i n).length = a.length := by
  fun_induction down a i n with
  | case1 a i h =>
    refine ⟨?_, fun _ _ => rfl, rfl⟩
    intro k hk hkn
    exact h1 k hk hkn (by omega)
  | case2 a i h hl =>
    refine ⟨?_, fun _ _ => rfl, rfl⟩
    intro k hk hkn
    by_cases e : (k - 1) / 2 = i
    · have hc := child_lt a i n (by omega)
      have hi : i < a.length := by omega
      have h3 := (less_false_iff a (child a i n) i (by omega) hi).1 hl
      have h4 := child_min a i n k hn hk hkn e
      rw [e]; omega
    · exact h1 k hk hkn e
  | case3 a i h hl ih =>
    have hcl := child_lt a i n (by omega)
    have hcg := child_gt a i n
    have hi : i < a.length := by omega
    have hc : child a i n < a.length := by omega
    have hless : less a (child a i n) i = true := by
      cases hx : less a (child a i n) i
      · exact absurd hx hl
      · rfl
    have hlt : key a (child a i n) < key a i := (less_iff a _ _ hc hi).1 hless
    have hlen : (swap a i (child a i n)).length = a.length := swap_length _ _ _
    have hk : ∀ k, key (swap a i (child a i n)) k =
        if k = child a i n then key a i else if k = i then key a (child a i n) else key a k :=
      fun k => swap_key a i _ k hi hc
    have hcp : (child a i n - 1) / 2 = i := by
      rcases child_cases a i n with e | ⟨e, _⟩ <;> rw [e] <;> omega
    have := ih (by rw [hlen]; exact hn) ?_ ?_
    · obtain ⟨r1, r2, r3⟩ := this
      refine ⟨r1, ?_, by rw [r3, hlen]⟩
      intro k hkn
      rw [r2 k hkn, swap_getElem? a i _ k hi hc]
      have e1 : k ≠ child a i n := by omega
      have e2 : k ≠ i := by omega
      simp [e1, e2]
    · intro k hk0 hkn hkp
      rw [hk k, hk ((k - 1) / 2)]
      by_cases e : (k - 1) / 2 = i
      · have eic : i ≠ child a i n := by omega
        simp only [e, eic, if_false, if_true]
        by_cases ek : k = child a i n
        · simp only [ek, if_true]; omega
        · have eki : k ≠ i := by omega
          simp only [ek, eki, if_false]
          exact child_min a i n k hn hk0 hkn e
      · simp only [hkp, e, if_false]
        have ekc : k ≠ child a i n := fun ee => e (ee ▸ hcp)
        simp only [ekc, if_false]
        by_cases eki : k = i
        · simp only [eki, if_true]
          have hh := h2 (child a i n) (by omega) hcl hcp (by omega)
          rw [eki] at hk0
          exact hh
        · simp only [eki, if_false]
          exact h1 k hk0 hkn e
    · intro k hk0 hkn hkp hcpos
      rw [hk k, hk ((child a i n - 1) / 2)]
      have e0 : i ≠ child a i n := by omega
      simp only [hcp, e0, if_false, if_true]
      have ekc : k ≠ child a i n := by omega
      have eki : k ≠ i := by omega
      simp only [ekc, eki, if_false]
      have := h1 k hk0 hkn (by omega)
      rw [hkp] at this
      exact this

/-! ## the root is a minimum; Pop returns it -/

theorem root_min (a : List Entry) (h : HeapOrd a) : ∀ k, k < a.length → key a 0 ≤ key a k := by
  intro k
  induction k using Nat.strongRecOn with
  | ind k ih =>
    intro hk
    by_cases e : k = 0
    · subst e; omega
    · have h1 := h k (by omega) hk
      have h2 := ih ((k - 1) / 2) (by omega) (by omega)
      omega

theorem key_take (b : List Entry) (n k : Nat) (h : k < n) : key (b.take n) k = key b k := by
  unfold key
  rw [List.getElem?_take_of_lt h]

theorem heapPop_min (a : List Entry) (e : Entry) (a' : List Entry) (ho : HeapOrd a)
    (h : heapPop a = some (e, a')) : (∀ x ∈ a', e.ts ≤ x.ts) ∧ HeapOrd a' := by
  obtain ⟨hperm, hlen'⟩ := heapPop_perm a e a' h
  unfold heapPop at h
  cases a with
  | nil => simp at h
  | cons x xs =>
    simp only at h
    have hn : (x :: xs).length - 1 = xs.length := by simp
    rw [hn] at h
    have hlen : (x :: xs).length = xs.length + 1 := by simp
    have hs := swap_key (x :: xs) 0 xs.length
    have hd := down_heap (swap (x :: xs) 0 xs.length) 0 xs.length
      (by rw [swap_length, hlen]; omega)
      (by
        intro k hk hkn hkp
        rw [hs k (by simp) (by simp), hs _ (by simp) (by simp)]
        have e1 : k ≠ xs.length := by omega
        have e2 : k ≠ 0 := by omega
        have e3 : (k - 1) / 2 ≠ xs.length := by omega
        simp only [e1, e2, e3, hkp, if_false]
        exact ho k hk (by rw [hlen]; omega))
      (by intro k _ _ _ h0; omega)
    obtain ⟨d1, d2, d3⟩ := hd
    generalize hb : down (swap (x :: xs) 0 xs.length) 0 xs.length = b at h d1 d2 d3
    have hbn : b[xs.length]? = some x := by
      rw [d2 xs.length (Nat.le_refl _), swap_getElem? (x :: xs) 0 xs.length xs.length (by simp) (by simp)]
      simp
    rw [hbn] at h
    simp only [Option.some.injEq, Prod.mk.injEq] at h
    obtain ⟨h1, h2⟩ := h
    subst h1; subst h2
    constructor
    · intro y hy
      have hya : y ∈ x :: xs := hperm.symm.subset (List.mem_cons_of_mem _ hy)
      obtain ⟨k, hk, hget⟩ := List.getElem_of_mem hya
      have := root_min (x :: xs) ho k hk
      have e1 : key (x :: xs) 0 = x.ts := by simp [key]
      have e2 : key (x :: xs) k = y.ts := by
        unfold key; rw [List.getElem?_eq_getElem hk, hget]
      omega
    · intro k hk hkn
      have hkn' : k < xs.length := by
        have : (b.take xs.length).length ≤ xs.length := by simp; omega
        omega
      rw [key_take b _ _ (by omega), key_take b _ _ hkn']
      exact d1 k hk hkn'

end Hive.C12b.TH
