import Hive.Model.DerivedWG
/-!
# C14: the `WaitGroup` protocol under concurrency (`wgSys fixed`)

For every number of goroutines, every argument list and every schedule, from any start configuration
(`WGStart`):
* `wg_counter_eq` — the atomic counter equals the number of pending elements plus the in-flight
  weight of the calls (both variants);
* `wg_no_early_zero` — no decrement produces 0 while elements are pending, and a zero counter means
  nothing pending and nothing in flight (both variants);
* `wg_trigger_if` — repaired code: at quiescence with nothing pending and at least one successful
  `Done`, the group has triggered;
* `wg_trigger_only_if` — a trigger (taken or decided) implies a successful `Done`;
* `wg_old_race_witness` / `wg_fixed_race_example` — the duplicate-`Add`/`Done` race on the code as it
  was ends untriggered; on the repaired code the same schedule triggers.
-/
namespace Hive.Derived
open Hive.Conc

/-- In-flight weight of a call: how much of the atomic counter it owns. -/
def weight : WGT → Nat
  | .addLoop els => els.length
  | .addFix els => els.length + 1
  | .addTrig els => els.length
  | .doneDec _ => 1
  | _ => 0

def atDec : WGT → Nat
  | .doneDec _ => 1
  | _ => 0

def atTrig : WGT → Nat
  | .addTrig _ => 1
  | .doneTrig _ => 1
  | _ => 0

def atFix : WGT → Nat
  | .addFix _ => 1
  | _ => 0

def total (f : WGT → Nat) (ts : List WGT) : Nat := (ts.map f).sum

theorem total_mid (f : WGT → Nat) (pre post : List WGT) (t : WGT) :
    total f (pre ++ t :: post) = total f pre + f t + total f post := by
  simp [total, List.sum_append, Nat.add_assoc]

/-- The inductive invariant.  `j`: once a decrement has happened and the counter is 0, the trigger
has been taken or decided (repaired code).  `n`: before the first successful `Done` nobody is at a
decrement of `Done` or at a trigger, and a pending correction implies a non-empty pending set. -/
structure WGInv (fixed : Bool) (c : Cfg WGS WGT) : Prop where
  cnt : c.1.counter = (c.1.pending.length : Int) + (total weight c.2 : Nat)
  early : c.1.early = false
  dle : c.1.dones ≤ c.1.decs + total atDec c.2
  j : fixed = true → 0 < c.1.decs → c.1.counter = 0 → 0 < c.1.trig.toNat + total atTrig c.2
  n : c.1.dones = 0 → total atDec c.2 = 0 ∧ total atTrig c.2 = 0 ∧ c.1.trig.toNat = 0 ∧
        (0 < total atFix c.2 → 0 < c.1.pending.length)

/-- No decrement produces 0 while elements are pending: the counter also covers the decrementing
thread's own weight (`w ≥ 1`). -/
theorem early_step (pending : List Nat) (counter : Int) (w : Nat) (hw : 1 ≤ w)
    (h1 : counter = (pending.length : Int) + (w : Nat)) :
    (counter - 1 == 0 && !pending.isEmpty) = false := by
  cases pending with
  | nil => simp
  | cons x xs =>
    have : ¬ (counter - 1 = 0) := by simp only [List.length_cons] at h1; omega
    simp [this]

syntax "wg_fin" : tactic
set_option hygiene false in
macro_rules
  | `(tactic| wg_fin) => `(tactic|
      (simp only [total_mid, weight, atDec, atTrig, atFix, List.length_nil, List.length_cons, List.length_append,
         Bool.toNat_true, Bool.toNat_false] at * <;>
       first | omega | assumption | (intro hf; have h4 := h4 hf; subst hf; (try simp only [eq_self, true_and] at hc); omega)))

theorem wgInv_step (fixed : Bool) (a b : Cfg WGS WGT) (h : WGInv fixed a) (hs : Step (wgSys fixed) a b) :
    WGInv fixed b := by
  cases hs with
  | mk s pre t post s' t' hm =>
    obtain ⟨h1, h2, h3, h4, h5⟩ := h
    obtain ⟨pending, counter, trig, decs, dones, early⟩ := s
    simp only [total_mid] at h1 h2 h3 h4 h5
    cases t with
    | addStart els =>
      simp only [wgSys, wgStep, List.mem_singleton, Prod.mk.injEq] at hm
      obtain ⟨rfl, rfl⟩ := hm
      refine ⟨?_, ?_, ?_, ?_, ?_⟩ <;> wg_fin
    | addLoop els =>
      cases els with
      | nil =>
        simp only [wgSys, wgStep, List.mem_singleton, Prod.mk.injEq] at hm
        obtain ⟨rfl, rfl⟩ := hm
        refine ⟨?_, ?_, ?_, ?_, ?_⟩ <;> wg_fin
      | cons x els =>
        simp only [wgSys, wgStep] at hm
        split at hm
        · rename_i hc
          have hp : 0 < pending.length := List.length_pos_of_mem (List.contains_iff_mem.1 hc)
          simp only [List.mem_singleton, Prod.mk.injEq] at hm
          obtain ⟨rfl, rfl⟩ := hm
          refine ⟨?_, ?_, ?_, ?_, ?_⟩ <;> wg_fin
        · simp only [List.mem_singleton, Prod.mk.injEq] at hm
          obtain ⟨rfl, rfl⟩ := hm
          refine ⟨?_, ?_, ?_, ?_, ?_⟩ <;> wg_fin
    | addFix els =>
      have he := early_step pending counter _ (by simp only [weight]; omega) h1
      simp only [wgSys, wgStep, he, h2, Bool.or_false] at hm
      split at hm
      · rename_i hc
        simp only [Bool.and_eq_true, beq_iff_eq] at hc
        simp only [List.mem_singleton, Prod.mk.injEq] at hm
        obtain ⟨rfl, rfl⟩ := hm
        refine ⟨?_, ?_, ?_, ?_, ?_⟩ <;> wg_fin
      · rename_i hc
        simp only [Bool.and_eq_true, beq_iff_eq] at hc
        simp only [List.mem_singleton, Prod.mk.injEq] at hm
        obtain ⟨rfl, rfl⟩ := hm
        refine ⟨?_, ?_, ?_, ?_, ?_⟩ <;> wg_fin
    | addTrig els =>
      simp only [wgSys, wgStep, List.mem_singleton, Prod.mk.injEq] at hm
      obtain ⟨rfl, rfl⟩ := hm
      refine ⟨?_, ?_, ?_, ?_, ?_⟩ <;> wg_fin
    | doneLoop els =>
      cases els with
      | nil =>
        simp only [wgSys, wgStep, List.mem_singleton, Prod.mk.injEq] at hm
        obtain ⟨rfl, rfl⟩ := hm
        refine ⟨?_, ?_, ?_, ?_, ?_⟩ <;> wg_fin
      | cons x els =>
        simp only [wgSys, wgStep] at hm
        split at hm
        · rename_i hc
          have hmem := List.contains_iff_mem.1 hc
          have hp : 0 < pending.length := List.length_pos_of_mem hmem
          have hl := List.length_erase_of_mem hmem
          simp only [List.mem_singleton, Prod.mk.injEq] at hm
          obtain ⟨rfl, rfl⟩ := hm
          refine ⟨?_, ?_, ?_, ?_, ?_⟩ <;> wg_fin
        · simp only [List.mem_singleton, Prod.mk.injEq] at hm
          obtain ⟨rfl, rfl⟩ := hm
          refine ⟨?_, ?_, ?_, ?_, ?_⟩ <;> wg_fin
    | doneDec els =>
      have he := early_step pending counter _ (by simp only [weight]; omega) h1
      simp only [wgSys, wgStep, he, h2, Bool.or_false] at hm
      split at hm
      · rename_i hc
        simp only [beq_iff_eq] at hc
        simp only [List.mem_singleton, Prod.mk.injEq] at hm
        obtain ⟨rfl, rfl⟩ := hm
        refine ⟨?_, ?_, ?_, ?_, ?_⟩ <;> wg_fin
      · rename_i hc
        simp only [beq_iff_eq] at hc
        simp only [List.mem_singleton, Prod.mk.injEq] at hm
        obtain ⟨rfl, rfl⟩ := hm
        refine ⟨?_, ?_, ?_, ?_, ?_⟩ <;> wg_fin
    | doneTrig els =>
      simp only [wgSys, wgStep, List.mem_singleton, Prod.mk.injEq] at hm
      obtain ⟨rfl, rfl⟩ := hm
      refine ⟨?_, ?_, ?_, ?_, ?_⟩ <;> wg_fin
    | fin => simp [wgSys, wgStep] at hm

/-! ## Start configurations, reachability -/

def WGT.isTrig : WGT → Bool
  | .addTrig _ => true
  | .doneTrig _ => true
  | _ => false

/-- A start configuration: the counter agrees with the pending set, the ghosts are fresh, no call has
started (any number of `Add`/`Done` calls with any arguments). -/
structure WGStart (c : Cfg WGS WGT) : Prop where
  counter : c.1.counter = c.1.pending.length
  fresh : c.1.trig = false ∧ c.1.decs = 0 ∧ c.1.dones = 0 ∧ c.1.early = false
  threads : ∀ t ∈ c.2, t.isStart = true

theorem total_eq_zero (f : WGT → Nat) : ∀ ts : List WGT, total f ts = 0 ↔ ∀ t ∈ ts, f t = 0
  | [] => by simp [total]
  | t :: ts => by
    have ih := total_eq_zero f ts
    simp only [total, List.map_cons, List.sum_cons, List.mem_cons, forall_eq_or_imp] at ih ⊢
    rw [← ih]; omega

theorem start_measures (t : WGT) (h : t.isStart = true) :
    weight t = 0 ∧ atDec t = 0 ∧ atTrig t = 0 ∧ atFix t = 0 := by
  cases t <;> simp [WGT.isStart] at h <;> simp [weight, atDec, atTrig, atFix]

theorem wgInv_init (fixed : Bool) (c : Cfg WGS WGT) (h : WGStart c) : WGInv fixed c := by
  obtain ⟨hc, ⟨ht, hd, hn, he⟩, hth⟩ := h
  have hw : total weight c.2 = 0 := (total_eq_zero _ _).2 fun t ht => (start_measures t (hth t ht)).1
  have hdec : total atDec c.2 = 0 := (total_eq_zero _ _).2 fun t ht => (start_measures t (hth t ht)).2.1
  have htr : total atTrig c.2 = 0 := (total_eq_zero _ _).2 fun t ht => (start_measures t (hth t ht)).2.2.1
  have hfx : total atFix c.2 = 0 := (total_eq_zero _ _).2 fun t ht => (start_measures t (hth t ht)).2.2.2
  refine ⟨?_, he, ?_, ?_, ?_⟩
  · rw [hc, hw]; simp
  · omega
  · intro _ h; omega
  · intro _; rw [ht]; simp [hdec, htr, hfx]

theorem wgInv_reach (fixed : Bool) (c0 c : Cfg WGS WGT) (h0 : WGStart c0)
    (hr : Reach (wgSys fixed) c0 c) : WGInv fixed c :=
  inv_induction (WGInv fixed) (wgInv_init fixed c0 h0) (wgInv_step fixed) hr

/-! ## B1: the counting invariant (both variants) -/

theorem wg_counter_eq (fixed : Bool) (c0 c : Cfg WGS WGT) (h0 : WGStart c0)
    (hr : Reach (wgSys fixed) c0 c) :
    c.1.counter = (c.1.pending.length : Int) + (((c.2.map weight).sum : Nat) : Int) :=
  (wgInv_reach fixed c0 c h0 hr).cnt

/-! ## B2: no decrement produces 0 while elements are pending (both variants) -/

theorem wg_no_early_zero (fixed : Bool) (c0 c : Cfg WGS WGT) (h0 : WGStart c0)
    (hr : Reach (wgSys fixed) c0 c) :
    c.1.early = false ∧ (c.1.counter = 0 → c.1.pending = [] ∧ ∀ t ∈ c.2, weight t = 0) := by
  have hi := wgInv_reach fixed c0 c h0 hr
  refine ⟨hi.early, fun hz => ?_⟩
  have h1 := hi.cnt
  constructor
  · apply List.eq_nil_of_length_eq_zero; omega
  · apply (total_eq_zero weight c.2).1; omega

/-! ## B3: "if" at quiescence, repaired code -/

theorem wg_trigger_if (c0 c : Cfg WGS WGT) (h0 : WGStart c0) (hr : Reach (wgSys true) c0 c)
    (hq : ∀ t ∈ c.2, t = .fin) (hp : c.1.pending = []) (hd : 0 < c.1.dones) : c.1.trig = true := by
  obtain ⟨h1, _, h3, h4, _⟩ := wgInv_reach true c0 c h0 hr
  have hw : total weight c.2 = 0 := (total_eq_zero _ _).2 fun t ht => by rw [hq t ht]; rfl
  have hdec : total atDec c.2 = 0 := (total_eq_zero _ _).2 fun t ht => by rw [hq t ht]; rfl
  have htr : total atTrig c.2 = 0 := (total_eq_zero _ _).2 fun t ht => by rw [hq t ht]; rfl
  have hz : c.1.counter = 0 := by rw [h1, hp, hw]; rfl
  have := h4 rfl (by omega) hz
  cases htg : c.1.trig with
  | true => rfl
  | false => rw [htg, htr] at this; simp at this

/-! ## B4: "only if" (both variants) -/

theorem wg_trigger_only_if (fixed : Bool) (c0 c : Cfg WGS WGT) (h0 : WGStart c0)
    (hr : Reach (wgSys fixed) c0 c) (h : c.1.trig = true ∨ ∃ t ∈ c.2, t.isTrig = true) :
    0 < c.1.dones := by
  have h5 := (wgInv_reach fixed c0 c h0 hr).n
  rcases Nat.eq_zero_or_pos c.1.dones with hz | hpos
  · obtain ⟨_, htr, htg, _⟩ := h5 hz
    rcases h with h | ⟨t, ht, hit⟩
    · rw [h] at htg; simp at htg
    · have := (total_eq_zero atTrig c.2).1 htr t ht
      cases t <;> simp [WGT.isTrig] at hit <;> simp [atTrig] at this
  · exact hpos

/-! ## B5: witnesses -/

example : WGStart (wgRaceInit 2) := by
  refine ⟨rfl, ⟨rfl, rfl, rfl, rfl⟩, ?_⟩
  decide

/-- The ghost `early` is not vacuous: outside the protocol (counter below the pending count) it fires. -/
example : (runSched (wgSys true)
    ({ pending := [5], counter := 1, trig := false, decs := 0, dones := 0, early := false }, [.doneDec []])
    [(0, 0)]).1.early = true := by decide

/-- The code as it was: after `Add(x)` of a pending `x` racing with `Done(x)`, everything is done,
nothing is pending, and the group has not triggered. -/
theorem wg_old_race_witness :
    let c := runSched (wgSys false) (wgRaceInit 2) wgRaceSched
    c.1.pending = [] ∧ c.1.dones > 0 ∧ c.1.trig = false ∧ c.2 = [.fin, .fin] := by
  decide

/-- The same schedule on the repaired code triggers. -/
theorem wg_fixed_race_example :
    let c := runSched (wgSys true) (wgRaceInit 2) wgRaceSched
    c.1.pending = [] ∧ c.1.dones > 0 ∧ c.1.trig = true ∧ c.2 = [.fin, .fin] := by
  decide

/-- The witness is a reachable configuration of the unrepaired protocol from a start configuration. -/
theorem wg_old_race_reachable :
    Reach (wgSys false) (wgRaceInit 2) (runSched (wgSys false) (wgRaceInit 2) wgRaceSched) :=
  runSched_reach _ _ _

end Hive.Derived
