import Hive.Model.DerivedSet
/-!
# Proofs about the DerivedSet / SubtractReactive models: occurrence counts track the sources

All facts are per element, by Boolean case analysis on the bits and `omega` on the counts.
-/
namespace Hive.Derived

def b2i (b : Bool) : Int := if b then 1 else 0

@[simp] theorem b2i_true : b2i true = 1 := rfl
@[simp] theorem b2i_false : b2i false = 0 := rfl

theorem applyBit_fst (p a d : Bool) : (applyBit p a d).1 = ((p || a) && !d) := rfl
theorem applyBit_added (p a d : Bool) : (applyBit p a d).2.1 = (a && !p) := rfl
theorem applyBit_deleted (p a d : Bool) : (applyBit p a d).2.2 = (d && (p || a)) := rfl

/-- The occurrence count after `SetArithmetic.Add`. -/
theorem inheritBit_fst (c : Int) (v ma md : Bool) : (inheritBit c v ma md).1 = c + b2i ma - b2i md := by
  cases ma <;> cases md <;> simp [inheritBit, collectUp, collectDown] <;> (repeat' split) <;> simp <;> omega

/-- The element is in the value afterwards iff its count is at least 1, provided that was so before. -/
theorem inheritBit_snd (c : Int) (v ma md : Bool) (hv : v = decide (c ≥ 1)) :
    (inheritBit c v ma md).2 = decide ((inheritBit c v ma md).1 ≥ 1) := by
  subst hv
  cases ma <;> cases md <;> simp [inheritBit, collectUp, collectDown, applyBit] <;> (repeat' split) <;>
    simp_all <;> omega

theorem subtractBit_fst (c : Int) (v ma md : Bool) : (subtractBit c v ma md).1 = c - b2i ma + b2i md := by
  cases ma <;> cases md <;> simp [subtractBit, collectUp, collectDown] <;> (repeat' split) <;> simp <;> omega

theorem subtractBit_snd (c : Int) (v ma md : Bool) (hv : v = decide (c ≥ 1)) :
    (subtractBit c v ma md).2 = decide ((subtractBit c v ma md).1 ≥ 1) := by
  subst hv
  cases ma <;> cases md <;> simp [subtractBit, collectUp, collectDown, applyBit] <;> (repeat' split) <;>
    simp_all <;> omega

/-- A mirror that applies the reported mutations changes its membership bit by exactly what it
reports further. -/
theorem mirror_delta (m ra rd : Bool) :
    b2i (applyBit m ra rd).1 - b2i m = b2i (applyBit m ra rd).2.1 - b2i (applyBit m ra rd).2.2 := by
  cases m <;> cases ra <;> cases rd <;> simp [applyBit]

/-- What a source reports, applied to a copy of its old content, gives its new content. -/
theorem report_consistent (op : SrcOp) (m : Nat → Bool) (x : Nat) :
    (applyBit (m x) (op.repAdded m x) (op.repDeleted m x)).1 = op.newMem m x := by
  cases op with
  | apply A D =>
    simp only [SrcOp.repAdded, SrcOp.repDeleted, SrcOp.newMem, applyBit]
    cases m x <;> cases A.contains x <;> cases D.contains x <;> rfl
  | replace X =>
    simp only [SrcOp.repAdded, SrcOp.repDeleted, SrcOp.newMem, applyBit]
    cases m x <;> cases X.contains x <;> rfl


/-! ## DerivedSet -/

/-- Number of live subscriptions whose mirror holds `x`. -/
def occ : List Sub → Nat → Int
  | [], _ => 0
  | s :: r, x => b2i (s.live && s.mirror x) + occ r x

theorem occ_append (a b : List Sub) (x : Nat) : occ (a ++ b) x = occ a x + occ b x := by
  induction a with
  | nil => simp [occ]
  | cons s r ih => simp [occ, ih]; omega

theorem occ_set (subs : List Sub) (j : Nat) (s s' : Sub) (x : Nat) (h : subs[j]? = some s) :
    occ (subs.set j s') x = occ subs x - b2i (s.live && s.mirror x) + b2i (s'.live && s'.mirror x) := by
  induction subs generalizing j with
  | nil => simp at h
  | cons a r ih =>
    cases j with
    | zero => simp at h; subst h; simp [occ]; omega
    | succ j => simp at h; simp [occ, ih j h]; omega

theorem occ_nonneg (subs : List Sub) (x : Nat) : 0 ≤ occ subs x := by
  induction subs with
  | nil => simp [occ]
  | cons s r ih => simp only [occ, b2i]; split <;> omega

theorem occ_pos_iff (subs : List Sub) (x : Nat) :
    occ subs x ≥ 1 ↔ ∃ s ∈ subs, s.live = true ∧ s.mirror x = true := by
  induction subs with
  | nil => simp [occ]
  | cons s r ih =>
    have := occ_nonneg r x
    simp only [occ, List.mem_cons, exists_eq_or_imp]
    cases hl : s.live <;> cases hm : s.mirror x <;> simp [b2i, ← ih] <;> omega

theorem subCallback_sub (s : Sub) (ra rd : Nat → Bool) (c : Nat → Int) (v : Nat → Bool) :
    (subCallback s ra rd c v).1 = { s with mirror := fun x => (applyBit (s.mirror x) (ra x) (rd x)).1 } := by
  simp [subCallback]

theorem subCallback_count (s : Sub) (ra rd : Nat → Bool) (c : Nat → Int) (v : Nat → Bool) (x : Nat) :
    (subCallback s ra rd c v).2.1 x =
      c x + b2i (applyBit (s.mirror x) (ra x) (rd x)).1 - b2i (s.mirror x) := by
  simp only [subCallback, memoGet_memoTable, inheritBit_fst]
  have := mirror_delta (s.mirror x) (ra x) (rd x)
  omega

theorem subCallback_value (s : Sub) (ra rd : Nat → Bool) (c : Nat → Int) (v : Nat → Bool) (x : Nat)
    (hv : v x = decide (c x ≥ 1)) :
    (subCallback s ra rd c v).2.2 x = decide ((subCallback s ra rd c v).2.1 x ≥ 1) := by
  simp only [subCallback, memoGet_memoTable]
  exact inheritBit_snd _ _ _ _ hv

/-- Delivering a mutation keeps `count - occ` and the value/count relation. -/
theorem deliver_count (i : Nat) (ra rd : Nat → Bool) (subs : List Sub) (c : Nat → Int) (v : Nat → Bool) (x : Nat) :
    (deliver i ra rd subs c v).2.1 x - occ (deliver i ra rd subs c v).1 x = c x - occ subs x := by
  induction subs generalizing c v with
  | nil => simp [deliver]
  | cons s r ih =>
    simp only [deliver]
    split
    · rename_i h
      simp only [Bool.and_eq_true] at h
      have := ih (subCallback s ra rd c v).2.1 (subCallback s ra rd c v).2.2
      simp only [occ, subCallback_sub, subCallback_count] at this ⊢
      simp only [h.1, Bool.true_and]
      omega
    · have := ih c v
      simp only [occ]
      omega

theorem deliver_value (i : Nat) (ra rd : Nat → Bool) (subs : List Sub) (c : Nat → Int) (v : Nat → Bool)
    (hv : ∀ x, v x = decide (c x ≥ 1)) (x : Nat) :
    (deliver i ra rd subs c v).2.2 x = decide ((deliver i ra rd subs c v).2.1 x ≥ 1) := by
  induction subs generalizing c v with
  | nil => simpa [deliver] using hv x
  | cons s r ih =>
    simp only [deliver]
    split
    · exact ih _ _ (fun y => subCallback_value s ra rd c v y (hv y))
    · exact ih c v hv

/-- Shape of the subscriptions after a delivery. -/
theorem deliver_subs (i : Nat) (ra rd : Nat → Bool) (subs : List Sub) (c : Nat → Int) (v : Nat → Bool) :
    (deliver i ra rd subs c v).1 = subs.map (fun s =>
      if s.live && s.src == i then { s with mirror := fun x => (applyBit (s.mirror x) (ra x) (rd x)).1 } else s) := by
  induction subs generalizing c v with
  | nil => simp [deliver]
  | cons s r ih =>
    simp only [deliver, List.map_cons]
    split <;> simp_all [subCallback_sub]

structure DS.Inv (s : DS) : Prop where
  count : ∀ x, s.count x = occ s.subs x
  value : ∀ x, s.value x = decide (s.count x ≥ 1)
  mirror : ∀ sub ∈ s.subs, sub.live = true → ∀ x, sub.mirror x = s.mem sub.src x

theorem DS.inv_init : DS.init.Inv := by
  constructor <;> simp [DS.init, occ]

theorem setAt_same {α : Type} (f : Nat → α) (i : Nat) (v : α) : setAt f i v i = v := by simp [setAt]
theorem setAt_other {α : Type} (f : Nat → α) (i j : Nat) (v : α) (h : j ≠ i) : setAt f i v j = f j := by
  simp [setAt, h]

theorem DS.inv_step (s : DS) (op : DSOp) (h : s.Inv) (hw : s.wfOp op) : (s.step op).Inv := by
  cases op with
  | write i op =>
    constructor
    · intro x
      have := deliver_count i (op.repAdded (s.mem i)) (op.repDeleted (s.mem i)) s.subs s.count s.value x
      have := h.count x
      simp only [DS.step]
      omega
    · intro x
      simp only [DS.step]
      exact deliver_value _ _ _ _ _ _ h.value x
    · intro sub hsub hl x
      simp only [DS.step, deliver_subs, List.mem_map] at hsub ⊢
      obtain ⟨sub0, hmem, rfl⟩ := hsub
      by_cases hc : (sub0.live && sub0.src == i) = true
      · simp only [hc, if_true] at hl ⊢
        simp only [Bool.and_eq_true, beq_iff_eq] at hc
        rw [hc.2, setAt_same, memoGet_memoTable, h.mirror sub0 hmem hc.1 x, hc.2]
        exact report_consistent op (s.mem i) x
      · simp only [hc] at hl ⊢
        simp only [Bool.false_eq_true, if_false] at hl ⊢
        have hne : sub0.src ≠ i := by
          intro he; simp [hl, he] at hc
        rw [setAt_other _ _ _ _ hne]
        exact h.mirror sub0 hmem hl x
  | inherit i =>
    constructor
    · intro x
      simp only [DS.step, occ_append, occ, subCallback_sub, subCallback_count, applyBit_fst]
      have := h.count x
      simp [b2i] at this ⊢
      omega
    · intro x
      simp only [DS.step]
      exact subCallback_value _ _ _ _ _ x (h.value x)
    · intro sub hsub hl x
      simp only [DS.step, List.mem_append, List.mem_singleton, subCallback_sub] at hsub
      rcases hsub with hsub | rfl
      · exact h.mirror sub hsub hl x
      · simp [applyBit, DS.step]
  | unsub j =>
    obtain ⟨sub, hj, hlive⟩ := hw
    constructor
    · intro x
      simp only [DS.step, hj, memoGet_memoTable, inheritBit_fst, occ_set _ _ _ _ _ hj, hlive]
      have := h.count x
      simp [b2i] at this ⊢
      omega
    · intro x
      simp only [DS.step, hj, memoGet_memoTable]
      exact inheritBit_snd _ _ _ _ (h.value x)
    · intro sub' hsub hl x
      simp only [DS.step, hj] at hsub ⊢
      rcases List.mem_or_eq_of_mem_set hsub with hm | rfl
      · exact h.mirror sub' hm hl x
      · simp at hl

theorem DS.inv_run (s : DS) (ops : List DSOp) (h : s.Inv) (hw : s.wfRun ops) : (s.run ops).Inv := by
  induction ops generalizing s with
  | nil => exact h
  | cons op ops ih => exact ih _ (DS.inv_step s op h hw.1) hw.2

/-- In a state satisfying the invariant the derived set is the union of the live sources. -/
theorem DS.value_iff_union (s : DS) (h : s.Inv) (x : Nat) : s.value x = true ↔ s.union x := by
  rw [h.value x, h.count x, decide_eq_true_iff, occ_pos_iff]
  constructor
  · rintro ⟨sub, hm, hl, hx⟩
    exact ⟨sub, hm, hl, by rw [← h.mirror sub hm hl x]; exact hx⟩
  · rintro ⟨sub, hm, hl, hx⟩
    exact ⟨sub, hm, hl, by rw [h.mirror sub hm hl x]; exact hx⟩

/-! ## SubtractReactive -/

theorem report_delta (op : SrcOp) (m : Nat → Bool) (x : Nat) :
    b2i (op.newMem m x) - b2i (m x) = b2i (op.repAdded m x) - b2i (op.repDeleted m x) := by
  cases op with
  | apply A D =>
    simp only [SrcOp.repAdded, SrcOp.repDeleted, SrcOp.newMem]
    exact mirror_delta _ _ _
  | replace X =>
    simp only [SrcOp.repAdded, SrcOp.repDeleted, SrcOp.newMem]
    cases m x <;> cases X.contains x <;> simp

/-- In how many of the subtracted sets `x` occurs. -/
def osum (mem : Nat → Nat → Bool) : List Nat → Nat → Int
  | [], _ => 0
  | o :: r, x => b2i (mem o x) + osum mem r x

theorem osum_nonneg (mem : Nat → Nat → Bool) (os : List Nat) (x : Nat) : 0 ≤ osum mem os x := by
  induction os with
  | nil => simp [osum]
  | cons o r ih => simp only [osum, b2i]; split <;> omega

theorem osum_zero_iff (mem : Nat → Nat → Bool) (os : List Nat) (x : Nat) :
    osum mem os x = 0 ↔ os.all (fun o => !mem o x) = true := by
  induction os with
  | nil => simp [osum]
  | cons o r ih =>
    have := osum_nonneg mem r x
    simp only [osum, List.all_cons, Bool.and_eq_true, ← ih]
    cases mem o x <;> simp [b2i] <;> omega

theorem srDeliverOthers_count (mem : Nat → Nat → Bool) (i : Nat) (newm ra rd : Nat → Bool) (x : Nat)
    (hd : b2i (newm x) - b2i (mem i x) = b2i (ra x) - b2i (rd x))
    (os : List Nat) (c : Nat → Int) (v : Nat → Bool) :
    (srDeliverOthers i ra rd os c v).1 x + osum (setAt mem i newm) os x = c x + osum mem os x := by
  induction os generalizing c v with
  | nil => simp [srDeliverOthers, osum]
  | cons o r ih =>
    simp only [srDeliverOthers, osum]
    split
    · rename_i h
      have ho : o = i := by simpa using h
      subst ho
      have := ih (fun y => (subtractBit (c y) (v y) (ra y) (rd y)).1) (fun y => (subtractBit (c y) (v y) (ra y) (rd y)).2)
      simp only [memoGet_memoTable, subtractBit_fst, setAt_same] at this ⊢
      omega
    · rename_i h
      have ho : o ≠ i := by simpa using h
      have := ih c v
      rw [setAt_other _ _ _ _ ho]
      omega

theorem srDeliverOthers_value (i : Nat) (ra rd : Nat → Bool) (os : List Nat) (c : Nat → Int) (v : Nat → Bool)
    (hv : ∀ x, v x = decide (c x ≥ 1)) (x : Nat) :
    (srDeliverOthers i ra rd os c v).2 x = decide ((srDeliverOthers i ra rd os c v).1 x ≥ 1) := by
  induction os generalizing c v with
  | nil => simpa [srDeliverOthers] using hv x
  | cons o r ih =>
    simp only [srDeliverOthers]
    split
    · apply ih
      intro y
      simp only [memoGet_memoTable]
      exact subtractBit_snd _ _ _ _ (hv y)
    · exact ih c v hv

theorem srInitOthers_count (mem : Nat → Nat → Bool) (os : List Nat) (c : Nat → Int) (v : Nat → Bool) (x : Nat) :
    (srInitOthers mem os c v).1 x + osum mem os x = c x := by
  induction os generalizing c v with
  | nil => simp [srInitOthers, osum]
  | cons o r ih =>
    simp only [srInitOthers, osum]
    have := ih (fun y => (subtractBit (c y) (v y) (mem o y) false).1) (fun y => (subtractBit (c y) (v y) (mem o y) false).2)
    simp only [memoGet_memoTable, subtractBit_fst, b2i_false] at this ⊢
    omega

theorem srInitOthers_value (mem : Nat → Nat → Bool) (os : List Nat) (c : Nat → Int) (v : Nat → Bool)
    (hv : ∀ x, v x = decide (c x ≥ 1)) (x : Nat) :
    (srInitOthers mem os c v).2 x = decide ((srInitOthers mem os c v).1 x ≥ 1) := by
  induction os generalizing c v with
  | nil => simpa [srInitOthers] using hv x
  | cons o r ih =>
    simp only [srInitOthers]
    apply ih
    intro y
    simp only [memoGet_memoTable]
    exact subtractBit_snd _ _ _ _ (hv y)

structure SR.Inv (s : SR) : Prop where
  count : s.created = true → ∀ x, s.count x + osum s.mem s.others x = b2i (s.mem s.src x)
  value : ∀ x, s.value x = decide (s.count x ≥ 1)
  fresh : s.created = false → ∀ x, s.count x = 0

theorem SR.inv_init : SR.init.Inv := by
  constructor <;> simp [SR.init]

theorem SR.inv_step (s : SR) (op : SROp) (h : s.Inv) : (s.step op).Inv := by
  cases op with
  | write i op =>
    simp only [SR.step]
    cases hc : s.created with
    | false =>
      simp only [Bool.false_eq_true, if_false]
      exact ⟨by simp, h.value, fun _ => h.fresh hc⟩
    | true =>
      simp only [if_true]
      have hd := fun x => report_delta op (s.mem i) x
      refine ⟨fun _ x => ?_, fun x => ?_, by simp⟩
      · simp only [srDeliver, memoGet_memoTable]
        have hcnt := h.count hc x
        split
        · rename_i hs
          have hs' : s.src = i := by simpa using hs
          have := srDeliverOthers_count s.mem i (fun y => op.newMem (s.mem i) y) (op.repAdded (s.mem i)) (op.repDeleted (s.mem i)) x (hd x) s.others
            (fun y => (inheritBit (s.count y) (s.value y) (op.repAdded (s.mem i) y) (op.repDeleted (s.mem i) y)).1)
            (fun y => (inheritBit (s.count y) (s.value y) (op.repAdded (s.mem i) y) (op.repDeleted (s.mem i) y)).2)
          have hc1 := inheritBit_fst (s.count x) (s.value x) (op.repAdded (s.mem i) x) (op.repDeleted (s.mem i) x)
          have hdx := hd x
          rw [hs'] at hcnt ⊢
          rw [setAt_same]
          omega
        · rename_i hs
          have hs' : s.src ≠ i := by simpa using hs
          have := srDeliverOthers_count s.mem i (fun y => op.newMem (s.mem i) y) (op.repAdded (s.mem i)) (op.repDeleted (s.mem i)) x (hd x) s.others s.count s.value
          rw [setAt_other _ _ _ _ hs']
          omega
      · simp only [srDeliver, memoGet_memoTable]
        split
        · apply srDeliverOthers_value
          intro y
          exact inheritBit_snd _ _ _ _ (h.value y)
        · exact srDeliverOthers_value _ _ _ _ _ _ h.value x
  | create src others =>
    simp only [SR.step]
    cases hc : s.created with
    | true => simpa [hc] using h
    | false =>
      simp only [Bool.false_eq_true, if_false]
      refine ⟨fun _ x => ?_, fun x => ?_, by simp⟩
      · have := srInitOthers_count s.mem others (fun y => (inheritBit 0 false (s.mem src y) false).1)
          (fun y => (inheritBit 0 false (s.mem src y) false).2) x
        simp only [inheritBit_fst, b2i_false, memoGet_memoTable] at this ⊢
        omega
      · simp only [memoGet_memoTable]
        apply srInitOthers_value
        intro y
        exact inheritBit_snd _ _ _ _ (by simp)

theorem SR.inv_run (s : SR) (ops : List SROp) (h : s.Inv) : (s.run ops).Inv := by
  induction ops generalizing s with
  | nil => exact h
  | cons op ops ih => exact ih _ (SR.inv_step s op h)

theorem SR.value_eq_diff (s : SR) (h : s.Inv) (hc : s.created = true) (x : Nat) : s.value x = s.diff x := by
  have hcnt := h.count hc x
  have hn := osum_nonneg s.mem s.others x
  have hz := osum_zero_iff s.mem s.others x
  rw [h.value x, SR.diff]
  cases hm : s.mem s.src x <;> cases ha : s.others.all (fun o => !s.mem o x) <;>
    simp [hm, ha, b2i] at hcnt hz ⊢ <;> omega

end Hive.Derived
