import Hive.Gen.C06_StoreCode
import Hive.Model.TypedStoreCode
/-!
# The regenerated point methods of `TypedStore` equal the hand-written model (C06)
-/
namespace Hive.Typed.SCode
open Hive.Gen.C06StoreCode

variable {K V : Type} [Inhabited K] [Inhabited V]

macro "scode_eval" : tactic => `(tactic|
  simp [sexecOp, sexecPass, sprog, sexec, sstart, sfinish, soutOf, evalSE, serrW, SM.setY, SM.setV, SM.setE, SM.log,
    SEV.isNil, SEV.isNotFound, SEV.kind, sget, shas, sset, sdelete, sdeletePrefix, sclear, *])

theorem scode_get (w : Bool) (KC : Codec K) (VC : Codec V) (m : Store) (k : K) (F : SFaults) :
    sexecOp w sprog KC VC m (.get k) F = sget KC VC m k F := by
  simp only [sexecOp, sprog, code_Get]
  cases hk : encKF KC F k with
  | none => scode_eval
  | some kb =>
    cases hf : F.kv1 with
    | true => cases w <;> scode_eval
    | false =>
      cases hg : m.get kb with
      | none => cases w <;> scode_eval
      | some vb => cases hd : decAt VC F 0 vb <;> scode_eval

theorem scode_has (w : Bool) (KC : Codec K) (VC : Codec V) (m : Store) (k : K) (F : SFaults) :
    sexecOp w sprog KC VC m (.has k) F = shas KC m k F := by
  simp only [sexecOp, sprog, code_Has]
  cases hk : encKF KC F k with
  | none => scode_eval
  | some kb => cases hf : F.kv1 <;> cases w <;> scode_eval

theorem scode_set (w : Bool) (KC : Codec K) (VC : Codec V) (m : Store) (k : K) (v : V) (F : SFaults) :
    sexecOp w sprog KC VC m (.set k v) F = sset KC VC m k v F := by
  simp only [sexecOp, sprog, code_Set]
  cases hk : encKF KC F k with
  | none => scode_eval
  | some kb =>
    cases hv : encVF VC F v with
    | none => scode_eval
    | some vb => cases hf : F.kv1 <;> cases w <;> scode_eval

theorem scode_delete (w : Bool) (KC : Codec K) (VC : Codec V) (m : Store) (k : K) (F : SFaults) :
    sexecOp w sprog KC VC m (.delete k) F = sdelete KC m k F := by
  simp only [sexecOp, sprog, code_Delete]
  cases hk : encKF KC F k with
  | none => scode_eval
  | some kb => cases hf : F.kv1 <;> cases w <;> scode_eval

theorem bulkDelete_err (m : Store) (p : Bytes × Bytes → Bool) (full : Store) (F : SFaults) (st : Store) (e : SErr)
    (h : bulkDelete m p full F = (st, some e)) : e = .kv := by
  unfold bulkDelete at h
  split at h
  · simp at h; exact h.2.symm
  · split at h
    · split at h <;> simp at h; exact h.2.symm
    · simp at h

theorem scode_deletePrefix (w : Bool) (KC : Codec K) (VC : Codec V) (m : Store) (pfx : Bytes) (F : SFaults) :
    sexecPass w KC VC sprog.deletePrefix m pfx F = sdeletePrefix m pfx F := by
  simp only [sprog, code_DeletePrefix, sexecPass, sexec, sstart, sdeletePrefix]
  cases hb : bulkDelete m (fun e => pfx.isPrefixOf e.1) (m.deletePrefix pfx) F with
  | mk st o =>
    cases o with
    | none => simp [SEV.isNil]
    | some e => have := bulkDelete_err _ _ _ _ _ _ hb; subst this; cases w <;> simp [serrW, SEV.isNil, SEV.kind]

theorem scode_clear (w : Bool) (KC : Codec K) (VC : Codec V) (m : Store) (pfx : Bytes) (F : SFaults) :
    sexecPass w KC VC sprog.clear m pfx F = sclear m F := by
  simp only [sprog, code_Clear, sexecPass, sexec, sstart, sclear]
  cases hb : bulkDelete m (fun _ => true) [] F with
  | mk st o =>
    cases o with
    | none => simp [SEV.isNil]
    | some e => have := bulkDelete_err _ _ _ _ _ _ hb; subst this; cases w <;> simp [serrW, SEV.isNil, SEV.kind]

/-! ## `Iterate`: the consumer closure, the store's loop, the error plumbing -/

/-- The consumer closure of the translated `Iterate`. -/
def consumerOf : SStmt → SStmt
  | .seq _ (.seq (.seq (.iter _ _ c _) _) _) => c
  | _ => .skip

/-- What one invocation of the consumer closure does, in terms of the two decode calls and the callback: `m2` is the
machine afterwards, `b` what the closure answers the store. -/
def ConsPost (KC : Codec K) (VC : Codec V) (F : SFaults) (stop inner : Nat) (m : SM K V) (kb vb : Bytes) (m2 : SM K V) (b : Bool) : Prop :=
  m2.st = m.st ∧
  match decAt KC F m.ndec kb with
  | none => b = false ∧ m2.acc = m.acc ∧ m2.tr = m.tr ++ [⟨.decK, .fail⟩] ∧ m2.e inner = .inj .decK ∧ m2.ndec = m.ndec + 1
  | some k =>
    match decAt VC F (m.ndec + 1) vb with
    | none => b = false ∧ m2.acc = m.acc ∧ m2.tr = m.tr ++ [⟨.decK, .ok⟩, ⟨.decV, .fail⟩] ∧ m2.e inner = .inj .decV ∧
        m2.ndec = m.ndec + 2
    | some v =>
      m2.acc = m.acc ++ [(k, v)] ∧ (m2.e inner).isNil = true ∧ m2.ndec = m.ndec + 2 ∧
      (if (m.acc ++ [(k, v)]).length = stop then b = false ∧ m2.tr = m.tr ++ [⟨.decK, .ok⟩, ⟨.decV, .ok⟩, ⟨.cb, .nc⟩]
       else b = true ∧ m2.tr = m.tr ++ [⟨.decK, .ok⟩, ⟨.decV, .ok⟩, ⟨.cb, .ok⟩])

def ConsSpec (run : SM K V → SOutc K V) (KC : Codec K) (VC : Codec V) (F : SFaults) (stop kp vp inner : Nat) : Prop :=
  ∀ (m : SM K V) (kb vb : Bytes), (m.e inner).isNil = true →
    match run ((m.setY kp kb).setY vp vb) with
    | .done m2 (.adv b) => ConsPost KC VC F stop inner m kb vb m2 b
    | _ => False

/-- The translated closure satisfies that description (variables: 3 = `innerErr`, 4 / 5 = the closure's `key` / `value`). -/
theorem consumer_spec (w : Bool) (KC : Codec K) (VC : Codec V) (F : SFaults) (key : K) (value : V) (pfx : Bytes) (bwd : Bool) (stop : Nat) :
    ConsSpec (sexec KC VC F w key value pfx bwd stop (consumerOf sprog.iterate)) KC VC F stop 4 5 3 := by
  intro m kb vb hnil
  simp only [sprog, code_Iterate, consumerOf, ConsPost]
  cases hk : decAt KC F m.ndec kb with
  | none => simp [sexec, hk, SM.setY, SM.setK, SM.setE, SM.log, SEV.isNil, evalSE]
  | some k =>
    cases hv : decAt VC F (m.ndec + 1) vb with
    | none => simp [sexec, hk, hv, SM.setY, SM.setK, SM.setV, SM.setE, SM.log, SEV.isNil, evalSE]
    | some v =>
      by_cases hs : (m.acc ++ [(k, v)]).length = stop
      · simp [sexec, hk, hv, SM.setY, SM.setK, SM.setV, SM.setE, SM.log, SEV.isNil, evalSE]
        simp at hs
        simp [hs]
        simpa [SEV.isNil] using hnil
      · simp [sexec, hk, hv, SM.setY, SM.setK, SM.setV, SM.setE, SM.log, SEV.isNil, evalSE]
        simp at hs
        simp [hs]
        simpa [SEV.isNil] using hnil

/-- What the loop lemma tracks: raw store, delivered pairs, trace, and how the status of the hand-written loop is read off
the machine (`failed`: the store's own iteration failed; otherwise the closure's captured error variable). -/
structure LoopRel (m' : SM K V) (failed : Bool) (inner : Nat) (st : Store) (res : List (K × V) × Option SErr × List SEv) : Prop where
  st : m'.st = st
  acc : m'.acc = res.1
  tr : m'.tr = res.2.2
  status : res.2.1 = if failed then some .kv else (if (m'.e inner).isNil then none else some (m'.e inner).kind)

/-- The store's iteration with a closure that meets `ConsSpec` is the hand-written `iterLoop` over the per-entry decode
results. -/
theorem iterLoopC_eq (run : SM K V → SOutc K V) (KC : Codec K) (VC : Codec V) (F : SFaults) (stop kp vp inner : Nat)
    (hrun : ConsSpec run KC VC F stop kp vp inner) :
    ∀ (es : List (Bytes × Bytes)) (n : Nat) (m : SM K V), m.ndec = 2 * n → (m.e inner).isNil = true →
      LoopRel (iterLoopC run F.kvAfter kp vp es n m).1 (iterLoopC run F.kvAfter kp vp es n m).2 inner m.st
        (iterLoop F.kvAfter stop (mapIdxFrom (decEntry KC VC F) n es) n m.acc m.tr) := by
  intro es
  induction es with
  | nil =>
    intro n m _ hnil
    simp only [iterLoopC, mapIdxFrom, iterLoop]
    exact ⟨rfl, rfl, rfl, by simp [SM.log, hnil]⟩
  | cons e rest ih =>
    intro n m hnd hnil
    simp only [iterLoopC, mapIdxFrom, iterLoop]
    by_cases hkv : F.kvAfter = some n
    · simp only [hkv, if_true]
      exact ⟨rfl, rfl, rfl, by simp⟩
    · simp only [hkv, if_false]
      have h := hrun m e.1 e.2 hnil
      cases hr : run ((m.setY kp e.1).setY vp e.2) with
      | cont m2 => simp [hr] at h
      | done m2 r =>
        cases r with
        | v x e' => simp [hr] at h
        | b x e' => simp [hr] at h
        | e e' => simp [hr] at h
        | adv b =>
          simp only [hr] at h
          obtain ⟨hst, hpost⟩ := h
          simp only [decEntry, ← hnd]
          cases hk : decAt KC F m.ndec e.1 with
          | none =>
            simp only [hk] at hpost
            obtain ⟨rfl, hacc, htr, hinn, _⟩ := hpost
            simp only
            exact ⟨hst, by simp [SM.log, hacc], by simp [SM.log, htr], by simp [SM.log, hinn, SEV.isNil, SEV.kind]⟩
          | some k =>
            simp only [hk] at hpost
            cases hv : decAt VC F (m.ndec + 1) e.2 with
            | none =>
              simp only [hv] at hpost
              obtain ⟨rfl, hacc, htr, hinn, _⟩ := hpost
              simp only
              exact ⟨hst, by simp [SM.log, hacc], by simp [SM.log, htr], by simp [SM.log, hinn, SEV.isNil, SEV.kind]⟩
            | some v =>
              simp only [hv] at hpost
              obtain ⟨hacc, hinn, hnd2, hif⟩ := hpost
              simp only
              by_cases hs : (m.acc ++ [(k, v)]).length = stop
              · simp only [hs, if_true] at hif ⊢
                obtain ⟨rfl, htr⟩ := hif
                simp only
                exact ⟨hst, by simp [SM.log, hacc], by simp [SM.log, htr], by simp [SM.log, hinn]⟩
              · simp only [hs, if_false] at hif ⊢
                obtain ⟨rfl, htr⟩ := hif
                simp only
                have hih := ih (n + 1) m2 (by omega) hinn
                rw [hacc, htr, hst] at hih
                exact hih

/-- The error plumbing around the store's iteration, for any consumer closure `c` that meets `ConsSpec` (kept abstract so
that symbolic evaluation does not enter it). -/
theorem iterate_outer (w : Bool) (KC : Codec K) (VC : Codec V) (m : Store) (pfx : Bytes) (bwd : Bool) (stop : Nat) (F : SFaults)
    (c : SStmt) (msg : String)
    (hc : ConsSpec (sexec KC VC F w (default : K) (default : V) pfx bwd stop c) KC VC F stop 4 5 3) :
    sfinishIter (sexec KC VC F w (default : K) (default : V) pfx bwd stop
      (.seq .skip (.seq (.seq (.iter 4 5 c 10) (.ifErr 10 (.retE (.wrap (.var 10) msg)))) (.retE (.var 3)))) (sstart m)) =
      siterate KC VC m pfx bwd stop F := by
  simp only [siterate]
  cases hf : F.kv1 with
  | true => cases w <;> simp [sexec, sstart, sfinishIter, evalSE, serrW, SM.setE, SM.log, SEV.isNil, SEV.kind, hf]
  | false =>
    have hl := iterLoopC_eq _ KC VC F stop 4 5 3 hc ((sstart m : SM K V).st.entries pfx bwd) 0 (sstart m) rfl rfl
    simp only [sstart] at hl
    simp only [sexec, hf, Bool.false_eq_true, if_false, sstart]
    generalize iterLoopC (sexec KC VC F w (default : K) (default : V) pfx bwd stop c) F.kvAfter 4 5 (Store.entries m pfx bwd) 0
      { st := m, y := fun _ => [], v := fun _ => default, kk := fun _ => default, e := fun _ => SEV.nil, tr := [], ndec := 0, acc := [] } = r at hl ⊢
    obtain ⟨r1, failed⟩ := r
    obtain ⟨hst, hacc, htr, hstatus⟩ := hl
    simp only at hst hacc htr hstatus
    cases failed with
    | true =>
      simp only [if_true] at hstatus
      cases w <;> simp [sfinishIter, evalSE, serrW, SM.setE, SEV.isNil, SEV.kind, hst, hacc, htr, hstatus]
    | false =>
      simp only [Bool.false_eq_true, if_false] at hstatus
      cases hn : (r1.e 3).isNil <;> simp [sfinishIter, evalSE, SM.setE, SEV.isNil, hst, hacc, htr, hstatus, hn]

/-- The translated `Iterate` is the model's `siterate`. -/
theorem scode_iterate (w : Bool) (KC : Codec K) (VC : Codec V) (m : Store) (pfx : Bytes) (bwd : Bool) (stop : Nat) (F : SFaults) :
    sexecOp w sprog KC VC m (.iterate pfx bwd stop) F = siterate KC VC m pfx bwd stop F := by
  have hshape : sprog.iterate = .seq .skip (.seq (.seq (.iter 4 5 (consumerOf sprog.iterate) 10)
      (.ifErr 10 (.retE (.wrap (.var 10) "failed to iterate over KV store")))) (.retE (.var 3))) := rfl
  simp only [sexecOp]
  rw [hshape]
  exact iterate_outer w KC VC m pfx bwd stop F _ _ (consumer_spec w KC VC F default default pfx bwd stop)

/-! ## `IterateKeys`: the same with a one-argument closure, at `V := Unit` -/

def consumerKeysOf : SStmt → SStmt
  | .seq _ (.seq (.seq (.iterKeys _ c _) _) _) => c
  | _ => .skip

def notDecV (e : SEv) : Bool := e.call != .decV

def ConsPostK (KC : Codec K) (F : SFaults) (stop inner : Nat) (m : SM K Unit) (kb : Bytes) (m2 : SM K Unit) (b : Bool) : Prop :=
  m2.st = m.st ∧
  match decAt KC F m.ndec kb with
  | none => b = false ∧ m2.acc = m.acc ∧ m2.tr = m.tr ++ [⟨.decK, .fail⟩] ∧ m2.e inner = .inj .decK ∧ m2.ndec = m.ndec + 1
  | some k =>
    m2.acc = m.acc ++ [(k, ())] ∧ (m2.e inner).isNil = true ∧ m2.ndec = m.ndec + 1 ∧
    (if (m.acc ++ [(k, ())]).length = stop then b = false ∧ m2.tr = m.tr ++ [⟨.decK, .ok⟩, ⟨.cb, .nc⟩]
     else b = true ∧ m2.tr = m.tr ++ [⟨.decK, .ok⟩, ⟨.cb, .ok⟩])

def ConsSpecK (run : SM K Unit → SOutc K Unit) (KC : Codec K) (F : SFaults) (stop kp inner : Nat) : Prop :=
  ∀ (m : SM K Unit) (kb vb : Bytes), (m.e inner).isNil = true →
    match run ((m.setY kp kb).setY 0 vb) with
    | .done m2 (.adv b) => ConsPostK KC F stop inner m kb m2 b
    | _ => False

theorem consumerKeys_spec (w : Bool) (KC : Codec K) (VC : Codec Unit) (F : SFaults) (key : K) (pfx : Bytes) (bwd : Bool) (stop : Nat) :
    ConsSpecK (sexec KC VC F w key () pfx bwd stop (consumerKeysOf sprog.iterateKeys)) KC F stop 4 3 := by
  intro m kb vb hnil
  simp only [sprog, code_IterateKeys, consumerKeysOf, ConsPostK]
  cases hk : decAt KC F m.ndec kb with
  | none => simp [sexec, hk, SM.setY, SM.setK, SM.setE, SM.log, SEV.isNil, evalSE]
  | some k =>
    by_cases hs : (m.acc ++ [(k, ())]).length = stop
    · simp [sexec, hk, SM.setY, SM.setK, SM.setE, SM.log, SEV.isNil, evalSE]
      simp at hs
      simp [hs]
      simpa [SEV.isNil] using hnil
    · simp [sexec, hk, SM.setY, SM.setK, SM.setE, SM.log, SEV.isNil, evalSE]
      simp at hs
      simp [hs]
      simpa [SEV.isNil] using hnil

theorem filt_ok_cb : ([⟨.decK, .ok⟩, ⟨.decV, .ok⟩, ⟨.cb, .ok⟩] : List SEv).filter notDecV = [⟨.decK, .ok⟩, ⟨.cb, .ok⟩] := by decide
theorem filt_ok_nc : ([⟨.decK, .ok⟩, ⟨.decV, .ok⟩, ⟨.cb, .nc⟩, ⟨.kvIter, .ok⟩] : List SEv).filter notDecV =
    [⟨.decK, .ok⟩, ⟨.cb, .nc⟩, ⟨.kvIter, .ok⟩] := by decide
theorem filt_fail : ([⟨.decK, .fail⟩, ⟨.kvIter, .ok⟩] : List SEv).filter notDecV = [⟨.decK, .fail⟩, ⟨.kvIter, .ok⟩] := by decide
theorem filt_it (r : CallRes) : ([⟨.kvIter, r⟩] : List SEv).filter notDecV = [⟨.kvIter, r⟩] := by cases r <;> decide

/-- Like `LoopRel`, against the hand-written key loop whose trace drops the value-decode events of the shared `iterLoop`. -/
structure LoopRelK (m' : SM K Unit) (failed : Bool) (inner : Nat) (st : Store) (res : List (K × Unit) × Option SErr × List SEv) : Prop where
  st : m'.st = st
  acc : m'.acc = res.1
  tr : m'.tr = res.2.2.filter notDecV
  status : res.2.1 = if failed then some .kv else (if (m'.e inner).isNil then none else some (m'.e inner).kind)

theorem iterLoopC_eq_keys (run : SM K Unit → SOutc K Unit) (KC : Codec K) (F : SFaults) (stop kp inner : Nat)
    (hrun : ConsSpecK run KC F stop kp inner) :
    ∀ (es : List (Bytes × Bytes)) (n : Nat) (m : SM K Unit) (tr : List SEv), m.ndec = n → (m.e inner).isNil = true →
      m.tr = tr.filter notDecV →
      LoopRelK (iterLoopC run F.kvAfter kp 0 es n m).1 (iterLoopC run F.kvAfter kp 0 es n m).2 inner m.st
        (iterLoop F.kvAfter stop (mapIdxFrom (decKeyEntry KC F) n es) n m.acc tr) := by
  intro es
  induction es with
  | nil =>
    intro n m tr _ hnil htr0
    simp only [iterLoopC, mapIdxFrom, iterLoop]
    exact ⟨rfl, rfl, by simp only [SM.log, htr0, List.filter_append, filt_it], by simp [SM.log, hnil]⟩
  | cons e rest ih =>
    intro n m tr hnd hnil htr0
    subst hnd
    simp only [iterLoopC, mapIdxFrom, iterLoop]
    by_cases hkv : F.kvAfter = some m.ndec
    · simp only [hkv, if_true]
      exact ⟨rfl, rfl, by simp only [SM.log, htr0, List.filter_append, filt_it], by simp⟩
    · simp only [hkv, if_false]
      have h := hrun m e.1 e.2 hnil
      cases hr : run ((m.setY kp e.1).setY 0 e.2) with
      | cont m2 => simp [hr] at h
      | done m2 r =>
        cases r with
        | v x e' => simp [hr] at h
        | b x e' => simp [hr] at h
        | e e' => simp [hr] at h
        | adv b =>
          simp only [hr] at h
          obtain ⟨hst, hpost⟩ := h
          simp only [decKeyEntry]
          cases hk : decAt KC F m.ndec e.1 with
          | none =>
            simp only [hk] at hpost
            obtain ⟨rfl, hacc, htr, hinn, _⟩ := hpost
            simp only
            exact ⟨hst, by simp [SM.log, hacc],
              by simp only [SM.log, htr, htr0, List.filter_append, filt_fail, List.append_assoc, List.cons_append, List.nil_append],
              by simp [SM.log, hinn, SEV.isNil, SEV.kind]⟩
          | some k =>
            simp only [hk] at hpost
            obtain ⟨hacc, hinn, hnd2, hif⟩ := hpost
            simp only
            by_cases hs : (m.acc ++ [(k, ())]).length = stop
            · simp only [hs, if_true] at hif ⊢
              obtain ⟨rfl, htr⟩ := hif
              simp only
              exact ⟨hst, by simp [SM.log, hacc],
                by simp only [SM.log, htr, htr0, List.filter_append, filt_ok_nc, List.append_assoc, List.cons_append, List.nil_append],
                by simp [SM.log, hinn]⟩
            · simp only [hs, if_false] at hif ⊢
              obtain ⟨rfl, htr⟩ := hif
              simp only
              have hih := ih (m.ndec + 1) m2 (tr ++ [⟨.decK, .ok⟩, ⟨.decV, .ok⟩, ⟨.cb, .ok⟩]) hnd2 hinn
                (by simp only [htr, htr0, List.filter_append, filt_ok_cb])
              rw [hacc, hst] at hih
              exact hih

theorem iterateKeys_outer (w : Bool) (KC : Codec K) (VC : Codec Unit) (m : Store) (pfx : Bytes) (bwd : Bool) (stop : Nat) (F : SFaults)
    (c : SStmt) (msg : String)
    (hc : ConsSpecK (sexec KC VC F w (default : K) () pfx bwd stop c) KC F stop 4 3) :
    sfinishIter (sexec KC VC F w (default : K) () pfx bwd stop
      (.seq .skip (.seq (.seq (.iterKeys 4 c 7) (.ifErr 7 (.retE (.wrap (.var 7) msg)))) (.retE (.var 3)))) (sstart m)) =
      siterateKeys KC m pfx bwd stop F := by
  simp only [siterateKeys]
  cases hf : F.kv1 with
  | true => cases w <;> simp [sexec, sstart, sfinishIter, evalSE, serrW, SM.setE, SM.log, SEV.isNil, SEV.kind, hf]
  | false =>
    have hl := iterLoopC_eq_keys _ KC F stop 4 3 hc ((sstart m : SM K Unit).st.entries pfx bwd) 0 (sstart m) [] rfl rfl rfl
    simp only [sstart] at hl
    simp only [sexec, hf, Bool.false_eq_true, if_false, sstart]
    generalize iterLoopC (sexec KC VC F w (default : K) () pfx bwd stop c) F.kvAfter 4 0 (Store.entries m pfx bwd) 0
      { st := m, y := fun _ => [], v := fun _ => default, kk := fun _ => default, e := fun _ => SEV.nil, tr := [], ndec := 0, acc := [] } = r at hl ⊢
    obtain ⟨r1, failed⟩ := r
    obtain ⟨hst, hacc, htr, hstatus⟩ := hl
    simp only at hst hacc htr hstatus
    have hfilter : ∀ l : List SEv, l.filter notDecV = l.filter (fun e => e.call != .decV) := fun _ => rfl
    cases failed with
    | true =>
      simp only [if_true] at hstatus
      cases w <;> simp [sfinishIter, evalSE, serrW, SM.setE, SEV.isNil, SEV.kind, hst, hacc, htr, hstatus, hfilter]
    | false =>
      simp only [Bool.false_eq_true, if_false] at hstatus
      cases hn : (r1.e 3).isNil <;> simp [sfinishIter, evalSE, SM.setE, SEV.isNil, hst, hacc, htr, hstatus, hn, hfilter]

/-- The translated `IterateKeys` is the model's `siterateKeys`. -/
theorem scode_iterateKeys (w : Bool) (KC : Codec K) (m : Store) (pfx : Bytes) (bwd : Bool) (stop : Nat) (F : SFaults) :
    sexecKeys w sprog KC m pfx bwd stop F = siterateKeys KC m pfx bwd stop F := by
  have hshape : sprog.iterateKeys = .seq .skip (.seq (.seq (.iterKeys 4 (consumerKeysOf sprog.iterateKeys) 7)
      (.ifErr 7 (.retE (.wrap (.var 7) "failed to iterate keys over KV store")))) (.retE (.var 3))) := rfl
  simp only [sexecKeys]
  rw [hshape]
  exact iterateKeys_outer w KC _ m pfx bwd stop F _ _ (consumerKeys_spec w KC _ F default pfx bwd stop)

/-- Every operation of the translated code is the model's `sstep`. -/
theorem sexecOp_eq_sstep (w : Bool) (KC : Codec K) (VC : Codec V) (m : Store) (op : SOp K V) (F : SFaults) :
    sexecOp w sprog KC VC m op F = sstep KC VC m op F := by
  cases op with
  | get k => exact scode_get w KC VC m k F
  | has k => exact scode_has w KC VC m k F
  | set k v => exact scode_set w KC VC m k v F
  | delete k => exact scode_delete w KC VC m k F
  | iterate p b s => exact scode_iterate w KC VC m p b s F

end Hive.Typed.SCode
