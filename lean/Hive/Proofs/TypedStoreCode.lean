import Hive.Gen.C06_StoreCode
import Hive.Model.TypedStoreCode
/-!
# The regenerated point methods of `TypedStore` equal the hand-written model (C06)
-/
namespace Hive.Typed.SCode
open Hive.Gen.C06StoreCode

variable {K V : Type} [Inhabited K] [Inhabited V]

macro "scode_eval" : tactic => `(tactic|
  simp [sexecOp, sexecPass, sprog, sexec, sstart, sfinish, soutOf, evalSE, serrW, SM.setY, SM.setV, SM.setE, SM.log,
    SEV.isNil, SEV.isNotFound, SEV.kind, sget, shas, sset, sdelete, sdeletePrefix, sclear, *])

theorem scode_get (w : Bool) (KC : Codec K) (VC : Codec V) (m : Store) (k : K) (F : SFaults) :
    sexecOp w sprog KC VC m (.get k) F = some (sget KC VC m k F) := by
  simp only [sexecOp, sprog, code_Get]
  cases hk : encKF KC F k with
  | none => scode_eval
  | some kb =>
    cases hf : F.kv1 with
    | true => cases w <;> scode_eval
    | false =>
      cases hg : m.get kb with
      | none => cases w <;> scode_eval
      | some vb => cases hd : decAt VC F 0 vb <;> scode_eval

theorem scode_has (w : Bool) (KC : Codec K) (VC : Codec V) (m : Store) (k : K) (F : SFaults) :
    sexecOp w sprog KC VC m (.has k) F = some (shas KC m k F) := by
  simp only [sexecOp, sprog, code_Has]
  cases hk : encKF KC F k with
  | none => scode_eval
  | some kb => cases hf : F.kv1 <;> cases w <;> scode_eval

theorem scode_set (w : Bool) (KC : Codec K) (VC : Codec V) (m : Store) (k : K) (v : V) (F : SFaults) :
    sexecOp w sprog KC VC m (.set k v) F = some (sset KC VC m k v F) := by
  simp only [sexecOp, sprog, code_Set]
  cases hk : encKF KC F k with
  | none => scode_eval
  | some kb =>
    cases hv : encVF VC F v with
    | none => scode_eval
    | some vb => cases hf : F.kv1 <;> cases w <;> scode_eval

theorem scode_delete (w : Bool) (KC : Codec K) (VC : Codec V) (m : Store) (k : K) (F : SFaults) :
    sexecOp w sprog KC VC m (.delete k) F = some (sdelete KC m k F) := by
  simp only [sexecOp, sprog, code_Delete]
  cases hk : encKF KC F k with
  | none => scode_eval
  | some kb => cases hf : F.kv1 <;> cases w <;> scode_eval

theorem scode_deletePrefix (w : Bool) (KC : Codec K) (VC : Codec V) (m : Store) (pfx : Bytes) (F : SFaults) :
    sexecPass w KC VC sprog.deletePrefix m pfx F = sdeletePrefix m pfx F := by
  simp only [sprog, code_DeletePrefix]
  cases hf : F.kv1 <;> cases w <;> scode_eval

theorem scode_clear (w : Bool) (KC : Codec K) (VC : Codec V) (m : Store) (pfx : Bytes) (F : SFaults) :
    sexecPass w KC VC sprog.clear m pfx F = sclear m F := by
  simp only [sprog, code_Clear]
  cases hf : F.kv1 <;> cases w <;> scode_eval

/-- Every point operation of the translated code is the model's `sstep`. -/
theorem sexecOp_eq_sstep (w : Bool) (KC : Codec K) (VC : Codec V) (m : Store) (op : SOp K V) (F : SFaults) :
    match op with
    | .iterate _ _ _ => sexecOp w sprog KC VC m op F = none
    | _ => sexecOp w sprog KC VC m op F = some (sstep KC VC m op F) := by
  cases op with
  | get k => exact scode_get w KC VC m k F
  | has k => exact scode_has w KC VC m k F
  | set k v => exact scode_set w KC VC m k v F
  | delete k => exact scode_delete w KC VC m k F
  | iterate p b s => rfl

end Hive.Typed.SCode
