import Hive.Proofs.BatchWriterInv
/-!
# C08 proofs: the writer's flags are functions of its program counter

`fl` ("inside the flush part") and `again` ("this Commit is followed by a new collector") are the two locals of the
hand-written writer that stand for a return address.  In every reachable configuration they are determined by where
the writer is — which is what lets `Props/BatchWriterLoop.lean` identify every reachable writer state with an instruction
index of the program generated from the source.
-/
namespace Hive.BatchWriter
open Hive.Conc Hive.Spec.BatchWriter

/-- the flags agree with the program counter -/
def FlagsOk (s : St) : Prop :=
  match s.wpc with
  | .notStarted | .loopRun | .loopCnt | .sel | .wgDone | .exited => s.fl = false ∧ s.again = false
  | .fsel => s.fl = true ∧ s.again = false
  | .addReset | .addDec | .addWrite => s.again = false
  | .commit | .doneLoop => s.fl = false → s.again = false

set_option hygiene false in
theorem flagsOk_step {s s' : St} {t t' : Thread} (h : FlagsOk s) (hm : (s', t') ∈ step s t) : FlagsOk s' := by
  step_cases
  all_goals (
    (try simp only [FlagsOk, emit] at h ⊢) <;>
    (try (first
      | exact h
      | (split at h <;> simp_all; done)
      | (simp_all; done)
      | (cases hf : s.fl <;> cases ha : s.again <;> simp_all; done))))

theorem flagsOk_reach {q b : Nat} {c0 c : Cfg St Thread} (h0 : Init q b c0) (hr : Reach sys c0 c) : FlagsOk c.1 := by
  obtain ⟨s0, ts⟩ := c0
  obtain ⟨rfl, _, _⟩ := h0
  refine inv_of_step (fun c => FlagsOk c.1) ?_ ?_ hr
  · simp [FlagsOk, initSt]
  · intro s pre t post s' t' h hm
    exact flagsOk_step h hm

end Hive.BatchWriter
