import Hive.Proofs.WorkerPoolLive
/-!
# C16 — thread-level invariants of the WorkerPool model and the termination theorem's core

Who holds the pool lock, who is about to broadcast, who drives which `Submit`.
-/
set_option linter.unusedSimpArgs false
set_option linter.unusedVariables false
namespace Hive.WP
open Hive.Conc

def CPc.locked : CPc → Bool
  | .sdSend _ | .sdUnlockS | .sdUnlockN => true
  | _ => false
/-- the client owes a `Queue.SignalShutdown` -/
def CPc.bc : CPc → Bool
  | .sdSend _ | .sdUnlockS | .sdBcast => true
  | _ => false
def Thr.locked : Thr → Bool
  | .client c => c.pc.locked
  | .runner => false
def Thr.bc : Thr → Bool
  | .client c => c.pc.bc
  | .runner => false

/-- the fields that only client life-cycle steps write -/
def ctl (s : St) : Bool × Nat × Bool :=
  (s.writer, s.sent, s.running)

theorem ctl_setPhase (s : St) (t : Nat) (ph : Phase) : ctl (setPhase s t ph) = ctl s := by
  unfold setPhase; split <;> rfl
theorem ctl_setReturned (s : St) (t : Nat) : ctl (setReturned s t) = ctl s := by
  unfold setReturned; split <;> rfl

theorem submit_ctl {p : Params} {s : St} {t : Nat} {r : St × Bool} (hr : r ∈ submitStep p s t) :
    ctl r.1 = ctl s ∧ r.1.due = s.due := by
  unfold submitStep at hr
  split at hr
  · simp at hr
  · split at hr
    · simp at hr
    · split at hr
      · split at hr
        · simp at hr
        · split at hr <;> (simp at hr; subst hr)
          · constructor
            · show ctl (setPhase s t _) = _; exact ctl_setPhase s t _
            · show (setPhase s t _).due = _; unfold setPhase; split <;> rfl
          · exact ⟨ctl_setPhase s t _, by unfold setPhase; split <;> rfl⟩
      · simp at hr; subst hr; exact ⟨ctl_setReturned s t, by show (setReturned s t).due = _; unfold setReturned; split <;> rfl⟩
      · split at hr
        · simp at hr
        · simp at hr; subst hr; constructor
          · show ctl (setPhase s t _) = _; exact ctl_setPhase s t _
          · show (setPhase s t _).due = _; unfold setPhase; split <;> rfl
      · simp at hr; subst hr; exact ⟨ctl_setReturned s t, by show (setReturned s t).due = _; unfold setReturned; split <;> rfl⟩

theorem disp_ctl {p : Params} {s s' : St} (hs : s' ∈ dispStep p s) : ctl s' = ctl s ∧ s'.due = s.due := by
  have sp : ∀ t ph, ctl (setPhase s t ph) = ctl s ∧ (setPhase s t ph).due = s.due :=
    fun t ph => ⟨ctl_setPhase s t ph, by unfold setPhase; split <;> rfl⟩
  unfold dispStep at hs
  split at hs
  · simp at hs
  · split at hs <;> (simp at hs; try subst hs; try exact ⟨rfl, rfl⟩)
  · simp at hs; subst hs; exact ⟨rfl, rfl⟩
  · split at hs
    · simp at hs
    · unfold popOrCond at hs; split at hs
      · simp at hs; subst hs; exact ⟨rfl, rfl⟩
      · simp at hs; obtain ⟨t, _, rfl⟩ := hs; exact sp t _
  · split at hs <;> (simp at hs; try subst hs; try exact ⟨rfl, rfl⟩)
  · split at hs <;> (simp at hs; subst hs; exact ⟨rfl, rfl⟩)
  · simp at hs; subst hs; exact ⟨rfl, rfl⟩
  · split at hs
    · simp at hs
    · unfold popOrCond at hs; split at hs
      · simp at hs; subst hs; exact ⟨rfl, rfl⟩
      · simp at hs; obtain ⟨t, _, rfl⟩ := hs; exact sp t _
  · split at hs
    · simp at hs; subst hs; exact sp _ _
    · simp at hs
  · simp at hs; subst hs; exact ⟨rfl, rfl⟩

theorem w_ctl {p : Params} {s : St} {w : WPc} {r : St × WPc} (hr : r ∈ wStep p s w) (hd : w.isSignal = true → 0 < s.due) :
    ctl r.1 = ctl s ∧ r.1.due + b2n w.isSignal = s.due + b2n r.2.isSignal := by
  have sp : ∀ t ph, ctl (setPhase s t ph) = ctl s ∧ (setPhase s t ph).due = s.due :=
    fun t ph => ⟨ctl_setPhase s t ph, by unfold setPhase; split <;> rfl⟩
  cases w with
  | exited => simp [wStep] at hr
  | sel => simp only [wStep] at hr; split at hr <;> (simp at hr; subst hr; exact ⟨rfl, rfl⟩)
  | sel2 =>
    simp only [wStep, List.mem_append] at hr
    rcases hr with (hr | hr) | hr
    · split at hr
      · simp at hr; subst hr; exact ⟨rfl, rfl⟩
      · simp at hr
    · simp only [List.mem_map] at hr; obtain ⟨t, _, rfl⟩ := hr
      exact ⟨(sp t _).1, by simp [takeRun, WPc.isSignal, (sp t Phase.running).2]⟩
    · split at hr
      · simp at hr; subst hr; exact ⟨rfl, rfl⟩
      · simp at hr
  | drain =>
    simp only [wStep, List.mem_append] at hr
    rcases hr with hr | hr
    · simp only [List.mem_map] at hr; obtain ⟨t, _, rfl⟩ := hr
      split
      · exact ⟨(sp t _).1, by simp [WPc.isSignal, (sp t Phase.cancelling).2]⟩
      · exact ⟨(sp t _).1, by simp [takeRun, WPc.isSignal, (sp t Phase.running).2]⟩
    · split at hr
      · simp at hr; subst hr; exact ⟨rfl, rfl⟩
      · simp at hr
  | run t todo sub dr =>
    simp only [wStep] at hr
    cases sub with
    | some c =>
      simp only [List.mem_map] at hr
      obtain ⟨q, hq, rfl⟩ := hr
      obtain ⟨a, b⟩ := submit_ctl hq
      exact ⟨a, by simp [WPc.isSignal, b]⟩
    | none =>
      cases todo with
      | cons b rest => simp at hr; subst hr; exact ⟨rfl, rfl⟩
      | nil =>
        simp only at hr
        split at hr
        · simp at hr; subst hr; exact ⟨(sp t _).1, by simp [WPc.isSignal, (sp t Phase.ran).2]⟩
        · simp at hr
  | mark t dr =>
    simp only [wStep] at hr
    split at hr
    · simp at hr; subst hr; unfold markDone; split
      · exact ⟨(sp t _).1, by simp [WPc.isSignal, b2n, (sp t Phase.done).2]⟩
      · exact ⟨(sp t _).1, by cases dr <;> simp [WPc.isSignal, (sp t Phase.done).2]⟩
    · simp at hr; subst hr; unfold markDone; split
      · exact ⟨(sp t _).1, by simp [WPc.isSignal, b2n, (sp t Phase.cancelled).2]⟩
      · exact ⟨(sp t _).1, by simp [WPc.isSignal, (sp t Phase.cancelled).2]⟩
    · simp at hr
  | signal dr =>
    have := hd rfl
    simp only [wStep] at hr
    split at hr
    · simp at hr
    · simp at hr; subst hr
      refine ⟨rfl, ?_⟩
      cases dr <;> simp [WPc.isSignal, b2n] <;> omega



theorem no_signal_of_exited {s : St} (h : wg s = 0) : s.workers.countP WPc.isSignal = 0 := by
  rw [List.countP_eq_zero]; intro w hw
  have := all_exited_of_wg h w hw; cases w <;> simp [WPc.isExited] at this; simp [WPc.isSignal]

/-- Effect of a client step on the lock / owed-signal bookkeeping. -/
theorem client_delta {p : Params} {s : St} {c : Client} {r : St × Client} (hr : r ∈ clientStep p s c)
    (hl : c.pc.locked = true → s.writer = true) (hb : c.pc.bc = true → 0 < s.due) :
    b2n r.1.writer + b2n c.pc.locked = b2n s.writer + b2n r.2.pc.locked ∧
    r.1.due + b2n c.pc.bc = s.due + b2n r.2.pc.bc ∧
    r.1.workers.countP WPc.isSignal = s.workers.countP WPc.isSignal := by
  obtain ⟨pc, script⟩ := c
  cases pc
  case idle =>
    simp only [clientStep] at hr
    cases script with
    | nil => simp at hr
    | cons op rest => cases op <;> (simp at hr; subst hr) <;> simp [CPc.locked, CPc.bc, newTask, emit]
  case sub t =>
    simp only [clientStep, List.mem_map] at hr
    obtain ⟨q, hq, rfl⟩ := hr
    obtain ⟨a, b⟩ := submit_ctl hq
    simp only [ctl, Prod.mk.injEq] at a
    obtain ⟨a1, _⟩ := a
    have hw := pres_submitStep_workers hq
    cases q.2 <;> simp [a1, b, hw, CPc.locked, CPc.bc]
  case sd1 =>
    simp only [clientStep] at hr
    by_cases hw : s.writer = true
    · rw [if_pos hw] at hr; simp at hr
    · rw [if_neg hw] at hr
      by_cases hrun : s.running = true
      · rw [if_pos hrun] at hr; simp at hr; subst hr
        simp [CPc.locked, CPc.bc, b2n, hw]
      · rw [if_neg hrun] at hr; simp at hr; subst hr; simp [CPc.locked, CPc.bc, b2n, hw]
  case sdSend j =>
    simp only [clientStep] at hr
    by_cases hj : j < p.W
    · rw [if_pos hj] at hr
      by_cases hsg : s.sig < p.W
      · rw [if_pos hsg] at hr; simp at hr; subst hr; simp [CPc.locked, CPc.bc]
      · rw [if_neg hsg] at hr; simp at hr
    · rw [if_neg hj] at hr; simp at hr; subst hr; simp [CPc.locked, CPc.bc]
  case sdUnlockS =>
    simp [clientStep] at hr; subst hr
    have := hl rfl
    simp [CPc.locked, CPc.bc, b2n, this]
  case sdUnlockN =>
    simp [clientStep] at hr; subst hr
    have := hl rfl
    refine ⟨by simp [CPc.locked, b2n, this, emit], rfl, rfl⟩
  case sdBcast =>
    have := hb rfl
    simp only [clientStep] at hr
    by_cases hsh : s.stackHeld = true
    · rw [if_pos hsh] at hr; simp at hr
    · rw [if_neg hsh] at hr; simp at hr; subst hr
      refine ⟨rfl, ?_, rfl⟩
      simp [CPc.bc, b2n, emit]; omega
  case stTry =>
    simp only [clientStep] at hr
    by_cases hw : s.writer = true
    · rw [if_pos hw] at hr; simp at hr
    · rw [if_neg hw] at hr
      by_cases hrun : s.running = true
      · rw [if_pos hrun] at hr; simp at hr; subst hr; exact ⟨rfl, rfl, rfl⟩
      · rw [if_neg hrun] at hr
        by_cases hz : wg s = 0
        · rw [if_pos hz] at hr; simp at hr; subst hr
          refine ⟨rfl, rfl, ?_⟩
          rw [no_signal_of_exited hz]
          show (List.replicate p.W WPc.sel).countP WPc.isSignal = 0
          rw [List.countP_replicate]; simp [WPc.isSignal]
        · rw [if_neg hz] at hr; simp at hr; subst hr; exact ⟨rfl, rfl, rfl⟩
  case stWait =>
    simp only [clientStep] at hr
    by_cases hz : wg s = 0
    · rw [if_pos hz] at hr; simp at hr; subst hr; exact ⟨rfl, rfl, rfl⟩
    · rw [if_neg hz] at hr; simp at hr
  case wc =>
    simp only [clientStep] at hr
    by_cases hz : wg s = 0
    · rw [if_pos hz] at hr; simp at hr; subst hr; exact ⟨rfl, rfl, rfl⟩
    · rw [if_neg hz] at hr; simp at hr
  case wz =>
    simp only [clientStep] at hr
    by_cases hz : s.pending = 0
    · rw [if_pos hz] at hr; simp at hr; subst hr; exact ⟨rfl, rfl, rfl⟩
    · rw [if_neg hz] at hr; simp at hr
  case wa n =>
    simp only [clientStep] at hr
    split at hr
    · simp at hr
    · split at hr <;> (simp at hr; subst hr; exact ⟨rfl, rfl, rfl⟩)
  case waSleep n =>
    simp only [clientStep] at hr
    split at hr
    · simp at hr; subst hr; exact ⟨rfl, rfl, rfl⟩
    · simp at hr

/-- A client that does not hold the pool lock cannot change the lock-protected bookkeeping while someone
else holds the lock. -/
theorem client_unlocked {p : Params} {s : St} {c : Client} {r : St × Client} (hr : r ∈ clientStep p s c)
    (hl : c.pc.locked = false) (hw : s.writer = true) :
    r.1.sent = s.sent ∧ r.1.running = s.running := by
  obtain ⟨pc, script⟩ := c
  cases pc <;> simp [CPc.locked] at hl
  case idle =>
    simp only [clientStep] at hr
    cases script with
    | nil => simp at hr
    | cons op rest => cases op <;> (simp at hr; subst hr) <;> simp [newTask, emit]
  case sub t =>
    simp only [clientStep, List.mem_map] at hr
    obtain ⟨q, hq, rfl⟩ := hr
    have := (submit_ctl hq).1
    simp only [ctl, Prod.mk.injEq] at this
    exact ⟨this.2.1, this.2.2⟩
  case sd1 => simp [clientStep, hw] at hr
  case sdBcast =>
    simp only [clientStep] at hr
    split at hr
    · simp at hr
    · simp at hr; subst hr; exact ⟨rfl, rfl⟩
  case stTry => simp [clientStep, hw] at hr
  case stWait =>
    simp only [clientStep] at hr
    split at hr
    · simp at hr; subst hr; exact ⟨rfl, rfl⟩
    · simp at hr
  case wc =>
    simp only [clientStep] at hr
    split at hr
    · simp at hr; subst hr; exact ⟨rfl, rfl⟩
    · simp at hr
  case wz =>
    simp only [clientStep] at hr
    split at hr
    · simp at hr; subst hr; exact ⟨rfl, rfl⟩
    · simp at hr
  case wa n =>
    simp only [clientStep] at hr
    split at hr
    · simp at hr
    · split at hr <;> (simp at hr; subst hr; exact ⟨rfl, rfl⟩)
  case waSleep n =>
    simp only [clientStep] at hr
    split at hr
    · simp at hr; subst hr; exact ⟨rfl, rfl⟩
    · simp at hr

/-- What a client step means for the stepping client's own lock-protected knowledge. -/
theorem client_own {p : Params} {s : St} {c : Client} {r : St × Client} (hr : r ∈ clientStep p s c)
    (h1 : ∀ j, c.pc = .sdSend j → s.sent = j ∧ s.running = false) (hsr : s.running = true → s.sent = 0) :
    ∀ j, r.2.pc = .sdSend j → r.1.sent = j ∧ r.1.running = false := by
  obtain ⟨pc, script⟩ := c
  cases pc
  case idle =>
    simp only [clientStep] at hr
    cases script with
    | nil => simp at hr
    | cons op rest => cases op <;> (simp at hr; subst hr) <;> simp
  case sub t =>
    simp only [clientStep, List.mem_map] at hr
    obtain ⟨q, hq, rfl⟩ := hr
    cases q.2 <;> simp
  case sd1 =>
    simp only [clientStep] at hr
    by_cases hw : s.writer = true
    · rw [if_pos hw] at hr; simp at hr
    · rw [if_neg hw] at hr
      by_cases hrun : s.running = true
      · rw [if_pos hrun] at hr; simp at hr; subst hr; simp; exact hsr hrun
      · rw [if_neg hrun] at hr; simp at hr; subst hr; simp
  case sdSend j =>
    obtain ⟨a, b⟩ := h1 j rfl
    simp only [clientStep] at hr
    by_cases hj : j < p.W
    · rw [if_pos hj] at hr
      by_cases hsg : s.sig < p.W
      · rw [if_pos hsg] at hr; simp at hr; subst hr; simp [a, b]
      · rw [if_neg hsg] at hr; simp at hr
    · rw [if_neg hj] at hr; simp at hr; subst hr; simp
  case sdUnlockS => simp [clientStep] at hr; subst hr; simp
  case sdUnlockN => simp [clientStep] at hr; subst hr; simp
  case sdBcast =>
    simp only [clientStep] at hr
    split at hr
    · simp at hr
    · simp at hr; subst hr; simp
  case stTry =>
    simp only [clientStep] at hr
    split at hr
    · simp at hr
    · split at hr
      · simp at hr; subst hr; simp
      · split at hr <;> (simp at hr; subst hr; simp)
  case stWait =>
    simp only [clientStep] at hr
    split at hr
    · simp at hr; subst hr; simp
    · simp at hr
  case wc =>
    simp only [clientStep] at hr
    split at hr
    · simp at hr; subst hr; simp
    · simp at hr
  case wz =>
    simp only [clientStep] at hr
    split at hr
    · simp at hr; subst hr; simp
    · simp at hr
  case wa n =>
    simp only [clientStep] at hr
    split at hr
    · simp at hr
    · split at hr <;> (simp at hr; subst hr; simp)
  case waSleep n =>
    simp only [clientStep] at hr
    split at hr
    · simp at hr; subst hr; simp
    · simp at hr

structure TI (p : Params) (c : Cfg St Thr) : Prop where
  w1 : b2n c.1.writer = c.2.countP Thr.locked
  du : c.1.due = c.2.countP Thr.bc + c.1.workers.countP WPc.isSignal
  hl : ∀ t ∈ c.2, ∀ cl j, t = .client cl → cl.pc = .sdSend j → c.1.sent = j ∧ c.1.running = false

theorem ti_init (p : Params) (ts : List Thr) (h : ∀ t ∈ ts, t.fresh = true) : TI p (St.init, ts) := by
  have hno : ∀ t ∈ ts, t.locked = false ∧ t.bc = false ∧ ∀ cl, t = .client cl → cl.pc = .idle := by
    intro t ht
    have := h t ht
    cases t with
    | runner => exact ⟨rfl, rfl, fun cl e => by cases e⟩
    | client c =>
      obtain ⟨pc, sc⟩ := c
      simp [Thr.fresh] at this; subst this
      exact ⟨rfl, rfl, fun cl e => by cases e; rfl⟩
  refine ⟨?_, ?_, ?_⟩
  · show 0 = _; symm; rw [List.countP_eq_zero]; intro t ht; simp [(hno t ht).1]
  · have : ts.countP Thr.bc = 0 := by rw [List.countP_eq_zero]; intro t ht; simp [(hno t ht).2.1]
    show 0 = ts.countP Thr.bc + 0
    omega
  · intro t ht cl j e hp; have := (hno t ht).2.2 cl e; rw [this] at hp; cases hp

theorem ti_step (p : Params) (a b : Cfg St Thr) (hS : SInv p a.1) (hL : LInv p a.1) (h : TI p a)
    (hs : Step (sys p) a b) : TI p b := by
  cases hs with
  | mk s pre t post s' t' hmem =>
    obtain ⟨w1, du, hl⟩ := h
    simp only at w1 du hl hS hL
    rw [countP_mid] at w1 du
    cases t with
    | runner =>
      simp only [sys, List.mem_map] at hmem
      obtain ⟨s'', hs'', heq⟩ := hmem
      cases heq
      have key : ctl s' = ctl s ∧ s'.due + s.workers.countP WPc.isSignal = s.due + s'.workers.countP WPc.isSignal := by
        unfold runnerStep at hs''
        rcases List.mem_append.mp hs'' with hd | hw
        · obtain ⟨a1, a2⟩ := disp_ctl hd
          have e1 := (pres_dispStep hS hd).2
          exact ⟨a1, by rw [a2, e1]⟩
        · obtain ⟨i, _, hi⟩ := List.mem_flatMap.mp hw
          cases hwi : s.workers[i]? with
          | none => simp [hwi] at hi
          | some w =>
            simp only [hwi, List.mem_map] at hi
            obtain ⟨r, hr, rfl⟩ := hi
            obtain ⟨_, e1, _, _⟩ := pres_wStep hS (List.mem_of_getElem? hwi) hr
            have hpos : w.isSignal = true → 0 < s.due := by
              intro hsig
              have : 0 < s.workers.countP WPc.isSignal := List.countP_pos_iff.mpr ⟨w, List.mem_of_getElem? hwi, hsig⟩
              omega
            obtain ⟨a1, a2⟩ := w_ctl hr hpos
            refine ⟨a1, ?_⟩
            show r.1.due + _ = s.due + (r.1.workers.set i r.2).countP WPc.isSignal
            rw [e1]
            have c := countP_set_add WPc.isSignal s.workers i w r.2 hwi
            omega
      obtain ⟨hc, hdue⟩ := key
      simp only [ctl, Prod.mk.injEq] at hc
      obtain ⟨c1, c3, c5⟩ := hc
      refine ⟨?_, ?_, ?_⟩
      · show b2n s'.writer = _; rw [countP_mid, c1]; exact w1
      · show s'.due = (pre ++ Thr.runner :: post).countP Thr.bc + s'.workers.countP WPc.isSignal
        rw [countP_mid]; omega
      · intro u hu cl j e hp; show s'.sent = j ∧ s'.running = false; rw [c3, c5]; exact hl u hu cl j e hp
    | client c =>
      simp only [sys, List.mem_map] at hmem
      obtain ⟨r, hr, heq⟩ := hmem
      cases heq
      have hin : Thr.client c ∈ pre ++ Thr.client c :: post := by simp
      have hlw : c.pc.locked = true → s.writer = true := by
        intro hc
        have : 0 < b2n s.writer := by rw [w1]; simp [Thr.locked, hc]; omega
        cases hw : s.writer with
        | true => rfl
        | false => rw [hw] at this; simp at this
      have hbp : c.pc.bc = true → 0 < s.due := by
        intro hc; rw [du]; simp [Thr.bc, hc]; omega
      obtain ⟨d1, d2, d3⟩ := client_delta hr hlw hbp
      have o1 := client_own hr (fun j hp => hl _ hin c j rfl hp) hL.sr
      have others : ∀ u, u ∈ pre ∨ u ∈ post → u.locked = true →
          r.1.sent = s.sent ∧ r.1.running = s.running := by
        intro u hu hul
        have hcnt : 1 ≤ pre.countP Thr.locked + post.countP Thr.locked := by
          rcases hu with hu | hu
          · have := List.countP_pos_iff.mpr ⟨u, hu, hul⟩; omega
          · have := List.countP_pos_iff.mpr ⟨u, hu, hul⟩; omega
        have hw : s.writer = true := by
          cases hw : s.writer with
          | true => rfl
          | false => rw [hw] at w1; simp at w1; omega
        have hcl : c.pc.locked = false := by
          cases hc : c.pc.locked with
          | false => rfl
          | true =>
            have : b2n s.writer ≤ 1 := by cases s.writer <;> simp
            simp [Thr.locked, hc] at w1; omega
        exact client_unlocked hr hcl hw
      refine ⟨?_, ?_, ?_⟩
      · show b2n r.1.writer = _
        rw [countP_mid]
        have e1 : (if Thr.locked (Thr.client c) = true then 1 else 0) = b2n c.pc.locked := rfl
        have e2 : (if Thr.locked (Thr.client r.2) = true then 1 else 0) = b2n r.2.pc.locked := rfl
        rw [e1] at w1; rw [e2]; omega
      · show r.1.due = _
        rw [countP_mid, d3]
        have e1 : (if Thr.bc (Thr.client c) = true then 1 else 0) = b2n c.pc.bc := rfl
        have e2 : (if Thr.bc (Thr.client r.2) = true then 1 else 0) = b2n r.2.pc.bc := rfl
        rw [e1] at du; rw [e2]; omega
      · intro u hu cl j e hp
        show r.1.sent = j ∧ r.1.running = false
        simp only [List.mem_append, List.mem_cons] at hu
        rcases hu with hu | hu | hu
        · subst e
          obtain ⟨a1, a2⟩ := others _ (Or.inl hu) (by simp [Thr.locked, hp, CPc.locked])
          rw [a1, a2]; exact hl _ (by simp [hu]) cl j rfl hp
        · subst hu; cases e; exact o1 j hp
        · subst e
          obtain ⟨a1, a2⟩ := others _ (Or.inr hu) (by simp [Thr.locked, hp, CPc.locked])
          rw [a1, a2]; exact hl _ (by simp [hu]) cl j rfl hp



def Thr.subs (tid : Nat) : Thr → Bool
  | .client ⟨.sub t, _⟩ => t == tid
  | _ => false

def rets (s : St) : List Bool := s.tasks.map (·.returned)

def unretL (l : List Bool) (tid : Nat) : Bool :=
  match l[tid]? with
  | some r => !r
  | none => false

/-- the `Submit` call for task `tid` has not returned yet -/
def unret (s : St) (tid : Nat) : Bool := unretL (rets s) tid

theorem rets_setPhase (s : St) (t : Nat) (ph : Phase) : rets (setPhase s t ph) = rets s := by
  unfold setPhase; split
  · rename_i x hx
    simp only [rets, List.map_set]
    exact set_same _ _ _ (by simp [hx])
  · rfl

theorem rets_setReturned {s : St} {t : Nat} {x : Task} (h : s.tasks[t]? = some x) :
    rets (setReturned s t) = (rets s).set t true := by
  rw [setReturned_eq h]; simp [rets, List.map_set]

theorem unretL_set (l : List Bool) (t tid : Nat) (h : t < l.length) :
    unretL (l.set t true) tid = if tid = t then false else unretL l tid := by
  unfold unretL
  by_cases e : tid = t
  · subst e; simp [List.getElem?_set, h]
  · simp [List.getElem?_set, e, Ne.symm e]

theorem unretL_append (l : List Bool) (tid : Nat) :
    unretL (l ++ [false]) tid = if tid = l.length then true else unretL l tid := by
  unfold unretL
  rcases Nat.lt_trichotomy tid l.length with h | h | h
  · simp [List.getElem?_append_left h, Nat.ne_of_lt h]
  · subst h; simp
  · have : ¬ tid = l.length := by omega
    simp [this, List.getElem?_eq_none (show (l ++ [false]).length ≤ tid by simp; omega),
      List.getElem?_eq_none (show l.length ≤ tid by omega)]

theorem unretL_oob (l : List Bool) : unretL l l.length = false := by
  simp [unretL]

/-- `Submit`'s steps and the "has returned" flags. -/
theorem submit_rets {p : Params} {s : St} {t : Nat} {r : St × Bool} (hr : r ∈ submitStep p s t) :
    unret s t = true ∧ t < (rets s).length ∧ rets r.1 = if r.2 then (rets s).set t true else rets s := by
  unfold submitStep at hr
  cases ht : s.tasks[t]? with
  | none => simp [ht] at hr
  | some x =>
    obtain ⟨ph, ret, kids⟩ := x
    simp only [ht] at hr
    have hlt : t < (rets s).length := by simpa [rets] using lt_of_get ht
    cases ret with
    | true => simp at hr
    | false =>
      have hu : unret s t = true := by simp [unret, unretL, rets, ht]
      simp only [Bool.false_eq_true, if_false] at hr
      refine ⟨hu, hlt, ?_⟩
      cases ph
      case fresh =>
        by_cases hw : s.writer = true
        · rw [if_pos hw] at hr; simp at hr
        · rw [if_neg hw] at hr
          by_cases hrun : s.running = true
          · rw [if_pos hrun] at hr; simp at hr; subst hr
            show rets (setPhase s t _) = _; exact rets_setPhase s t _
          · rw [if_neg hrun] at hr; simp at hr; subst hr; exact rets_setPhase s t _
      case rejected => simp at hr; subst hr; exact rets_setReturned ht
      case counted =>
        by_cases hsh : s.stackHeld = true
        · rw [if_pos hsh] at hr; simp at hr
        · rw [if_neg hsh] at hr; simp at hr; subst hr; exact rets_setPhase s t _
      all_goals (simp at hr; subst hr; exact rets_setReturned ht)

theorem newTask_rets (p : Params) (s : St) (k : List Body) : rets (newTask p s k).1 = rets s ++ [false] := by
  simp [newTask, rets, emit]

theorem disp_rets {p : Params} {s s' : St} (hs : s' ∈ dispStep p s) : rets s' = rets s := by
  unfold dispStep at hs
  split at hs
  · simp at hs
  · split at hs <;> (simp at hs; try subst hs; try rfl)
  · simp at hs; subst hs; rfl
  · split at hs
    · simp at hs
    · unfold popOrCond at hs; split at hs
      · simp at hs; subst hs; rfl
      · simp at hs; obtain ⟨t, _, rfl⟩ := hs; exact rets_setPhase s t _
  · split at hs <;> (simp at hs; try subst hs; try rfl)
  · split at hs <;> (simp at hs; subst hs; rfl)
  · simp at hs; subst hs; rfl
  · split at hs
    · simp at hs
    · unfold popOrCond at hs; split at hs
      · simp at hs; subst hs; rfl
      · simp at hs; obtain ⟨t, _, rfl⟩ := hs; exact rets_setPhase s t _
  · split at hs
    · simp at hs; subst hs; exact rets_setPhase s _ _
    · simp at hs
  · simp at hs; subst hs; rfl

theorem submit_delta {p : Params} {s : St} {c : Nat} {q : St × Bool} (hq : q ∈ submitStep p s c) (tid : Nat) :
    b2n ((if q.2 then false else (c == tid))) + b2n (unret s tid) = b2n (c == tid) + b2n (unret q.1 tid) := by
  obtain ⟨hu, hlt, hre⟩ := submit_rets hq
  unfold unret at *
  rw [hre]
  cases hq2 : q.2
  · simp
  · simp only [if_true]
    rw [unretL_set _ _ _ hlt]
    by_cases e : tid = c
    · subst e; simp [hu, b2n]
    · have : (c == tid) = false := by simp; exact fun x => e x.symm
      simp [e, this]

theorem newTask_delta (p : Params) (s : St) (k : List Body) (tid : Nat) :
    b2n (s.tasks.length == tid) + b2n (unret s tid) = b2n (unret (newTask p s k).1 tid) := by
  unfold unret
  rw [newTask_rets, unretL_append]
  have hl : (rets s).length = s.tasks.length := by simp [rets]
  by_cases e : tid = s.tasks.length
  · subst e; rw [← hl, unretL_oob]; simp [hl, b2n]
  · have : (s.tasks.length == tid) = false := by simp; exact fun x => e x.symm
    simp [hl, e, this]

/-- Effect of a worker step on "who is inside which `Submit`". -/
theorem w_os {p : Params} {s : St} {w : WPc} {r : St × WPc} (hr : r ∈ wStep p s w) (tid : Nat) :
    b2n (r.2.subs tid) + b2n (unret s tid) = b2n (w.subs tid) + b2n (unret r.1 tid) := by
  have same : ∀ {s1 : St} {w1 : WPc}, rets s1 = rets s → w1.subs tid = w.subs tid →
      b2n (w1.subs tid) + b2n (unret s tid) = b2n (w.subs tid) + b2n (unret s1 tid) := by
    intro s1 w1 a b; unfold unret; rw [a, b]
  cases w with
  | exited => simp [wStep] at hr
  | sel => simp only [wStep] at hr; split at hr <;> (simp at hr; subst hr; exact same rfl rfl)
  | sel2 =>
    simp only [wStep, List.mem_append] at hr
    rcases hr with (hr | hr) | hr
    · split at hr
      · simp at hr; subst hr; exact same rfl rfl
      · simp at hr
    · simp only [List.mem_map] at hr; obtain ⟨t, _, rfl⟩ := hr
      exact same (by simp [takeRun, rets, emit]; exact rets_setPhase s t _) rfl
    · split at hr
      · simp at hr; subst hr; exact same rfl rfl
      · simp at hr
  | drain =>
    simp only [wStep, List.mem_append] at hr
    rcases hr with hr | hr
    · simp only [List.mem_map] at hr; obtain ⟨t, _, rfl⟩ := hr
      split
      · exact same (rets_setPhase s t _) rfl
      · exact same (by simp [takeRun, rets, emit]; exact rets_setPhase s t _) rfl
    · split at hr
      · simp at hr; subst hr; exact same rfl rfl
      · simp at hr
  | run t todo sub dr =>
    simp only [wStep] at hr
    cases sub with
    | some c =>
      simp only [List.mem_map] at hr
      obtain ⟨q, hq, rfl⟩ := hr
      have := submit_delta hq tid
      cases hq2 : q.2 <;> simp [hq2] at this ⊢ <;> simpa [WPc.subs] using this
    | none =>
      cases todo with
      | cons b rest =>
        simp at hr; subst hr
        have := newTask_delta p s b.kids tid
        simpa [WPc.subs, newTask] using this
      | nil =>
        simp only at hr
        split at hr
        · simp at hr; subst hr
          exact same (by simp [rets, emit]; exact rets_setPhase s t _) rfl
        · simp at hr
  | mark t dr =>
    simp only [wStep] at hr
    split at hr
    · simp at hr; subst hr; unfold markDone; split
      · exact same (by simp [rets, emit]; exact rets_setPhase s t _) rfl
      · exact same (by simp [rets, emit]; exact rets_setPhase s t _) (by cases dr <;> rfl)
    · simp at hr; subst hr; unfold markDone; split
      · exact same (by simp [rets, emit]; exact rets_setPhase s t _) rfl
      · exact same (by simp [rets, emit]; exact rets_setPhase s t _) rfl
    · simp at hr
  | signal dr =>
    simp only [wStep] at hr
    split at hr
    · simp at hr
    · simp at hr; subst hr; exact same rfl (by cases dr <;> rfl)

theorem client_os {p : Params} {s : St} {c : Client} {r : St × Client} (hr : r ∈ clientStep p s c) (tid : Nat) :
    b2n (Thr.subs tid (.client r.2)) + b2n (unret s tid) = b2n (Thr.subs tid (.client c)) + b2n (unret r.1 tid) ∧
    r.1.workers.countP (WPc.subs tid) = s.workers.countP (WPc.subs tid) := by
  have same : ∀ {s1 : St} {c1 : Client}, rets s1 = rets s → Thr.subs tid (.client c1) = Thr.subs tid (.client c) →
      b2n (Thr.subs tid (.client c1)) + b2n (unret s tid) = b2n (Thr.subs tid (.client c)) + b2n (unret s1 tid) := by
    intro s1 c1 a b; unfold unret; rw [a, b]
  obtain ⟨pc, script⟩ := c
  cases pc
  case idle =>
    simp only [clientStep] at hr
    cases script with
    | nil => simp at hr
    | cons op rest =>
      cases op <;> (simp at hr; subst hr)
      · refine ⟨?_, rfl⟩
        have := newTask_delta p s (Body.kids ‹Body›) tid
        simpa [Thr.subs, newTask] using this
      · exact ⟨same rfl rfl, rfl⟩
      · exact ⟨same rfl rfl, rfl⟩
      · exact ⟨same rfl rfl, rfl⟩
      · exact ⟨same rfl rfl, rfl⟩
      · exact ⟨same rfl rfl, rfl⟩
  case sub t =>
    simp only [clientStep, List.mem_map] at hr
    obtain ⟨q, hq, rfl⟩ := hr
    refine ⟨?_, by rw [pres_submitStep_workers hq]⟩
    have := submit_delta hq tid
    cases hq2 : q.2 <;> simp [hq2] at this ⊢ <;> simpa [Thr.subs] using this
  case sd1 =>
    simp only [clientStep] at hr
    split at hr
    · simp at hr
    · split at hr <;> (simp at hr; subst hr; exact ⟨same rfl rfl, rfl⟩)
  case sdSend j =>
    simp only [clientStep] at hr
    split at hr
    · split at hr
      · simp at hr; subst hr; exact ⟨same rfl rfl, rfl⟩
      · simp at hr
    · simp at hr; subst hr; exact ⟨same rfl rfl, rfl⟩
  case sdUnlockS => simp [clientStep] at hr; subst hr; exact ⟨same rfl rfl, rfl⟩
  case sdUnlockN => simp [clientStep] at hr; subst hr; exact ⟨same rfl rfl, rfl⟩
  case sdBcast =>
    simp only [clientStep] at hr
    split at hr
    · simp at hr
    · simp at hr; subst hr; exact ⟨same rfl rfl, rfl⟩
  case stTry =>
    simp only [clientStep] at hr
    by_cases hw : s.writer = true
    · rw [if_pos hw] at hr; simp at hr
    · rw [if_neg hw] at hr
      by_cases hrun : s.running = true
      · rw [if_pos hrun] at hr; simp at hr; subst hr; exact ⟨same rfl rfl, rfl⟩
      · rw [if_neg hrun] at hr
        by_cases hz : wg s = 0
        · rw [if_pos hz] at hr; simp at hr; subst hr
          refine ⟨same rfl rfl, ?_⟩
          have hall := all_exited_of_wg hz
          have h0 : s.workers.countP (WPc.subs tid) = 0 := by
            rw [List.countP_eq_zero]; intro w hw
            have := hall w hw; cases w <;> simp [WPc.isExited] at this; simp [WPc.subs]
          rw [h0]
          show (List.replicate p.W WPc.sel).countP (WPc.subs tid) = 0
          rw [List.countP_replicate]; simp [WPc.subs]
        · rw [if_neg hz] at hr; simp at hr; subst hr; exact ⟨same rfl rfl, rfl⟩
  case stWait =>
    simp only [clientStep] at hr
    split at hr
    · simp at hr; subst hr; exact ⟨same rfl rfl, rfl⟩
    · simp at hr
  case wc =>
    simp only [clientStep] at hr
    split at hr
    · simp at hr; subst hr; exact ⟨same rfl rfl, rfl⟩
    · simp at hr
  case wz =>
    simp only [clientStep] at hr
    split at hr
    · simp at hr; subst hr; exact ⟨same rfl rfl, rfl⟩
    · simp at hr
  case wa n =>
    simp only [clientStep] at hr
    split at hr
    · simp at hr
    · split at hr <;> (simp at hr; subst hr; exact ⟨same rfl rfl, rfl⟩)
  case waSleep n =>
    simp only [clientStep] at hr
    split at hr
    · simp at hr; subst hr; exact ⟨same rfl rfl, rfl⟩
    · simp at hr

/-- Every unreturned `Submit` call has exactly one driver (a client thread or a worker inside a task). -/
def OS (c : Cfg St Thr) : Prop :=
  ∀ tid, c.2.countP (Thr.subs tid) + c.1.workers.countP (WPc.subs tid) = b2n (unret c.1 tid)

theorem os_init (ts : List Thr) (h : ∀ t ∈ ts, t.fresh = true) : OS (St.init, ts) := by
  intro tid
  have h0 : ts.countP (Thr.subs tid) = 0 := by
    rw [List.countP_eq_zero]; intro t ht
    have := h t ht
    cases t with
    | runner => simp [Thr.subs]
    | client c => obtain ⟨pc, sc⟩ := c; simp [Thr.fresh] at this; subst this; simp [Thr.subs]
  simp [h0, St.init, unret, unretL, rets]

theorem os_step (p : Params) (a b : Cfg St Thr) (hS : SInv p a.1) (h : OS a) (hs : Step (sys p) a b) : OS b := by
  cases hs with
  | mk s pre t post s' t' hmem =>
    intro tid
    have h0 := h tid
    simp only at h0 hS
    rw [countP_mid] at h0
    show (pre ++ t' :: post).countP (Thr.subs tid) + s'.workers.countP (WPc.subs tid) = b2n (unret s' tid)
    rw [countP_mid]
    cases t with
    | runner =>
      simp only [sys, List.mem_map] at hmem
      obtain ⟨s'', hs'', heq⟩ := hmem
      cases heq
      unfold runnerStep at hs''
      rcases List.mem_append.mp hs'' with hd | hw
      · have e1 := (pres_dispStep hS hd).2
        have e2 := disp_rets hd
        unfold unret; rw [e1, e2]; exact h0
      · obtain ⟨i, _, hi⟩ := List.mem_flatMap.mp hw
        cases hwi : s.workers[i]? with
        | none => simp [hwi] at hi
        | some w =>
          simp only [hwi, List.mem_map] at hi
          obtain ⟨r, hr, rfl⟩ := hi
          obtain ⟨_, e1, _, _⟩ := pres_wStep hS (List.mem_of_getElem? hwi) hr
          have d := w_os hr tid
          show _ + (r.1.workers.set i r.2).countP (WPc.subs tid) = b2n (unret r.1 tid)
          rw [e1]
          have c := countP_set_add (WPc.subs tid) s.workers i w r.2 hwi
          have hu : unret { r.1 with workers := r.1.workers.set i r.2 } tid = unret r.1 tid := rfl
          omega
    | client c =>
      simp only [sys, List.mem_map] at hmem
      obtain ⟨r, hr, heq⟩ := hmem
      cases heq
      obtain ⟨d, e⟩ := client_os hr tid
      rw [e]
      have a1 : (if Thr.subs tid (Thr.client c) = true then 1 else 0) = b2n (Thr.subs tid (Thr.client c)) := rfl
      have a2 : (if Thr.subs tid (Thr.client r.2) = true then 1 else 0) = b2n (Thr.subs tid (Thr.client r.2)) := rfl
      rw [a1] at h0; rw [a2]
      omega




end Hive.WP
