import Hive.Proofs.WorkerPoolLive
/-!
# C16 — thread-level invariants of the WorkerPool model and the termination theorem's core

Who holds the pool lock, who is about to broadcast, who drives which `Submit`.
-/
set_option linter.unusedSimpArgs false
set_option linter.unusedVariables false
namespace Hive.WP
open Hive.Conc

def CPc.locked : CPc → Bool
  | .sdSend _ | .sdBcast | .sdUnlock | .stWait2 | .stUnlock => true
  | _ => false
def CPc.bc : CPc → Bool
  | .sdSend _ | .sdBcast => true
  | _ => false
def Thr.locked : Thr → Bool
  | .client c => c.pc.locked
  | .runner => false
def Thr.bc : Thr → Bool
  | .client c => c.pc.bc
  | .runner => false

/-- the fields that only client life-cycle steps write -/
def ctl (s : St) : Bool × Bool × Nat × Bool × Bool :=
  (s.writer, s.bcastPending, s.sent, s.startRace, s.running)

theorem ctl_setPhase (s : St) (t : Nat) (ph : Phase) : ctl (setPhase s t ph) = ctl s := by
  unfold setPhase; split <;> rfl
theorem ctl_setReturned (s : St) (t : Nat) : ctl (setReturned s t) = ctl s := by
  unfold setReturned; split <;> rfl

theorem submit_ctl {p : Params} {s : St} {t : Nat} {r : St × Bool} (hr : r ∈ submitStep p s t) : ctl r.1 = ctl s := by
  unfold submitStep at hr
  split at hr
  · simp at hr
  · split at hr
    · simp at hr
    · split at hr
      · split at hr
        · simp at hr
        · split at hr <;> (simp at hr; subst hr)
          · exact ctl_setPhase s t _
          · exact ctl_setPhase s t _
      · simp at hr; subst hr; exact ctl_setReturned s t
      · simp at hr; subst hr; exact ctl_setPhase s t _
      · split at hr
        · simp at hr
        · simp at hr; subst hr; exact ctl_setPhase s t _
      · simp at hr; subst hr; exact ctl_setReturned s t

theorem disp_ctl {p : Params} {s s' : St} (hs : s' ∈ dispStep p s) : ctl s' = ctl s := by
  unfold dispStep at hs
  split at hs
  · simp at hs
  · split at hs <;> (simp at hs; try subst hs; try rfl)
  · split at hs <;> (simp at hs; try subst hs; try rfl)
  · split at hs
    · simp at hs
    · unfold popOrCond at hs; split at hs
      · simp at hs; subst hs; rfl
      · simp at hs; obtain ⟨t, _, rfl⟩ := hs; exact ctl_setPhase s t _
  · split at hs
    · simp at hs
    · split at hs <;> (simp at hs; subst hs; rfl)
  · simp at hs; subst hs; rfl
  · split at hs
    · simp at hs
    · unfold popOrCond at hs; split at hs
      · simp at hs; subst hs; rfl
      · simp at hs; obtain ⟨t, _, rfl⟩ := hs; exact ctl_setPhase s t _
  · split at hs
    · simp at hs; subst hs; exact ctl_setPhase s _ _
    · simp at hs
  · split at hs
    · simp at hs; subst hs; rfl
    · simp at hs
  · simp at hs; subst hs; rfl

theorem w_ctl {p : Params} {s : St} {w : WPc} {r : St × WPc} (hr : r ∈ wStep p s w) : ctl r.1 = ctl s := by
  cases w with
  | exited => simp [wStep] at hr
  | sel => simp only [wStep] at hr; split at hr <;> (simp at hr; subst hr; rfl)
  | sel2 =>
    simp only [wStep, List.mem_append] at hr
    rcases hr with (hr | hr) | hr
    · split at hr
      · simp at hr; subst hr; rfl
      · simp at hr
    · simp only [List.mem_map] at hr; obtain ⟨t, _, rfl⟩ := hr; exact ctl_setPhase s t _
    · split at hr
      · simp at hr; subst hr; rfl
      · simp at hr
  | drain =>
    simp only [wStep, List.mem_append] at hr
    rcases hr with hr | hr
    · simp only [List.mem_map] at hr; obtain ⟨t, _, rfl⟩ := hr
      split
      · exact ctl_setPhase s t _
      · exact ctl_setPhase s t _
    · split at hr
      · simp at hr; subst hr; rfl
      · simp at hr
  | run t todo sub dr =>
    simp only [wStep] at hr
    cases sub with
    | some c =>
      simp only [List.mem_map] at hr
      obtain ⟨q, hq, rfl⟩ := hr
      exact submit_ctl hq
    | none =>
      cases todo with
      | cons b rest => simp at hr; subst hr; rfl
      | nil =>
        simp only at hr
        split at hr
        · simp at hr; subst hr; exact ctl_setPhase s t _
        · simp at hr
  | mark t dr =>
    simp only [wStep] at hr
    split at hr
    · simp at hr; subst hr; exact ctl_setPhase s t _
    · simp at hr; subst hr; exact ctl_setPhase s t _
    · simp at hr

theorem runner_ctl {p : Params} {s s' : St} (hs : s' ∈ runnerStep p s) : ctl s' = ctl s := by
  unfold runnerStep at hs
  rcases List.mem_append.mp hs with hs | hs
  · exact disp_ctl hs
  · obtain ⟨i, _, hi⟩ := List.mem_flatMap.mp hs
    cases hw : s.workers[i]? with
    | none => simp [hw] at hi
    | some w =>
      simp only [hw, List.mem_map] at hi
      obtain ⟨r, hr, rfl⟩ := hi
      exact w_ctl hr



/-- Effect of a client step on the lock / broadcast bookkeeping. -/
theorem client_delta {p : Params} {s : St} {c : Client} {r : St × Client} (hr : r ∈ clientStep p s c)
    (hl : c.pc.locked = true → s.writer = true) (hb : c.pc.bc = true → s.bcastPending = true)
    (hbw : s.bcastPending = true → s.writer = true) :
    b2n r.1.writer + b2n c.pc.locked = b2n s.writer + b2n r.2.pc.locked ∧
    b2n r.1.bcastPending + b2n c.pc.bc = b2n s.bcastPending + b2n r.2.pc.bc := by
  obtain ⟨pc, script⟩ := c
  cases pc
  case idle =>
    simp only [clientStep] at hr
    cases script with
    | nil => simp at hr
    | cons op rest => cases op <;> (simp at hr; subst hr) <;> simp [CPc.locked, CPc.bc, newTask, emit]
  case sub t =>
    simp only [clientStep, List.mem_map] at hr
    obtain ⟨q, hq, rfl⟩ := hr
    have := submit_ctl hq
    simp only [ctl, Prod.mk.injEq] at this
    obtain ⟨a, b, _⟩ := this
    cases q.2 <;> simp [a, b, CPc.locked, CPc.bc]
  case sd1 =>
    simp only [clientStep] at hr
    by_cases hw : s.writer = true
    · rw [if_pos hw] at hr; simp at hr
    · rw [if_neg hw] at hr
      have hbp : s.bcastPending = false := by
        cases hh : s.bcastPending with
        | false => rfl
        | true => exact absurd (hbw hh) hw
      by_cases hrun : s.running = true
      · rw [if_pos hrun] at hr; simp at hr; subst hr
        simp [CPc.locked, CPc.bc, b2n, hw, hbp]
      · rw [if_neg hrun] at hr; simp at hr; subst hr; simp [CPc.locked, CPc.bc, b2n, hw]
  case sdSend j =>
    simp only [clientStep] at hr
    by_cases hj : j < p.W
    · rw [if_pos hj] at hr
      by_cases hsg : s.sig < p.W
      · rw [if_pos hsg] at hr; simp at hr; subst hr; simp [CPc.locked, CPc.bc]
      · rw [if_neg hsg] at hr; simp at hr
    · rw [if_neg hj] at hr; simp at hr; subst hr; simp [CPc.locked, CPc.bc]
  case sdBcast =>
    simp [clientStep] at hr; subst hr
    have := hb rfl
    simp [CPc.locked, CPc.bc, b2n, this]
  case sdUnlock =>
    simp [clientStep] at hr; subst hr
    have := hl rfl
    refine ⟨by simp [CPc.locked, b2n, this, emit], rfl⟩
  case st0 =>
    simp only [clientStep] at hr
    by_cases ho : p.oldStart = true
    · rw [if_pos ho] at hr; simp at hr; subst hr; simp [CPc.locked, CPc.bc]
    · rw [if_neg ho] at hr
      by_cases hw : s.writer = true
      · rw [if_pos hw] at hr; simp at hr
      · rw [if_neg hw] at hr; simp at hr; subst hr; cases s.running <;> simp [CPc.locked, CPc.bc]
  case stWait1 =>
    simp only [clientStep] at hr
    by_cases hz : wg s = 0
    · rw [if_pos hz] at hr; simp at hr; subst hr; simp [CPc.locked, CPc.bc]
    · rw [if_neg hz] at hr; simp at hr
  case stLock =>
    simp only [clientStep] at hr
    by_cases hw : s.writer = true
    · rw [if_pos hw] at hr; simp at hr
    · rw [if_neg hw] at hr; simp at hr; subst hr
      cases s.running <;> simp [CPc.locked, CPc.bc, b2n, hw]
  case stWait2 =>
    simp only [clientStep] at hr
    by_cases hz : wg s = 0
    · rw [if_pos hz] at hr; simp at hr; subst hr; simp [CPc.locked, CPc.bc, spawn]
    · rw [if_neg hz] at hr; simp at hr
  case stUnlock =>
    simp [clientStep] at hr; subst hr
    have := hl rfl
    refine ⟨by simp [CPc.locked, b2n, this, emit], rfl⟩
  case wc =>
    simp only [clientStep] at hr
    by_cases hz : wg s = 0
    · rw [if_pos hz] at hr; simp at hr; subst hr; simp [CPc.locked, CPc.bc, emit]
    · rw [if_neg hz] at hr; simp at hr
  case wz =>
    simp only [clientStep] at hr
    by_cases hz : s.pending = 0
    · rw [if_pos hz] at hr; simp at hr; subst hr; simp [CPc.locked, CPc.bc]
    · rw [if_neg hz] at hr; simp at hr

/-- A client that does not hold the pool lock cannot change the lock-protected bookkeeping while someone
else holds the lock. -/
theorem client_unlocked {p : Params} {s : St} {c : Client} {r : St × Client} (hr : r ∈ clientStep p s c)
    (hl : c.pc.locked = false) (hw : s.writer = true) :
    r.1.sent = s.sent ∧ r.1.running = s.running ∧ r.1.startRace = s.startRace ∧ r.1.workers = s.workers := by
  obtain ⟨pc, script⟩ := c
  cases pc <;> simp [CPc.locked] at hl
  case idle =>
    simp only [clientStep] at hr
    cases script with
    | nil => simp at hr
    | cons op rest => cases op <;> (simp at hr; subst hr) <;> simp [newTask, emit]
  case sub t =>
    simp only [clientStep, List.mem_map] at hr
    obtain ⟨q, hq, rfl⟩ := hr
    have := submit_ctl hq
    simp only [ctl, Prod.mk.injEq] at this
    obtain ⟨_, _, a, b, c⟩ := this
    exact ⟨a, c, b, pres_submitStep_workers hq⟩
  case sd1 => simp [clientStep, hw] at hr
  case st0 =>
    simp only [clientStep] at hr
    by_cases ho : p.oldStart = true
    · rw [if_pos ho] at hr; simp at hr; subst hr; simp
    · rw [if_neg ho, if_pos hw] at hr; simp at hr
  case stWait1 =>
    simp only [clientStep] at hr
    by_cases hz : wg s = 0
    · rw [if_pos hz] at hr; simp at hr; subst hr; simp
    · rw [if_neg hz] at hr; simp at hr
  case stLock => simp [clientStep, hw] at hr
  case wc =>
    simp only [clientStep] at hr
    by_cases hz : wg s = 0
    · rw [if_pos hz] at hr; simp at hr; subst hr; simp [emit]
    · rw [if_neg hz] at hr; simp at hr
  case wz =>
    simp only [clientStep] at hr
    by_cases hz : s.pending = 0
    · rw [if_pos hz] at hr; simp at hr; subst hr; simp
    · rw [if_neg hz] at hr; simp at hr

/-- What a client step means for the stepping client's own lock-protected knowledge. -/
theorem client_own {p : Params} {s : St} {c : Client} {r : St × Client} (hr : r ∈ clientStep p s c)
    (h1 : ∀ j, c.pc = .sdSend j → s.sent = j ∧ s.running = false)
    (h2 : s.startRace = false → c.pc = .stWait2 → wg s = 0) :
    (∀ j, r.2.pc = .sdSend j → r.1.sent = j ∧ r.1.running = false) ∧
    (r.1.startRace = false → r.2.pc = .stWait2 → wg r.1 = 0) := by
  obtain ⟨pc, script⟩ := c
  cases pc
  case idle =>
    simp only [clientStep] at hr
    cases script with
    | nil => simp at hr
    | cons op rest => cases op <;> (simp at hr; subst hr) <;> simp
  case sub t =>
    simp only [clientStep, List.mem_map] at hr
    obtain ⟨q, hq, rfl⟩ := hr
    cases q.2 <;> simp
  case sd1 =>
    simp only [clientStep] at hr
    by_cases hw : s.writer = true
    · rw [if_pos hw] at hr; simp at hr
    · rw [if_neg hw] at hr
      by_cases hrun : s.running = true
      · rw [if_pos hrun] at hr; simp at hr; subst hr; simp
      · rw [if_neg hrun] at hr; simp at hr; subst hr; simp
  case sdSend j =>
    obtain ⟨a, b⟩ := h1 j rfl
    simp only [clientStep] at hr
    by_cases hj : j < p.W
    · rw [if_pos hj] at hr
      by_cases hsg : s.sig < p.W
      · rw [if_pos hsg] at hr; simp at hr; subst hr; simp [a, b]
      · rw [if_neg hsg] at hr; simp at hr
    · rw [if_neg hj] at hr; simp at hr; subst hr; simp
  case sdBcast => simp [clientStep] at hr; subst hr; simp
  case sdUnlock => simp [clientStep] at hr; subst hr; simp
  case st0 =>
    simp only [clientStep] at hr
    by_cases ho : p.oldStart = true
    · rw [if_pos ho] at hr; simp at hr; subst hr; simp
    · rw [if_neg ho] at hr
      by_cases hw : s.writer = true
      · rw [if_pos hw] at hr; simp at hr
      · rw [if_neg hw] at hr; simp at hr; subst hr; cases s.running <;> simp
  case stWait1 =>
    simp only [clientStep] at hr
    by_cases hz : wg s = 0
    · rw [if_pos hz] at hr; simp at hr; subst hr; simp
    · rw [if_neg hz] at hr; simp at hr
  case stLock =>
    simp only [clientStep] at hr
    by_cases hw : s.writer = true
    · rw [if_pos hw] at hr; simp at hr
    · rw [if_neg hw] at hr; simp at hr; subst hr
      cases hrn : s.running
      · refine ⟨by simp, ?_⟩
        intro a b
        show wg s = 0
        have a' : (s.startRace || (!false && decide (0 < wg s))) = false := a
        rcases Nat.eq_zero_or_pos (wg s) with z | z
        · exact z
        · simp [z] at a'
      · simp
  case stWait2 =>
    simp only [clientStep] at hr
    by_cases hz : wg s = 0
    · rw [if_pos hz] at hr; simp at hr; subst hr; simp
    · rw [if_neg hz] at hr; simp at hr
  case stUnlock => simp [clientStep] at hr; subst hr; simp
  case wc =>
    simp only [clientStep] at hr
    by_cases hz : wg s = 0
    · rw [if_pos hz] at hr; simp at hr; subst hr; simp
    · rw [if_neg hz] at hr; simp at hr
  case wz =>
    simp only [clientStep] at hr
    by_cases hz : s.pending = 0
    · rw [if_pos hz] at hr; simp at hr; subst hr; simp
    · rw [if_neg hz] at hr; simp at hr



theorem runner_wg {p : Params} {s s' : St} (h : SInv p s) (hs : s' ∈ runnerStep p s) : wg s' ≤ wg s := by
  unfold runnerStep at hs
  rcases List.mem_append.mp hs with hs | hs
  · have := (pres_dispStep h hs).2; unfold wg; rw [this]; exact Nat.le_refl _
  · obtain ⟨i, _, hi⟩ := List.mem_flatMap.mp hs
    cases hw : s.workers[i]? with
    | none => simp [hw] at hi
    | some w =>
      simp only [hw, List.mem_map] at hi
      obtain ⟨r, hr, rfl⟩ := hi
      obtain ⟨_, b, c, _⟩ := pres_wStep h (List.mem_of_getElem? hw) hr
      unfold wg
      show (r.1.workers.set i r.2).countP _ ≤ _
      rw [b]
      have := countP_set_add (fun w => !w.isExited) s.workers i w r.2 hw
      simp only [c, Bool.not_false, b2n_true] at this
      have h2 : b2n (!r.2.isExited) ≤ 1 := by cases r.2.isExited <;> simp [b2n]
      omega

structure TI (p : Params) (c : Cfg St Thr) : Prop where
  w1 : b2n c.1.writer = c.2.countP Thr.locked
  tb : b2n c.1.bcastPending = c.2.countP Thr.bc
  hl : ∀ t ∈ c.2, ∀ cl j, t = .client cl → cl.pc = .sdSend j → c.1.sent = j ∧ c.1.running = false
  s1 : c.1.startRace = false → ∀ t ∈ c.2, ∀ cl, t = .client cl → cl.pc = .stWait2 → wg c.1 = 0

theorem bc_le_locked (ts : List Thr) : ts.countP Thr.bc ≤ ts.countP Thr.locked := by
  induction ts with
  | nil => simp
  | cons a as ih =>
    simp only [List.countP_cons]
    cases a with
    | runner => simp [Thr.bc, Thr.locked]; exact ih
    | client c => obtain ⟨pc, sc⟩ := c; cases pc <;> simp [Thr.bc, Thr.locked, CPc.bc, CPc.locked] <;> omega

theorem ti_init (p : Params) (ts : List Thr) (h : ∀ t ∈ ts, t.fresh = true) : TI p (St.init, ts) := by
  have hno : ∀ t ∈ ts, t.locked = false ∧ t.bc = false ∧ ∀ cl, t = .client cl → cl.pc = .idle := by
    intro t ht
    have := h t ht
    cases t with
    | runner => exact ⟨rfl, rfl, fun cl e => by cases e⟩
    | client c =>
      obtain ⟨pc, sc⟩ := c
      simp [Thr.fresh] at this; subst this
      exact ⟨rfl, rfl, fun cl e => by cases e; rfl⟩
  refine ⟨?_, ?_, ?_, ?_⟩
  · show 0 = _; symm; rw [List.countP_eq_zero]; intro t ht; simp [(hno t ht).1]
  · show 0 = _; symm; rw [List.countP_eq_zero]; intro t ht; simp [(hno t ht).2.1]
  · intro t ht cl j e hp; have := (hno t ht).2.2 cl e; rw [this] at hp; cases hp
  · intro _ t ht cl e hp; have := (hno t ht).2.2 cl e; rw [this] at hp; cases hp

theorem ti_step (p : Params) (a b : Cfg St Thr) (hS : SInv p a.1) (h : TI p a) (hs : Step (sys p) a b) : TI p b := by
  cases hs with
  | mk s pre t post s' t' hmem =>
    obtain ⟨w1, tb, hl, s1⟩ := h
    simp only at w1 tb hl s1 hS
    rw [countP_mid] at w1 tb
    cases t with
    | runner =>
      simp only [sys, List.mem_map] at hmem
      obtain ⟨s'', hs'', heq⟩ := hmem
      cases heq
      have hc := runner_ctl hs''
      simp only [ctl, Prod.mk.injEq] at hc
      obtain ⟨c1, c2, c3, c4, c5⟩ := hc
      have hwg := runner_wg hS hs''
      refine ⟨?_, ?_, ?_, ?_⟩
      · show b2n s'.writer = _; rw [countP_mid, c1]; exact w1
      · show b2n s'.bcastPending = _; rw [countP_mid, c2]; exact tb
      · intro u hu cl j e hp; show s'.sent = j ∧ s'.running = false; rw [c3, c5]; exact hl u hu cl j e hp
      · intro hsr u hu cl e hp
        show wg s' = 0
        have := s1 (by rw [← c4]; exact hsr) u hu cl e hp
        omega
    | client c =>
      simp only [sys, List.mem_map] at hmem
      obtain ⟨r, hr, heq⟩ := hmem
      cases heq
      have hin : Thr.client c ∈ pre ++ Thr.client c :: post := by simp
      have hlw : c.pc.locked = true → s.writer = true := by
        intro hc
        have : 0 < b2n s.writer := by rw [w1]; simp [Thr.locked, hc]; omega
        cases hw : s.writer with
        | true => rfl
        | false => rw [hw] at this; simp at this
      have hbp : c.pc.bc = true → s.bcastPending = true := by
        intro hc
        have : 0 < b2n s.bcastPending := by rw [tb]; simp [Thr.bc, hc]; omega
        cases hw : s.bcastPending with
        | true => rfl
        | false => rw [hw] at this; simp at this
      have hbw : s.bcastPending = true → s.writer = true := by
        intro hb
        have hle := bc_le_locked (pre ++ Thr.client c :: post)
        rw [countP_mid, countP_mid] at hle
        have : 0 < b2n s.writer := by rw [w1]; rw [hb] at tb; simp at tb; omega
        cases hw : s.writer with
        | true => rfl
        | false => rw [hw] at this; simp at this
      obtain ⟨d1, d2⟩ := client_delta hr hlw hbp hbw
      obtain ⟨o1, o2⟩ := client_own hr (fun j hp => hl _ hin c j rfl hp) (fun hsr hp => s1 hsr _ hin c rfl hp)
      -- every other thread keeps its knowledge
      have others : ∀ u, u ∈ pre ∨ u ∈ post → u.locked = true →
          r.1.sent = s.sent ∧ r.1.running = s.running ∧ r.1.startRace = s.startRace ∧ r.1.workers = s.workers := by
        intro u hu hul
        have hcnt : 1 ≤ pre.countP Thr.locked + post.countP Thr.locked := by
          rcases hu with hu | hu
          · have := List.countP_pos_iff.mpr ⟨u, hu, hul⟩; omega
          · have := List.countP_pos_iff.mpr ⟨u, hu, hul⟩; omega
        have hw : s.writer = true := by
          cases hw : s.writer with
          | true => rfl
          | false => rw [hw] at w1; simp at w1; omega
        have hcl : c.pc.locked = false := by
          cases hc : c.pc.locked with
          | false => rfl
          | true =>
            have : b2n s.writer ≤ 1 := by cases s.writer <;> simp
            simp [Thr.locked, hc] at w1; omega
        exact client_unlocked hr hcl hw
      refine ⟨?_, ?_, ?_, ?_⟩
      · show b2n r.1.writer = _
        rw [countP_mid]
        have e1 : (if Thr.locked (Thr.client c) = true then 1 else 0) = b2n c.pc.locked := rfl
        have e2 : (if Thr.locked (Thr.client r.2) = true then 1 else 0) = b2n r.2.pc.locked := rfl
        rw [e1] at w1; rw [e2]; omega
      · show b2n r.1.bcastPending = _
        rw [countP_mid]
        have e1 : (if Thr.bc (Thr.client c) = true then 1 else 0) = b2n c.pc.bc := rfl
        have e2 : (if Thr.bc (Thr.client r.2) = true then 1 else 0) = b2n r.2.pc.bc := rfl
        rw [e1] at tb; rw [e2]; omega
      · intro u hu cl j e hp
        show r.1.sent = j ∧ r.1.running = false
        simp only [List.mem_append, List.mem_cons] at hu
        rcases hu with hu | hu | hu
        · subst e
          obtain ⟨a1, a2, _, _⟩ := others _ (Or.inl hu) (by simp [Thr.locked, hp, CPc.locked])
          rw [a1, a2]; exact hl _ (by simp [hu]) cl j rfl hp
        · subst hu; cases e; exact o1 j hp
        · subst e
          obtain ⟨a1, a2, _, _⟩ := others _ (Or.inr hu) (by simp [Thr.locked, hp, CPc.locked])
          rw [a1, a2]; exact hl _ (by simp [hu]) cl j rfl hp
      · intro hsr u hu cl e hp
        show wg r.1 = 0
        simp only [List.mem_append, List.mem_cons] at hu
        rcases hu with hu | hu | hu
        · subst e
          obtain ⟨_, _, a3, a4⟩ := others _ (Or.inl hu) (by simp [Thr.locked, hp, CPc.locked])
          unfold wg; rw [a4]; exact s1 (by rw [← a3]; exact hsr) _ (by simp [hu]) cl rfl hp
        · subst hu; cases e; exact o2 hsr hp
        · subst e
          obtain ⟨_, _, a3, a4⟩ := others _ (Or.inr hu) (by simp [Thr.locked, hp, CPc.locked])
          unfold wg; rw [a4]; exact s1 (by rw [← a3]; exact hsr) _ (by simp [hu]) cl rfl hp



def Thr.subs (tid : Nat) : Thr → Bool
  | .client ⟨.sub t, _⟩ => t == tid
  | _ => false

def rets (s : St) : List Bool := s.tasks.map (·.returned)

def unretL (l : List Bool) (tid : Nat) : Bool :=
  match l[tid]? with
  | some r => !r
  | none => false

/-- the `Submit` call for task `tid` has not returned yet -/
def unret (s : St) (tid : Nat) : Bool := unretL (rets s) tid

theorem rets_setPhase (s : St) (t : Nat) (ph : Phase) : rets (setPhase s t ph) = rets s := by
  unfold setPhase; split
  · rename_i x hx
    simp only [rets, List.map_set]
    exact set_same _ _ _ (by simp [hx])
  · rfl

theorem rets_setReturned {s : St} {t : Nat} {x : Task} (h : s.tasks[t]? = some x) :
    rets (setReturned s t) = (rets s).set t true := by
  rw [setReturned_eq h]; simp [rets, List.map_set]

theorem unretL_set (l : List Bool) (t tid : Nat) (h : t < l.length) :
    unretL (l.set t true) tid = if tid = t then false else unretL l tid := by
  unfold unretL
  by_cases e : tid = t
  · subst e; simp [List.getElem?_set, h]
  · simp [List.getElem?_set, e, Ne.symm e]

theorem unretL_append (l : List Bool) (tid : Nat) :
    unretL (l ++ [false]) tid = if tid = l.length then true else unretL l tid := by
  unfold unretL
  rcases Nat.lt_trichotomy tid l.length with h | h | h
  · simp [List.getElem?_append_left h, Nat.ne_of_lt h]
  · subst h; simp
  · have : ¬ tid = l.length := by omega
    simp [this, List.getElem?_eq_none (show (l ++ [false]).length ≤ tid by simp; omega),
      List.getElem?_eq_none (show l.length ≤ tid by omega)]

theorem unretL_oob (l : List Bool) : unretL l l.length = false := by
  simp [unretL]

/-- `Submit`'s steps and the "has returned" flags. -/
theorem submit_rets {p : Params} {s : St} {t : Nat} {r : St × Bool} (hr : r ∈ submitStep p s t) :
    unret s t = true ∧ t < (rets s).length ∧ rets r.1 = if r.2 then (rets s).set t true else rets s := by
  unfold submitStep at hr
  cases ht : s.tasks[t]? with
  | none => simp [ht] at hr
  | some x =>
    obtain ⟨ph, ret, kids⟩ := x
    simp only [ht] at hr
    have hlt : t < (rets s).length := by simpa [rets] using lt_of_get ht
    cases ret with
    | true => simp at hr
    | false =>
      have hu : unret s t = true := by simp [unret, unretL, rets, ht]
      simp only [Bool.false_eq_true, if_false] at hr
      refine ⟨hu, hlt, ?_⟩
      cases ph
      case fresh =>
        by_cases hw : s.writer = true
        · rw [if_pos hw] at hr; simp at hr
        · rw [if_neg hw] at hr
          by_cases hrun : s.running = true
          · rw [if_pos hrun] at hr; simp at hr; subst hr; exact rets_setPhase s t _
          · rw [if_neg hrun] at hr; simp at hr; subst hr; exact rets_setPhase s t _
      case rejected => simp at hr; subst hr; exact rets_setReturned ht
      case window => simp at hr; subst hr; exact rets_setPhase s t _
      case counted =>
        by_cases hsh : s.stackHeld = true
        · rw [if_pos hsh] at hr; simp at hr
        · rw [if_neg hsh] at hr; simp at hr; subst hr; exact rets_setPhase s t _
      all_goals (simp at hr; subst hr; exact rets_setReturned ht)

theorem newTask_rets (p : Params) (s : St) (k : List Body) : rets (newTask p s k).1 = rets s ++ [false] := by
  simp [newTask, rets, emit]

theorem disp_rets {p : Params} {s s' : St} (hs : s' ∈ dispStep p s) : rets s' = rets s := by
  unfold dispStep at hs
  split at hs
  · simp at hs
  · split at hs <;> (simp at hs; try subst hs; try rfl)
  · split at hs <;> (simp at hs; try subst hs; try rfl)
  · split at hs
    · simp at hs
    · unfold popOrCond at hs; split at hs
      · simp at hs; subst hs; rfl
      · simp at hs; obtain ⟨t, _, rfl⟩ := hs; exact rets_setPhase s t _
  · split at hs
    · simp at hs
    · split at hs <;> (simp at hs; subst hs; rfl)
  · simp at hs; subst hs; rfl
  · split at hs
    · simp at hs
    · unfold popOrCond at hs; split at hs
      · simp at hs; subst hs; rfl
      · simp at hs; obtain ⟨t, _, rfl⟩ := hs; exact rets_setPhase s t _
  · split at hs
    · simp at hs; subst hs; exact rets_setPhase s _ _
    · simp at hs
  · split at hs
    · simp at hs; subst hs; rfl
    · simp at hs
  · simp at hs; subst hs; rfl

theorem submit_delta {p : Params} {s : St} {c : Nat} {q : St × Bool} (hq : q ∈ submitStep p s c) (tid : Nat) :
    b2n ((if q.2 then false else (c == tid))) + b2n (unret s tid) = b2n (c == tid) + b2n (unret q.1 tid) := by
  obtain ⟨hu, hlt, hre⟩ := submit_rets hq
  unfold unret at *
  rw [hre]
  cases hq2 : q.2
  · simp
  · simp only [if_true]
    rw [unretL_set _ _ _ hlt]
    by_cases e : tid = c
    · subst e; simp [hu, b2n]
    · have : (c == tid) = false := by simp; exact fun x => e x.symm
      simp [e, this]

theorem newTask_delta (p : Params) (s : St) (k : List Body) (tid : Nat) :
    b2n (s.tasks.length == tid) + b2n (unret s tid) = b2n (unret (newTask p s k).1 tid) := by
  unfold unret
  rw [newTask_rets, unretL_append]
  have hl : (rets s).length = s.tasks.length := by simp [rets]
  by_cases e : tid = s.tasks.length
  · subst e; rw [← hl, unretL_oob]; simp [hl, b2n]
  · have : (s.tasks.length == tid) = false := by simp; exact fun x => e x.symm
    simp [hl, e, this]

/-- Effect of a worker step on "who is inside which `Submit`". -/
theorem w_os {p : Params} {s : St} {w : WPc} {r : St × WPc} (hr : r ∈ wStep p s w) (tid : Nat) :
    b2n (r.2.subs tid) + b2n (unret s tid) = b2n (w.subs tid) + b2n (unret r.1 tid) := by
  have same : ∀ {s1 : St} {w1 : WPc}, rets s1 = rets s → w1.subs tid = w.subs tid →
      b2n (w1.subs tid) + b2n (unret s tid) = b2n (w.subs tid) + b2n (unret s1 tid) := by
    intro s1 w1 a b; unfold unret; rw [a, b]
  cases w with
  | exited => simp [wStep] at hr
  | sel => simp only [wStep] at hr; split at hr <;> (simp at hr; subst hr; exact same rfl rfl)
  | sel2 =>
    simp only [wStep, List.mem_append] at hr
    rcases hr with (hr | hr) | hr
    · split at hr
      · simp at hr; subst hr; exact same rfl rfl
      · simp at hr
    · simp only [List.mem_map] at hr; obtain ⟨t, _, rfl⟩ := hr
      exact same (by simp [takeRun, rets, emit]; exact rets_setPhase s t _) rfl
    · split at hr
      · simp at hr; subst hr; exact same rfl rfl
      · simp at hr
  | drain =>
    simp only [wStep, List.mem_append] at hr
    rcases hr with hr | hr
    · simp only [List.mem_map] at hr; obtain ⟨t, _, rfl⟩ := hr
      split
      · exact same (rets_setPhase s t _) rfl
      · exact same (by simp [takeRun, rets, emit]; exact rets_setPhase s t _) rfl
    · split at hr
      · simp at hr; subst hr; exact same rfl rfl
      · simp at hr
  | run t todo sub dr =>
    simp only [wStep] at hr
    cases sub with
    | some c =>
      simp only [List.mem_map] at hr
      obtain ⟨q, hq, rfl⟩ := hr
      have := submit_delta hq tid
      cases hq2 : q.2 <;> simp [hq2] at this ⊢ <;> simpa [WPc.subs] using this
    | none =>
      cases todo with
      | cons b rest =>
        simp at hr; subst hr
        have := newTask_delta p s b.kids tid
        simpa [WPc.subs, newTask] using this
      | nil =>
        simp only at hr
        split at hr
        · simp at hr; subst hr
          exact same (by simp [rets, emit]; exact rets_setPhase s t _) rfl
        · simp at hr
  | mark t dr =>
    simp only [wStep] at hr
    split at hr
    · simp at hr; subst hr
      exact same (by simp [rets, emit]; exact rets_setPhase s t _) (by cases dr <;> rfl)
    · simp at hr; subst hr
      exact same (by simp [rets, emit]; exact rets_setPhase s t _) rfl
    · simp at hr

theorem client_os {p : Params} {s : St} {c : Client} {r : St × Client} (hr : r ∈ clientStep p s c) (tid : Nat) :
    b2n (Thr.subs tid (.client r.2)) + b2n (unret s tid) = b2n (Thr.subs tid (.client c)) + b2n (unret r.1 tid) ∧
    r.1.workers.countP (WPc.subs tid) = s.workers.countP (WPc.subs tid) := by
  have same : ∀ {s1 : St} {c1 : Client}, rets s1 = rets s → Thr.subs tid (.client c1) = Thr.subs tid (.client c) →
      b2n (Thr.subs tid (.client c1)) + b2n (unret s tid) = b2n (Thr.subs tid (.client c)) + b2n (unret s1 tid) := by
    intro s1 c1 a b; unfold unret; rw [a, b]
  obtain ⟨pc, script⟩ := c
  cases pc
  case idle =>
    simp only [clientStep] at hr
    cases script with
    | nil => simp at hr
    | cons op rest =>
      cases op <;> (simp at hr; subst hr)
      · refine ⟨?_, rfl⟩
        have := newTask_delta p s (Body.kids ‹Body›) tid
        simpa [Thr.subs, newTask] using this
      · exact ⟨same rfl rfl, rfl⟩
      · exact ⟨same rfl rfl, rfl⟩
      · exact ⟨same rfl rfl, rfl⟩
      · exact ⟨same rfl rfl, rfl⟩
  case sub t =>
    simp only [clientStep, List.mem_map] at hr
    obtain ⟨q, hq, rfl⟩ := hr
    refine ⟨?_, by rw [pres_submitStep_workers hq]⟩
    have := submit_delta hq tid
    cases hq2 : q.2 <;> simp [hq2] at this ⊢ <;> simpa [Thr.subs] using this
  case sd1 =>
    simp only [clientStep] at hr
    split at hr
    · simp at hr
    · split at hr <;> (simp at hr; subst hr; exact ⟨same rfl rfl, rfl⟩)
  case sdSend j =>
    simp only [clientStep] at hr
    split at hr
    · split at hr
      · simp at hr; subst hr; exact ⟨same rfl rfl, rfl⟩
      · simp at hr
    · simp at hr; subst hr; exact ⟨same rfl rfl, rfl⟩
  case sdBcast => simp [clientStep] at hr; subst hr; exact ⟨same rfl rfl, rfl⟩
  case sdUnlock => simp [clientStep] at hr; subst hr; exact ⟨same rfl rfl, rfl⟩
  case st0 =>
    simp only [clientStep] at hr
    split at hr
    · simp at hr; subst hr; exact ⟨same rfl rfl, rfl⟩
    · split at hr
      · simp at hr
      · simp at hr; subst hr; exact ⟨same rfl (by cases s.running <;> rfl), rfl⟩
  case stWait1 =>
    simp only [clientStep] at hr
    split at hr
    · simp at hr; subst hr; exact ⟨same rfl rfl, rfl⟩
    · simp at hr
  case stLock =>
    simp only [clientStep] at hr
    split at hr
    · simp at hr
    · simp at hr; subst hr; exact ⟨same rfl (by cases s.running <;> rfl), rfl⟩
  case stWait2 =>
    simp only [clientStep] at hr
    by_cases hz : wg s = 0
    · rw [if_pos hz] at hr; simp at hr; subst hr
      refine ⟨same rfl rfl, ?_⟩
      have hall := all_exited_of_wg hz
      have h0 : s.workers.countP (WPc.subs tid) = 0 := by
        rw [List.countP_eq_zero]; intro w hw
        have := hall w hw; cases w <;> simp [WPc.isExited] at this; simp [WPc.subs]
      rw [h0]
      show (List.replicate p.W WPc.sel).countP (WPc.subs tid) = 0
      rw [List.countP_replicate]; simp [WPc.subs]
    · rw [if_neg hz] at hr; simp at hr
  case stUnlock => simp [clientStep] at hr; subst hr; exact ⟨same rfl rfl, rfl⟩
  case wc =>
    simp only [clientStep] at hr
    split at hr
    · simp at hr; subst hr; exact ⟨same rfl rfl, rfl⟩
    · simp at hr
  case wz =>
    simp only [clientStep] at hr
    split at hr
    · simp at hr; subst hr; exact ⟨same rfl rfl, rfl⟩
    · simp at hr

/-- Every unreturned `Submit` call has exactly one driver (a client thread or a worker inside a task). -/
def OS (c : Cfg St Thr) : Prop :=
  ∀ tid, c.2.countP (Thr.subs tid) + c.1.workers.countP (WPc.subs tid) = b2n (unret c.1 tid)

theorem os_init (ts : List Thr) (h : ∀ t ∈ ts, t.fresh = true) : OS (St.init, ts) := by
  intro tid
  have h0 : ts.countP (Thr.subs tid) = 0 := by
    rw [List.countP_eq_zero]; intro t ht
    have := h t ht
    cases t with
    | runner => simp [Thr.subs]
    | client c => obtain ⟨pc, sc⟩ := c; simp [Thr.fresh] at this; subst this; simp [Thr.subs]
  simp [h0, St.init, unret, unretL, rets]

theorem os_step (p : Params) (a b : Cfg St Thr) (hS : SInv p a.1) (h : OS a) (hs : Step (sys p) a b) : OS b := by
  cases hs with
  | mk s pre t post s' t' hmem =>
    intro tid
    have h0 := h tid
    simp only at h0 hS
    rw [countP_mid] at h0
    show (pre ++ t' :: post).countP (Thr.subs tid) + s'.workers.countP (WPc.subs tid) = b2n (unret s' tid)
    rw [countP_mid]
    cases t with
    | runner =>
      simp only [sys, List.mem_map] at hmem
      obtain ⟨s'', hs'', heq⟩ := hmem
      cases heq
      unfold runnerStep at hs''
      rcases List.mem_append.mp hs'' with hd | hw
      · have e1 := (pres_dispStep hS hd).2
        have e2 := disp_rets hd
        unfold unret; rw [e1, e2]; exact h0
      · obtain ⟨i, _, hi⟩ := List.mem_flatMap.mp hw
        cases hwi : s.workers[i]? with
        | none => simp [hwi] at hi
        | some w =>
          simp only [hwi, List.mem_map] at hi
          obtain ⟨r, hr, rfl⟩ := hi
          obtain ⟨_, e1, _, _⟩ := pres_wStep hS (List.mem_of_getElem? hwi) hr
          have d := w_os hr tid
          show _ + (r.1.workers.set i r.2).countP (WPc.subs tid) = b2n (unret r.1 tid)
          rw [e1]
          have c := countP_set_add (WPc.subs tid) s.workers i w r.2 hwi
          have hu : unret { r.1 with workers := r.1.workers.set i r.2 } tid = unret r.1 tid := rfl
          omega
    | client c =>
      simp only [sys, List.mem_map] at hmem
      obtain ⟨r, hr, heq⟩ := hmem
      cases heq
      obtain ⟨d, e⟩ := client_os hr tid
      rw [e]
      have a1 : (if Thr.subs tid (Thr.client c) = true then 1 else 0) = b2n (Thr.subs tid (Thr.client c)) := rfl
      have a2 : (if Thr.subs tid (Thr.client r.2) = true then 1 else 0) = b2n (Thr.subs tid (Thr.client r.2)) := rfl
      rw [a1] at h0; rw [a2]
      omega


end Hive.WP
