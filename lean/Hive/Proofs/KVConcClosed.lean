import Hive.Proofs.KVConcHist
/-!
# C05 protocol model: a call that answers ErrStoreClosed made no access

From the nesting invariant (`NInv`: the events of a goroutine are accepted by `pstep`) and the sequential reading (`SInv`: an
access never answers `closed`): in the events of one goroutine, a call whose response is `closed` has no access among its
linearisation points.  This is the model-level form of the repaired flushkv finding (b5d5462): a mutator of the flushkv
wrapper that answers ErrStoreClosed did not write — its trailing `Flush()` (instruction `load`) cannot turn the answer of a
mutation that took effect into `closed`.
-/
namespace Hive.KV.Conc
open Hive.Conc

/-- No access of call `i` among the events. -/
def noEff (i : Nat) (evs : List Ev) : Prop := ∀ t a o, Ev.lin t i (.eff a) o ∉ evs

/-- What the events of one goroutine satisfy when `pstep` has accepted them and stands at `st`. -/
def CJ (evs : List Ev) : PSt → Prop
  | .bad => True
  | .idle n => (∀ e ∈ evs, e.idx < n) ∧ (∀ i t, Ev.ret t i .closed ∈ evs → noEff i evs)
  | .busy n _ _ res =>
    (∀ e ∈ evs, e.idx ≤ n) ∧ (∀ i t, Ev.ret t i .closed ∈ evs → noEff i evs) ∧ (∀ t o, Ev.ret t n o ∉ evs) ∧
      ((res = none ∨ res = some .closed) → noEff n evs)

theorem noEff_snoc {i : Nat} {evs : List Ev} {e : Ev} (h : noEff i evs) (he : ∀ t a o, e ≠ Ev.lin t i (.eff a) o) :
    noEff i (evs ++ [e]) := by
  intro t a o hm
  rcases List.mem_append.mp hm with hm | hm
  · exact h t a o hm
  · simp only [List.mem_singleton] at hm
    exact he t a o hm.symm

theorem noEff_of_idx_lt {n : Nat} {evs : List Ev} (h : ∀ e ∈ evs, e.idx < n) : noEff n evs := by
  intro t a o hm
  have := h _ hm
  simp [Ev.idx] at this

theorem pstep_bad (e : Ev) : pstep .bad e = .bad := by
  cases e <;> rfl

theorem cj_step (evs : List Ev) (st : PSt) (e : Ev) (hJ : CJ evs st)
    (he : ∀ t i a, e ≠ Ev.lin t i (.eff a) .closed) : CJ (evs ++ [e]) (pstep st e) := by
  cases st with
  | bad => rw [pstep_bad]; trivial
  | idle n =>
    obtain ⟨h1, h2⟩ := hJ
    cases e with
    | lin t idx act out => simp [pstep, CJ]
    | ret t idx out => simp [pstep, CJ]
    | inv t idx op =>
      simp only [pstep]
      split
      · rename_i hidx
        subst hidx
        refine ⟨?_, ?_, ?_, ?_⟩
        · intro x hx
          rcases List.mem_append.mp hx with hx | hx
          · exact Nat.le_of_lt (h1 x hx)
          · simp only [List.mem_singleton] at hx; subst hx; simp [Ev.idx]
        · intro i t' hm
          rcases List.mem_append.mp hm with hm | hm
          · exact noEff_snoc (h2 i t' hm) (by intro _ _ _ hh; cases hh)
          · simp at hm
        · intro t' o hm
          rcases List.mem_append.mp hm with hm | hm
          · have := h1 _ hm; simp [Ev.idx] at this
          · simp at hm
        · intro _
          exact noEff_snoc (noEff_of_idx_lt h1) (by intro _ _ _ hh; cases hh)
      · trivial
  | busy n op todo res =>
    obtain ⟨h1, h2, h3, h4⟩ := hJ
    have keepIdx : ∀ e' : Ev, e'.idx = n → ∀ x ∈ evs ++ [e'], x.idx ≤ n := by
      intro e' he' x hx
      rcases List.mem_append.mp hx with hx | hx
      · exact h1 x hx
      · simp only [List.mem_singleton] at hx; subst hx; omega
    have keepRet : ∀ e' : Ev, e'.idx = n → (∀ t o, e' ≠ Ev.ret t n o) →
        (∀ i t, Ev.ret t i .closed ∈ evs ++ [e'] → noEff i (evs ++ [e'])) := by
      intro e' he' hnr i t' hm
      rcases List.mem_append.mp hm with hm | hm
      · have hne : i ≠ n := fun hh => h3 t' .closed (hh ▸ hm)
        refine noEff_snoc (h2 i t' hm) ?_
        intro t'' a o hh
        subst hh
        simp [Ev.idx] at he'
        exact hne he'
      · simp only [List.mem_singleton] at hm
        have hidx : (Ev.ret t' i .closed).idx = n := hm ▸ he'
        simp only [Ev.idx] at hidx
        exact absurd hm.symm (hidx ▸ hnr t' .closed)
    have keepNoRet : ∀ e' : Ev, (∀ t o, e' ≠ Ev.ret t n o) → ∀ t o, Ev.ret t n o ∉ evs ++ [e'] := by
      intro e' hnr t' o hm
      rcases List.mem_append.mp hm with hm | hm
      · exact h3 t' o hm
      · simp only [List.mem_singleton] at hm; exact hnr t' o hm.symm
    cases e with
    | inv t idx op' => cases op <;> cases todo <;> cases res <;> simp [pstep, CJ]
    | lin t idx act out =>
      cases act with
      | eff a' =>
        cases todo with
        | nil => cases op <;> cases res <;> simp [pstep, CJ]
        | cons a todo' =>
          have hp : pstep (.busy n op (a :: todo') res) (.lin t idx (.eff a') out) =
              if idx = n ∧ a' = a then .busy n op todo' (some out) else .bad := by
            cases op <;> cases res <;> rfl
          rw [hp]
          split
          · rename_i hc
            obtain ⟨hidx, _⟩ := hc
            subst hidx
            refine ⟨keepIdx _ rfl, keepRet _ rfl (by intro _ _ hh; cases hh), keepNoRet _ (by intro _ _ hh; cases hh), ?_⟩
            intro hres
            rcases hres with hres | hres
            · cases hres
            · simp only [Option.some.injEq] at hres
              exact absurd rfl (hres ▸ he t idx a')
          · trivial
      | failClosed =>
        cases res with
        | some r => cases op <;> cases todo <;> simp [pstep, CJ]
        | none =>
          have hp : pstep (.busy n op todo none) (.lin t idx .failClosed out) =
              if idx = n then .busy n op [] (some out) else .bad := by
            cases op <;> cases todo <;> rfl
          rw [hp]
          split
          · rename_i hidx
            subst hidx
            refine ⟨keepIdx _ rfl, keepRet _ rfl (by intro _ _ hh; cases hh), keepNoRet _ (by intro _ _ hh; cases hh), ?_⟩
            intro _
            exact noEff_snoc (h4 (Or.inl rfl)) (by intro _ _ _ hh; cases hh)
          · trivial
      | close =>
        cases res with
        | some r => cases op <;> cases todo <;> simp [pstep, CJ]
        | none =>
          cases todo with
          | cons a todo' => cases op <;> simp [pstep, CJ]
          | nil =>
            cases op with
            | close =>
              simp only [pstep]
              split
              · rename_i hidx
                subst hidx
                refine ⟨keepIdx _ rfl, keepRet _ rfl (by intro _ _ hh; cases hh), keepNoRet _ (by intro _ _ hh; cases hh), ?_⟩
                intro _
                exact noEff_snoc (h4 (Or.inl rfl)) (by intro _ _ _ hh; cases hh)
              · trivial
            | _ => simp [pstep, CJ]
    | ret t idx out =>
      cases todo with
      | cons a todo' => cases op <;> cases res <;> simp [pstep, CJ]
      | nil =>
        have hp : pstep (.busy n op [] res) (.ret t idx out) =
            if idx = n ∧ out = res.getD .ok then .idle (n + 1) else .bad := by
          cases op <;> cases res <;> rfl
        rw [hp]
        split
        · rename_i hc
          obtain ⟨hidx, hout⟩ := hc
          subst hidx
          refine ⟨?_, ?_⟩
          · intro x hx
            have := keepIdx (.ret t idx out) rfl x hx
            omega
          · intro i t' hm
            rcases List.mem_append.mp hm with hm | hm
            · have hne : i ≠ idx := fun hh => h3 t' .closed (hh ▸ hm)
              refine noEff_snoc (h2 i t' hm) (by intro _ _ _ hh; cases hh)
            · simp only [List.mem_singleton, Ev.ret.injEq] at hm
              obtain ⟨_, hi, hcl⟩ := hm
              subst hi
              have hres : res = some .closed := by
                cases res with
                | none => rw [← hcl] at hout; simp at hout
                | some r => rw [← hcl] at hout; simp at hout; rw [hout]
              exact noEff_snoc (h4 (Or.inr hres)) (by intro _ _ _ hh; cases hh)
        · trivial

theorem cj_fold (l : List Ev) : ∀ (pre : List Ev) (st : PSt), CJ pre st →
    (∀ e ∈ l, ∀ t i a, e ≠ Ev.lin t i (.eff a) .closed) → CJ (pre ++ l) (l.foldl pstep st) := by
  induction l with
  | nil => intro pre st h _; simpa using h
  | cons e rest ih =>
    intro pre st h hne
    have h1 := cj_step pre st e h (hne e (List.mem_cons_self ..))
    have := ih (pre ++ [e]) (pstep st e) h1 (fun x hx => hne x (List.mem_cons_of_mem _ hx))
    simpa [List.append_assoc] using this

/-- The events of one goroutine, accepted by `pstep`, none of them an access that answers `closed`: a call whose response is
`closed` has no access. -/
theorem closed_ret_no_eff (evs : List Ev) (hne : ∀ e ∈ evs, ∀ t i a, e ≠ Ev.lin t i (.eff a) .closed)
    (hb : prun evs ≠ .bad) (i t : Nat) (hret : Ev.ret t i .closed ∈ evs) : noEff i evs := by
  have h := cj_fold evs [] (.idle 0) ⟨by simp, by simp⟩ hne
  simp only [List.nil_append] at h
  change CJ evs (prun evs) at h
  cases hp : prun evs with
  | bad => exact absurd hp hb
  | idle n => rw [hp] at h; exact h.2 i t hret
  | busy n op todo res => rw [hp] at h; exact h.2.1 i t hret

end Hive.KV.Conc
