import Hive.Proofs.ReactiveInv3
/-! Preservation of the layer-3 (delivery) invariant by every transition. -/
namespace Hive.Reactive
open Hive.Conc

variable {S N : Type}

theorem inv3_step (o : Obj S N) {sh sh' : Sh S N} {pre post : List (Th o.WOp N)} {t t' : Th o.WOp N}
    (htr : Tr o sh t sh' t') (h1 : Inv1 o (sh, pre ++ t :: post)) (h2 : Inv2 o (sh, pre ++ t :: post))
    (h : Inv3 o (sh, pre ++ t :: post)) : Inv3 o (sh', pre ++ t' :: post) := by
  obtain ⟨hcb, hthr, hcu⟩ := h
  simp only at hcb hthr hcu
  rw [forall_mid] at hthr
  obtain ⟨ht, ho⟩ := hthr
  have h1t : Th1 sh t := (forall_mid.mp h1.thr).1
  have h1o : ∀ u ∈ pre ++ post, Th1 sh u := (forall_mid.mp h1.thr).2
  have h2t : Th2 sh t := (forall_mid.mp h2.thr).1
  have h2cb : ∀ c, Cb2 sh c := h2.cb
  have hexU : inU t = true → ∀ u ∈ pre ++ post, todo u = [] :=
    fun hin u hu => todo_nil_of_not_inU u (others_false inU pre post t _ h1.hU hin u hu)
  -- frames used by most cases
  have hoth : ∀ sh2 : Sh S N, (∀ c, (sh2.cbs c).since = (sh.cbs c).since ∧ (sh2.cbs c).d = (sh.cbs c).d) →
      ∀ u ∈ pre ++ post, Th3 sh2 u := fun sh2 hs u hu => th3_frame (ho u hu) (fun c _ => hs c)
  have hothC : ∀ (c0 : Nat) (x : Cb S N), x.since = (sh.cbs c0).since → x.d = (sh.cbs c0).d →
      ∀ u ∈ pre ++ post, Th3 (setCb sh c0 x) u := by
    intro c0 x hs hd u hu
    apply th3_frame (ho u hu)
    intro c _
    simp only [setCb_cbs]
    split
    · next heq => subst heq; exact ⟨hs, hd⟩
    · exact ⟨rfl, rfl⟩
  have hcuC : ∀ (c0 : Nat) (x : Cb S N) (t2 : Th o.WOp N), x.since = (sh.cbs c0).since → x.d = (sh.cbs c0).d →
      (∀ c, c ∈ todo t → c ∈ todo t2) →
      ∀ c ∈ (setCb sh c0 x).listed, (∀ u ∈ pre ++ t2 :: post, c ∉ todo u) →
        ((setCb sh c0 x).cbs c).d = ((setCb sh c0 x).cbs c).since.length := by
    intro c0 x t2 hs hd htodo
    apply caught_frame (sh' := setCb sh c0 x) hcu (fun _ hc => hc) htodo
    intro c _
    simp only [setCb_cbs]
    split
    · next heq => subst heq; exact ⟨hd, hs⟩
    · exact ⟨rfl, rfl⟩
  cases htr with
  | earlyReturn w rest hearly =>
    refine ⟨fun c => cb3_frame (hcb c) rfl (fun hc => hc) rfl rfl rfl rfl rfl rfl, ?_, ?_⟩
    · simp only; rw [forall_mid]
      exact ⟨th3_idle _ rest, hoth _ (fun _ => ⟨rfl, rfl⟩)⟩
    · exact caught_frame hcu (fun _ hc => hc) (by simp [todo]) (fun _ _ => ⟨rfl, rfl⟩)
  | startWrite w rest hearly hu =>
    refine ⟨fun c => cb3_frame (hcb c) rfl (fun hc => hc) rfl rfl rfl rfl rfl rfl, ?_, ?_⟩
    · simp only; rw [forall_mid]
      exact ⟨⟨by simp [todo]⟩, hoth _ (fun _ => ⟨rfl, rfl⟩)⟩
    · exact caught_frame hcu (fun _ hc => hc) (by simp [todo]) (fun _ _ => ⟨rfl, rfl⟩)
  | startSub flag rest hv =>
    refine ⟨fun c => cb3_frame (hcb c) rfl (fun hc => hc) rfl rfl rfl rfl rfl rfl, ?_, ?_⟩
    · simp only; rw [forall_mid]
      exact ⟨⟨by simp [todo]⟩, hoth _ (fun _ => ⟨rfl, rfl⟩)⟩
    · exact caught_frame hcu (fun _ hc => hc) (by simp [todo]) (fun _ _ => ⟨rfl, rfl⟩)
  | startUnsub c rest hc =>
    refine ⟨fun c => cb3_frame (hcb c) rfl (fun hc => hc) rfl rfl rfl rfl rfl rfl, ?_, ?_⟩
    · simp only; rw [forall_mid]
      exact ⟨⟨by simp [todo]⟩, hoth _ (fun _ => ⟨rfl, rfl⟩)⟩
    · exact caught_frame hcu (fun _ hc => (List.mem_filter.mp hc).1) (by simp [todo]) (fun _ _ => ⟨rfl, rfl⟩)
  | wLockV w sc hv =>
    refine ⟨fun c => cb3_frame (hcb c) rfl (fun hc => hc) rfl rfl rfl rfl rfl rfl, ?_, ?_⟩
    · simp only; rw [forall_mid]
      exact ⟨⟨by simp [todo]⟩, hoth _ (fun _ => ⟨rfl, rfl⟩)⟩
    · exact caught_frame hcu (fun _ hc => hc) (by simp [todo]) (fun _ _ => ⟨rfl, rfl⟩)
  | wChange w sc s' n hupd =>
    have hnil := hexU (by simp [inU])
    refine ⟨?_, ?_, ?_⟩
    · intro c
      have hc := hcb c
      constructor
      · simp only
        rw [List.take_append_of_le_length hc.dLe]
        exact hc.log
      · simp only [List.length_append, List.length_singleton]
        exact Nat.le_succ_of_le hc.dLe
      · intro hlt
        exact linked_append (hc.chain hlt) rfl
      · intro e he
        simp only [List.mem_append, List.mem_singleton] at he
        rcases he with he | rfl
        · exact hc.upd e he
        · exact ⟨w, hupd⟩
      · exact hc.iniOk
    · simp only; rw [forall_mid]
      refine ⟨⟨?_⟩, ?_⟩
      · intro c hc
        simp only [todo] at hc
        have hd : (sh.cbs c).d = (sh.cbs c).since.length := by
          apply hcu c hc
          rw [forall_mid]
          refine ⟨by simp [todo], ?_⟩
          intro u hu; rw [hnil u hu]; simp
        refine ⟨{ before := sh.st, note := n, after := s' }, ?_, rfl⟩
        simp only [hd]
        exact List.drop_left
      · intro u hu
        constructor
        intro c hc
        rw [hnil u hu] at hc; cases hc
    · intro c hc hall
      rw [forall_mid] at hall
      exact absurd (by simpa [todo] using hc) hall.1
  | wQuiet w sc bump hupd =>
    refine ⟨fun c => cb3_frame (hcb c) rfl (fun hc => hc) rfl rfl rfl rfl rfl rfl, ?_, ?_⟩
    · simp only; rw [forall_mid]
      exact ⟨⟨by simp [todo]⟩, hoth _ (fun _ => ⟨rfl, rfl⟩)⟩
    · exact caught_frame hcu (fun _ hc => hc) (by simp [todo]) (fun _ _ => ⟨rfl, rfl⟩)
  | wRelV id n todo sc =>
    refine ⟨fun c => cb3_frame (hcb c) rfl (fun hc => hc) rfl rfl rfl rfl rfl rfl, ?_, ?_⟩
    · simp only; rw [forall_mid]
      exact ⟨⟨ht.pend⟩, hoth _ (fun _ => ⟨rfl, rfl⟩)⟩
    · exact caught_frame hcu (fun _ hc => hc) (fun _ hc => hc) (fun _ _ => ⟨rfl, rfl⟩)
  | wDone id n sc =>
    refine ⟨fun c => cb3_frame (hcb c) rfl (fun hc => hc) rfl rfl rfl rfl rfl rfl, ?_, ?_⟩
    · simp only; rw [forall_mid]
      exact ⟨th3_idle _ sc, hoth _ (fun _ => ⟨rfl, rfl⟩)⟩
    · exact caught_frame hcu (fun _ hc => hc) (by simp [todo]) (fun _ _ => ⟨rfl, rfl⟩)
  | wNone id c rest sc =>
    have := h1t.noteNone rfl
    simp [todo] at this
  | wTake id n c rest sc he htk =>
    obtain ⟨e, hdrop, hnote⟩ := ht.pend c (by simp [todo])
    have hn : n = e.note := by simpa [tnote] using hnote
    obtain ⟨hlen, htake⟩ := drop_one hdrop
    have hnd := h1t.workNodup
    simp only [work, List.nodup_cons] at hnd
    have hnil := hexU (by simp [inU])
    refine ⟨?_, ?_, ?_⟩
    · intro x
      by_cases hx : x = c
      · subst hx
        have hc := hcb x
        constructor <;> simp only [setCb_cbs, if_true, setCb_st, setCb_ncb]
        · rw [notes_enter, hc.log, htake, hn]
          simp [iniPart, List.append_assoc]
        · omega
        · exact hc.chain
        · exact hc.upd
        · exact hc.iniOk
      · exact cb3_setCb_ne (hcb x) hx
    · simp only; rw [forall_mid]
      refine ⟨⟨?_⟩, ?_⟩
      · intro x hx
        simp only [todo] at hx
        have hxc : x ≠ c := fun h => hnd.1 (h ▸ hx)
        simp only [setCb_cbs, hxc, if_false]
        exact ht.pend x (by simp [todo, hx])
      · intro u hu
        constructor
        intro x hx
        rw [hnil u hu] at hx; cases hx
    · intro x hx hall
      rw [forall_mid] at hall
      simp only [setCb_listed] at hx
      simp only [setCb_cbs]
      split
      · next heq => subst heq; simp only; omega
      · next hne =>
        apply hcu x hx
        rw [forall_mid]
        refine ⟨?_, hall.2⟩
        intro hin
        simp only [todo, List.mem_cons] at hin
        rcases hin with hin | hin
        · exact hne hin
        · exact hall.1 (by simpa [todo] using hin)
  | wSkip id n c rest sc he htk =>
    have hun : (sh.cbs c).unsub = true := takes_false_unsub (h2t.lastLt c (by simp [todo])) htk
    refine ⟨hcb, ?_, ?_⟩
    · simp only; rw [forall_mid]
      refine ⟨⟨?_⟩, ho⟩
      intro x hx
      exact ht.pend x (by simp only [todo] at hx ⊢; exact List.mem_cons_of_mem _ hx)
    · intro x hx hall
      rw [forall_mid] at hall
      apply hcu x hx
      rw [forall_mid]
      refine ⟨?_, hall.2⟩
      intro hin
      simp only [todo, List.mem_cons] at hin
      rcases hin with hin | hin
      · subst hin; exact (h2cb x).unsubNL hun hx
      · exact hall.1 (by simpa [todo] using hin)
  | wExit id n c rest sc =>
    refine ⟨?_, ?_, ?_⟩
    · intro x
      by_cases hx : x = c
      · subst hx
        refine cb3_frame (hcb x) rfl (fun hc => hc) ?_ ?_ ?_ ?_ ?_ ?_ <;> simp [setCb_cbs, notes_exit]
      · exact cb3_setCb_ne (hcb x) hx
    · simp only; rw [forall_mid]
      refine ⟨⟨?_⟩, hothC c _ rfl rfl⟩
      intro x hx
      have := ht.pend x (by simpa [todo] using hx)
      simp only [setCb_cbs]
      split
      · next heq => subst heq; simpa [tnote] using this
      · simpa [tnote] using this
    · exact hcuC c _ _ rfl rfl (fun _ hc => by simpa [todo] using hc)
  | sRegister flag sc =>
    refine ⟨?_, ?_, ?_⟩
    · intro x
      by_cases hx : x = sh.ncb
      · subst hx
        constructor <;> simp [setCb_cbs, notes, iniPart, linked]
        cases flag <;> simp
      · have hc : (setCb sh sh.ncb ({ elock := true, last := sh.uid, s0 := sh.st, ini := o.ini sh.st flag } : Cb S N)).cbs x
            = sh.cbs x := by simp [setCb_cbs, hx]
        refine cb3_frame (hcb x) rfl (fun hlt => ?_) ?_ ?_ ?_ ?_ ?_ ?_ <;> (try simp only [hc])
        have : x < sh.ncb + 1 := hlt
        omega
    · simp only; rw [forall_mid]
      refine ⟨⟨by simp [todo]⟩, ?_⟩
      intro u hu
      apply th3_frame (ho u hu)
      intro c hc
      have : c ≠ sh.ncb := Nat.ne_of_lt ((h1o u hu).workLt c (todo_sub_work u c hc))
      simp [setCb_cbs, this]
    · intro x hx hall
      simp only [setCb_listed, List.mem_append, List.mem_singleton] at hx
      simp only [setCb_cbs]
      split
      · rfl
      · next hne =>
        rcases hx with hx | hx
        · apply hcu x hx
          rw [forall_mid] at hall ⊢
          exact ⟨by simp [todo], hall.2⟩
        · exact absurd hx hne
  | sRelV c sc =>
    refine ⟨fun c => cb3_frame (hcb c) rfl (fun hc => hc) rfl rfl rfl rfl rfl rfl, ?_, ?_⟩
    · simp only; rw [forall_mid]
      exact ⟨⟨by simp [todo]⟩, hoth _ (fun _ => ⟨rfl, rfl⟩)⟩
    · exact caught_frame hcu (fun _ hc => hc) (by simp [todo]) (fun _ _ => ⟨rfl, rfl⟩)
  | sEnter c n sc hini =>
    obtain ⟨hevs, hd, hidone, hun⟩ := h2t.fresh c (by simp [isFresh])
    refine ⟨?_, ?_, ?_⟩
    · intro x
      by_cases hx : x = c
      · subst hx
        have hc := hcb x
        constructor <;> simp only [setCb_cbs, if_true, setCb_st, setCb_ncb]
        · simp [hevs, notes, iniPart, hini, hd]
        · exact hc.dLe
        · exact hc.chain
        · exact hc.upd
        · exact hc.iniOk
      · exact cb3_setCb_ne (hcb x) hx
    · simp only; rw [forall_mid]
      exact ⟨⟨by simp [todo]⟩, hothC c _ rfl rfl⟩
    · exact hcuC c _ _ rfl rfl (by simp [todo])
  | sNoInit c sc hini =>
    obtain ⟨hevs, hd, hidone, hun⟩ := h2t.fresh c (by simp [isFresh])
    refine ⟨?_, ?_, ?_⟩
    · intro x
      by_cases hx : x = c
      · subst hx
        have hc := hcb x
        constructor <;> simp only [setCb_cbs, if_true, setCb_st, setCb_ncb]
        · simp [hevs, notes, iniPart, hini, hd]
        · exact hc.dLe
        · exact hc.chain
        · exact hc.upd
        · exact hc.iniOk
      · exact cb3_setCb_ne (hcb x) hx
    · simp only; rw [forall_mid]
      exact ⟨th3_idle _ sc, hothC c _ rfl rfl⟩
    · exact hcuC c _ _ rfl rfl (by simp [todo])
  | sExit c sc =>
    refine ⟨?_, ?_, ?_⟩
    · intro x
      by_cases hx : x = c
      · subst hx
        refine cb3_frame (hcb x) rfl (fun hc => hc) ?_ ?_ ?_ ?_ ?_ ?_ <;> simp [setCb_cbs, notes_exit]
      · exact cb3_setCb_ne (hcb x) hx
    · simp only; rw [forall_mid]
      exact ⟨th3_idle _ sc, hothC c _ rfl rfl⟩
    · exact hcuC c _ _ rfl rfl (by simp [todo])
  | uMark c sc he =>
    refine ⟨?_, ?_, ?_⟩
    · intro x
      by_cases hx : x = c
      · subst hx
        refine cb3_frame (hcb x) rfl (fun hc => hc) ?_ ?_ ?_ ?_ ?_ ?_ <;> simp [setCb_cbs, notes_unsubRet]
      · exact cb3_setCb_ne (hcb x) hx
    · simp only; rw [forall_mid]
      exact ⟨th3_idle _ sc, hothC c _ rfl rfl⟩
    · exact hcuC c _ _ rfl rfl (by simp [todo])

end Hive.Reactive
