import Hive.Model.DerivedLockSys
import Hive.Proofs.DerivedLocks
/-!
# C14: deadlock freedom of the lock system with fresh and conditional acquisitions

* `ranked2_deadlock_free`: any pool of threads whose scripts are `Ranked2` and which is `PoolWF` never
  deadlocks — for every number of threads, every script and every schedule.
* `ranked2_append`, `freshOf_append`, `plainOf_append`: concatenation of scripts.
* `tranked_inst`, `freshOf_inst`, `plainOf_inst`: a template that passes the decidable check `TRanked`
  is `Ranked2` under every instantiation that is injective within each lock class.
* `poolWF_of_disciplined`, `disciplined_inst`, `clsDisciplined_append`: fresh locks are execution locks,
  plain acquisitions are not, hence `PoolWF.noPlain`.
* the closing `example`: the exemption of `fresh` from the rank condition is needed (thread `A` creates an
  `inExec` lock under `sorted`, thread `W` takes `sorted` under that `inExec` lock) and within the
  hypotheses of `ranked2_deadlock_free`.
-/
namespace Hive.Derived
open Hive.Conc

/-! ## Pending fresh locks and plain acquisitions of a pool -/

/-- The fresh locks the pool has still to create. -/
def poolFresh (ts : List LT2) : List Lock := ts.flatMap (fun t => freshOf t.script)

/-- The locks the pool will still take with a plain `acq`. -/
def poolPlain (ts : List LT2) : List Lock := ts.flatMap (fun t => plainOf t.script)

theorem poolFresh_mid (pre post : List LT2) (t : LT2) :
    poolFresh (pre ++ t :: post) = poolFresh pre ++ (freshOf t.script ++ poolFresh post) := by
  simp [poolFresh, List.flatMap_append, List.flatMap_cons]

theorem poolPlain_mid (pre post : List LT2) (t : LT2) :
    poolPlain (pre ++ t :: post) = poolPlain pre ++ (plainOf t.script ++ poolPlain post) := by
  simp [poolPlain, List.flatMap_append, List.flatMap_cons]

theorem freshOf_tail_sublist (a : Act2) (rest : List Act2) : (freshOf rest).Sublist (freshOf (a :: rest)) := by
  cases a <;> simp [freshOf]

theorem plainOf_tail_sublist (a : Act2) (rest : List Act2) : (plainOf rest).Sublist (plainOf (a :: rest)) := by
  cases a <;> simp [plainOf]

/-- A thread that drops the head of its script only shrinks the pending fresh locks. -/
theorem poolFresh_step_sublist (pre post : List LT2) (h h' : List Lock) (a : Act2) (rest : List Act2) :
    (poolFresh (pre ++ ⟨h', rest⟩ :: post)).Sublist (poolFresh (pre ++ ⟨h, a :: rest⟩ :: post)) := by
  rw [poolFresh_mid, poolFresh_mid]
  exact List.Sublist.append (List.Sublist.refl _)
    (List.Sublist.append (freshOf_tail_sublist a rest) (List.Sublist.refl _))

theorem poolPlain_step_sublist (pre post : List LT2) (h h' : List Lock) (a : Act2) (rest : List Act2) :
    (poolPlain (pre ++ ⟨h', rest⟩ :: post)).Sublist (poolPlain (pre ++ ⟨h, a :: rest⟩ :: post)) := by
  rw [poolPlain_mid, poolPlain_mid]
  exact List.Sublist.append (List.Sublist.refl _)
    (List.Sublist.append (plainOf_tail_sublist a rest) (List.Sublist.refl _))

/-- The lock a thread is about to create is not among the fresh locks pending afterwards. -/
theorem fresh_not_pending (pre post : List LT2) (h h' : List Lock) (l : Lock) (rest : List Act2)
    (hn : (poolFresh (pre ++ ⟨h, .fresh l :: rest⟩ :: post)).Nodup) :
    l ∉ poolFresh (pre ++ ⟨h', rest⟩ :: post) := by
  rw [poolFresh_mid] at hn ⊢
  simp only [freshOf, List.cons_append] at hn
  obtain ⟨_, h2, h3⟩ := List.nodup_append.1 hn
  intro hm
  simp only [List.mem_append] at hm
  rcases hm with hm | hm | hm
  · exact h3 l hm l (by simp) rfl
  · exact (List.nodup_cons.1 h2).1 (List.mem_append_left _ hm)
  · exact (List.nodup_cons.1 h2).1 (List.mem_append_right _ hm)

/-- The lock a thread is about to take with `acq` is among the plain acquisitions of the pool. -/
theorem acq_mem_poolPlain (pre post : List LT2) (h : List Lock) (l : Lock) (rest : List Act2) :
    l ∈ poolPlain (pre ++ ⟨h, .acq l :: rest⟩ :: post) := by
  rw [poolPlain_mid]
  simp [plainOf]

/-! ## The invariant -/

structure LockInv2 (c : Cfg LS2 LT2) : Prop where
  ranked : ∀ t ∈ c.2, Ranked2 t.held t.script
  owner : ∀ l ∈ c.1.held, ∃ t ∈ c.2, l ∈ t.held
  nodup : c.1.held.Nodup
  fnodup : (poolFresh c.2).Nodup
  fhidden : ∀ l ∈ poolFresh c.2, l ∉ c.1.visible ∧ l ∉ c.1.held
  fplain : ∀ l ∈ poolFresh c.2, l ∉ poolPlain c.2

theorem forall_mid {α : Type} (p : α → Prop) (pre post : List α) (t t' : α)
    (h : ∀ x ∈ pre ++ t :: post, p x) (ht' : p t') : ∀ x ∈ pre ++ t' :: post, p x := by
  intro x hx
  simp only [List.mem_append, List.mem_cons] at hx
  rcases hx with h1 | rfl | h1
  · exact h x (by simp [h1])
  · exact ht'
  · exact h x (by simp [h1])

theorem owner_mid (pre post : List LT2) (t t' : LT2) (l : Lock)
    (h : ∃ t0 ∈ pre ++ t :: post, l ∈ t0.held) (ht' : l ∈ t.held → l ∈ t'.held) :
    ∃ t0 ∈ pre ++ t' :: post, l ∈ t0.held := by
  obtain ⟨t0, ht0, hheld⟩ := h
  simp only [List.mem_append, List.mem_cons] at ht0
  rcases ht0 with h1 | rfl | h1
  · exact ⟨t0, by simp [h1], hheld⟩
  · exact ⟨t', by simp, ht' hheld⟩
  · exact ⟨t0, by simp [h1], hheld⟩

/-- The part of the invariant that only depends on the scripts shrinking. -/
theorem lockInv2_scripts (s : LS2) (pre post : List LT2) (h h' : List Lock) (a : Act2) (rest : List Act2)
    (hi : LockInv2 (s, pre ++ ⟨h, a :: rest⟩ :: post)) :
    (poolFresh (pre ++ ⟨h', rest⟩ :: post)).Nodup ∧
      (∀ l ∈ poolFresh (pre ++ ⟨h', rest⟩ :: post), l ∉ poolPlain (pre ++ ⟨h', rest⟩ :: post)) := by
  refine ⟨(poolFresh_step_sublist pre post h h' a rest).nodup hi.fnodup, ?_⟩
  intro l hl hp
  exact hi.fplain l ((poolFresh_step_sublist pre post h h' a rest).subset hl)
    ((poolPlain_step_sublist pre post h h' a rest).subset hp)

/-- Taking a lock that is not pending and not held. -/
theorem lockInv2_take (s : LS2) (vis' : List Lock) (pre post : List LT2) (held : List Lock) (a : Act2)
    (l : Lock) (rest : List Act2) (hi : LockInv2 (s, pre ++ ⟨held, a :: rest⟩ :: post))
    (hrk : Ranked2 (l :: held) rest) (hls : l ∉ s.held)
    (hlp : l ∉ poolFresh (pre ++ ⟨l :: held, rest⟩ :: post))
    (hvis : ∀ l0 ∈ poolFresh (pre ++ ⟨l :: held, rest⟩ :: post), l0 ∉ s.visible → l0 ∉ vis') :
    LockInv2 ({ held := l :: s.held, visible := vis' }, pre ++ ⟨l :: held, rest⟩ :: post) := by
  obtain ⟨hfn, hfp⟩ := lockInv2_scripts s pre post held (l :: held) a rest hi
  refine ⟨?_, ?_, ?_, hfn, ?_, hfp⟩
  · exact forall_mid _ pre post _ _ hi.ranked hrk
  · intro l' hl'
    simp only [List.mem_cons] at hl'
    rcases hl' with rfl | hl'
    · exact ⟨⟨l' :: held, rest⟩, by simp, by simp⟩
    · exact owner_mid pre post _ _ l' (hi.owner l' hl') (fun hh => List.mem_cons_of_mem _ hh)
  · exact List.nodup_cons.2 ⟨hls, hi.nodup⟩
  · intro l0 hl0
    have hold := hi.fhidden l0 ((poolFresh_step_sublist pre post held (l :: held) a rest).subset hl0)
    refine ⟨hvis l0 hl0 hold.1, ?_⟩
    simp only [List.mem_cons, not_or]
    refine ⟨?_, hold.2⟩
    rintro rfl
    exact hlp hl0

/-- Releasing a lock. -/
theorem lockInv2_release (s : LS2) (pre post : List LT2) (held : List Lock) (a : Act2)
    (l : Lock) (rest : List Act2) (hi : LockInv2 (s, pre ++ ⟨held, a :: rest⟩ :: post))
    (hrk : Ranked2 (held.erase l) rest) :
    LockInv2 ({ s with held := s.held.erase l }, pre ++ ⟨held.erase l, rest⟩ :: post) := by
  obtain ⟨hfn, hfp⟩ := lockInv2_scripts s pre post held (held.erase l) a rest hi
  refine ⟨?_, ?_, ?_, hfn, ?_, hfp⟩
  · exact forall_mid _ pre post _ _ hi.ranked hrk
  · intro l' hl'
    obtain ⟨hne, hl's⟩ := (List.Nodup.mem_erase_iff hi.nodup).1 hl'
    exact owner_mid pre post _ _ l' (hi.owner l' hl's) (fun hh => (List.mem_erase_of_ne hne).2 hh)
  · exact hi.nodup.erase l
  · intro l0 hl0
    have hold := hi.fhidden l0 ((poolFresh_step_sublist pre post held (held.erase l) a rest).subset hl0)
    exact ⟨hold.1, fun hm => hold.2 (List.mem_of_mem_erase hm)⟩

/-- Skipping a conditional action. -/
theorem lockInv2_skip (s : LS2) (pre post : List LT2) (held : List Lock) (a : Act2)
    (rest : List Act2) (hi : LockInv2 (s, pre ++ ⟨held, a :: rest⟩ :: post))
    (hrk : Ranked2 held rest) :
    LockInv2 (s, pre ++ ⟨held, rest⟩ :: post) := by
  obtain ⟨hfn, hfp⟩ := lockInv2_scripts s pre post held held a rest hi
  refine ⟨?_, ?_, hi.nodup, hfn, ?_, hfp⟩
  · exact forall_mid _ pre post _ _ hi.ranked hrk
  · intro l' hl'
    exact owner_mid pre post _ _ l' (hi.owner l' hl') (fun hh => hh)
  · intro l0 hl0
    exact hi.fhidden l0 ((poolFresh_step_sublist pre post held held a rest).subset hl0)

theorem lockInv2_step (a b : Cfg LS2 LT2) (h : LockInv2 a) (hs : Step lockSys2 a b) : LockInv2 b := by
  cases hs with
  | mk s pre t post s' t' hm =>
    have hrt : Ranked2 t.held t.script := h.ranked t (by simp)
    obtain ⟨held, script⟩ := t
    simp only [lockSys2, lockStep2] at hm
    cases script with
    | nil => simp at hm
    | cons act rest =>
      cases act with
      | acq l =>
        simp only at hm
        by_cases hl : l ∈ s.held
        · simp [hl] at hm
        · simp only [List.contains_iff_mem, hl, if_false, List.mem_singleton, Prod.mk.injEq] at hm
          obtain ⟨rfl, rfl⟩ := hm
          refine lockInv2_take s s.visible pre post held _ l rest h hrt.2 hl ?_ (fun _ _ hv => hv)
          intro hp
          exact h.fplain l ((poolFresh_step_sublist pre post held (l :: held) _ rest).subset hp)
            (acq_mem_poolPlain pre post held l rest)
      | rel l =>
        simp only [List.mem_singleton, Prod.mk.injEq] at hm
        obtain ⟨rfl, rfl⟩ := hm
        exact lockInv2_release s pre post held _ l rest h hrt.2
      | fresh l =>
        simp only at hm
        by_cases hl : l ∈ s.held
        · simp [hl] at hm
        · simp only [List.contains_iff_mem, hl, if_false, List.mem_singleton, Prod.mk.injEq] at hm
          obtain ⟨rfl, rfl⟩ := hm
          have hlp := fresh_not_pending pre post held (l :: held) l rest h.fnodup
          refine lockInv2_take s (l :: s.visible) pre post held _ l rest h hrt.2 hl hlp ?_
          intro l0 hl0 hv
          simp only [List.mem_cons, not_or]
          refine ⟨?_, hv⟩
          rintro rfl
          exact hlp hl0
      | acqIf l =>
        simp only at hm
        by_cases hv : l ∈ s.visible
        · by_cases hl : l ∈ s.held
          · simp [hv, hl] at hm
          · simp only [List.contains_iff_mem, hv, hl, if_true, if_false, List.mem_singleton, Prod.mk.injEq] at hm
            obtain ⟨rfl, rfl⟩ := hm
            refine lockInv2_take s s.visible pre post held _ l rest h hrt.2.1 hl ?_ (fun _ _ hv => hv)
            intro hp
            exact (h.fhidden l ((poolFresh_step_sublist pre post held (l :: held) _ rest).subset hp)).1 hv
        · simp only [List.contains_iff_mem, hv, if_false, List.mem_singleton, Prod.mk.injEq] at hm
          obtain ⟨rfl, rfl⟩ := hm
          exact lockInv2_skip _ pre post held _ rest h hrt.2.2
      | relIf l =>
        simp only at hm
        by_cases hl : l ∈ held
        · simp only [List.contains_iff_mem, hl, if_true, List.mem_singleton, Prod.mk.injEq] at hm
          obtain ⟨rfl, rfl⟩ := hm
          exact lockInv2_release s pre post held _ l rest h hrt
        · simp only [List.contains_iff_mem, hl, if_false, List.mem_singleton, Prod.mk.injEq] at hm
          obtain ⟨rfl, rfl⟩ := hm
          refine lockInv2_skip _ pre post held _ rest h ?_
          have : Ranked2 (held.erase l) rest := hrt
          rwa [List.erase_of_not_mem hl] at this

theorem mem_poolFresh {ts : List LT2} {l : Lock} : l ∈ poolFresh ts ↔ ∃ t ∈ ts, l ∈ freshOf t.script := by
  simp [poolFresh, List.mem_flatMap]

theorem mem_poolPlain {ts : List LT2} {l : Lock} : l ∈ poolPlain ts ↔ ∃ t ∈ ts, l ∈ plainOf t.script := by
  simp [poolPlain, List.mem_flatMap]

theorem lockInv2_reach (vis0 : List Lock) (ts0 : List LT2)
    (h0 : ∀ t ∈ ts0, t.held = [] ∧ Ranked2 [] t.script) (hw : PoolWF vis0 ts0)
    (c : Cfg LS2 LT2) (hr : Reach lockSys2 ({ held := [], visible := vis0 }, ts0) c) : LockInv2 c := by
  refine inv_induction LockInv2 ?_ lockInv2_step hr
  refine ⟨?_, ?_, ?_, hw.nodup, ?_, ?_⟩
  · intro t ht
    obtain ⟨h1, h2⟩ := h0 t ht
    rw [h1]; exact h2
  · intro l hl; simp at hl
  · exact List.nodup_nil
  · intro l hl
    obtain ⟨t, ht, hlt⟩ := mem_poolFresh.1 hl
    exact ⟨hw.notVisible t ht l hlt, by simp⟩
  · intro l hl hp
    obtain ⟨t, ht, hlt⟩ := mem_poolFresh.1 hl
    obtain ⟨t', ht', hlt'⟩ := mem_poolPlain.1 hp
    exact hw.noPlain t ht t' ht' l hlt hlt'

/-! ## No deadlock -/

/-- The rank a thread is waiting for (`+ 1`), `0` if it is not at a possibly blocking acquisition. -/
def waitRank2 (t : LT2) : Nat :=
  match t.script with
  | .acq l :: _ => l.cls.rank + 1
  | .acqIf l :: _ => l.cls.rank + 1
  | _ => 0

/-- The thread is at a possibly blocking acquisition of `l`, ranked above everything it holds. -/
def Awaits (t : LT2) (l : Lock) : Prop :=
  waitRank2 t = l.cls.rank + 1 ∧ (Ranked2 t.held t.script → ∀ h ∈ t.held, h.cls.rank < l.cls.rank)

/-- In a stuck configuration a thread with a non-empty script waits for a lock that is taken. -/
theorem stuck_thread2 (s : LS2) (ts : List LT2) (hi : LockInv2 (s, ts)) (t : LT2) (ht : t ∈ ts)
    (hst : lockStep2 s t = []) (hne : t.script ≠ []) :
    ∃ l, Awaits t l ∧ l ∈ s.held := by
  obtain ⟨held, script⟩ := t
  cases script with
  | nil => exact absurd rfl hne
  | cons act rest =>
    cases act with
    | acq l =>
      refine ⟨l, ⟨rfl, fun hr => hr.1⟩, ?_⟩
      by_cases hl : l ∈ s.held
      · exact hl
      · simp [lockStep2, hl] at hst
    | rel l => simp [lockStep2] at hst
    | fresh l =>
      have hl : l ∉ s.held := (hi.fhidden l (mem_poolFresh.2 ⟨_, ht, by simp [freshOf]⟩)).2
      simp [lockStep2, hl] at hst
    | acqIf l =>
      refine ⟨l, ⟨rfl, fun hr => hr.1⟩, ?_⟩
      by_cases hv : l ∈ s.visible
      · by_cases hl : l ∈ s.held
        · exact hl
        · simp [lockStep2, hv, hl] at hst
      · simp [lockStep2, hv] at hst
    | relIf l =>
      by_cases hl : l ∈ held
      · simp [lockStep2, hl] at hst
      · simp [lockStep2, hl] at hst

theorem lockInv2_no_deadlock (c : Cfg LS2 LT2) (hi : LockInv2 c) :
    ¬ Deadlock lockSys2 (fun t => t.script = []) c := by
  obtain ⟨s, ts⟩ := c
  have hr := hi.ranked
  have ho := hi.owner
  simp only at hr ho
  rintro ⟨hstuck, t1, ht1, hne1⟩
  simp only [Stuck, lockSys2] at hstuck
  simp only at ht1 hne1
  have htsne : ts ≠ [] := by intro h; rw [h] at ht1; simp at ht1
  obtain ⟨tm, htm, hmax⟩ := exists_max_measure waitRank2 ts htsne
  -- the maximal thread is at a blocking acquisition
  obtain ⟨l1, ⟨hw1, _⟩, _⟩ := stuck_thread2 s ts hi t1 ht1 (hstuck t1 ht1) hne1
  have hpos : 0 < waitRank2 tm := by
    have := hmax t1 ht1
    rw [hw1] at this
    omega
  have hnem : tm.script ≠ [] := by
    intro h; simp [waitRank2, h] at hpos
  obtain ⟨l, ⟨hwm, _⟩, hls⟩ := stuck_thread2 s ts hi tm htm (hstuck tm htm) hnem
  -- its lock is held by some thread, which is itself blocked on a higher lock
  obtain ⟨t', ht', hheld⟩ := ho l hls
  have hrk := hr t' ht'
  have hne' : t'.script ≠ [] := by
    intro h
    rw [h] at hrk
    simp only [Ranked2] at hrk
    rw [hrk] at hheld; simp at hheld
  obtain ⟨l', ⟨hw', hlt'⟩, _⟩ := stuck_thread2 s ts hi t' ht' (hstuck t' ht') hne'
  have hlt : l.cls.rank < l'.cls.rank := hlt' hrk l hheld
  have := hmax t' ht'
  rw [hw', hwm] at this
  omega

/-- T1: ranked scripts with fresh and conditional acquisitions never deadlock. -/
theorem ranked2_deadlock_free (vis0 : List Lock) (ts0 : List LT2)
    (h0 : ∀ t ∈ ts0, t.held = [] ∧ Ranked2 [] t.script) (hw : PoolWF vis0 ts0)
    (c : Cfg LS2 LT2) (hr : Reach lockSys2 ({ held := [], visible := vis0 }, ts0) c) :
    ¬ Deadlock lockSys2 (fun t => t.script = []) c :=
  lockInv2_no_deadlock c (lockInv2_reach vis0 ts0 h0 hw c hr)

/-! ## T2: concatenation -/

theorem ranked2_append_gen (b : List Act2) (hb : Ranked2 [] b) :
    ∀ (a : List Act2) (held : List Lock), Ranked2 held a → Ranked2 held (a ++ b)
  | [], held, ha => by
    simp only [Ranked2] at ha
    rw [ha]; exact hb
  | .acq l :: rest, held, ha => ⟨ha.1, ranked2_append_gen b hb rest _ ha.2⟩
  | .rel l :: rest, held, ha => ⟨ha.1, ranked2_append_gen b hb rest _ ha.2⟩
  | .fresh l :: rest, held, ha => ⟨ha.1, ranked2_append_gen b hb rest _ ha.2⟩
  | .acqIf l :: rest, held, ha =>
    ⟨ha.1, ranked2_append_gen b hb rest _ ha.2.1, ranked2_append_gen b hb rest _ ha.2.2⟩
  | .relIf l :: rest, held, ha => ranked2_append_gen b hb rest (held.erase l) ha

theorem ranked2_append (a b : List Act2) (ha : Ranked2 [] a) (hb : Ranked2 [] b) : Ranked2 [] (a ++ b) :=
  ranked2_append_gen b hb a [] ha

theorem freshOf_append (a b : List Act2) : freshOf (a ++ b) = freshOf a ++ freshOf b := by
  induction a with
  | nil => rfl
  | cons x rest ih => cases x <;> simp [freshOf, ih]

theorem plainOf_append (a b : List Act2) : plainOf (a ++ b) = plainOf a ++ plainOf b := by
  induction a with
  | nil => rfl
  | cons x rest ih => cases x <;> simp [plainOf, ih]

theorem ranked2_flatMap {α : Type} (f : α → List Act2) (hf : ∀ x, Ranked2 [] (f x)) :
    ∀ xs : List α, Ranked2 [] (xs.flatMap f)
  | [] => by simp [Ranked2]
  | x :: xs => by
    rw [List.flatMap_cons]
    exact ranked2_append _ _ (hf x) (ranked2_flatMap f hf xs)

/-! ## T3: templates -/

def tfreshOf : List TAct → List Role
  | [] => []
  | .fresh r :: rest => r :: tfreshOf rest
  | _ :: rest => tfreshOf rest

def tplainOf : List TAct → List Role
  | [] => []
  | .acq r :: rest => r :: tplainOf rest
  | _ :: rest => tplainOf rest

theorem instLock_inj (σ : Role → Nat) (hσ : ∀ r r' : Role, r.cls = r'.cls → σ r = σ r' → r = r')
    (r r' : Role) (h : instLock σ r = instLock σ r') : r = r' := by
  simp only [instLock, Lock.mk.injEq] at h
  exact hσ r r' h.1 h.2

theorem mem_map_inj {α β : Type} (f : α → β) (hf : ∀ x y, f x = f y → x = y) (a : α) (l : List α) :
    f a ∈ l.map f ↔ a ∈ l := by
  constructor
  · intro h
    obtain ⟨x, hx, hfx⟩ := List.mem_map.1 h
    rw [← hf x a hfx]; exact hx
  · exact List.mem_map_of_mem

theorem map_erase_inj {α β : Type} [DecidableEq α] [DecidableEq β] (f : α → β)
    (hf : ∀ x y, f x = f y → x = y) (a : α) :
    ∀ l : List α, (l.map f).erase (f a) = (l.erase a).map f
  | [] => rfl
  | x :: l => by
    by_cases hx : x = a
    · subst hx; simp
    · have hfx : f x ≠ f a := fun h => hx (hf x a h)
      simp [List.erase_cons_tail, hx, hfx, map_erase_inj f hf a l]

theorem tranked_inst_gen (σ : Role → Nat) (hσ : ∀ r r' : Role, r.cls = r'.cls → σ r = σ r' → r = r') :
    ∀ (t : List TAct) (held : List Role), TRanked held t = true →
      Ranked2 (held.map (instLock σ)) (t.map (instAct σ))
  | [], held, h => by
    simp only [TRanked, List.isEmpty_iff] at h
    subst h; rfl
  | .acq r :: rest, held, h => by
    simp only [TRanked, Bool.and_eq_true, List.all_eq_true, decide_eq_true_eq] at h
    refine ⟨?_, tranked_inst_gen σ hσ rest (r :: held) h.2⟩
    intro x hx
    obtain ⟨y, hy, rfl⟩ := List.mem_map.1 hx
    exact h.1 y hy
  | .rel r :: rest, held, h => by
    simp only [TRanked, Bool.and_eq_true, List.contains_iff_mem] at h
    refine ⟨List.mem_map_of_mem h.1, ?_⟩
    rw [map_erase_inj _ (instLock_inj σ hσ)]
    exact tranked_inst_gen σ hσ rest (held.erase r) h.2
  | .fresh r :: rest, held, h => by
    simp only [TRanked, Bool.and_eq_true, Bool.not_eq_true', List.contains_eq_mem, decide_eq_false_iff_not] at h
    refine ⟨?_, tranked_inst_gen σ hσ rest (r :: held) h.2⟩
    intro hm
    exact h.1 ((mem_map_inj _ (instLock_inj σ hσ) r held).1 hm)
  | .acqIf r :: rest, held, h => by
    simp only [TRanked, Bool.and_eq_true, List.all_eq_true, decide_eq_true_eq] at h
    refine ⟨?_, tranked_inst_gen σ hσ rest (r :: held) h.1.2, tranked_inst_gen σ hσ rest held h.2⟩
    intro x hx
    obtain ⟨y, hy, rfl⟩ := List.mem_map.1 hx
    exact h.1.1 y hy
  | .relIf r :: rest, held, h => by
    simp only [TRanked] at h
    show Ranked2 ((held.map (instLock σ)).erase (instLock σ r)) (rest.map (instAct σ))
    rw [map_erase_inj _ (instLock_inj σ hσ)]
    exact tranked_inst_gen σ hσ rest (held.erase r) h

theorem tranked_inst (σ : Role → Nat) (hσ : ∀ r r' : Role, r.cls = r'.cls → σ r = σ r' → r = r')
    (t : List TAct) (h : TRanked [] t = true) : Ranked2 [] (t.map (instAct σ)) :=
  tranked_inst_gen σ hσ t [] h

theorem freshOf_inst (σ : Role → Nat) (t : List TAct) :
    freshOf (t.map (instAct σ)) = (tfreshOf t).map (instLock σ) := by
  induction t with
  | nil => rfl
  | cons x rest ih => cases x <;> simp [freshOf, tfreshOf, instAct, ih]

theorem plainOf_inst (σ : Role → Nat) (t : List TAct) :
    plainOf (t.map (instAct σ)) = (tplainOf t).map (instLock σ) := by
  induction t with
  | nil => rfl
  | cons x rest ih => cases x <;> simp [plainOf, tplainOf, instAct, ih]

/-! ## T4: class discipline -/

/-- The classes of execution locks of callbacks: the only ones created by `fresh`. -/
def execCls : Cls → Bool
  | .setExec => true
  | .inExec => true
  | .derExec => true
  | _ => false

/-- Fresh locks are execution locks; plain acquisitions are of other classes. -/
def ClsDisciplined (sc : List Act2) : Prop :=
  (∀ l ∈ freshOf sc, execCls l.cls = true) ∧ (∀ l ∈ plainOf sc, execCls l.cls = false)

theorem poolWF_of_disciplined (vis0 : List Lock) (ts : List LT2)
    (hd : ∀ t ∈ ts, ClsDisciplined t.script)
    (hn : (ts.flatMap (fun t => freshOf t.script)).Nodup)
    (hv : ∀ t ∈ ts, ∀ l ∈ freshOf t.script, l ∉ vis0) : PoolWF vis0 ts := by
  refine ⟨hn, hv, ?_⟩
  intro t ht t' ht' l hl hp
  have h1 := (hd t ht).1 l hl
  have h2 := (hd t' ht').2 l hp
  rw [h1] at h2
  exact Bool.noConfusion h2

theorem clsDisciplined_append (a b : List Act2) (ha : ClsDisciplined a) (hb : ClsDisciplined b) :
    ClsDisciplined (a ++ b) := by
  refine ⟨?_, ?_⟩
  · intro l hl
    rw [freshOf_append, List.mem_append] at hl
    rcases hl with hl | hl
    · exact ha.1 l hl
    · exact hb.1 l hl
  · intro l hl
    rw [plainOf_append, List.mem_append] at hl
    rcases hl with hl | hl
    · exact ha.2 l hl
    · exact hb.2 l hl

theorem clsDisciplined_nil : ClsDisciplined [] :=
  ⟨fun _ h => by simp [freshOf] at h, fun _ h => by simp [plainOf] at h⟩

theorem clsDisciplined_flatMap {α : Type} (f : α → List Act2) (hf : ∀ x, ClsDisciplined (f x)) :
    ∀ xs : List α, ClsDisciplined (xs.flatMap f)
  | [] => clsDisciplined_nil
  | x :: xs => by
    rw [List.flatMap_cons]
    exact clsDisciplined_append _ _ (hf x) (clsDisciplined_flatMap f hf xs)

/-- The decidable check on templates. -/
def tDisciplined (t : List TAct) : Bool :=
  (tfreshOf t).all (fun r => execCls r.cls) && (tplainOf t).all (fun r => !execCls r.cls)

theorem disciplined_inst (σ : Role → Nat) (t : List TAct) (h : tDisciplined t = true) :
    ClsDisciplined (t.map (instAct σ)) := by
  simp only [tDisciplined, Bool.and_eq_true, List.all_eq_true, Bool.not_eq_true'] at h
  refine ⟨?_, ?_⟩
  · intro l hl
    rw [freshOf_inst] at hl
    obtain ⟨r, hr, rfl⟩ := List.mem_map.1 hl
    exact h.1 r hr
  · intro l hl
    rw [plainOf_inst] at hl
    obtain ⟨r, hr, rfl⟩ := List.mem_map.1 hl
    exact h.2 r hr

/-! ## T5: the exemption of `fresh` is needed and within the hypotheses -/

instance instDecidableRanked2 : (held : List Lock) → (sc : List Act2) → Decidable (Ranked2 held sc)
  | held, [] => inferInstanceAs (Decidable (held = []))
  | held, .acq l :: rest =>
    have := instDecidableRanked2 (l :: held) rest
    inferInstanceAs (Decidable ((∀ h ∈ held, h.cls.rank < l.cls.rank) ∧ Ranked2 (l :: held) rest))
  | held, .rel l :: rest =>
    have := instDecidableRanked2 (held.erase l) rest
    inferInstanceAs (Decidable (l ∈ held ∧ Ranked2 (held.erase l) rest))
  | held, .fresh l :: rest =>
    have := instDecidableRanked2 (l :: held) rest
    inferInstanceAs (Decidable (l ∉ held ∧ Ranked2 (l :: held) rest))
  | held, .acqIf l :: rest =>
    have := instDecidableRanked2 (l :: held) rest
    have := instDecidableRanked2 held rest
    inferInstanceAs (Decidable ((∀ h ∈ held, h.cls.rank < l.cls.rank) ∧ Ranked2 (l :: held) rest ∧ Ranked2 held rest))
  | held, .relIf l :: rest =>
    have := instDecidableRanked2 (held.erase l) rest
    inferInstanceAs (Decidable (Ranked2 (held.erase l) rest))

theorem poolWF_iff (vis0 : List Lock) (ts : List LT2) :
    PoolWF vis0 ts ↔
      (ts.flatMap (fun t => freshOf t.script)).Nodup ∧ (∀ t ∈ ts, ∀ l ∈ freshOf t.script, l ∉ vis0) ∧
        (∀ t ∈ ts, ∀ t' ∈ ts, ∀ l ∈ freshOf t.script, l ∉ plainOf t'.script) :=
  ⟨fun h => ⟨h.nodup, h.notVisible, h.noPlain⟩, fun h => ⟨h.1, h.2.1, h.2.2⟩⟩

instance (vis0 : List Lock) (ts : List LT2) : Decidable (PoolWF vis0 ts) :=
  decidable_of_iff _ (poolWF_iff vis0 ts).symm

/-- `A` registers a callback (fresh `inExec 7`) while holding `sorted 0`. -/
def exA : LT2 :=
  { held := [], script := [.acq ⟨.sorted, 0⟩, .fresh ⟨.inExec, 7⟩, .rel ⟨.inExec, 7⟩, .rel ⟨.sorted, 0⟩] }

/-- `W` runs that callback if it is registered; the callback takes `sorted 0`. -/
def exW : LT2 :=
  { held := [], script := [.acqIf ⟨.inExec, 7⟩, .acq ⟨.sorted, 0⟩, .rel ⟨.sorted, 0⟩, .relIf ⟨.inExec, 7⟩] }

example : Ranked2 [] exA.script ∧ Ranked2 [] exW.script ∧ PoolWF [] [exA, exW] := by decide

/-- With a rank condition at `fresh` (i.e. `fresh` read as `acq`) thread `A` would be rejected. -/
example : ¬ Ranked2 [] [.acq ⟨.sorted, 0⟩, .acq ⟨.inExec, 7⟩, .rel ⟨.inExec, 7⟩, .rel ⟨.sorted, 0⟩] := by decide

/-- The hypotheses of `ranked2_deadlock_free` hold for the example pool. -/
example (c : Cfg LS2 LT2) (hr : Reach lockSys2 ({ held := [], visible := [] }, [exA, exW]) c) :
    ¬ Deadlock lockSys2 (fun t => t.script = []) c :=
  ranked2_deadlock_free [] [exA, exW] (by decide) (by decide) c hr

end Hive.Derived
